(* Alg/PLERussian.v — EXECUTABLE model (definitions only, no proofs) of the Four-Russians PLE base
   case of m4ri/ple_russian.c on abstract matrices (Lin/Mat.v: a row is an N, column j = bit j):

     win_cols            = the width (in columns) of the window _mzd_ple_submatrix works on
                           (ple_russian.c:452-453 splitblock, :124-128 mzd_init_window)
     sub_scan/sub_cols/sub_finish/ple_sub
                         = _mzd_ple_submatrix (ple_russian.c:119-188): lazy elimination with
                           pivots[] / done[] / done_row
     ple_a10             = _mzd_ple_a10  (:326-347)
     u_pairs             = _mzd_ple_to_e (:365-378), paired with pivots[]
     ple_ntables, ple_tables
                         = the choice of 1..7 tables (:494-509), _kk_setup (:62-117) and the slices of
                           U / pivots[] handed to mzd_make_table_ple (:518-524)
     m_index / e_lookup  = the index arrays M / E of ple_table_t (mzd_make_table_ple :191-295)
     ple_a11             = _mzd_ple_a11_1 (:349-362) / _mzd_ple_a11_N (ple_russian_template.h:107-206)
     ple_process_rows    = _mzd_process_rows_ple_N (template :3-105) / mzd_process_rows for one table
     russian_loop        = the while loop of _mzd_ple_russian (:424-600) incl. the knar == 0 branch
     russian_compress    = "Now compressing L" (:602-607)
     ple_russian         = _mzd_ple_russian  (:381-623)        pluq_russian = _mzd_pluq_russian (:625)

   HOW THE TABLES ARE MODELLED (as in Alg/M4RI.v).  A table row is modelled by its VALUE: row i of
   table T (Gray index i, selection pattern s = ord[i]) is the xor of the rows of U selected by s,
   [mul_row s (rows of the table's slice of U)], from the word of the block start on — U has its bits
   [64*(c/64), c + pivots[l]) cleared in row l (_mzd_ple_to_e), the model clears all bits below
   c + pivots[l]: the words below c/64 of a table row are never added to anything (a11 adds from
   word splitblock, process_rows from word c/64).  The Gray-code construction of the rows
   (m4ri_codebook[knar]->inc) is the one proven in GrayProofs.v for mzd_make_table; row 0 of every
   table is never written and stays zero from mzd_init.  The index arrays are modelled by the map
   they hold on the entries mzd_make_table_ple WRITES:
     M[spread(s)] = row(s)   -> [m_index]: the selection is gathered from the pivot positions of the
                                block bits (if the bits are not of the form spread(s) the C code reads an entry
                                of M that was never written; [m_hit] says whether the entry was written);
     E[pattern(row(s))] = row(s) (full rank only) -> [e_lookup]: search for the s whose table row
                                has the given pattern on the table's own k columns;
     B[row(s)] = bits of the FIXED row (row(s) xor s on the own columns) from the block start on;
                                the model does not truncate B to 64 bits: only the kk <= 64 block
                                bits of [bits] are ever consulted.
   The split of the kk block columns over 1..7 tables with the sizes of _kk_setup IS modelled.

   WINDOW.  _mzd_ple_submatrix works on mzd_init_window(A, 0, 0, nrows, 64*splitblock) when
   width > splitblock: row swaps and row additions then only reach the columns below 64*splitblock.
   Modelled like ple.c's windows in Alg/PLE.v: [window] out, [mpaste] back.  The columns from
   64*splitblock on are caught up by _mzd_ple_a10 (pivot rows) and _mzd_ple_a11 (rows up to done_row).

   Row operations are written at row level: [red1 n u q x] = "if bit q of x then x ^= u on the
   columns (q, n)" is mzd_row_add_offset(A, i, src, q + 1) guarded by the test of bit q.

   PARAMETERS.  [k] >= 1 (the automatic choice for k = 0, :393-404, is a function of the dimensions
   and cache sizes with values in 2..8 and is abstracted).  The C code needs 7k <= 64 (assert :406;
   mzd_read_bits reads at most 64 bits); the model has no such limit.
   Fuel = number of columns (the column cursor strictly increases); out of fuel yields the invalid
   output ((0, A), ([], [])), excluded by the theorems.
   P0, Q0 = contents of P->values, Q->values on entry: overwritten by the identity (:410-412). *)
From Coq Require Import List NArith Arith Bool.
From M4 Require Import Base.Bits Lin.Mat Lin.Ops Alg.PLE Alg.M4RI.
Import ListNotations.
Local Open Scope nat_scope.

(** * elementary steps at row level *)
(** the guarded mzd_row_add_offset(A, i, src, q + 1): [u] = row src, [n] = ncols *)
Definition red1 (n : nat) (u : N) (q : nat) (x : N) : N :=
  if N.testbit x (N.of_nat q) then N.lxor x (N.land u (colmask (S q) n)) else x.

(** bit b of the result = bit (nth b ps) of [bits]  (m4ri_shrink_bits) *)
Fixpoint gather (ps : list nat) (bits : N) : N :=
  match ps with
  | [] => 0%N
  | p :: t => (N.b2n (N.testbit bits (N.of_nat p)) + 2 * gather t bits)%N
  end.
(** m4ri_spread_bits *)
Fixpoint spread (ps : list nat) (s : N) : N :=
  match ps with
  | [] => 0%N
  | p :: t => N.lxor (if N.odd s then (2 ^ N.of_nat p)%N else 0%N) (spread t (N.div2 s))
  end.

(** * the window of _mzd_ple_submatrix: number of columns (ple_russian.c:452, :124-128) *)
Definition win_cols (ncols c kk : nat) : nat :=
  let width := (ncols + radix - 1) / radix in
  let splitblock := Nat.min (Nat.max ((c + kk) / radix + 1) (c / radix + 8)) width in
  if splitblock <? width then radix * splitblock else ncols.

(** * _mzd_ple_submatrix *)
(** :144-149, "clear before but preserve transformation matrix": row [x] at index [i] receives the
    pending pivots (done[l] < i) in the order l = 0, 1, ..; [l] = absolute row of the pivot *)
Fixpoint catch_up (W : mat) (c0 i l : nat) (pivots done : list nat) (x : N) : N :=
  match pivots, done with
  | p :: ps, d :: ds =>
    catch_up W c0 i (S l) ps ds (if d <? i then red1 (nc W) (row W l) (c0 + p) x else x)
  | _, _ => x
  end.

(** the loop over i = start_row + rank .. stop_row - 1 for the column c0 + cp (:138-156);
    [n] = stop_row - i (exact).  Returns the matrix, done[] and the row where the pivot was found. *)
Fixpoint sub_scan (n : nat) (W : mat) (r0 c0 cp : nat) (pivots done : list nat) (i : nat)
  : mat * list nat * option nat :=
  match n with
  | 0 => (W, done, None)
  | S n' =>
    if N.eqb (read_bits W i c0 (S cp)) 0 then sub_scan n' W r0 c0 cp pivots done (S i)
    else
      let x := catch_up W c0 i r0 pivots done (row W i) in
      let W1 := set_row W i x in
      let done1 := map (fun d => if d <? i then i else d) done in
      if N.testbit x (N.of_nat (c0 + cp)) then (W1, done1, Some i)
      else sub_scan n' W1 r0 c0 cp pivots done1 (S i)
  end.

(** the loop over curr_pos (:132-167); [n] = k - curr_pos; rank = length pivots = length done *)
Fixpoint sub_cols (n : nat) (W : mat) (P Q pivots done : list nat) (r0 c0 cp : nat)
  : mat * (list nat * list nat) * (list nat * list nat) :=
  match n with
  | 0 => (W, (P, Q), (pivots, done))
  | S n' =>
    let rank := length pivots in
    let '(W1, done1, found) := sub_scan (nr W - (r0 + rank)) W r0 c0 cp pivots done (r0 + rank) in
    match found with
    | Some i =>
      sub_cols n' (row_swap W1 (r0 + rank) i) (upd (r0 + rank) i P) (upd (r0 + rank) (c0 + cp) Q)
               (pivots ++ [cp]) (done1 ++ [i]) r0 c0 (S cp)
    | None => sub_cols n' W1 P Q pivots done1 r0 c0 (S cp)
    end
  end.

(** rows lo..hi (inclusive) with a one in column pc get row prow added on the columns > pc *)
Definition elim_rows (W : mat) (prow pc lo hi : nat) : mat :=
  fold_left (fun W r2 => if get W r2 pc then row_add_offset W r2 prow (S pc) else W)
            (seq lo (S hi - lo)) W.

(** "finish submatrix" (:175-178); the loop over c2 ENDS at the first pivot in the last column *)
Fixpoint sub_finish (W : mat) (c0 done_row l : nat) (pivots done : list nat) : mat :=
  match pivots, done with
  | p :: ps, d :: ds =>
    if c0 + p <? nc W - 1
    then sub_finish (elim_rows W l (c0 + p) (S d) done_row) c0 done_row (S l) ps ds
    else W
  | _, _ => W
  end.

(** _max_value (:56) *)
Definition max_value (l : list nat) : nat := fold_left Nat.max l 0.

(** returns ((W', done_row), (P, Q), pivots) *)
Definition ple_sub (W : mat) (r0 c0 kk : nat) (P Q : list nat)
  : (mat * nat) * (list nat * list nat) * list nat :=
  let '(W1, (P1, Q1), (pivots, done)) := sub_cols kk W P Q [] [] r0 c0 0 in
  let done_row := if length pivots <? kk then nr W - 1 else max_value done in
  ((sub_finish W1 c0 done_row r0 pivots done, done_row), (P1, Q1), pivots).

(** * _mzd_ple_a10: the part right of the window of the pivot rows *)
(** _mzd_row_swap(A, a, b, startblock): swap on the columns >= lo *)
Definition row_swap_from (M : mat) (a b lo : nat) : mat :=
  let keep := N.ones (N.of_nat lo) in
  let ra := row M a in let rb := row M b in
  set_row (set_row M a (N.lor (N.land ra keep) (N.ldiff rb keep)))
          b (N.lor (N.land rb keep) (N.ldiff ra keep)).

Definition ple_a10 (M : mat) (P : list nat) (r0 c0 ncw : nat) (pivots : list nat) : mat :=
  if ncw =? nc M then M else
  let knar := length pivots in
  let M := fold_left (fun M i => row_swap_from M i (nth i P 0) ncw) (seq r0 knar) M in
  fold_left (fun M i =>
     let tmp := read_bits M (r0 + i) c0 (nth i pivots 0) in
     fold_left (fun M j => if N.testbit tmp (N.of_nat (nth j pivots 0))
                           then row_add_offset M (r0 + i) (r0 + j) ncw else M)
               (seq 0 i) M)
    (seq 1 (knar - 1)) M.

(** * U (= E of _mzd_ple_to_e) with the pivot offsets: [(pivots[l], row l of U)] *)
Definition u_pairs (M : mat) (r0 c0 : nat) (pivots : list nat) : list (nat * N) :=
  map (fun '(l, p) => (p, N.land (row M (r0 + l)) (colmask (c0 + p) (nc M))))
      (combine (seq 0 (length pivots)) pivots).

(** * the tables *)
(** ple_russian.c:494-509 with __M4RI_PLE_NTABLES = 7 (the branch for 8 is dead) *)
Definition ple_ntables (k kk : nat) : nat :=
  if (6 * k <=? kk) && (7 <=? kk) then 7 else
  if (5 * k <=? kk) && (6 <=? kk) then 6 else
  if (4 * k <=? kk) && (5 <=? kk) then 5 else
  if (3 * k <=? kk) && (4 <=? kk) then 4 else
  if (2 * k <=? kk) && (3 <=? kk) then 3 else
  if (k <=? kk) && (2 <=? kk) then 2 else 1.

(** lb[], k_[] of _kk_setup: the sizes are [split_sizes] of Alg/M4RI.v (kk / n, one more for the
    tables t with n - 1 - t <= kk mod n, never for the last) *)
Fixpoint tbl_bounds (lb : nat) (sizes : list nat) : list (nat * nat) :=
  match sizes with
  | [] => []
  | k :: t => (lb, k) :: tbl_bounds (lb + k) t
  end.

(** table j = (lb_j, k_j, the pairs of U whose pivot lies in [lb_j, lb_j + k_j)): pivots[] is
    increasing, so this is the slice [i_knar, i_knar + knar_[j]) of :518-524 *)
Definition ple_tables (k kk : nat) (U : list (nat * N)) : list (nat * nat * list (nat * N)) :=
  map (fun '(lb, kj) => (lb, kj, filter (fun '(p, _) => (lb <=? p) && (p <? lb + kj)) U))
      (tbl_bounds 0 (split_sizes (ple_ntables k kk) kk)).

(** the selection found through M for the block bits [bj] (already shifted to the table base) *)
Definition m_index (lb : nat) (ps : list nat) (bj : N) : N := gather (map (fun p => p - lb) ps) bj.
(** was that entry of M written by mzd_make_table_ple? *)
Definition m_hit (lb : nat) (ps : list nat) (bj : N) : bool :=
  N.eqb (spread (map (fun p => p - lb) ps) (m_index lb ps bj)) bj.

(** the selection found through E: the table row whose bits on the own columns [c0+lb, c0+lb+k)
    are [pat]; 0 if there is none (the C code would read an entry never written) *)
Definition e_lookup (c0 lb k : nat) (urows : list N) (pat : N) : N :=
  match find (fun s => N.eqb (N.land (N.shiftr (mul_row s urows) (N.of_nat (c0 + lb)))
                                     (N.ones (N.of_nat k))) pat)
             (map N.of_nat (seq 0 (2 ^ k))) with
  | Some s => s
  | None => 0%N
  end.

(** * _mzd_ple_a11_N: rows lo .. hi-1, columns >= ncw *)
Definition a11_value (c0 : nat) (tbls : list (nat * nat * list (nat * N))) (bits : N) : N :=
  fold_left (fun acc '(lb, kj, prs) =>
               let bj := N.land (N.shiftr bits (N.of_nat lb)) (N.ones (N.of_nat kj)) in
               N.lxor acc (mul_row (m_index lb (map fst prs) bj) (map snd prs)))
            tbls 0%N.

Definition ple_a11 (M : mat) (lo hi c0 kk ncw : nat) (tbls : list (nat * nat * list (nat * N))) : mat :=
  if ncw =? nc M then M else
  map_rows (fun i x => if (lo <=? i) && (i <? hi)
                       then N.lxor x (N.land (a11_value c0 tbls (N.land (N.shiftr x (N.of_nat c0))
                                                                        (N.ones (N.of_nat kk))))
                                             (colmask ncw (nc M)))
                       else x) M.

(** * _mzd_process_rows_ple_N (full rank: every block column is a pivot column) *)
Fixpoint pr_value (c0 : nat) (tbls : list (nat * nat * list (nat * N))) (bits acc : N) : N :=
  match tbls with
  | [] => acc
  | (lb, kj, prs) :: t =>
    let urows := map snd prs in
    let s := e_lookup c0 lb kj urows (N.land (N.shiftr bits (N.of_nat lb)) (N.ones (N.of_nat kj))) in
    (* the fixed table row: mzd_xor_bits(T, i, writecol, k, ord[i]) *)
    let v := N.lxor (mul_row s urows) (N.shiftl s (N.of_nat (c0 + lb))) in
    pr_value c0 t (N.lxor bits (N.shiftr v (N.of_nat c0))) (N.lxor acc v)
  end.

Definition ple_process_rows (M : mat) (lo hi c0 kk : nat) (tbls : list (nat * nat * list (nat * N))) : mat :=
  map_rows (fun i x => if (lo <=? i) && (i <? hi)
                       then N.lxor x (pr_value c0 tbls (N.land (N.shiftr x (N.of_nat c0))
                                                              (N.ones (N.of_nat kk))) 0%N)
                       else x) M.

(** * one pass of the while loop up to the branch on knar: steps 1-3 (:452-471) *)
(** returns ((M', done_row), (P, Q), pivots, ncw) *)
Definition russian_sub (M : mat) (P Q : list nat) (r c kk : nat)
  : (mat * nat) * (list nat * list nat) * list nat * nat :=
  let ncw := win_cols (nc M) c kk in
  let W := window M 0 0 (nr M) ncw in
  let '((W1, done_row), (P1, Q1), pivots) := ple_sub W r c kk P Q in
  let M1 := mpaste M 0 0 W1 in
  let M2 := ple_a10 M1 P1 r c ncw pivots in
  ((M2, done_row), (P1, Q1), pivots, ncw).

(** steps 4-6 for knar > 0 (:492-596) *)
Definition russian_update (k : nat) (M : mat) (r c kk ncw done_row : nat) (pivots : list nat) : mat :=
  let knar := length pivots in
  let tbls := ple_tables k kk (u_pairs M r c pivots) in
  let M3 := ple_a11 M (r + knar) (S done_row) c kk ncw tbls in
  if done_row <? nr M then ple_process_rows M3 (S done_row) (nr M) c kk tbls else M3.

(** * the while loop (:424-600); state: A, P, Q, curr_row, curr_col, kk *)
Fixpoint russian_loop (fuel k : nat) (M : mat) (P Q : list nat) (r c kk : nat)
  : option (mat * (list nat * list nat) * nat) :=
  if (c <? nc M) && (r <? nr M) then
    match fuel with
    | 0 => None
    | S fuel' =>
      let kk := if nc M <? c + kk then nc M - c else kk in
      let '((M2, done_row), (P1, Q1), pivots, ncw) := russian_sub M P Q r c kk in
      if length pivots =? 0 then
        (* no pivot in the block: one step of the naive algorithm from (r, c + kk) *)
        let c1 := c + kk in
        match find_pivot M2 r c1 with
        | Some (i, j) =>
          let P2 := upd r i P1 in
          let Q2 := upd r j Q1 in
          let M3 := row_swap M2 r i in
          let M4 := if S j <? nc M then elim_below M3 r j (S j) else M3 in
          russian_loop fuel' k M4 P2 Q2 (S r) (S j) kk
        | None => Some (M2, (P1, Q1), r)
        end
      else
        russian_loop fuel' k (russian_update k M2 r c kk ncw done_row pivots) P1 Q1
                     (r + length pivots) (c + kk) kk
    end
  else Some (M, (P, Q), r).

(** * "Now compressing L" (:602-607) *)
(** mzd_apply_p_right_trans_even_capped(A, Qbar, r, 0) with Qbar = Q[0..r): the column swaps
    j <-> Q[j], j = 0 .. r-1 in this order, on the rows >= r (the gather kernel of
    _mzd_apply_p_right_even is treated in Lin/Perm.v) *)
Definition russian_compress (M : mat) (Q : list nat) (r : nat) : mat :=
  let M := fold_left (fun M j => if j <? nth j Q 0 then col_swap_in_rows M (nth j Q 0) j j r else M)
                     (seq 0 r) M in
  fold_left (fun M j => col_swap_in_rows M j (nth j Q 0) r (nr M)) (seq 0 (Nat.min r (nc M))) M.

(** * _mzd_ple_russian(A, P, Q, k), k >= 1 *)
Definition ple_russian (k : nat) (A : mat) (P0 Q0 : list nat) : ple_out :=
  match russian_loop (nc A) k A (fill_id 0 P0) (fill_id 0 Q0) 0 0 (7 * k) with
  | Some (M, (P, Q), r) => ((r, russian_compress M Q r), (P, Q))
  | None => ((0, A), ([], []))
  end.

(** _mzd_pluq_russian: mzd_apply_p_right_trans_tri on the whole of A *)
Definition pluq_russian (k : nat) (A : mat) (P0 Q0 : list nat) : ple_out :=
  let '((r, A'), (P, Q)) := ple_russian k A P0 Q0 in ((r, apply_p_right_trans_tri A' Q), (P, Q)).

(** * entry points for the correspondence driver (identity P0 / Q0 of the right lengths) *)
Definition ple_russian_run (k : nat) (A : mat) : ple_out :=
  ple_russian k A (seq 0 (nr A)) (seq 0 (nc A)).
Definition pluq_russian_run (k : nat) (A : mat) : ple_out :=
  pluq_russian k A (seq 0 (nr A)) (seq 0 (nc A)).
