(* Alg/PLERussianProofs11.v — C03, Four-Russians base case, part 11: steps 2, 4-6 of one pass of the
   while loop (_mzd_ple_a10, the tables, _mzd_ple_a11_N, _mzd_process_rows_ple_N) turn the state left
   by _mzd_ple_submatrix into the state of the naive algorithm, row by row — for EVERY k.

     update_ok_ones : [update_ok k] (part 5) with the additional hypothesis [ones] (part 8: the pivot
                      entries of the naive state are ones — a fact about _mzd_ple_submatrix that [SubPost]
                      does not record, but [sub_spec_ones] provides);
     block_ok_all   : forall k, block_ok k            (one pass of the while loop, part 1)

   Rows < r + knar        : window (sp_rows) + _mzd_ple_a10 right of the window          (part 9)
   rows r + knar..done_row: window (sp_rows) + _mzd_ple_a11_N through the index array M   (part 10),
                            both against the closed form of the naive algorithm           (part 2)
   rows > done_row        : untouched so far (only when the block has full rank);
                            _mzd_process_rows_ple_N through E / B = sequential elimination (part 7)
                            by the rows of U, which is what the naive algorithm does to them.    *)
From Coq Require Import List NArith Arith Lia Bool Sorted.
From M4 Require Import Base.Bits Lin.Mat Lin.MatAlg Lin.Ops Lin.OpsProofs Lin.Spec Lin.Perm Lin.Observers Lin.Echelon
  Alg.PLE Alg.PLELemmas Alg.PLESpec Alg.PLEProofs Alg.PLEProofs2 Alg.PLEProofs3 Alg.PLEProofs4
  Alg.M4RI Alg.PLERussian Alg.PLERussianProofs Alg.PLERussianProofs2 Alg.PLERussianProofs3 Alg.PLERussianProofs4
  Alg.PLERussianProofs5 Alg.PLERussianProofs7 Alg.PLERussianProofs8 Alg.PLERussianProofs9 Alg.PLERussianProofs10.
Import ListNotations.
Local Open Scope nat_scope.

(** * more lo / hi / red1 algebra *)
Lemma hi_land_colmask_le w n u q : q <= w -> bounded n u -> hi w (N.land u (colmask q n)) = hi w u.
Proof.
  intros Hq Hu. apply bits_ext_nat. intros j. tb.
  destruct (Nat.ltb_spec j w); cbn [negb]; [now rewrite !andb_false_r|].
  destruct (Nat.leb_spec q j); [|lia]. destruct (Nat.ltb_spec j n); cbn [andb]; [now rewrite andb_true_r|].
  now rewrite (Hu j) by assumption.
Qed.

Lemma lo_land_colmask w n v : lo w (N.land v (colmask w n)) = 0%N.
Proof.
  apply bits_ext_nat. intros j. tb.
  destruct (Nat.leb_spec w j), (Nat.ltb_spec j w); try lia; cbn [andb]; now rewrite ?andb_false_r.
Qed.

Lemma red1_mask n v q x : red1 n (N.land v (colmask q n)) q x = red1 n v q x.
Proof.
  apply bits_ext_nat. intros j. rewrite !testbit_red1. tb.
  destruct (Nat.leb_spec (S q) j) as [C|C]; cbn [andb]; rewrite ?andb_false_r; [|reflexivity].
  destruct (Nat.leb_spec q j); [|lia].
  destruct (Nat.ltb_spec j n); cbn [andb]; rewrite ?andb_true_r, ?andb_false_r; reflexivity.
Qed.

Lemma u_pairs_full' X r c kk pivots : pivots = seq 0 kk ->
  u_pairs X r c pivots = map (fun l => (l, ufun X r c l)) (seq 0 kk).
Proof. intros ->. apply u_pairs_full. Qed.

Section Update.
  Variables (k : nat) (M : mat) (P0 Q0 : list nat) (r c kk c' : nat) (W1 : mat) (done_row : nat)
            (P1 Q1 pivots : list nat) (pv : list (nat * nat)) (cur : nat).
  Hypothesis HM : wf M.
  Hypothesis Hr : r < nr M.
  Hypothesis Hkk : 1 <= kk.
  Hypothesis Hck : c + kk <= nc M.
  Notation w := (win_cols (nc M) c kk).
  Hypothesis HS : SubPost M P0 Q0 r c kk w c' W1 done_row P1 Q1 pivots pv cur.
  Hypothesis Hones : ones M r c pivots pv.

  Notation NN := (nsteps M r pv).
  Notation SS := (sw M r pv).
  Notation knar := (length pivots).
  Notation M1 := (mpaste M 0 0 W1).
  Notation M2 := (ple_a10 M1 P1 r c w pivots).
  Notation tbls := (ple_tables k kk (u_pairs M2 r c pivots)).

  Lemma w_bounds : c + kk <= w <= nc M.
  Proof. now apply win_cols_bounds. Qed.

  Lemma len_pv : length pv = knar.
  Proof. apply (sp_len_pv _ _ _ _ _ _ _ _ _ _ _ _ _ _ _ HS). Qed.

  Lemma p_lt l : l < knar -> nth l pivots 0 < kk.
  Proof. intros Hl. apply (sp_lt _ _ _ _ _ _ _ _ _ _ _ _ _ _ _ HS). now apply nth_In. Qed.

  Lemma pv_j l : l < knar -> snd (nth l pv (0, 0)) = c + nth l pivots 0.
  Proof. apply (sp_pvj _ _ _ _ _ _ _ _ _ _ _ _ _ _ _ HS). Qed.

  Lemma pvok : pv_ok M r pv.
  Proof.
    split.
    - intros l Hl. rewrite len_pv in Hl. now apply (sp_pvi _ _ _ _ _ _ _ _ _ _ _ _ _ _ _ HS).
    - intros l1 l2 H1 H2. rewrite len_pv in H2. rewrite !pv_j by lia.
      pose proof (sorted_nth_lt pivots l1 l2 (sp_sorted _ _ _ _ _ _ _ _ _ _ _ _ _ _ _ HS) H1 H2). lia.
  Qed.

  Lemma pv_w l : l < length pv -> snd (nth l pv (0, 0)) < w.
  Proof. intros Hl. rewrite len_pv in Hl. rewrite pv_j by assumption. pose proof (p_lt l Hl). pose proof w_bounds. lia. Qed.

  Lemma NN_facts : wf NN /\ nr NN = nr M /\ nc NN = nc M.
  Proof. apply (sp_wfN _ _ _ _ _ _ _ _ _ _ _ _ _ _ _ HS). Qed.

  Lemma le_done i : i < r + knar -> i <= done_row.
  Proof.
    intros Hi. destruct (Nat.le_gt_cases i done_row) as [C|C]; [assumption|exfalso].
    pose proof (sp_rank _ _ _ _ _ _ _ _ _ _ _ _ _ _ _ HS) as Hrk.
    destruct (sp_untouched _ _ _ _ _ _ _ _ _ _ _ _ _ _ _ HS i C ltac:(lia)) as (_ & H & _). lia.
  Qed.

  Lemma M1_facts : wf M1 /\ nr M1 = nr M /\ nc M1 = nc M /\
    forall i, lo w (row M1 i) = row W1 i /\ hi w (row M1 i) = hi w (row M i).
  Proof.
    pose proof (sp_wfW _ _ _ _ _ _ _ _ _ _ _ _ _ _ _ HS) as HW1.
    pose proof (sp_nrW _ _ _ _ _ _ _ _ _ _ _ _ _ _ _ HS) as HrW1.
    pose proof (sp_ncW _ _ _ _ _ _ _ _ _ _ _ _ _ _ _ HS) as HcW1.
    pose proof w_bounds as Hw.
    destruct (mpaste0_rows M W1 HM HW1 HrW1 ltac:(lia)) as (H1 & H2 & H3 & H4).
    splits; auto. intros i. specialize (H4 i). now rewrite HcW1 in H4.
  Qed.

  Lemma M2_facts : wf M2 /\ nr M2 = nr M /\ nc M2 = nc M /\
    forall i, lo w (row M2 i) = row W1 i /\
              hi w (row M2 i) = hi w (row (if (r <=? i) && (i <? r + knar) then NN else SS) i).
  Proof.
    destruct M1_facts as (H1 & H2 & H3 & H4). pose proof w_bounds as Hw.
    destruct (a10_spec M r c w pivots pv HM pvok len_pv pv_j (sp_sorted _ _ _ _ _ _ _ _ _ _ _ _ _ _ _ HS))
      with (X := M1) (P := P1) as (G1 & G2 & G3 & G4); auto; try lia.
    - intros l Hl. pose proof (p_lt l Hl). lia.
    - intros i. apply H4.
    - intros l Hl. rewrite (proj1 (H4 (r + l))).
      apply (sp_rows _ _ _ _ _ _ _ _ _ _ _ _ _ _ _ HS). apply le_done. lia.
    - apply (sp_P _ _ _ _ _ _ _ _ _ _ _ _ _ _ _ HS).
    - splits; auto. intros i. destruct (G4 i) as [G5 G6]. split; [|exact G6].
      rewrite G5. apply H4.
  Qed.

  Lemma M2_lo i : i <= done_row -> lo w (row M2 i) = lo w (row NN i).
  Proof.
    intros Hi. destruct M2_facts as (_ & _ & _ & H). rewrite (proj1 (H i)).
    now apply (sp_rows _ _ _ _ _ _ _ _ _ _ _ _ _ _ _ HS).
  Qed.

  (** the rows above and the pivot rows are final after _mzd_ple_a10 *)
  Lemma M2_top i : i < r + knar -> row M2 i = row NN i.
  Proof.
    intros Hi. apply (lo_hi_ext w); [apply M2_lo; now apply le_done|].
    destruct M2_facts as (_ & _ & _ & H). rewrite (proj2 (H i)).
    destruct (Nat.leb_spec r i) as [C|C]; cbn [andb].
    - destruct (Nat.ltb_spec i (r + knar)); [reflexivity|lia].
    - rewrite (sw_above pv M r i HM (proj1 pvok) C), (nsteps_above pv M r i HM (proj1 pvok) C). reflexivity.
  Qed.

  (** the rows beyond done_row still are the input rows *)
  Lemma M2_below i : done_row < i -> i < nr M -> row M2 i = row M i.
  Proof.
    intros Hi Hin. destruct (sp_untouched _ _ _ _ _ _ _ _ _ _ _ _ _ _ _ HS i Hi Hin) as (H1 & H2 & H3).
    destruct M2_facts as (_ & _ & _ & H). apply (lo_hi_ext w).
    - now rewrite (proj1 (H i)).
    - rewrite (proj2 (H i)). destruct (Nat.ltb_spec i (r + knar)); [lia|]. rewrite andb_false_r.
      rewrite sw_untouched; auto.
      + apply pvok.
      + intros t Ht. apply H3. now rewrite <- len_pv.
      + now rewrite len_pv.
  Qed.

  (** ** _mzd_ple_a11_N on a row r + knar <= i <= done_row *)
  Lemma a11_row i : r + knar <= i -> i <= done_row ->
    let x := row M2 i in
    N.lxor x (N.land (a11_value c tbls (N.land (N.shiftr x (N.of_nat c)) (N.ones (N.of_nat kk))))
                     (colmask w (nc M2))) = row NN i.
  Proof.
    intros H1 H2. cbv zeta.
    destruct M2_facts as (HwM2 & HrM2 & HcM2 & HrowM2). destruct NN_facts as (HwN & HrN & HcN).
    pose proof w_bounds as Hw.
    rewrite a11_value_u by apply (sp_lt _ _ _ _ _ _ _ _ _ _ _ _ _ _ _ HS).
    set (x := row M2 i). set (bits := N.land (N.shiftr x (N.of_nat c)) (N.ones (N.of_nat kk))).
    set (v := nsum knar _).
    assert (Hv : bounded (nc M2) v).
    { apply bounded_nsum. intros l Hl. destruct (N.testbit bits _); [|apply bounded_0].
      apply bounded_land_r, bounded_colmask. }
    apply (lo_hi_ext w).
    - rewrite lo_lxor, lo_land_colmask, N.lxor_0_r. now apply M2_lo.
    - rewrite hi_lxor, (land_colmask_hi w (nc M2) v Hv), hi_hi.
      unfold x at 1. rewrite (proj2 (HrowM2 i)).
      destruct (Nat.ltb_spec i (r + knar)); [lia|]. rewrite andb_false_r.
      rewrite (closed_hi M r w pv HM pvok pv_w i ltac:(lia)).
      replace (Nat.min (length pv) (i - r)) with knar by (rewrite len_pv; lia).
      f_equal. unfold v. rewrite hi_nsum. apply nsum_ext. intros l Hl. unfold hterm.
      rewrite pv_j by assumption. pose proof (p_lt l Hl) as Hp.
      replace (N.testbit bits (N.of_nat (nth l pivots 0)))
        with (N.testbit (row NN i) (N.of_nat (c + nth l pivots 0))).
      2:{ unfold bits. rewrite N.land_spec, testbit_shiftr_nat, testbit_ones_nat.
          destruct (Nat.ltb_spec (nth l pivots 0) kk); [|lia]. rewrite andb_true_r.
          rewrite (Nat.add_comm (nth l pivots 0) c). symmetry.
          apply (testbit_lo_eq w); [now apply M2_lo|lia]. }
      destruct (N.testbit (row NN i) _); [|apply hi_0].
      rewrite hi_land_colmask_le; [|lia|now apply wf_row_bounded].
      now rewrite M2_top by lia.
  Qed.

  (** ** _mzd_process_rows_ple_N on a row beyond done_row *)
  Lemma pr_row i : done_row < i -> i < nr M ->
    let x := row M i in
    N.lxor x (pr_value c tbls (N.land (N.shiftr x (N.of_nat c)) (N.ones (N.of_nat kk))) 0%N) = row NN i.
  Proof.
    intros Hi Hin. cbv zeta.
    destruct (sp_untouched _ _ _ _ _ _ _ _ _ _ _ _ _ _ _ HS i Hi Hin) as (U1 & U2 & U3).
    destruct M2_facts as (HwM2 & HrM2 & HcM2 & HrowM2). destruct NN_facts as (HwN & HrN & HcN).
    (* the block has full rank *)
    assert (Ekk : knar = kk).
    { pose proof (sp_kk _ _ _ _ _ _ _ _ _ _ _ _ _ _ _ HS).
      destruct (Nat.lt_ge_cases knar kk) as [C|C]; [|lia].
      pose proof (sp_dr_full _ _ _ _ _ _ _ _ _ _ _ _ _ _ _ HS C). lia. }
    assert (Ep : pivots = seq 0 kk).
    { rewrite <- Ekk. apply sorted_full; [apply (sp_sorted _ _ _ _ _ _ _ _ _ _ _ _ _ _ _ HS)|].
      intros p Hp. rewrite Ekk. now apply (sp_lt _ _ _ _ _ _ _ _ _ _ _ _ _ _ _ HS). }
    assert (Hnth : forall l, l < kk -> nth l pivots 0 = l).
    { intros l Hl. rewrite Ep. now apply seq_nth. }
    rewrite ple_tables_eq, (u_pairs_full' M2 r c kk pivots Ep).
    set (u := ufun M2 r c).
    assert (Eu : forall l, l < kk -> u l = N.land (row NN (r + l)) (colmask (c + l) (nc M))).
    { intros l Hl. unfold u, ufun. rewrite HcM2, M2_top by lia. reflexivity. }
    destruct (full_tables_aux (nc M) c kk u Hck) with (sizes := split_sizes (ple_ntables k kk) kk) (lb := 0)
      as [Hok Hse].
    - intros l Hl. rewrite Eu by assumption. apply bounded_land_r, bounded_colmask.
    - intros l Hl. rewrite Eu by assumption. rewrite N.land_spec, testbit_colmask.
      specialize (Hones l ltac:(lia)). rewrite Hnth in Hones by assumption. unfold get in Hones. rewrite Hones.
      destruct (Nat.leb_spec (c + l) (c + l)), (Nat.ltb_spec (c + l) (nc M)); try lia; reflexivity.
    - intros l j Hl Hj. rewrite Eu by assumption. rewrite N.land_spec, testbit_colmask.
      destruct (Nat.leb_spec (c + l) j); [lia|]. apply andb_false_r.
    - rewrite split_sizes_sum7 by apply ple_ntables_range. lia.
    - cbv zeta in Hok, Hse.
      set (x := row M i). set (bits := N.land (N.shiftr x (N.of_nat c)) (N.ones (N.of_nat kk))).
      rewrite (pr_value_sound (nc M) c kk Hck _ 0 bits 0%N x Hok).
      2:{ intros b _ Hb. unfold bits. rewrite N.lxor_0_r, N.land_spec, testbit_shiftr_nat, testbit_ones_nat.
          destruct (Nat.ltb_spec b kk); [|lia]. rewrite andb_true_r. f_equal. f_equal. lia. }
      rewrite N.lxor_0_r, Hse, split_sizes_sum7 by apply ple_ntables_range.
      rewrite (nsteps_untouched pv M r i HM (proj1 pvok)).
      + rewrite len_pv, Ekk. apply Lin.Perm.fold_left_ext_in. intros y l Hl. apply in_seq in Hl.
        rewrite Eu by lia. rewrite red1_mask. rewrite pv_j, Hnth by lia. reflexivity.
      + intros t Ht. apply U3. now rewrite <- len_pv.
      + now rewrite len_pv.
  Qed.

  (** ** the state after steps 2, 4-6 *)
  Theorem update_rows :
    let Mf := russian_update k M2 r c kk w done_row pivots in
    nr Mf = nr M /\ nc Mf = nc M /\ length (rows Mf) = nr M /\
    forall i, i < nr M -> row Mf i = row NN i.
  Proof.
    cbv zeta. destruct M2_facts as (HwM2 & HrM2 & HcM2 & HrowM2). destruct NN_facts as (HwN & HrN & HcN).
    pose proof (wf_len M2 HwM2) as Hlen2. pose proof w_bounds as Hw.
    pose proof (sp_dr _ _ _ _ _ _ _ _ _ _ _ _ _ _ _ HS) as Hdr.
    unfold russian_update.
    set (M3 := ple_a11 M2 (r + knar) (S done_row) c kk w tbls).
    assert (H3 : nr M3 = nr M /\ nc M3 = nc M /\ length (rows M3) = nr M /\
                 forall i, i < nr M -> row M3 i = if i <=? done_row then row NN i else row M i).
    { unfold M3, ple_a11. destruct (Nat.eqb_spec w (nc M2)) as [E|E].
      - splits; auto; try lia. intros i Hi. destruct (Nat.leb_spec i done_row) as [C|C]; [|now apply M2_below].
        apply (lo_hi_ext w); [now apply M2_lo|].
        assert (Hbw : forall x, bounded (nc M) x -> bounded w x) by (intros x Hx j Hj; apply Hx; lia).
        rewrite !hi_bounded; [reflexivity| |]; apply Hbw.
        + pose proof (wf_row_bounded _ i HwN) as Hb. now rewrite HcN in Hb.
        + pose proof (wf_row_bounded _ i HwM2) as Hb. now rewrite HcM2 in Hb.
      - splits; auto.
        + rewrite len_map_rows. lia.
        + intros i Hi. rewrite row_map_rows. destruct (Nat.ltb_spec i (length (rows M2))); [|lia].
          destruct (Nat.leb_spec (r + knar) i) as [C1|C1]; cbn [andb].
          * destruct (Nat.ltb_spec i (S done_row)) as [C2|C2].
            -- destruct (Nat.leb_spec i done_row); [|lia]. apply a11_row; lia.
            -- destruct (Nat.leb_spec i done_row); [lia|]. apply M2_below; lia.
          * pose proof (le_done i ltac:(lia)). destruct (Nat.leb_spec i done_row); [|lia]. apply M2_top. lia. }
    destruct H3 as (Hr3 & Hc3 & Hl3 & Hrow3).
    rewrite HrM2. destruct (Nat.ltb_spec done_row (nr M)); [|lia].
    unfold ple_process_rows. splits; auto.
    - now rewrite len_map_rows.
    - intros i Hi. rewrite row_map_rows, Hl3. destruct (Nat.ltb_spec i (nr M)); [|lia].
      rewrite Hrow3 by assumption.
      destruct (Nat.leb_spec (S done_row) i) as [C|C]; cbn [andb].
      + destruct (Nat.leb_spec i done_row); [lia|]. now apply pr_row.
      + destruct (Nat.leb_spec i done_row); [reflexivity|lia].
  Qed.
End Update.

(** * [update_ok] with the fact about the pivots that [SubPost] lacks; every k *)
Theorem update_ok_ones k : forall M P0 Q0 r c kk c' W1 done_row P1 Q1 pivots pv cur,
  wf M -> r < nr M -> 1 <= kk -> c + kk <= nc M ->
  let w := win_cols (nc M) c kk in
  SubPost M P0 Q0 r c kk w c' W1 done_row P1 Q1 pivots pv cur -> ones M r c pivots pv ->
  let M2 := ple_a10 (mpaste M 0 0 W1) P1 r c w pivots in
  let Mf := russian_update k M2 r c kk w done_row pivots in
  nr Mf = nr M /\ nc Mf = nc M /\ length (rows Mf) = nr M /\
  forall i, i < nr M -> row Mf i = row (nsteps M r pv) i.
Proof.
  intros M P0 Q0 r c kk c' W1 done_row P1 Q1 pivots pv cur HM Hr Hkk Hck w HS Ho.
  exact (update_rows k M P0 Q0 r c kk c' W1 done_row P1 Q1 pivots pv cur HM Hr Hkk Hck HS Ho).
Qed.

(** * one pass of the while loop, for every k (proof of [block_ok_of_update] with [sub_spec_ones]) *)
Theorem block_ok_all k : block_ok k.
Proof.
  intros M P Q r c kk c' HM Hr Hc Hkk Hck HP HQ Hc' Hg.
  unfold russian_sub.
  pose proof (win_cols_bounds (nc M) c kk Hck) as [Hw1 Hw2].
  set (w := win_cols (nc M) c kk) in *.
  destruct (window_facts M w HM) as (HW0 & HrW0 & HcW0 & HrowW0).
  pose proof (sub_spec_ones M P Q r c kk w c' HM Hr Hw1 Hkk Hw2 HP HQ Hc' Hg _ HW0 HrW0 HcW0 HrowW0) as HS.
  destruct (ple_sub (window M 0 0 (nr M) w) r c kk P Q) as [[[W1 done_row] [P1 Q1]] pivots].
  destruct HS as (pv & cur & HS & Ho).
  cbv zeta.
  set (M2 := ple_a10 (mpaste M 0 0 W1) P1 r c w pivots) in *.
  set (Mf := if length pivots =? 0 then M2 else russian_update k M2 r c kk w done_row pivots) in *.
  assert (HUp : nr Mf = nr M /\ nc Mf = nc M /\ length (rows Mf) = nr M /\
                forall i, i < nr M -> row Mf i = row (nsteps M r pv) i).
  { unfold Mf. destruct (Nat.eqb_spec (length pivots) 0) as [E0|E0].
    - apply (no_pivot_rows M P Q r c kk c' W1 done_row P1 Q1 pivots pv cur HM Hr Hkk Hck HS E0).
    - apply (update_ok_ones k M P Q r c kk c' W1 done_row P1 Q1 pivots pv cur HM Hr Hkk Hck HS Ho). }
  destruct HUp as (Hnr & Hnc & Hlen & Hrows).
  destruct (sp_wfN _ _ _ _ _ _ _ _ _ _ _ _ _ _ _ HS) as (HwN & HrN & HcN).
  assert (E : Mf = nsteps M r pv).
  { apply mat_eq_rows; try congruence.
    - rewrite Hlen. symmetry. rewrite <- HrN. now apply wf_len.
    - intros i Hi. apply Hrows. lia. }
  rewrite E. splits; auto.
  - apply (sp_lenPQ _ _ _ _ _ _ _ _ _ _ _ _ _ _ _ HS).
  - apply (sp_lenPQ _ _ _ _ _ _ _ _ _ _ _ _ _ _ _ HS).
  - apply (sp_rank _ _ _ _ _ _ _ _ _ _ _ _ _ _ _ HS).
  - exists cur. splits.
    + apply (sp_cur _ _ _ _ _ _ _ _ _ _ _ _ _ _ _ HS).
    + apply (sp_gap _ _ _ _ _ _ _ _ _ _ _ _ _ _ _ HS).
    + apply (sp_eqn _ _ _ _ _ _ _ _ _ _ _ _ _ _ _ HS).
Qed.
