(* Alg/TRSM.v — executable models (definitions only) of m4ri/triangular.c, the inversion entry points
   of m4ri/brilliantrussian.c (mzd_inv_m4ri) and m4ri/mzd.c (mzd_invert_naive).
   Proofs: Lin/Tri.v, Alg/TRSMProofs.v, Alg/InvProofs.v.

   Conventions.  A triangular operand T is a *storage* matrix: only the strict named triangle of
   its leading n x n block is read, the diagonal is implicitly one, everything else may hold
   arbitrary data (Lin/Spec.v: [unit_lower n T], [unit_upper n T]).  n = nr B for the left
   variants and n = nc B for the right variants, exactly as in the C code (mb / nb).  All work is
   done on whole rows (values of type N), never entry by entry. *)
From Coq Require Import List NArith Arith Bool.
From M4 Require Import Base.Bits Lin.Mat Lin.Ops Alg.Gauss.
Import ListNotations.
Local Open Scope nat_scope.

(** * 1. Simple substitution models *)

(** ** lower left:  L X = B,  X_i = B_i + sum_{k<i} L[i,k] X_k   (i ascending)
    [acc] = rows 0..i-1 of X; [mul_row a acc] only looks at the first [length acc] = i bits of a,
    i.e. at the strict lower triangle of row i. *)
Fixpoint ll_go (L : mat) (i : nat) (acc : list N) (bs : list N) : list N :=
  match bs with
  | [] => acc
  | b :: bs' => ll_go L (S i) (acc ++ [N.lxor b (mul_row (row L i) acc)]) bs'
  end.
Definition trsm_lower_left (L B : mat) : mat := mk (nr B) (nc B) (ll_go L 0 [] (rows B)).

(** ** upper left:  U X = B,  X_i = B_i + sum_{i<k<n} U[i,k] X_k   (i descending)
    the recursive call returns rows i+1..n-1 of X; shifting row i of U by i+1 aligns bit 0 with
    column i+1, and [mul_row] stops after n-1-i bits: only the strict upper triangle is read. *)
Fixpoint ul_go (U : mat) (i : nat) (bs : list N) : list N :=
  match bs with
  | [] => []
  | b :: bs' => let acc := ul_go U (S i) bs' in
                N.lxor b (mul_row (N.shiftr (row U i) (N.of_nat (S i))) acc) :: acc
  end.
Definition trsm_upper_left (U B : mat) : mat := mk (nr B) (nc B) (ul_go U 0 (rows B)).

(** ** right variants: every row x of X solves x T = b on its own, by elimination:
    step (k, m_k): if bit k of the current row is set, add m_k = the off-diagonal part of row k
    of T.  Upper: k ascending (m_k lives on columns > k); lower: k descending (columns < k). *)
Definition ur_mask (n : nat) (U : mat) (k : nat) : N :=
  N.land (N.ldiff (row U k) (N.ones (N.of_nat (S k)))) (N.ones (N.of_nat n)).
Definition lr_mask (L : mat) (k : nat) : N := N.land (row L k) (N.ones (N.of_nat k)).

Definition elim_step (y : N) (km : N * N) : N :=
  if N.testbit y (fst km) then N.lxor y (snd km) else y.
Definition ur_steps (n : nat) (U : mat) : list (N * N) :=
  map (fun k => (N.of_nat k, ur_mask n U k)) (seq 0 n).
Definition lr_steps (n : nat) (L : mat) : list (N * N) :=
  map (fun k => (N.of_nat k, lr_mask L k)) (rev (seq 0 n)).

Definition trsm_upper_right (U B : mat) : mat :=
  let st := ur_steps (nc B) U in
  mk (nr B) (nc B) (map (fun b => fold_left elim_step st b) (rows B)).
Definition trsm_lower_right (L B : mat) : mat :=
  let st := lr_steps (nc B) L in
  mk (nr B) (nc B) (map (fun b => fold_left elim_step st b) (rows B)).

(** ** in-place inversion of a unit upper triangular matrix (mzd_trtri_upper), simple model:
    the strict upper triangle is replaced by that of the inverse of [unit_upper n U] (back
    substitution against the identity); diagonal and lower triangle are left as stored — that is
    what the C code does (it never writes them; but it *reads* the diagonal and needs ones there). *)
Definition tri_merge_upper (U V : mat) : mat :=
  mk (nr U) (nc U)
     (map (fun i => N.lor (N.land (row U i) (N.ones (N.of_nat (S i))))
                          (N.ldiff (row V i) (N.ones (N.of_nat (S i))))) (seq 0 (nr U))).
Definition trtri_upper_simple (U : mat) : mat :=
  tri_merge_upper U (trsm_upper_left U (mid (nr U))).

(** * 2. Faithful recursive models (m4ri/triangular.c) *)

Definition radix : nat := 64.        (* m4ri_radix; triangular.c asserts it is 64 *)

(** build-dependent thresholds *)
Record cfg := mkcfg {
  blocksize : nat;   (* __M4RI_MUL_BLOCKSIZE = MIN(sqrt(4*L3)/2, 2048) *)
  trtri_cut : N;     (* 2 * __M4RI_CPU_L3_CACHE: mzd_trtri_upper recurses iff nrows*ncols >= this *)
  sse2 : bool        (* __M4RI_HAVE_SSE2: trtri split rounded up to an even number of words *)
}.

(** split point: (((n - 1) / m4ri_radix + 1) >> 1) * m4ri_radix *)
Definition split (n : nat) : nat := (((n - 1) / radix + 1) / 2) * radix.

(** mzd_addmul(C, A, B, cutoff): C + A*B for every cutoff (property C01) *)
Definition addmul_spec (cutoff : nat) (C A B : mat) : mat := madd C (mmul A B).

Section Generic.
  (** the word-level base case, the middle regime and the Strassen addmul are parameters: the
      theorems hold for every implementation of them meeting the specification *)
  Variables (base middle : mat -> mat -> mat) (addmul : nat -> mat -> mat -> mat -> mat).
  Variable bsz : nat.       (* threshold between middle regime and recursion *)
  Variable cutoff : nat.    (* only ever handed on to addmul *)

  (** _mzd_trsm_lower_left: fuel = number of rows of B *)
  Fixpoint ll_rec (fuel : nat) (L B : mat) : mat :=
    match fuel with
    | 0 => B
    | S f =>
      let mb := nr B in let nb := nc B in
      if mb <=? radix then base L B
      else if mb <=? bsz then middle L B
      else
        let mb1 := split mb in let mb2 := mb - mb1 in
        let B0 := msub B 0 0 mb1 nb in
        let B1 := msub B mb1 0 mb2 nb in
        let L00 := msub L 0 0 mb1 mb1 in
        let L10 := msub L mb1 0 mb2 mb1 in
        let L11 := msub L mb1 mb1 mb2 mb2 in
        let X0 := ll_rec f L00 B0 in
        let B1' := addmul cutoff B1 L10 X0 in
        let X1 := ll_rec f L11 B1' in
        mstack X0 X1
    end.

  (** _mzd_trsm_upper_left *)
  Fixpoint ul_rec (fuel : nat) (U B : mat) : mat :=
    match fuel with
    | 0 => B
    | S f =>
      let mb := nr B in let nb := nc B in
      if mb <=? radix then base U B
      else if mb <=? bsz then middle U B
      else
        let mb1 := split mb in let mb2 := mb - mb1 in
        let B0 := msub B 0 0 mb1 nb in
        let B1 := msub B mb1 0 mb2 nb in
        let U00 := msub U 0 0 mb1 mb1 in
        let U01 := msub U 0 mb1 mb1 mb2 in
        let U11 := msub U mb1 mb1 mb2 mb2 in
        let X1 := ul_rec f U11 B1 in
        let B0' := addmul cutoff B0 U01 X1 in
        let X0 := ul_rec f U00 B0' in
        mstack X0 X1
    end.

  (** _mzd_trsm_upper_right: fuel = number of columns of B *)
  Fixpoint ur_rec (fuel : nat) (U B : mat) : mat :=
    match fuel with
    | 0 => B
    | S f =>
      let mb := nr B in let nb := nc B in
      if nb <=? radix then base U B
      else if nb <=? bsz then middle U B
      else
        let nb1 := split nb in let nb2 := nb - nb1 in
        let B0 := msub B 0 0 mb nb1 in
        let B1 := msub B 0 nb1 mb nb2 in
        let U00 := msub U 0 0 nb1 nb1 in
        let U01 := msub U 0 nb1 nb1 nb2 in
        let U11 := msub U nb1 nb1 nb2 nb2 in
        let X0 := ur_rec f U00 B0 in
        let B1' := addmul cutoff B1 X0 U01 in
        let X1 := ur_rec f U11 B1' in
        mconcat X0 X1
    end.

  (** _mzd_trsm_lower_right: no middle regime *)
  Fixpoint lr_rec (fuel : nat) (L B : mat) : mat :=
    match fuel with
    | 0 => B
    | S f =>
      let mb := nr B in let nb := nc B in
      if nb <=? radix then base L B
      else
        let nb1 := split nb in let nb2 := nb - nb1 in
        let B0 := msub B 0 0 mb nb1 in
        let B1 := msub B 0 nb1 mb nb2 in
        let L00 := msub L 0 0 nb1 nb1 in
        let L10 := msub L nb1 0 nb2 nb1 in
        let L11 := msub L nb1 nb1 nb2 nb2 in
        let X1 := lr_rec f L11 B1 in
        let B0' := addmul cutoff B0 X1 L10 in
        let X0 := lr_rec f L00 B0' in
        mconcat X0 X1
    end.
End Generic.

(** middle regime of upper_right (_mzd_trsm_upper_right_trtri): u = mzd_extract_u(U) (upper triangle
    WITH the stored diagonal), mzd_trtri_upper(u), B := B * u.  Inside this regime
    n <= MUL_BLOCKSIZE <= sqrt(L3), so n*n < 2*L3 and mzd_trtri_upper takes its non-recursive branch
    in every real build; the model uses [trtri_upper_simple] there. *)
Definition ur_middle (U B : mat) : mat :=
  let n := nc B in
  mmul B (trtri_upper_simple (extract_u (msub U 0 0 n n))).

(** the models run against the C library: base case and Four-Russians middle regime are the simple
    substitution (they compute the same unique X); [cutoff] is the C argument *)
Definition trsm_lower_left_rec (c : cfg) (cutoff : nat) (L B : mat) : mat :=
  ll_rec trsm_lower_left trsm_lower_left addmul_spec (blocksize c) cutoff (nr B) L B.
Definition trsm_upper_left_rec (c : cfg) (cutoff : nat) (U B : mat) : mat :=
  ul_rec trsm_upper_left trsm_upper_left addmul_spec (blocksize c) cutoff (nr B) U B.
Definition trsm_upper_right_rec (c : cfg) (cutoff : nat) (U B : mat) : mat :=
  ur_rec trsm_upper_right ur_middle addmul_spec (blocksize c) cutoff (nc B) U B.
Definition trsm_lower_right_rec (c : cfg) (cutoff : nat) (L B : mat) : mat :=
  lr_rec trsm_lower_right addmul_spec cutoff (nc B) L B.

(** ** mzd_trtri_upper: recursion on the word-aligned (SSE2: even-word-aligned) half, two TRSMs with
    cutoff 0, two recursive calls.  [None] = the C code misbehaves: either the assertion [n2 < n]
    fails (with NDEBUG the code then builds windows of negative extent: undefined behaviour) —
    this happens for 64 < n <= 128 in an SSE2 build whose L3 size is <= 8 KiB — or n2 = 0
    (n <= 64 and L3 <= 2 KiB), where U11 = U and the C recursion never terminates. *)
Definition trtri_split (c : cfg) (n : nat) : nat :=
  let n2 := ((n - 1) / radix + 1) / 2 in
  (if sse2 c && Nat.odd n2 then S n2 else n2) * radix.

Section TrtriGeneric.
  Variable tbase : mat -> mat.                 (* mzd_trtri_upper_russian *)
  Variables (ul ur : mat -> mat -> mat).       (* _mzd_trsm_upper_left / _right with cutoff 0 *)
  Variable c : cfg.

  Fixpoint trtri_rec (fuel : nat) (U : mat) : option mat :=
    match fuel with
    | 0 => Some U
    | S f =>
      let n := nr U in
      if (N.of_nat (nr U) * N.of_nat (nc U) <? trtri_cut c)%N then Some (tbase U)
      else
        let n2 := trtri_split c n in
        if (n2 =? 0) || (n <=? n2) then None
        else
          let m := n - n2 in
          let U00 := msub U 0 0 n2 n2 in
          let U01 := msub U 0 n2 n2 m in
          let U10 := msub U n2 0 m n2 in       (* never touched *)
          let U11 := msub U n2 n2 m m in
          let U01' := ul U00 U01 in
          let U01'' := ur U11 U01' in
          match trtri_rec f U00, trtri_rec f U11 with
          | Some V00, Some V11 => Some (mstack (mconcat V00 U01'') (mconcat U10 V11))
          | _, _ => None
          end
    end.
End TrtriGeneric.

Definition trtri_upper_rec (c : cfg) (U : mat) : option mat :=
  trtri_rec trtri_upper_simple (trsm_upper_left_rec c 0) (trsm_upper_right_rec c 0) c (nr U) U.

(** * 3. Inversion *)

(** what the task statement asks for: RREF of [A | I]; the right half if the left half is I *)
Definition inv_m4ri_model (A : mat) : option mat :=
  let n := nr A in
  let R := rref (mconcat A (mid n)) in
  if mequal (msub R 0 0 n n) (mid n) then Some (msub R 0 n n n) else None.

(** what mzd_inv_m4ri really does: C = n x 2*nr zero matrix, nr = 64 * A->width; A copied to columns
    [0,n), identity to columns [nr, nr+n); mzd_echelonize_m4ri(C, full, k = 0) — the argument k is
    ignored; columns [nr, nr+n) are copied out.  No singularity test: for singular A the result is
    the transformation matrix of the reduction, never NULL. *)
Definition pad64 (n : nat) : nat := ((n + 63) / 64) * 64.
Definition inv_m4ri_faithful (k : nat) (A : mat) : mat :=
  let n := nr A in
  let w := pad64 (nc A) in
  let AW := mconcat A (mzero n (w - nc A)) in
  let IW := mconcat (mid n) (mzero n (w - n)) in
  let R := rref (mconcat AW IW) in
  msub R 0 w n n.

(** mzd_invert_naive(INV, A, I): H = [A | I]; x = mzd_echelonize_naive(H, full); NULL iff x = 0
    (rank of H zero — not a singularity test either); else columns [nc A, 2 nc A) of H *)
Definition invert_naive_model (A I : mat) : option mat :=
  let '(x, H) := echelonize true (mconcat A I) in
  if x =? 0 then None else Some (msub H 0 (nc A) (nr A) (nc A)).
