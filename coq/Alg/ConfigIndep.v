(* Alg/ConfigIndep.v — configuration-independence corollaries (proofs); statements restated in Properties_C12.v *)
From Coq Require Import List NArith ZArith Arith Bool.
From M4 Require Import Base.Bits Lin.Mat Lin.Ops Alg.Gray Alg.Mul Alg.MulProofs Alg.Gauss Alg.GaussProofs.
Import ListNotations.

(** Four-Russians product: any two configurations (block sizes from the cache sizes, explicit or automatic k,
    previous table contents) give the same result. *)
Lemma cfg_m4rm_config_indep : forall blk1 blk2 kauto1 kauto2 k1 k2 g1 g2 C A B clr,
  wf A -> wf B -> wf C -> nc A = nr B -> nr C = nr A -> nc C = nc B -> 0 < blk1 -> 0 < blk2 ->
  tables_ok (choose_k kauto1 k1) B g1 -> tables_ok (choose_k kauto2 k2) B g2 ->
  mul_m4rm_core blk1 kauto1 k1 g1 C A B clr = mul_m4rm_core blk2 kauto2 k2 g2 C A B clr.
Proof.
  intros. rewrite !m4rm_core_complete by assumption. reflexivity.
Qed.

(** cubic routes: the block size of the parity buffer loop and the 54-column route switch do not matter *)
Lemma cfg_naive_config_indep : forall blk1 blk2 clr C A B, wf A -> wf B -> wf C -> 0 < blk1 -> 0 < blk2 ->
  nc A = nr B -> nr C = nr A -> nc C = nc B -> 0 < nr B -> 0 < nc B ->
  naive_run blk1 clr C A B = naive_run blk2 clr C A B.
Proof.
  intros blk1 blk2 clr C A B HA HB HC H1 H2 E1 E2 E3 P1 P2.
  pose proof (naive_defined_pos A B clr P1 P2) as D.
  pose proof (naive_run_spec blk1 clr C A B HA HB HC H1) as S1.
  pose proof (naive_run_spec blk2 clr C A B HA HB HC H2) as S2.
  rewrite S1, S2. reflexivity.
Qed.

(** rank and reduced echelon form are functions of the row space only: any two routes that return an RREF
    row-equivalent to A (naive, M4RI for every k, PLUQ-based, hybrid; see Properties_C02) return the same matrix. *)
Lemma cfg_rref_route_indep : forall A R1 R2 p1 p2, wf A -> wf R1 -> wf R2 ->
  Lin.Spec.is_rref R1 p1 -> Lin.Spec.row_equiv A R1 -> Lin.Spec.is_rref R2 p2 -> Lin.Spec.row_equiv A R2 -> R1 = R2.
Proof.
  intros A R1 R2 p1 p2 HA H1 H2 I1 E1 I2 E2.
  rewrite (proj1 (rref_canonical A R1 p1 HA H1 I1 E1)), (proj1 (rref_canonical A R2 p2 HA H2 I2 E2)). reflexivity.
Qed.

(** * further routes: every tuning constant is a free parameter of the route theorems *)
From M4 Require Import Alg.M4RI Alg.M4RIProofs Alg.M4RINonFull Alg.TRSM Alg.TRSMRecProofs Alg.Strassen Alg.StrassenGen
  Alg.StrassenProofs Alg.MPProofs.

(** M4RI echelonisation: any two admissible table parameters, both values of [full] *)
Lemma cfg_m4ri_k_indep k1 k2 full A : 1 <= k1 -> 1 <= k2 -> wf A -> m4ri_run k1 full A = m4ri_run k2 full A.
Proof.
  intros H1 H2 HA. destruct full.
  - rewrite (m4ri_run_full_spec k1 A H1 HA), (m4ri_run_full_spec k2 A H2 HA). reflexivity.
  - rewrite (m4ri_run_nonfull_canonical k1 A H1 HA), (m4ri_run_nonfull_canonical k2 A H2 HA). reflexivity.
Qed.

(** triangular solves: thresholds (cache-derived block size, trtri cut) and the Strassen cutoff do not matter *)
Lemma cfg_trsm_lower_left_indep c1 c2 cut1 cut2 L B : wf B -> nr B <= length (rows L) ->
  trsm_lower_left_rec c1 cut1 L B = trsm_lower_left_rec c2 cut2 L B.
Proof. intros HB Hn. rewrite !trsm_lower_left_rec_spec by assumption. reflexivity. Qed.
Lemma cfg_trsm_upper_left_indep c1 c2 cut1 cut2 U B : wf B -> nr B <= length (rows U) ->
  trsm_upper_left_rec c1 cut1 U B = trsm_upper_left_rec c2 cut2 U B.
Proof. intros HB Hn. rewrite !trsm_upper_left_rec_spec by assumption. reflexivity. Qed.
Lemma cfg_trsm_lower_right_indep c1 c2 cut1 cut2 L B : wf B -> nc B <= length (rows L) ->
  trsm_lower_right_rec c1 cut1 L B = trsm_lower_right_rec c2 cut2 L B.
Proof. intros HB Hn. rewrite !trsm_lower_right_rec_spec by assumption. reflexivity. Qed.

(** Strassen-Winograd front end: any two cutoffs >= 0 and default cutoffs (the latter derive from the cache sizes) *)
Lemma cfg_mzd_mul_cutoff_indep base dflt1 dflt2 cutoff1 cutoff2 (same : bool) win Copt A B :
  base_correct base ->
  let B' := if same then A else B in
  wf A -> wf B' -> nc A = nr B' -> 0 < nr A -> 0 < nc A -> 0 < nc B' -> (0 <= cutoff1)%Z -> (0 <= cutoff2)%Z ->
  dest_ok Copt A B' ->
  ub_guard (norm_cutoff dflt1 (Z.to_nat cutoff1)) A B' = false ->
  ub_guard (norm_cutoff dflt2 (Z.to_nat cutoff2)) A B' = false ->
  mzd_mul_gen base dflt1 cutoff1 same win Copt A B = mzd_mul_gen base dflt2 cutoff2 same win Copt A B.
Proof.
  intros Hb B' HA HB E P1 P2 P3 C1 C2 D G1 G2. unfold mzd_mul_gen.
  rewrite (mzd_mul_spec base dflt1 gen_table Hb gen_table_checked sched_kinds cutoff1 same win Copt A B HA HB E P1 P2 P3 C1 D G1).
  rewrite (mzd_mul_spec base dflt2 gen_table Hb gen_table_checked sched_kinds cutoff2 same win Copt A B HA HB E P1 P2 P3 C2 D G2).
  reflexivity.
Qed.
