(* Alg/PLEProofs4.v — C03, part 4: the block recursion [ple_rec] (= _mzd_ple, ple.c:62), easy part:
   the hypothesis [base_ok] on the base case, and the two non-recursive paths of _mzd_ple (the input
   has no non-zero row, ple.c:66-70; the base-case regime ncols <= 64 or width * nrows <= cutoff,
   ple.c:74-81).  The recursive path and the full theorem [ple_rec_spec] are in PLEProofs6-10.v. *)
From Coq Require Import List NArith Arith Lia Bool Sorted.
From M4 Require Import Base.Bits Lin.Mat Lin.MatAlg Lin.Ops Lin.Spec Lin.Perm Lin.Observers
  Alg.PLE Alg.PLELemmas Alg.PLESpec Alg.PLEProofs Alg.PLEProofs2 Alg.PLEProofs3.
Import ListNotations.
Local Open Scope nat_scope.

(** the hypothesis on the base case: it meets the PLE specification on every input *)
Definition base_ok (base : mat -> list nat -> list nat -> ple_out) : Prop :=
  forall A P0 Q0, wf A -> length P0 = nr A -> length Q0 = nc A -> ple_spec A (base A P0 Q0).

Lemma base_ok_naive : base_ok ple_naive.
Proof. intros A P0 Q0. apply ple_naive_spec. Qed.

(** a matrix without non-zero rows: rank 0, nothing to do *)
Lemma ple_zero_spec A P0 Q0 : wf A -> length P0 = nr A -> length Q0 = nc A ->
  (forall i j, get A i j = false) ->
  ple_spec A ((0, A), (fill_id 0 P0, fill_id 0 Q0)).
Proof.
  intros HA HP HQ Hz. unfold ple_spec.
  apply (done_spec A (get A) P0 Q0 0 0); auto.
  - apply inv_init; assumption.
  - intros i j _ _. apply Hz.
  - intros i j Hi Hj. cbn [seq pi].
    assert (LQ : lapack (fill_id 0 Q0) (nc A)).
    { intros k Hk. rewrite fill_id_length in Hk. rewrite nth_fill_id by assumption.
      destruct (Nat.leb_spec 0 k); lia. }
    rewrite get_tri by (rewrite ?fill_id_length; assumption). now rewrite !Hz.
Qed.

(** the paths of _mzd_ple that do not recurse *)
Definition ple_rec_nonrec (cutoff : nat) (A : mat) : bool :=
  (first_zero_row A =? 0) || (nc A <=? radix) || (((nc A + radix - 1) / radix) * nr A <=? cutoff).

Theorem ple_rec_nonrec_spec base cutoff A P0 Q0 :
  base_ok base -> wf A -> length P0 = nr A -> length Q0 = nc A ->
  ple_rec_nonrec cutoff A = true ->
  ple_spec A (ple_rec base cutoff A P0 Q0).
Proof.
  intros Hb HA HP HQ Hn. unfold ple_rec. cbn [ple_rec_aux].
  destruct (Nat.eqb_spec (first_zero_row A) 0) as [E|E].
  - rewrite E. apply ple_zero_spec; auto.
    intros i j. destruct (first_zero_row_entries A HA) as (H & _). apply H. lia.
  - unfold ple_rec_nonrec in Hn.
    destruct (Nat.eqb_spec (first_zero_row A) 0) as [E'|_]; [contradiction|]. cbn [orb] in Hn.
    rewrite Hn. apply Hb; [assumption|now rewrite fill_id_length..].
Qed.

Example ple_rec_nonrec_hyps : exists A : mat, wf A /\ ple_rec_nonrec 0 A = true /\ nr A = 2.
Proof. exists (mk 2 3 [5%N; 5%N]). split; [now apply wfb_spec|now vm_compute]. Qed.
