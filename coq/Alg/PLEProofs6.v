(* Alg/PLEProofs6.v — C03, part 6: tools for the block recursion.
   (a) more on index maps of swap sequences (ranges, shifts, pivots of a sequence starting anywhere,
       agreement of two rearrangements of a vector that is zero off the pivots);
   (b) the PLE storage format: "row i of the stored matrix is row i of g after the column swaps
       0 .. i" (off the diagonal positions (i,i), i < r, which no reader looks at), its equivalence
       with "tri(stored) = g after all column swaps";
   (c) [spec_of_enc] / [enc_of_spec]: an output meets [ple_spec] iff it is the PLE-format encoding of
       some g satisfying the abstract invariant of PLEProofs2.v with no pivot left. *)
From Coq Require Import List NArith Arith Lia Bool Sorted.
From M4 Require Import Base.Bits Lin.Mat Lin.MatAlg Lin.Ops Lin.Spec Lin.Perm Lin.Echelon
  Alg.PLE Alg.PLELemmas Alg.PLESpec Alg.PLEProofs Alg.PLEProofs2 Alg.PLEProofs3 Alg.PLEProofs5.
Import ListNotations.
Local Open Scope nat_scope.

(** * (a) index maps *)
Lemma pi_ge q ts lo j : (forall t, In t ts -> lo <= t /\ lo <= q t) -> lo <= j -> lo <= pi q ts j.
Proof.
  induction ts as [|t ts IH]; intros H Hj; cbn [pi]; [assumption|].
  destruct (H t) as [Ht Hq]; [now left|]. apply swapn_ge; auto. apply IH; auto. intros; apply H; now right.
Qed.

Lemma pi_inv_ge q ts lo j : (forall t, In t ts -> lo <= t /\ lo <= q t) -> lo <= j -> lo <= pi_inv q ts j.
Proof.
  revert j; induction ts as [|t ts IH]; intros j H Hj; cbn [pi_inv]; [assumption|].
  destruct (H t) as [Ht Hq]; [now left|]. apply IH; [intros; apply H; now right|]. apply swapn_ge; auto.
Qed.

Lemma pi_lt_fix q ts lo j : (forall t, In t ts -> lo <= t /\ lo <= q t) -> j < lo -> pi q ts j = j.
Proof. intros H Hj. apply pi_fix. intros t Ht. destruct (H t Ht). lia. Qed.

Lemma pi_gt_fix q ts hi j : (forall t, In t ts -> t < hi /\ q t < hi) -> hi <= j -> pi q ts j = j.
Proof. intros H Hj. apply pi_fix. intros t Ht. destruct (H t Ht). lia. Qed.

(** position t of a swap sequence t0, t0+1, ... with s <= q s, q strictly increasing, receives q t *)
Lemma pi_seq_pivot_from q t0 k t : t0 <= t -> t < t0 + k ->
  (forall s, t0 <= s -> s < t0 + k -> s <= q s) ->
  (forall s s', t0 <= s -> s < s' -> s' < t0 + k -> q s < q s') ->
  pi q (seq t0 k) t = q t.
Proof.
  intros Ht0 Ht Hge Hinc.
  replace (seq t0 k) with (seq t0 (t - t0) ++ [t] ++ seq (S t) (t0 + k - S t)).
  2:{ change ([t] ++ seq (S t) (t0 + k - S t)) with (seq t (S (t0 + k - S t))).
      replace t with (t0 + (t - t0)) at 2 by lia. rewrite <- seq_app. f_equal. lia. }
  rewrite !pi_app.
  rewrite (pi_fix q (seq (S t) (t0 + k - S t)) t).
  2:{ intros s Hs. apply in_seq in Hs. pose proof (Hge s ltac:(lia) ltac:(lia)). lia. }
  cbn [pi]. rewrite swapn_l.
  apply pi_fix. intros s Hs. apply in_seq in Hs.
  pose proof (Hinc s t ltac:(lia) ltac:(lia) Ht). pose proof (Hge s ltac:(lia) ltac:(lia)).
  pose proof (Hge t Ht0 Ht). lia.
Qed.

Lemma swapn_shift d a b y : swapn (d + a) (d + b) (d + y) = d + swapn a b y.
Proof. unfold swapn. bsolve. Qed.

Lemma seq_shift_add d a k : seq (d + a) k = map (Nat.add d) (seq a k).
Proof.
  revert a; induction k as [|k IH]; intros a; cbn [seq map]; [reflexivity|].
  f_equal. rewrite <- IH. f_equal. lia.
Qed.

(** a swap sequence living at offset d *)
Lemma pi_shift q d ts x :
  pi (fun s => d + q (s - d)) (map (Nat.add d) ts) (d + x) = d + pi q ts x.
Proof.
  induction ts as [|t ts IH]; cbn [map pi]; [reflexivity|].
  rewrite IH. replace (d + t - d) with t by lia. apply swapn_shift.
Qed.

Lemma pi_shift_seq q d a k x :
  pi (fun s => d + q (s - d)) (seq (d + a) k) (d + x) = d + pi q (seq a k) x.
Proof. rewrite seq_shift_add. apply pi_shift. Qed.

Lemma pi_shift_seq_below q d a k x : x < d ->
  pi (fun s => d + q (s - d)) (seq (d + a) k) x = x.
Proof. intros Hx. apply pi_fix. intros t Ht. apply in_seq in Ht. lia. Qed.

(** two rearrangements of a vector that vanishes, inside a window, off the images of K *)
Lemma perm_zero_agree (u : nat -> bool) (phi psi : nat -> nat) (K : nat -> Prop) lo hi :
  (forall x y, phi x = phi y -> x = y) -> (forall x y, psi x = psi y -> x = y) ->
  (forall x, x < lo \/ hi <= x -> phi x = x /\ psi x = x) ->
  (forall x, lo <= x < hi -> lo <= phi x < hi /\ lo <= psi x < hi) ->
  (forall x, K x -> phi x = psi x) ->
  (forall y, lo <= y < hi -> (forall x, K x -> y <> phi x) -> u y = false) ->
  forall x, u (phi x) = u (psi x).
Proof.
  intros Iphi Ipsi Hout Hin HK Hz x.
  destruct (Nat.lt_ge_cases x lo) as [H|H]; [destruct (Hout x) as [-> ->]; auto|].
  destruct (Nat.lt_ge_cases x hi) as [H'|H']; [|destruct (Hout x) as [-> ->]; auto].
  destruct (Hin x ltac:(lia)) as [H1 H2].
  destruct (u (phi x)) eqn:E1, (u (psi x)) eqn:E2; try reflexivity; exfalso.
  - (* u (phi x) = true, u (psi x) = false: phi x is the image of some element of K ... *)
    assert (N : ~ (forall k, K k -> phi x <> phi k)) by (intros N; rewrite (Hz (phi x) H1 N) in E1; discriminate).
    apply N. intros k Hk E. apply Iphi in E. subst k. rewrite (HK x Hk) in E1. congruence.
  - assert (N : ~ (forall k, K k -> psi x <> phi k)) by (intros N; rewrite (Hz (psi x) H2 N) in E2; discriminate).
    apply N. intros k Hk E. rewrite (HK k Hk) in E. apply Ipsi in E. subst k. rewrite (HK x Hk) in E1. congruence.
Qed.

(** * (b) the storage format *)
(** [offdiag r i j]: (i, j) is not one of the diagonal positions of the first r rows *)
Definition offdiag (r i j : nat) : Prop := j <> i \/ r <= i.

(** T stores g in PLE format w.r.t. the column swaps Q *)
Definition ple_format (g : nat -> nat -> bool) (Q : list nat) (r n : nat) (T : mat) : Prop :=
  forall i j, offdiag r i j -> get T i j = g i (pi (nthf Q) (seq 0 (Nat.min (S i) n)) j).

(** S is g read through all the column swaps *)
Definition full_format (g : nat -> nat -> bool) (Q : list nat) (r n : nat) (S : mat) : Prop :=
  forall i j, offdiag r i j -> get S i j = g i (pi (nthf Q) (seq 0 n) j).

Lemma tri_index_fix Q n i : lapack Q n -> length Q = n ->
  forall j, pi (nthf Q) (seq (S i) (n - S i)) j = i <-> j = i.
Proof.
  intros HQ Hl j.
  assert (F : pi (nthf Q) (seq (S i) (n - S i)) i = i).
  { apply pi_fix. intros t Ht. apply in_seq in Ht. pose proof (HQ t ltac:(lia)). unfold nthf. lia. }
  split; [|intros ->; exact F]. intros E.
  apply (pi_inj (nthf Q) (seq (S i) (n - S i))). rewrite E. symmetry. exact F.
Qed.

Lemma split_swaps Q n i j :
  pi (nthf Q) (seq 0 (Nat.min (S i) n)) (pi (nthf Q) (seq (S i) (n - S i)) j) = pi (nthf Q) (seq 0 n) j.
Proof.
  rewrite <- pi_app. f_equal.
  destruct (Nat.le_gt_cases (S i) n) as [H|H].
  - rewrite Nat.min_l by assumption. rewrite <- seq_app. f_equal. lia.
  - rewrite Nat.min_r by lia. replace (n - S i) with 0 by lia. cbn [seq]. now rewrite app_nil_r.
Qed.

Lemma format_to_tri g Q r T : wf T -> length Q = nc T -> lapack Q (nc T) ->
  (forall i j, nr T <= i -> g i j = false) ->
  ple_format g Q r (nc T) T -> full_format g Q r (nc T) (apply_p_right_trans_tri T Q).
Proof.
  intros HT Hl HQ Hsup Hf i j Hij.
  destruct (Nat.lt_ge_cases i (nr T)) as [Hi|Hi].
  - rewrite get_tri by assumption. rewrite Hf.
    + apply f_equal. apply split_swaps.
    + destruct Hij as [Hne|Hr]; [left|now right]. intros E. apply Hne.
      now apply (tri_index_fix Q (nc T) i HQ Hl).
  - rewrite Hsup by assumption. apply get_out_row; [now apply wf_tri|]. now rewrite nr_tri.
Qed.

Lemma tri_to_format g Q r T : wf T -> length Q = nc T -> lapack Q (nc T) ->
  (forall i j, nr T <= i -> g i j = false) ->
  full_format g Q r (nc T) (apply_p_right_trans_tri T Q) -> ple_format g Q r (nc T) T.
Proof.
  intros HT Hl HQ Hsup Hf i j Hij.
  destruct (Nat.lt_ge_cases i (nr T)) as [Hi|Hi].
  - pose (j' := pi_inv (nthf Q) (seq (S i) (nc T - S i)) j).
    assert (Ej : pi (nthf Q) (seq (S i) (nc T - S i)) j' = j) by apply pi_pi_inv.
    rewrite <- Ej at 1. rewrite <- get_tri by assumption. rewrite Hf.
    + rewrite <- (split_swaps Q (nc T) i j'). now rewrite Ej.
    + destruct Hij as [Hne|Hr]; [left|now right]. intros E. apply Hne. rewrite <- Ej, E.
      now apply (tri_index_fix Q (nc T) i HQ Hl).
  - rewrite Hsup by assumption. now apply get_out_row.
Qed.

(** * (c) encodings *)
Lemma done_spec_gen A g r c A' S P Q :
  wf A -> Inv A g (nthf P) (nthf Q) r c -> Fin g r c ->
  length P = nr A -> length Q = nc A -> lapack P (nr A) -> lapack Q (nc A) ->
  (forall i, r <= i -> i < nr A -> nth i P 0 = i) ->
  wf A' -> nr A' = nr A -> nc A' = nc A ->
  (forall i j, r <= i -> r <= j -> get A' i j = false) ->
  full_format g Q r (nc A) S ->
  plu_struct A r A' P Q /\ plu_recon A r S P Q.
Proof.
  intros HA HI HF HP HQ LP LQ Pid HA' Hnr Hnc Hz HS.
  pose proof (fin_r_le_m A g _ _ r c HI) as Hrm. pose proof (fin_r_le_n A g _ _ r c HI) as Hrn.
  assert (EQ : firstn r Q = map (nthf Q) (seq 0 r)) by (apply firstn_map_nth; lia).
  pose proof (fin_crp A HA g _ _ r c HI HF) as Hcrp.
  split.
  - unfold plu_struct. rewrite EQ. splits; auto. apply Hcrp.
  - unfold plu_recon.
    destruct (get_apply_p_left A P HA HP LP) as (Hw1 & Hr1 & Hc1 & Hg1).
    destruct (get_apply_p_right_trans (apply_p_left A P) Q Hw1) as (Hw2 & Hr2 & Hc2 & Hg2);
      [now rewrite Hc1|now rewrite Hc1|].
    apply mat_ext; auto.
    + apply wf_mmul; [apply wf_plu_L|apply wf_plu_U].
    + now rewrite Hr2, Hr1.
    + now rewrite Hc2, Hc1.
    + intros i j Hi Hj. rewrite Hr2, Hr1 in Hi. rewrite Hc2, Hc1 in Hj.
      rewrite Hg2, Hg1, Hc1. change (fun t => nth t P 0) with (nthf P). change (fun t => nth t Q 0) with (nthf Q).
      replace (nr A) with (r + (nr A - r)) at 1 by lia.
      rewrite pi_id_tail by (intros t H1 H2; apply Pid; lia).
      set (tau := pi (nthf Q) (seq r (nc A - r))).
      assert (Epi : forall x, pi (nthf Q) (seq 0 (nc A)) x = pi (nthf Q) (seq 0 r) (tau x)).
      { intros x. unfold tau. rewrite <- pi_app, <- seq_app. do 2 f_equal. lia. }
      assert (Tin : forall t, In t (seq r (nc A - r)) -> r <= t /\ r <= nthf Q t).
      { intros t Ht. apply in_seq in Ht. pose proof (LQ t ltac:(lia)). unfold nthf. lia. }
      assert (Tlt : tau j < nc A).
      { apply pi_lt; [|assumption]. intros t Ht. apply in_seq in Ht. pose proof (LQ t ltac:(lia)). unfold nthf. lia. }
      assert (Tlo : forall x, x < r -> tau x = x) by (intros x Hx; now apply (pi_lt_fix _ _ r)).
      assert (Thi : r <= j -> r <= tau j) by (intros H; now apply pi_ge).
      rewrite Epi.
      rewrite (fin_recon A g _ _ r c HI HF (fun i j => g i (pi (nthf Q) (seq 0 r) j)) i (tau j)
                 ltac:(reflexivity) Hi Tlt).
      rewrite get_plu_LU. apply xsum_ext. intros k Hk. unfold plu_L, plu_U.
      rewrite get_unit_lower_rect, get_unit_upper_rect.
      destruct (Nat.ltb_spec i (nr A)); [|lia]. destruct (Nat.ltb_spec k r); [|lia].
      destruct (Nat.ltb_spec j (nc A)); [|lia]. destruct (Nat.ltb_spec (tau j) (nc A)); [|lia].
      cbn [andb]. f_equal.
      * (* L *)
        assert (ES : offdiag r i k -> get S i k = g i (pi (nthf Q) (seq 0 r) k)).
        { intros Ho. rewrite (HS i k Ho), Epi, Tlo by assumption. reflexivity. }
        destruct (Nat.ltb_spec i r).
        -- destruct (Nat.eqb_spec i k); [reflexivity|]. cbn [orb].
           destruct (Nat.ltb_spec k i); [|reflexivity]. cbn [andb]. symmetry. apply ES. left. lia.
        -- f_equal. symmetry. apply ES. now right.
      * (* U *)
        destruct (Nat.lt_ge_cases j r) as [Hjr|Hjr].
        -- rewrite Tlo by assumption.
           destruct (Nat.eqb_spec k j); [reflexivity|]. cbn [orb].
           destruct (Nat.ltb_spec k j); [|reflexivity]. cbn [andb].
           rewrite (HS k j) by (left; lia). rewrite Epi, Tlo by assumption. reflexivity.
        -- pose proof (Thi Hjr).
           destruct (Nat.eqb_spec k j); [lia|]. destruct (Nat.eqb_spec k (tau j)); [lia|].
           destruct (Nat.ltb_spec k j); [|lia]. destruct (Nat.ltb_spec k (tau j)); [|lia]. cbn [orb andb].
           rewrite (HS k j) by (left; lia). now rewrite Epi.
Qed.

Record ple_enc (A : mat) (g : nat -> nat -> bool) (r : nat) (T : mat) (P Q : list nat) : Prop := {
  enc_inv : Inv A g (nthf P) (nthf Q) r (nc A);
  enc_wf : wf T;
  enc_nr : nr T = nr A;
  enc_nc : nc T = nc A;
  enc_lenP : length P = nr A;
  enc_lenQ : length Q = nc A;
  enc_lapP : lapack P (nr A);
  enc_lapQ : lapack Q (nc A);
  enc_Pid : forall i, r <= i -> i < nr A -> nth i P 0 = i;
  enc_fmt : ple_format g Q r (nc A) T
}.

Lemma inv_fin_n A g p q r : Inv A g p q r (nc A) -> Fin g r (nc A).
Proof. intros HI i j _ Hj. apply (inv_sup A g p q r _ HI). now right. Qed.

(** rows >= r carry only multipliers: they vanish off the pivot columns *)
Lemma inv_row_below A g p q r i c : Inv A g p q r (nc A) -> r <= i ->
  (forall k, k < r -> c <> q k) -> g i c = false.
Proof.
  intros HI Hi Hnp. destruct (Nat.lt_ge_cases c (nc A)) as [Hc|Hc].
  - apply (inv_zero A g p q r _ HI); [|assumption]. destruct (Nat.ltb_spec i r); [lia|assumption].
  - apply (inv_sup A g p q r _ HI). now right.
Qed.

(** reading a row >= r through any prefix (of length >= r) of the column swaps *)
Lemma row_below_read A g P Q r i k j : Inv A g (nthf P) (nthf Q) r (nc A) -> lapack Q (nc A) ->
  length Q = nc A -> r <= i -> r <= k -> k <= nc A ->
  g i (pi (nthf Q) (seq 0 k) j) = if j <? r then g i (nthf Q j) else false.
Proof.
  intros HI LQ HlQ Hi Hk Hkn.
  replace k with (r + (k - r)) by lia. rewrite seq_app, pi_app. cbn [Nat.add].
  assert (Tin : forall t, In t (seq r (k - r)) -> r <= t /\ r <= nthf Q t).
  { intros t Ht. apply in_seq in Ht. pose proof (LQ t ltac:(lia)). unfold nthf. lia. }
  destruct (Nat.ltb_spec j r) as [Hj|Hj].
  - rewrite (pi_lt_fix (nthf Q) (seq r (k - r)) r j Tin Hj).
    now rewrite (fin_piq_piv A g _ _ r _ HI j Hj).
  - apply (inv_row_below A g _ _ r i _ HI Hi).
    apply (fin_piq_nonpiv A g _ _ r _ HI). now apply pi_ge.
Qed.

Lemma enc_zero A g r T P Q : ple_enc A g r T P Q -> forall i j, r <= i -> r <= j -> get T i j = false.
Proof.
  intros [HI HT Hnr Hnc HlP HlQ LP LQ Pid Hf] i j Hi Hj.
  rewrite Hf by now right.
  pose proof (fin_r_le_n A g _ _ r _ HI) as Hrn.
  destruct (Nat.le_gt_cases (S i) (nc A)).
  - rewrite Nat.min_l by assumption.
    rewrite (row_below_read A g P Q r i (S i) j HI LQ HlQ) by lia.
    destruct (Nat.ltb_spec j r); [lia|reflexivity].
  - rewrite Nat.min_r by lia.
    rewrite (row_below_read A g P Q r i (nc A) j HI LQ HlQ) by lia.
    destruct (Nat.ltb_spec j r); [lia|reflexivity].
Qed.

Theorem spec_of_enc A g r T P Q : wf A -> ple_enc A g r T P Q -> ple_spec A ((r, T), (P, Q)).
Proof.
  intros HA He. pose proof (enc_zero A g r T P Q He) as Hz.
  destruct He as [HI HT Hnr Hnc HlP HlQ LP LQ Pid Hf].
  unfold ple_spec. apply (done_spec_gen A g r (nc A)); auto.
  - now apply (inv_fin_n A g (nthf P) (nthf Q)).
  - rewrite <- Hnc. apply format_to_tri; try (rewrite Hnc; assumption); try assumption.
    intros i j Hi. apply (inv_sup A g _ _ r _ HI). left. lia.
Qed.

(** ** every output meeting the specification is an encoding *)
Section EncOfSpec.
  Variables (A : mat) (r : nat) (T : mat) (P Q : list nat).
  Hypothesis HA : wf A.
  Hypothesis Hs : plu_struct A r T P Q.
  Let S := apply_p_right_trans_tri T Q.
  Hypothesis Hrec : plu_recon A r S P Q.
  Let m := nr A.
  Let n := nc A.
  Let q := nthf Q.
  Let rho := pi_inv q (seq 0 n).
  Let ppi := pi q (seq 0 n).

  Definition enc_g : nat -> nat -> bool :=
    fun i c => if (i <? r) && (c =? q i) then true else get S i (rho c).

  Let HT : wf T := plu_wf _ _ _ _ _ Hs.
  Let Hnr : nr T = m := plu_nr _ _ _ _ _ Hs.
  Let Hnc : nc T = n := plu_nc _ _ _ _ _ Hs.
  Let Hrm : r <= m := plu_r_le_nr _ _ _ _ _ Hs.
  Let Hrn : r <= n := plu_r_le_nc _ _ _ _ _ Hs.
  Let HlQ : length Q = n := plu_len_Q _ _ _ _ _ Hs.
  Let HlP : length P = m := plu_len_P _ _ _ _ _ Hs.
  Let LQ : lapack Q n := plu_lapack_Q _ _ _ _ _ Hs.
  Let LP : lapack P m := plu_lapack_P _ _ _ _ _ Hs.

  Lemma eos_wf_S : wf S /\ nr S = m /\ nc S = n.
  Proof.
    unfold S. splits; [apply wf_tri; [assumption|now rewrite Hnc]|now rewrite nr_tri|now rewrite nc_tri].
  Qed.

  Lemma eos_touch t : In t (seq 0 n) -> t < n /\ q t < n.
  Proof. intros Ht. apply in_seq in Ht. pose proof (LQ t ltac:(lia)). unfold q, nthf. lia. Qed.

  Lemma eos_rho_lt c : c < n -> rho c < n.
  Proof. apply pi_inv_lt. apply eos_touch. Qed.
  Lemma eos_rho_hi c : n <= c -> rho c = c.
  Proof. intros Hc. apply pi_inv_fix. intros t Ht. apply eos_touch in Ht. lia. Qed.
  Lemma eos_pi_piv k : k < r -> ppi k = q k.
  Proof. apply (pe_pi_piv A r T P Q Hs). Qed.
  Lemma eos_rho_piv k : k < r -> rho (q k) = k.
  Proof. intros Hk. rewrite <- eos_pi_piv by assumption. apply pi_inv_pi. Qed.
  Lemma eos_rho_nonpiv c : (forall k, k < r -> c <> q k) -> r <= rho c.
  Proof.
    intros Hnp. destruct (Nat.le_gt_cases r (rho c)) as [H|H]; [assumption|].
    exfalso. apply (Hnp (rho c) H). rewrite <- eos_pi_piv by assumption. symmetry. apply pi_pi_inv.
  Qed.
  Lemma eos_q_inj k k' : k < r -> k' < r -> q k = q k' -> k = k'.
  Proof.
    intros Hk Hk' E. destruct (lt_eq_lt_dec k k') as [[H|H]|H]; [|assumption|].
    - pose proof (pe_q_inc A r T P Q Hs k k' H Hk'). unfold q, nthf in E. lia.
    - pose proof (pe_q_inc A r T P Q Hs k' k H Hk). unfold q, nthf in E. lia.
  Qed.

  (** rows >= r of S are those of T: zero beyond column r *)
  Lemma eos_below i j : r <= i -> r <= j -> get S i j = false.
  Proof.
    intros Hi Hj. destruct eos_wf_S as (HwS & HrS & HcS).
    destruct (Nat.lt_ge_cases i m) as [Hlt|Hge]; [|apply get_out_row; [assumption|lia]].
    unfold get, S. rewrite (tri_rows_below T Q r i HT); try assumption; try lia.
    - apply (plu_zero _ _ _ _ _ Hs); assumption.
    - now rewrite Hnc.
    - intros j' Hj'. now apply (plu_zero _ _ _ _ _ Hs).
  Qed.

  (** the echelon shape, in terms of S *)
  Lemma eos_echelon i c : i < r -> c < q i -> r <= rho c -> get S i (rho c) = false.
  Proof.
    intros Hi Hc Hr.
    pose proof (pe_before A r T S P Q HA Hs Hrec i c Hi Hc) as H.
    rewrite (pe_get_E A r T S P Q Hs) in H. destruct (Nat.ltb_spec i r); [|lia]. cbn [andb] in H.
    replace c with (ppi (rho c)) in H by apply pi_pi_inv.
    unfold ppi, q, nthf in H. rewrite <- (pe_get_U A r T S P Q Hs) in H.
    unfold plu_U in H. rewrite get_unit_upper_rect in H.
    assert (Hq : i <= q i < n) by apply (pe_q_range A r T P Q Hs i Hi).
    pose proof (eos_rho_lt c ltac:(lia)) as Hlt. fold n in H.
    destruct (Nat.ltb_spec i r); [|lia]. destruct (Nat.ltb_spec (rho c) n); [|lia].
    destruct (Nat.eqb_spec i (rho c)); [lia|]. destruct (Nat.ltb_spec i (rho c)); [|lia].
    exact H.
  Qed.

  Lemma eos_sup i j : m <= i \/ n <= j -> enc_g i j = false.
  Proof.
    destruct eos_wf_S as (HwS & HrS & HcS). intros [H|H]; unfold enc_g.
    - destruct (Nat.ltb_spec i r); [lia|]. cbn [andb]. apply get_out_row; [assumption|lia].
    - destruct (Nat.ltb_spec i r) as [Hi|Hi]; cbn [andb].
      + assert (Hq : i <= q i < n) by apply (pe_q_range A r T P Q Hs i Hi).
        destruct (Nat.eqb_spec j (q i)); [lia|]. rewrite eos_rho_hi by assumption.
        apply get_out_col; [assumption|lia].
      + rewrite eos_rho_hi by assumption. apply get_out_col; [assumption|lia].
  Qed.

  Lemma eos_g_piv i k : k < r -> k <> i -> enc_g i (q k) = get S i k.
  Proof.
    intros Hk Hne. unfold enc_g. rewrite eos_rho_piv by assumption.
    destruct (Nat.ltb_spec i r) as [Hi|Hi]; cbn [andb]; [|reflexivity].
    destruct (Nat.eqb_spec (q k) (q i)) as [E|_]; [|reflexivity].
    apply eos_q_inj in E; auto. lia.
  Qed.

  Lemma eos_inv : Inv A enc_g (nthf P) (nthf Q) r n.
  Proof.
    destruct eos_wf_S as (HwS & HrS & HcS).
    constructor.
    - exact Hrm.
    - apply le_n.
    - intros k Hk. apply LP. lia.
    - intros k Hk. apply (pe_q_range A r T P Q Hs k Hk).
    - intros k k' H1 H2. apply (pe_q_inc A r T P Q Hs k k' H1 H2).
    - exact eos_sup.
    - intros k Hk. unfold enc_g. destruct (Nat.ltb_spec k r); [|lia]. fold q. now rewrite Nat.eqb_refl.
    - (* echelon zeros *)
      intros i j Hj Hnp. fold q in Hnp. unfold enc_g.
      pose proof (eos_rho_nonpiv j Hnp) as Hr.
      destruct (Nat.ltb_spec i r) as [Hi|Hi]; cbn [andb].
      + fold (q i) in Hj. destruct (Nat.eqb_spec j (q i)); [lia|]. now apply eos_echelon.
      + now apply eos_below.
    - (* the factorisation *)
      intros i j Hi. fold q.
      destruct (Nat.lt_ge_cases j n) as [Hj|Hj].
      2:{ unfold Rg. rewrite (eos_sup i j) by now right. rewrite andb_false_r, xorb_false_r.
          rewrite (get_out_col A) by assumption. symmetry. apply xsum_zero. intros k Hk.
          unfold Eg. rewrite (eos_sup k j) by now right. now rewrite !andb_false_r. }
      replace (Rg enc_g r n i j) with false
        by (unfold Rg; destruct (Nat.leb_spec n j); [lia|]; now rewrite andb_false_r).
      rewrite xorb_false_r.
      set (j0 := rho j). assert (Hj0 : j0 < n) by now apply eos_rho_lt.
      assert (Ej : ppi j0 = j) by apply pi_pi_inv.
      (* the reconstruction at (i, j0) *)
      pose proof Hrec as E. unfold plu_recon in E.
      destruct (get_apply_p_left A P HA HlP LP) as (Hw1 & Hr1 & Hc1 & Hg1).
      destruct (get_apply_p_right_trans (apply_p_left A P) Q Hw1) as (Hw2 & Hr2 & Hc2 & Hg2);
        [now rewrite Hc1|now rewrite Hc1|].
      apply (f_equal (fun M => get M i j0)) in E. rewrite Hg2, Hg1, Hc1 in E.
      change (fun t => nth t P 0) with (nthf P) in E. change (fun t => nth t Q 0) with q in E.
      fold n in E. fold ppi in E. rewrite Ej in E.
      replace (nr A) with (r + (m - r)) in E by (unfold m; lia).
      rewrite pi_id_tail in E by (intros t H1 H2; apply (plu_P_id _ _ _ _ _ Hs); unfold m in *; lia).
      rewrite E, get_plu_LU. apply xsum_ext. intros k Hk. unfold plu_L, plu_U.
      rewrite get_unit_lower_rect, get_unit_upper_rect. fold m n.
      destruct (Nat.ltb_spec i m); [|lia]. destruct (Nat.ltb_spec k r); [|lia].
      destruct (Nat.ltb_spec j0 n); [|lia]. cbn [andb]. f_equal.
      + (* L *)
        unfold Lg. destruct (Nat.ltb_spec i r) as [Hir|Hir].
        * destruct (Nat.eqb_spec i k); [reflexivity|]. cbn [orb].
          destruct (Nat.ltb_spec k i); [|reflexivity]. cbn [andb]. symmetry. apply eos_g_piv; lia.
        * destruct (Nat.eqb_spec i k); [lia|]. destruct (Nat.ltb_spec k i); [|lia]. cbn [orb andb].
          symmetry. apply eos_g_piv; lia.
      + (* U *)
        unfold Eg. assert (Hqk : k <= q k < n) by apply (pe_q_range A r T P Q Hs k Hk).
        destruct (Nat.eq_dec j0 k) as [E0|Hne].
        * assert (Ejq : j = q k) by (rewrite <- Ej, E0; now apply eos_pi_piv).
          rewrite E0, Nat.eqb_refl, Ejq, Nat.leb_refl. cbn [orb andb].
          unfold enc_g. destruct (Nat.ltb_spec k r); [|lia]. now rewrite Nat.eqb_refl.
        * assert (Hjq : j <> q k).
          { intros E'. apply Hne. unfold j0. rewrite E'. now apply eos_rho_piv. }
          destruct (Nat.eqb_spec k j0); [lia|]. cbn [orb].
          assert (Eg' : enc_g k j = get S k j0).
          { unfold enc_g. destruct (Nat.eqb_spec j (q k)); [contradiction|]. now rewrite andb_false_r. }
          rewrite Eg'.
          destruct (Nat.ltb_spec k j0) as [Hlt|Hge]; cbn [andb].
          -- destruct (Nat.leb_spec (q k) j) as [Hle|Hgt]; [reflexivity|]. cbn [andb].
             destruct (Nat.le_gt_cases r j0) as [Hrj|Hrj].
             ++ now apply eos_echelon.
             ++ (* j0 < r, k < j0: then j = q j0 > q k *)
                exfalso. rewrite <- Ej, eos_pi_piv in Hgt by assumption.
                pose proof (pe_q_inc A r T P Q Hs k j0 Hlt Hrj). unfold q, nthf in Hgt. lia.
          -- (* j0 < k: j = q j0 < q k *)
             assert (Hj0k : j0 < k) by lia.
             rewrite <- Ej, eos_pi_piv by lia.
             pose proof (pe_q_inc A r T P Q Hs j0 k Hj0k Hk). unfold q, nthf.
             destruct (Nat.leb_spec (nth k Q 0) (nth j0 Q 0)); [lia|reflexivity].
  Qed.

  Lemma eos_full : full_format enc_g Q r n S.
  Proof.
    intros i j Ho. fold q ppi. unfold enc_g. fold rho. unfold rho, ppi. rewrite pi_inv_pi.
    destruct (Nat.ltb_spec i r) as [Hi|Hi]; cbn [andb]; [|reflexivity].
    destruct (Nat.eqb_spec (pi q (seq 0 n) j) (q i)) as [E|_]; [|reflexivity].
    exfalso. fold ppi in E. rewrite <- eos_pi_piv in E by assumption. apply pi_inj in E.
    destruct Ho; lia.
  Qed.

  Theorem enc_of_spec_sec : ple_enc A enc_g r T P Q.
  Proof.
    constructor; auto.
    - exact eos_inv.
    - apply (plu_P_id _ _ _ _ _ Hs).
    - fold n. rewrite <- Hnc. apply tri_to_format; try (rewrite Hnc; assumption); try assumption.
      + intros i j Hi. apply eos_sup. left. lia.
      + rewrite Hnc. exact eos_full.
  Qed.
End EncOfSpec.

Theorem enc_of_spec A r T P Q : wf A -> ple_spec A ((r, T), (P, Q)) ->
  ple_enc A (enc_g A r T Q) r T P Q.
Proof. intros HA [Hs Hrec]. now apply enc_of_spec_sec. Qed.
