(* Alg/PLEProofs6.v — C03, part 6: tools for the block recursion.
   (a) more on index maps of swap sequences (ranges, shifts, pivots of a sequence starting anywhere,
       agreement of two rearrangements of a vector that is zero off the pivots);
   (b) the PLE storage format: "row i of the stored matrix is row i of g after the column swaps
       0 .. i" (off the diagonal positions (i,i), i < r, which no reader looks at), its equivalence
       with "tri(stored) = g after all column swaps";
   (c) [spec_of_enc] / [enc_of_spec]: an output meets [ple_spec] iff it is the PLE-format encoding of
       some g satisfying the abstract invariant of PLEProofs2.v with no pivot left. *)
From Coq Require Import List NArith Arith Lia Bool Sorted.
From M4 Require Import Base.Bits Lin.Mat Lin.MatAlg Lin.Ops Lin.Spec Lin.Perm Lin.Echelon
  Alg.PLE Alg.PLELemmas Alg.PLESpec Alg.PLEProofs Alg.PLEProofs2 Alg.PLEProofs3 Alg.PLEProofs5.
Import ListNotations.
Local Open Scope nat_scope.

(** * (a) index maps *)
Lemma pi_ge q ts lo j : (forall t, In t ts -> lo <= t /\ lo <= q t) -> lo <= j -> lo <= pi q ts j.
Proof.
  induction ts as [|t ts IH]; intros H Hj; cbn [pi]; [assumption|].
  destruct (H t) as [Ht Hq]; [now left|]. apply swapn_ge; auto. apply IH; auto. intros; apply H; now right.
Qed.

Lemma pi_inv_ge q ts lo j : (forall t, In t ts -> lo <= t /\ lo <= q t) -> lo <= j -> lo <= pi_inv q ts j.
Proof.
  revert j; induction ts as [|t ts IH]; intros j H Hj; cbn [pi_inv]; [assumption|].
  destruct (H t) as [Ht Hq]; [now left|]. apply IH; [intros; apply H; now right|]. apply swapn_ge; auto.
Qed.

Lemma pi_lt_fix q ts lo j : (forall t, In t ts -> lo <= t /\ lo <= q t) -> j < lo -> pi q ts j = j.
Proof. intros H Hj. apply pi_fix. intros t Ht. destruct (H t Ht). lia. Qed.

Lemma pi_gt_fix q ts hi j : (forall t, In t ts -> t < hi /\ q t < hi) -> hi <= j -> pi q ts j = j.
Proof. intros H Hj. apply pi_fix. intros t Ht. destruct (H t Ht). lia. Qed.

(** position t of a swap sequence t0, t0+1, ... with s <= q s, q strictly increasing, receives q t *)
Lemma pi_seq_pivot_from q t0 k t : t0 <= t -> t < t0 + k ->
  (forall s, t0 <= s -> s < t0 + k -> s <= q s) ->
  (forall s s', t0 <= s -> s < s' -> s' < t0 + k -> q s < q s') ->
  pi q (seq t0 k) t = q t.
Proof.
  intros Ht0 Ht Hge Hinc.
  replace (seq t0 k) with (seq t0 (t - t0) ++ [t] ++ seq (S t) (t0 + k - S t)).
  2:{ change ([t] ++ seq (S t) (t0 + k - S t)) with (seq t (S (t0 + k - S t))).
      replace t with (t0 + (t - t0)) at 2 by lia. rewrite <- seq_app. f_equal. lia. }
  rewrite !pi_app.
  rewrite (pi_fix q (seq (S t) (t0 + k - S t)) t).
  2:{ intros s Hs. apply in_seq in Hs. pose proof (Hge s ltac:(lia) ltac:(lia)). lia. }
  cbn [pi]. rewrite swapn_l.
  apply pi_fix. intros s Hs. apply in_seq in Hs.
  pose proof (Hinc s t ltac:(lia) ltac:(lia) Ht). pose proof (Hge s ltac:(lia) ltac:(lia)).
  pose proof (Hge t Ht0 Ht). lia.
Qed.

Lemma swapn_shift d a b y : swapn (d + a) (d + b) (d + y) = d + swapn a b y.
Proof. unfold swapn. bsolve. Qed.

Lemma seq_shift_add d a k : seq (d + a) k = map (Nat.add d) (seq a k).
Proof.
  revert a; induction k as [|k IH]; intros a; cbn [seq map]; [reflexivity|].
  f_equal. rewrite <- IH. f_equal. lia.
Qed.

(** a swap sequence living at offset d *)
Lemma pi_shift q d ts x :
  pi (fun s => d + q (s - d)) (map (Nat.add d) ts) (d + x) = d + pi q ts x.
Proof.
  induction ts as [|t ts IH]; cbn [map pi]; [reflexivity|].
  rewrite IH. replace (d + t - d) with t by lia. apply swapn_shift.
Qed.

Lemma pi_shift_seq q d a k x :
  pi (fun s => d + q (s - d)) (seq (d + a) k) (d + x) = d + pi q (seq a k) x.
Proof. rewrite seq_shift_add. apply pi_shift. Qed.

Lemma pi_shift_seq_below q d a k x : x < d ->
  pi (fun s => d + q (s - d)) (seq (d + a) k) x = x.
Proof. intros Hx. apply pi_fix. intros t Ht. apply in_seq in Ht. lia. Qed.

(** two rearrangements of a vector that vanishes, inside a window, off the images of K *)
Lemma perm_zero_agree (u : nat -> bool) (phi psi : nat -> nat) (K : nat -> Prop) lo hi :
  (forall x y, phi x = phi y -> x = y) -> (forall x y, psi x = psi y -> x = y) ->
  (forall x, x < lo \/ hi <= x -> phi x = x /\ psi x = x) ->
  (forall x, lo <= x < hi -> lo <= phi x < hi /\ lo <= psi x < hi) ->
  (forall x, K x -> phi x = psi x) ->
  (forall y, lo <= y < hi -> (forall x, K x -> y <> phi x) -> u y = false) ->
  forall x, u (phi x) = u (psi x).
Proof.
  intros Iphi Ipsi Hout Hin HK Hz x.
  destruct (Nat.lt_ge_cases x lo) as [H|H]; [destruct (Hout x) as [-> ->]; auto|].
  destruct (Nat.lt_ge_cases x hi) as [H'|H']; [|destruct (Hout x) as [-> ->]; auto].
  destruct (Hin x ltac:(lia)) as [H1 H2].
  destruct (u (phi x)) eqn:E1, (u (psi x)) eqn:E2; try reflexivity; exfalso.
  - (* u (phi x) = true, u (psi x) = false: phi x is the image of some element of K ... *)
    assert (N : ~ (forall k, K k -> phi x <> phi k)) by (intros N; rewrite (Hz (phi x) H1 N) in E1; discriminate).
    apply N. intros k Hk E. apply Iphi in E. subst k. rewrite (HK x Hk) in E1. congruence.
  - assert (N : ~ (forall k, K k -> psi x <> phi k)) by (intros N; rewrite (Hz (psi x) H2 N) in E2; discriminate).
    apply N. intros k Hk E. rewrite (HK k Hk) in E. apply Ipsi in E. subst k. rewrite (HK x Hk) in E1. congruence.
Qed.

(** * (b) the storage format *)
(** [offdiag r i j]: (i, j) is not one of the diagonal positions of the first r rows *)
Definition offdiag (r i j : nat) : Prop := j <> i \/ r <= i.

(** T stores g in PLE format w.r.t. the column swaps Q *)
Definition ple_format (g : nat -> nat -> bool) (Q : list nat) (r n : nat) (T : mat) : Prop :=
  forall i j, offdiag r i j -> get T i j = g i (pi (nthf Q) (seq 0 (Nat.min (S i) n)) j).

(** S is g read through all the column swaps *)
Definition full_format (g : nat -> nat -> bool) (Q : list nat) (r n : nat) (S : mat) : Prop :=
  forall i j, offdiag r i j -> get S i j = g i (pi (nthf Q) (seq 0 n) j).

Lemma tri_index_fix Q n i : lapack Q n -> length Q = n ->
  forall j, pi (nthf Q) (seq (S i) (n - S i)) j = i <-> j = i.
Proof.
  intros HQ Hl j.
  assert (F : pi (nthf Q) (seq (S i) (n - S i)) i = i).
  { apply pi_fix. intros t Ht. apply in_seq in Ht. pose proof (HQ t ltac:(lia)). unfold nthf. lia. }
  split; [|intros ->; exact F]. intros E.
  apply (pi_inj (nthf Q) (seq (S i) (n - S i))). rewrite E. symmetry. exact F.
Qed.

Lemma split_swaps Q n i j :
  pi (nthf Q) (seq 0 (Nat.min (S i) n)) (pi (nthf Q) (seq (S i) (n - S i)) j) = pi (nthf Q) (seq 0 n) j.
Proof.
  rewrite <- pi_app. f_equal.
  destruct (Nat.le_gt_cases (S i) n) as [H|H].
  - rewrite Nat.min_l by assumption. rewrite <- seq_app. f_equal. lia.
  - rewrite Nat.min_r by lia. replace (n - S i) with 0 by lia. cbn [seq]. now rewrite app_nil_r.
Qed.

Lemma format_to_tri g Q r T : wf T -> length Q = nc T -> lapack Q (nc T) ->
  (forall i j, nr T <= i -> g i j = false) ->
  ple_format g Q r (nc T) T -> full_format g Q r (nc T) (apply_p_right_trans_tri T Q).
Proof.
  intros HT Hl HQ Hsup Hf i j Hij.
  destruct (Nat.lt_ge_cases i (nr T)) as [Hi|Hi].
  - rewrite get_tri by assumption. rewrite Hf.
    + apply f_equal. apply split_swaps.
    + destruct Hij as [Hne|Hr]; [left|now right]. intros E. apply Hne.
      now apply (tri_index_fix Q (nc T) i HQ Hl).
  - rewrite Hsup by assumption. apply get_out_row; [now apply wf_tri|]. now rewrite nr_tri.
Qed.

Lemma tri_to_format g Q r T : wf T -> length Q = nc T -> lapack Q (nc T) ->
  (forall i j, nr T <= i -> g i j = false) ->
  full_format g Q r (nc T) (apply_p_right_trans_tri T Q) -> ple_format g Q r (nc T) T.
Proof.
  intros HT Hl HQ Hsup Hf i j Hij.
  destruct (Nat.lt_ge_cases i (nr T)) as [Hi|Hi].
  - pose (j' := pi_inv (nthf Q) (seq (S i) (nc T - S i)) j).
    assert (Ej : pi (nthf Q) (seq (S i) (nc T - S i)) j' = j) by apply pi_pi_inv.
    rewrite <- Ej at 1. rewrite <- get_tri by assumption. rewrite Hf.
    + rewrite <- (split_swaps Q (nc T) i j'). now rewrite Ej.
    + destruct Hij as [Hne|Hr]; [left|now right]. intros E. apply Hne. rewrite <- Ej, E.
      now apply (tri_index_fix Q (nc T) i HQ Hl).
  - rewrite Hsup by assumption. now apply get_out_row.
Qed.
