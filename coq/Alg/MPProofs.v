(* Alg/MPProofs.v — the 2x2 front end of m4ri/mp.c (_mzd_mul_mp4, _mzd_addmul_mp4, mzd_mul_mp,
   mzd_addmul_mp; model [mp4] etc. in Alg/Strassen.v) computes A*B resp. C + A*B for EVERY
   interleaving of the four `omp section` task lists, every cutoff, all positive compatible
   dimensions.  This closes [mp4_base_partial] of Alg/StrassenProofs.v: the missing piece was the
   simulation "run_body over the mp window table = sem_run" ([run_tr] below), which glues
     (1) [check_mp] of the generated task lists (Alg/StrassenGen.v, regenerated from mp.c),
     (2) [sections_commute] (every interleaving leaves in a quadrant what its own section computes),
     (3) [three_strips]/[result_ext] for the remainder strips (mp.c:111-136, 230-255)
   to the executable model [mp4].  The calls _mzd_mul_even/_mzd_addmul_even inside the sections
   (mp.c:91-107, 210-226) are discharged by [strassen_spec].
   Also: the split points of mp.c:61-70 / 180-189 are multiples of 64 ([mp_split_multiple_of_64]),
   the arithmetic fact behind the word-disjointness of the four C quadrants (C16). *)
From Coq Require Import String List NArith Arith Bool ZArith Lia ZifyBool ZifyNat ZifyN.
From M4 Require Import Base.Bits Lin.Mat Lin.MatAlg Lin.Ops Lin.OpsProofs Word.WMat
  Alg.Strassen Alg.StrassenProofs.
Import ListNotations.
Local Open Scope nat_scope.
Ltac Zify.zify_post_hook ::= Z.div_mod_to_equations.

(* ------------------------------------------------------------------------------------------ *)
(** * The split arithmetic of mp.c:61-70 *)
(** a -= a % (2*m4ri_radix); anr = ((a / m4ri_radix) >> 1) * m4ri_radix *)
Definition mp_cut (a : nat) : nat := a - a mod (2 * 64).
Definition mp_pt (a : nat) : nat := mp_cut a / 64 / 2 ^ 1 * 64.

Lemma mp_pt_mod64 a : mp_pt a mod 64 = 0.
Proof. unfold mp_pt. apply Nat.mod_mul. discriminate. Qed.
Lemma mp_pt_double a : 2 * mp_pt a = a - a mod 128.
Proof. unfold mp_pt, mp_cut. change (2 ^ 1) with 2. change (2 * 64) with 128. lia. Qed.
Lemma mp_pt_le a : 2 * mp_pt a <= a.
Proof. rewrite mp_pt_double. lia. Qed.
Lemma mp_pt_pos a : 128 <= a -> 64 <= mp_pt a.
Proof. intros H. pose proof (mp_pt_double a). lia. Qed.
Lemma mp_pt_rest a : a - 2 * mp_pt a < 128.
Proof. rewrite mp_pt_double. lia. Qed.

(* ------------------------------------------------------------------------------------------ *)
(** * The canonical window table *)
Definition wdr (p : parent) : var := match p with PB => Vbnr | _ => Vanr end.
Definition wdc (p : parent) : var := match p with PA => Vanc | _ => Vbnc end.
Definition cwin (p : parent) (i j : nat) : winexp :=
  mkwin p (match i with 0 => ANum 0 | _ => AVar (wdr p) end) (match j with 0 => ANum 0 | _ => AVar (wdc p) end)
          (match i with 0 => AVar (wdr p) | _ => two (wdr p) end)
          (match j with 0 => AVar (wdc p) | _ => two (wdc p) end).

Lemma mp_resolve_spec w p i j : mp_resolve w = Some (p, i, j) -> w = cwin p i j /\ i < 2 /\ j < 2.
Proof.
  unfold mp_resolve. intros H.
  destruct (find _ canon_mp_wins) as [[[[p' i'] j'] w']|] eqn:Hf; [|discriminate].
  inversion H; subst p' i' j'; clear H.
  apply find_some in Hf as [Hin Hd]. cbn [snd] in Hd. apply deq_true in Hd. subst w'.
  cbn in Hin.
  repeat (destruct Hin as [Hin|Hin]; [inversion Hin; subst; repeat split; try reflexivity; lia|]).
  contradiction.
Qed.

(** name -> (parent, i, j) *)
Definition mres (wins : list (string * winexp)) (x : string) : option (parent * nat * nat) :=
  match assoc wins x with Some w => mp_resolve w | None => None end.

(** a section task as a semantic quadrant operation *)
Definition tr_parts (wins : list (string * winexp)) (a : bool) (d x y : string) : option mop :=
  match mres wins d, mres wins x, mres wins y with
  | Some (PC, i, j), Some (PA, i', l), Some (PB, l', j') =>
    if (i' =? i) && (j' =? j) && (l =? l') then Some (mkop i j l a) else None
  | _, _, _ => None
  end.
Definition tr (wins : list (string * winexp)) (i : instr) : option mop :=
  match i with
  | Mul d x y => tr_parts wins false d x y
  | AddMul d x y => tr_parts wins true d x y
  | _ => None
  end.
Definition trd (wins : list (string * winexp)) (i : instr) : mop :=
  match tr wins i with Some o => o | None => mkop 0 0 0 true end.

Lemma tr_parts_spec wins a d x y o : tr_parts wins a d x y = Some o ->
  okop o /\ o_acc o = a /\
  assoc wins d = Some (cwin PC (o_i o) (o_j o)) /\
  assoc wins x = Some (cwin PA (o_i o) (o_l o)) /\
  assoc wins y = Some (cwin PB (o_l o) (o_j o)).
Proof.
  unfold tr_parts, mres. intros H.
  destruct (assoc wins d) as [wd|] eqn:Ad; [|discriminate].
  destruct (mp_resolve wd) as [[[[] i] j]|] eqn:Rd; try discriminate.
  destruct (assoc wins x) as [wx|] eqn:Ax; [|discriminate].
  destruct (mp_resolve wx) as [[[[] i'] l]|] eqn:Rx; try discriminate.
  destruct (assoc wins y) as [wy|] eqn:Ay; [|discriminate].
  destruct (mp_resolve wy) as [[[[] l'] j']|] eqn:Ry; try discriminate.
  destruct ((i' =? i) && (j' =? j) && (l =? l')) eqn:Hc; [|discriminate].
  inversion H; subst o; clear H. cbn [o_i o_j o_l o_acc].
  rewrite !andb_true_iff, !Nat.eqb_eq in Hc. destruct Hc as [[-> ->] <-].
  apply mp_resolve_spec in Rd as (-> & Hi & Hj), Rx as (-> & _ & Hl), Ry as (-> & _ & _).
  repeat split; auto.
Qed.

(* ------------------------------------------------------------------------------------------ *)
(** * Simulation: a section task executed by [step] over the mp window table = [sem_step] *)
Section MPsim.
  Variable dflt : nat.
  Variable rec : kind -> bool -> nat -> mat -> mat -> mat -> res mat.
  Variable cutoff : nat.
  Variable E : env.
  Variables A B C0 : mat.
  Variables ar ac bc : nat.
  Let F := fenv_of A B C0.
  Hypothesis wfA : wf A.
  Hypothesis wfB : wf B.
  Hypothesis HA : 2 * ar <= nr A /\ 2 * ac <= nc A.
  Hypothesis HB : 2 * ac <= nr B /\ 2 * bc <= nc B.
  Hypothesis HC0 : 2 * ar <= nr C0.
  Hypothesis Eanr : E Vanr = ar.
  Hypothesis Eanc : E Vanc = ac.
  Hypothesis Ebnr : E Vbnr = ac.
  Hypothesis Ebnc : E Vbnc = bc.
  Hypothesis rec_ok : forall kk w Cd Xm Ym, k_sqr kk = false -> wf Cd -> wf Xm -> wf Ym ->
    nr Xm = ar -> nc Xm = ac -> nr Ym = ac -> nc Ym = bc -> nr Cd = ar -> nc Cd = bc ->
    rec kk w cutoff Cd Xm Ym = Ok (acc_spec kk Cd Xm Ym).

  Definition pr (p : parent) : nat := match p with PB => ac | _ => ar end.
  Definition pc (p : parent) : nat := match p with PA => ac | _ => bc end.

  Lemma wcoords_cwin p i j : i < 2 -> j < 2 ->
    wcoords E F (cwin p i j) = (i * pr p, j * pc p, pr p, pc p).
  Proof.
    intros Hi Hj. unfold wcoords, cwin. cbn [w_r0 w_c0 w_r1 w_c1 w_par].
    assert (Er : E (wdr p) = pr p) by (destruct p; assumption).
    assert (Ec : E (wdc p) = pc p) by (destruct p; assumption).
    assert (Hn : 2 * pr p <= F p Fnrows). { unfold F, fenv_of; destruct p; cbn [psel pr]. all: lia. }
    destruct i as [|[|]], j as [|[|]]; try lia; cbn [aeval two]; rewrite ?Er, ?Ec;
      repeat f_equal; lia.
  Qed.

  Lemma wread_cwin p i j C : i < 2 -> j < 2 ->
    wread E F A B C (cwin p i j) = msub (psel p A B C) (i * pr p) (j * pc p) (pr p) (pc p).
  Proof. intros Hi Hj. unfold wread. rewrite wcoords_cwin by assumption. reflexivity. Qed.

  Notation sstep := (sem_step A B ar ac bc).

  Lemma step_parts wins kk d x y o st : k_sqr kk = false ->
    tr_parts wins (k_acc kk) d x y = Some o -> okC ar bc (sC st) ->
    binop rec cutoff E F A B wins kk d x y st = Ok (mkst (sstep (sC st) o) (sT st)).
  Proof.
    intros Hk Ht HC. apply tr_parts_spec in Ht as ((Hi & Hj & Hl) & Hacc & Ad & Ax & Ay).
    destruct HC as (WC & RC & CC).
    unfold binop.
    assert (Hdx : String.eqb d x = false).
    { destruct (String.eqb_spec d x) as [->|]; [|reflexivity]. rewrite Ad in Ax. discriminate. }
    assert (Hdy : String.eqb d y = false).
    { destruct (String.eqb_spec d y) as [->|]; [|reflexivity]. rewrite Ad in Ay. discriminate. }
    rewrite Hdx, Hdy. cbn [orb]. unfold rd. rewrite Ad, Ax, Ay. cbn [bind].
    rewrite !wread_cwin by assumption. cbn [psel pr pc].
    unfold mul_dims. cbn [nr nc msub]. rewrite !Nat.eqb_refl. cbn [andb orb].
    rewrite rec_ok; auto; try (apply wf_msub; rewrite wf_len by assumption).
    2:{ destruct (o_i o) as [|[|]]; lia. }
    2:{ destruct (o_i o) as [|[|]]; lia. }
    2:{ destruct (o_l o) as [|[|]]; lia. }
    cbn [bind]. unfold wr. rewrite Ad. cbn [cwin w_par]. fold (cwin PC (o_i o) (o_j o)).
    rewrite wcoords_cwin by assumption. cbn [pr pc].
    unfold sem_step, loc_step, prod_of, acc_spec, cblk, ablk, bblk. rewrite Hacc. reflexivity.
  Qed.

  Lemma step_tr wins i o st : tr wins i = Some o -> okC ar bc (sC st) ->
    step dflt rec cutoff E F A B wins i st = Ok (mkst (sstep (sC st) o) (sT st)).
  Proof.
    intros Ht HC. destruct i; try discriminate; cbn [tr step] in *.
    - apply (step_parts wins Kmul); auto.
    - apply (step_parts wins Kaddmul); auto.
  Qed.

  Lemma tr_okop wins i o : tr wins i = Some o -> okop o.
  Proof. destruct i; try discriminate; cbn [tr]; intros H; apply tr_parts_spec in H; apply H. Qed.

  (** the simulation lemma missing in StrassenProofs.v *)
  Lemma run_tr wins l : forall st, (forall i, In i l -> tr wins i <> None) -> okC ar bc (sC st) ->
    run_body dflt rec cutoff E F A B wins l st =
    Ok (mkst (sem_run A B ar ac bc (map (trd wins) l) (sC st)) (sT st)).
  Proof.
    induction l as [|i l IH]; intros st Hl HC; cbn [run_body map sem_run fold_left].
    - destruct st; reflexivity.
    - destruct (tr wins i) as [o|] eqn:Ht; [|exfalso; apply (Hl i); [now left|exact Ht]].
      assert (Hd : trd wins i = o) by (unfold trd; now rewrite Ht).
      rewrite (step_tr wins i o st Ht HC), Hd. cbn [bind].
      rewrite IH; cbn [sC sT].
      + reflexivity.
      + intros i' Hi'. apply Hl. now right.
      + apply (sem_step_ok A B ar ac bc wfA wfB HA HB); [eapply tr_okop; eauto|exact HC].
  Qed.
End MPsim.

(* ------------------------------------------------------------------------------------------ *)
(** * What [check_mp] says about the section task lists *)
Lemma task_tr acc wins sec i j : mp_task_ok acc wins sec = Some (i, j) ->
  exists x1 x2 l1 l2, sec = [x1; x2] /\ tr wins x1 = Some (mkop i j l1 acc) /\
    tr wins x2 = Some (mkop i j l2 true) /\ l1 + l2 = 1.
Proof.
  unfold mp_task_ok. intros H.
  destruct sec as [|x1 [|x2 [|]]]; try discriminate.
  exists x1, x2.
  destruct x1 as [?|d1 a1 b1|d1 a1 b1| | | |]; try discriminate;
  destruct x2 as [?|d2 a2 b2|d2 a2 b2| | | |]; try discriminate; cbn [tr]; unfold tr_parts, mres;
  repeat match type of H with
         | match ?t with _ => _ end = _ => destruct t eqn:?; try discriminate
         end.
  all: inversion H; subst i j; clear H.
  all: repeat match goal with Hb : _ && _ = true |- _ => apply andb_true_iff in Hb as [Hb ?] end.
  all: try discriminate.
  all: repeat match goal with Hb : (_ =? _) = true |- _ => apply Nat.eqb_eq in Hb end.
  all: match goal with Hb : eqb _ _ = true |- _ => apply eqb_prop in Hb end.
  all: subst.
  all: match goal with Hl : ?a + ?b = 1 |- _ => exists a, b end.
  all: rewrite !Nat.eqb_refl; cbn [andb]; auto.
Qed.

Lemma pigeon4 q0 q1 q2 q3 q : q0 < 4 -> q1 < 4 -> q2 < 4 -> q3 < 4 -> q < 4 ->
  q0 <> q1 -> q0 <> q2 -> q0 <> q3 -> q1 <> q2 -> q1 <> q3 -> q2 <> q3 ->
  q0 = q \/ q1 = q \/ q2 = q \/ q3 = q.
Proof. lia. Qed.
Lemma pair_ne i j i' j' : j < 2 -> j' < 2 -> (i =? i') && (j =? j') = false -> 2 * i + j <> 2 * i' + j'.
Proof. intros Hj Hj' H. destruct (Nat.eqb_spec i i'), (Nat.eqb_spec j j'); try discriminate; lia. Qed.

(** the four sections own the four quadrants: every quadrant has exactly one section, made of the two
    products C_ij (+)= A_il1 * B_l1j ; C_ij += A_il2 * B_l2j with {l1,l2} = {0,1} *)
Lemma sections_cover acc wins (secs : list (list instr)) :
  forallb (fun o => match o with Some _ => true | None => false end) (map (mp_task_ok acc wins) secs) = true ->
  nodupb (fun a b => match a, b with Some (i, j), Some (i', j') => (i =? i') && (j =? j') | _, _ => true end)
         (map (mp_task_ok acc wins) secs) = true ->
  length (map (mp_task_ok acc wins) secs) = 4 ->
  (forall x, (exists l, In l secs /\ In x l) -> tr wins x <> None) /\
  forall i j, i < 2 -> j < 2 -> exists n,
    (exists x1 x2 l1 l2, nth n secs [] = [x1; x2] /\ trd wins x1 = mkop i j l1 acc /\
       trd wins x2 = mkop i j l2 true /\ l1 + l2 = 1) /\
    forall m, m <> n -> forall x, In x (nth m secs []) -> here i j (trd wins x) = false.
Proof.
  intros Hall Hnd Hlen. rewrite map_length in Hlen.
  destruct secs as [|s0 [|s1 [|s2 [|s3 [|]]]]]; try discriminate. clear Hlen.
  cbn [map forallb] in Hall, Hnd.
  destruct (mp_task_ok acc wins s0) as [[i0 j0]|] eqn:T0; [|discriminate].
  destruct (mp_task_ok acc wins s1) as [[i1 j1]|] eqn:T1; [|discriminate].
  destruct (mp_task_ok acc wins s2) as [[i2 j2]|] eqn:T2; [|discriminate].
  destruct (mp_task_ok acc wins s3) as [[i3 j3]|] eqn:T3; [|discriminate].
  clear Hall. cbn [nodupb existsb] in Hnd.
  apply task_tr in T0 as (x01 & x02 & l01 & l02 & -> & Ta0 & Tb0 & L0).
  apply task_tr in T1 as (x11 & x12 & l11 & l12 & -> & Ta1 & Tb1 & L1).
  apply task_tr in T2 as (x21 & x22 & l21 & l22 & -> & Ta2 & Tb2 & L2).
  apply task_tr in T3 as (x31 & x32 & l31 & l32 & -> & Ta3 & Tb3 & L3).
  pose proof (tr_okop _ _ _ Ta0) as (I0 & J0 & _). pose proof (tr_okop _ _ _ Ta1) as (I1 & J1 & _).
  pose proof (tr_okop _ _ _ Ta2) as (I2 & J2 & _). pose proof (tr_okop _ _ _ Ta3) as (I3 & J3 & _).
  cbn [o_i o_j] in *.
  assert (D0 : forall x, In x [x01; x02] -> trd wins x = mkop i0 j0 (o_l (trd wins x)) (o_acc (trd wins x))).
  { intros x [<-|[<-|[]]]; unfold trd; rewrite ?Ta0, ?Tb0; reflexivity. }
  assert (D1 : forall x, In x [x11; x12] -> trd wins x = mkop i1 j1 (o_l (trd wins x)) (o_acc (trd wins x))).
  { intros x [<-|[<-|[]]]; unfold trd; rewrite ?Ta1, ?Tb1; reflexivity. }
  assert (D2 : forall x, In x [x21; x22] -> trd wins x = mkop i2 j2 (o_l (trd wins x)) (o_acc (trd wins x))).
  { intros x [<-|[<-|[]]]; unfold trd; rewrite ?Ta2, ?Tb2; reflexivity. }
  assert (D3 : forall x, In x [x31; x32] -> trd wins x = mkop i3 j3 (o_l (trd wins x)) (o_acc (trd wins x))).
  { intros x [<-|[<-|[]]]; unfold trd; rewrite ?Ta3, ?Tb3; reflexivity. }
  split.
  { intros x (l & Hl & Hx).
    destruct Hl as [<-|[<-|[<-|[<-|[]]]]]; destruct Hx as [<-|[<-|[]]]; congruence. }
  intros i j Hi Hj.
  assert (Hcase : (i0 = i /\ j0 = j) \/ (i1 = i /\ j1 = j) \/ (i2 = i /\ j2 = j) \/ (i3 = i /\ j3 = j)).
  { rewrite !andb_true_iff, !negb_true_iff, !orb_false_iff in Hnd.
    destruct Hnd as ((N01 & N02 & N03 & _) & (N12 & N13 & _) & (N23 & _) & _).
    apply pair_ne in N01, N02, N03, N12, N13, N23; try assumption.
    assert (Hdec : forall a b, a < 2 -> b < 2 -> 2 * a + b < 4 /\ (2 * a + b = 2 * i + j -> a = i /\ b = j)).
    { clear - Hi Hj. intros a b Ha Hb. lia. }
    destruct (pigeon4 (2 * i0 + j0) (2 * i1 + j1) (2 * i2 + j2) (2 * i3 + j3) (2 * i + j)) as [P|[P|[P|P]]];
      try assumption; try (apply Hdec; assumption); apply Hdec in P; auto. }
  assert (Hne : forall i' j', i' < 2 -> j' < 2 -> (i' = i /\ j' = j) \/ (i' =? i) && (j' =? j) = false).
  { intros i' j' _ _. destruct (Nat.eqb_spec i' i), (Nat.eqb_spec j' j); auto. }
  rewrite !andb_true_iff, !negb_true_iff, !orb_false_iff in Hnd.
  destruct Hnd as ((N01 & N02 & N03 & _) & (N12 & N13 & _) & (N23 & _) & _).
  assert (Hh : forall i' j' x, here i j (mkop i' j' (o_l x) (o_acc x)) = (i' =? i) && (j' =? j)) by reflexivity.
  destruct Hcase as [[-> ->]|[[-> ->]|[[-> ->]|[-> ->]]]]; [exists 0|exists 1|exists 2|exists 3].
  all: (split; [cbn [nth]; do 4 eexists; split; [reflexivity|]; unfold trd;
                rewrite ?Ta0, ?Tb0, ?Ta1, ?Tb1, ?Ta2, ?Tb2, ?Ta3, ?Tb3; auto|]).
  all: intros m Hm x Hx; destruct m as [|[|[|[|m]]]]; try lia; cbn [nth] in Hx;
       try (destruct m; contradiction);
       first [rewrite (D0 x Hx) | rewrite (D1 x Hx) | rewrite (D2 x Hx) | rewrite (D3 x Hx)]; rewrite Hh;
       first [assumption | rewrite Nat.eqb_sym, (Nat.eqb_sym _ j); assumption].
Qed.

(* ------------------------------------------------------------------------------------------ *)
(** * What one section leaves in its quadrant *)
Section MPquad.
  Variables A B : mat.
  Variables ar ac bc : nat.
  Hypothesis wfA : wf A.
  Hypothesis wfB : wf B.
  Hypothesis HA : 2 * ar <= nr A /\ 2 * ac <= nc A.
  Hypothesis HB : 2 * ac <= nr B /\ 2 * bc <= nc B.

  Lemma get_prod o i' j' : okop o -> i' < ar -> j' < bc ->
    get (prod_of A B ar ac bc o) i' j' =
    xsum ac (fun t => get A (o_i o * ar + i') (o_l o * ac + t) && get B (o_l o * ac + t) (o_j o * bc + j')).
  Proof.
    intros (Hi & Hj & Hl) Hi' Hj'. unfold prod_of, ablk, bblk.
    assert (La : o_i o * ar + ar <= length (rows A)).
    { rewrite wf_len by assumption. destruct (o_i o) as [|[|]]; lia. }
    assert (Lb : o_l o * ac + ac <= length (rows B)).
    { rewrite wf_len by assumption. destruct (o_l o) as [|[|]]; lia. }
    rewrite get_mmul by (apply wf_msub; assumption). cbn [nr msub].
    apply xsum_ext. intros t Ht. rewrite !get_msub by assumption.
    destruct (Nat.ltb_spec i' ar), (Nat.ltb_spec t ac), (Nat.ltb_spec j' bc); try lia. reflexivity.
  Qed.

  Lemma quad_result (acc : bool) Q l1 l2 i j i' j' : i < 2 -> j < 2 -> l1 + l2 = 1 ->
    wf Q -> nr Q = ar -> nc Q = bc -> i' < ar -> j' < bc ->
    get (fold_left (loc_step A B ar ac bc) [mkop i j l1 acc; mkop i j l2 true] Q) i' j' =
    xorb (acc && get Q i' j') (xsum (2 * ac) (fun t => get A (i * ar + i') t && get B t (j * bc + j'))).
  Proof.
    intros Hi Hj Hl WQ RQ CQ Hi' Hj'.
    assert (O1 : okop (mkop i j l1 acc)) by (repeat split; cbn; lia).
    assert (O2 : okop (mkop i j l2 true)) by (repeat split; cbn; lia).
    destruct (wf_prod A B ar ac bc wfA wfB HA HB _ O1) as (W1 & R1 & C1).
    destruct (wf_prod A B ar ac bc wfA wfB HA HB _ O2) as (W2 & R2 & C2).
    destruct (wf_loc A B ar ac bc wfA wfB HA HB Q _ O1 WQ RQ CQ) as (W3 & R3 & C3).
    cbn [fold_left]. unfold loc_step at 1. cbn [o_acc].
    rewrite get_madd by (rewrite !wf_len by assumption; lia).
    rewrite (get_prod _ i' j' O2 Hi' Hj'). cbn [o_i o_j o_l].
    assert (G1 : get (loc_step A B ar ac bc Q (mkop i j l1 acc)) i' j' =
                 xorb (acc && get Q i' j')
                      (xsum ac (fun t => get A (i * ar + i') (l1 * ac + t) && get B (l1 * ac + t) (j * bc + j')))).
    { unfold loc_step. cbn [o_acc]. destruct acc; cbn [andb].
      - rewrite get_madd by (rewrite !wf_len by assumption; lia). now rewrite (get_prod _ i' j' O1 Hi' Hj').
      - rewrite xorb_false_l. now rewrite (get_prod _ i' j' O1 Hi' Hj'). }
    rewrite G1. replace (2 * ac) with (ac + ac) by lia. rewrite xsum_app.
    assert (Hc : (l1 = 0 /\ l2 = 1) \/ (l1 = 1 /\ l2 = 0)) by lia.
    destruct Hc as [[-> ->]|[-> ->]]; rewrite ?Nat.mul_0_l, ?Nat.mul_1_l; cbn [Nat.add].
    - rewrite xorb_assoc. reflexivity.
    - rewrite xorb_assoc. f_equal. apply xorb_comm.
  Qed.
End MPquad.

(* ------------------------------------------------------------------------------------------ *)
(** * The remainder strips of mp.c:111-136 / 230-255 in the form of [three_strips] *)
Lemma run_strips_mp base E A B C C1 (acc : bool) m kk n ar ac bc :
  nr A = m -> nc A = kk -> nr B = kk -> nc B = n -> nr C = m -> nc C = n ->
  2 * ar <= m -> 2 * ac <= kk -> 2 * bc <= n ->
  E Vanr = ar -> E Vanc = ac -> E Vbnr = ac -> E Vbnc = bc ->
  run_strips base E (fenv_of A B C) A B (canon_mp_strips acc) C1 =
  (s1 <- (if 2 * bc <? n then dostrip base (if acc then SAddW else SMulW) C1 0 (2 * bc) m (n - 2 * bc) A
                                       (msub B 0 (2 * bc) kk (n - 2 * bc)) else Ok C1) ;;
   s2 <- (if 2 * ar <? m then dostrip base (if acc then SAddW else SMulW) s1 (2 * ar) 0 (m - 2 * ar) (2 * bc)
                                       (msub A (2 * ar) 0 (m - 2 * ar) kk) (msub B 0 0 kk (2 * bc))
          else Ok s1) ;;
   (if 2 * ac <? kk then dostrip base SAddW s2 0 0 (2 * ar) (2 * bc) (msub A 0 (2 * ac) (2 * ar) (kk - 2 * ac))
                                  (msub B (2 * ac) 0 (kk - 2 * ac) (2 * bc)) else Ok s2)).
Proof.
  intros HnrA HncA HnrB HncB HnrC HncC Lm Lk Ln Ea Eb Ec Ed.
  unfold canon_mp_strips. rewrite run_strips_3 by reflexivity. unfold DS.
  cbn [st_pre st_guard st_dst st_x st_y st_op assigns aeval beval W oread wread wcoords two
       w_par w_r0 w_c0 w_r1 w_c1 psel fenv_of fst snd].
  rewrite Ea, Eb, Ec, Ed, HnrA, HncA, HnrB, HncB, HnrC, HncC.
  rewrite !Nat.sub_0_r, !Nat.min_id.
  replace (Nat.min (2 * ar) m) with (2 * ar) by lia.
  reflexivity.
Qed.

(* ------------------------------------------------------------------------------------------ *)
(** * _mzd_mul_mp4 / _mzd_addmul_mp4 *)
Section MPmain.
  Variable base : mat -> mat -> mat -> bool -> res mat.
  Variable dflt : nat.
  Variable T : kind -> sched.
  Variable MP : bool -> mpsched.
  Hypothesis base_ok : base_correct base.
  Hypothesis T_ok : forall k, check_sched (T k) = true.
  Hypothesis T_kind : forall k, s_kind (T k) = k.
  Hypothesis MP_ok : forall b, check_mp (MP b) = true.
  Hypothesis MP_acc : forall b, mp_acc (MP b) = b.

  (** the environment after mp.c:43-45 and 61-70 *)
  Definition mp_env (acc : bool) (c : nat) (A B C : mat) : env :=
    assigns (assigns (eupd (fun _ => 0) Vcutoff c) (fenv_of A B C) (mp_dims (MP acc)))
            (fenv_of A B C) (mp_splits (MP acc)).

  Lemma mp_env_values acc c A B C :
    let E1 := mp_env acc c A B C in
    E1 Vanr = mp_pt (nr A) /\ E1 Vanc = mp_pt (nc A) /\ E1 Vbnr = mp_pt (nc A) /\ E1 Vbnc = mp_pt (nc B).
  Proof.
    pose proof (MP_ok acc) as Hck. unfold check_mp in Hck. rewrite !andb_true_iff in Hck.
    destruct Hck as [[[[[[[[K1 K2] K3] K4] K5] K6] K7] K8] K9].
    apply deq_true in K1, K5. unfold mp_env. rewrite K1, K5. repeat split; reflexivity.
  Qed.

  (** the split points are multiples of the word size: the four C quadrants (and the A and B
      quadrants) start and end on word boundaries, so the sections write pairwise disjoint WORDS *)
  Theorem mp_split_multiple_of_64 acc c A B C :
    let E1 := mp_env acc c A B C in
    E1 Vanr mod 64 = 0 /\ E1 Vanc mod 64 = 0 /\ E1 Vbnr mod 64 = 0 /\ E1 Vbnc mod 64 = 0 /\
    2 * E1 Vanr = nr A - nr A mod 128 /\ 2 * E1 Vanc = nc A - nc A mod 128 /\
    E1 Vbnr = E1 Vanc /\ 2 * E1 Vbnc = nc B - nc B mod 128.
  Proof.
    cbv zeta. destruct (mp_env_values acc c A B C) as (-> & -> & -> & ->).
    rewrite !mp_pt_mod64, !mp_pt_double. repeat split; reflexivity.
  Qed.

  Theorem mp4_spec acc order c C A B :
    interleaving (mp_sections (MP acc)) order -> 63 <= c ->
    wf C -> wf A -> wf B -> nc A = nr B -> nr C = nr A -> nc C = nc B ->
    0 < nr A -> 0 < nc A -> 0 < nc B ->
    mp4 base dflt T MP order acc c C A B = Ok (if acc then madd C (mmul A B) else mmul A B).
  Proof.
    intros Hil Hc HC HA HB D1 D2 D3 P1 P2 P3.
    destruct (closer (nr A) c || (closer (nc A) c || (closer (nc B) c || false))) eqn:Hcl.
    { apply mp4_base_partial; auto. }
    pose proof (mp_env_values acc c A B C) as HE. cbv zeta in HE.
    pose proof (MP_ok acc) as Hck. unfold check_mp in Hck. rewrite (MP_acc acc) in Hck.
    rewrite !andb_true_iff in Hck.
    destruct Hck as [[[[[[[[K1 K2] K3] K4] K5] K6] K7] K8] K9]. cbv zeta in K9.
    destruct K9 as [[K9 K10] K11]. apply Nat.eqb_eq in K11.
    apply deq_true in K1, K2, K3, K5, K6.
    unfold mp4. fold (mp_env acc c A B C). rewrite K2, K3, K6. rewrite K1 at 1.
    set (F := fenv_of A B C).
    assert (Hb : is_base (assigns (eupd (fun _ => 0) Vcutoff c) F canon_mp_dims) F canon_closer canon_mp_args
                 = closer (nr A) c || (closer (nc A) c || (closer (nc B) c || false))) by reflexivity.
    rewrite Hb, Hcl. clear Hb.
    rewrite !orb_false_iff in Hcl. destruct Hcl as (Ca & Cb & Cc & _).
    apply closer_false in Ca, Cb, Cc.
    set (E1 := mp_env acc c A B C) in *. destruct HE as (Ea & Eb & Ec & Ed).
    set (ar := mp_pt (nr A)) in *. set (ac := mp_pt (nc A)) in *. set (bc := mp_pt (nc B)) in *.
    assert (Lar : 2 * ar <= nr A) by apply mp_pt_le. assert (Lac : 2 * ac <= nc A) by apply mp_pt_le.
    assert (Lbc : 2 * bc <= nc B) by apply mp_pt_le.
    assert (Par : 64 <= ar) by (apply mp_pt_pos; lia). assert (Pac : 64 <= ac) by (apply mp_pt_pos; lia).
    assert (Pbc : 64 <= bc) by (apply mp_pt_pos; lia).
    clearbody ar ac bc.
    assert (HAb : 2 * ar <= nr A /\ 2 * ac <= nc A) by lia.
    assert (HBb : 2 * ac <= nr B /\ 2 * bc <= nc B) by lia.
    assert (HokC : okC ar bc C) by (split; [assumption|lia]).
    destruct (sections_cover acc (mp_wins (MP acc)) (mp_sections (MP acc)) K9 K10 K11) as [Htr Hcov].
    (* the sections, in any order *)
    rewrite (run_tr dflt (strassen base dflt T (fuel_for A B)) c E1 A B C ar ac bc HA HB HAb HBb);
      try assumption; try lia.
    2:{ intros kk w Cd Xm Ym Hk WCd WX WY RX CX RY CY RCd CCd.
        apply (strassen_spec base dflt T base_ok T_ok T_kind); auto; try lia.
        - rewrite Hk. discriminate.
        - unfold fuel_for. apply Nat.lt_succ_r, Nat.log2_le_mono. lia. }
    2:{ intros i Hi. apply Htr. eapply il_in; eauto. }
    cbn [bind sC].
    set (ops := map (trd (mp_wins (MP acc))) order).
    assert (Hil' : interleaving (map (map (trd (mp_wins (MP acc)))) (mp_sections (MP acc))) ops)
      by (apply il_map; exact Hil).
    assert (Hokops : Forall (Forall okop) (map (map (trd (mp_wins (MP acc)))) (mp_sections (MP acc)))).
    { apply Forall_forall. intros l Hl. apply in_map_iff in Hl as (l' & <- & Hl').
      apply Forall_forall. intros o Ho. apply in_map_iff in Ho as (x & <- & Hx).
      specialize (Htr x (ex_intro _ l' (conj Hl' Hx))).
      unfold trd. destruct (tr (mp_wins (MP acc)) x) as [o|] eqn:Ht; [|contradiction].
      eapply tr_okop; eauto. }
    assert (Hall : Forall okop ops).
    { apply Forall_forall. intros o Ho. destruct (il_in _ _ _ Hil' Ho) as (l & Hl & Hol).
      rewrite Forall_forall in Hokops. specialize (Hokops l Hl). rewrite Forall_forall in Hokops. auto. }
    destruct (sem_run_proj A B ar ac bc HA HB HAb HBb ops C Hall HokC) as (HokC1 & R1 & C1 & _ & Hout).
    set (C1m := sem_run A B ar ac bc ops C) in *.
    assert (Hin : forall a b, a < 2 * ar -> b < 2 * bc ->
              get C1m a b = xorb (acc && get C a b) (xsum (2 * ac) (fun t => get A a t && get B t b))).
    { intros a b Ha Hb'.
      set (i := if a <? ar then 0 else 1). set (j := if b <? bc then 0 else 1).
      set (i' := if a <? ar then a else a - ar). set (j' := if b <? bc then b else b - bc).
      assert (Hi : i < 2) by (unfold i; destruct (a <? ar); lia).
      assert (Hj : j < 2) by (unfold j; destruct (b <? bc); lia).
      assert (Hi' : i' < ar /\ i * ar + i' = a) by (unfold i, i'; destruct (Nat.ltb_spec a ar); lia).
      assert (Hj' : j' < bc /\ j * bc + j' = b) by (unfold j, j'; destruct (Nat.ltb_spec b bc); lia).
      destruct Hi' as [Hi' Ei], Hj' as [Hj' Ej].
      destruct (Hcov i j Hi Hj) as (n & (x1 & x2 & l1 & l2 & Hn & Tx1 & Tx2 & Hl) & Hoth).
      pose proof (sections_commute A B ar ac bc HA HB HAb HBb _ ops C Hil' HokC Hokops n i j Hi Hj) as Hsc.
      assert (Hnth : forall m, nth m (map (map (trd (mp_wins (MP acc)))) (mp_sections (MP acc))) [] =
                               map (trd (mp_wins (MP acc))) (nth m (mp_sections (MP acc)) [])).
      { intros m. change (@nil mop) with (map (trd (mp_wins (MP acc))) []) at 1. apply map_nth. }
      rewrite Hnth, Hn in Hsc. cbn [map] in Hsc. rewrite Tx1, Tx2 in Hsc.
      assert (Hq : cblk ar bc C1m i j =
                   fold_left (loc_step A B ar ac bc) [mkop i j l1 acc; mkop i j l2 true] (cblk ar bc C i j)).
      { apply Hsc.
        - intros o [<-|[<-|[]]]; unfold here; cbn [o_i o_j]; now rewrite !Nat.eqb_refl.
        - intros m Hm o Ho. rewrite Hnth in Ho. apply in_map_iff in Ho as (x & <- & Hx).
          eapply Hoth; eauto. }
      destruct HokC1 as (WC1 & _ & _).
      assert (G1 : get C1m a b = get (cblk ar bc C1m i j) i' j').
      { unfold cblk. rewrite get_msub by (rewrite wf_len by assumption; destruct i as [|[|]]; lia).
        destruct (Nat.ltb_spec i' ar), (Nat.ltb_spec j' bc); try lia. cbn [andb]. now rewrite Ei, Ej. }
      rewrite G1, Hq.
      rewrite (quad_result A B ar ac bc HA HB HAb HBb); auto.
      2:{ apply wf_msub. rewrite wf_len by assumption. destruct i as [|[|]]; lia. }
      unfold cblk. rewrite get_msub by (rewrite wf_len by assumption; destruct i as [|[|]]; lia).
      destruct (Nat.ltb_spec i' ar), (Nat.ltb_spec j' bc); try lia. cbn [andb]. now rewrite Ei, Ej. }
    (* the strips *)
    destruct HokC1 as (WC1 & _ & _).
    unfold F.
    rewrite (run_strips_mp base E1 A B C C1m acc (nr A) (nc A) (nc B) ar ac bc); auto; try lia.
    destruct (three_strips base base_ok (if acc then SAddW else SMulW) A B C C1m
                (nr A) (nc A) (nc B) (2 * ar) (2 * ac) (2 * bc)) as (R & HR & WR & RR & CR & GR);
      auto; try lia.
    { intros i j Hi Hj. rewrite Hin by assumption. destruct acc; reflexivity. }
    rewrite HR. f_equal.
    replace acc with (sop_acc (if acc then SAddW else SMulW)) at 2 by (destruct acc; reflexivity).
    apply result_ext; auto; try lia.
    intros i j Hi Hj. rewrite GR by assumption. destruct acc; reflexivity.
  Qed.
End MPmain.

(* ------------------------------------------------------------------------------------------ *)
(** * The public wrappers mzd_mul_mp (mp.c:277-297) and mzd_addmul_mp (mp.c:299-324) *)
Section MPwrappers.
  Variable base : mat -> mat -> mat -> bool -> res mat.
  Variable dflt : nat.
  Variable T : kind -> sched.
  Variable MP : bool -> mpsched.
  Hypothesis base_ok : base_correct base.
  Hypothesis T_ok : forall k, check_sched (T k) = true.
  Hypothesis T_kind : forall k, s_kind (T k) = k.
  Hypothesis MP_ok : forall b, check_mp (MP b) = true.
  Hypothesis MP_acc : forall b, mp_acc (MP b) = b.

  Theorem mzd_mul_mp_spec order cutoff Copt A B :
    interleaving (mp_sections (MP false)) order ->
    wf A -> wf B -> nc A = nr B -> 0 < nr A -> 0 < nc A -> 0 < nc B -> (0 <= cutoff)%Z ->
    dest_ok Copt A B -> ub_guard (norm_cutoff dflt (Z.to_nat cutoff)) A B = false ->
    mzd_mul_mp_model base dflt T MP order cutoff Copt A B = Ok (mmul A B).
  Proof.
    intros Hil HA HB Hd P1 P2 P3 Hc HC Hub. unfold mzd_mul_mp_model.
    destruct (wrapper_head_ok dflt cutoff Copt A B Hc Hd HC Hub) as (-> & W & R & Cn). cbn [bind].
    pose proof (norm_cutoff_ge dflt (Z.to_nat cutoff)).
    rewrite (mp4_spec base dflt T MP base_ok T_ok T_kind MP_ok MP_acc false); auto; lia.
  Qed.

  Theorem mzd_addmul_mp_spec order cutoff Copt A B :
    interleaving (mp_sections (MP true)) order ->
    wf A -> wf B -> nc A = nr B -> 0 < nr A -> 0 < nc A -> 0 < nc B -> (0 <= cutoff)%Z ->
    dest_ok Copt A B -> ub_guard (norm_cutoff dflt (Z.to_nat cutoff)) A B = false ->
    mzd_addmul_mp_model base dflt T MP order cutoff Copt A B = Ok (madd (dest Copt A B) (mmul A B)).
  Proof.
    intros Hil HA HB Hd P1 P2 P3 Hc HC Hub. unfold mzd_addmul_mp_model.
    destruct (wrapper_head_ok dflt cutoff Copt A B Hc Hd HC Hub) as (-> & W & R & Cn). cbn [bind].
    destruct (Nat.eqb_spec (nr A) 0); [lia|]. destruct (Nat.eqb_spec (nc A) 0); [lia|].
    destruct (Nat.eqb_spec (nc B) 0); [lia|]. cbn [orb].
    pose proof (norm_cutoff_ge dflt (Z.to_nat cutoff)).
    rewrite (mp4_spec base dflt T MP base_ok T_ok T_kind MP_ok MP_acc true); auto; lia.
  Qed.

  (** the m4ri_die conditions (mp.c:278-281, 290-293, 300-303, 312-315) *)
  Lemma mp_head_dies cutoff Copt A B :
    nc A <> nr B \/ (cutoff < 0)%Z \/ (exists C, Copt = Some C /\ (nr C <> nr A \/ nc C <> nc B)) ->
    wrapper_head dflt cutoff Copt A B = Err Die.
  Proof.
    intros H. unfold wrapper_head.
    destruct (Nat.eqb_spec (nc A) (nr B)) as [He|Hne]; cbn [negb bind]; [|reflexivity].
    destruct (Z.ltb_spec cutoff 0); cbn [bind]; [reflexivity|].
    destruct H as [H|[H|(C & -> & H)]]; try contradiction; try lia.
    destruct (Nat.eqb_spec (nr C) (nr A)), (Nat.eqb_spec (nc C) (nc B)); cbn [andb bind]; try reflexivity.
    destruct H; contradiction.
  Qed.
  Theorem mzd_mul_mp_dies order cutoff Copt A B :
    nc A <> nr B \/ (cutoff < 0)%Z \/ (exists C, Copt = Some C /\ (nr C <> nr A \/ nc C <> nc B)) ->
    mzd_mul_mp_model base dflt T MP order cutoff Copt A B = Err Die.
  Proof. intros H. unfold mzd_mul_mp_model. now rewrite mp_head_dies. Qed.
  Theorem mzd_addmul_mp_dies order cutoff Copt A B :
    nc A <> nr B \/ (cutoff < 0)%Z \/ (exists C, Copt = Some C /\ (nr C <> nr A \/ nc C <> nc B)) ->
    mzd_addmul_mp_model base dflt T MP order cutoff Copt A B = Err Die.
  Proof. intros H. unfold mzd_addmul_mp_model. now rewrite mp_head_dies. Qed.
End MPwrappers.

(* ------------------------------------------------------------------------------------------ *)
(** * Instantiation with the schedules generated from strassen.c / mp.c (Alg/StrassenGen.v) *)
From M4 Require Import Alg.StrassenGen.

Lemma gen_table_checked : forall k, check_sched (gen_table k) = true.
Proof. intros []; [exact sched_mul_ok|exact sched_sqr_ok|exact sched_addmul_ok|exact sched_addsqr_ok]. Qed.
Lemma gen_mp_checked : forall b, check_mp (gen_mp b) = true.
Proof. intros []; [exact sched_mp_addmul_ok|exact sched_mp_mul_ok]. Qed.

Theorem mp4_gen_spec base dflt : base_correct base ->
  forall acc order c C A B,
    interleaving (mp_sections (gen_mp acc)) order -> 63 <= c ->
    wf C -> wf A -> wf B -> nc A = nr B -> nr C = nr A -> nc C = nc B ->
    0 < nr A -> 0 < nc A -> 0 < nc B ->
    mp4_gen base dflt order acc c C A B = Ok (if acc then madd C (mmul A B) else mmul A B).
Proof.
  intros Hb. exact (mp4_spec base dflt gen_table gen_mp Hb gen_table_checked sched_kinds gen_mp_checked sched_mp_accs).
Qed.

Theorem mzd_mul_mp_gen_spec base dflt : base_correct base ->
  forall order cutoff Copt A B,
    interleaving (mp_sections (gen_mp false)) order ->
    wf A -> wf B -> nc A = nr B -> 0 < nr A -> 0 < nc A -> 0 < nc B -> (0 <= cutoff)%Z ->
    dest_ok Copt A B -> ub_guard (norm_cutoff dflt (Z.to_nat cutoff)) A B = false ->
    mzd_mul_mp_gen base dflt order cutoff Copt A B = Ok (mmul A B).
Proof.
  intros Hb. exact (mzd_mul_mp_spec base dflt gen_table gen_mp Hb gen_table_checked sched_kinds gen_mp_checked sched_mp_accs).
Qed.

Theorem mzd_addmul_mp_gen_spec base dflt : base_correct base ->
  forall order cutoff Copt A B,
    interleaving (mp_sections (gen_mp true)) order ->
    wf A -> wf B -> nc A = nr B -> 0 < nr A -> 0 < nc A -> 0 < nc B -> (0 <= cutoff)%Z ->
    dest_ok Copt A B -> ub_guard (norm_cutoff dflt (Z.to_nat cutoff)) A B = false ->
    mzd_addmul_mp_gen base dflt order cutoff Copt A B = Ok (madd (dest Copt A B) (mmul A B)).
Proof.
  intros Hb. exact (mzd_addmul_mp_spec base dflt gen_table gen_mp Hb gen_table_checked sched_kinds gen_mp_checked sched_mp_accs).
Qed.

Theorem mp_split_multiple_of_64_gen : forall acc c A B C,
  let E1 := mp_env gen_mp acc c A B C in
  E1 Vanr mod 64 = 0 /\ E1 Vanc mod 64 = 0 /\ E1 Vbnr mod 64 = 0 /\ E1 Vbnc mod 64 = 0 /\
  2 * E1 Vanr = nr A - nr A mod 128 /\ 2 * E1 Vanc = nc A - nc A mod 128 /\
  E1 Vbnr = E1 Vanc /\ 2 * E1 Vbnc = nc B - nc B mod 128.
Proof. exact (mp_split_multiple_of_64 gen_mp gen_mp_checked). Qed.

(** every window of the generated table starts and ends on a word boundary (columns), for all shapes *)
Theorem mp_windows_word_aligned : forall acc c A B C x w,
  assoc (mp_wins (gen_mp acc)) x = Some w ->
  let '(r0, c0, r, cc) := wcoords (mp_env gen_mp acc c A B C) (fenv_of A B C) w in
  c0 mod 64 = 0 /\ cc mod 64 = 0.
Proof.
  intros acc c A B C x w Hw.
  assert (Hr : exists p i j, mp_resolve w = Some (p, i, j)).
  { pose proof (gen_mp_checked acc) as Hck. unfold check_mp in Hck. rewrite !andb_true_iff in Hck.
    destruct Hck as [[[[[[[[_ _] _] _] _] _] K7] _] _]. rewrite forallb_forall in K7.
    assert (Hin : In (x, w) (mp_wins (gen_mp acc))).
    { clear K7. induction (mp_wins (gen_mp acc)) as [|[y v] l IH]; [discriminate|]. cbn [assoc] in Hw.
      destruct (String.eqb_spec x y) as [->|]; [inversion Hw; now left|right; auto]. }
    specialize (K7 _ Hin). cbn [snd] in K7.
    destruct (mp_resolve w) as [[[p i] j]|]; [eauto|discriminate]. }
  destruct Hr as (p & i & j & Hr). apply mp_resolve_spec in Hr as (-> & Hi & Hj).
  destruct (mp_split_multiple_of_64_gen acc c A B C) as (M1 & M2 & M3 & M4 & _).
  cbv zeta in M1, M2, M3, M4.
  unfold wcoords, cwin. cbn [w_c0 w_c1 w_r0 w_r1 w_par].
  set (E1 := mp_env gen_mp acc c A B C) in *.
  assert (Mc : E1 (wdc p) mod 64 = 0) by (destruct p; assumption).
  destruct j as [|[|]]; try lia; cbn [aeval two].
  - rewrite Nat.sub_0_r. split; [reflexivity|exact Mc].
  - split; [exact Mc|]. replace (2 * E1 (wdc p) - E1 (wdc p)) with (E1 (wdc p)) by lia. exact Mc.
Qed.
