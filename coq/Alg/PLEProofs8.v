(* Alg/PLEProofs8.v — C03, part 8: the block recursion, abstract part.  Given encodings (g1, ...) of the
   factorisation of the left block A0 and (g2, ...) of the Schur complement A11, the combined
       g = [ g1 (rows < r1)            | X = L00^-1 (P1 A1)[0..r1)     ]
           [ g1 (rows >= r1, permuted) | g2                            ]
   satisfies the abstract invariant for A with the pivots (q1, n1 + q2) and no pivot left
   ([combine_inv]). *)
From Coq Require Import List NArith Arith Lia Bool Sorted.
From M4 Require Import Base.Bits Lin.Mat Lin.MatAlg Lin.Ops Lin.Spec Lin.Perm
  Alg.PLE Alg.PLELemmas Alg.PLESpec Alg.PLEProofs Alg.PLEProofs2 Alg.PLEProofs3 Alg.PLEProofs6
  Alg.PLEProofs7.
Import ListNotations.
Local Open Scope nat_scope.

Section Combine.
  Variables (A A0 A11 : mat) (m0 n1 r1 r2 : nat) (P1 Q1 P2 Q2 P Q : list nat).
  Variables (g1 g2 X C : nat -> nat -> bool).
  Let m := nr A.
  Let n := nc A.
  Let n2 := n - n1.

  Hypothesis Hm0 : m0 <= m.
  Hypothesis Hn1 : n1 <= n.
  Hypothesis HA_zero : forall i j, m0 <= i -> get A i j = false.
  Hypothesis HA_sup : forall i j, n <= j -> get A i j = false.

  (* the left block and its factorisation *)
  Hypothesis HA0_nr : nr A0 = m0.
  Hypothesis HA0_nc : nc A0 = n1.
  Hypothesis HA0_get : forall i j, get A0 i j = (i <? m0) && (j <? n1) && get A i j.
  Hypothesis Inv1 : Inv A0 g1 (nthf P1) (nthf Q1) r1 n1.
  Hypothesis P1_id : forall i, r1 <= i -> i < m0 -> nth i P1 0 = i.

  (* the Schur complement and its factorisation *)
  Hypothesis HA11_nr : nr A11 = m0 - r1.
  Hypothesis HA11_nc : nc A11 = n2.
  Hypothesis HA11_get : forall i j, get A11 i j = C i j.
  Hypothesis Inv2 : Inv A11 g2 (nthf P2) (nthf Q2) r2 n2.
  Hypothesis P2_id : forall i, r2 <= i -> i < m0 - r1 -> nth i P2 0 = i.

  Hypothesis X_sup : forall i j, r1 <= i \/ n2 <= j -> X i j = false.

  Let q1 := nthf Q1.
  Let q2 := nthf Q2.
  Let ph1 := pi (nthf P1) (seq 0 r1).
  Let ph2 := pi (nthf P2) (seq 0 r2).

  (* B = P1 A1 = L10/L00 X + [0; C] *)
  Hypothesis Schur : forall i j, i < m0 -> j < n2 ->
    get A (ph1 i) (n1 + j) =
    xorb (xsum r1 (fun k => Lg g1 q1 i k && X k j)) ((r1 <=? i) && C (i - r1) j).

  (* the final permutations *)
  Hypothesis HP_lo : forall k, k < r1 -> nth k P 0 = nth k P1 0.
  Hypothesis HP_hi : forall k, r1 <= k -> k < r1 + r2 -> nth k P 0 = r1 + nth (k - r1) P2 0.
  Hypothesis HQ_lo : forall k, k < r1 -> nth k Q 0 = nth k Q1 0.
  Hypothesis HQ_hi : forall k, r1 <= k -> k < r1 + r2 -> nth k Q 0 = n1 + nth (k - r1) Q2 0.

  Definition sig2 (i : nat) : nat :=
    if i <? r1 then i else if i <? m0 then r1 + ph2 (i - r1) else i.

  Definition comb_g (i j : nat) : bool :=
    if i <? r1 then (if j <? n1 then g1 i j else X i (j - n1))
    else if i <? m0 then (if j <? n1 then g1 (sig2 i) j else g2 (i - r1) (j - n1))
    else false.

  Let Hr1 : r1 <= m0. Proof. rewrite <- HA0_nr. apply (inv_t _ _ _ _ _ _ Inv1). Qed.
  Let Hr2 : r2 <= m0 - r1. Proof. rewrite <- HA11_nr. apply (inv_t _ _ _ _ _ _ Inv2). Qed.
  Let Hr1n : r1 <= n1. Proof. rewrite <- HA0_nc. apply (fin_r_le_n _ _ _ _ _ _ Inv1). Qed.

  Lemma cb_q1 k : k < r1 -> k <= q1 k < n1.
  Proof. intros Hk. apply (inv_q _ _ _ _ _ _ Inv1 k Hk). Qed.
  Lemma cb_q2 k : k < r2 -> k <= q2 k < n2.
  Proof. intros Hk. apply (inv_q _ _ _ _ _ _ Inv2 k Hk). Qed.

  Lemma cb_ph2_lt i : i < m0 - r1 -> ph2 i < m0 - r1.
  Proof.
    apply pi_lt. intros t Ht. apply in_seq in Ht.
    pose proof (inv_p _ _ _ _ _ _ Inv2 t ltac:(lia)) as H. rewrite HA11_nr in H. lia.
  Qed.
  Lemma cb_ph1_lt i : i < m0 -> ph1 i < m0.
  Proof.
    apply pi_lt. intros t Ht. apply in_seq in Ht.
    pose proof (inv_p _ _ _ _ _ _ Inv1 t ltac:(lia)) as H. rewrite HA0_nr in H. lia.
  Qed.

  Lemma cb_sig2_lo i : i < r1 -> sig2 i = i.
  Proof. intros H. unfold sig2. destruct (Nat.ltb_spec i r1); [reflexivity|lia]. Qed.
  Lemma cb_sig2_mid i : r1 <= i -> i < m0 -> r1 <= sig2 i < m0.
  Proof.
    intros H1 H2. unfold sig2. destruct (Nat.ltb_spec i r1); [lia|]. destruct (Nat.ltb_spec i m0); [|lia].
    pose proof (cb_ph2_lt (i - r1) ltac:(lia)). lia.
  Qed.
  Lemma cb_sig2_lt i : i < m0 -> sig2 i < m0.
  Proof.
    intros H. destruct (Nat.lt_ge_cases i r1); [rewrite cb_sig2_lo; lia|].
    apply cb_sig2_mid; assumption.
  Qed.

  (** the row permutation of the result: first P1, then P2 on the rows below r1 *)
  Lemma cb_perm i : pi (nthf P) (seq 0 (r1 + r2)) i = ph1 (sig2 i).
  Proof.
    rewrite seq_app, pi_app. cbn [Nat.add].
    rewrite (pi_ext (nthf P) (nthf P1) (seq 0 r1)) by (intros t Ht; apply in_seq in Ht; apply HP_lo; lia).
    fold ph1. f_equal.
    rewrite (pi_ext (nthf P) (fun s => r1 + nthf P2 (s - r1)) (seq r1 r2))
      by (intros t Ht; apply in_seq in Ht; apply HP_hi; lia).
    unfold sig2. destruct (Nat.ltb_spec i r1) as [H|H].
    - apply pi_fix. intros t Ht. apply in_seq in Ht. lia.
    - assert (E : pi (fun s => r1 + nthf P2 (s - r1)) (seq r1 r2) i = r1 + ph2 (i - r1)).
      { pose proof (pi_shift_seq (nthf P2) r1 0 r2 (i - r1)) as E. rewrite Nat.add_0_r in E.
        replace (r1 + (i - r1)) with i in E by lia. exact E. }
      rewrite E.
      destruct (Nat.ltb_spec i m0); [reflexivity|].
      unfold ph2. rewrite (pi_gt_fix _ _ (m0 - r1)); [lia| |lia].
      intros t Ht. apply in_seq in Ht.
      pose proof (inv_p _ _ _ _ _ _ Inv2 t ltac:(lia)) as Hp. rewrite HA11_nr in Hp. lia.
  Qed.

  Lemma cb_q_lo k : k < r1 -> nthf Q k = q1 k.
  Proof. intros H. now apply HQ_lo. Qed.
  Lemma cb_q_hi k : r1 <= k -> k < r1 + r2 -> nthf Q k = n1 + q2 (k - r1).
  Proof. intros H1 H2. now apply HQ_hi. Qed.

  Lemma cb_sup i j : m <= i \/ n <= j -> comb_g i j = false.
  Proof.
    intros H. unfold comb_g.
    destruct (Nat.ltb_spec i r1) as [Hi|Hi].
    - destruct H as [H|H]; [lia|]. destruct (Nat.ltb_spec j n1); [lia|]. apply X_sup. right. lia.
    - destruct (Nat.ltb_spec i m0) as [Hi'|Hi']; [|reflexivity].
      destruct H as [H|H]; [lia|]. destruct (Nat.ltb_spec j n1); [lia|].
      apply (inv_sup _ _ _ _ _ _ Inv2). right. rewrite HA11_nc. lia.
  Qed.

  (** the multipliers and the echelon rows of the combination *)
  Lemma cb_L_lo i k : i < m0 -> k < r1 -> Lg comb_g (nthf Q) i k = Lg g1 q1 (sig2 i) k.
  Proof.
    intros Hi Hk. unfold Lg. rewrite cb_q_lo by assumption. pose proof (cb_q1 k Hk) as Hq.
    destruct (Nat.lt_ge_cases i r1) as [H|H].
    - rewrite cb_sig2_lo by assumption. unfold comb_g.
      destruct (Nat.ltb_spec i r1); [|lia]. destruct (Nat.ltb_spec (q1 k) n1); [reflexivity|lia].
    - pose proof (cb_sig2_mid i H Hi) as Hs.
      destruct (Nat.eqb_spec i k); [lia|]. destruct (Nat.eqb_spec (sig2 i) k); [lia|].
      destruct (Nat.ltb_spec k i); [|lia]. destruct (Nat.ltb_spec k (sig2 i)); [|lia]. cbn [orb andb].
      unfold comb_g. destruct (Nat.ltb_spec i r1); [lia|]. destruct (Nat.ltb_spec i m0); [|lia].
      destruct (Nat.ltb_spec (q1 k) n1); [reflexivity|lia].
  Qed.

  Lemma cb_L_hi i k : i < m0 -> k < r2 ->
    Lg comb_g (nthf Q) i (r1 + k) = (r1 <=? i) && Lg g2 q2 (i - r1) k.
  Proof.
    intros Hi Hk. unfold Lg. rewrite cb_q_hi by lia. replace (r1 + k - r1) with k by lia.
    pose proof (cb_q2 k Hk) as Hq.
    destruct (Nat.leb_spec r1 i) as [H|H]; cbn [andb].
    - destruct (Nat.eqb_spec i (r1 + k)) as [E|E].
      { destruct (Nat.eqb_spec (i - r1) k); [reflexivity|lia]. }
      destruct (Nat.eqb_spec (i - r1) k); [lia|]. cbn [orb].
      destruct (Nat.ltb_spec (r1 + k) i) as [L|L].
      2:{ destruct (Nat.ltb_spec k (i - r1)); [lia|reflexivity]. }
      destruct (Nat.ltb_spec k (i - r1)); [|lia].
      cbn [andb]. unfold comb_g. destruct (Nat.ltb_spec i r1); [lia|]. destruct (Nat.ltb_spec i m0); [|lia].
      destruct (Nat.ltb_spec (n1 + q2 k) n1); [lia|]. now replace (n1 + q2 k - n1) with (q2 k) by lia.
    - destruct (Nat.eqb_spec i (r1 + k)); [lia|]. destruct (Nat.ltb_spec (r1 + k) i); [lia|]. reflexivity.
  Qed.

  Lemma cb_E_lo k j : k < r1 -> Eg comb_g (nthf Q) k j = if j <? n1 then Eg g1 q1 k j else X k (j - n1).
  Proof.
    intros Hk. unfold Eg. rewrite cb_q_lo by assumption. pose proof (cb_q1 k Hk) as Hq.
    unfold comb_g. destruct (Nat.ltb_spec k r1); [|lia].
    destruct (Nat.ltb_spec j n1); [reflexivity|]. destruct (Nat.leb_spec (q1 k) j); [reflexivity|lia].
  Qed.

  Lemma cb_E_hi k j : k < r2 ->
    Eg comb_g (nthf Q) (r1 + k) j = if j <? n1 then false else Eg g2 q2 k (j - n1).
  Proof.
    intros Hk. unfold Eg. rewrite cb_q_hi by lia. replace (r1 + k - r1) with k by lia.
    pose proof (cb_q2 k Hk) as Hq.
    destruct (Nat.ltb_spec j n1) as [H|H].
    - destruct (Nat.leb_spec (n1 + q2 k) j); [lia|reflexivity].
    - unfold comb_g. destruct (Nat.ltb_spec (r1 + k) r1); [lia|]. destruct (Nat.ltb_spec (r1 + k) m0); [|lia].
      destruct (Nat.ltb_spec j n1); [lia|]. replace (r1 + k - r1) with k by lia.
      destruct (Nat.leb_spec (n1 + q2 k) j), (Nat.leb_spec (q2 k) (j - n1)); try lia; reflexivity.
  Qed.

  Theorem combine_inv : Inv A comb_g (nthf P) (nthf Q) (r1 + r2) n.
  Proof.
    constructor.
    - fold m. lia.
    - apply le_n.
    - (* P *)
      intros k Hk. unfold nthf. destruct (Nat.lt_ge_cases k r1) as [H|H].
      + rewrite HP_lo by assumption. pose proof (inv_p _ _ _ _ _ _ Inv1 k H) as Hp.
        rewrite HA0_nr in Hp. unfold nthf in Hp. fold m. lia.
      + rewrite HP_hi by lia. pose proof (inv_p _ _ _ _ _ _ Inv2 (k - r1) ltac:(lia)) as Hp.
        rewrite HA11_nr in Hp. unfold nthf in Hp. fold m. lia.
    - (* Q *)
      intros k Hk. destruct (Nat.lt_ge_cases k r1) as [H|H].
      + rewrite cb_q_lo by assumption. pose proof (cb_q1 k H). fold n. lia.
      + rewrite cb_q_hi by lia. pose proof (cb_q2 (k - r1) ltac:(lia)). fold n. unfold n2 in *. lia.
    - (* increasing *)
      intros k k' Hkk Hk'.
      destruct (Nat.lt_ge_cases k' r1) as [H'|H'].
      + rewrite !cb_q_lo by lia. apply (inv_qinc _ _ _ _ _ _ Inv1); lia.
      + rewrite (cb_q_hi k') by lia. destruct (Nat.lt_ge_cases k r1) as [H|H].
        * rewrite cb_q_lo by assumption. pose proof (cb_q1 k H). lia.
        * rewrite cb_q_hi by lia.
          pose proof (inv_qinc _ _ _ _ _ _ Inv2 (k - r1) (k' - r1) ltac:(lia) ltac:(lia)). fold q2 in H0. lia.
    - exact cb_sup.
    - (* pivots *)
      intros k Hk. unfold comb_g. destruct (Nat.ltb_spec k r1) as [H|H].
      + rewrite cb_q_lo by assumption. pose proof (cb_q1 k H).
        destruct (Nat.ltb_spec (q1 k) n1); [|lia]. apply (inv_piv _ _ _ _ _ _ Inv1 k H).
      + destruct (Nat.ltb_spec k m0); [|lia]. rewrite cb_q_hi by lia.
        destruct (Nat.ltb_spec (n1 + q2 (k - r1)) n1); [lia|].
        replace (n1 + q2 (k - r1) - n1) with (q2 (k - r1)) by lia.
        apply (inv_piv _ _ _ _ _ _ Inv2 (k - r1)). lia.
    - (* echelon zeros *)
      intros i j Hj Hnp.
      assert (Np1 : forall k, k < r1 -> j <> q1 k).
      { intros k Hk. rewrite <- cb_q_lo by assumption. apply Hnp. lia. }
      assert (Np2 : forall k, k < r2 -> n1 <= j -> j - n1 <> q2 k).
      { intros k Hk Hn E. apply (Hnp (r1 + k) ltac:(lia)). rewrite cb_q_hi by lia.
        replace (r1 + k - r1) with k by lia. lia. }
      unfold comb_g. destruct (Nat.ltb_spec i r1) as [Hi|Hi].
      + destruct (Nat.ltb_spec i (r1 + r2)); [|lia]. rewrite cb_q_lo in Hj by assumption.
        pose proof (cb_q1 i Hi). destruct (Nat.ltb_spec j n1); [|lia].
        apply (inv_zero _ _ _ _ _ _ Inv1); [|exact Np1]. destruct (Nat.ltb_spec i r1); [assumption|lia].
      + destruct (Nat.ltb_spec i m0) as [Hi'|Hi']; [|reflexivity].
        pose proof (cb_sig2_mid i Hi Hi') as Hs.
        destruct (Nat.ltb_spec j n1) as [Hjn|Hjn].
        * apply (inv_zero _ _ _ _ _ _ Inv1); [|exact Np1]. destruct (Nat.ltb_spec (sig2 i) r1); [lia|assumption].
        * apply (inv_zero _ _ _ _ _ _ Inv2); [|intros k Hk; now apply Np2].
          destruct (Nat.ltb_spec i (r1 + r2)) as [Hir|Hir].
          -- rewrite cb_q_hi in Hj by lia. destruct (Nat.ltb_spec (i - r1) r2); [|lia]. fold q2. lia.
          -- destruct (Nat.ltb_spec (i - r1) r2); [lia|]. fold n in Hj. unfold n2. lia.
    - (* the factorisation *)
      intros i j Hi. fold m in Hi. rewrite cb_perm.
      replace (Rg comb_g (r1 + r2) n i j) with false.
      2:{ unfold Rg. destruct (Nat.leb_spec n j); [|now rewrite andb_false_r].
          rewrite cb_sup by now right. now rewrite andb_false_r. }
      rewrite xorb_false_r, xsum_app.
      destruct (Nat.lt_ge_cases i m0) as [Hi0|Hi0].
      2:{ (* a zero row of A *)
          assert (Es : sig2 i = i) by (unfold sig2; destruct (Nat.ltb_spec i r1), (Nat.ltb_spec i m0); lia || reflexivity).
          rewrite Es. unfold ph1. rewrite (pi_gt_fix _ _ m0); [| |assumption].
          2:{ intros t Ht. apply in_seq in Ht. pose proof (inv_p _ _ _ _ _ _ Inv1 t ltac:(lia)) as Hp.
              rewrite HA0_nr in Hp. lia. }
          rewrite HA_zero by assumption. symmetry.
          assert (Z : forall k, k < r1 + r2 -> Lg comb_g (nthf Q) i k = false).
          { intros k Hk. unfold Lg. destruct (Nat.eqb_spec i k); [lia|]. cbn [orb].
            unfold comb_g. destruct (Nat.ltb_spec i r1); [lia|]. destruct (Nat.ltb_spec i m0); [lia|].
            apply andb_false_r. }
          rewrite !xsum_zero; [reflexivity| |]; intros k Hk; rewrite Z by lia; reflexivity. }
      pose proof (cb_sig2_lt i Hi0) as Hs. pose proof (cb_ph1_lt _ Hs) as Hp.
      destruct (Nat.lt_ge_cases j n1) as [Hj|Hj].
      + (* a column of the left block *)
        rewrite (xsum_zero r2).
        2:{ intros k Hk. rewrite cb_E_hi by assumption. destruct (Nat.ltb_spec j n1); [|lia]. apply andb_false_r. }
        rewrite xorb_false_r.
        pose proof (inv_fact _ _ _ _ _ _ Inv1 (sig2 i) j ltac:(now rewrite HA0_nr)) as F. fold ph1 q1 in F.
        rewrite HA0_get in F. destruct (Nat.ltb_spec (ph1 (sig2 i)) m0); [|lia].
        destruct (Nat.ltb_spec j n1); [|lia]. cbn [andb] in F. rewrite F.
        replace (Rg g1 r1 n1 (sig2 i) j) with false
          by (unfold Rg; destruct (Nat.leb_spec n1 j); [lia|now rewrite andb_false_r]).
        rewrite xorb_false_r. apply xsum_ext. intros k Hk.
        rewrite cb_L_lo, cb_E_lo by assumption. destruct (Nat.ltb_spec j n1); [reflexivity|lia].
      + (* a column of the right block *)
        destruct (Nat.lt_ge_cases j n) as [Hjn|Hjn].
        2:{ rewrite HA_sup by assumption. symmetry.
            rewrite !xsum_zero; [reflexivity| |]; intros k Hk; unfold Eg; rewrite cb_sup by (right; lia);
              now rewrite !andb_false_r. }
        replace j with (n1 + (j - n1)) at 1 by lia.
        rewrite (Schur (sig2 i) (j - n1) Hs ltac:(unfold n2; lia)).
        f_equal.
        * apply xsum_ext. intros k Hk. rewrite cb_L_lo, cb_E_lo by assumption.
          destruct (Nat.ltb_spec j n1); [lia|reflexivity].
        * destruct (Nat.lt_ge_cases i r1) as [Hir|Hir].
          -- rewrite cb_sig2_lo by assumption. destruct (Nat.leb_spec r1 i); [lia|]. cbn [andb].
             symmetry. apply xsum_zero. intros k Hk. rewrite cb_L_hi by assumption.
             destruct (Nat.leb_spec r1 i); [lia|reflexivity].
          -- pose proof (cb_sig2_mid i Hir Hi0) as Hs'.
             destruct (Nat.leb_spec r1 (sig2 i)); [|lia]. cbn [andb].
             assert (Es : sig2 i - r1 = ph2 (i - r1)).
             { unfold sig2. destruct (Nat.ltb_spec i r1); [lia|]. destruct (Nat.ltb_spec i m0); lia. }
             rewrite Es, <- HA11_get.
             pose proof (inv_fact _ _ _ _ _ _ Inv2 (i - r1) (j - n1) ltac:(rewrite HA11_nr; lia)) as F.
             fold ph2 q2 in F. rewrite F.
             replace (Rg g2 r2 n2 (i - r1) (j - n1)) with false
               by (unfold Rg; destruct (Nat.leb_spec n2 (j - n1)); [unfold n2 in *; lia|now rewrite andb_false_r]).
             rewrite xorb_false_r. apply xsum_ext. intros k Hk.
             rewrite cb_L_hi, cb_E_hi by assumption.
             destruct (Nat.leb_spec r1 i); [|lia]. destruct (Nat.ltb_spec j n1); [lia|]. reflexivity.
  Qed.
End Combine.

(** * the storage: the compressed result is the PLE format of the combined g *)
Section Format.
  Variables (A A0 A11 T0 T2 Af T : mat) (m0 n1 r1 r2 : nat) (P1 Q1 P2 Q2 P Q : list nat).
  Variables (g1 g2 g X : nat -> nat -> bool) (s2 : nat -> nat).
  Let m := nr A.
  Let n := nc A.
  Let n2 := n - n1.
  Let r := r1 + r2.

  Hypothesis Hm0 : m0 <= m.
  Hypothesis Hn1 : n1 <= n.
  Hypothesis HA0_nr : nr A0 = m0.
  Hypothesis HA0_nc : nc A0 = n1.
  Hypothesis HA11_nr : nr A11 = m0 - r1.
  Hypothesis HA11_nc : nc A11 = n2.
  Hypothesis Enc1 : ple_enc A0 g1 r1 T0 P1 Q1.
  Hypothesis Enc2 : ple_enc A11 g2 r2 T2 P2 Q2.
  Hypothesis InvC : Inv A g (nthf P) (nthf Q) r n.
  Hypothesis LQ : lapack Q n.
  Hypothesis HlQ : length Q = n.
  Hypothesis HQ_lo : forall k, k < r1 -> nth k Q 0 = nth k Q1 0.
  Hypothesis HQ_hi : forall k, r1 <= k -> k < r -> nth k Q 0 = n1 + nth (k - r1) Q2 0.

  Hypothesis Hs2 : forall i, r1 <= i -> i < m0 -> r1 <= s2 i < m0.
  Hypothesis Hg_top : forall i j, i < r1 -> g i j = if j <? n1 then g1 i j else X i (j - n1).
  Hypothesis Hg_mid : forall i j, r1 <= i -> i < m0 ->
    g i j = if j <? n1 then g1 (s2 i) j else g2 (i - r1) (j - n1).
  Hypothesis Hg_bot : forall i j, m0 <= i -> g i j = false.

  Hypothesis HAf : forall i j, get Af i j =
    if i <? r1 then (if j <? n1 then get T0 i j else X i (j - n1))
    else if i <? m0 then
      (if j <? r1 then get T0 (s2 i) j else if j <? n1 then get T0 i j else get T2 (i - r1) (j - n1))
    else false.

  (* the compressed matrix, in both regimes r1 = n1 (untouched) and r1 < n1 *)
  Hypothesis HT_lo : forall i j, i < r ->
    get T i j = get Af i (pi (cq r1 n1) (seq r1 (if r1 <=? i then S (i - r1) else 0)) j).
  Hypothesis HT_hi : forall i j, r <= i ->
    get T i j = if j <? r1 then get Af i j else if j <? r then get Af i (n1 + j - r1) else false.

  Let q1 := nthf Q1.
  Let q2 := nthf Q2.
  Let Inv1 := enc_inv _ _ _ _ _ _ Enc1.
  Let Inv2 := enc_inv _ _ _ _ _ _ Enc2.

  Let Hr1 : r1 <= m0. Proof. rewrite <- HA0_nr. apply (inv_t _ _ _ _ _ _ Inv1). Qed.
  Let Hr2 : r2 <= m0 - r1. Proof. rewrite <- HA11_nr. apply (inv_t _ _ _ _ _ _ Inv2). Qed.
  Let Hr1n : r1 <= n1. Proof. rewrite <- HA0_nc. apply (fin_r_le_n _ _ _ _ _ _ Inv1). Qed.
  Let Hr2n : r2 <= n2. Proof. rewrite <- HA11_nc. apply (fin_r_le_n _ _ _ _ _ _ Inv2). Qed.

  Lemma fm_q1 k : k < r1 -> k <= q1 k < n1.
  Proof. intros Hk. pose proof (inv_q _ _ _ _ _ _ Inv1 k Hk) as H. now rewrite HA0_nc in H. Qed.
  Lemma fm_q2 k : k < r2 -> k <= q2 k < n2.
  Proof. intros Hk. pose proof (inv_q _ _ _ _ _ _ Inv2 k Hk) as H. now rewrite HA11_nc in H. Qed.
  Lemma fm_q2_inc k k' : k < k' -> k' < r2 -> q2 k < q2 k'.
  Proof. apply (inv_qinc _ _ _ _ _ _ Inv2). Qed.

  (** rows of T0 below r1: multipliers in the first r1 columns, zero beyond *)
  Lemma fm_T0_below i j : r1 <= i -> i < m0 ->
    get T0 i j = if j <? r1 then g1 i (q1 j) else false.
  Proof.
    intros H1 H2. rewrite (enc_fmt _ _ _ _ _ _ Enc1) by now right.
    apply (row_below_read A0 g1 P1 Q1 r1 i (Nat.min (S i) (nc A0)) j Inv1
             (enc_lapQ _ _ _ _ _ _ Enc1) (enc_lenQ _ _ _ _ _ _ Enc1) H1); rewrite HA0_nc; lia.
  Qed.
  Lemma fm_T2_below i j : r2 <= i ->
    get T2 i j = if j <? r2 then g2 i (q2 j) else false.
  Proof.
    intros H1. destruct (Nat.lt_ge_cases i (m0 - r1)) as [H2|H2].
    - rewrite (enc_fmt _ _ _ _ _ _ Enc2) by now right.
      apply (row_below_read A11 g2 P2 Q2 r2 i (Nat.min (S i) (nc A11)) j Inv2
               (enc_lapQ _ _ _ _ _ _ Enc2) (enc_lenQ _ _ _ _ _ _ Enc2) H1); rewrite HA11_nc; lia.
    - rewrite get_out_row; [|apply (enc_wf _ _ _ _ _ _ Enc2)|rewrite (enc_nr _ _ _ _ _ _ Enc2); lia].
      rewrite (inv_sup _ _ _ _ _ _ Inv2) by (left; lia). now destruct (j <? r2).
  Qed.

  (** row i >= r1 of g vanishes at the non-pivot columns of the left block *)
  Lemma fm_g_left_nonpiv i c : r1 <= i -> c < n1 -> (forall k, k < r1 -> c <> q1 k) -> g i c = false.
  Proof.
    intros Hi Hc Hnp. destruct (Nat.lt_ge_cases i m0) as [H|H]; [|now apply Hg_bot].
    rewrite Hg_mid by assumption. destruct (Nat.ltb_spec c n1); [|lia].
    apply (inv_row_below A0 g1 (nthf P1) (nthf Q1) r1 (s2 i) c Inv1); [apply Hs2; assumption|exact Hnp].
  Qed.

  Let pi1r := pi (nthf Q1) (seq 0 r1).

  Lemma fm_pi1r_lt c : c < n1 -> pi1r c < n1.
  Proof. apply pi_lt. intros t Ht. apply in_seq in Ht. pose proof (fm_q1 t ltac:(lia)). unfold q1 in *. lia. Qed.
  Lemma fm_pi1r_hi c : n1 <= c -> pi1r c = c.
  Proof. apply pi_gt_fix. intros t Ht. apply in_seq in Ht. pose proof (fm_q1 t ltac:(lia)). unfold q1 in *. lia. Qed.
  Lemma fm_pi1r_piv k : k < r1 -> pi1r k = q1 k.
  Proof. apply (fin_piq_piv A0 g1 _ _ r1 _ Inv1). Qed.
  Lemma fm_pi1r_nonpiv c : r1 <= c -> forall k, k < r1 -> pi1r c <> q1 k.
  Proof. apply (fin_piq_nonpiv A0 g1 _ _ r1 _ Inv1). Qed.

  Lemma fm_swaps_Q k j : k <= r -> r1 <= k ->
    pi (nthf Q) (seq 0 k) j = pi1r (pi (fun s => n1 + q2 (s - r1)) (seq r1 (k - r1)) j).
  Proof.
    intros Hk Hk1. replace k with (r1 + (k - r1)) at 1 by lia. rewrite seq_app, pi_app. cbn [Nat.add].
    rewrite (pi_ext (nthf Q) (nthf Q1) (seq 0 r1)) by (intros t Ht; apply in_seq in Ht; apply HQ_lo; lia).
    fold pi1r. f_equal. apply pi_ext. intros t Ht. apply in_seq in Ht. apply HQ_hi; lia.
  Qed.

  (** ** rows r1 <= i < r: the heart of the matter *)
  Section Mid.
    Variable i : nat.
    Hypothesis Hi1 : r1 <= i.
    Hypothesis Hi2 : i < r.
    Let i' := i - r1.
    Let Hi' : i' < r2. Proof. unfold i', r in *. lia. Qed.
    Let Him : i < m0. Proof. unfold r in *. lia. Qed.

    Let mu := pi (cq r1 n1) (seq r1 (S i')).
    Let nu := pi (fun s => n1 + q2 (s - n1)) (seq n1 (S i')).
    Let lam := pi (fun s => n1 + q2 (s - r1)) (seq r1 (S i')).
    Let u := fun c => g i (pi1r c).
    Let hi := S (n1 + q2 i').

    Lemma md_mu_piv t : t <= i' -> mu (r1 + t) = n1 + t.
    Proof.
      intros Ht. unfold mu. rewrite pi_seq_pivot_from; try lia.
      - unfold cq. lia.
      - intros s H1 H2. unfold cq. lia.
      - intros s s' H1 H2 H3. unfold cq. lia.
    Qed.
    Lemma md_nu_piv t : t <= i' -> nu (n1 + t) = n1 + q2 t.
    Proof.
      intros Ht. unfold nu. rewrite pi_seq_pivot_from; try lia.
      - now replace (n1 + t - n1) with t by lia.
      - intros s H1 H2. pose proof (fm_q2 (s - n1) ltac:(lia)). lia.
      - intros s s' H1 H2 H3. pose proof (fm_q2_inc (s - n1) (s' - n1) ltac:(lia) ltac:(lia)). lia.
    Qed.
    Lemma md_lam_piv t : t <= i' -> lam (r1 + t) = n1 + q2 t.
    Proof.
      intros Ht. unfold lam. rewrite pi_seq_pivot_from; try lia.
      - now replace (r1 + t - r1) with t by lia.
      - intros s H1 H2. pose proof (fm_q2 (s - r1) ltac:(lia)). lia.
      - intros s s' H1 H2 H3. pose proof (fm_q2_inc (s - r1) (s' - r1) ltac:(lia) ltac:(lia)). lia.
    Qed.

    Lemma md_q2_le t : t <= i' -> q2 t <= q2 i'.
    Proof.
      intros Ht. destruct (Nat.eq_dec t i') as [->|Hne]; [lia|].
      pose proof (fm_q2_inc t i' ltac:(lia) Hi'). lia.
    Qed.

    Lemma md_mu_touch t : In t (seq r1 (S i')) -> (r1 <= t /\ r1 <= cq r1 n1 t) /\ (t < hi /\ cq r1 n1 t < hi).
    Proof.
      intros Ht. apply in_seq in Ht. unfold cq, hi. pose proof (fm_q2 i' Hi'). lia.
    Qed.
    Lemma md_nu_touch t : In t (seq n1 (S i')) ->
      (r1 <= t /\ r1 <= n1 + q2 (t - n1)) /\ (t < hi /\ n1 + q2 (t - n1) < hi).
    Proof.
      intros Ht. apply in_seq in Ht. unfold hi. pose proof (fm_q2 i' Hi').
      pose proof (md_q2_le (t - n1) ltac:(lia)). lia.
    Qed.
    Lemma md_lam_touch t : In t (seq r1 (S i')) ->
      (r1 <= t /\ r1 <= n1 + q2 (t - r1)) /\ (t < hi /\ n1 + q2 (t - r1) < hi).
    Proof.
      intros Ht. apply in_seq in Ht. unfold hi. pose proof (fm_q2 i' Hi').
      pose proof (md_q2_le (t - r1) ltac:(lia)). lia.
    Qed.

    (** the row of Af, as the vector u read through the local swaps of block 2 *)
    Lemma md_Af j' : j' <> n1 + i' -> get Af i j' = u (nu j').
    Proof.
      intros Hne. rewrite HAf. destruct (Nat.ltb_spec i r1); [lia|]. destruct (Nat.ltb_spec i m0); [|lia].
      unfold u. destruct (Nat.ltb_spec j' r1) as [H1|H1].
      - (* a multiplier of the left block *)
        assert (En : nu j' = j') by (apply (pi_lt_fix _ _ n1); [intros t Ht; apply in_seq in Ht; lia|lia]).
        rewrite En, fm_pi1r_piv by assumption. pose proof (fm_q1 j' H1).
        rewrite fm_T0_below by (apply Hs2; assumption). destruct (Nat.ltb_spec j' r1); [|lia].
        rewrite Hg_mid by assumption. destruct (Nat.ltb_spec (q1 j') n1); [reflexivity|lia].
      - destruct (Nat.ltb_spec j' n1) as [H2|H2].
        + (* the zero region of the left block *)
          assert (En : nu j' = j') by (apply (pi_lt_fix _ _ n1); [intros t Ht; apply in_seq in Ht; lia|lia]).
          rewrite En, fm_T0_below by assumption. destruct (Nat.ltb_spec j' r1); [lia|].
          symmetry. apply fm_g_left_nonpiv; [assumption|now apply fm_pi1r_lt|now apply fm_pi1r_nonpiv].
        + (* the right block *)
          set (j'' := j' - n1).
          assert (En : nu j' = n1 + pi (nthf Q2) (seq 0 (S i')) j'').
          { pose proof (pi_shift_seq (nthf Q2) n1 0 (S i') j'') as E. rewrite Nat.add_0_r in E.
            unfold nu. replace j' with (n1 + j'') by (unfold j''; lia). exact E. }
          rewrite En, fm_pi1r_hi by lia. rewrite Hg_mid by assumption.
          destruct (Nat.ltb_spec (n1 + pi (nthf Q2) (seq 0 (S i')) j'') n1); [lia|].
          replace (n1 + pi (nthf Q2) (seq 0 (S i')) j'' - n1) with (pi (nthf Q2) (seq 0 (S i')) j'') by lia.
          rewrite (enc_fmt _ _ _ _ _ _ Enc2) by (left; unfold j''; fold i'; lia).
          fold i'. rewrite HA11_nc. now rewrite Nat.min_l by lia.
    Qed.

    Lemma md_u_zero y : r1 <= y < hi -> (forall t, t <= i' -> y <> n1 + q2 t) -> u y = false.
    Proof.
      intros Hy Hnp. unfold u. destruct (Nat.lt_ge_cases y n1) as [H|H].
      - apply fm_g_left_nonpiv; [assumption|now apply fm_pi1r_lt|apply fm_pi1r_nonpiv; lia].
      - rewrite fm_pi1r_hi by assumption. rewrite Hg_mid by assumption.
        destruct (Nat.ltb_spec y n1); [lia|].
        apply (inv_zero _ _ _ _ _ _ Inv2).
        + fold i'. destruct (Nat.ltb_spec i' r2); [|lia]. fold q2.
          specialize (Hnp i' (le_n _)). unfold hi in Hy. lia.
        + intros k Hk E. fold q2 in E. destruct (Nat.le_gt_cases k i') as [Hle|Hgt].
          * apply (Hnp k Hle). lia.
          * pose proof (fm_q2_inc i' k Hgt Hk). unfold hi in Hy. lia.
    Qed.

    Lemma md_row j : j <> i -> get T i j = g i (pi (nthf Q) (seq 0 (S i)) j).
    Proof.
      intros Hne. rewrite HT_lo by assumption. destruct (Nat.leb_spec r1 i); [|lia]. fold i' mu.
      rewrite md_Af.
      2:{ intros E. apply Hne. rewrite <- (md_mu_piv i' (le_n _)) in E. unfold mu in E. apply pi_inj in E.
          unfold i' in E. lia. }
      rewrite (fm_swaps_Q (S i) j) by (unfold r in *; lia).
      replace (S i - r1) with (S i') by (unfold i'; lia). fold lam. fold (u (lam j)).
      apply (perm_zero_agree u (fun x => nu (mu x)) lam (fun x => exists t, t <= i' /\ x = r1 + t) r1 hi).
      - intros x y E. unfold nu, mu in E. now apply pi_inj, pi_inj in E.
      - intros x y E. unfold lam in E. now apply pi_inj in E.
      - intros x Hx. split.
        + assert (E : mu x = x).
          { destruct Hx; [apply (pi_lt_fix _ _ r1)|apply (pi_gt_fix _ _ hi)]; auto; intros t Ht; apply md_mu_touch, Ht. }
          rewrite E.
          destruct Hx; [apply (pi_lt_fix _ _ r1)|apply (pi_gt_fix _ _ hi)]; auto; intros t Ht; apply md_nu_touch, Ht.
        + destruct Hx; [apply (pi_lt_fix _ _ r1)|apply (pi_gt_fix _ _ hi)]; auto; intros t Ht; apply md_lam_touch, Ht.
      - intros x [Hx1 Hx2].
        assert (Hm : r1 <= mu x < hi).
        { split; [apply pi_ge|apply pi_lt]; auto; intros t Ht; apply md_mu_touch, Ht. }
        split; (split; [apply pi_ge|apply pi_lt]; try lia);
          intros t Ht; first [apply md_nu_touch, Ht|apply md_lam_touch, Ht].
      - intros x (t & Ht & ->). now rewrite md_mu_piv, md_nu_piv, md_lam_piv.
      - intros y Hy Hnp. apply md_u_zero; [assumption|].
        intros t Ht E. apply (Hnp (r1 + t)); [now exists t|].
        now rewrite md_mu_piv, md_nu_piv.
    Qed.
  End Mid.

  Theorem combine_format : ple_format g Q r n T.
  Proof.
    intros i j Ho.
    destruct (Nat.lt_ge_cases i r1) as [Hi1|Hi1].
    - (* a row of the first block *)
      assert (Hir : i < r) by (unfold r; lia). assert (Hne : j <> i) by (destruct Ho; lia).
      rewrite HT_lo by assumption. destruct (Nat.leb_spec r1 i); [lia|]. cbn [seq pi].
      rewrite HAf, Hg_top by assumption. destruct (Nat.ltb_spec i r1); [|lia].
      rewrite Nat.min_l by (unfold n in *; lia).
      rewrite (pi_ext (nthf Q) (nthf Q1) (seq 0 (S i))) by (intros t Ht; apply in_seq in Ht; apply HQ_lo; lia).
      assert (Tch : forall t, In t (seq 0 (S i)) -> t < n1 /\ nthf Q1 t < n1).
      { intros t Ht. apply in_seq in Ht. pose proof (fm_q1 t ltac:(lia)). unfold q1 in *. lia. }
      destruct (Nat.ltb_spec j n1) as [Hj|Hj].
      + pose proof (pi_lt _ _ n1 j Tch Hj).
        destruct (Nat.ltb_spec (pi (nthf Q1) (seq 0 (S i)) j) n1); [|lia].
        rewrite (enc_fmt _ _ _ _ _ _ Enc1) by now left. rewrite HA0_nc. now rewrite Nat.min_l by lia.
      + rewrite (pi_gt_fix _ _ n1 j Tch Hj). destruct (Nat.ltb_spec j n1); [lia|reflexivity].
    - destruct (Nat.lt_ge_cases i r) as [Hi2|Hi2].
      + assert (Hne : j <> i) by (destruct Ho; lia).
        rewrite Nat.min_l by (pose proof (fin_r_le_n _ _ _ _ _ _ InvC); unfold n in *; lia).
        now apply md_row.
      + (* rows below the pivots *)
        pose proof (fin_r_le_n _ _ _ _ _ _ InvC) as Hrn. fold n in Hrn.
        rewrite HT_hi by assumption.
        rewrite (row_below_read A g P Q r i _ j InvC LQ HlQ Hi2) by (unfold n in *; lia).
        destruct (Nat.lt_ge_cases i m0) as [Him|Him].
        2:{ rewrite !HAf. destruct (Nat.ltb_spec i r1); [lia|]. destruct (Nat.ltb_spec i m0); [lia|].
            rewrite Hg_bot by assumption. now destruct (j <? r1), (j <? r). }
        destruct (Nat.ltb_spec j r1) as [Hj1|Hj1].
        * destruct (Nat.ltb_spec j r); [|unfold r in *; lia].
          rewrite HAf. destruct (Nat.ltb_spec i r1); [lia|]. destruct (Nat.ltb_spec i m0); [|lia].
          destruct (Nat.ltb_spec j r1); [|lia].
          rewrite fm_T0_below by (apply Hs2; assumption). destruct (Nat.ltb_spec j r1); [|lia].
          change (nthf Q j) with (nth j Q 0). rewrite HQ_lo by assumption. change (nth j Q1 0) with (q1 j).
          pose proof (fm_q1 j Hj1).
          rewrite Hg_mid by assumption. destruct (Nat.ltb_spec (q1 j) n1); [reflexivity|lia].
        * destruct (Nat.ltb_spec j r) as [Hj2|Hj2]; [|reflexivity].
          rewrite HAf. destruct (Nat.ltb_spec i r1); [lia|]. destruct (Nat.ltb_spec i m0); [|lia].
          destruct (Nat.ltb_spec (n1 + j - r1) r1); [lia|]. destruct (Nat.ltb_spec (n1 + j - r1) n1); [lia|].
          replace (n1 + j - r1 - n1) with (j - r1) by lia.
          rewrite fm_T2_below by (unfold r in *; lia). destruct (Nat.ltb_spec (j - r1) r2); [|unfold r in *; lia].
          change (nthf Q j) with (nth j Q 0). rewrite HQ_hi by assumption.
          change (nth (j - r1) Q2 0) with (q2 (j - r1)).
          rewrite Hg_mid by assumption. destruct (Nat.ltb_spec (n1 + q2 (j - r1)) n1); [lia|].
          now replace (n1 + q2 (j - r1) - n1) with (q2 (j - r1)) by lia.
  Qed.
End Format.
