(* Alg/SolveProofs3.v — C07: mzd_kernel_left_pluq (model [kernel_left], Alg/Solve.v) returns NULL iff
   rank A = ncols, and otherwise an n x (n - r) matrix K with A K = 0 and independent columns.

   K = Q^T [ U1^-1 U2 ; I ]  where  P A Q^T = L [U1 | U2]:
     A K = P^T L (U1 U1^-1 U2 + U2) = 0;   ([0 | I] Q) K = I, so K has a left inverse. *)
From Coq Require Import List NArith ZArith Arith Lia Bool Sorted ZifyBool ZifyNat ZifyN.
From M4 Require Import Base.Bits Lin.Mat Lin.MatAlg Lin.Ops Alg.Gauss Alg.GaussProofs Alg.PLE Alg.PLELemmas
  Alg.PLESpec Alg.PLEProofs Alg.PLEProofs3 Lin.Spec Lin.Span Lin.Echelon Lin.Perm Lin.Tri Lin.Observers
  Alg.TRSM Alg.TRSMProofs Lin.OpsProofs Alg.Solve Alg.SolveProofs Alg.SolveProofs2.
Import ListNotations.
Local Open Scope nat_scope.
Ltac Zify.zify_post_hook ::= Z.div_mod_to_equations.

(** * the loops of solve.c:175-180 and :184 *)
Definition xor_row_chunks (A R : mat) (r i : nat) (l : list nat) : mat :=
  fold_left (fun R j => let w := Nat.min PLE.radix (nc R - j) in
                        xor_bits R i j w (read_bits A i (r + j) w)) l R.

Lemma xor_row_chunks_spec A R r i k : i < length (rows R) ->
  let R' := xor_row_chunks A R r i (chunks_upto k) in
  length (rows R') = length (rows R) /\ nr R' = nr R /\ nc R' = nc R /\
  (wf R -> k <= (nc R + PLE.radix - 1) / PLE.radix -> wf R') /\
  forall i' j', get R' i' j' =
    xorb (get R i' j') ((i' =? i) && (j' <? PLE.radix * k) && (j' <? nc R) && get A i (r + j')).
Proof.
  intros Hi. induction k as [|k IH]; cbn zeta.
  - change (xor_row_chunks A R r i (chunks_upto 0)) with R.
    split; [reflexivity|]. split; [reflexivity|]. split; [reflexivity|]. split; [auto|].
    intros i' j'. rewrite Nat.mul_0_r. replace (j' <? 0) with false by (symmetry; apply Nat.ltb_ge; lia).
    now rewrite andb_false_r, xorb_false_r.
  - unfold xor_row_chunks in *. rewrite chunks_upto_S, fold_left_app. cbn [fold_left].
    cbn zeta in IH. set (Rk := fold_left _ (chunks_upto k) R) in *.
    destruct IH as (Hl & Hr & Hc & Hw & Hg).
    split; [unfold xor_bits; now rewrite len_set_row|]. split; [exact Hr|]. split; [exact Hc|]. split.
    + intros HR Hk. apply wf_xor_bits; [apply Hw; auto; lia|]. rewrite Hc. unfold PLE.radix in *. lia.
    + intros i' j'. rewrite get_xor_bits by lia. rewrite Hg, Hc, testbit_read_bits.
      unfold PLE.radix. rewrite xorb_assoc. f_equal.
      destruct (Nat.eqb_spec i' i); cbn [andb]; [|reflexivity].
      destruct (Nat.ltb_spec j' (nc R)); [|bsolve].
      destruct (Nat.ltb_spec j' (64 * k)).
      * bsolve; now rewrite xorb_false_r.
      * destruct (Nat.ltb_spec j' (64 * S k)); [|bsolve].
        cbn [andb xorb]. replace (r + 64 * k + (j' - 64 * k)) with (r + j') by lia. bsolve; now destruct (get A i (r + j')).
Qed.

Lemma copy_fold A R r t : wf R -> t <= nr R ->
  let R' := fold_left (fun R0 i => xor_row_chunks A R0 r i (chunks (nc R0))) (seq 0 t) R in
  wf R' /\ nr R' = nr R /\ nc R' = nc R /\
  forall i j, get R' i j = xorb (get R i j) ((i <? t) && (j <? nc R) && get A i (r + j)).
Proof.
  intros HR. induction t as [|t IH]; intros Ht; cbn zeta.
  - cbn [seq fold_left]. split; [assumption|]. split; [reflexivity|]. split; [reflexivity|].
    intros i j. replace (i <? 0) with false by (symmetry; apply Nat.ltb_ge; lia). now rewrite xorb_false_r.
  - rewrite seq_S, fold_left_app. cbn [fold_left Nat.add]. cbn zeta in IH.
    destruct (IH ltac:(lia)) as (Hw & Hr & Hc & Hg). set (Rt := fold_left _ (seq 0 t) R) in *.
    assert (Hlt : t < length (rows Rt)) by (rewrite wf_len by assumption; lia).
    destruct (xor_row_chunks_spec A Rt r t ((nc Rt + PLE.radix - 1) / PLE.radix) Hlt) as (_ & Hr' & Hc' & Hw' & Hg').
    cbn zeta in *. change (chunks_upto ((nc Rt + PLE.radix - 1) / PLE.radix)) with (chunks (nc Rt)) in *.
    split; [apply Hw'; auto|]. split; [congruence|]. split; [congruence|].
    intros i j. rewrite Hg', Hg, Hc, xorb_assoc. f_equal.
    destruct (Nat.ltb_spec j (nc R)) as [Hj|Hj].
    + pose proof (chunks_cover _ _ Hj).
      destruct (Nat.eqb_spec i t) as [->|]; bsolve; try (now destruct (get A t (r + j))); now rewrite ?xorb_false_r.
    + bsolve.
Qed.

Lemma copy_right_block_spec A R r : wf R -> r <= nr R ->
  let R' := copy_right_block A R r in
  wf R' /\ nr R' = nr R /\ nc R' = nc R /\
  forall i j, get R' i j = xorb (get R i j) ((i <? r) && (j <? nc R) && get A i (r + j)).
Proof. intros HR Hr. exact (copy_fold A R r r HR Hr). Qed.

Lemma write_id_fold R r t : wf R -> r + t <= nr R -> t <= nc R ->
  let R' := fold_left (fun R i => write_bit R (r + i) i true) (seq 0 t) R in
  wf R' /\ nr R' = nr R /\ nc R' = nc R /\
  forall i j, get R' i j = if (r <=? i) && (i <? r + t) && (j =? i - r) then true else get R i j.
Proof.
  intros HR. induction t as [|t IH]; intros Ht Hc0; cbn zeta.
  - cbn [seq fold_left]. split; [assumption|]. split; [reflexivity|]. split; [reflexivity|].
    intros i j. bsolve.
  - rewrite seq_S, fold_left_app. cbn [fold_left Nat.add]. cbn zeta in IH.
    destruct (IH ltac:(lia) ltac:(lia)) as (Hw & Hr & Hc & Hg). set (Rt := fold_left _ (seq 0 t) R) in *.
    split; [apply wf_write_bit; auto; lia|]. split; [exact Hr|]. split; [exact Hc|].
    intros i j. rewrite get_write_bit by (rewrite wf_len by assumption; lia). rewrite Hg. bsolve.
Qed.

Lemma write_identity_below_spec R r : wf R -> r + nc R <= nr R ->
  let R' := write_identity_below R r in
  wf R' /\ nr R' = nr R /\ nc R' = nc R /\
  forall i j, get R' i j = if (r <=? i) && (i <? r + nc R) && (j =? i - r) then true else get R i j.
Proof. intros HR Hr. exact (write_id_fold R r (nc R) HR Hr (le_n _)). Qed.

Lemma vmul_mid k c : bounded k c -> vmul c (mid k) = c.
Proof.
  intros Hc. assert (HM : wf (mk 1 k [c])) by (split; [reflexivity|now constructor]).
  pose proof (mmul_id_r (mk 1 k [c]) HM) as E. unfold mmul in E. cbn [nr nc rows map] in E.
  injection E as E. exact E.
Qed.

(** a matrix with a left inverse has independent columns *)
Lemma left_inverse_independent K J : wf K -> wf J -> nc J = nr K -> mmul J K = mid (nc K) ->
  forall c, bounded (nc K) c -> mul_row c (rows (mtrans K)) = 0%N -> c = 0%N.
Proof.
  intros HK HJ Hd E c Hc E0. fold (vmul c (mtrans K)) in E0.
  assert (Et : mmul (mtrans K) (mtrans J) = mid (nc K)).
  { rewrite <- mtrans_mmul by assumption. rewrite E. apply mtrans_mid. }
  rewrite <- (vmul_mid (nc K) c Hc), <- Et, vmul_mmul, E0. apply vmul_0.
Qed.

Ltac bs := bdestr; cbn [andb orb negb xorb]; try lia; try reflexivity.

(** * the kernel matrix *)
Section KernelBody.
  Variable trsm_ul : mat -> mat -> mat.
  Hypothesis Hul : forall U B, wf U -> wf B -> nr U = nr B -> nc U = nr B ->
    let X := trsm_ul U B in wf X /\ nr X = nr B /\ nc X = nc B /\ mmul (unit_upper (nr B) U) X = B.
  Variables (A : mat) (r : nat) (S : mat) (P Q : list nat).
  Hypothesis HA : wf A.
  Hypothesis HSt : plu_struct A r S P Q.
  Hypothesis HRe : plu_recon A r S P Q.

  Let m := nr A.
  Let n := nc A.
  Let k := n - r.
  Let Pm := pmat m P.
  Let Qm := pmat n Q.
  Let LU := win S 0 0 r r.
  Let U2 := win S 0 r r n.
  Let T := trsm_ul LU U2.
  Let Z := mstack T (mid k).
  Let K := apply_p_left_trans Z Q.

  Let HlP : lapack P m := plu_lapack_P _ _ _ _ _ HSt.
  Let HlQ : lapack Q n := plu_lapack_Q _ _ _ _ _ HSt.
  Let HwS : wf S := plu_wf _ _ _ _ _ HSt.
  Let HnrS : nr S = m := plu_nr _ _ _ _ _ HSt.
  Let HncS : nc S = n := plu_nc _ _ _ _ _ HSt.
  Let Hrm : r <= m := plu_r_le_nr _ _ _ _ _ HSt.
  Let Hrn : r <= n := plu_r_le_nc _ _ _ _ _ HSt.

  Lemma ker_LU : wf LU /\ nr LU = r /\ nc LU = r.
  Proof. split; [apply wf_msub; rewrite wf_len by assumption; lia|]. cbn. lia. Qed.
  Lemma ker_U2 : wf U2 /\ nr U2 = r /\ nc U2 = k.
  Proof. split; [apply wf_msub; rewrite wf_len by assumption; lia|]. unfold U2, win, k. cbn [nr nc msub]. lia. Qed.
  Lemma ker_T : wf T /\ nr T = r /\ nc T = k /\ mmul (unit_upper r LU) T = U2.
  Proof.
    destruct ker_LU as (l1 & l2 & l3). destruct ker_U2 as (u1 & u2 & u3).
    destruct (Hul LU U2 l1 u1 ltac:(lia) ltac:(lia)) as (a & b & d & e). fold T in a, b, d, e.
    rewrite u2 in b, e. rewrite u3 in d. auto.
  Qed.
  Lemma ker_Z : wf Z /\ nr Z = n /\ nc Z = k.
  Proof.
    destruct ker_T as (t1 & t2 & t3 & _).
    split; [apply wf_mstack; auto with wf|]. unfold Z. cbn [nr nc mstack mid]. unfold k in *. lia.
  Qed.
  Lemma ker_K : wf K /\ nr K = n /\ nc K = k /\ K = mmul (mtrans Qm) Z.
  Proof.
    destruct ker_Z as (z1 & z2 & z3). unfold K.
    split; [now apply wf_apply_p_left_trans|]. split; [now rewrite nr_aplt|]. split; [now rewrite nc_aplt|].
    rewrite apply_left_trans_is_mul by (auto; rewrite z2; auto). now rewrite z2.
  Qed.

  (** the code computes K *)
  Lemma kernel_body :
    let R := copy_right_block S (mzero n (n - r)) r in
    apply_p_left_trans
      (write_identity_below (mpaste R 0 0 (trsm_ul (win S 0 0 r r) (win R 0 0 r (nc R)))) r) Q = K.
  Proof.
    destruct ker_LU as (l1 & l2 & l3). destruct ker_U2 as (u1 & u2 & u3).
    destruct ker_T as (t1 & t2 & t3 & _).
    cbn zeta. fold k LU.
    destruct (copy_right_block_spec S (mzero n k) r (wf_mzero n k) Hrn) as (Rw & Rr & Rc & Rg).
    cbn zeta in *. set (R := copy_right_block S (mzero n k) r) in *. cbn [nr nc mzero] in Rr, Rc.
    assert (HZk : wf (mzero k k)) by apply wf_mzero.
    assert (ER : R = mstack U2 (mzero k k)).
    { apply mat_ext.
      - assumption.
      - apply wf_mstack; auto; cbn; lia.
      - cbn [nr mstack mzero]. unfold k in *. lia.
      - cbn [nc mstack]. lia.
      - intros i j _ _. rewrite Rg, get_mzero, get_mstack by assumption. rewrite get_mzero.
        cbn [nc mzero xorb]. unfold U2, win. rewrite get_msub by (rewrite wf_len by assumption; lia).
        cbn [nr msub Nat.add]. fold k. bs; now destruct (get S i (r + j)). }
    rewrite Rc, ER.
    assert (E1 : win (mstack U2 (mzero k k)) 0 0 r k = U2).
    { unfold win. rewrite msub_mstack_top by (auto; lia). apply msub_eq_full; auto; lia. }
    rewrite E1. fold T.
    assert (E2 : mpaste (mstack U2 (mzero k k)) 0 0 T = mstack T (mzero k k)).
    { rewrite mpaste_mstack_top by (auto; cbn; lia). now rewrite mpaste_all by (auto; lia). }
    rewrite E2.
    assert (HTZ : wf (mstack T (mzero k k))) by (apply wf_mstack; auto; cbn; lia).
    assert (E3 : write_identity_below (mstack T (mzero k k)) r = Z).
    { destruct (write_identity_below_spec (mstack T (mzero k k)) r HTZ ltac:(cbn; lia)) as (Ww & Wr & Wc & Wg).
      cbn zeta in *. destruct ker_Z as (z1 & z2 & z3).
      apply mat_ext.
      - assumption.
      - assumption.
      - rewrite Wr. cbn. lia.
      - rewrite Wc. cbn. lia.
      - intros i j _ _. rewrite Wg. unfold Z. rewrite !get_mstack by assumption.
        rewrite get_mzero, get_mid. cbn [nc mstack]. rewrite t2, t3. bs. }
    rewrite E3. reflexivity.
  Qed.

  (** A K = 0 *)
  Lemma kernel_product : mmul A K = mzero m k.
  Proof.
    destruct ker_LU as (l1 & l2 & l3). destruct ker_U2 as (u1 & u2 & u3).
    destruct ker_T as (t1 & t2 & t3 & t4). destruct ker_Z as (z1 & z2 & z3).
    destruct ker_K as (_ & _ & _ & ->).
    rewrite (recon_mul A r S P Q HA HSt HRe). fold m n Pm Qm.
    rewrite <- (mmul_assoc Qm).
    pose proof (proj2 (pmat_orthogonal n Q HlQ)) as Eo. fold Qm in Eo. rewrite Eo.
    rewrite <- z2 at 1. rewrite mmul_id_l by assumption.
    assert (EU : mmul (plu_U A r S) Z = mzero r k).
    { rewrite (plu_U_blocks A r S HwS HnrS HncS Hrm Hrn). fold n LU U2. unfold Z.
      rewrite mmul_concat_stack; auto with wf; try (cbn; lia).
      rewrite t4. rewrite <- u3 at 1. rewrite mmul_id_r by assumption.
      rewrite madd_self by assumption. now rewrite u2, u3. }
    rewrite EU.
    assert (EL : mmul (plu_L A r S) (mzero r k) = mzero m k)
      by exact (mmul_zero_r (plu_L A r S) k (wf_plu_L A r S)).
    rewrite EL.
    pose proof (mmul_zero_r (mtrans Pm) k (wf_mtrans _ (wf_pmat m P))) as EP.
    cbn [nr nc mtrans] in EP. unfold Pm in EP at 2 3. rewrite nr_pmat, nc_pmat in EP. exact EP.
  Qed.

  (** ([0 | I] Q) K = I *)
  Lemma kernel_left_inverse :
    let J := mmul (mconcat (mzero k r) (mid k)) Qm in
    wf J /\ nc J = n /\ mmul J K = mid k.
  Proof.
    destruct ker_T as (t1 & t2 & t3 & t4). destruct ker_Z as (z1 & z2 & z3).
    destruct ker_K as (_ & _ & _ & ->). cbn zeta.
    assert (HJ0 : wf (mconcat (mzero k r) (mid k))) by (apply wf_mconcat; auto with wf).
    split; [apply wf_mmul; auto; apply wf_pmat|]. split; [cbn; apply nc_pmat|].
    rewrite mmul_assoc, <- (mmul_assoc Qm).
    pose proof (proj2 (pmat_orthogonal n Q HlQ)) as Eo. fold Qm in Eo. rewrite Eo.
    rewrite <- z2 at 1. rewrite mmul_id_l by assumption. unfold Z.
    rewrite mmul_concat_stack; auto with wf; try (cbn; lia).
    rewrite <- t2 at 1. rewrite mmul_zero_l by assumption. rewrite t3.
    assert (EI : mmul (mid k) (mid k) = mid k) by exact (mmul_id_l (mid k) (wf_mid k)).
    rewrite EI. exact (madd_zero_l (mid k) (wf_mid k)).
  Qed.

  Lemma kernel_independent c : bounded (nc K) c -> mul_row c (rows (mtrans K)) = 0%N -> c = 0%N.
  Proof.
    destruct ker_K as (k1 & k2 & k3 & _). destruct kernel_left_inverse as (j1 & j2 & j3).
    apply (left_inverse_independent K _ k1 j1); [congruence|]. now rewrite k3.
  Qed.
End KernelBody.

(** * C07 *)
Section Kernel.
  Variable pluq : mat -> ple_out.
  Hypothesis Hpluq : forall A, wf A -> pluq_spec A (pluq A).
  Variable trsm_ul : mat -> mat -> mat.
  Hypothesis Hul : forall U B, wf U -> wf B -> nr U = nr B -> nc U = nr B ->
    let X := trsm_ul U B in wf X /\ nr X = nr B /\ nc X = nc B /\ mmul (unit_upper (nr B) U) X = B.

  Theorem kernel_spec A : wf A ->
    match kernel_left pluq trsm_ul A with
    | None => rank A = nc A
    | Some K =>
        rank A < nc A /\ wf K /\ nr K = nc A /\ nc K = nc A - rank A /\
        mmul A K = mzero (nr A) (nc K) /\
        (forall c, bounded (nc K) c -> mul_row c (rows (mtrans K)) = 0%N -> c = 0%N)
    end.
  Proof.
    intros HA. unfold kernel_left. specialize (Hpluq A HA).
    destruct (pluq A) as [[r S] [P Q]]. destruct Hpluq as [HSt HRe].
    assert (Er : rank A = r).
    { apply (has_rank_unique A); [now apply rank_correct|exact (plu_rank A r S P Q HSt)]. }
    destruct (Nat.eqb_spec r (nc A)) as [E|Hne]; [congruence|].
    pose proof (plu_r_le_nc _ _ _ _ _ HSt) as Hrn.
    rewrite (kernel_body trsm_ul Hul A r S P Q HSt).
    destruct (ker_K trsm_ul Hul A r S P Q HSt) as (k1 & k2 & k3 & _).
    rewrite Er. split; [lia|]. split; [assumption|]. split; [assumption|]. split; [assumption|].
    split.
    - rewrite k3. exact (kernel_product trsm_ul Hul A r S P Q HA HSt HRe).
    - exact (kernel_independent trsm_ul Hul A r S P Q HSt).
  Qed.

  (** NULL iff the rank equals the number of columns *)
  Corollary kernel_none A : wf A -> (kernel_left pluq trsm_ul A = None <-> rank A = nc A).
  Proof.
    intros HA. pose proof (kernel_spec A HA) as H. destruct (kernel_left pluq trsm_ul A) as [K|].
    - split; [discriminate|]. destruct H as (Hlt & _). lia.
    - split; auto.
  Qed.

  (** the same with the mathematical rank ([has_rank], Lin/Spec.v) instead of the Gauss model *)
  Corollary kernel_spec_has_rank A rk : wf A -> has_rank A rk ->
    match kernel_left pluq trsm_ul A with
    | None => rk = nc A
    | Some K => rk < nc A /\ wf K /\ nr K = nc A /\ nc K = nc A - rk /\
                mmul A K = mzero (nr A) (nc K) /\
                (forall c, bounded (nc K) c -> mul_row c (rows (mtrans K)) = 0%N -> c = 0%N)
    end.
  Proof.
    intros HA Hrk. assert (E : rank A = rk) by (apply (has_rank_unique A); [now apply rank_correct|assumption]).
    rewrite <- E. now apply kernel_spec.
  Qed.
End Kernel.

(** closed instance: _mzd_pluq_naive, simple TRSM *)
Theorem kernel_closed cutoff A : wf A ->
  match kernel_left_model cutoff A with
  | Some None => rank A = nc A
  | Some (Some K) =>
      rank A < nc A /\ wf K /\ nr K = nc A /\ nc K = nc A - rank A /\
      mmul A K = mzero (nr A) (nc K) /\
      (forall c, bounded (nc K) c -> mul_row c (rows (mtrans K)) = 0%N -> c = 0%N)
  | None => False
  end.
Proof.
  intros HA. unfold kernel_left_model.
  exact (kernel_spec pluq_naive_id pluq_naive_id_spec trsm_upper_left trsm_ul_ok A HA).
Qed.

Theorem kernel_none_closed cutoff A : wf A ->
  (kernel_left_model cutoff A = Some None <-> rank A = nc A).
Proof.
  intros HA. unfold kernel_left_model.
  rewrite <- (kernel_none pluq_naive_id pluq_naive_id_spec trsm_upper_left trsm_ul_ok A HA).
  split; [now intros [= ->]|now intros ->].
Qed.

(** the library route (_mzd_pluq = block recursion + column swaps): C07 holds for every PLE cutoff
    for which the recursive PLUQ model meets its specification (C03; proven for the non-recursive
    regime in PLEProofs3.v, exercised by correspondence otherwise) *)
Theorem kernel_cfg_partial ple_cutoff cutoff A :
  (forall A, wf A -> pluq_spec A (pluq_rec_id ple_cutoff A)) -> wf A ->
  match kernel_left_cfg ple_cutoff cutoff A with
  | Some None => rank A = nc A
  | Some (Some K) =>
      rank A < nc A /\ wf K /\ nr K = nc A /\ nc K = nc A - rank A /\
      mmul A K = mzero (nr A) (nc K) /\
      (forall c, bounded (nc K) c -> mul_row c (rows (mtrans K)) = 0%N -> c = 0%N)
  | None => False
  end.
Proof.
  intros Hp HA. unfold kernel_left_cfg.
  exact (kernel_spec (pluq_rec_id ple_cutoff) Hp trsm_upper_left trsm_ul_ok A HA).
Qed.
