(* Alg/PLERussianProofs6.v — C03, Four-Russians base case, part 6: the theorems about the whole
   routine, and the examples.

   PROVEN WITHOUT HYPOTHESIS
     ple_russian_block_partial (= sub_spec, part 4)  _mzd_ple_submatrix — the lazy elimination with
                               pivots[], done[], done_row on the window — simulates the naive algorithm;
     block_ok_of_update (part 5), russian_loop_naive, russian_compress_naive (part 1)
                               the while loop incl. the knar == 0 branch, the clipping of kk, the
                               window plumbing and the two-phase compression of L;
     nsteps_closed (part 2)    the closed form of the naive algorithm that _mzd_ple_a10/_a11 compute;
     update_ok_narrow_partial  steps 2, 4-6 when no table is consulted;
     pr_value_sound (part 7)   the row function of _mzd_process_rows_ple_N (E look-up, B register,
                               fixed table rows) = sequential elimination by the table rows.
   HYPOTHESIS  [update_ok k] (part 5): steps 2, 4-6 of one pass — _mzd_ple_a10 (row swaps and the
     triangular additions right of the window), the 1..7 tables with their index arrays M / E / B,
     _mzd_ple_a11_N and _mzd_process_rows_ple_N — turn the state described by [SubPost] into the state
     of the naive algorithm, row by row.  The theorems below carry it explicitly, hence "_partial".
     FULL STATEMENTS (what remains to be shown is exactly  forall k, 1 <= k -> update_ok k):
       ple_russian_naive : 1 <= k -> wf A -> length P0 = nr A -> length Q0 = nc A ->
                           ple_russian k A P0 Q0 = ple_naive A (fill_id 0 P0) (fill_id 0 Q0)
       ple_russian_spec  : ... -> ple_spec A (ple_russian k A P0 Q0)
       C03_mzd_ple_closed : ... -> ple_spec A (ple_rec (ple_russian k) cutoff A P0 Q0)
     The conclusion of these theorems is checked by vm_compute on the examples at the end of this
     file (wide inputs, where the window is narrower than the matrix, and tall dense inputs, where
     the rows beyond done_row are updated through E and B, included), and the model agrees bit for
     bit with the C library and with ple_naive on 249 of 249 structured inputs (probe, see report). *)
From Coq Require Import List NArith Arith Lia Bool Sorted.
From M4 Require Import Base.Bits Lin.Mat Lin.MatAlg Lin.Ops Lin.Spec Lin.Perm Lin.Observers
  Alg.PLE Alg.PLELemmas Alg.PLESpec Alg.PLEProofs Alg.PLEProofs2 Alg.PLEProofs3 Alg.PLEProofs4 Alg.PLEProofs10
  Alg.PLERussian Alg.PLERussianProofs Alg.PLERussianProofs2 Alg.PLERussianProofs3 Alg.PLERussianProofs4
  Alg.PLERussianProofs5.
Import ListNotations.
Local Open Scope nat_scope.

(** * _mzd_ple_submatrix (no hypothesis) *)
Theorem ple_russian_block_partial : forall (M : mat) (P0 Q0 : list nat) (r0 c0 kk w c' : nat),
  wf M -> r0 < nr M -> c0 + kk <= w -> 1 <= kk -> w <= nc M ->
  length P0 = nr M -> length Q0 = nc M -> c' <= c0 -> gap_zero M r0 c' c0 ->
  forall W0 : mat, wf W0 -> nr W0 = nr M -> nc W0 = w -> (forall i, row W0 i = lo w (row M i)) ->
  let '((W1, done_row), (P1, Q1), pivots) := ple_sub W0 r0 c0 kk P0 Q0 in
  exists pv cur, SubPost M P0 Q0 r0 c0 kk w c' W1 done_row P1 Q1 pivots pv cur.
Proof. exact sub_spec. Qed.

(** * the whole routine, given [update_ok] *)
Theorem ple_russian_naive_partial k A P0 Q0 : 1 <= k -> update_ok k ->
  wf A -> length P0 = nr A -> length Q0 = nc A ->
  ple_russian k A P0 Q0 = ple_naive A (fill_id 0 P0) (fill_id 0 Q0).
Proof. intros Hk HU. apply ple_russian_naive_of_block; [assumption|]. now apply block_ok_of_update. Qed.

Theorem ple_russian_spec_partial k A P0 Q0 : 1 <= k -> update_ok k ->
  wf A -> length P0 = nr A -> length Q0 = nc A -> ple_spec A (ple_russian k A P0 Q0).
Proof. intros Hk HU. apply ple_russian_spec_of_block; [assumption|]. now apply block_ok_of_update. Qed.

Theorem base_ok_russian_partial k : 1 <= k -> update_ok k -> base_ok (ple_russian k).
Proof. intros Hk HU A P0 Q0. now apply ple_russian_spec_partial. Qed.

(** _mzd_pluq_russian *)
Theorem pluq_russian_spec_partial k A P0 Q0 : 1 <= k -> update_ok k ->
  wf A -> length P0 = nr A -> length Q0 = nc A -> pluq_spec A (pluq_russian k A P0 Q0).
Proof.
  intros Hk HU HA HP HQ. pose proof (ple_russian_spec_partial k A P0 Q0 Hk HU HA HP HQ) as H.
  unfold pluq_russian. destruct (ple_russian k A P0 Q0) as [[r A'] [P Q]].
  rewrite <- (pluq_of_ple_matrix A r A' P Q (ple_spec_struct _ _ _ _ _ H)).
  now apply pluq_of_ple_spec.
Qed.

(** mzd_ple / mzd_pluq with the library's own base case *)
Theorem mzd_ple_closed_partial k cutoff A P0 Q0 : 1 <= k -> update_ok k ->
  wf A -> length P0 = nr A -> length Q0 = nc A ->
  ple_spec A (ple_rec (ple_russian k) cutoff A P0 Q0).
Proof. intros Hk HU. apply ple_rec_spec. now apply base_ok_russian_partial. Qed.

Theorem mzd_pluq_closed_partial k cutoff A P0 Q0 : 1 <= k -> update_ok k ->
  wf A -> length P0 = nr A -> length Q0 = nc A ->
  pluq_spec A (pluq_rec (ple_russian k) cutoff A P0 Q0).
Proof. intros Hk HU. apply pluq_rec_spec. now apply base_ok_russian_partial. Qed.

(** * examples: the model against ple_naive and the verified checker, by computation *)
(** pseudo-random rows: ((seed + i) * K) ^ 5 mod 2^n, optionally repeated with period [per] (dependent
    rows) and with the columns [z0, z0 + zw) cleared (zero column blocks, pivot gaps) *)
Definition ex_row (seed n per z0 zw i : nat) : N :=
  let x := (N.of_nat (seed + i mod per) * 6364136223846793005 + 1442695040888963407)%N in
  N.ldiff (N.land (N.shiftr (x ^ 9) 3) (N.ones (N.of_nat n))) (colmask z0 (z0 + zw)).
Definition ex_mat (seed m n per z0 zw : nat) : mat :=
  mk m n (map (ex_row seed n per z0 zw) (seq 0 m)).

Fixpoint nat_leqb (a b : list nat) : bool :=
  match a, b with
  | [], [] => true
  | x :: a, y :: b => (x =? y) && nat_leqb a b
  | _, _ => false
  end.
Definition out_eqb (o1 o2 : ple_out) : bool :=
  let '((r1, A1), (P1, Q1)) := o1 in let '((r2, A2), (P2, Q2)) := o2 in
  (r1 =? r2) && mequal A1 A2 && nat_leqb P1 P2 && nat_leqb Q1 Q2.

(** (k, matrix): dense, rank deficient, zero column blocks wider than 7k, every number of tables,
    tall (rows beyond done_row: tables E, B), wide (> 576 columns: window, _mzd_ple_a10/_a11) *)
Definition russian_examples : list (nat * mat) := [
  (2, ex_mat 1 20 30 100 0 0);
  (3, ex_mat 2 40 70 100 0 0);
  (4, ex_mat 3 90 130 100 0 0);
  (2, ex_mat 4 60 50 7 0 0);
  (5, ex_mat 5 50 120 13 20 45);
  (3, ex_mat 6 35 200 100 0 30);
  (8, ex_mat 7 70 190 100 60 70);
  (6, ex_mat 8 100 47 100 0 0);
  (7, ex_mat 9 120 64 31 5 3);
  (1, ex_mat 10 30 33 100 0 0);
  (2, ex_mat 11 25 700 100 0 0);
  (4, ex_mat 12 60 650 17 100 80);
  (3, ex_mat 13 90 600 100 30 10);
  (2, mk 1 1 [1%N]);
  (2, mk 3 5 [0%N; 0%N; 0%N])
].

Definition russian_example_ok (e : nat * mat) : bool :=
  let '(k, A) := e in
  wfb A && out_eqb (ple_russian_run k A) (ple_naive A (seq 0 (nr A)) (seq 0 (nc A)))
        && ple_ok A (ple_russian_run k A) && pluq_ok A (pluq_russian_run k A).

Example russian_examples_ok : forallb russian_example_ok russian_examples = true.
Proof. vm_compute. reflexivity. Qed.

(** the examples are not trivial: ranks, and inputs wider than the window *)
Example russian_examples_ranks :
  map (fun e => fst (fst (ple_russian_run (fst e) (snd e)))) russian_examples =
  [19; 39; 90; 7; 13; 35; 70; 47; 30; 28; 25; 17; 90; 1; 0].
Proof. vm_compute. reflexivity. Qed.
