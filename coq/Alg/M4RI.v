(* Alg/M4RI.v — EXECUTABLE models (definitions only) of the M4RI echelonisation of
   m4ri/brilliantrussian.c on abstract matrices (Lin/Mat.v: a row is an N, column j = bit j):

     gauss_submatrix_full = _mzd_gauss_submatrix_full   (brilliantrussian.c:48-77)
     gauss_submatrix      = _mzd_gauss_submatrix        (:97-121)
     gauss_submatrix_top  = _mzd_gauss_submatrix_top    (:139-150)
     copy_back_rows       = _mzd_copy_back_rows         (:152-163)
     ntables/split_sizes/tables/process_rows
                          = the kbar-dependent choice of 1..6 tables, mzd_make_table (:165-211) and
                            mzd_process_rows .. mzd_process_rows6 (:213-601)
     m4ri_loop/m4ri_model = _mzd_echelonize_m4ri        (:603-844)
     top_loop/top_model   = _mzd_top_echelonize_m4ri / mzd_top_echelonize_m4ri (:846-969)

   HOW THE TABLES ARE MODELLED.  A table entry is modelled by its VALUE on the columns that
   mzd_process_rows* actually adds, i.e. [tbl_entry M r c k x] = (xor of the rows r+b of M with bit b
   of x set) restricted to the columns [c, ncols): this is the right-hand side of
   GrayProofs.gray_lookup_masked_lib, which proves that the entry found through L in the table built
   by [Gray.make_table] (the faithful model of mzd_make_table, any stale previous contents, the
   library's own Gray code book) has exactly this value on [c, ncols).  process_rows* add the table
   rows from word c/64 on; the written table rows are zero on [64*(c/64), c) (mask_begin), row 0 of
   every table is never written and stays zero from mzd_init, and words below c/64 are not touched.
   The split of the kbar block bits over 1..6 tables with the sizes ka >= kb >= .. of the C code IS
   modelled ([ntables], [split_sizes], [tbl_sum]); M4RIProofs.tbl_sum_split proves that the sum of the
   per-table entries is the single combination of the kbar block rows.
   The special path of mzd_process_rows for k = 1 (two rows at a time, T[1] added iff the bit is set)
   and the "all indices zero: continue" shortcuts of process_rows2..6 add the same values.

   PARAMETERS.  [k] (1 <= k; the automatic choice for k = 0 is abstracted: it is a function of the
   dimensions and cache sizes only and, since commit 7e49aa6, never 0), [ktop] = the k chosen inside
   _mzd_top_echelonize_m4ri(A, 0, ..) when the hybrid calls it, [oracle] = the density heuristic
   (brilliantrussian.c:685,698-700) as an arbitrary stream of switch decisions: entry 0 is the test
   before the loop, entry i+1 the test in loop iteration i (the C code only evaluates the density
   every 256 columns: a special case), [ech] = mzd_echelonize_pluq on the remaining window.
   Fuel = number of columns (the cursor c strictly increases); out of fuel = None. *)
From Coq Require Import List NArith Arith Bool.
From M4 Require Import Base.Bits Lin.Mat Lin.Ops Alg.Gauss Alg.Gray.
Import ListNotations.
Local Open Scope nat_scope.

(** * _mzd_gauss_submatrix_full *)
(** lines 57-61: [tmp] was read once; every bit l < j-c of it set: mzd_row_add_offset(A,i,r+l,c+l) *)
Definition clear_tmp (M : mat) (i r c l : nat) (tmp : N) : mat :=
  fold_left (fun M t => if N.testbit tmp (N.of_nat t) then row_add_offset M i (r + t) (c + t) else M)
            (seq 0 l) M.

(** lines 66-68 (and 142-144): rows t in [r, s) with a one in column j get row s added from j on *)
Definition clear_above (M : mat) (r s j : nat) : mat :=
  fold_left (fun M t => if get M t j then row_add_offset M t s j else M) (seq r (s - r)) M.

(** the loop over i = start_row .. end_row-1 for column j = c + l, start_row = r + l;
    [n] = end_row - i = iterations left (exact) *)
Fixpoint gsf_scan (n : nat) (M : mat) (r c l i : nat) : mat * bool :=
  match n with
  | 0 => (M, false)
  | S n' =>
    let tmp := read_bits M i c (S l) in
    if N.eqb tmp 0 then gsf_scan n' M r c l (S i)
    else
      let M1 := clear_tmp M i r c l tmp in
      if get M1 i (c + l)
      then (clear_above (row_swap M1 i (r + l)) r (r + l) (c + l), true)
      else gsf_scan n' M1 r c l (S i)
  end.

(** the loop over j = c + l; [n] = k - l = columns left; returns (matrix, j - c) *)
Fixpoint gsf_cols (n : nat) (M : mat) (r c end_row l : nat) : mat * nat :=
  match n with
  | 0 => (M, l)
  | S n' =>
    let '(M1, found) := gsf_scan (end_row - (r + l)) M r c l (r + l) in
    if found then gsf_cols n' M1 r c end_row (S l) else (M1, l)
  end.

Definition gauss_submatrix_full (M : mat) (r c end_row k : nat) : mat * nat :=
  gsf_cols k M r c end_row 0.

(** * _mzd_gauss_submatrix (non-reduced): the bits are re-read one by one *)
Definition clear_seq (M : mat) (i r c l : nat) : mat :=
  fold_left (fun M t => if get M i (c + t) then row_add_offset M i (r + t) (c + t) else M) (seq 0 l) M.

Fixpoint gs_scan (n : nat) (M : mat) (r c l i : nat) : mat * bool :=
  match n with
  | 0 => (M, false)
  | S n' =>
    let M1 := clear_seq M i r c l in
    if get M1 i (c + l) then (row_swap M1 i (r + l), true)
    else gs_scan n' M1 r c l (S i)
  end.

Fixpoint gs_cols (n : nat) (M : mat) (r c end_row l : nat) : mat * nat :=
  match n with
  | 0 => (M, l)
  | S n' =>
    let '(M1, found) := gs_scan (end_row - (r + l)) M r c l (r + l) in
    if found then gs_cols n' M1 r c end_row (S l) else (M1, l)
  end.

Definition gauss_submatrix (M : mat) (r c end_row k : nat) : mat * nat :=
  gs_cols k M r c end_row 0.

(** * _mzd_gauss_submatrix_top: clear above each of the k pivots *)
Definition gauss_submatrix_top (M : mat) (r c k : nat) : mat :=
  fold_left (fun M t => clear_above M r (r + t) (c + t)) (seq 0 k) M.

(** * _mzd_copy_back_rows: words c/64 .. width-1 of the rows r..r+k-1 are restored from U *)
Definition copy_back_rows (M : mat) (U : list N) (r c k : nat) : mat :=
  let cb := radix * (c / radix) in
  map_rows (fun i x => if (r <=? i) && (i <? r + k)
                       then N.lor (N.land x (N.ones (N.of_nat cb)))
                                  (N.land (nth (i - r) U 0%N) (colmask cb (nc M)))
                       else x) M.

(** * tables *)
(** number of tables, lines 723/748/770/789/803/813 *)
Definition ntables (k kbar : nat) : nat :=
  if 5 * k <? kbar then 6 else if 4 * k <? kbar then 5 else if 3 * k <? kbar then 4
  else if 2 * k <? kbar then 3 else if k <? kbar then 2 else if 0 <? kbar then 1 else 0.

(** ka, kb, ..: kbar / n, plus one for the first (kbar mod n) tables counted from the LAST BUT ONE
    backwards (rem >= n-1 for ka, .., rem >= 1 for the last but one, never for the last) *)
Definition split_sizes (n kbar : nat) : list nat :=
  map (fun t => kbar / n + (if (t <? n - 1) && (n - 1 - t <=? kbar mod n) then 1 else 0)) (seq 0 n).

(** value of entry x of the table made by mzd_make_table(M, r, c, k, T, L) on the columns >= c *)
Definition tbl_entry (M : mat) (r c k : nat) (x : N) : N :=
  N.land (mul_row x (block_rows M r k)) (mt_mask M c).

(** process_rowsN: bits & ka_bm -> table 0 (rows r..), bits >>= ka, & kb_bm -> table 1 (rows r+ka..) .. *)
Fixpoint tbl_sum (M : mat) (r c : nat) (sizes : list nat) (bits : N) : N :=
  match sizes with
  | [] => 0%N
  | ka :: rest =>
    N.lxor (tbl_entry M r c ka (N.land bits (N.ones (N.of_nat ka))))
           (tbl_sum M (r + ka) c rest (N.shiftr bits (N.of_nat ka)))
  end.

(** the tables as made from the matrix [M] at the time of the mzd_make_table calls *)
Definition tables (k : nat) (M : mat) (r c kbar : nat) : N -> N :=
  tbl_sum M r c (split_sizes (ntables k kbar) kbar).

(** mzd_process_rowsN(M, lo, hi, c, kbar, tables) *)
Definition process_rows (M : mat) (T : N -> N) (lo hi c kbar : nat) : mat :=
  map_rows (fun i x => if (lo <=? i) && (i <? hi)
                       then N.lxor x (T (N.land (N.shiftr x (N.of_nat c)) (N.ones (N.of_nat kbar))))
                       else x) M.

(** * _mzd_top_echelonize_m4ri(A, k, r, c, max_r) *)
Fixpoint top_loop (fuel : nat) (k : nat) (M : mat) (r c max_r : nat) : option (nat * mat) :=
  if nc M <=? c then Some (r, M) else
  match fuel with
  | 0 => None
  | S fuel' =>
    let kk := Nat.min (6 * k) (nc M - c) in
    let '(M1, kbar) := gauss_submatrix_full M r c (Nat.min (nr M) (r + kk)) kk in
    let M2 := if 0 <? kbar then process_rows M1 (tables k M1 r c kbar) 0 (Nat.min r max_r) c kbar else M1 in
    top_loop fuel' k M2 (r + kbar) (if kbar =? kk then c + kbar else S (c + kbar)) max_r
  end.

(** mzd_top_echelonize_m4ri(M, k) *)
Definition top_model (k : nat) (M : mat) : option mat :=
  option_map snd (top_loop (nc M) k M 0 0 (nr M)).

(** * _mzd_echelonize_m4ri *)
Section M4RI.
  Variable ech : bool -> mat -> nat * mat.     (* mzd_echelonize_pluq(window, full) *)
  Variables k ktop : nat.
  Variable oracle : nat -> bool.

  (** one pass of the loop body, lines 712-824 up to the cursor update: returns (matrix, kbar) *)
  Definition block_step (full : bool) (M : mat) (r c kk : nat) : mat * nat :=
    if full then
      let '(M1, kbar) := gauss_submatrix_full M r c (nr M) kk in
      if 0 <? kbar then
        let T := tables k M1 r c kbar in                      (* made because full *)
        let M2 := if kbar =? kk then process_rows M1 T (r + kbar) (nr M) c kbar else M1 in
        (process_rows M2 T 0 r c kbar, kbar)
      else (M1, kbar)
    else
      let '(M1, kbar) := gauss_submatrix M r c (nr M) kk in
      let U := firstn kbar (skipn r (rows M1)) in             (* mzd_submatrix(U, A, r, 0, r+kbar, ncols) *)
      let M1' := gauss_submatrix_top M1 r c kbar in
      let M2 := if (0 <? kbar) && (kbar =? kk)
                then process_rows M1' (tables k M1' r c kbar) (r + kbar) (nr M) c kbar else M1' in
      (copy_back_rows M2 U r c kbar, kbar).

  (** lines 686-693 / 700-711: hand the window (rows >= r, columns >= 64*(c/64)) to PLUQ *)
  Definition switch (full : bool) (M : mat) (r c : nat) : option (nat * mat) :=
    let cw := radix * (c / radix) in
    let W := msub M r cw (nr M - r) (nc M - cw) in
    let '(r2, W') := ech full W in
    let M1 := mpaste M r cw W' in
    if full && (0 <? r) then
      match top_loop (nc M) ktop M1 r c r with
      | Some (_, M2) => Some (r + r2, M2)
      | None => None
      end
    else Some (r + r2, M1).

  Fixpoint m4ri_loop (fuel it : nat) (full : bool) (M : mat) (r c : nat) : option (nat * mat) :=
    if nc M <=? c then Some (r, M) else
    match fuel with
    | 0 => None
    | S fuel' =>
      if oracle it && (r <? nr M) then switch full M r c
      else
        let kk := Nat.min (6 * k) (nc M - c) in
        let '(M1, kbar) := block_step full M r c kk in
        let r' := r + kbar in
        let c' := c + kbar in
        if kbar =? kk then m4ri_loop fuel' (S it) full M1 r' c'
        else match find_pivot M1 r' c' with
             | Some (rbar, cbar) => m4ri_loop fuel' (S it) full (row_swap M1 r' rbar) r' cbar
             | None => Some (r', M1)
             end
    end.

  Definition m4ri_model (full : bool) (A : mat) : option (nat * mat) :=
    if oracle 0 && (0 <? nc A) && (0 <? nr A) then switch full A 0 0
    else m4ri_loop (nc A) 1 full A 0 0.
End M4RI.

(** * entry points for the correspondence driver *)
(** mzd_echelonize_m4ri(A, full, k), k >= 1: heuristic off (the window echeloniser is never called) *)
Definition m4ri_run (k : nat) (full : bool) (A : mat) : option (nat * mat) :=
  m4ri_model (fun _ W => (0, W)) k k (fun _ => false) full A.
(** mzd_top_echelonize_m4ri(A, k), k >= 1 *)
Definition top_run (k : nat) (A : mat) : option mat := top_model k A.
