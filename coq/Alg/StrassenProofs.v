(* Alg/StrassenProofs.v — proofs about Alg/Strassen.v: soundness of the symbolic schedule checker,
   one recursion level, the recursion, the public wrappers, and the mp.c front end under every
   interleaving of its section tasks. *)
From Coq Require Import String List NArith Arith Bool ZArith Lia ZifyBool ZifyNat ZifyN Permutation.
From M4 Require Import Base.Bits Lin.Mat Lin.MatAlg Lin.Ops Lin.OpsProofs Word.WMat Alg.Strassen.
Import ListNotations.
Local Open Scope nat_scope.
Ltac Zify.zify_post_hook ::= Z.div_mod_to_equations.

(* ------------------------------------------------------------------------------------------ *)
(** * Small facts *)
Lemma bind_ok {A B} (x : res A) (f : A -> res B) r :
  bind x f = Ok r -> exists a, x = Ok a /\ f a = Ok r.
Proof. destruct x; cbn; [eauto|discriminate]. Qed.

Lemma var_beq_eq a b : var_beq a b = true <-> a = b.
Proof. split; [apply internal_var_dec_bl|apply internal_var_dec_lb]. Qed.
Lemma var_beq_refl a : var_beq a a = true.
Proof. now apply var_beq_eq. Qed.

Lemma deq_true {T} dec (a b : T) : deq dec a b = true -> a = b.
Proof. unfold deq. destruct (dec a b); [auto|discriminate]. Qed.

Lemma tb_0 i : tb 0 i = false.
Proof. apply N.bits_0. Qed.
Lemma tb_lxor a b i : tb (N.lxor a b) i = xorb (tb a i) (tb b i).
Proof. apply N.lxor_spec. Qed.
Lemma tb_pow2 t i : tb (2 ^ N.of_nat t) i = (t =? i).
Proof. apply testbit_pow2_nat. Qed.

Lemma tb_nfun n f s : tb (nfun n f) s = (s <? n) && f s.
Proof.
  unfold tb. induction n as [|n IH]; cbn [nfun].
  - rewrite N.bits_0. reflexivity.
  - destruct (f n) eqn:Hf.
    + rewrite N.setbit_eqb, IH. destruct (Nat.eq_dec n s) as [->|Hne].
      * rewrite N.eqb_refl, Hf. cbn. destruct (Nat.ltb_spec s (S s)); [reflexivity|lia].
      * destruct (N.eqb_spec (N.of_nat n) (N.of_nat s)); [lia|]. cbn.
        destruct (Nat.ltb_spec s n), (Nat.ltb_spec s (S n)); try lia; reflexivity.
    + rewrite IH. destruct (Nat.ltb_spec s n), (Nat.ltb_spec s (S n)); try lia; try reflexivity.
      assert (s = n) by lia. subst. now rewrite Hf.
Qed.

Lemma tb_prodbits a b s : tb (prodbits a b) s = (s <? 64) && (tb a (s / 8) && tb b (s mod 8)).
Proof. unfold prodbits. apply tb_nfun. Qed.

Lemma tb_lt256 a t : (a < 256)%N -> 8 <= t -> tb a t = false.
Proof.
  intros Ha Ht. unfold tb. destruct (N.eq_dec a 0) as [->|Hn]; [apply N.bits_0|].
  apply N.bits_above_log2. apply N.log2_lt_pow2; [lia|].
  apply N.lt_le_trans with (2 ^ 8)%N; [exact Ha|]. apply N.pow_le_mono_r; lia.
Qed.

Lemma xsum_mul n m (f : nat -> nat -> bool) : 0 < m ->
  xsum (n * m) (fun s => f (s / m) (s mod m)) = xsum n (fun t => xsum m (f t)).
Proof.
  intros Hm. induction n as [|n IH]; [reflexivity|].
  replace (S n * m) with (n * m + m) by lia. rewrite xsum_app, IH. cbn [xsum]. f_equal.
  apply xsum_ext. intros u Hu.
  replace (n * m + u) with (u + n * m) by lia.
  rewrite Nat.div_add, Nat.mod_add by lia. rewrite Nat.div_small, Nat.mod_small by lia. reflexivity.
Qed.

Lemma xsum_indicator n a f : xsum n (fun s => (s =? a) && f s) = (a <? n) && f a.
Proof.
  destruct (Nat.ltb_spec a n) as [Hlt|Hge]; cbn [andb].
  - rewrite (xsum_single _ _ a); [now rewrite Nat.eqb_refl| assumption|].
    intros s _ Hne. destruct (Nat.eqb_spec s a); [contradiction|reflexivity].
  - apply xsum_zero. intros s Hs. destruct (Nat.eqb_spec s a); [lia|reflexivity].
Qed.

(** association lists *)
Lemma assoc_tset {T} (l : list (string * T)) x v y :
  assoc (tset l x v) y = if String.eqb y x then Some v else assoc l y.
Proof.
  unfold tset. cbn [assoc]. destruct (String.eqb_spec y x) as [->|Hne]; [reflexivity|].
  induction l as [|[z w] l IH]; [reflexivity|]. cbn [tdel filter fst].
  destruct (String.eqb_spec x z) as [->|Hxz]; cbn [negb].
  - cbn [assoc]. destruct (String.eqb_spec y z); [contradiction|]. apply IH.
  - cbn [assoc]. destruct (String.eqb y z); [reflexivity|apply IH].
Qed.
Lemma assoc_tdel {T} (l : list (string * T)) x y :
  assoc (tdel l x) y = if String.eqb y x then None else assoc l y.
Proof.
  induction l as [|[z w] l IH]; cbn [tdel filter fst assoc]; [now destruct (String.eqb y x)|].
  destruct (String.eqb_spec x z) as [->|Hxz]; cbn [negb].
  - fold (tdel l z). rewrite IH. destruct (String.eqb_spec y z); reflexivity.
  - cbn [assoc]. fold (tdel l x). rewrite IH.
    destruct (String.eqb_spec y z) as [->|]; [|reflexivity].
    destruct (String.eqb_spec z x); [congruence|reflexivity].
Qed.

(** sub-block of a pasted matrix: the pasted block itself, or untouched when disjoint *)
Lemma msub_mpaste_other A r0 c0 B r0' c0' r c : wf B -> r0 + nr B <= length (rows A) ->
  r0' + r <= length (rows A) ->
  (r0' + r <= r0 \/ r0 + nr B <= r0' \/ c0' + c <= c0 \/ c0 + nc B <= c0') ->
  msub (mpaste A r0 c0 B) r0' c0' r c = msub A r0' c0' r c.
Proof.
  intros HB Hr Hr' Hd.
  assert (Hl : length (rows (mpaste A r0 c0 B)) = length (rows A)) by (unfold mpaste; apply len_map_rows).
  apply mat_ext; try (apply wf_msub; lia); try reflexivity.
  intros i j Hi Hj. cbn [nr nc msub] in Hi, Hj. rewrite !get_msub by lia.
  destruct (Nat.ltb_spec i r), (Nat.ltb_spec j c); try lia. cbn [andb].
  apply mpaste_outside; auto. lia.
Qed.

(* ------------------------------------------------------------------------------------------ *)
(** * Denotation of symbolic values and soundness of the symbolic execution *)
Definition gmul (D : nat) (f g : nat -> nat -> bool) (i j : nat) : bool :=
  xsum D (fun l => f i l && g l j).

Lemma get_mmul_D D M N i j : wf M -> wf N -> nr N <= D ->
  get (mmul M N) i j = gmul D (get M) (get N) i j.
Proof.
  intros HM HN HD. rewrite get_mmul by assumption. unfold gmul. symmetry.
  apply xsum_extend; [assumption|]. intros l Hl. rewrite (get_out_row N) by (auto; lia). apply andb_false_r.
Qed.

Section Den.
  Variable D : nat.
  Variable X : nat -> mat.     (* the 8 input blocks *)
  Variable Q : nat -> mat.     (* the 4 initial quadrants of C *)
  Variable E : env.
  Variable is_split : var -> bool.    (* the split variables of the routine *)

  Definition den_lin (a : N) (i j : nat) : bool := xsum 8 (fun t => tb a t && get (X t) i j).
  Definition den_bil (a : N) (i j : nat) : bool :=
    xsum 64 (fun s => tb a s && gmul D (get (X (s / 8))) (get (X (s mod 8))) i j).
  Definition den_c0 (a : N) (i j : nat) : bool := xsum 4 (fun q => tb a q && get (Q q) i j).
  Definition den (v : sval) (i j : nat) : bool :=
    xorb (xorb (den_lin (v_lin v) i j) (den_bil (v_bil v) i j)) (den_c0 (v_c0 v) i j).

  Definition rep (M : mat) (v : sval) : Prop :=
    wf M /\ nr M = E (v_r v) /\ nc M = E (v_c v) /\
    is_split (v_r v) = true /\ is_split (v_c v) = true /\
    forall i j, get M i j = den v i j.

  Lemma den_part_xor n (T : nat -> bool) a b :
    xsum n (fun t => tb (N.lxor a b) t && T t) =
    xorb (xsum n (fun t => tb a t && T t)) (xsum n (fun t => tb b t && T t)).
  Proof.
    rewrite <- xsum_xor. apply xsum_ext. intros t _. rewrite tb_lxor.
    destruct (tb a t), (tb b t), (T t); reflexivity.
  Qed.

  Lemma den_xor v w i j : den (sv_xor v w) i j = xorb (den v i j) (den w i j).
  Proof.
    unfold den, sv_xor, den_lin, den_bil, den_c0. cbn [v_lin v_bil v_c0].
    rewrite !den_part_xor.
    repeat match goal with |- context [xsum ?n ?f] => generalize (xsum n f); intro end.
    repeat match goal with b : bool |- _ => destruct b end; reflexivity.
  Qed.

  Lemma den_part_0 n (T : nat -> bool) : xsum n (fun t => tb 0 t && T t) = false.
  Proof. apply xsum_zero. intros. now rewrite tb_0. Qed.

  Lemma rep_xor M N v w : rep M v -> rep N w -> sv_same v w = true -> rep (madd M N) (sv_xor v w).
  Proof.
    intros (HM & Hr & Hc & Sr & Sc & Hg) (HN & Hr' & Hc' & _ & _ & Hg') Hs.
    unfold sv_same in Hs. apply andb_true_iff in Hs as [H1 H2].
    apply var_beq_eq in H1, H2.
    assert (nr M = nr N) by congruence. assert (nc M = nc N) by congruence.
    refine (conj _ (conj _ (conj _ (conj _ (conj _ _))))); auto.
    - apply wf_madd; auto.
    - intros i j. rewrite get_madd by (rewrite !wf_len; auto). rewrite den_xor, Hg, Hg'. reflexivity.
  Qed.

  Lemma den_linear v i j : sv_lin v = true -> den v i j = den_lin (v_lin v) i j.
  Proof.
    unfold sv_lin. rewrite !andb_true_iff. intros [[Hb Hc] _].
    apply N.eqb_eq in Hb, Hc. unfold den. rewrite Hb, Hc. unfold den_bil, den_c0.
    rewrite !den_part_0. now rewrite !xorb_false_r.
  Qed.

  Lemma den_prod v w i j : sv_lin v = true -> sv_lin w = true ->
    den (sv_prod v w) i j = gmul D (den_lin (v_lin v)) (den_lin (v_lin w)) i j.
  Proof.
    intros Hv Hw. unfold den, sv_prod. cbn [v_lin v_bil v_c0]. unfold den_lin at 1, den_c0.
    rewrite !den_part_0. rewrite xorb_false_r, xorb_false_l.
    unfold den_bil.
    pose (FF := fun t u => tb (v_lin v) t && tb (v_lin w) u && gmul D (get (X t)) (get (X u)) i j).
    rewrite (xsum_ext 64 _ (fun s => FF (s / 8) (s mod 8))).
    2:{ intros s Hs. unfold FF. rewrite tb_prodbits. destruct (Nat.ltb_spec s 64); [reflexivity|lia]. }
    change 64 with (8 * 8). rewrite (xsum_mul 8 8 FF) by lia. unfold FF. clear FF.
    unfold gmul, den_lin.
    (* right-hand side: distribute *)
    symmetry.
    rewrite (xsum_ext D _ (fun l => xsum 8 (fun t => xsum 8 (fun u =>
               tb (v_lin v) t && tb (v_lin w) u && (get (X t) i l && get (X u) l j))))).
    2:{ intros l _. rewrite <- xsum_and_r. apply xsum_ext. intros t _.
        rewrite <- xsum_and_l. apply xsum_ext. intros u _.
        destruct (tb (v_lin v) t), (tb (v_lin w) u), (get (X t) i l), (get (X u) l j); reflexivity. }
    rewrite xsum_exchange. apply xsum_ext. intros t _.
    rewrite xsum_exchange. apply xsum_ext. intros u _.
    rewrite xsum_and_l. reflexivity.
  Qed.

  Lemma rep_prod M N v w : rep M v -> rep N w -> sv_lin v = true -> sv_lin w = true ->
    var_beq (v_c v) (v_r w) = true -> E (v_c v) <= D ->
    rep (mmul M N) (sv_prod v w).
  Proof.
    intros (HM & Hr & Hc & Sr & Sc & Hg) (HN & Hr' & Hc' & Sr' & Sc' & Hg') Lv Lw Hd HD.
    apply var_beq_eq in Hd.
    refine (conj _ (conj _ (conj _ (conj _ (conj _ _))))); auto.
    - apply wf_mmul; auto.
    - intros i j. rewrite (get_mmul_D D) by (auto; congruence).
      rewrite den_prod by assumption. unfold gmul. apply xsum_ext. intros l _.
      rewrite Hg, Hg', !den_linear by assumption. reflexivity.
  Qed.
End Den.

(* ------------------------------------------------------------------------------------------ *)
(** * Simulation: concrete execution of an accepted block schedule vs. its symbolic execution *)
Lemma pdims_split k p a b : pdims k p = Some (a, b) -> dim_ok k a = true /\ dim_ok k b = true.
Proof. destruct k, p; cbn; intros H; inversion H; auto. Qed.

Definition acc_spec (kk : kind) (Cd Xm Ym : mat) : mat :=
  if k_acc kk then madd Cd (mmul Xm Ym) else mmul Xm Ym.

Section Sim.
  Variable dflt : nat.
  Variable rec : kind -> bool -> nat -> mat -> mat -> mat -> res mat.
  Variable cutoff : nat.
  Variable k : kind.
  Variable wins : list (string * winexp).
  Variable E : env.
  Variables A B C0 : mat.
  Let F := fenv_of A B C0.
  Variable D : nat.
  Notation is_split := (dim_ok k).
  Hypothesis wfA : wf A.
  Hypothesis wfB : wf B.
  Hypothesis wfC0 : wf C0.
  Hypothesis HD : forall v, is_split v = true -> E v <= D.

  Definition pdr p := match pdims k p with Some (a, _) => E a | None => 0 end.
  Definition pdc p := match pdims k p with Some (_, b) => E b | None => 0 end.
  Hypothesis HbA : 2 * pdr PA <= nr A /\ 2 * pdc PA <= nc A.
  Hypothesis HbB : 2 * pdr PB <= nr B /\ 2 * pdc PB <= nc B.
  Hypothesis HbC : 2 * pdr PC <= nr C0 /\ 2 * pdc PC <= nc C0.

  Definition blk (M : mat) (p : parent) (q : nat) : mat :=
    msub M ((q / 2) * pdr p) ((q mod 2) * pdc p) (pdr p) (pdc p).
  Definition X (t : nat) : mat := if t <? 4 then blk A PA t else blk B PB (t - 4).
  Definition Q (q : nat) : mat := blk C0 PC q.
  Notation rep' := (rep D X Q E is_split).

  Hypothesis rec_ok : forall kk w c Cd Xm Ym, wf Cd -> wf Xm -> wf Ym ->
    nc Xm = nr Ym -> nr Cd = nr Xm -> nc Cd = nc Ym ->
    (k_sqr kk = true -> Ym = Xm) ->
    (c = cutoff \/ c = norm_cutoff dflt cutoff) ->
    (exists v1 v2 v3, is_split v1 = true /\ is_split v2 = true /\ is_split v3 = true /\
                      nr Xm = E v1 /\ nc Xm = E v2 /\ nc Ym = E v3) ->
    rec kk w c Cd Xm Ym = Ok (acc_spec kk Cd Xm Ym).

  Lemma q4 q : q < 4 -> q = 0 \/ q = 1 \/ q = 2 \/ q = 3. Proof. lia. Qed.

  Lemma blk_dims M p q : q < 4 -> 2 * pdr p <= nr M -> wf M ->
    wf (blk M p q) /\ nr (blk M p q) = pdr p /\ nc (blk M p q) = pdc p.
  Proof.
    intros Hq Hb HM. split; [|split; reflexivity]. apply wf_msub. rewrite wf_len by assumption.
    destruct (q4 q Hq) as [-> | [-> | [-> | ->]]]; cbn; lia.
  Qed.

  Lemma range_idx_spec lo hi i d : range_idx lo hi = Some (i, d) ->
    i < 2 /\ aeval E F lo = i * E d /\ aeval E F hi - aeval E F lo = E d.
  Proof.
    unfold range_idx. intros H.
    destruct lo as [n|v|? ?|? ?|? ?|? ?|? ?|? ?|? ?|? ?]; try discriminate.
    - destruct n; [|discriminate]. destruct hi; try discriminate. inversion H; subst. cbn. lia.
    - destruct hi as [?|?|? ?|? ?|? ?|a b|? ?|? ?|? ?|? ?]; try discriminate.
      destruct a as [n|?|? ?|? ?|? ?|? ?|? ?|? ?|? ?|? ?]; try discriminate.
      destruct n as [|[|[|n]]]; try discriminate.
      destruct b; try discriminate.
      destruct (var_beq v v0) eqn:Hv; [|discriminate]. apply var_beq_eq in Hv. subst v0.
      inversion H; subst. cbn. lia.
  Qed.

  Lemma resolve_spec w p i j : resolve k w = Some (p, i, j) ->
    w_par w = p /\ i < 2 /\ j < 2 /\ pdims k p <> None /\
    aeval E F (w_r0 w) = i * pdr p /\ aeval E F (w_r1 w) - aeval E F (w_r0 w) = pdr p /\
    aeval E F (w_c0 w) = j * pdc p /\ aeval E F (w_c1 w) - aeval E F (w_c0 w) = pdc p.
  Proof.
    unfold resolve. intros H.
    destruct (range_idx (w_r0 w) (w_r1 w)) as [[i' dr]|] eqn:Rr; [|discriminate].
    destruct (range_idx (w_c0 w) (w_c1 w)) as [[j' dc]|] eqn:Rc; [|discriminate].
    destruct (pdims k (w_par w)) as [[pr pc]|] eqn:Pd; [|discriminate].
    destruct (var_beq dr pr && var_beq dc pc) eqn:Hv; [|discriminate].
    apply andb_true_iff in Hv as [H1 H2]. apply var_beq_eq in H1, H2. subst pr pc.
    inversion H; subst. clear H.
    apply range_idx_spec in Rr as (? & ? & ?). apply range_idx_spec in Rc as (? & ? & ?).
    unfold pdr, pdc. rewrite Pd. repeat split; auto; congruence.
  Qed.

  (** reading a resolved window from a matrix with the parent's row count *)
  Lemma wread_resolved w p i j C : resolve k w = Some (p, i, j) ->
    nr (psel p A B C) = nr (psel p A B C0) -> 2 * pdr p <= nr (psel p A B C0) ->
    wread E F A B C w = blk (psel p A B C) p (2 * i + j) /\ 2 * i + j < 4 /\
    wcoords E F w = (i * pdr p, j * pdc p, pdr p, pdc p).
  Proof.
    intros R Hn Hb. apply resolve_spec in R as (Hp & Hi & Hj & _ & H0 & H1 & H2 & H3).
    assert (Hw : wcoords E F w = (i * pdr p, j * pdc p, pdr p, pdc p)).
    { unfold wcoords. cbv zeta. rewrite H1, H3, H0, H2. repeat f_equal.
      rewrite Hp. unfold F, fenv_of. destruct p; cbn [psel] in *; destruct i as [|[|]]; lia. }
    unfold wread. rewrite Hw, Hp. unfold blk.
    replace ((2 * i + j) / 2) with i by (destruct i as [|[|]], j as [|[|]]; try lia; reflexivity).
    replace ((2 * i + j) mod 2) with j by (destruct i as [|[|]], j as [|[|]]; try lia; reflexivity).
    repeat split; auto; lia.
  Qed.

  Lemma den_lin_single t i j : t < 8 -> den_lin X (2 ^ N.of_nat t) i j = get (X t) i j.
  Proof.
    intros Ht. unfold den_lin.
    rewrite (xsum_ext 8 _ (fun s => (s =? t) && get (X s) i j)).
    - rewrite xsum_indicator. destruct (Nat.ltb_spec t 8); [reflexivity|lia].
    - intros s _. rewrite tb_pow2, Nat.eqb_sym. reflexivity.
  Qed.

  Lemma rep_X t dr dc : t < 8 -> wf (X t) -> nr (X t) = E dr -> nc (X t) = E dc ->
    is_split dr = true -> is_split dc = true -> rep' (X t) (mksv dr dc (2 ^ N.of_nat t) 0 0).
  Proof.
    intros Ht Hw Hr Hc Sr Sc. refine (conj Hw (conj Hr (conj Hc (conj Sr (conj Sc _))))).
    intros i j. unfold den. cbn [v_lin v_bil v_c0]. unfold den_bil, den_c0.
    rewrite !den_part_0, !xorb_false_r. symmetry. now apply den_lin_single.
  Qed.

  Lemma rep_Q q dr dc : q < 4 -> pdims k PC = Some (dr, dc) -> rep' (Q q) (mksv dr dc 0 0 (2 ^ N.of_nat q)).
  Proof.
    intros Hq Pd. destruct (pdims_split _ _ _ _ Pd) as [Sr Sc].
    destruct (blk_dims C0 PC q Hq (proj1 HbC) wfC0) as (Hw & Hr & Hc).
    refine (conj Hw (conj _ (conj _ (conj Sr (conj Sc _))))).
    - fold (Q q) in Hr. rewrite Hr. unfold pdr. now rewrite Pd.
    - fold (Q q) in Hc. rewrite Hc. unfold pdc. now rewrite Pd.
    - intros i j. unfold den. cbn [v_lin v_bil v_c0]. unfold den_lin, den_bil.
      rewrite !den_part_0. change (xorb false false) with false. rewrite xorb_false_l. unfold den_c0.
      rewrite (xsum_ext 4 _ (fun s => (s =? q) && get (Q s) i j)).
      + rewrite xsum_indicator. destruct (Nat.ltb_spec q 4); [reflexivity|lia].
      + intros s _. rewrite tb_pow2, Nat.eqb_sym. reflexivity.
  Qed.

  Lemma rep_blkA q t dr dc : q < 4 -> t = q -> pdims k PA = Some (dr, dc) ->
    rep' (blk A PA q) (mksv dr dc (2 ^ N.of_nat t) 0 0).
  Proof.
    intros Hq -> Pd. destruct (pdims_split _ _ _ _ Pd) as [Sr Sc].
    destruct (blk_dims A PA q Hq (proj1 HbA) wfA) as (W1 & W2 & W3).
    assert (HX : X q = blk A PA q) by (unfold X; destruct (Nat.ltb_spec q 4); [reflexivity|lia]).
    rewrite <- HX. apply rep_X; rewrite ?HX; auto; try lia.
    - rewrite W2. unfold pdr. now rewrite Pd.
    - rewrite W3. unfold pdc. now rewrite Pd.
  Qed.
  Lemma rep_blkB q t dr dc : q < 4 -> t = 4 + q -> pdims k PB = Some (dr, dc) ->
    rep' (blk B PB q) (mksv dr dc (2 ^ N.of_nat t) 0 0).
  Proof.
    intros Hq -> Pd. destruct (pdims_split _ _ _ _ Pd) as [Sr Sc].
    destruct (blk_dims B PB q Hq (proj1 HbB) wfB) as (W1 & W2 & W3).
    assert (HX : X (4 + q) = blk B PB q).
    { unfold X. destruct (Nat.ltb_spec (4 + q) 4); [lia|]. f_equal. lia. }
    rewrite <- HX. apply rep_X; rewrite ?HX; auto; try lia.
    - rewrite W2. unfold pdr. now rewrite Pd.
    - rewrite W3. unfold pdc. now rewrite Pd.
  Qed.

  Definition srel (st : state) (ss : sstate) : Prop :=
    wf (sC st) /\ nr (sC st) = nr C0 /\ nc (sC st) = nc C0 /\
    (forall q, q < 4 -> rep' (blk (sC st) PC q) (nth q (qC ss) sv0)) /\
    length (qC ss) = 4 /\
    (forall i j, ~ (i < 2 * pdr PC /\ j < 2 * pdc PC) -> get (sC st) i j = get C0 i j) /\
    (forall x, match assoc (sT st) x, assoc (qT ss) x with
               | Some M, Some v => rep' M v | None, None => True | _, _ => False end).

  Lemma srd_sound x st ss v : srel st ss -> srd k wins x ss = Some v ->
    exists M f, rd E F A B wins x st = Ok (M, f) /\ rep' M v /\
      (forall w i j, assoc wins x = Some w -> resolve k w = Some (PC, i, j) ->
                     nr M = pdr PC /\ nc M = pdc PC).
  Proof.
    intros (HwC & HnrC & HncC & Hq & Hlen & Hout & Htmp) H. unfold srd in H. unfold rd.
    destruct (assoc wins x) as [w|] eqn:Aw.
    - destruct (resolve k w) as [[[p i] j]|] eqn:R; [|discriminate].
      pose proof (resolve_spec _ _ _ _ R) as (Hp & Hi & Hj & Hpd & _).
      rewrite Hp in H. destruct (pdims k p) as [[dr dc]|] eqn:Pd; [|now destruct p].
      destruct (pdims_split _ _ _ _ Pd) as [Sr Sc].
      destruct p.
      + inversion H; subst v; clear H.
        destruct (wread_resolved w PA i j (sC st) R eq_refl (proj1 HbA)) as (Hrd & Hlt & _).
        cbn [psel] in Hrd. do 2 eexists. split; [rewrite Hrd; reflexivity|]. split.
        * apply rep_blkA; auto.
        * intros w' i' j' Hw' R'. inversion Hw'; subst w'. rewrite R in R'. discriminate.
      + inversion H; subst v; clear H.
        destruct (wread_resolved w PB i j (sC st) R eq_refl (proj1 HbB)) as (Hrd & Hlt & _).
        cbn [psel] in Hrd. do 2 eexists. split; [rewrite Hrd; reflexivity|]. split.
        * apply rep_blkB; auto; lia.
        * intros w' i' j' Hw' R'. inversion Hw'; subst w'. rewrite R in R'. discriminate.
      + inversion H; subst v; clear H.
        assert (Hn : nr (psel PC A B (sC st)) = nr (psel PC A B C0)) by exact HnrC.
        destruct (wread_resolved w PC i j (sC st) R Hn (proj1 HbC)) as (Hrd & Hlt & _).
        cbn [psel] in Hrd. do 2 eexists. split; [rewrite Hrd; reflexivity|]. split.
        * apply Hq. exact Hlt.
        * intros w' i' j' Hw' R'. split; reflexivity.
    - specialize (Htmp x). rewrite H in Htmp.
      destruct (assoc (sT st) x) as [M|]; [|contradiction].
      do 2 eexists. split; [reflexivity|]. split; [exact Htmp|]. intros w i j Hw. discriminate.
  Qed.

  Lemma swr_sound x v M st ss ss' : srel st ss -> rep' M v -> swr k wins x v ss = Some ss' ->
    (forall w i j, assoc wins x = Some w -> resolve k w = Some (PC, i, j) ->
                   nr M = pdr PC /\ nc M = pdc PC) ->
    exists st', wr E F wins x M st = Ok st' /\ srel st' ss'.
  Proof.
    intros (HwC & HnrC & HncC & Hq & Hlen & Hout & Htmp) HM H Hdim. unfold swr in H. unfold wr.
    destruct (assoc wins x) as [w|] eqn:Aw.
    - destruct (resolve k w) as [[[[] i] j]|] eqn:R; try discriminate.
      inversion H; subst ss'; clear H.
      destruct (Hdim w i j eq_refl R) as [Hr Hc].
      assert (Hn : nr (psel PC A B (sC st)) = nr (psel PC A B C0)) by exact HnrC.
      destruct (wread_resolved w PC i j (sC st) R Hn (proj1 HbC)) as (_ & Hlt & Hco).
      pose proof (resolve_spec _ _ _ _ R) as (Hp & Hi & Hj & _).
      rewrite Hp, Hco. eexists. split; [reflexivity|].
      pose proof HM as (HwM & _).
      assert (Hrow : i * pdr PC + nr M <= length (rows (sC st))).
      { rewrite wf_len by assumption. destruct i as [|[|]]; lia. }
      unfold srel. cbn [sC sT qC qT]. change (i + (i + 0) + j) with (2 * i + j).
      refine (conj _ (conj _ (conj _ (conj _ (conj _ (conj _ _)))))).
      + apply wf_mpaste; auto. destruct j as [|[|]]; lia.
      + exact HnrC.
      + exact HncC.
      + intros q Hq4. rewrite nth_upd, Hlen.
        destruct (Nat.eqb_spec q (2 * i + j)) as [->|Hne]; cbn [andb].
        * destruct (Nat.ltb_spec (2 * i + j) 4); [|lia]. unfold blk.
          replace ((2 * i + j) / 2) with i by (destruct i as [|[|]], j as [|[|]]; try lia; reflexivity).
          replace ((2 * i + j) mod 2) with j by (destruct i as [|[|]], j as [|[|]]; try lia; reflexivity).
          rewrite <- Hr, <- Hc. rewrite msub_mpaste; [exact HM|exact HwM|rewrite Hr in *; exact Hrow].
        * unfold blk. rewrite msub_mpaste_other; auto.
          -- apply Hq. exact Hq4.
          -- rewrite wf_len by assumption. destruct (q4 q Hq4) as [-> | [-> | [-> | ->]]]; cbn; lia.
          -- rewrite Hr, Hc.
             destruct (q4 q Hq4) as [-> | [-> | [-> | ->]]]; destruct i as [|[|]], j as [|[|]]; cbn; lia.
      + rewrite upd_length. exact Hlen.
      + intros i' j' Hij. rewrite mpaste_outside; [apply Hout; exact Hij|exact HwM|exact Hrow|].
        rewrite Hr, Hc. destruct i as [|[|]], j as [|[|]]; lia.
      + exact Htmp.
    - destruct (assoc (qT ss) x) as [v0|] eqn:Aq; [|discriminate].
      inversion H; subst ss'; clear H.
      pose proof (Htmp x) as Hx. rewrite Aq in Hx.
      destruct (assoc (sT st) x) as [M0|] eqn:As; [|contradiction].
      eexists. split; [reflexivity|]. unfold srel. cbn [sC sT qC qT].
      refine (conj HwC (conj HnrC (conj HncC (conj Hq (conj Hlen (conj Hout _)))))).
      intros y. rewrite !assoc_tset. destruct (String.eqb y x); [exact HM|apply Htmp].
  Qed.

  Lemma sbin_core kk c w d vd vx vy Md Mx My st ss ss' :
    srel st ss -> rep' Md vd -> rep' Mx vx -> rep' My vy ->
    (forall w i j, assoc wins d = Some w -> resolve k w = Some (PC, i, j) ->
                   nr Md = pdr PC /\ nc Md = pdc PC) ->
    sv_lin vx && sv_lin vy && var_beq (v_c vx) (v_r vy)
       && var_beq (v_r vd) (v_r vx) && var_beq (v_c vd) (v_c vy) = true ->
    swr k wins d (if k_acc kk then sv_xor vd (sv_prod vx vy) else sv_prod vx vy) ss = Some ss' ->
    (k_sqr kk = true -> My = Mx) ->
    (c = cutoff \/ c = norm_cutoff dflt cutoff) ->
    mul_dims Md Mx My = true /\
    exists st', (r <- rec kk w c Md Mx My ;; wr E F wins d r st) = Ok st' /\ srel st' ss'.
  Proof.
    intros Hs Rd Rx Ry Hdim Hc Hw Hsq Hcut.
    rewrite !andb_true_iff in Hc. destruct Hc as [[[[Lx Ly] H1] H2] H3].
    pose proof H1 as H1'. apply var_beq_eq in H1, H2, H3.
    pose proof Rd as (Wd & Dr & Dc & Sdr & Sdc & _).
    pose proof Rx as (Wx & Xr & Xc & Sxr & Sxc & _).
    pose proof Ry as (Wy & Yr & Yc & Syr & Syc & _).
    assert (E1 : nc Mx = nr My) by congruence.
    assert (E2 : nr Md = nr Mx) by congruence.
    assert (E3 : nc Md = nc My) by congruence.
    split.
    { unfold mul_dims. rewrite E1, E2, E3, !Nat.eqb_refl. reflexivity. }
    rewrite (rec_ok kk w c Md Mx My); auto.
    2:{ exists (v_r vx), (v_c vx), (v_c vy). auto 10. }
    cbn [bind].
    assert (Rp : rep' (mmul Mx My) (sv_prod vx vy)) by (apply rep_prod; auto).
    unfold acc_spec. destruct (k_acc kk).
    - eapply swr_sound; [exact Hs| |exact Hw|].
      + apply rep_xor; auto. unfold sv_same, sv_prod. cbn [v_r v_c].
        rewrite H2, H3, !var_beq_refl. reflexivity.
      + intros w0 i j Aw R. cbn [nr nc madd]. eapply Hdim; eauto.
    - eapply swr_sound; [exact Hs|exact Rp|exact Hw|].
      intros w0 i j Aw R. cbn [nr nc mmul]. rewrite <- E2, <- E3. eapply Hdim; eauto.
  Qed.

  Lemma sbin_sound kk d x y st ss ss' : srel st ss -> k_sqr kk = false ->
    sbin k wins (k_acc kk) d x y ss = Some ss' ->
    exists st', binop rec cutoff E F A B wins kk d x y st = Ok st' /\ srel st' ss'.
  Proof.
    intros Hs Hk H. unfold sbin in H. unfold binop.
    destruct (String.eqb d x || String.eqb d y); [discriminate|].
    destruct (srd k wins d ss) as [vd|] eqn:Sd; [|discriminate].
    destruct (srd k wins x ss) as [vx|] eqn:Sx; [|discriminate].
    destruct (srd k wins y ss) as [vy|] eqn:Sy; [|discriminate].
    destruct (srd_sound d st ss vd Hs Sd) as (Md & fd & Rd & Hd & Hdim).
    destruct (srd_sound x st ss vx Hs Sx) as (Mx & fx & Rx & Hx & _).
    destruct (srd_sound y st ss vy Hs Sy) as (My & fy & Ry & Hy & _).
    rewrite Rd, Rx, Ry. cbn [bind].
    match type of H with (if ?c then _ else _) = _ => destruct c eqn:Hc; [|discriminate] end.
    destruct (sbin_core kk cutoff (fd || fx || fy) d vd vx vy Md Mx My st ss ss' Hs Hd Hx Hy Hdim Hc H)
      as (Hm & st' & Hr & Hs'); [congruence|auto|].
    rewrite Hm. eauto.
  Qed.

  Lemma sun_sound kk d x st ss ss' : srel st ss -> k_sqr kk = true ->
    sbin k wins (k_acc kk) d x x ss = Some ss' ->
    exists st', unop rec cutoff E F A B wins kk d x st = Ok st' /\ srel st' ss'.
  Proof.
    intros Hs Hk H. unfold sbin in H. unfold unop.
    rewrite orb_diag in H.
    destruct (String.eqb d x); [discriminate|].
    destruct (srd k wins d ss) as [vd|] eqn:Sd; [|discriminate].
    destruct (srd k wins x ss) as [vx|] eqn:Sx; [|discriminate].
    destruct (srd_sound d st ss vd Hs Sd) as (Md & fd & Rd & Hd & Hdim).
    destruct (srd_sound x st ss vx Hs Sx) as (Mx & fx & Rx & Hx & _).
    rewrite Rd, Rx. cbn [bind].
    match type of H with (if ?c then _ else _) = _ => destruct c eqn:Hc; [|discriminate] end.
    destruct (sbin_core kk cutoff (fd || fx) d vd vx vx Md Mx Mx st ss ss' Hs Hd Hx Hx Hdim Hc H)
      as (Hm & st' & Hr & Hs'); [auto|auto|].
    rewrite Hm. eauto.
  Qed.

  Lemma sstep_sound i st ss ss' : srel st ss -> sstep k wins i ss = Some ss' ->
    exists st', step dflt rec cutoff E F A B wins i st = Ok st' /\ srel st' ss'.
  Proof.
    intros Hs H. destruct i as [d x y|d x y|d x y|d x|d x|d x y|t]; cbn [sstep step] in *.
    - (* Add *)
      destruct (srd k wins d ss) as [vd|] eqn:Sd; [|discriminate].
      destruct (srd k wins x ss) as [vx|] eqn:Sx; [|discriminate].
      destruct (srd k wins y ss) as [vy|] eqn:Sy; [|discriminate].
      destruct (srd_sound d st ss vd Hs Sd) as (Md & fd & Rd & Hd & Hdim).
      destruct (srd_sound x st ss vx Hs Sx) as (Mx & fx & Rx & Hx & _).
      destruct (srd_sound y st ss vy Hs Sy) as (My & fy & Ry & Hy & _).
      rewrite Rd, Rx, Ry. cbn [bind fst].
      destruct (sv_same vd vx && sv_same vd vy) eqn:Hc; [|discriminate].
      apply andb_true_iff in Hc as [S1 S2].
      pose proof S1 as S1'. pose proof S2 as S2'.
      unfold sv_same in S1', S2'. apply andb_true_iff in S1' as [a1 a2], S2' as [b1 b2].
      apply var_beq_eq in a1, a2, b1, b2.
      pose proof Hd as (Wd & Dr & Dc & _). pose proof Hx as (Wx & Xr & Xc & _).
      pose proof Hy as (Wy & Yr & Yc & _).
      assert (Hsd : same_dims Md Mx && same_dims Md My = true).
      { unfold same_dims. rewrite !andb_true_iff, !Nat.eqb_eq. repeat split; congruence. }
      rewrite Hsd. eapply swr_sound; [exact Hs| |exact H|].
      + apply rep_xor; auto. unfold sv_same. rewrite <- a1, <- a2, b1, b2, !var_beq_refl. reflexivity.
      + intros w i j Aw R. cbn [nr nc madd]. destruct (Hdim w i j Aw R). split; congruence.
    - eapply (sbin_sound Kmul); eauto.
    - eapply (sbin_sound Kaddmul); eauto.
    - eapply (sun_sound Ksqr); eauto.
    - eapply (sun_sound Kaddsqr); eauto.
    - (* MulNew *)
      destruct (assoc wins d) as [w|] eqn:Aw; [discriminate|].
      destruct (assoc (qT ss) d) as [v0|] eqn:Aq; [discriminate|].
      destruct (srd k wins x ss) as [vx|] eqn:Sx; [|discriminate].
      destruct (srd k wins y ss) as [vy|] eqn:Sy; [|discriminate].
      destruct (srd_sound x st ss vx Hs Sx) as (Mx & fx & Rx & Hx & _).
      destruct (srd_sound y st ss vy Hs Sy) as (My & fy & Ry & Hy & _).
      rewrite Rx, Ry. cbn [bind].
      match type of H with (if ?c then _ else _) = _ => destruct c eqn:Hc; [|discriminate] end.
      inversion H; subst ss'; clear H.
      rewrite !andb_true_iff in Hc. destruct Hc as [[Lx Ly] H1].
      pose proof H1 as H1'. apply var_beq_eq in H1.
      pose proof Hx as (Wx & Xr & Xc & Sxr & Sxc & _). pose proof Hy as (Wy & Yr & Yc & Syr & Syc & _).
      assert (E1 : nc Mx = nr My) by congruence.
      rewrite E1, Nat.eqb_refl. cbn [negb].
      rewrite (rec_ok Kmul (fx || fy) (norm_cutoff dflt cutoff) (mzero (nr Mx) (nc My)) Mx My);
        auto using wf_mzero; try discriminate.
      2:{ exists (v_r vx), (v_c vx), (v_c vy). auto 10. }
      cbn [bind]. eexists. split; [reflexivity|].
      destruct Hs as (HwC & HnrC & HncC & Hq & Hlen & Hout & Htmp).
      unfold srel. cbn [sC sT qC qT].
      refine (conj HwC (conj HnrC (conj HncC (conj Hq (conj Hlen (conj Hout _)))))).
      intros z. rewrite !assoc_tset. destruct (String.eqb z d); [|apply Htmp].
      unfold acc_spec. cbn [k_acc]. apply rep_prod; auto.
    - (* Free *)
      destruct (assoc (qT ss) t) as [v0|] eqn:Aq; [|discriminate].
      inversion H; subst ss'; clear H.
      pose proof Hs as (HwC & HnrC & HncC & Hq & Hlen & Hout & Htmp).
      pose proof (Htmp t) as Ht. rewrite Aq in Ht.
      destruct (assoc (sT st) t) as [M0|] eqn:As; [|contradiction].
      eexists. split; [reflexivity|]. unfold srel. cbn [sC sT qC qT].
      refine (conj HwC (conj HnrC (conj HncC (conj Hq (conj Hlen (conj Hout _)))))).
      intros z. rewrite !assoc_tdel. destruct (String.eqb z t); [exact I|apply Htmp].
  Qed.

  Lemma srun_sound l st ss ss' : srel st ss -> srun k wins l ss = Some ss' ->
    exists st', run_body dflt rec cutoff E F A B wins l st = Ok st' /\ srel st' ss'.
  Proof.
    revert st ss. induction l as [|i l IH]; intros st ss Hs H; cbn [srun run_body] in *.
    - inversion H; subst. eauto.
    - destruct (sstep k wins i ss) as [ss1|] eqn:S1; [|discriminate].
      destruct (sstep_sound i st ss ss1 Hs S1) as (st1 & R1 & Hs1).
      rewrite R1. cbn [bind]. eapply IH; eauto.
  Qed.

  (** ** initial state *)
  Definition init_tmps (tmps : list (string * (aexp * aexp))) : list (string * mat) :=
    map (fun p => (fst p, mzero (aeval E F (fst (snd p))) (aeval E F (snd (snd p))))) tmps.

  Lemma split_var_spec a v : split_var a = Some v -> a = AVar v.
  Proof.
    destruct a as [?|w|? ?|? ?|? ?|? ?|? ?|? ?|? ?|? ?]; try discriminate. destruct w; try discriminate;
      cbn; intros H; inversion H; auto.
  Qed.

  Lemma rep_zero r c : is_split r = true -> is_split c = true ->
    rep' (mzero (E r) (E c)) (mksv r c 0 0 0).
  Proof.
    intros Sr Sc. refine (conj (wf_mzero _ _) (conj eq_refl (conj eq_refl (conj Sr (conj Sc _))))).
    intros i j. rewrite get_mzero. unfold den, den_lin, den_bil, den_c0. cbn [v_lin v_bil v_c0].
    now rewrite !den_part_0.
  Qed.

  Lemma pdims_PC : pdims k PC = Some (Vmmm, if k_sqr k then Vmmm else Vnnn).
  Proof. destruct k; reflexivity. Qed.

  Lemma init_srel tmps ss0 : init_sstate k tmps = Some ss0 -> srel (mkst C0 (init_tmps tmps)) ss0.
  Proof.
    unfold init_sstate. intros H.
    match type of H with (if ?c then _ else _) = _ => destruct c eqn:Hall; [|discriminate] end.
    inversion H; subst ss0; clear H. unfold srel. cbn [sC sT qC qT].
    refine (conj wfC0 (conj eq_refl (conj eq_refl (conj _ (conj eq_refl (conj _ _)))))).
    - intros q Hq. fold (Q q).
      destruct (q4 q Hq) as [-> | [-> | [-> | ->]]]; cbn [map seq nth]; (apply rep_Q; [lia|apply pdims_PC]).
    - intros; reflexivity.
    - intros x. induction tmps as [|[y [a b]] l IH]; [exact I|].
      cbn [map forallb fst snd] in Hall.
      destruct (split_var a) as [r|] eqn:Sa; [|discriminate].
      destruct (split_var b) as [c|] eqn:Sb; [|discriminate].
      destruct (dim_ok k r && dim_ok k c) eqn:Hok; [|discriminate].
      apply andb_true_iff in Hok as [Sr Sc].
      cbn [init_tmps map flat_map fst snd assoc app]. rewrite Sa, Sb, Sr, Sc. cbn [app assoc andb].
      destruct (String.eqb x y).
      + apply split_var_spec in Sa as ->, Sb as ->. cbn [aeval]. now apply rep_zero.
      + apply IH. exact Hall.
  Qed.

  (** ** what the final symbolic state says *)
  Lemma sval_beq_eq a b : sval_beq a b = true -> a = b.
  Proof.
    unfold sval_beq. rewrite !andb_true_iff. intros [[[[H1 H2] H3] H4] H5].
    apply var_beq_eq in H1, H2. apply N.eqb_eq in H3, H4, H5.
    destruct a, b; cbn in *; congruence.
  Qed.

  Definition Bm : mat := if k_sqr k then A else B.
  Let mr := pdr PC.
  Let ncd := pdc PC.
  Let kd := pdc PA.

  Lemma dims_rel : pdr PA = mr /\ (if k_sqr k then pdr PA = kd /\ pdc PA = ncd else pdr PB = kd /\ pdc PB = ncd).
  Proof. unfold mr, ncd, kd, pdr, pdc. destruct k; cbn; auto. Qed.

  Lemma bound_Bm : 2 * kd <= nr Bm /\ 2 * ncd <= nc Bm.
  Proof.
    pose proof dims_rel as [H1 H2]. unfold Bm. destruct (k_sqr k); destruct H2 as [H2 H3]; lia.
  Qed.
  Lemma wf_Bm : wf Bm. Proof. unfold Bm. destruct (k_sqr k); auto. Qed.

  Lemma X_left i l : i < 2 -> l < 2 -> X (2 * i + l) = msub A (i * mr) (l * kd) mr kd.
  Proof.
    intros Hi Hl. unfold X. destruct (Nat.ltb_spec (2 * i + l) 4); [|lia]. unfold blk.
    replace ((2 * i + l) / 2) with i by (destruct i as [|[|]], l as [|[|]]; try lia; reflexivity).
    replace ((2 * i + l) mod 2) with l by (destruct i as [|[|]], l as [|[|]]; try lia; reflexivity).
    destruct dims_rel as [-> _]. reflexivity.
  Qed.
  Lemma X_right l j : l < 2 -> j < 2 -> X (bidx k l j) = msub Bm (l * kd) (j * ncd) kd ncd.
  Proof.
    intros Hl Hj. pose proof dims_rel as [H1 H2]. unfold bidx, Bm, X. destruct (k_sqr k).
    - destruct (Nat.ltb_spec (2 * l + j) 4); [|lia]. unfold blk.
      replace ((2 * l + j) / 2) with l by (destruct l as [|[|]], j as [|[|]]; try lia; reflexivity).
      replace ((2 * l + j) mod 2) with j by (destruct l as [|[|]], j as [|[|]]; try lia; reflexivity).
      destruct H2 as [-> ->]. reflexivity.
    - destruct (Nat.ltb_spec (4 + 2 * l + j) 4); [lia|]. unfold blk.
      replace (4 + 2 * l + j - 4) with (2 * l + j) by lia.
      replace ((2 * l + j) / 2) with l by (destruct l as [|[|]], j as [|[|]]; try lia; reflexivity).
      replace ((2 * l + j) mod 2) with j by (destruct l as [|[|]], j as [|[|]]; try lia; reflexivity).
      destruct H2 as [-> ->]. reflexivity.
  Qed.

  Lemma gmul_blocks i l j i' j' : i < 2 -> l < 2 -> j < 2 -> i' < mr -> j' < ncd ->
    gmul D (get (X (2 * i + l))) (get (X (bidx k l j))) i' j' =
    xsum kd (fun t => get A (i * mr + i') (l * kd + t) && get Bm (l * kd + t) (j * ncd + j')).
  Proof.
    intros Hi Hl Hj Hi' Hj'. rewrite X_left, X_right by assumption. unfold gmul.
    pose proof bound_Bm as [Hb1 Hb2]. pose proof dims_rel as [Hd1 _].
    assert (kd <= D).
    { unfold kd, pdc. destruct (pdims k PA) as [[a b]|] eqn:Pd; [|lia].
      apply HD. eapply pdims_split; eauto. }
    rewrite (xsum_extend kd D); [|assumption|].
    - apply xsum_ext. intros t Ht.
      rewrite !get_msub by (rewrite wf_len; auto using wf_Bm; destruct i as [|[|]], l as [|[|]]; lia).
      destruct (Nat.ltb_spec i' mr), (Nat.ltb_spec t kd), (Nat.ltb_spec j' ncd); try lia. reflexivity.
    - intros t Ht.
      rewrite get_msub by (rewrite wf_len; auto; destruct i as [|[|]]; lia).
      destruct (Nat.ltb_spec t kd); [lia|]. now rewrite andb_false_r.
  Qed.

  Lemma den_expected q i' j' : q < 4 -> i' < mr -> j' < ncd ->
    den D X Q (expected k q) i' j' =
    xorb (k_acc k && get C0 ((q / 2) * mr + i') ((q mod 2) * ncd + j'))
         (xsum (2 * kd) (fun t => get A ((q / 2) * mr + i') t && get Bm t ((q mod 2) * ncd + j'))).
  Proof.
    intros Hq Hi' Hj'.
    assert (Hi : q / 2 < 2) by (destruct (q4 q Hq) as [-> | [-> | [-> | ->]]]; cbn; lia).
    assert (Hj : q mod 2 < 2) by (apply Nat.mod_upper_bound; lia).
    set (i := q / 2) in *. set (j := q mod 2) in *.
    assert (Hb0 : bidx k 0 j < 8) by (unfold bidx; destruct (k_sqr k); lia).
    assert (Hb1 : bidx k 1 j < 8) by (unfold bidx; destruct (k_sqr k); lia).
    unfold den, expected. fold i j. cbn [v_lin v_bil v_c0]. unfold den_lin.
    rewrite den_part_0, xorb_false_l. rewrite xorb_comm. f_equal.
    - (* initial content *)
      unfold den_c0. destruct (k_acc k); cbn [andb].
      + rewrite (xsum_ext 4 _ (fun s => (s =? q) && get (Q s) i' j')).
        * rewrite xsum_indicator. destruct (Nat.ltb_spec q 4); [|lia]. cbn [andb].
          unfold Q, blk. rewrite get_msub.
          -- fold mr ncd i j. destruct (Nat.ltb_spec i' mr), (Nat.ltb_spec j' ncd); try lia. reflexivity.
          -- rewrite wf_len by assumption. fold mr i. destruct HbC as [HbC1 _]. fold mr in HbC1. destruct i as [|[|]]; lia.
        * intros s _. rewrite tb_pow2, Nat.eqb_sym. reflexivity.
      + apply den_part_0.
    - (* the two products *)
      unfold den_bil.
      set (s0 := 8 * (2 * i + 0) + bidx k 0 j). set (s1 := 8 * (2 * i + 1) + bidx k 1 j).
      rewrite (xsum_ext 64 _ (fun s => xorb ((s =? s0) && gmul D (get (X (s / 8))) (get (X (s mod 8))) i' j')
                                            ((s =? s1) && gmul D (get (X (s / 8))) (get (X (s mod 8))) i' j'))).
      2:{ intros s _. unfold tb. rewrite N.lor_spec. fold (tb (2 ^ N.of_nat s0) s) (tb (2 ^ N.of_nat s1) s).
          rewrite !tb_pow2, (Nat.eqb_sym s0), (Nat.eqb_sym s1).
          destruct (Nat.eqb_spec s s0), (Nat.eqb_spec s s1);
            try (destruct (gmul D (get (X (s / 8))) (get (X (s mod 8))) i' j'); reflexivity).
          exfalso. unfold s0, s1 in *. lia. }
      rewrite xsum_xor, !xsum_indicator.
      assert (L0 : s0 < 64) by (unfold s0; lia). assert (L1 : s1 < 64) by (unfold s1; lia).
      destruct (Nat.ltb_spec s0 64), (Nat.ltb_spec s1 64); try lia. cbn [andb].
      replace (s0 / 8) with (2 * i + 0) by (unfold s0; lia).
      replace (s0 mod 8) with (bidx k 0 j) by (unfold s0; lia).
      replace (s1 / 8) with (2 * i + 1) by (unfold s1; lia).
      replace (s1 mod 8) with (bidx k 1 j) by (unfold s1; lia).
      rewrite !gmul_blocks by (auto; lia).
      replace (2 * kd) with (kd + kd) by lia. rewrite xsum_app. f_equal.
      apply xsum_ext. intros t _. now rewrite Nat.mul_1_l.
  Qed.

  Theorem check_body_sound tmps body : check_body k wins tmps body = true ->
    exists st1, run_body dflt rec cutoff E F A B wins body (mkst C0 (init_tmps tmps)) = Ok st1 /\
      wf (sC st1) /\ nr (sC st1) = nr C0 /\ nc (sC st1) = nc C0 /\
      (forall i j, ~ (i < 2 * mr /\ j < 2 * ncd) -> get (sC st1) i j = get C0 i j) /\
      (forall i j, i < 2 * mr -> j < 2 * ncd ->
         get (sC st1) i j = xorb (k_acc k && get C0 i j)
                                 (xsum (2 * kd) (fun t => get A i t && get Bm t j))).
  Proof.
    unfold check_body. intros H. apply andb_true_iff in H as [_ H].
    destruct (init_sstate k tmps) as [ss0|] eqn:I0; [|discriminate].
    destruct (srun k wins body ss0) as [ss1|] eqn:R1; [|discriminate].
    destruct (srun_sound body _ ss0 ss1 (init_srel tmps ss0 I0) R1) as (st1 & Hr & Hs).
    exists st1. split; [exact Hr|].
    destruct Hs as (HwC & HnrC & HncC & Hq & Hlen & Hout & _).
    refine (conj HwC (conj HnrC (conj HncC (conj Hout _)))).
    rewrite forallb_forall in H.
    intros i j Hi Hj.
    set (qi := if i <? mr then 0 else 1). set (qj := if j <? ncd then 0 else 1).
    set (i' := if i <? mr then i else i - mr). set (j' := if j <? ncd then j else j - ncd).
    assert (Hq4 : 2 * qi + qj < 4) by (unfold qi, qj; destruct (i <? mr), (j <? ncd); lia).
    assert (Hqi : (2 * qi + qj) / 2 = qi) by (unfold qi, qj; destruct (i <? mr), (j <? ncd); reflexivity).
    assert (Hqj : (2 * qi + qj) mod 2 = qj) by (unfold qi, qj; destruct (i <? mr), (j <? ncd); reflexivity).
    assert (Hi' : i' < mr /\ qi * mr + i' = i).
    { unfold i', qi. destruct (Nat.ltb_spec i mr); lia. }
    assert (Hj' : j' < ncd /\ qj * ncd + j' = j).
    { unfold j', qj. destruct (Nat.ltb_spec j ncd); lia. }
    destruct Hi' as [Hi' Ei], Hj' as [Hj' Ej].
    pose proof (Hq _ Hq4) as (_ & _ & _ & _ & _ & Hg).
    specialize (Hg i' j'). unfold blk in Hg. fold mr ncd in Hg. rewrite Hqi, Hqj in Hg.
    rewrite get_msub in Hg.
    2:{ rewrite wf_len by assumption. rewrite HnrC. destruct HbC as [HbC1 _]. fold mr in HbC1.
        unfold qi. destruct (i <? mr); lia. }
    destruct (Nat.ltb_spec i' mr), (Nat.ltb_spec j' ncd); try lia. cbn [andb] in Hg.
    rewrite Ei, Ej in Hg. rewrite Hg.
    assert (Hv : nth (2 * qi + qj) (qC ss1) sv0 = expected k (2 * qi + qj)).
    { apply sval_beq_eq. apply H. apply in_seq. lia. }
    rewrite Hv, den_expected by assumption. rewrite Hqi, Hqj, Ei, Ej. reflexivity.
  Qed.
End Sim.

(* ------------------------------------------------------------------------------------------ *)
(** * The integer skeleton: closer(), the mult-doubling loop, the split points *)
Definition closer (a cutoff : nat) : bool := (3 * a <? 4 * cutoff) || (a <? 2 * 64).
Definition split_pt (x mult : nat) : nat := (x - x mod mult) / 64 / 2 ^ 1 * 64.

Lemma split_pt_le x mult : 2 * split_pt x mult <= x.
Proof. unfold split_pt. change (2 ^ 1) with 2. lia. Qed.

Lemma split_pt_pos x mult : 64 <= mult -> (mult = 64 \/ 128 <= mult) -> mult <= x -> 128 <= x ->
  64 <= split_pt x mult.
Proof.
  intros H64 Hm Hx H128. unfold split_pt. change (2 ^ 1) with 2.
  assert (Hy : 128 <= x - x mod mult).
  { destruct Hm as [->|Hm]; [lia|].
    assert (mult <= x - x mod mult); [|lia].
    pose proof (Nat.div_mod x mult ltac:(lia)) as Hd.
    assert (0 < x / mult) by (apply Nat.div_str_pos; lia).
    replace (x - x mod mult) with (mult * (x / mult)) by lia.
    rewrite <- (Nat.mul_1_r mult) at 1. apply Nat.mul_le_mono_l. lia. }
  lia.
Qed.

Section Loop.
  Variable F : fenv.
  Variables cutoff w0 : nat.
  Hypothesis Hcut : 63 <= cutoff.

  Definition loop_inv (E : env) : Prop :=
    E Vcutoff = cutoff /\ 64 <= E Vmult /\ (E Vmult = 64 \/ 128 <= E Vmult) /\
    E Vmult * E Vwidth <= 64 * w0 /\ (E Vmult = 64 \/ E Vmult <= 2 * w0).

  Lemma loop_spec fuel : forall E, loop_inv E -> E Vwidth < 2 ^ fuel ->
    exists E2, loop_run (S fuel) E F (fst canon_loop) (snd canon_loop) = Some E2 /\
      (forall v, v <> Vwidth -> v <> Vmult -> E2 v = E v) /\ loop_inv E2.
  Proof.
    induction fuel as [|fuel IH]; intros E Hinv Hw.
    - cbn [loop_run canon_loop fst snd beval aeval]. cbn in Hw.
      destruct (Nat.ltb_spec (E Vcutoff) (E Vwidth)); [lia|]. eauto.
    - cbn [loop_run canon_loop fst snd beval aeval].
      destruct (Nat.ltb_spec (E Vcutoff) (E Vwidth)) as [Hgt|Hle]; [|eauto].
      set (E' := assigns E F [(Vwidth, ADiv (AVar Vwidth) (ANum 2)); (Vmult, AMul (AVar Vmult) (ANum 2))]).
      assert (Hw' : E' Vwidth = E Vwidth / 2) by reflexivity.
      assert (Hm' : E' Vmult = E Vmult * 2) by reflexivity.
      assert (Ho : forall v, v <> Vwidth -> v <> Vmult -> E' v = E v).
      { intros v H1 H2. unfold E'. cbn [assigns aeval]. unfold eupd.
        destruct (var_beq v Vmult) eqn:B1; [apply var_beq_eq in B1; contradiction|].
        destruct (var_beq v Vwidth) eqn:B2; [apply var_beq_eq in B2; contradiction|]. reflexivity. }
      destruct Hinv as (Hc & H64 & Hm & Hp & Hb).
      destruct (IH E') as (E2 & Hr & Ho2 & Hinv2).
      + unfold loop_inv. rewrite Hw', Hm', (Ho Vcutoff) by discriminate.
        assert (Hq : 2 * (E Vwidth / 2) <= E Vwidth) by lia.
        assert (H64w : 64 <= E Vwidth) by lia.
        clear Hw' Hm' IH Ho E'.
        remember (E Vwidth / 2) as q eqn:Eq1. remember (E Vwidth) as wd eqn:Eq2.
        remember (E Vmult) as mu eqn:Eq3. clear Eq1 Eq2 Eq3.
        repeat split; try lia; try nia.
      + rewrite Hw'. cbn [Nat.pow] in Hw. lia.
      + exists E2. split; [exact Hr|]. split; [|exact Hinv2].
        intros v H1 H2. rewrite Ho2, Ho by assumption. reflexivity.
  Qed.
End Loop.

(* ------------------------------------------------------------------------------------------ *)
(** * The remainder strips *)
Definition base_correct (base : mat -> mat -> mat -> bool -> res mat) : Prop :=
  forall C A B clr, wf C -> wf A -> wf B -> nc A = nr B -> nr C = nr A -> nc C = nc B ->
    0 < nr A -> 0 < nc A -> 0 < nc B ->
    base C A B clr = Ok (if clr then mmul A B else madd C (mmul A B)).

Definition sop_acc (op : sop) : bool := match op with SAddW => true | _ => false end.

Section Strips.
  Variable base : mat -> mat -> mat -> bool -> res mat.
  Hypothesis base_ok : base_correct base.

  Definition sop_run (op : sop) (vd vx vy : mat) : res mat :=
    match op with
    | SClear => base vd vx vy true
    | SMulW => mul_m4rm base vd vx vy
    | SAddW => addmul_m4rm base vd vx vy
    end.
  Definition dostrip (op : sop) (C : mat) (r0 c0 r c : nat) (VX VY : mat) : res mat :=
    v <- sop_run op (msub C r0 c0 r c) VX VY ;; Ok (mpaste C r0 c0 v).

  Lemma sop_run_ok op vd vx vy : wf vd -> wf vx -> wf vy -> nc vx = nr vy -> nr vd = nr vx ->
    nc vd = nc vy -> 0 < nr vx -> 0 < nc vx -> 0 < nc vy ->
    sop_run op vd vx vy = Ok (if sop_acc op then madd vd (mmul vx vy) else mmul vx vy).
  Proof.
    intros. destruct op; cbn [sop_run sop_acc].
    - now rewrite base_ok.
    - unfold mul_m4rm.
      destruct (Nat.eqb_spec (nc vx) (nr vy)); [|contradiction]. cbn [negb].
      destruct (Nat.eqb_spec (nr vd) (nr vx)); [|contradiction].
      destruct (Nat.eqb_spec (nc vd) (nc vy)); [|contradiction]. cbn [andb negb].
      now rewrite base_ok.
    - unfold addmul_m4rm.
      destruct (Nat.eqb_spec (nc vd) 0); [lia|]. destruct (Nat.eqb_spec (nr vd) 0); [lia|]. cbn [orb].
      destruct (Nat.eqb_spec (nc vx) (nr vy)); [|contradiction]. cbn [negb].
      destruct (Nat.eqb_spec (nr vd) (nr vx)); [|contradiction].
      destruct (Nat.eqb_spec (nc vd) (nc vy)); [|contradiction]. cbn [andb negb].
      now rewrite base_ok.
  Qed.

  Definition inrect (r0 c0 r c i j : nat) : bool :=
    (r0 <=? i) && (i <? r0 + r) && (c0 <=? j) && (j <? c0 + c).

  (** an optional strip product: get-level description of the result *)
  Lemma opt_strip (g : bool) op C r0 c0 r c VX VY kk : wf C -> wf VX -> wf VY ->
    r0 + r <= nr C -> c0 + c <= nc C -> nr VX = r -> nc VX = kk -> nr VY = kk -> nc VY = c ->
    (g = true -> 0 < r /\ 0 < c /\ 0 < kk) ->
    exists C', (if g then dostrip op C r0 c0 r c VX VY else Ok C) = Ok C' /\
      wf C' /\ nr C' = nr C /\ nc C' = nc C /\
      forall i j, get C' i j =
        if g && inrect r0 c0 r c i j
        then xorb (sop_acc op && get C i j) (xsum kk (fun t => get VX (i - r0) t && get VY t (j - c0)))
        else get C i j.
  Proof.
    intros HC HX HY Hr Hc E1 E2 E3 E4 Hpos. destruct g; [|exists C; auto].
    destruct (Hpos eq_refl) as (P1 & P2 & P3).
    assert (HS : wf (msub C r0 c0 r c)) by (apply wf_msub; rewrite wf_len; auto).
    unfold dostrip. rewrite sop_run_ok; auto; try (cbn [nr nc msub]; lia).
    cbn [bind]. eexists. split; [reflexivity|].
    set (V := if sop_acc op then madd (msub C r0 c0 r c) (mmul VX VY) else mmul VX VY).
    assert (HV : wf V /\ nr V = r /\ nc V = c).
    { unfold V. destruct (sop_acc op); (split; [|cbn [nr nc madd mmul msub]; split; auto]).
      - apply wf_madd; auto using wf_mmul; cbn [nr nc msub mmul]; lia.
      - apply wf_mmul; auto. }
    destruct HV as (HV & HVr & HVc).
    split; [apply wf_mpaste; auto; lia|]. split; [reflexivity|]. split; [reflexivity|].
    intros i j. rewrite get_mpaste by (auto; rewrite wf_len by auto; lia).
    rewrite HVr, HVc. unfold inrect. cbn [andb].
    destruct ((r0 <=? i) && (i <? r0 + r) && (c0 <=? j) && (j <? c0 + c)) eqn:Hin; [|reflexivity].
    rewrite !andb_true_iff in Hin. destruct Hin as [[[I1 I2] I3] I4].
    apply Nat.leb_le in I1, I3. apply Nat.ltb_lt in I2, I4.
    unfold V. destruct (sop_acc op); cbn [andb].
    - rewrite get_madd by (cbn [rows msub mmul]; rewrite !map_length, firstn_length, skipn_length, !wf_len by auto; lia).
      rewrite get_msub by (rewrite wf_len by auto; lia).
      destruct (Nat.ltb_spec (i - r0) r), (Nat.ltb_spec (j - c0) c); try lia. cbn [andb].
      replace (r0 + (i - r0)) with i by lia. replace (c0 + (j - c0)) with j by lia.
      rewrite get_mmul by assumption. now rewrite E3.
    - rewrite xorb_false_l. rewrite get_mmul by assumption. now rewrite E3.
  Qed.

  Lemma three_strips (op : sop) A Bm C0 C1 m kk n m2 k2 n2 :
    wf A -> nr A = m -> nc A = kk -> wf Bm -> nr Bm = kk -> nc Bm = n ->
    wf C1 -> nr C1 = m -> nc C1 = n ->
    m2 <= m -> k2 <= kk -> n2 <= n -> 0 < m2 -> 0 < k2 -> 0 < n2 ->
    (forall i j, ~ (i < m2 /\ j < n2) -> get C1 i j = get C0 i j) ->
    (forall i j, i < m2 -> j < n2 ->
        get C1 i j = xorb (sop_acc op && get C0 i j) (xsum k2 (fun t => get A i t && get Bm t j))) ->
    exists R,
      (s1 <- (if n2 <? n then dostrip op C1 0 n2 m (n - n2) A (msub Bm 0 n2 kk (n - n2)) else Ok C1) ;;
       s2 <- (if m2 <? m then dostrip op s1 m2 0 (m - m2) n2 (msub A m2 0 (m - m2) kk) (msub Bm 0 0 kk n2)
              else Ok s1) ;;
       (if k2 <? kk then dostrip SAddW s2 0 0 m2 n2 (msub A 0 k2 m2 (kk - k2)) (msub Bm k2 0 (kk - k2) n2)
        else Ok s2)) = Ok R /\
      wf R /\ nr R = m /\ nc R = n /\
      forall i j, i < m -> j < n ->
        get R i j = xorb (sop_acc op && get C0 i j) (xsum kk (fun t => get A i t && get Bm t j)).
  Proof.
    intros HA Am Ak HB Bk Bn HC Cm Cn Lm Lk Ln Pm Pk Pn Hout Hin.
    pose proof (wf_len A HA) as LA. pose proof (wf_len Bm HB) as LB.
    destruct (opt_strip (n2 <? n) op C1 0 n2 m (n - n2) A (msub Bm 0 n2 kk (n - n2)) kk)
      as (s1 & R1 & W1 & N1 & M1 & G1); auto; try (apply wf_msub; lia); try (cbn [nr nc msub]; lia).
    rewrite R1. cbn [bind].
    destruct (opt_strip (m2 <? m) op s1 m2 0 (m - m2) n2 (msub A m2 0 (m - m2) kk) (msub Bm 0 0 kk n2) kk)
      as (s2 & R2 & W2 & N2 & M2 & G2); auto; try (apply wf_msub; lia); try (cbn [nr nc msub]; lia).
    rewrite R2. cbn [bind].
    destruct (opt_strip (k2 <? kk) SAddW s2 0 0 m2 n2 (msub A 0 k2 m2 (kk - k2)) (msub Bm k2 0 (kk - k2) n2) (kk - k2))
      as (s3 & R3 & W3 & N3 & M3 & G3); auto; try (apply wf_msub; lia); try (cbn [nr nc msub]; lia).
    rewrite R3. exists s3. split; [reflexivity|]. split; [exact W3|].
    split; [lia|]. split; [lia|].
    intros i j Hi Hj. rewrite G3, G2, G1. unfold inrect. cbn [sop_acc andb].
    destruct (Nat.ltb_spec j n2) as [Hjn|Hjn].
    - destruct (Nat.ltb_spec i m2) as [Him|Him].
      + (* block region *)
        replace ((0 <=? i) && (i <? 0 + m2) && (0 <=? j) && (j <? 0 + n2)) with true
          by (symmetry; rewrite !andb_true_iff, !Nat.leb_le, !Nat.ltb_lt; lia).
        replace ((m2 <=? i) && (i <? m2 + (m - m2)) && (0 <=? j) && (j <? 0 + n2)) with false
          by (symmetry; destruct (Nat.leb_spec m2 i); [lia|reflexivity]).
        replace ((0 <=? i) && (i <? 0 + m) && (n2 <=? j) && (j <? n2 + (n - n2))) with false
          by (symmetry; destruct (Nat.leb_spec n2 j); [lia|now rewrite andb_false_r]).
        rewrite !andb_false_r. rewrite Hin by assumption.
        destruct (Nat.ltb_spec k2 kk) as [Hk|Hk]; cbn [andb].
        * rewrite xorb_assoc. f_equal.
          symmetry. replace kk with (k2 + (kk - k2)) at 1 by lia. rewrite xsum_app. symmetry. f_equal.
          apply xsum_ext. intros t Ht. rewrite !get_msub by lia.
          destruct (Nat.ltb_spec (i - 0) m2), (Nat.ltb_spec t (kk - k2)), (Nat.ltb_spec (j - 0) n2); try lia.
          cbn [andb]. rewrite !Nat.sub_0_r. reflexivity.
        * replace kk with k2 by lia. reflexivity.
      + (* last rows *)
        replace ((0 <=? i) && (i <? 0 + m2) && (0 <=? j) && (j <? 0 + n2)) with false
          by (symmetry; destruct (Nat.ltb_spec i (0 + m2)); [lia|now rewrite andb_false_r]).
        rewrite andb_false_r.
        replace ((m2 <=? i) && (i <? m2 + (m - m2)) && (0 <=? j) && (j <? 0 + n2)) with true
          by (symmetry; rewrite !andb_true_iff, !Nat.leb_le, !Nat.ltb_lt; lia).
        replace ((0 <=? i) && (i <? 0 + m) && (n2 <=? j) && (j <? n2 + (n - n2))) with false
          by (symmetry; destruct (Nat.leb_spec n2 j); [lia|now rewrite andb_false_r]).
        rewrite andb_false_r. destruct (m2 <? m) eqn:Hg; [|apply Nat.ltb_ge in Hg; lia]. cbn [andb].
        rewrite Hout by lia. f_equal.
        apply xsum_ext. intros t Ht. rewrite !get_msub by lia.
        destruct (Nat.ltb_spec (i - m2) (m - m2)), (Nat.ltb_spec t kk), (Nat.ltb_spec (j - 0) n2); try lia.
        cbn [andb]. rewrite Nat.sub_0_r. replace (m2 + (i - m2)) with i by lia. reflexivity.
    - (* last columns *)
      replace ((0 <=? i) && (i <? 0 + m2) && (0 <=? j) && (j <? 0 + n2)) with false
        by (symmetry; destruct (Nat.ltb_spec j (0 + n2)); [lia|now rewrite andb_false_r]).
      rewrite andb_false_r.
      replace ((m2 <=? i) && (i <? m2 + (m - m2)) && (0 <=? j) && (j <? 0 + n2)) with false
        by (symmetry; destruct (Nat.ltb_spec j (0 + n2)); [lia|now rewrite andb_false_r]).
      rewrite andb_false_r.
      replace ((0 <=? i) && (i <? 0 + m) && (n2 <=? j) && (j <? n2 + (n - n2))) with true
        by (symmetry; rewrite !andb_true_iff, !Nat.leb_le, !Nat.ltb_lt; lia).
      destruct (n2 <? n) eqn:Hg; [|apply Nat.ltb_ge in Hg; lia]. cbn [andb].
      rewrite Hout by lia. f_equal.
      apply xsum_ext. intros t Ht. rewrite get_msub by lia.
      destruct (Nat.ltb_spec t kk), (Nat.ltb_spec (j - n2) (n - n2)); try lia.
      cbn [andb]. rewrite Nat.sub_0_r. replace (n2 + (j - n2)) with j by lia. reflexivity.
  Qed.
End Strips.

(* ------------------------------------------------------------------------------------------ *)
(** * Canonical strips evaluate to [three_strips] *)
Lemma strip_op_eq base E F A B s C : w_par (st_dst s) = PC ->
  strip_op base E F A B s C =
  dostrip base (st_op s) C (fst (fst (fst (wcoords E F (st_dst s))))) (snd (fst (fst (wcoords E F (st_dst s)))))
          (snd (fst (wcoords E F (st_dst s)))) (snd (wcoords E F (st_dst s)))
          (oread E F A B C (st_x s)) (oread E F A B C (st_y s)).
Proof.
  intros Hp. unfold strip_op, dostrip. rewrite Hp.
  destruct (wcoords E F (st_dst s)) as [[[r0 c0] r] c]. cbn [fst snd].
  unfold sop_run. destruct (st_op s); reflexivity.
Qed.

Definition DS base E F A B (s : strip) (C : mat) : res mat :=
  dostrip base (st_op s) C (fst (fst (fst (wcoords E F (st_dst s))))) (snd (fst (fst (wcoords E F (st_dst s)))))
          (snd (fst (wcoords E F (st_dst s)))) (snd (wcoords E F (st_dst s)))
          (oread E F A B C (st_x s)) (oread E F A B C (st_y s)).

Lemma run_strips_3 base E F A B s1 s2 s3 C :
  w_par (st_dst s1) = PC -> w_par (st_dst s2) = PC -> w_par (st_dst s3) = PC ->
  run_strips base E F A B [s1; s2; s3] C =
  (c1 <- (if beval (assigns E F (st_pre s1)) F (st_guard s1)
          then DS base (assigns E F (st_pre s1)) F A B s1 C else Ok C) ;;
   c2 <- (if beval (assigns (assigns E F (st_pre s1)) F (st_pre s2)) F (st_guard s2)
          then DS base (assigns (assigns E F (st_pre s1)) F (st_pre s2)) F A B s2 c1 else Ok c1) ;;
   (if beval (assigns (assigns (assigns E F (st_pre s1)) F (st_pre s2)) F (st_pre s3)) F (st_guard s3)
    then DS base (assigns (assigns (assigns E F (st_pre s1)) F (st_pre s2)) F (st_pre s3)) F A B s3 c2
    else Ok c2)).
Proof.
  intros P1 P2 P3. unfold DS. cbn [run_strips].
  set (E1 := assigns E F (st_pre s1)). set (E2 := assigns E1 F (st_pre s2)).
  set (E3 := assigns E2 F (st_pre s3)).
  assert (L3 : forall c, (if beval E3 F (st_guard s3)
                          then C' <- strip_op base E3 F A B s3 c ;; Ok C' else Ok c) =
                         (if beval E3 F (st_guard s3) then DS base E3 F A B s3 c else Ok c)).
  { intros c. destruct (beval E3 F (st_guard s3)); [|reflexivity].
    rewrite strip_op_eq by assumption. unfold DS. now destruct (dostrip _ _ _ _ _ _ _ _ _). }
  unfold DS in L3.
  destruct (beval E1 F (st_guard s1)).
  - rewrite strip_op_eq by assumption.
    destruct (dostrip _ _ _ _ _ _ _ _ _) as [c1|]; cbn [bind]; [|reflexivity].
    destruct (beval E2 F (st_guard s2)).
    + rewrite strip_op_eq by assumption.
      destruct (dostrip _ _ _ _ _ _ _ _ _) as [c2|]; cbn [bind]; [|reflexivity]. apply L3.
    + cbn [bind]. apply L3.
  - cbn [bind]. destruct (beval E2 F (st_guard s2)).
    + rewrite strip_op_eq by assumption.
      destruct (dostrip _ _ _ _ _ _ _ _ _) as [c2|]; cbn [bind]; [|reflexivity]. apply L3.
    + cbn [bind]. apply L3.
Qed.

Lemma result_ext (acc : bool) R C0 A Bm : wf R -> wf C0 -> wf A -> wf Bm ->
  nc A = nr Bm -> nr C0 = nr A -> nc C0 = nc Bm -> nr R = nr A -> nc R = nc Bm ->
  (forall i j, i < nr A -> j < nc Bm ->
     get R i j = xorb (acc && get C0 i j) (xsum (nc A) (fun t => get A i t && get Bm t j))) ->
  R = if acc then madd C0 (mmul A Bm) else mmul A Bm.
Proof.
  intros HR HC HA HB E1 E2 E3 E4 E5 Hg.
  destruct acc.
  - apply mat_ext; [exact HR|apply wf_madd; auto using wf_mmul|cbn [nr madd]; lia|cbn [nc madd]; lia|].
    intros i j Hi Hj. rewrite Hg by lia.
    rewrite get_madd by (cbn [rows mmul]; rewrite map_length, !wf_len by auto; lia).
    rewrite get_mmul by assumption. now rewrite E1.
  - apply mat_ext; [exact HR|auto using wf_mmul|cbn [nr mmul]; lia|cbn [nc mmul]; lia|].
    intros i j Hi Hj. rewrite Hg by lia. cbn [andb]. rewrite xorb_false_l.
    rewrite get_mmul by assumption. now rewrite E1.
Qed.

Section CanonStrips.
  Variable base : mat -> mat -> mat -> bool -> res mat.
  Variables (E : env) (A B C C1 : mat).
  Variables m kk n mmm kkk nnn : nat.
  Hypothesis HnrA : nr A = m.
  Hypothesis HncA : nc A = kk.
  Hypothesis HnrC : nr C = m.
  Hypothesis Hm2 : mmm * 2 <= m.
  Hypothesis Hk2 : kkk * 2 <= kk.
  Hypothesis Hn2 : nnn * 2 <= n.

  Lemma run_strips_nonsqr k : k_sqr k = false -> nr B = kk ->
    E Vm = m -> E Vk = kk -> E Vn = n -> E Vmmm = mmm -> E Vkkk = kkk -> E Vnnn = nnn ->
    run_strips base E (fenv_of A B C) A B (canon_strips k) C1 =
    (s1 <- (if nnn * 2 <? n then dostrip base (if k_acc k then SAddW else SClear) C1 0 (nnn * 2) m (n - nnn * 2) A
                                         (msub B 0 (nnn * 2) kk (n - nnn * 2)) else Ok C1) ;;
     s2 <- (if mmm * 2 <? m then dostrip base (if k_acc k then SAddW else SClear) s1 (mmm * 2) 0 (m - mmm * 2) (nnn * 2)
                                         (msub A (mmm * 2) 0 (m - mmm * 2) kk) (msub B 0 0 kk (nnn * 2))
            else Ok s1) ;;
     (if kkk * 2 <? kk then dostrip base SAddW s2 0 0 (mmm * 2) (nnn * 2) (msub A 0 (kkk * 2) (mmm * 2) (kk - kkk * 2))
                                    (msub B (kkk * 2) 0 (kk - kkk * 2) (nnn * 2)) else Ok s2)).
  Proof.
    intros Hk HnrB Em Ek En Emmm Ekkk Ennn.
    unfold canon_strips. rewrite Hk.
    rewrite run_strips_3 by reflexivity. unfold DS.
    cbn [st_pre st_guard st_dst st_x st_y st_op dbl gt assigns aeval beval W oread wread wcoords
         w_par w_r0 w_c0 w_r1 w_c1 psel fenv_of fst snd].
    unfold eupd. cbn [var_beq].
    rewrite Em, Ek, En, Emmm, Ekkk, Ennn, HnrA, HnrB, HnrC.
    rewrite !Nat.sub_0_r, !Nat.min_id.
    replace (Nat.min (m - mmm * 2) (m - mmm * 2)) with (m - mmm * 2) by lia.
    replace (Nat.min (mmm * 2) m) with (mmm * 2) by lia.
    replace (Nat.min (kk - kkk * 2) (kk - kkk * 2)) with (kk - kkk * 2) by lia.
    reflexivity.
  Qed.

  Lemma run_strips_sqr k : k_sqr k = true -> kk = m -> n = m ->
    E Vm = m -> E Vmmm = mmm ->
    run_strips base E (fenv_of A A C) A A (canon_strips k) C1 =
    (s1 <- (if mmm * 2 <? m then dostrip base (if k_acc k then SAddW else SClear) C1 0 (mmm * 2) m (m - mmm * 2) A
                                         (msub A 0 (mmm * 2) m (m - mmm * 2)) else Ok C1) ;;
     s2 <- (if mmm * 2 <? m then dostrip base (if k_acc k then SAddW else SClear) s1 (mmm * 2) 0 (m - mmm * 2) (mmm * 2)
                                         (msub A (mmm * 2) 0 (m - mmm * 2) m) (msub A 0 0 m (mmm * 2))
            else Ok s1) ;;
     (if mmm * 2 <? m then dostrip base SAddW s2 0 0 (mmm * 2) (mmm * 2) (msub A 0 (mmm * 2) (mmm * 2) (m - mmm * 2))
                                    (msub A (mmm * 2) 0 (m - mmm * 2) (mmm * 2)) else Ok s2)).
  Proof.
    intros Hk Hkm Hnm Em Emmm.
    unfold canon_strips. rewrite Hk.
    rewrite run_strips_3 by reflexivity. unfold DS.
    cbn [st_pre st_guard st_dst st_x st_y st_op dbl gt assigns aeval beval W oread wread wcoords
         w_par w_r0 w_c0 w_r1 w_c1 psel fenv_of fst snd].
    unfold eupd. cbn [var_beq].
    rewrite Em, Emmm, HnrA, HnrC.
    rewrite !Nat.sub_0_r, !Nat.min_id.
    replace (Nat.min (m - mmm * 2) (m - mmm * 2)) with (m - mmm * 2) by lia.
    replace (Nat.min (mmm * 2) m) with (mmm * 2) by lia.
    reflexivity.
  Qed.
End CanonStrips.

(* ------------------------------------------------------------------------------------------ *)
(** * One recursion level and the recursion *)
Lemma eupd_same E v x : eupd E v x v = x.
Proof. unfold eupd. now rewrite var_beq_refl. Qed.
Lemma eupd_other E v x w : w <> v -> eupd E v x w = E w.
Proof. unfold eupd. intros H. destruct (var_beq w v) eqn:Hb; [apply var_beq_eq in Hb; contradiction|reflexivity]. Qed.

Lemma log2_half x y : 0 < x -> 2 * x <= y -> Nat.log2 x < Nat.log2 y.
Proof.
  intros Hx Hy. apply Nat.lt_le_trans with (Nat.log2 (2 * x)).
  - rewrite Nat.log2_double by assumption. lia.
  - apply Nat.log2_le_mono. assumption.
Qed.

Lemma closer_false a c : closer a c = false -> 128 <= a /\ 4 * c <= 3 * a.
Proof. unfold closer. intros H. apply orb_false_iff in H as [H1 H2]. apply Nat.ltb_ge in H1, H2. lia. Qed.

Section Level.
  Variable base : mat -> mat -> mat -> bool -> res mat.
  Variable dflt : nat.
  Variable T : kind -> sched.
  Hypothesis base_ok : base_correct base.
  Hypothesis T_ok : forall k, check_sched (T k) = true.
  Hypothesis T_kind : forall k, s_kind (T k) = k.

  Lemma skel k :
    s_early (T k) = canon_early k /\ s_dims (T k) = canon_dims k /\ s_closer (T k) = canon_closer /\
    s_closer_args (T k) = canon_args k /\ s_pre (T k) = canon_pre k /\ s_loop (T k) = canon_loop /\
    s_splits (T k) = canon_splits k /\ s_strips (T k) = canon_strips k /\
    check_body k (s_wins (T k)) (s_tmps (T k)) (s_body (T k)) = true.
  Proof.
    pose proof (T_ok k) as H. unfold check_sched, check_skel in H. rewrite T_kind in H.
    rewrite !andb_true_iff in H.
    destruct H as [[[[[[[[[[H1 H2] H3] H4] H5] H6] H7] H8] H9] H10] H11].
    apply deq_true in H1, H2, H3, H4, H6, H7, H8, H9, H10.
    repeat split; auto. destruct (s_loop (T k)) as [a b]. cbn [fst snd] in *. subst. reflexivity.
  Qed.

  Definition goal_for (f : nat) : Prop :=
    forall k w c C X Y, 63 <= c -> wf C -> wf X -> wf Y -> nc X = nr Y -> nr C = nr X -> nc C = nc Y ->
      (k_sqr k = true -> Y = X) -> 0 < nr X -> 0 < nc X -> 0 < nc Y ->
      Nat.log2 (Nat.max (nr X) (Nat.max (nc X) (nc Y))) < f ->
      strassen base dflt T f k w c C X Y = Ok (acc_spec k C X Y).

  Lemma copy_new_ok X : 0 < nc X -> copy_new X = Ok X.
  Proof. intros H. unfold copy_new. destruct (Nat.eqb_spec (nc X) 0); [lia|]. now rewrite andb_false_r. Qed.
  Lemma copy_to_ok D X : wf D -> wf X -> nr D = nr X -> nc D = nc X -> 0 < nc X -> copy_to D X = Ok X.
  Proof.
    intros HD HX Hr Hc Hp. unfold copy_to.
    destruct (Nat.ltb_spec (nr D) (nr X)); [lia|]. destruct (Nat.ltb_spec (nc D) (nc X)); [lia|]. cbn [orb].
    destruct (Nat.eqb_spec (nc X) 0); [lia|]. rewrite andb_false_r. now rewrite mcopy_into_same_dims.
  Qed.
  Lemma addmul_m4rm_ok C A B : wf C -> wf A -> wf B -> nc A = nr B -> nr C = nr A -> nc C = nc B ->
    0 < nr A -> 0 < nc A -> 0 < nc B -> addmul_m4rm base C A B = Ok (madd C (mmul A B)).
  Proof. intros. apply (sop_run_ok base base_ok SAddW); auto. Qed.

  Lemma base_case_ok k win C A B : wf C -> wf A -> wf B -> nc A = nr B -> nr C = nr A -> nc C = nc B ->
    (k_sqr k = true -> B = A) -> 0 < nr A -> 0 < nc A -> 0 < nc B ->
    base_case base k win C A B = Ok (acc_spec k C A B).
  Proof.
    intros HC HA HB E1 E2 E3 Hsq P1 P2 P3.
    assert (Hz : madd (mzero (nr A) (nc B)) (mmul A B) = mmul A B)
      by (apply (madd_zero_l (mmul A B)); auto using wf_mmul).
    destruct k; cbn [k_sqr] in Hsq; try (rewrite <- (Hsq eq_refl) in *; clear Hsq);
      unfold base_case, acc_spec; cbn [k_acc]; destruct win;
      rewrite ?copy_new_ok by lia; cbn [bind];
      rewrite ?addmul_m4rm_ok by auto; rewrite ?base_ok by (auto using wf_mzero); cbn [bind];
      rewrite ?Hz; try reflexivity;
      try (apply copy_to_ok; auto using wf_mmul, wf_madd; cbn [nr nc mmul madd]; lia).
    - replace (mzero (nr B) (nr B)) with (mzero (nr (mmul B B)) (nc (mmul B B)))
        by (cbn [nr nc mmul]; f_equal; lia).
      rewrite madd_zero_l by auto using wf_mmul.
      apply copy_to_ok; auto using wf_mmul; cbn [nr nc mmul]; lia.
  Qed.

  Lemma norm_cutoff_ge c : 64 <= norm_cutoff dflt c.
  Proof. unfold norm_cutoff. destruct (Nat.ltb_spec ((if c =? 0 then dflt else c) / 64 * 64) 64); lia. Qed.

  Lemma level_nonsqr f : goal_for f -> forall k w c C A B, k_sqr k = false -> 63 <= c ->
    wf C -> wf A -> wf B -> nc A = nr B -> nr C = nr A -> nc C = nc B ->
    0 < nr A -> 0 < nc A -> 0 < nc B ->
    Nat.log2 (Nat.max (nr A) (Nat.max (nc A) (nc B))) < S f ->
    strassen base dflt T (S f) k w c C A B = Ok (acc_spec k C A B).
  Proof.
    intros IH k w c C A B Hk Hc HC HA HB Q1 Q2 Q3 P1 P2 P3 Hfuel.
    destruct (skel k) as (S1 & S2 & S3 & S4 & S5 & S6 & S7 & S8 & S9).
    cbn [strassen]. rewrite S1, S2, S3, S4, S5, S6, S7, S8.
    set (F := fenv_of A B C).
    set (m := nr A) in *. set (kk := nc A) in *. set (n := nc B) in *.
    (* early return *)
    replace (existsb (fun pf => F (fst pf) (snd pf) =? 0) (canon_early k)) with false.
    2:{ symmetry. destruct k; try discriminate; cbn [canon_early existsb fst snd F fenv_of psel];
        rewrite Q2, Q3; fold m n;
        destruct (Nat.eqb_spec m 0), (Nat.eqb_spec n 0); try lia; reflexivity. }
    set (E0 := assigns (eupd (fun _ => 0) Vcutoff c) F (canon_dims k)).
    assert (V0 : E0 Vm = m /\ E0 Vk = kk /\ E0 Vn = n /\ E0 Vcutoff = c)
      by (destruct k; try discriminate; repeat split; reflexivity).
    destruct V0 as (V0m & V0k & V0n & V0c).
    assert (Hb : is_base E0 F canon_closer (canon_args k) = closer m c || (closer kk c || (closer n c || false))).
    { destruct k; try discriminate; unfold is_base, canon_args, canon_closer;
        cbn [k_sqr existsb beval aeval];
        rewrite !eupd_same, !eupd_other by discriminate; rewrite V0c, V0m, V0k, V0n; reflexivity. }
    rewrite Hb.
    destruct (closer m c || (closer kk c || (closer n c || false))) eqn:Hcl.
    { apply base_case_ok; auto. rewrite Hk. discriminate. }
    rewrite !orb_false_iff in Hcl. destruct Hcl as (Cm & Ck & Cn & _).
    apply closer_false in Cm, Ck, Cn.
    set (E1 := assigns E0 F (canon_pre k)).
    assert (V1 : E1 Vm = m /\ E1 Vk = kk /\ E1 Vn = n /\ E1 Vcutoff = c /\ E1 Vmult = 64 /\
                 E1 Vwidth = Nat.min (Nat.min m n) kk / 2).
    { destruct k; try discriminate; unfold E1, canon_pre; cbn [k_sqr assigns aeval];
        rewrite ?eupd_same, ?eupd_other by discriminate; rewrite ?V0m, ?V0k, ?V0n, ?V0c; repeat split; reflexivity. }
    destruct V1 as (V1m & V1k & V1n & V1c & V1mu & V1w).
    set (w0 := Nat.min (Nat.min m n) kk / 2) in *.
    destruct (loop_spec F c w0 Hc (S (Nat.log2 (E1 Vwidth))) E1) as (E2 & HL & Hsame & Hinv).
    { unfold loop_inv. rewrite V1c, V1mu, V1w. lia. }
    { destruct (Nat.eq_dec (E1 Vwidth) 0) as [->|Hnz]; [cbn; lia|]. apply Nat.log2_spec. lia. }
    rewrite HL.
    destruct Hinv as (V2c & M64 & Mcase & _ & Mle).
    set (mult := E2 Vmult) in *.
    assert (V2 : E2 Vm = m /\ E2 Vk = kk /\ E2 Vn = n)
      by (rewrite !Hsame by discriminate; auto).
    destruct V2 as (V2m & V2k & V2n).
    assert (Hmult : mult <= m /\ mult <= kk /\ mult <= n) by (unfold w0 in Mle; lia).
    set (E3 := assigns E2 F (canon_splits k)).
    set (mmm := split_pt m mult). set (kkk := split_pt kk mult). set (nnn := split_pt n mult).
    assert (V3 : E3 Vmmm = mmm /\ E3 Vkkk = kkk /\ E3 Vnnn = nnn /\ E3 Vm = m /\ E3 Vk = kk /\ E3 Vn = n).
    { destruct k; try discriminate; unfold E3, canon_splits, canon_split; cbn [k_sqr assigns aeval];
        unfold eupd; cbn [var_beq]; rewrite ?V2m, ?V2k, ?V2n; repeat split; reflexivity. }
    destruct V3 as (V3a & V3b & V3c & V3m & V3k & V3n).
    assert (Hle : 2 * mmm <= m /\ 2 * kkk <= kk /\ 2 * nnn <= n)
      by (repeat split; apply split_pt_le).
    assert (Hpos : 64 <= mmm /\ 64 <= kkk /\ 64 <= nnn)
      by (repeat split; apply split_pt_pos; auto; lia).
    destruct Hle as (Lm & Lk & Ln). destruct Hpos as (Gm & Gk & Gn).
    clearbody mmm kkk nnn.
    (* the block phase *)
    set (st0 := {| sC := C; sT := _ |}).
    destruct (check_body_sound dflt (strassen base dflt T f) c k (s_wins (T k)) E3 A B C
                (mmm + kkk + nnn) HA HB HC) with (tmps := s_tmps (T k)) (body := s_body (T k))
      as (st1 & Hrun & W1 & R1 & C1 & Hout & Hin).
    { intros v Hv. destruct k; try discriminate; destruct v; try discriminate; rewrite ?V3a, ?V3b, ?V3c; lia. }
    { destruct k; try discriminate; unfold pdr, pdc; cbn [pdims k_sqr]; rewrite ?V3a, ?V3b, ?V3c; fold m kk; lia. }
    { destruct k; try discriminate; unfold pdr, pdc; cbn [pdims k_sqr]; rewrite ?V3a, ?V3b, ?V3c; fold n; lia. }
    { destruct k; try discriminate; unfold pdr, pdc; cbn [pdims k_sqr]; rewrite ?V3a, ?V3b, ?V3c; lia. }
    { intros k' w' c' Cd Xm Ym HCd HXm HYm D1 D2 D3 Hsq Hc' (v1 & v2 & v3 & O1 & O2 & O3 & N1 & N2 & N3).
      assert (Hdim : forall v, dim_ok k v = true -> 64 <= E3 v /\ 2 * E3 v <= Nat.max m (Nat.max kk n)).
      { intros v Hv. destruct k; try discriminate; destruct v; try discriminate; rewrite ?V3a, ?V3b, ?V3c; lia. }
      pose proof (Hdim v1 O1). pose proof (Hdim v2 O2). pose proof (Hdim v3 O3).
      apply IH; auto; try lia.
      - destruct Hc' as [->| ->]; [lia|]. pose proof (norm_cutoff_ge c). lia.
      - assert (Nat.log2 (Nat.max (nr Xm) (Nat.max (nc Xm) (nc Ym))) < Nat.log2 (Nat.max m (Nat.max kk n)));
          [|lia]. apply log2_half; lia. }
    { exact S9. }
    unfold st0. unfold init_tmps in Hrun. fold F in Hrun.
    rewrite Hrun. cbn [bind].
    assert (Pd : pdr k E3 PC = mmm /\ pdc k E3 PC = nnn /\ pdc k E3 PA = kkk /\ Bm k A B = B).
    { destruct k; try discriminate; unfold pdr, pdc, Bm; cbn [pdims k_sqr]; auto. }
    destruct Pd as (Pd1 & Pd2 & Pd3 & Pd4). rewrite Pd1, Pd2 in Hout, Hin. rewrite Pd3, Pd4 in Hin.
    rewrite (run_strips_nonsqr base E3 A B C (sC st1) m kk n mmm kkk nnn); auto; try lia.
    destruct (three_strips base base_ok (if k_acc k then SAddW else SClear) A B C (sC st1)
                m kk n (mmm * 2) (kkk * 2) (nnn * 2)) as (R & HR & WR & RR & CR & GR); auto; try lia.
    { intros i j Hij. apply Hout. lia. }
    { intros i j Hi Hj. rewrite Hin by lia. replace (2 * kkk) with (kkk * 2) by lia.
      destruct (k_acc k); reflexivity. }
    rewrite HR. f_equal. unfold acc_spec.
    replace (k_acc k) with (sop_acc (if k_acc k then SAddW else SClear)) by (destruct (k_acc k); reflexivity).
    apply result_ext; auto; try lia.
  Qed.

  Lemma level_sqr f : goal_for f -> forall k w c C A, k_sqr k = true -> 63 <= c ->
    wf C -> wf A -> nc A = nr A -> nr C = nr A -> nc C = nr A -> 0 < nr A ->
    Nat.log2 (nr A) < S f ->
    strassen base dflt T (S f) k w c C A A = Ok (acc_spec k C A A).
  Proof.
    intros IH k w c C A Hk Hc HC HA Q1 Q2 Q3 P1 Hfuel.
    destruct (skel k) as (S1 & S2 & S3 & S4 & S5 & S6 & S7 & S8 & S9).
    cbn [strassen]. rewrite S1, S2, S3, S4, S5, S6, S7, S8.
    set (F := fenv_of A A C).
    set (m := nr A) in *.
    replace (existsb (fun pf => F (fst pf) (snd pf) =? 0) (canon_early k)) with false.
    2:{ symmetry. destruct k; try discriminate; cbn [canon_early existsb fst snd F fenv_of psel];
        rewrite ?Q2; destruct (Nat.eqb_spec m 0); try lia; reflexivity. }
    set (E0 := assigns (eupd (fun _ => 0) Vcutoff c) F (canon_dims k)).
    assert (V0 : E0 Vm = m /\ E0 Vcutoff = c)
      by (destruct k; try discriminate; repeat split; reflexivity).
    destruct V0 as (V0m & V0c).
    assert (Hb : is_base E0 F canon_closer (canon_args k) = closer m c || false).
    { destruct k; try discriminate; unfold is_base, canon_args, canon_closer;
        cbn [k_sqr existsb beval aeval];
        rewrite !eupd_same, !eupd_other by discriminate; rewrite V0c, V0m; reflexivity. }
    rewrite Hb.
    destruct (closer m c || false) eqn:Hcl.
    { apply base_case_ok; auto; try congruence; lia. }
    rewrite orb_false_r in Hcl. apply closer_false in Hcl as Cm.
    set (E1 := assigns E0 F (canon_pre k)).
    assert (V1 : E1 Vm = m /\ E1 Vcutoff = c /\ E1 Vmult = 64 /\ E1 Vwidth = m / 2).
    { destruct k; try discriminate; unfold E1, canon_pre; cbn [k_sqr assigns aeval];
        rewrite ?eupd_same, ?eupd_other by discriminate; rewrite ?V0m, ?V0c; repeat split; reflexivity. }
    destruct V1 as (V1m & V1c & V1mu & V1w).
    set (w0 := m / 2) in *.
    destruct (loop_spec F c w0 Hc (S (Nat.log2 (E1 Vwidth))) E1) as (E2 & HL & Hsame & Hinv).
    { unfold loop_inv. rewrite V1c, V1mu, V1w. lia. }
    { destruct (Nat.eq_dec (E1 Vwidth) 0) as [->|Hnz]; [cbn; lia|]. apply Nat.log2_spec. lia. }
    rewrite HL.
    destruct Hinv as (V2c & M64 & Mcase & _ & Mle).
    set (mult := E2 Vmult) in *.
    assert (V2m : E2 Vm = m) by (rewrite !Hsame by discriminate; auto).
    assert (Hmult : mult <= m) by (unfold w0 in Mle; lia).
    set (E3 := assigns E2 F (canon_splits k)).
    set (mmm := split_pt m mult).
    assert (V3 : E3 Vmmm = mmm /\ E3 Vm = m).
    { destruct k; try discriminate; unfold E3, canon_splits, canon_split; cbn [k_sqr assigns aeval];
        unfold eupd; cbn [var_beq]; rewrite ?V2m; repeat split; reflexivity. }
    destruct V3 as (V3a & V3m).
    assert (Lm : 2 * mmm <= m) by apply split_pt_le.
    assert (Gm : 64 <= mmm) by (apply split_pt_pos; auto; lia).
    clearbody mmm.
    set (st0 := {| sC := C; sT := _ |}).
    destruct (check_body_sound dflt (strassen base dflt T f) c k (s_wins (T k)) E3 A A C
                mmm HA HA HC) with (tmps := s_tmps (T k)) (body := s_body (T k))
      as (st1 & Hrun & W1 & R1 & C1 & Hout & Hin).
    { intros v Hv. destruct k; try discriminate; destruct v; try discriminate; rewrite ?V3a; lia. }
    { destruct k; try discriminate; unfold pdr, pdc; cbn [pdims k_sqr]; rewrite ?V3a; fold m; lia. }
    { destruct k; try discriminate; unfold pdr, pdc; cbn [pdims k_sqr]; lia. }
    { destruct k; try discriminate; unfold pdr, pdc; cbn [pdims k_sqr]; rewrite ?V3a; lia. }
    { intros k' w' c' Cd Xm Ym HCd HXm HYm D1 D2 D3 Hsq Hc' (v1 & v2 & v3 & O1 & O2 & O3 & N1 & N2 & N3).
      assert (Hdim : forall v, dim_ok k v = true -> 64 <= E3 v /\ 2 * E3 v <= m).
      { intros v Hv. destruct k; try discriminate; destruct v; try discriminate; rewrite ?V3a; lia. }
      pose proof (Hdim v1 O1). pose proof (Hdim v2 O2). pose proof (Hdim v3 O3).
      apply IH; auto; try lia.
      - destruct Hc' as [->| ->]; [lia|]. pose proof (norm_cutoff_ge c). lia.
      - assert (Nat.log2 (Nat.max (nr Xm) (Nat.max (nc Xm) (nc Ym))) < Nat.log2 m); [|lia].
        apply log2_half; lia. }
    { exact S9. }
    unfold st0. unfold init_tmps in Hrun. fold F in Hrun.
    rewrite Hrun. cbn [bind].
    assert (Pd : pdr k E3 PC = mmm /\ pdc k E3 PC = mmm /\ pdc k E3 PA = mmm /\ Bm k A A = A).
    { destruct k; try discriminate; unfold pdr, pdc, Bm; cbn [pdims k_sqr]; auto. }
    destruct Pd as (Pd1 & Pd2 & Pd3 & Pd4). rewrite Pd1, Pd2 in Hout, Hin. rewrite Pd3, Pd4 in Hin.
    rewrite (run_strips_sqr base E3 A C (sC st1) m m m mmm mmm mmm); auto; try lia.
    destruct (three_strips base base_ok (if k_acc k then SAddW else SClear) A A C (sC st1)
                m m m (mmm * 2) (mmm * 2) (mmm * 2)) as (R & HR & WR & RR & CR & GR); auto; try lia.
    { intros i j Hij. apply Hout. lia. }
    { intros i j Hi Hj. rewrite Hin by lia. replace (2 * mmm) with (mmm * 2) by lia.
      destruct (k_acc k); reflexivity. }
    rewrite HR. f_equal. unfold acc_spec.
    replace (k_acc k) with (sop_acc (if k_acc k then SAddW else SClear)) by (destruct (k_acc k); reflexivity).
    apply result_ext; auto; try lia.
    intros i j Hi Hj. rewrite Q1 in *. apply GR; lia.
  Qed.

  Theorem strassen_spec : forall f, goal_for f.
  Proof.
    induction f as [|f IH]; intros k w c C X Y Hc HC HX HY D1 D2 D3 Hsq P1 P2 P3 Hf; [lia|].
    destruct (k_sqr k) eqn:Hk.
    - rewrite (Hsq eq_refl) in *. apply level_sqr; auto; try congruence.
      rewrite !Nat.max_id in Hf. replace (nc X) with (nr X) in Hf by congruence.
      rewrite Nat.max_id in Hf. exact Hf.
    - apply level_nonsqr; auto.
  Qed.
End Level.

(* ------------------------------------------------------------------------------------------ *)
(** * The public wrappers *)
Section Wrappers.
  Variable base : mat -> mat -> mat -> bool -> res mat.
  Variable dflt : nat.
  Variable T : kind -> sched.
  Hypothesis base_ok : base_correct base.
  Hypothesis T_ok : forall k, check_sched (T k) = true.
  Hypothesis T_kind : forall k, s_kind (T k) = k.

  Lemma fuel_for_ok A B : Nat.log2 (Nat.max (nr A) (Nat.max (nc A) (nc B))) < fuel_for A B.
  Proof. unfold fuel_for. apply Nat.lt_succ_r, Nat.log2_le_mono. lia. Qed.

  Definition dest (Copt : option mat) (A B : mat) : mat :=
    match Copt with Some C => C | None => mzero (nr A) (nc B) end.
  Definition dest_ok (Copt : option mat) (A B : mat) : Prop :=
    match Copt with Some C => wf C /\ nr C = nr A /\ nc C = nc B | None => True end.

  Lemma wrapper_head_ok cutoff Copt A B : (0 <= cutoff)%Z -> nc A = nr B -> dest_ok Copt A B ->
    ub_guard (norm_cutoff dflt (Z.to_nat cutoff)) A B = false ->
    wrapper_head dflt cutoff Copt A B = Ok (norm_cutoff dflt (Z.to_nat cutoff), dest Copt A B) /\
    wf (dest Copt A B) /\ nr (dest Copt A B) = nr A /\ nc (dest Copt A B) = nc B.
  Proof.
    intros Hc Hd HC Hub. unfold wrapper_head. rewrite Hd, Nat.eqb_refl. cbn [negb].
    destruct (Z.ltb_spec cutoff 0); [lia|].
    destruct Copt as [C|]; cbn [dest dest_ok] in *.
    - destruct HC as (HC & Hr & Hcn). rewrite Hr, Hcn, !Nat.eqb_refl. cbn [andb bind].
      rewrite Hub. split; [reflexivity|]. split; [exact HC|split; reflexivity].
    - cbn [bind]. rewrite Hub. split; [reflexivity|]. split; [apply wf_mzero|split; reflexivity].
  Qed.

  (** C01 for mzd_mul: both the Strassen-Winograd route and (A == B) the squaring route *)
  Theorem mzd_mul_spec cutoff (same : bool) win Copt A B :
    let B' := if same then A else B in
    wf A -> wf B' -> nc A = nr B' -> 0 < nr A -> 0 < nc A -> 0 < nc B' -> (0 <= cutoff)%Z ->
    dest_ok Copt A B' -> ub_guard (norm_cutoff dflt (Z.to_nat cutoff)) A B' = false ->
    mzd_mul_model base dflt T cutoff same win Copt A B = Ok (mmul A B').
  Proof.
    intros B' HA HB Hd P1 P2 P3 Hc HC Hub. unfold mzd_mul_model. fold B'.
    destruct (wrapper_head_ok cutoff Copt A B' Hc Hd HC Hub) as (-> & W & R & Cn). cbn [bind].
    rewrite (strassen_spec base dflt T base_ok T_ok T_kind); auto using fuel_for_ok.
    - unfold acc_spec. destruct same; reflexivity.
    - pose proof (norm_cutoff_ge dflt (Z.to_nat cutoff)). lia.
    - unfold B'. destruct same; [reflexivity|discriminate].
  Qed.

  (** _mzd_addmul (called by the TRSM routines with their own cutoff) *)
  Theorem _mzd_addmul_spec cutoff (same : bool) win C A B :
    let B' := if same then A else B in
    63 <= cutoff -> wf C -> wf A -> wf B' -> nc A = nr B' -> nr C = nr A -> nc C = nc B' ->
    0 < nr A -> 0 < nc A -> 0 < nc B' ->
    _mzd_addmul_model base dflt T cutoff same win C A B = Ok (madd C (mmul A B')).
  Proof.
    intros B' Hc HC HA HB Hd Hr Hcn P1 P2 P3. unfold _mzd_addmul_model. fold B'.
    rewrite (strassen_spec base dflt T base_ok T_ok T_kind); auto using fuel_for_ok.
    - unfold acc_spec. destruct same; reflexivity.
    - unfold B'. destruct same; [reflexivity|discriminate].
  Qed.

  Theorem mzd_addmul_spec cutoff (same : bool) win Copt A B :
    let B' := if same then A else B in
    wf A -> wf B' -> nc A = nr B' -> 0 < nr A -> 0 < nc A -> 0 < nc B' -> (0 <= cutoff)%Z ->
    dest_ok Copt A B' -> ub_guard (norm_cutoff dflt (Z.to_nat cutoff)) A B' = false ->
    mzd_addmul_model base dflt T cutoff same win Copt A B = Ok (madd (dest Copt A B') (mmul A B')).
  Proof.
    intros B' HA HB Hd P1 P2 P3 Hc HC Hub. unfold mzd_addmul_model. fold B'.
    destruct (wrapper_head_ok cutoff Copt A B' Hc Hd HC Hub) as (-> & W & R & Cn). cbn [bind].
    destruct (Nat.eqb_spec (nr A) 0); [lia|]. destruct (Nat.eqb_spec (nc A) 0); [lia|].
    destruct (Nat.eqb_spec (nc B') 0); [lia|]. cbn [orb].
    pose proof (norm_cutoff_ge dflt (Z.to_nat cutoff)).
    pose proof (_mzd_addmul_spec (norm_cutoff dflt (Z.to_nat cutoff)) same win (dest Copt A B') A B') as H'.
    cbv zeta in H'.
    assert (EB : (if same then A else B') = B') by (unfold B'; destruct same; reflexivity).
    rewrite EB in H'. apply H'; auto; lia.
  Qed.

  (** the Die conditions of the wrappers *)
  Lemma mzd_mul_dies cutoff win Copt A B :
    nc A <> nr B \/ (cutoff < 0)%Z \/ (exists C, Copt = Some C /\ (nr C <> nr A \/ nc C <> nc B)) ->
    mzd_mul_model base dflt T cutoff false win Copt A B = Err Die.
  Proof.
    intros H. unfold mzd_mul_model, wrapper_head.
    destruct (Nat.eqb_spec (nc A) (nr B)) as [He|Hne]; cbn [negb bind]; [|reflexivity].
    destruct (Z.ltb_spec cutoff 0); cbn [bind]; [reflexivity|].
    destruct H as [H|[H|(C & -> & H)]]; try contradiction; try lia.
    destruct (Nat.eqb_spec (nr C) (nr A)), (Nat.eqb_spec (nc C) (nc B)); cbn [andb bind]; try reflexivity.
    destruct H; contradiction.
  Qed.
End Wrappers.

(* ------------------------------------------------------------------------------------------ *)
(** * C16: interleavings of the section tasks of mp.c *)
Lemma il_filter {T} (p : T -> bool) ls r :
  interleaving ls r -> interleaving (map (filter p) ls) (filter p r).
Proof.
  induction 1 as [ls H|ls1 x l ls2 r H IH].
  - apply il_nil. apply Forall_forall. intros l Hl. apply in_map_iff in Hl as (l' & <- & Hl').
    rewrite Forall_forall in H. now rewrite (H l' Hl').
  - rewrite map_app in *. cbn [map filter] in *. destruct (p x); [|exact IH].
    apply il_cons. exact IH.
Qed.

Lemma il_map {T U} (f : T -> U) ls r :
  interleaving ls r -> interleaving (map (map f) ls) (map f r).
Proof.
  induction 1 as [ls H|ls1 x l ls2 r H IH].
  - apply il_nil. apply Forall_forall. intros l Hl. apply in_map_iff in Hl as (l' & <- & Hl').
    rewrite Forall_forall in H. now rewrite (H l' Hl').
  - rewrite map_app in *. cbn [map] in *. apply il_cons. exact IH.
Qed.

Lemma nth_mid {T} (l1 : list T) a l2 d : nth (length l1) (l1 ++ a :: l2) d = a.
Proof. rewrite app_nth2 by lia. now rewrite Nat.sub_diag. Qed.
Lemma nth_mid_other {T} (l1 : list T) a b l2 d m : m <> length l1 ->
  nth m (l1 ++ a :: l2) d = nth m (l1 ++ b :: l2) d.
Proof.
  intros Hm. destruct (Nat.lt_ge_cases m (length l1)).
  - now rewrite !app_nth1 by assumption.
  - rewrite !app_nth2 by lia. destruct (m - length l1) eqn:E; [lia|reflexivity].
Qed.

(** if all task lists but the n-th are empty, the only interleaving is the n-th list *)
Lemma il_single {T} (ls : list (list T)) r n :
  interleaving ls r -> (forall m, m <> n -> nth m ls [] = []) -> r = nth n ls [].
Proof.
  induction 1 as [ls H|ls1 x l ls2 r H IH]; intros Hn.
  - rewrite Forall_forall in H. destruct (Nat.lt_ge_cases n (length ls)).
    + symmetry. apply H. now apply nth_In.
    + now rewrite nth_overflow.
  - assert (n = length ls1).
    { destruct (Nat.eq_dec n (length ls1)); [assumption|].
      specialize (Hn (length ls1) ltac:(congruence)). rewrite nth_mid in Hn. discriminate. }
    subst n. rewrite nth_mid. f_equal. rewrite IH.
    + now rewrite nth_mid.
    + intros m Hm. rewrite (nth_mid_other ls1 l (x :: l)) by assumption. now apply Hn.
Qed.

Lemma il_in {T} (ls : list (list T)) r x : interleaving ls r -> In x r -> exists l, In l ls /\ In x l.
Proof.
  induction 1 as [ls H|ls1 y l ls2 r H IH]; intros Hx; [contradiction|].
  destruct Hx as [->|Hx].
  - exists (x :: l). split; [apply in_or_app; right; left; reflexivity|left; reflexivity].
  - destruct (IH Hx) as (l' & Hl' & Hxl'). apply in_app_or in Hl' as [Hl'|[<-|Hl']].
    + exists l'. split; [apply in_or_app; auto|assumption].
    + exists (y :: l). split; [apply in_or_app; right; left; reflexivity|right; assumption].
    + exists l'. split; [apply in_or_app; right; right; assumption|assumption].
Qed.

(** semantic section tasks: C_ij (+)= A_il * B_lj on the 2x2 grid with cut points ar, ac, bc *)
Record mop := mkop { o_i : nat; o_j : nat; o_l : nat; o_acc : bool }.

Section MPsem.
  Variables A B : mat.
  Variables ar ac bc : nat.
  Hypothesis wfA : wf A.
  Hypothesis wfB : wf B.
  Hypothesis HA : 2 * ar <= nr A /\ 2 * ac <= nc A.
  Hypothesis HB : 2 * ac <= nr B /\ 2 * bc <= nc B.

  Definition ablk i l := msub A (i * ar) (l * ac) ar ac.
  Definition bblk l j := msub B (l * ac) (j * bc) ac bc.
  Definition cblk (C : mat) i j := msub C (i * ar) (j * bc) ar bc.
  Definition prod_of o := mmul (ablk (o_i o) (o_l o)) (bblk (o_l o) (o_j o)).
  Definition loc_step (Q : mat) (o : mop) : mat := if o_acc o then madd Q (prod_of o) else prod_of o.
  Definition sem_step (C : mat) (o : mop) : mat :=
    mpaste C (o_i o * ar) (o_j o * bc) (loc_step (cblk C (o_i o) (o_j o)) o).
  Definition okop o := o_i o < 2 /\ o_j o < 2 /\ o_l o < 2.
  Definition okC (C : mat) := wf C /\ 2 * ar <= nr C /\ 2 * bc <= nc C.
  Definition here (i j : nat) (o : mop) : bool := (o_i o =? i) && (o_j o =? j).

  Lemma wf_prod o : okop o -> wf (prod_of o) /\ nr (prod_of o) = ar /\ nc (prod_of o) = bc.
  Proof.
    intros (Hi & Hj & Hl). split; [|split; reflexivity]. apply wf_mmul; apply wf_msub; rewrite wf_len by assumption.
    - destruct (o_i o) as [|[|]]; lia.
    - destruct (o_l o) as [|[|]]; lia.
  Qed.

  Lemma wf_loc Q o : okop o -> wf Q -> nr Q = ar -> nc Q = bc ->
    wf (loc_step Q o) /\ nr (loc_step Q o) = ar /\ nc (loc_step Q o) = bc.
  Proof.
    intros Ho HQ Hr Hc. destruct (wf_prod o Ho) as (W & R & Cn). unfold loc_step. destruct (o_acc o).
    - split; [apply wf_madd; auto; lia|]. cbn [nr nc madd]. auto.
    - auto.
  Qed.

  Lemma wf_cblk C i j : okC C -> i < 2 -> j < 2 -> wf (cblk C i j).
  Proof.
    intros (W & R & Cn) Hi Hj. apply wf_msub. rewrite wf_len by assumption. destruct i as [|[|]]; lia.
  Qed.

  Lemma sem_step_ok C o : okop o -> okC C ->
    okC (sem_step C o) /\ nr (sem_step C o) = nr C /\ nc (sem_step C o) = nc C /\
    (forall i j, i < 2 -> j < 2 ->
       cblk (sem_step C o) i j = if here i j o then loc_step (cblk C i j) o else cblk C i j) /\
    (forall a b, ~ (a < 2 * ar /\ b < 2 * bc) -> get (sem_step C o) a b = get C a b).
  Proof.
    intros Ho HC. pose proof Ho as (Hi & Hj & Hl). pose proof HC as (W & R & Cn).
    destruct (wf_loc (cblk C (o_i o) (o_j o)) o Ho (wf_cblk C _ _ HC Hi Hj) eq_refl eq_refl) as (WL & RL & CL).
    assert (Hrow : o_i o * ar + nr (loc_step (cblk C (o_i o) (o_j o)) o) <= length (rows C)).
    { rewrite RL, wf_len by assumption. destruct (o_i o) as [|[|]]; lia. }
    unfold sem_step. split; [|split; [reflexivity|split; [reflexivity|split]]].
    - split; [|cbn [nr nc mpaste map_rows]; lia]. apply wf_mpaste; auto.
      rewrite CL. destruct (o_j o) as [|[|]]; lia.
    - intros i j Hi' Hj'. unfold here, cblk at 1.
      destruct (Nat.eqb_spec (o_i o) i) as [<-|Hne]; [destruct (Nat.eqb_spec (o_j o) j) as [<-|Hne]|]; cbn [andb].
      + rewrite <- RL at 3. rewrite <- CL at 3. apply msub_mpaste; auto.
      + apply msub_mpaste_other; auto.
        * rewrite wf_len by assumption. destruct (o_i o) as [|[|]]; lia.
        * rewrite RL, CL. destruct (o_j o) as [|[|]], j as [|[|]]; lia.
      + apply msub_mpaste_other; auto.
        * rewrite wf_len by assumption. destruct i as [|[|]]; lia.
        * rewrite RL, CL. destruct (o_i o) as [|[|]], i as [|[|]]; lia.
    - intros a b Hab. apply mpaste_outside; auto. rewrite RL, CL.
      destruct (o_i o) as [|[|]], (o_j o) as [|[|]]; lia.
  Qed.

  Definition sem_run (l : list mop) (C : mat) : mat := fold_left sem_step l C.

  Lemma sem_run_proj l : forall C, Forall okop l -> okC C ->
    okC (sem_run l C) /\ nr (sem_run l C) = nr C /\ nc (sem_run l C) = nc C /\
    (forall i j, i < 2 -> j < 2 ->
       cblk (sem_run l C) i j = fold_left loc_step (filter (here i j) l) (cblk C i j)) /\
    (forall a b, ~ (a < 2 * ar /\ b < 2 * bc) -> get (sem_run l C) a b = get C a b).
  Proof.
    induction l as [|o l IH]; intros C Hl HC; cbn [sem_run fold_left filter].
    - repeat split; auto; apply HC.
    - inversion Hl as [|? ? Ho Hl']; subst.
      destruct (sem_step_ok C o Ho HC) as (HC1 & R1 & C1 & B1 & O1).
      destruct (IH (sem_step C o) Hl' HC1) as (HC2 & R2 & C2 & B2 & O2).
      fold (sem_run l (sem_step C o)).
      split; [exact HC2|]. split; [congruence|]. split; [congruence|]. split.
      + intros i j Hi Hj. rewrite B2, B1 by assumption. destruct (here i j o); reflexivity.
      + intros a b Hab. rewrite O2, O1 by assumption. reflexivity.
  Qed.

  (** C16 (sections_commute): the sections write disjoint quadrants, hence every interleaving of the
      task lists leaves in each quadrant what that quadrant's own section computes, and nothing else
      is touched *)
  Theorem sections_commute (secs : list (list mop)) (order : list mop) (C : mat) :
    interleaving secs order -> okC C ->
    Forall (Forall okop) secs ->
    forall n i j, i < 2 -> j < 2 ->
      (forall o, In o (nth n secs []) -> here i j o = true) ->
      (forall m, m <> n -> forall o, In o (nth m secs []) -> here i j o = false) ->
      cblk (sem_run order C) i j = fold_left loc_step (nth n secs []) (cblk C i j).
  Proof.
    intros Hil HC Hok n i j Hi Hj Hn Hoth.
    assert (Hall : Forall okop order).
    { apply Forall_forall. intros o Ho. destruct (il_in _ _ _ Hil Ho) as (l & Hl & Hol).
      rewrite Forall_forall in Hok. specialize (Hok l Hl). rewrite Forall_forall in Hok. auto. }
    destruct (sem_run_proj order C Hall HC) as (_ & _ & _ & Hb & _).
    rewrite Hb by assumption. f_equal.
    pose proof (il_filter (here i j) _ _ Hil) as Hf.
    assert (Hnth : forall m, nth m (map (filter (here i j)) secs) [] = filter (here i j) (nth m secs [])).
    { intros m. change (@nil mop) with (filter (here i j) []) at 1. apply map_nth. }
    rewrite (il_single _ _ n Hf).
    - rewrite Hnth. clear Hoth. induction (nth n secs []) as [|o l IHl]; [reflexivity|]. cbn [filter].
      rewrite (Hn o (or_introl eq_refl)). f_equal. apply IHl. intros o' Ho'. apply Hn. now right.
    - intros m Hm. rewrite Hnth. specialize (Hoth m Hm).
      induction (nth m secs []) as [|o l IHl]; [reflexivity|]. cbn [filter].
      rewrite (Hoth o (or_introl eq_refl)). apply IHl. intros o' Ho'. apply Hoth. now right.
  Qed.
End MPsem.

(** ** mp.c: what is proven about the concrete model [mp4], and what is not.

    FULL STATEMENT (not proven as a whole):
      forall order, interleaving (mp_sections (MP acc)) order ->  63 <= c -> (wf, dimensions, positivity) ->
        mp4 base dflt T MP order acc c C A B = Ok (if acc then madd C (mmul A B) else mmul A B).
    Proven: (1) [check_mp] of the generated task lists (StrassenGen.v: sched_mp_*_ok): every section
    is two products C_ij (+)= A_i0*B_0j, A_i1*B_1j into ONE quadrant, the four sections own four
    different quadrants; (2) [sections_commute]: for tasks of that shape every interleaving leaves in
    each quadrant exactly what its own section computes; (3) [three_strips]/[result_ext] for the
    remainder strips; (4) below, the base-case branch of [mp4] for every order.  Missing: the
    simulation lemma "run_body over the mp window table = sem_run" that glues (1)-(3) to [mp4]. *)
Section MPbase.
  Variable base : mat -> mat -> mat -> bool -> res mat.
  Variable dflt : nat.
  Variable T : kind -> sched.
  Variable MP : bool -> mpsched.
  Hypothesis base_ok : base_correct base.

  Theorem mp4_base_partial acc order c C A B : check_mp (MP acc) = true -> mp_acc (MP acc) = acc ->
    wf C -> wf A -> wf B -> nc A = nr B -> nr C = nr A -> nc C = nc B ->
    0 < nr A -> 0 < nc A -> 0 < nc B ->
    closer (nr A) c || (closer (nc A) c || (closer (nc B) c || false)) = true ->
    mp4 base dflt T MP order acc c C A B = Ok (if acc then madd C (mmul A B) else mmul A B).
  Proof.
    intros Hck Hacc HC HA HB D1 D2 D3 P1 P2 P3 Hcl.
    unfold check_mp in Hck. rewrite Hacc in Hck. rewrite !andb_true_iff in Hck.
    destruct Hck as [[[[[[[[K1 K2] K3] K4] K5] K6] K7] K8] K9].
    apply deq_true in K1, K2, K3, K4.
    unfold mp4. rewrite K1, K2, K3.
    replace (is_base _ _ canon_closer canon_mp_args) with true.
    unfold mp_base_case. rewrite base_ok; auto using wf_mzero; try (cbn [nr nc mzero]; lia).
    cbn [bind]. rewrite D2, D3.
    replace (madd (mzero (nr A) (nc B)) (mmul A B)) with (mmul A B)
      by (symmetry; apply (madd_zero_l (mmul A B)); auto using wf_mmul).
    destruct acc.
    - unfold add_to, same_dims. cbn [nr nc mmul]. rewrite D2, D3, !Nat.eqb_refl. reflexivity.
    - apply copy_to_ok; auto using wf_mmul.
  Qed.
End MPbase.

(* ------------------------------------------------------------------------------------------ *)
(** * The bound [63 <= cutoff] of the internal routines is needed: FINDING.
    _mzd_addmul (strassen.c:667) is called by _mzd_trsm_upper_left (triangular.c:503) with the
    caller's cutoff, not normalised.  For 1 <= cutoff <= 62 the mult-doubling loop can stop with
    mult larger than one dimension: here m = n = 4096, k = 4095, cutoff = 32 give mult = 4096,
    mmm = nnn = 2048 but kkk = 0; the quadrant A11 is a window with 2048 rows and 0 columns, the
    recursive call takes the base case (closer(0,..)), sees a windowed operand and calls
    mzd_copy(NULL, A11), whose row loop writes word -1 of a matrix without data (mzd.c:1373-1380).
    The model returns [Err OOB]; the library segfaults (probe: _mzd_addmul_even on 4096x4095x4096 with
    cutoff 32, and the public mzd_trsm_upper_left(U, B, 32) with U 8191x8191, B 8191x4096; cutoff 64
    and 0 are fine). *)
From M4 Require Alg.StrassenGen.

Definition base_ref (C A B : mat) (clr : bool) : res mat := Ok (if clr then mmul A B else madd C (mmul A B)).
Lemma base_ref_correct : base_correct base_ref.
Proof. intros C A B clr _ _ _ _ _ _ _ _ _. reflexivity. Qed.

Theorem addmul_small_cutoff_refuted :
  exists cutoff C A B, 0 < cutoff < 63 /\ wf C /\ wf A /\ wf B /\ nc A = nr B /\ nr C = nr A /\ nc C = nc B /\
    0 < nr A /\ 0 < nc A /\ 0 < nc B /\
    StrassenGen._mzd_addmul_gen base_ref 2048 cutoff false false C A B = Err OOB.
Proof.
  exists 32, (mzero (64 * 64) (64 * 64)), (mzero (64 * 64) (64 * 64 - 1)), (mzero (64 * 64 - 1) (64 * 64)).
  split; [lia|]. split; [apply wf_mzero|]. split; [apply wf_mzero|]. split; [apply wf_mzero|].
  split; [reflexivity|]. split; [reflexivity|]. split; [reflexivity|].
  split; [cbn [nr mzero]; lia|]. split; [cbn [nc mzero]; lia|]. split; [cbn [nc mzero]; lia|].
  vm_compute. reflexivity.
Qed.
