(* Alg/PLERussianProofs8.v — C03, Four-Russians base case, part 8: the pivots found by
   _mzd_ple_submatrix are ONES of the naive algorithm's state.

   [SubPost] (part 4) describes the window after _mzd_ple_submatrix relative to the state
   N = nsteps M r0 pv of the naive algorithm, but it does not record that the entry of N in
   (r0 + l, c0 + pivots[l]) is a one.  The tables of mzd_make_table_ple are only meaningful for rows of U
   with a unit pivot (the index array E is searched by pattern), so this fact is needed for
   _mzd_process_rows_ple_N.  It is an invariant of the scan ([scan_one], same induction as [scan_spec]):

     sub_spec_ones : ple_sub yields [SubPost] AND [ones M r0 c0 pivots pv]                        *)
From Coq Require Import List NArith Arith Lia Bool Sorted.
From M4 Require Import Base.Bits Lin.Mat Lin.MatAlg Lin.Ops Lin.Spec Lin.Perm Lin.Observers
  Alg.PLE Alg.PLELemmas Alg.PLESpec Alg.PLEProofs Alg.PLEProofs2 Alg.PLEProofs3 Alg.PLEProofs4
  Alg.PLERussian Alg.PLERussianProofs Alg.PLERussianProofs2 Alg.PLERussianProofs3 Alg.PLERussianProofs4.
Import ListNotations.
Local Open Scope nat_scope.

(** the pivot entries of the naive state are ones *)
Definition ones (M : mat) (r0 c0 : nat) (pivots : list nat) (pv : list (nat * nat)) : Prop :=
  forall l, l < length pivots -> get (nsteps M r0 pv) (r0 + l) (c0 + nth l pivots 0) = true.

Section Ones.
  Variables (M : mat) (P0 Q0 : list nat) (r0 c0 kk w c' : nat).
  Hypothesis HM : wf M.
  Hypothesis Hr0 : r0 < nr M.
  Hypothesis Hck : c0 + kk <= w.
  Hypothesis Hkk1 : 1 <= kk.
  Hypothesis Hw : w <= nc M.
  Hypothesis HP0 : length P0 = nr M.
  Hypothesis HQ0 : length Q0 = nc M.
  Hypothesis Hc' : c' <= c0.
  Hypothesis Hgap : gap_zero M r0 c' c0.

  Notation SI' := (SI M P0 Q0 r0 c0 w c').

  (** the row where the scan of column c0 + cp stops has a one there in the naive state *)
  Lemma scan_one P Q pivots pv cp cur : cp < kk -> forall n W done i,
    SI' W P Q pivots done pv cp cur -> i + n = nr M -> r0 + length pivots <= i ->
    (forall i', r0 + length pivots <= i' -> i' < i ->
       N.testbit (row (nsteps M r0 pv) i') (N.of_nat (c0 + cp)) = false) ->
    (forall i', r0 + length pivots <= i' -> i' < i ->
       (forall l, l < length pivots -> i' <= nth l done 0) \/
       (forall p, In p pivots -> N.testbit (row W i') (N.of_nat (c0 + p)) = false)) ->
    match sub_scan n W r0 c0 cp pivots done i with
    | (_, _, Some i1) => get (nsteps M r0 pv) i1 (c0 + cp) = true /\ r0 + length pivots <= i1 < nr M
    | (_, _, None) => True
    end.
  Proof.
    intros Hcp. induction n as [|n IH]; intros W done i H Hn Hi S1 S2; cbn [sub_scan].
    - exact I.
    - pose proof (si_len_d _ _ _ _ _ _ _ _ _ _ _ _ _ _ _ H) as Hld.
      destruct (N.eqb_spec (read_bits W i c0 (S cp)) 0) as [Ez|Ez].
      + pose proof (proj1 (read_bits_zero_iff W i c0 (S cp)) Ez) as Hz.
        assert (Hzp : forall p, In p pivots -> N.testbit (row W i) (N.of_nat (c0 + p)) = false).
        { intros p Hp. apply Hz. pose proof (si_lt _ _ _ _ _ _ _ _ _ _ _ _ _ _ _ H p Hp). lia. }
        apply IH; auto; try lia.
        * intros i' H1 H2. destruct (Nat.eq_dec i' i) as [->|Hne]; [|apply S1; lia].
          pose proof (si_virt _ _ _ _ _ _ _ _ _ _ _ _ _ _ _ H i Hi) as Ev. cbv beta in Ev.
          rewrite catch_up_noop in Ev by assumption.
          pose proof (Hz cp ltac:(lia)) as Hb. rewrite Ev, testbit_lo in Hb.
          destruct (Nat.ltb_spec (c0 + cp) w); [|lia]. now rewrite andb_true_r in Hb.
        * intros i' H1 H2. destruct (Nat.eq_dec i' i) as [->|Hne]; [now right|apply S2; lia].
      + assert (Hin : i < nr M) by lia.
        destruct (si_visit M P0 Q0 r0 c0 kk w c' Hr0 Hck Hw HP0 HQ0 Hc' W P Q pivots done pv cp cur i H Hi
                    Hin S2) as [H1 Ex].
        cbv beta in Ex.
        set (x := catch_up W c0 i r0 pivots done (row W i)) in *.
        assert (Hdm : forall l, l < length pivots -> i <= nth l (dmax i done) 0).
        { intros l Hl. rewrite nth_dmax by lia. lia. }
        destruct (N.testbit x (N.of_nat (c0 + cp))) eqn:Eb.
        * split; [|lia]. rewrite Ex, testbit_lo in Eb. apply andb_true_iff in Eb as [Eb _]. exact Eb.
        * apply IH; auto; try lia.
          -- intros i' H2 H3. destruct (Nat.eq_dec i' i) as [->|Hne]; [|apply S1; lia].
             rewrite Ex, testbit_lo in Eb. destruct (Nat.ltb_spec (c0 + cp) w); [|lia].
             now rewrite andb_true_r in Eb.
          -- intros i' H2 H3. destruct (Nat.eq_dec i' i) as [->|Hne]; [now left|].
             destruct (S2 i' H2 ltac:(lia)) as [S|S]; [left|right].
             ++ intros l Hl. fold (dmax i done). rewrite nth_dmax by lia. specialize (S l Hl). lia.
             ++ intros p Hp. rewrite row_set_row. destruct (Nat.eqb_spec i' i); [lia|]. cbn [andb]. now apply S.
  Qed.

  (** a new pivot: the pivot rows found so far stay, the new pivot row is the row of the one *)
  Lemma ones_snoc W P Q pivots done pv cp cur i1 :
    SI' W P Q pivots done pv cp cur -> ones M r0 c0 pivots pv ->
    get (nsteps M r0 pv) i1 (c0 + cp) = true -> r0 + length pivots <= i1 < nr M ->
    ones M r0 c0 (pivots ++ [cp]) (pv ++ [(i1, c0 + cp)]).
  Proof.
    intros H Ho Hb Hi l Hl. rewrite app_length in Hl. cbn [length] in Hl.
    pose proof (si_len_pv _ _ _ _ _ _ _ _ _ _ _ _ _ _ _ H) as Hlpv.
    destruct (si_wfN _ _ _ _ _ _ _ _ _ _ _ _ _ _ _ H) as (HwN & HrN & HcN). cbv beta in HwN, HrN, HcN.
    rewrite nsteps_snoc, Hlpv.
    destruct (nstep_facts (nsteps M r0 pv) (r0 + length pivots) i1 (c0 + cp) HwN ltac:(lia))
      as (_ & _ & _ & Hrow).
    unfold get. rewrite Hrow. destruct (Nat.ltb_spec (r0 + length pivots) (r0 + l)); [lia|].
    destruct (Nat.eq_dec l (length pivots)) as [->|Hne].
    - rewrite swapn_l, app_nth2, Nat.sub_diag by lia. exact Hb.
    - rewrite swapn_other by lia. rewrite app_nth1 by lia. apply Ho. lia.
  Qed.

  Lemma cols_spec_ones : forall n W P Q pivots done pv cp cur, cp + n = kk ->
    SI' W P Q pivots done pv cp cur -> ones M r0 c0 pivots pv ->
    let '(W1, (P1, Q1), (pivots1, done1)) := sub_cols n W P Q pivots done r0 c0 cp in
    exists pv1 cur1, SI' W1 P1 Q1 pivots1 done1 pv1 kk cur1 /\ ones M r0 c0 pivots1 pv1.
  Proof.
    induction n as [|n IH]; intros W P Q pivots done pv cp cur Hn H Ho; cbn [sub_cols].
    - exists pv, cur. now replace kk with cp by lia.
    - pose proof (si_rank _ _ _ _ _ _ _ _ _ _ _ _ _ _ _ H) as Hrk.
      pose proof (si_nrW _ _ _ _ _ _ _ _ _ _ _ _ _ _ _ H) as HnW.
      pose proof (scan_spec M P0 Q0 r0 c0 kk w c' Hr0 Hck Hw HP0 HQ0 Hc' P Q pivots pv cp cur ltac:(lia)
                    (nr M - (r0 + length pivots)) W done (r0 + length pivots) H
                    ltac:(lia) ltac:(lia) ltac:(intros; lia) ltac:(intros; lia)) as HS.
      pose proof (scan_one P Q pivots pv cp cur ltac:(lia)
                    (nr M - (r0 + length pivots)) W done (r0 + length pivots) H
                    ltac:(lia) ltac:(lia) ltac:(intros; lia) ltac:(intros; lia)) as HO.
      rewrite HnW.
      destruct (sub_scan (nr M - (r0 + length pivots)) W r0 c0 cp pivots done (r0 + length pivots))
        as [[W1 done1] [i1|]].
      + destruct HO as [Hb Hi].
        eapply IH; [|exact HS|]; [lia|]. eapply ones_snoc; eauto.
      + eapply IH; [|exact HS|exact Ho]; lia.
  Qed.

  (** [sub_spec] with the additional fact *)
  Theorem sub_spec_ones W0 : wf W0 -> nr W0 = nr M -> nc W0 = w ->
    (forall i, row W0 i = lo w (row M i)) ->
    let '((W1, done_row), (P1, Q1), pivots) := ple_sub W0 r0 c0 kk P0 Q0 in
    exists pv cur, SubPost M P0 Q0 r0 c0 kk w c' W1 done_row P1 Q1 pivots pv cur /\
                   ones M r0 c0 pivots pv.
  Proof.
    intros H1 H2 H3 H4. unfold ple_sub.
    pose proof (cols_spec_ones kk W0 P0 Q0 [] [] [] 0 c' ltac:(lia)
                  (si_init M P0 Q0 r0 c0 kk w c' HM Hr0 Hck Hw HP0 HQ0 Hc' Hgap W0 H1 H2 H3 H4)
                  ltac:(intros l Hl; cbn [length] in Hl; lia)) as HC.
    destruct (sub_cols kk W0 P0 Q0 [] [] r0 c0 0) as [[W1 [P1 Q1]] [pivots done]].
    destruct HC as (pv & cur & HS & Hones). exists pv, cur. split; [|exact Hones].
    pose proof (si_wfW _ _ _ _ _ _ _ _ _ _ _ _ _ _ _ HS) as HW1.
    pose proof (si_nrW _ _ _ _ _ _ _ _ _ _ _ _ _ _ _ HS) as HnW1.
    pose proof (si_ncW _ _ _ _ _ _ _ _ _ _ _ _ _ _ _ HS) as HcW1.
    pose proof (si_len_d _ _ _ _ _ _ _ _ _ _ _ _ _ _ _ HS) as Hld.
    pose proof (si_rank _ _ _ _ _ _ _ _ _ _ _ _ _ _ _ HS) as Hrk.
    pose proof (si_done _ _ _ _ _ _ _ _ _ _ _ _ _ _ _ HS) as Hdone.
    pose proof (si_sorted _ _ _ _ _ _ _ _ _ _ _ _ _ _ _ HS) as Hsort.
    pose proof (si_lt _ _ _ _ _ _ _ _ _ _ _ _ _ _ _ HS) as Hlt.
    set (done_row := if length pivots <? kk then nr W0 - 1 else max_value done).
    assert (Hdr : done_row < nr M).
    { unfold done_row. destruct (length pivots <? kk); [lia|]. unfold max_value.
      apply max_value_lt; [lia|]. intros t Ht. apply Hdone. lia. }
    assert (Hkk : length pivots <= kk).
    { replace kk with (kk - 0) by lia. apply sorted_length_le; [assumption|].
      intros p Hp. specialize (Hlt p Hp). lia. }
    destruct (finish_rows c0 done_row pivots done W1 r0 HW1 Hld ltac:(lia)) as (Hw2 & Hr2 & Hc2 & Hrow); [|assumption|].
    { intros t Ht. specialize (Hdone t Ht). lia. }
    cbv zeta in Hrow. set (W2 := sub_finish W1 c0 done_row r0 pivots done) in *.
    constructor; try (solve [apply HS]); try congruence; auto.
    - intros l Hl. pose proof (si_pvi _ _ _ _ _ _ _ _ _ _ _ _ _ _ _ HS l Hl). specialize (Hdone l Hl). lia.
    - intros Hlt2. unfold done_row. destruct (Nat.ltb_spec (length pivots) kk); lia.
    - intros i Hi. rewrite Hrow. destruct (Nat.leb_spec (r0 + length pivots) i) as [C|C]; cbn [andb].
      + destruct (Nat.leb_spec i done_row); [|lia]. apply (si_virt _ _ _ _ _ _ _ _ _ _ _ _ _ _ _ HS). assumption.
      + apply (si_top _ _ _ _ _ _ _ _ _ _ _ _ _ _ _ HS). lia.
    - intros i Hi Hin.
      assert (Hfull : ~ length pivots < kk).
      { intros C. unfold done_row in Hi. destruct (Nat.ltb_spec (length pivots) kk); lia. }
      assert (Hmx : forall l, l < length pivots -> nth l done 0 < i).
      { intros l Hl. unfold done_row in Hi. destruct (Nat.ltb_spec (length pivots) kk); [lia|].
        pose proof (max_value_ge done 0 l ltac:(lia)). unfold max_value in Hi. lia. }
      assert (Hri : r0 + length pivots <= i).
      { destruct (length pivots) as [|n] eqn:E; [lia|]. specialize (Hmx 0 ltac:(lia)).
        specialize (Hdone 0 ltac:(lia)). lia. }
      splits; auto.
      + rewrite Hrow. destruct (Nat.leb_spec i done_row); [lia|]. rewrite andb_false_r.
        now apply (si_untouched _ _ _ _ _ _ _ _ _ _ _ _ _ _ _ HS).
      + intros l Hl. pose proof (si_pvi _ _ _ _ _ _ _ _ _ _ _ _ _ _ _ HS l Hl). specialize (Hmx l Hl). lia.
  Qed.
End Ones.
