(* Alg/Mul.v — executable models (definitions only) of the cubic and the "Method of the Four
   Russians" (M4RM) multiplication routes of m4ri.  Proofs: Alg/MulProofs.v.

   Modelled C code (pinned tree /repo/m4ri):
     mzd.c:1119-1140   mzd_transpose            (only the call  mzd_transpose(NULL, B)  of the naive routes)
     mzd.c:1142-1158   mzd_mul_naive
     mzd.c:1160-1173   mzd_addmul_naive
     mzd.c:1175-1255   _mzd_mul_naive           (dot products against the TRANSPOSED second operand)
     mzd.c:1257-1269   _mzd_mul_va              (row combination)
     mzd.c:1295-1302   mzd_set_ui(C, 0)         (the clearing step of _mzd_mul_va / _mzd_mul_m4rm)
     brilliantrussian.c: 999-1012  mzd_mul_m4rm
     brilliantrussian.c:1014-1028  mzd_addmul_m4rm
     brilliantrussian.c:1032-1190  _mzd_mul_m4rm
   mzd_make_table is Alg/Gray.v ([make_table], from arbitrary stale table / index-buffer contents).

   Result type: [option mat].  [None] = the C call does not return normally:
     - m4ri_die (wrong dimensions; mzd_copy inside mzd_transpose on an empty operand),
     - the crash of the clearing loops on an r x 0 destination with r > 0 (NULL data pointer),
     - the non-terminating row-block loop for a block size 0 (never the case in a real build:
       __M4RI_MUL_BLOCKSIZE = MIN(sqrt(4*L3)/2, 2048) > 0; [blk] is a parameter here),
     - only for the UNCHECKED entry points (mzd_mul_naive, mzd_addmul_naive, _mzd_mul_m4rm do not
       compare A->ncols with B->nrows): A.ncols <> B.nrows, where the C code reads out of bounds.
   Every one of these cases is spelled out at its definition.  Matrices are the abstract matrices of
   Lin/Mat.v; the operands are never modified (the models are pure functions of them). *)
From Coq Require Import List NArith ZArith Arith Bool.
From M4 Require Import Base.Bits Lin.Mat Lin.Ops Alg.Gray.
Import ListNotations.
Local Open Scope nat_scope.

(* ------------------------------------------------------------------------------------------ *)
(** * 1. Parity and dot product *)
(** [parity x] = (popcount x) mod 2.  The 64-way network m4ri_parity64 (parity.h:113) that computes
    64 of these at once (bit k of its result = parity of buf[k]) is verified separately (C19 leaf). *)
Fixpoint parity_pos (p : positive) : bool :=
  match p with xH => true | xO q => parity_pos q | xI q => negb (parity_pos q) end.
Definition parity (x : N) : bool := match x with N0 => false | Npos p => parity_pos p end.

(** mzd.c:1207-1208 / 1220-1221:  parity[k] = a[0] & b[0];  parity[k] ^= a[ii] & b[ii]  — the
    parity of that word equals the parity of the AND of the two complete rows *)
Definition dot (a b : N) : bool := parity (N.land a b).

(** the word delivered by m4ri_parity64 for a buffer whose entries have the given parities *)
Fixpoint bools_to_N (l : list bool) : N :=
  match l with [] => 0%N | b :: t => (2 * bools_to_N t + N.b2n b)%N end.

(* ------------------------------------------------------------------------------------------ *)
(** * 2. Helpers shared by all routes *)
(** m4ri_radix - 10 (mzd.c:1150, 1165; brilliantrussian.c:1063) *)
Definition naive_cutoff : nat := 54.

(** the clearing step: mzd.c:1178-1188 (in _mzd_mul_naive) and mzd_set_ui(C,0), mzd.c:1295-1302.
    Both execute  row[width-1] &= ~mask_end  (resp. row[j] with j = 0) for every row; for ncols = 0
    the data pointer is NULL (mzd_init, mzd.c:151-156) and width = 0, so with nrows > 0 this is a
    write through NULL (+/- 8): SIGSEGV (confirmed by probe). *)
Definition clear_model (C : mat) : option mat :=
  if (nc C =? 0) && (0 <? nr C) then None else Some (mzero (nr C) (nc C)).

(** mzd_transpose(NULL, B), mzd.c:1119-1140.  DST = mzd_init(B->ncols, B->nrows); for an empty B the
    code runs mzd_copy(DST, B) (mzd.c:1126-1127) whose size test (mzd.c:1370) compares the
    TRANSPOSED shape of DST with B and dies unless B is 0 x 0. *)
Definition transpose_new (B : mat) : option mat :=
  if (nr B =? 0) || (nc B =? 0) then
    if (nc B <? nr B) || (nr B <? nc B) then None     (* "mzd_copy: Target matrix is too small." *)
    else Some (mzero (nc B) (nr B))
  else Some (mtrans B).

(** xor [f j] into the rows j of C with lo <= j < hi *)
Definition add_rows (C : mat) (lo hi : nat) (f : nat -> N) : mat :=
  map_rows (fun j c => if (lo <=? j) && (j <? hi) then N.lxor c (f j) else c) C.

(* ------------------------------------------------------------------------------------------ *)
(** * 3. _mzd_mul_naive(C, A, BT, clear)   (mzd.c:1175-1255) *)
(** the buffer  word parity[64]  (mzd.c:1196-1197), abstracted to the parities of its entries; it is
    initialised ONCE and lives across all rows and column groups: in the last, partial column group
    only the first ncols%64 entries are refreshed, the others keep STALE values of the previous
    group and are removed by mask_end (mzd.c:1218-1223). *)
Definition pbuf0 : list bool := repeat false 64.

(** for k = 0 .. n-1:  parity[k] = <a, BT[j0 + k]> *)
Definition refresh (a : N) (BT : mat) (j0 n : nat) (p : list bool) : list bool :=
  fold_left (fun p k => upd k (dot a (row BT (j0 + k))) p) (seq 0 n) p.

(** the body executed for one row i (mzd.c:1202-1224 = 1229-1250): [eol] full words, then the
    partial last word if ncols % 64 <> 0 *)
Definition naive_row (a : N) (BT : mat) (ncols : nat) (st : N * list bool) : N * list bool :=
  let eol := ncols / 64 in
  let st1 := fold_left (fun st g =>
                 let p' := refresh a BT (64 * g) 64 (snd st) in
                 (N.lxor (fst st) (N.shiftl (bools_to_N p') (N.of_nat (64 * g))), p'))
               (seq 0 eol) st in
  if ncols mod 64 =? 0 then st1
  else
    let p2 := refresh a BT (64 * eol) (ncols mod 64) (snd st1) in
    (N.lxor (fst st1)
            (N.shiftl (N.land (bools_to_N p2) (N.ones (N.of_nat (ncols mod 64)))) (N.of_nat (64 * eol))),
     p2).

(** rows of A and C in step, threading the parity buffer *)
Fixpoint naive_rows (BT : mat) (ncols : nat) (ra rc : list N) (p : list bool) : list N * list bool :=
  match ra, rc with
  | a :: ra', c :: rc' =>
      let st := naive_row a BT ncols (c, p) in
      let rest := naive_rows BT ncols ra' rc' (snd st) in
      (fst st :: fst rest, snd rest)
  | _, _ => ([], p)
  end.

(** [blk] = __M4RI_MUL_BLOCKSIZE.  First loop (mzd.c:1200-1226): the rows of the complete blocks,
    i.e. rows 0 .. blk*(nrows/blk)-1; second loop (mzd.c:1228-1251): rows nrows - nrows%blk .. nrows-1. *)
Definition mul_naive_core (blk : nat) (C A BT : mat) (clear : bool) : option mat :=
  match (if clear then clear_model C else Some C) with
  | None => None
  | Some C0 =>
    if blk =? 0 then None          (* for (start = 0; start + 0 <= nrows; start += 0): no exit *)
    else
      let n1 := blk * (nr C / blk) in
      let n2 := nr C - nr C mod blk in
      let s1 := naive_rows BT (nc C) (firstn n1 (rows A)) (firstn n1 (rows C0)) pbuf0 in
      let s2 := naive_rows BT (nc C) (skipn n2 (rows A)) (skipn n2 (rows C0)) (snd s1) in
      Some (mk (nr C) (nc C) (fst s1 ++ fst s2))
  end.

(* ------------------------------------------------------------------------------------------ *)
(** * 4. _mzd_mul_va(C, v, A, clear)   (mzd.c:1257-1269), v = first factor, A = second factor *)
(** for i < v->nrows, j < v->ncols: if v[i,j] then C[i] ^= A[j] over C->width words
    (mzd_combine_even_in_place, mzd.h:919) *)
Definition va_row (a : N) (n : nat) (B : mat) (c : N) : N :=
  fold_left (fun c j => if N.testbit a (N.of_nat j) then N.lxor c (row B j) else c) (seq 0 n) c.

Definition mul_va (C A B : mat) (clear : bool) : option mat :=
  match (if clear then clear_model C else Some C) with       (* mzd_set_ui(C, 0) *)
  | None => None
  | Some C0 => Some (map_rows (fun i c => if i <? nr A then va_row (row A i) (nc A) B c else c) C0)
  end.

(* ------------------------------------------------------------------------------------------ *)
(** * 5. mzd_mul_naive / mzd_addmul_naive   (mzd.c:1142-1173) *)
(** the part common to both after their dimension checks.  NOT checked by the C code:
    A->ncols = B->nrows.  With a mismatch the dot-product loops run over A->width words of rows
    of BT that have width(B->nrows) words, resp. _mzd_mul_va reads rows j < A->ncols of B: out of
    bounds reads; the model answers [None] for them (all theorems assume nc A = nr B). *)
Definition naive_route (blk : nat) (C A B : mat) (clear : bool) : option mat :=
  if negb (nc A =? nr B) then None
  else if nc B <? naive_cutoff then
    match transpose_new B with
    | None => None
    | Some BT => mul_naive_core blk C A BT clear
    end
  else mul_va C A B clear.

(** mzd_mul_naive(C, A, B); [C = None] is the call with C == NULL (fresh mzd_init(A->nrows, B->ncols)) *)
Definition mul_naive (blk : nat) (C : option mat) (A B : mat) : option mat :=
  match C with
  | None => naive_route blk (mzero (nr A) (nc B)) A B true
  | Some C =>
    if negb ((nr C =? nr A) && (nc C =? nc B)) then None       (* m4ri_die, mzd.c:1146-1148 *)
    else naive_route blk C A B true
  end.

(** mzd_addmul_naive(C, A, B) *)
Definition addmul_naive (blk : nat) (C A B : mat) : option mat :=
  if negb ((nr C =? nr A) && (nc C =? nc B)) then None         (* m4ri_die, mzd.c:1161-1163 *)
  else naive_route blk C A B false.

(** exactly when the naive routes return (given compatible dimensions): see
    [naive_route_defined] in MulProofs.v *)
Definition naive_defined (A B : mat) (clear : bool) : bool :=
  (naive_cutoff <=? nc B)
  || ((0 <? nr B) && (0 <? nc B))
  || ((nr B =? 0) && (nc B =? 0) && (negb clear || (nr A =? 0))).

(* ------------------------------------------------------------------------------------------ *)
(** * 6. _mzd_mul_m4rm(C, A, B, k, clear)   (brilliantrussian.c:1032-1190) *)
Definition ntables : nat := 8.                        (* __M4RI_M4RM_NTABLES *)
(** the state of T[0..7] (rows as N) and L[0..7] *)
Definition tables : Type := list (list N * list nat).
Definition tab (g : tables) (z : nat) : list N * list nat := nth z g ([], []).

(** brilliantrussian.c:1086-1089 *)
Definition clip_k (k : Z) : nat :=
  if (k <? 2)%Z then 2 else if (8 <? k)%Z then 8 else Z.to_nat k.

(** brilliantrussian.c:1075-1085: for k == 0 a value is computed from the cache size and the
    dimensions with floating point log2/round; the model takes that value as the PARAMETER
    [kauto] (any integer whatsoever), so that no property of it is assumed. *)
Definition choose_k (kauto k : Z) : nat := clip_k (if (k =? 0)%Z then kauto else k).

(** what the C code guarantees about the tables when they are first used, and what is preserved
    from block to block: T[z] = mzd_init(2^k, b_nc) (brilliantrussian.c:1098-1102; rows zero), the
    index buffers are m4ri_mm_malloc'ed (line 1093: uninitialised).  The theorems hold for every
    state with at least 2^k rows / entries per table, row 0 zero (never written by
    mzd_make_table), and arbitrary other rows within the physically present words. *)
Definition table_ok (k : nat) (B : mat) (TL : list N * list nat) : Prop :=
  2 ^ k <= length (fst TL) /\ 2 ^ k <= length (snd TL) /\
  nth 0 (fst TL) 0%N = 0%N /\ Forall (bounded (radix * mwidth (nc B))) (fst TL).
Definition tables_ok (k : nat) (B : mat) (g : tables) : Prop :=
  forall z, z < ntables -> table_ok k B (tab g z).
(** decidable form, for examples *)
Definition table_okb (k : nat) (B : mat) (TL : list N * list nat) : bool :=
  (2 ^ k <=? length (fst TL)) && (2 ^ k <=? length (snd TL)) &&
  N.eqb (nth 0 (fst TL) 0%N) 0%N && forallb (boundedb (radix * mwidth (nc B))) (fst TL).
Definition tables_okb (k : nat) (B : mat) (g : tables) : bool :=
  forallb (fun z => table_okb k B (tab g z)) (seq 0 ntables).

(** brilliantrussian.c:1116-1118:  for z < 8: mzd_make_table(B, kk*i + k*z, 0, k, T[z], L[z]) *)
Definition rebuild (B : mat) (k r0 : nat) (g : tables) : tables :=
  map (fun z => make_table B (r0 + k * z) 0 k (fst (tab g z)) (snd (tab g z))) (seq 0 ntables).

(** brilliantrussian.c:1125-1151:  t[z] = T[z][ L[z][(a >> z*k) & bm] ];  c ^= t[0] ^ ... ^ t[7] *)
Definition lookup_all (g : tables) (k : nat) (a : N) : N :=
  fold_left (fun acc z =>
               N.lxor acc (tlookup (tab g z)
                                   (N.land (N.shiftr a (N.of_nat (z * k))) (N.ones (N.of_nat k)))))
            (seq 0 ntables) 0%N.

(** number of iterations of  for (giantstep = 0; giantstep < a_nr; giantstep += blocksize) *)
Definition ngiant (blk a_nr : nat) : nat := (a_nr + blk - 1) / blk.

(** phase 1 (brilliantrussian.c:1111-1154): row blocks of [blk] rows (outer), column blocks of
    kk = 8k columns of A (inner); all 8 tables are REBUILT, on top of their previous contents, for
    every (giantstep, i) *)
Definition m4rm_phase1 (blk k : nat) (A B : mat) (st : mat * tables) : mat * tables :=
  let kk := ntables * k in
  let endb := nc A / kk in
  fold_left (fun st gs =>
      let lo := gs * blk in
      let hi := Nat.min (lo + blk) (nr A) in
      fold_left (fun st i =>
          let g' := rebuild B k (kk * i) (snd st) in
          (add_rows (fst st) lo hi (fun j => lookup_all g' k (read_bits A j (kk * i) kk)), g'))
        (seq 0 endb) st)
    (seq 0 (ngiant blk (nr A))) st.

(** one single-table step: mzd_make_table(B, r, 0, n, T[0], L[0]) and, for every row j of A,
    c ^= T[0][ L[0][ read_bits_int(A, j, r, n) ] ]   (brilliantrussian.c:1160-1166, 1170-1176) *)
Definition m4rm_single (A B : mat) (r n : nat) (st : mat * tables) : mat * tables :=
  let TL := make_table B r 0 n (fst (tab (snd st) 0)) (snd (tab (snd st) 0)) in
  (add_rows (fst st) 0 (nr A) (fun j => tlookup TL (read_bits A j r n)), upd 0 TL (snd st)).

(** phases 2 and 3 (brilliantrussian.c:1157-1178): blocks of k columns with table 0, for
    i = kk/k*end .. a_nc/k - 1, then (nested in the same if) the last a_nc % k columns; in the
    tail the column offset is k*i with the loop variable i left at a_nc/k *)
Definition m4rm_phase2 (k : nat) (A B : mat) (st : mat * tables) : mat * tables :=
  let kk := ntables * k in
  let endb := nc A / kk in
  if nc A mod kk =? 0 then st
  else
    let i0 := kk / k * endb in
    let st1 := fold_left (fun st i => m4rm_single A B (k * i) k st)
                         (seq i0 (nc A / k - i0)) st in
    if nc A mod k =? 0 then st1
    else m4rm_single A B (k * (nc A / k)) (nc A mod k) st1.

(** [g] = state of the tables/index buffers at their first use (see [tables_ok]).  NOT checked by
    the C function itself: A->ncols = B->nrows, C of shape A->nrows x B->ncols; the model answers
    [None] otherwise (the public wrappers below check before calling; mzd_make_table would skip
    rows >= B->nrows and read_bits would read beyond A's row). *)
Definition mul_m4rm_core (blk : nat) (kauto k : Z) (g : tables) (C A B : mat) (clear : bool) : option mat :=
  if (nc B <? naive_cutoff) || (nr A <? 16) then              (* brilliantrussian.c:1063-1068 *)
    if clear then mul_naive blk (Some C) A B else addmul_naive blk C A B
  else if negb ((nc A =? nr B) && (nr C =? nr A) && (nc C =? nc B)) then None
  else
    match (if clear then clear_model C else Some C) with        (* mzd_set_ui(C, 0), line 1071 *)
    | None => None
    | Some C0 =>
      if blk =? 0 then None                                     (* giantstep += 0 never ends *)
      else
        let k' := choose_k kauto k in
        Some (fst (m4rm_phase2 k' A B (m4rm_phase1 blk k' A B (C0, g))))
    end.

(** mzd_mul_m4rm(C, A, B, k)   (brilliantrussian.c:999-1012); [C = None] is C == NULL *)
Definition mul_m4rm (blk : nat) (kauto k : Z) (g : tables) (C : option mat) (A B : mat) : option mat :=
  if negb (nc A =? nr B) then None                              (* m4ri_die, line 1003 *)
  else match C with
       | None => mul_m4rm_core blk kauto k g (mzero (nr A) (nc B)) A B true
       | Some C =>
         if negb ((nr C =? nr A) && (nc C =? nc B)) then None   (* m4ri_die, line 1008 *)
         else mul_m4rm_core blk kauto k g C A B true
       end.

(** mzd_addmul_m4rm(C, A, B, k)   (brilliantrussian.c:1014-1028): an empty C is returned at once,
    BEFORE any dimension check *)
Definition addmul_m4rm (blk : nat) (kauto k : Z) (g : tables) (C A B : mat) : option mat :=
  if (nc C =? 0) || (nr C =? 0) then Some C                     (* line 1018 *)
  else if negb (nc A =? nr B) then None                         (* m4ri_die, line 1020 *)
  else if negb ((nr C =? nr A) && (nc C =? nc B)) then None     (* m4ri_die, line 1025 *)
  else mul_m4rm_core blk kauto k g C A B false.

(** the accumulation the routes are specified against *)
Definition acc (clear : bool) (C P : mat) : mat := if clear then P else madd C P.

(* ------------------------------------------------------------------------------------------ *)
(** * 7. Entry point for extraction / the correspondence driver *)
(** what a fresh process does: the tables come zeroed from mzd_init; the (uninitialised) index
    buffers are taken as zero.  [k] is the argument passed to mzd_mul_m4rm / mzd_addmul_m4rm
    (k = 0: the automatic choice, whose value is immaterial by [m4rm_spec]; it is run with the
    lower clip value).  [clear = true]: mzd_mul_m4rm(C, A, B, k) with a supplied C;
    [clear = false]: mzd_addmul_m4rm(C, A, B, k). *)
Definition tables_init (k : nat) : tables :=
  repeat (repeat 0%N (2 ^ k), repeat 0 (2 ^ k)) ntables.

Definition m4rm_run (k blk : nat) (clear : bool) (C A B : mat) : option mat :=
  let kz := Z.of_nat k in
  let g := tables_init (choose_k kz kz) in
  if clear then mul_m4rm blk kz kz g (Some C) A B else addmul_m4rm blk kz kz g C A B.

(** the naive routes, same calling convention *)
Definition naive_run (blk : nat) (clear : bool) (C A B : mat) : option mat :=
  if clear then mul_naive blk (Some C) A B else addmul_naive blk C A B.
