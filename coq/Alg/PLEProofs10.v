(* Alg/PLEProofs10.v — C03, part 10: the block recursion, concrete part continued: the permutations
   and the final matrix of _mzd_ple at entry level, and the theorem [ple_rec_spec]. *)
From Coq Require Import List NArith Arith Lia Bool Sorted.
From M4 Require Import Base.Bits Lin.Mat Lin.MatAlg Lin.Ops Lin.OpsProofs Lin.Spec Lin.Perm Lin.Observers Lin.Tri
  Alg.PLE Alg.PLELemmas Alg.PLESpec Alg.PLEProofs Alg.PLEProofs2 Alg.PLEProofs3 Alg.PLEProofs4
  Alg.PLEProofs6 Alg.PLEProofs7 Alg.PLEProofs8 Alg.PLEProofs9.
Import ListNotations.
Local Open Scope nat_scope.

(** * the permutations of the result (ple.c:139-148) *)
Section Lists.
  Variables (m n m0 n1 r1 r2 : nat) (P Q P1 Q1 P2 Q2 : list nat).
  Hypothesis Hm0 : m0 <= m.
  Hypothesis Hn1 : n1 <= n.
  Hypothesis Hr1 : r1 <= m0.
  Hypothesis Hr1n : r1 <= n1.
  Hypothesis Hr2 : r2 <= m0 - r1.
  Hypothesis Hr2n : r2 <= n - n1.
  Hypothesis HlP : length P = m.
  Hypothesis HlQ : length Q = n.
  Hypothesis HP_id : forall i, m0 <= i -> i < m -> nth i P 0 = i.
  Hypothesis HlP1 : length P1 = m0.
  Hypothesis HlQ1 : length Q1 = n1.
  Hypothesis HlP2 : length P2 = m0 - r1.
  Hypothesis HlQ2 : length Q2 = n - n1.
  Hypothesis LP1 : lapack P1 m0.
  Hypothesis LQ1 : lapack Q1 n1.
  Hypothesis LP2 : lapack P2 (m0 - r1).
  Hypothesis LQ2 : lapack Q2 (n - n1).
  Hypothesis P2_id : forall i, r2 <= i -> i < m0 - r1 -> nth i P2 0 = i.

  Let P' := paste_list (paste_list P 0 P1) r1 (map (fun x => x + r1) P2).
  Let Q'' := paste_list (paste_list Q 0 Q1) n1 (map (fun x => x + n1) Q2).
  Let Q' := paste_list Q'' r1 (lo_ple Q'' n1 r2).

  Lemma ls_P_nth k : k < m ->
    nth k P' 0 = if k <? r1 then nth k P1 0 else if k <? m0 then r1 + nth (k - r1) P2 0 else nth k P 0.
  Proof.
    intros Hk. unfold P'.
    assert (L1 : length (paste_list P 0 P1) = m) by (rewrite paste_list_length; lia).
    rewrite nth_paste_list by (rewrite map_length, L1; lia). rewrite map_length, HlP2.
    destruct (Nat.leb_spec r1 k) as [H1|H1]; cbn [andb].
    - destruct (Nat.ltb_spec k r1); [lia|].
      destruct (Nat.ltb_spec k (r1 + (m0 - r1))) as [H2|H2].
      + destruct (Nat.ltb_spec k m0); [|lia].
        rewrite (nth_map_default _ _ _ 0) by lia. lia.
      + destruct (Nat.ltb_spec k m0); [lia|].
        rewrite nth_paste_list by lia. rewrite HlP1. cbn [Nat.add].
        destruct (Nat.ltb_spec k m0); [lia|]. now rewrite andb_false_r.
    - destruct (Nat.ltb_spec k r1); [|lia]. rewrite nth_paste_list by lia. rewrite HlP1.
      cbn [Nat.add]. destruct (Nat.leb_spec 0 k); [|lia]. destruct (Nat.ltb_spec k m0); [|lia].
      cbn [andb]. now rewrite Nat.sub_0_r.
  Qed.

  Lemma ls_P_len : length P' = m.
  Proof.
    unfold P'. assert (L1 : length (paste_list P 0 P1) = m) by (rewrite paste_list_length; lia).
    rewrite paste_list_length; rewrite ?map_length; lia.
  Qed.

  Lemma ls_P_lapack : lapack P' m.
  Proof.
    intros k Hk. rewrite ls_P_len in Hk. rewrite ls_P_nth by assumption.
    destruct (Nat.ltb_spec k r1).
    - pose proof (LP1 k ltac:(lia)). lia.
    - destruct (Nat.ltb_spec k m0).
      + pose proof (LP2 (k - r1) ltac:(lia)). lia.
      + rewrite HP_id by lia. lia.
  Qed.

  Lemma ls_P_id k : r1 + r2 <= k -> k < m -> nth k P' 0 = k.
  Proof.
    intros H1 H2. rewrite ls_P_nth by assumption. destruct (Nat.ltb_spec k r1); [lia|].
    destruct (Nat.ltb_spec k m0).
    - rewrite P2_id by lia. lia.
    - apply HP_id; lia.
  Qed.

  Lemma ls_Q''_len : length Q'' = n.
  Proof.
    unfold Q''. assert (L1 : length (paste_list Q 0 Q1) = n) by (rewrite paste_list_length; lia).
    rewrite paste_list_length; rewrite ?map_length; lia.
  Qed.

  Lemma ls_Q''_nth k : k < n ->
    nth k Q'' 0 = if k <? n1 then nth k Q1 0 else n1 + nth (k - n1) Q2 0.
  Proof.
    intros Hk. unfold Q''.
    assert (L1 : length (paste_list Q 0 Q1) = n) by (rewrite paste_list_length; lia).
    rewrite nth_paste_list by (rewrite map_length, L1; lia). rewrite map_length, HlQ2.
    destruct (Nat.leb_spec n1 k) as [H1|H1]; cbn [andb].
    - destruct (Nat.ltb_spec k n1); [lia|]. destruct (Nat.ltb_spec k (n1 + (n - n1))); [|lia].
      rewrite (nth_map_default _ _ _ 0) by lia. lia.
    - destruct (Nat.ltb_spec k n1); [|lia]. rewrite nth_paste_list by lia. rewrite HlQ1.
      cbn [Nat.add]. destruct (Nat.leb_spec 0 k); [|lia]. destruct (Nat.ltb_spec k n1); [|lia].
      cbn [andb]. now rewrite Nat.sub_0_r.
  Qed.

  Lemma ls_Q_len : length Q' = n.
  Proof.
    unfold Q'. rewrite paste_list_length; rewrite ?lo_ple_length; rewrite ?ls_Q''_len; lia.
  Qed.

  Lemma ls_Q_nth k : k < n ->
    nth k Q' 0 = if (r1 <=? k) && (k <? r1 + r2) then n1 + nth (k - r1) Q2 0
                 else if k <? n1 then nth k Q1 0 else n1 + nth (k - n1) Q2 0.
  Proof.
    intros Hk. unfold Q'.
    assert (Ll : length (lo_ple Q'' n1 r2) = r2) by (apply lo_ple_length; rewrite ls_Q''_len; lia).
    rewrite nth_paste_list by (rewrite Ll, ls_Q''_len; lia). rewrite Ll.
    destruct ((r1 <=? k) && (k <? r1 + r2)) eqn:E.
    - apply andb_true_iff in E as [E1 E2]. apply Nat.leb_le in E1. apply Nat.ltb_lt in E2.
      rewrite nth_lo_ple by lia. rewrite ls_Q''_nth by lia.
      destruct (Nat.ltb_spec (n1 + (k - r1)) n1); [lia|]. do 2 f_equal. lia.
    - now apply ls_Q''_nth.
  Qed.

  Lemma ls_Q_lapack : lapack Q' n.
  Proof.
    intros k Hk. rewrite ls_Q_len in Hk. rewrite ls_Q_nth by assumption.
    destruct ((r1 <=? k) && (k <? r1 + r2)) eqn:E.
    - apply andb_true_iff in E as [E1 E2]. apply Nat.leb_le in E1. apply Nat.ltb_lt in E2.
      pose proof (LQ2 (k - r1) ltac:(lia)). lia.
    - destruct (Nat.ltb_spec k n1).
      + pose proof (LQ1 k ltac:(lia)). lia.
      + pose proof (LQ2 (k - n1) ltac:(lia)). lia.
  Qed.
End Lists.

(** * the final matrix before compression (ple.c:127-137) *)
Section Finish.
  Variables (As T0 T2 : mat) (m n m0 n1 r1 r2 : nat) (P2 : list nat) (Xf : nat -> nat -> bool).
  Hypothesis HwAs : wf As.
  Hypothesis HrAs : nr As = m.
  Hypothesis HcAs : nc As = n.
  Hypothesis Hm0 : m0 <= m.
  Hypothesis Hn1 : n1 <= n.
  Hypothesis Hr1 : r1 <= m0.
  Hypothesis Hr1n : r1 <= n1.
  Hypothesis HAs_T0 : forall i j, i < m0 -> j < n1 -> get As i j = get T0 i j.
  Hypothesis HAs_X : forall i j, i < r1 -> n1 <= j -> get As i j = Xf i (j - n1).
  Hypothesis HAs_zero : forall i j, m0 <= i -> get As i j = false.
  Hypothesis HwT2 : wf T2.
  Hypothesis HrT2 : nr T2 = m0 - r1.
  Hypothesis HcT2 : nc T2 = n - n1.
  Hypothesis HlP2 : length P2 = m0 - r1.
  Hypothesis LP2 : lapack P2 (m0 - r1).
  Hypothesis P2_id : forall i, r2 <= i -> i < m0 - r1 -> nth i P2 0 = i.
  Hypothesis Hr2 : r2 <= m0 - r1.

  Let Ad := mpaste As r1 n1 T2.
  Let Af := mpaste Ad r1 0 (apply_p_left (window Ad r1 0 m0 r1) P2).

  Lemma fn_Af : wf Af /\ nr Af = m /\ nc Af = n /\
    forall i j, get Af i j =
      if i <? r1 then (if j <? n1 then get T0 i j else Xf i (j - n1))
      else if i <? m0 then
        (if j <? r1 then get T0 (sig2 m0 r1 r2 P2 i) j
         else if j <? n1 then get T0 i j else get T2 (i - r1) (j - n1))
      else false.
  Proof.
    assert (HlAs : length (rows As) = m) by now rewrite (wf_len As HwAs).
    assert (HwAd : wf Ad) by (apply wf_mpaste; auto; rewrite HcT2, HcAs; lia).
    assert (HgAd : forall i j, get Ad i j =
              if (r1 <=? i) && (i <? m0) && (n1 <=? j) && (j <? n) then get T2 (i - r1) (j - n1) else get As i j).
    { intros i j. unfold Ad. rewrite get_mpaste by (auto; rewrite HlAs, HrT2; lia). rewrite HrT2, HcT2. bcase. }
    assert (HlAd : length (rows Ad) = m) by (rewrite (wf_len Ad HwAd); exact HrAs).
    destruct (wf_window Ad r1 0 m0 r1 HwAd Hr1 ltac:(change (nr Ad) with (nr As); lia)) as (HwW & HrW & HcW).
    rewrite Nat.sub_0_r in HcW.
    set (W := window Ad r1 0 m0 r1) in *.
    assert (HgW : forall i j, i < m0 - r1 -> j < r1 -> get W i j = get T0 (r1 + i) j).
    { intros i j Hi Hj. unfold W. rewrite get_window by (auto; change (nr Ad) with (nr As); lia).
      rewrite Nat.sub_0_r. cbn [Nat.add]. rewrite HgAd. rewrite HAs_T0 by lia. bcase. }
    destruct (get_apply_p_left W P2 HwW) as (HwB & HrB & HcB & HgB); [lia|now rewrite HrW|].
    rewrite HrW in *. set (B := apply_p_left W P2) in *.
    assert (Eph : forall i, pi (fun t => nth t P2 0) (seq 0 (m0 - r1)) i = pi (nthf P2) (seq 0 r2) i).
    { intros i. change (fun t => nth t P2 0) with (nthf P2). replace (m0 - r1) with (r2 + (m0 - r1 - r2)) by lia.
      apply pi_id_tail. intros t H1 H2. apply P2_id; lia. }
    assert (Hph : forall i, i < m0 - r1 -> pi (nthf P2) (seq 0 r2) i < m0 - r1).
    { intros i Hi. apply pi_lt; [|assumption]. intros t Ht. apply in_seq in Ht.
      pose proof (LP2 t ltac:(lia)). unfold nthf. lia. }
    unfold Af. fold W B. splits.
    - apply wf_mpaste; auto. rewrite HcB, HcW. change (nc Ad) with (nc As). lia.
    - exact HrAs.
    - exact HcAs.
    - intros i j. rewrite get_mpaste by (auto; rewrite HlAd, HrB; lia). rewrite HrB, HcB, HcW.
      cbn [Nat.add]. rewrite Nat.sub_0_r. replace (r1 + (m0 - r1)) with m0 by lia.
      destruct (Nat.ltb_spec i r1) as [Hi1|Hi1].
      + destruct (Nat.leb_spec r1 i); [lia|]. cbn [andb]. rewrite HgAd.
        destruct (Nat.leb_spec r1 i); [lia|]. cbn [andb].
        destruct (Nat.ltb_spec j n1); [apply HAs_T0; lia|apply HAs_X; lia].
      + destruct (Nat.leb_spec r1 i); [|lia]. cbn [andb].
        destruct (Nat.ltb_spec i m0) as [Hi2|Hi2]; cbn [andb].
        * destruct (Nat.leb_spec 0 j); [|lia]. cbn [andb].
          destruct (Nat.ltb_spec j r1) as [Hj1|Hj1].
          -- rewrite HgB, Eph, HgW by (auto; apply Hph; lia).
             unfold sig2. destruct (Nat.ltb_spec i r1); [lia|]. destruct (Nat.ltb_spec i m0); [reflexivity|lia].
          -- rewrite HgAd. destruct (Nat.leb_spec r1 i); [|lia]. destruct (Nat.ltb_spec i m0); [|lia]. cbn [andb].
             destruct (Nat.ltb_spec j n1) as [Hj2|Hj2].
             ++ destruct (Nat.leb_spec n1 j); [lia|]. cbn [andb]. apply HAs_T0; lia.
             ++ destruct (Nat.leb_spec n1 j); [|lia]. cbn [andb].
                destruct (Nat.ltb_spec j n); [reflexivity|].
                rewrite (get_out_col As) by (auto; lia). symmetry. apply get_out_col; [assumption|lia].
        * rewrite HgAd. destruct (Nat.ltb_spec i m0); [lia|]. rewrite andb_false_r. cbn [andb].
          now apply HAs_zero.
  Qed.

  (** ** the compression, in both regimes *)
  Hypothesis Hr2n : n1 + r2 <= n.
  Hypothesis HAf_zero : forall i j, r1 + r2 <= i -> n1 + r2 <= j -> get Af i j = false.

  Lemma fn_T : let T := compress_l Af r1 n1 r2 in
    wf T /\ nr T = m /\ nc T = n /\
    (forall i j, i < r1 + r2 ->
       get T i j = get Af i (pi (cq r1 n1) (seq r1 (if r1 <=? i then S (i - r1) else 0)) j)) /\
    (forall i j, r1 + r2 <= i ->
       get T i j = if j <? r1 then get Af i j else if j <? r1 + r2 then get Af i (n1 + j - r1) else false).
  Proof.
    destruct fn_Af as (HwAf & HrAf & HcAf & _). cbv zeta.
    destruct (Nat.eq_dec r1 n1) as [E|E].
    - unfold compress_l. destruct (Nat.eqb_spec r1 n1); [|contradiction]. splits; auto.
      + intros i j Hi. f_equal. symmetry. apply pi_id. intros t Ht. apply in_seq in Ht.
        unfold cq. lia.
      + intros i j Hi. destruct (Nat.ltb_spec j r1); [reflexivity|].
        destruct (Nat.ltb_spec j (r1 + r2)); [f_equal; lia|]. apply HAf_zero; lia.
    - destruct (get_compress_l Af r1 n1 r2 HwAf ltac:(lia) ltac:(rewrite HcAf; lia) HAf_zero)
        as (Hw & Hr & Hc & Hg).
      splits; auto; try congruence.
      + intros i j Hi. rewrite Hg. destruct (Nat.ltb_spec i (r1 + r2)); [reflexivity|lia].
      + intros i j Hi. rewrite Hg. destruct (Nat.ltb_spec i (r1 + r2)); [lia|reflexivity].
  Qed.
End Finish.

(** the multipliers of an encoding, as stored *)
Lemma enc_T_mult A g r T P Q i k : ple_enc A g r T P Q -> k < r -> k < i ->
  get T i k = g i (nthf Q k).
Proof.
  intros He Hk Hki. pose proof (enc_inv _ _ _ _ _ _ He) as HI.
  pose proof (fin_r_le_n _ _ _ _ _ _ HI) as Hrn.
  rewrite (enc_fmt _ _ _ _ _ _ He) by (left; lia).
  destruct (Nat.lt_ge_cases i r) as [Hi|Hi].
  - rewrite Nat.min_l by lia. f_equal. apply pi_seq_pivot; [lia| |].
    + intros s Hs. apply (inv_q _ _ _ _ _ _ HI s). lia.
    + intros s s' H1 H2. apply (inv_qinc _ _ _ _ _ _ HI); lia.
  - rewrite (row_below_read A g P Q r i (Nat.min (S i) (nc A)) k HI
               (enc_lapQ _ _ _ _ _ _ He) (enc_lenQ _ _ _ _ _ _ He) Hi) by lia.
    destruct (Nat.ltb_spec k r); [reflexivity|lia].
Qed.

(** * one level of the recursion *)
Section Step.
  Variables (A : mat) (m0 n1 : nat) (P Q : list nat).
  Variables (r1 : nat) (T0 : mat) (P1 Q1 : list nat) (r2 : nat) (T2 : mat) (P2 Q2 : list nat).
  Let m := nr A.
  Let n := nc A.
  Hypothesis HA : wf A.
  Hypothesis Hm0 : m0 <= m.
  Hypothesis Hn1 : n1 <= n.
  Hypothesis HA_zero : forall i j, m0 <= i -> get A i j = false.
  Hypothesis HlP : length P = m.
  Hypothesis HlQ : length Q = n.
  Hypothesis HP_id : forall i, m0 <= i -> i < m -> nth i P 0 = i.

  Let A0 := window A 0 0 m0 n1.
  Hypothesis Spec1 : ple_spec A0 ((r1, T0), (P1, Q1)).
  Let As := schur_step (mpaste A 0 0 T0) m0 n n1 r1 P1.
  Let A11 := window As r1 n1 m0 n.
  Hypothesis Spec2 : ple_spec A11 ((r2, T2), (P2, Q2)).

  Let Ad := mpaste As r1 n1 T2.
  Let Af := mpaste Ad r1 0 (apply_p_left (window Ad r1 0 m0 r1) P2).
  Let P' := paste_list (paste_list P 0 P1) r1 (map (fun x => x + r1) P2).
  Let Q'' := paste_list (paste_list Q 0 Q1) n1 (map (fun x => x + n1) Q2).
  Let Q' := paste_list Q'' r1 (lo_ple Q'' n1 r2).

  Theorem rec_step : ple_spec A ((r1 + r2, compress_l Af r1 n1 r2), (P', Q')).
  Proof.
    (* the left block *)
    destruct (wf_window A 0 0 m0 n1 HA ltac:(lia) Hm0) as (HwA0 & HrA0 & HcA0).
    rewrite Nat.sub_0_r in HrA0, HcA0. fold A0 in HwA0, HrA0, HcA0.
    assert (HgA0 : forall i j, get A0 i j = (i <? m0) && (j <? n1) && get A i j).
    { intros i j. unfold A0. rewrite get_window by (auto; lia). now rewrite !Nat.sub_0_r. }
    pose proof (enc_of_spec A0 r1 T0 P1 Q1 HwA0 Spec1) as Enc1.
    set (g1 := enc_g A0 r1 T0 Q1) in *.
    pose proof (enc_inv _ _ _ _ _ _ Enc1) as Inv1. rewrite HcA0 in Inv1.
    pose proof (enc_wf _ _ _ _ _ _ Enc1) as HwT0.
    pose proof (enc_nr _ _ _ _ _ _ Enc1) as HrT0. rewrite HrA0 in HrT0.
    pose proof (enc_nc _ _ _ _ _ _ Enc1) as HcT0. rewrite HcA0 in HcT0.
    pose proof (enc_lenP _ _ _ _ _ _ Enc1) as HlP1. rewrite HrA0 in HlP1.
    pose proof (enc_lenQ _ _ _ _ _ _ Enc1) as HlQ1. rewrite HcA0 in HlQ1.
    pose proof (enc_lapP _ _ _ _ _ _ Enc1) as LP1. rewrite HrA0 in LP1.
    pose proof (enc_lapQ _ _ _ _ _ _ Enc1) as LQ1. rewrite HcA0 in LQ1.
    pose proof (enc_Pid _ _ _ _ _ _ Enc1) as P1_id. rewrite HrA0 in P1_id.
    assert (Hr1 : r1 <= m0) by (rewrite <- HrA0; apply (inv_t _ _ _ _ _ _ (enc_inv _ _ _ _ _ _ Enc1))).
    assert (Hr1n : r1 <= n1) by (rewrite <- HcA0; apply (fin_r_le_n _ _ _ _ _ _ (enc_inv _ _ _ _ _ _ Enc1))).
    (* the Schur complement *)
    destruct (sc_schur A T0 m0 n1 r1 P1 HA HwT0 HrT0 HcT0 Hm0 Hn1 Hr1 Hr1n HlP1 LP1 P1_id)
      as (Xf & HwAs & HrAs & HcAs & X_sup & As_T0 & As_X & As_out & Rel).
    fold m n in HwAs, HrAs, HcAs, X_sup, As_out, Rel. fold As in HwAs, HrAs, HcAs, As_T0, As_X, As_out, Rel.
    destruct (wf_window As r1 n1 m0 n HwAs Hr1 ltac:(rewrite HrAs; exact Hm0)) as (HwA11 & HrA11 & HcA11).
    fold A11 in HwA11, HrA11, HcA11.
    assert (HgA11 : forall i j, get A11 i j = (i <? m0 - r1) && (j <? n - n1) && get As (r1 + i) (n1 + j)).
    { intros i j. unfold A11. now rewrite get_window by (auto; rewrite ?HrAs; lia). }
    pose proof (enc_of_spec A11 r2 T2 P2 Q2 HwA11 Spec2) as Enc2.
    set (g2 := enc_g A11 r2 T2 Q2) in *.
    pose proof (enc_inv _ _ _ _ _ _ Enc2) as Inv2. rewrite HcA11 in Inv2.
    pose proof (enc_wf _ _ _ _ _ _ Enc2) as HwT2.
    pose proof (enc_nr _ _ _ _ _ _ Enc2) as HrT2. rewrite HrA11 in HrT2.
    pose proof (enc_nc _ _ _ _ _ _ Enc2) as HcT2. rewrite HcA11 in HcT2.
    pose proof (enc_lenP _ _ _ _ _ _ Enc2) as HlP2. rewrite HrA11 in HlP2.
    pose proof (enc_lenQ _ _ _ _ _ _ Enc2) as HlQ2. rewrite HcA11 in HlQ2.
    pose proof (enc_lapP _ _ _ _ _ _ Enc2) as LP2. rewrite HrA11 in LP2.
    pose proof (enc_lapQ _ _ _ _ _ _ Enc2) as LQ2. rewrite HcA11 in LQ2.
    pose proof (enc_Pid _ _ _ _ _ _ Enc2) as P2_id. rewrite HrA11 in P2_id.
    assert (Hr2 : r2 <= m0 - r1) by (rewrite <- HrA11; apply (inv_t _ _ _ _ _ _ (enc_inv _ _ _ _ _ _ Enc2))).
    assert (Hr2n : r2 <= n - n1) by (rewrite <- HcA11; apply (fin_r_le_n _ _ _ _ _ _ (enc_inv _ _ _ _ _ _ Enc2))).
    (* the permutations *)
    assert (LenP' : length P' = m)
      by (apply (ls_P_len m n m0 n1 r1 r2 P Q P1 Q1 P2 Q2); assumption).
    assert (NthP' : forall k, k < m -> nth k P' 0 =
              if k <? r1 then nth k P1 0 else if k <? m0 then r1 + nth (k - r1) P2 0 else nth k P 0)
      by (apply (ls_P_nth m n m0 n1 r1 r2 P Q P1 Q1 P2 Q2); assumption).
    assert (LapP' : lapack P' m)
      by (apply (ls_P_lapack m n m0 n1 r1 r2 P Q P1 Q1 P2 Q2); assumption).
    assert (IdP' : forall k, r1 + r2 <= k -> k < m -> nth k P' 0 = k)
      by (apply (ls_P_id m n m0 n1 r1 r2 P Q P1 Q1 P2 Q2); assumption).
    assert (LenQ' : length Q' = n)
      by (apply (ls_Q_len m n m0 n1 r1 r2 P Q P1 Q1 P2 Q2); assumption).
    assert (NthQ' : forall k, k < n -> nth k Q' 0 =
              if (r1 <=? k) && (k <? r1 + r2) then n1 + nth (k - r1) Q2 0
              else if k <? n1 then nth k Q1 0 else n1 + nth (k - n1) Q2 0)
      by (apply (ls_Q_nth m n m0 n1 r1 r2 P Q P1 Q1 P2 Q2); assumption).
    assert (LapQ' : lapack Q' n)
      by (apply (ls_Q_lapack m n m0 n1 r1 r2 P Q P1 Q1 P2 Q2); assumption).
    assert (HQ_lo : forall k, k < r1 -> nth k Q' 0 = nth k Q1 0).
    { intros k Hk. rewrite NthQ' by lia. destruct (Nat.leb_spec r1 k); [lia|]. cbn [andb].
      destruct (Nat.ltb_spec k n1); [reflexivity|lia]. }
    assert (HQ_hi : forall k, r1 <= k -> k < r1 + r2 -> nth k Q' 0 = n1 + nth (k - r1) Q2 0).
    { intros k H1 H2. rewrite NthQ' by lia. destruct (Nat.leb_spec r1 k); [|lia].
      destruct (Nat.ltb_spec k (r1 + r2)); [reflexivity|lia]. }
    assert (HP_lo : forall k, k < r1 -> nth k P' 0 = nth k P1 0).
    { intros k Hk. rewrite NthP' by lia. destruct (Nat.ltb_spec k r1); [reflexivity|lia]. }
    assert (HP_hi : forall k, r1 <= k -> k < r1 + r2 -> nth k P' 0 = r1 + nth (k - r1) P2 0).
    { intros k H1 H2. rewrite NthP' by lia. destruct (Nat.ltb_spec k r1); [lia|].
      destruct (Nat.ltb_spec k m0); [reflexivity|lia]. }
    (* the invariant of the combination *)
    set (g := comb_g m0 n1 r1 r2 P2 g1 g2 Xf).
    assert (InvC : Inv A g (nthf P') (nthf Q') (r1 + r2) n).
    { apply (combine_inv A A0 A11 m0 n1 r1 r2 P1 Q1 P2 Q2 P' Q' g1 g2 Xf (get A11)); auto.
      - intros i j Hj. now apply get_out_col.
      - (* the Schur relation, with the multipliers read from g1 *)
        intros i j Hi Hj. rewrite (Rel i j Hi Hj). f_equal.
        + apply xsum_ext. intros k Hk. f_equal. unfold Lg.
          destruct (Nat.eqb_spec i k); [reflexivity|]. cbn [orb].
          destruct (Nat.ltb_spec k i); [|reflexivity]. cbn [andb].
          now apply (enc_T_mult A0 g1 r1 T0 P1 Q1 i k Enc1).
        + destruct (Nat.leb_spec r1 i); [|reflexivity]. cbn [andb]. rewrite HgA11.
          destruct (Nat.ltb_spec (i - r1) (m0 - r1)); [|lia]. destruct (Nat.ltb_spec j (n - n1)); [|lia].
          cbn [andb]. now replace (r1 + (i - r1)) with i by lia. }
    (* the stored matrix *)
    assert (As_zero : forall i j, m0 <= i -> get As i j = false).
    { intros i j Hi. rewrite As_out by now left. now apply HA_zero. }
    destruct (fn_Af As T0 T2 m n m0 n1 r1 r2 P2 Xf HwAs HrAs HcAs Hm0 Hn1 Hr1 Hr1n As_T0 As_X As_zero
                HwT2 HrT2 HcT2 HlP2 LP2 P2_id Hr2) as (HwAf & HrAf & HcAf & HgAf).
    fold Ad Af in HwAf, HrAf, HcAf, HgAf.
    assert (HAf_zero : forall i j, r1 + r2 <= i -> n1 + r2 <= j -> get Af i j = false).
    { intros i j Hi Hj. rewrite HgAf. destruct (Nat.ltb_spec i r1); [lia|].
      destruct (Nat.ltb_spec i m0); [|reflexivity].
      destruct (Nat.ltb_spec j r1); [lia|]. destruct (Nat.ltb_spec j n1); [lia|].
      apply (enc_zero A11 g2 r2 T2 P2 Q2 Enc2); lia. }
    destruct (fn_T As T0 T2 m n m0 n1 r1 r2 P2 Xf HwAs HrAs HcAs Hm0 Hn1 Hr1 Hr1n As_T0 As_X As_zero
                HwT2 HrT2 HcT2 HlP2 LP2 P2_id Hr2 ltac:(lia) HAf_zero) as (HwT & HrT & HcT & HT_lo & HT_hi).
    fold Ad Af in HwT, HrT, HcT, HT_lo, HT_hi.
    set (T := compress_l Af r1 n1 r2) in *.
    assert (Hs2 : forall i, r1 <= i -> i < m0 -> r1 <= sig2 m0 r1 r2 P2 i < m0).
    { intros i H1 H2. unfold sig2. destruct (Nat.ltb_spec i r1); [lia|]. destruct (Nat.ltb_spec i m0); [|lia].
      assert (pi (nthf P2) (seq 0 r2) (i - r1) < m0 - r1); [|lia].
      apply pi_lt; [|lia]. intros t Ht. apply in_seq in Ht. pose proof (LP2 t ltac:(lia)). unfold nthf. lia. }
    apply (spec_of_enc A g (r1 + r2) T P' Q' HA).
    constructor; auto.
    apply (combine_format A A0 A11 T0 T2 Af T m0 n1 r1 r2 P1 Q1 P2 Q2 P' Q' g1 g2 g Xf (sig2 m0 r1 r2 P2)); auto.
    - intros i j Hi. unfold g, comb_g. destruct (Nat.ltb_spec i r1); [reflexivity|lia].
    - intros i j H1 H2. unfold g, comb_g. destruct (Nat.ltb_spec i r1); [lia|].
      destruct (Nat.ltb_spec i m0); [reflexivity|lia].
    - intros i j Hi. unfold g, comb_g. destruct (Nat.ltb_spec i r1); [lia|].
      destruct (Nat.ltb_spec i m0); [lia|reflexivity].
  Qed.
End Step.

(** * the recursion *)
Definition rec_body (base : mat -> list nat -> list nat -> ple_out) (cutoff fuel : nat)
    (A : mat) (P0 Q0 : list nat) : ple_out :=
  let ncols := nc A in
  let nrows := first_zero_row A in
  let P := fill_id nrows P0 in
  let Q := fill_id 0 Q0 in
  if nrows =? 0 then ((0, A), (P, Q)) else
  if (ncols <=? radix) || (((ncols + radix - 1) / radix) * nr A <=? cutoff) then base A P Q
  else
    let n1 := ((((ncols - 1) / radix + 1) / 2) * radix) in
    let '((r1, A0'), (P1, Q1)) :=
        ple_rec_aux base cutoff fuel (window A 0 0 nrows n1) (lo_ple P 0 nrows) (lo_ple Q 0 n1) in
    let As := schur_step (mpaste A 0 0 A0') nrows ncols n1 r1 P1 in
    let P' := paste_list P 0 P1 in
    let Q' := paste_list Q 0 Q1 in
    let '((r2, A11'), (P2, Q2)) :=
        ple_rec_aux base cutoff fuel (window As r1 n1 nrows ncols)
                    (lo_ple P' r1 (nrows - r1)) (lo_ple Q' n1 (ncols - n1)) in
    let Ad := mpaste As r1 n1 A11' in
    let Af := mpaste Ad r1 0 (apply_p_left (window Ad r1 0 nrows r1) P2) in
    let P'' := paste_list P' r1 (map (fun x => x + r1) P2) in
    let Q'' := paste_list Q' n1 (map (fun x => x + n1) Q2) in
    let Q''' := paste_list Q'' r1 (lo_ple Q'' n1 r2) in
    ((r1 + r2, compress_l Af r1 n1 r2), (P'', Q''')).

Lemma ple_rec_aux_unfold base cutoff fuel A P0 Q0 :
  ple_rec_aux base cutoff (S fuel) A P0 Q0 = rec_body base cutoff fuel A P0 Q0.
Proof. reflexivity. Qed.

Lemma split_col_facts ncols : radix < ncols ->
  0 < (((ncols - 1) / radix + 1) / 2) * radix < ncols.
Proof.
  intros H. unfold radix in *.
  assert (E : ((ncols - 1) / 64 + 1) / 2 * 64 = 64 * (((ncols - 1) / 64 + 1) / 2)) by lia.
  rewrite E. clear E.
  pose proof (Nat.div_mod (ncols - 1) 64 ltac:(lia)) as D1.
  pose proof (Nat.mod_upper_bound (ncols - 1) 64 ltac:(lia)) as D2.
  set (w := (ncols - 1) / 64) in *.
  pose proof (Nat.div_mod (w + 1) 2 ltac:(lia)) as D3.
  pose proof (Nat.mod_upper_bound (w + 1) 2 ltac:(lia)) as D4.
  set (h := (w + 1) / 2) in *. lia.
Qed.

Theorem ple_rec_aux_spec base cutoff : base_ok base -> forall fuel A P0 Q0,
  nc A < fuel -> wf A -> length P0 = nr A -> length Q0 = nc A ->
  ple_spec A (ple_rec_aux base cutoff fuel A P0 Q0).
Proof.
  intros Hb. induction fuel as [|fuel IH]; intros A P0 Q0 Hf HA HP HQ; [lia|].
  rewrite ple_rec_aux_unfold. unfold rec_body. cbv zeta.
  destruct (first_zero_row_entries A HA) as (Hz & _ & Hm0). cbv zeta in Hz, Hm0.
  set (m0 := first_zero_row A) in *.
  destruct (Nat.eqb_spec m0 0) as [E|E].
  - rewrite E. apply ple_zero_spec; auto. intros i j. apply Hz. lia.
  - destruct ((nc A <=? radix) || ((nc A + radix - 1) / radix * nr A <=? cutoff)) eqn:Eb.
    + apply Hb; [assumption|now rewrite fill_id_length..].
    + apply orb_false_iff in Eb as [Eb1 _]. apply Nat.leb_gt in Eb1.
      pose proof (split_col_facts (nc A) Eb1) as Hn1.
      set (n1 := ((nc A - 1) / radix + 1) / 2 * radix) in *.
      set (P := fill_id m0 P0). set (Q := fill_id 0 Q0).
      assert (HlP : length P = nr A) by (unfold P; now rewrite fill_id_length).
      assert (HlQ : length Q = nc A) by (unfold Q; now rewrite fill_id_length).
      assert (HP_id : forall i, m0 <= i -> i < nr A -> nth i P 0 = i).
      { intros i H1 H2. unfold P. rewrite nth_fill_id by lia. destruct (Nat.leb_spec m0 i); [reflexivity|lia]. }
      (* first call *)
      destruct (wf_window A 0 0 m0 n1 HA ltac:(lia) Hm0) as (HwA0 & HrA0 & HcA0).
      rewrite Nat.sub_0_r in HrA0, HcA0.
      assert (S1 : ple_spec (window A 0 0 m0 n1)
                     (ple_rec_aux base cutoff fuel (window A 0 0 m0 n1) (lo_ple P 0 m0) (lo_ple Q 0 n1))).
      { apply IH; auto; [lia|rewrite lo_ple_length; lia|rewrite lo_ple_length; lia]. }
      destruct (ple_rec_aux base cutoff fuel (window A 0 0 m0 n1) (lo_ple P 0 m0) (lo_ple Q 0 n1))
        as [[r1 T0] [P1 Q1]].
      (* facts needed to call the second one *)
      pose proof (enc_of_spec _ r1 T0 P1 Q1 HwA0 S1) as Enc1.
      pose proof (enc_wf _ _ _ _ _ _ Enc1) as HwT0.
      pose proof (enc_nr _ _ _ _ _ _ Enc1) as HrT0. rewrite HrA0 in HrT0.
      pose proof (enc_nc _ _ _ _ _ _ Enc1) as HcT0. rewrite HcA0 in HcT0.
      pose proof (enc_lenP _ _ _ _ _ _ Enc1) as HlP1. rewrite HrA0 in HlP1.
      pose proof (enc_lenQ _ _ _ _ _ _ Enc1) as HlQ1. rewrite HcA0 in HlQ1.
      pose proof (enc_lapP _ _ _ _ _ _ Enc1) as LP1. rewrite HrA0 in LP1.
      pose proof (enc_Pid _ _ _ _ _ _ Enc1) as P1_id. rewrite HrA0 in P1_id.
      assert (Hr1 : r1 <= m0) by (rewrite <- HrA0; apply (inv_t _ _ _ _ _ _ (enc_inv _ _ _ _ _ _ Enc1))).
      assert (Hr1n : r1 <= n1) by (rewrite <- HcA0; apply (fin_r_le_n _ _ _ _ _ _ (enc_inv _ _ _ _ _ _ Enc1))).
      destruct (sc_schur A T0 m0 n1 r1 P1 HA HwT0 HrT0 HcT0 Hm0 ltac:(lia) Hr1 Hr1n HlP1 LP1 P1_id)
        as (Xf & HwAs & HrAs & HcAs & _).
      set (As := schur_step (mpaste A 0 0 T0) m0 (nc A) n1 r1 P1) in *.
      destruct (wf_window As r1 n1 m0 (nc A) HwAs Hr1 ltac:(rewrite HrAs; exact Hm0)) as (HwA11 & HrA11 & HcA11).
      assert (S2 : ple_spec (window As r1 n1 m0 (nc A))
                     (ple_rec_aux base cutoff fuel (window As r1 n1 m0 (nc A))
                        (lo_ple (paste_list P 0 P1) r1 (m0 - r1)) (lo_ple (paste_list Q 0 Q1) n1 (nc A - n1)))).
      { apply IH; auto.
        - rewrite HcA11. lia.
        - rewrite lo_ple_length; [now rewrite HrA11|]. rewrite paste_list_length; lia.
        - rewrite lo_ple_length; [now rewrite HcA11|]. rewrite paste_list_length; lia. }
      destruct (ple_rec_aux base cutoff fuel (window As r1 n1 m0 (nc A))
                  (lo_ple (paste_list P 0 P1) r1 (m0 - r1)) (lo_ple (paste_list Q 0 Q1) n1 (nc A - n1)))
        as [[r2 T2] [P2 Q2]].
      apply (rec_step A m0 n1 P Q r1 T0 P1 Q1 r2 T2 P2 Q2); auto. lia.
Qed.

(** * C03_rec *)
Theorem ple_rec_spec base cutoff A P0 Q0 :
  base_ok base -> wf A -> length P0 = nr A -> length Q0 = nc A ->
  ple_spec A (ple_rec base cutoff A P0 Q0).
Proof. intros Hb HA HP HQ. unfold ple_rec. apply ple_rec_aux_spec; auto. Qed.

Corollary pluq_rec_spec base cutoff A P0 Q0 :
  base_ok base -> wf A -> length P0 = nr A -> length Q0 = nc A ->
  pluq_spec A (pluq_rec base cutoff A P0 Q0).
Proof. intros Hb HA HP HQ. unfold pluq_rec. apply pluq_of_ple_spec. now apply ple_rec_spec. Qed.

(** the same with the quantifiers in the order of DESIGN.md (C03_rec) *)
Theorem ple_rec_spec_all : forall base, base_ok base -> forall cutoff A P0 Q0,
  wf A -> length P0 = nr A -> length Q0 = nc A -> ple_spec A (ple_rec base cutoff A P0 Q0).
Proof. intros base Hb cutoff A P0 Q0. now apply ple_rec_spec. Qed.

Theorem pluq_rec_spec_all : forall base, base_ok base -> forall cutoff A P0 Q0,
  wf A -> length P0 = nr A -> length Q0 = nc A -> pluq_spec A (pluq_rec base cutoff A P0 Q0).
Proof. intros base Hb cutoff A P0 Q0. now apply pluq_rec_spec. Qed.

Example ple_rec_spec_hyps : base_ok ple_naive.
Proof. exact base_ok_naive. Qed.
