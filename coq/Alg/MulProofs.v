(* Alg/MulProofs.v — proofs about Alg/Mul.v: every cubic and M4RM route computes exactly
   (if clr then 0 else C) + A x B, for all inputs, all block sizes, all k, all stale table states. *)
From Coq Require Import List NArith ZArith Arith Lia Bool ZifyBool ZifyNat ZifyN.
From M4 Require Import Base.Bits Lin.Mat Lin.MatAlg Lin.Ops Lin.OpsProofs Alg.Gray Alg.GrayProofs Alg.Mul.
Import ListNotations.
Local Open Scope nat_scope.
Ltac Zify.zify_post_hook ::= Z.div_mod_to_equations.

(** equalities between xor expressions over N *)
Ltac xor_bits :=
  apply bits_ext_nat; intros ?j; rewrite ?N.lxor_spec, ?N.bits_0;
  repeat match goal with |- context [N.testbit ?x ?j] => destruct (N.testbit x j) end; reflexivity.

(* ------------------------------------------------------------------------------------------ *)
(** * 1. parity, dot product *)
Lemma parity_step x : parity x = xorb (N.odd x) (parity (N.div2 x)).
Proof.
  destruct x as [|[p|p|]]; try reflexivity.
  unfold N.odd, N.even, N.div2; cbn. now destruct (parity_pos p).
Qed.

Lemma bounded_0_eq x : bounded 0 x -> x = 0%N.
Proof. intros H. apply bits_ext_nat. intros j. rewrite N.bits_0. apply H. lia. Qed.

(** [parity] is the xor of the bits *)
Lemma parity_xsum n : forall x, bounded n x -> parity x = xsum n (fun k => N.testbit x (N.of_nat k)).
Proof.
  induction n as [|n IH]; intros x Hb.
  - rewrite (bounded_0_eq x Hb). reflexivity.
  - rewrite parity_step, xsum_shift. f_equal.
    + change (N.of_nat 0) with 0%N. symmetry. apply N.bit0_odd.
    + rewrite IH.
      * apply xsum_ext. intros k _. apply testbit_div2_nat.
      * intros j Hj. rewrite testbit_div2_nat. apply Hb. lia.
Qed.

(** the dot product of a row with a column of B is the entry of the row-times-matrix product *)
Lemma dot_col a rs j : dot a (col rs j) = N.testbit (mul_row a rs) (N.of_nat j).
Proof.
  unfold dot. rewrite (parity_xsum (length rs)) by apply bounded_land_r, bounded_col.
  rewrite testbit_mul_row. apply xsum_ext. intros k _. now rewrite N.land_spec, testbit_col.
Qed.

Lemma row_mtrans B j : j < nc B -> row (mtrans B) j = col (rows B) j.
Proof.
  intros Hj. unfold row, mtrans. cbn [rows].
  rewrite (nth_map_default _ _ _ 0) by (rewrite seq_length; lia). now rewrite seq_nth by lia.
Qed.

Lemma testbit_bools_to_N l : forall k, N.testbit (bools_to_N l) (N.of_nat k) = nth k l false.
Proof.
  induction l as [|b l IH]; intros k; cbn [bools_to_N nth].
  - rewrite N.bits_0. now destruct k.
  - destruct k as [|k].
    + change (N.of_nat 0) with 0%N. apply N.testbit_0_r.
    + rewrite Nat2N.inj_succ, N.testbit_succ_r. apply IH.
Qed.

(* ------------------------------------------------------------------------------------------ *)
(** * 2. _mzd_mul_naive *)
Lemma refresh_spec a BT j0 n p :
  length (refresh a BT j0 n p) = length p /\
  forall k, nth k (refresh a BT j0 n p) false =
            if (k <? n) && (k <? length p) then dot a (row BT (j0 + k)) else nth k p false.
Proof.
  unfold refresh. induction n as [|n [IHl IHn]].
  - cbn [seq fold_left]. split; [reflexivity|]. intros k. bsolve.
  - rewrite seq_S, fold_left_app. cbn [fold_left Nat.add]. split.
    + now rewrite upd_length.
    + intros k. rewrite nth_upd, IHl, IHn. bsolve.
Qed.

Section NaiveRow.
  Variables (a : N) (BT : mat) (ncols : nat).

  Let step (st : N * list bool) (g : nat) : N * list bool :=
    let p' := refresh a BT (64 * g) 64 (snd st) in
    (N.lxor (fst st) (N.shiftl (bools_to_N p') (N.of_nat (64 * g))), p').

  Lemma naive_groups m c p : length p = 64 ->
    let st := fold_left step (seq 0 m) (c, p) in
    length (snd st) = 64 /\
    forall j, N.testbit (fst st) (N.of_nat j) =
              xorb (N.testbit c (N.of_nat j)) ((j <? 64 * m) && dot a (row BT j)).
  Proof.
    intros Hp. induction m as [|m [IHl IHb]].
    - cbn [seq fold_left fst snd]. split; [assumption|]. intros j.
      destruct (Nat.ltb_spec j (64 * 0)); [lia|]. cbn [andb]. now rewrite xorb_false_r.
    - rewrite seq_S, fold_left_app. cbn [fold_left Nat.add].
      set (st := fold_left step (seq 0 m) (c, p)) in *. cbv zeta in IHl, IHb.
      destruct (refresh_spec a BT (64 * m) 64 (snd st)) as [Rl Rn].
      unfold step. cbn [fst snd]. split; [now rewrite Rl|].
      intros j. rewrite N.lxor_spec, IHb, testbit_shiftl_nat, testbit_bools_to_N, Rn, IHl.
      destruct (Nat.leb_spec (64 * m) j) as [Hge|Hlt].
      + replace (64 * m + (j - 64 * m)) with j by lia.
        destruct (Nat.ltb_spec j (64 * m)); [lia|]. cbn [andb].
        destruct (Nat.ltb_spec (j - 64 * m) 64), (Nat.ltb_spec j (64 * S m)); try lia; cbn [andb].
        * now rewrite xorb_false_r.
        * rewrite xorb_false_r. rewrite nth_overflow by lia. now rewrite xorb_false_r.
      + destruct (Nat.ltb_spec j (64 * m)), (Nat.ltb_spec j (64 * S m)); try lia. cbn [andb].
        now rewrite xorb_false_r.
  Qed.

  Lemma naive_row_bits c p : length p = 64 ->
    let st := naive_row a BT ncols (c, p) in
    length (snd st) = 64 /\
    forall j, N.testbit (fst st) (N.of_nat j) =
              xorb (N.testbit c (N.of_nat j)) ((j <? ncols) && dot a (row BT j)).
  Proof.
    intros Hp. unfold naive_row. fold step.
    destruct (naive_groups (ncols / 64) c p Hp) as [Gl Gb].
    set (st1 := fold_left step (seq 0 (ncols / 64)) (c, p)) in *.
    destruct (Nat.eqb_spec (ncols mod 64) 0) as [Hz|Hnz]; cbv zeta.
    - split; [assumption|]. intros j. rewrite Gb. replace (64 * (ncols / 64)) with ncols by lia.
      reflexivity.
    - destruct (refresh_spec a BT (64 * (ncols / 64)) (ncols mod 64) (snd st1)) as [Rl Rn].
      cbn [fst snd]. split; [now rewrite Rl|].
      intros j. rewrite N.lxor_spec, Gb, testbit_shiftl_nat, N.land_spec, testbit_bools_to_N, Rn,
        testbit_ones_nat, Gl.
      destruct (Nat.leb_spec (64 * (ncols / 64)) j) as [Hge|Hlt]; cbn [andb].
      + destruct (Nat.ltb_spec j (64 * (ncols / 64))); [lia|]. cbn [andb]. rewrite xorb_false_r.
        replace (64 * (ncols / 64) + (j - 64 * (ncols / 64))) with j by lia.
        destruct (Nat.ltb_spec (j - 64 * (ncols / 64)) (ncols mod 64)), (Nat.ltb_spec j ncols);
          try lia; cbn [andb].
        * destruct (Nat.ltb_spec (j - 64 * (ncols / 64)) 64); [|lia]. now rewrite andb_true_r.
        * now rewrite andb_false_r.
      + rewrite xorb_false_r.
        destruct (Nat.ltb_spec j (64 * (ncols / 64))), (Nat.ltb_spec j ncols); try lia. reflexivity.
  Qed.
End NaiveRow.

(** one row against the transposed B: c ^= a * B *)
Lemma naive_row_mtrans a B c p : wf B -> length p = 64 ->
  let st := naive_row a (mtrans B) (nc B) (c, p) in
  length (snd st) = 64 /\ fst st = N.lxor c (mul_row a (rows B)).
Proof.
  intros HB Hp. destruct (naive_row_bits a (mtrans B) (nc B) c p Hp) as [Hl Hb].
  split; [exact Hl|]. apply bits_ext_nat. intros j. rewrite Hb, N.lxor_spec. f_equal.
  destruct (Nat.ltb_spec j (nc B)) as [Hj|Hj]; cbn [andb].
  - rewrite row_mtrans by assumption. apply dot_col.
  - symmetry. apply (bounded_mul_row (nc B) a (rows B)); [apply HB|assumption].
Qed.

Lemma naive_rows_mtrans B : wf B -> forall ra rc p, length p = 64 -> length ra = length rc ->
  let st := naive_rows (mtrans B) (nc B) ra rc p in
  length (snd st) = 64 /\ fst st = zipx rc (map (fun a => mul_row a (rows B)) ra).
Proof.
  intros HB. induction ra as [|a ra IH]; intros [|c rc] p Hp Hl; cbn [length] in Hl; try discriminate.
  - cbn. now split.
  - cbn [naive_rows map zipx].
    destruct (naive_row_mtrans a B c p HB Hp) as [Rl Rv].
    destruct (IH rc _ Rl ltac:(lia)) as [IHl IHv]. cbn [fst snd].
    split; [exact IHl|]. now rewrite Rv, IHv.
Qed.

Lemma zipx_app a1 a2 b1 b2 : length a1 = length b1 -> zipx (a1 ++ a2) (b1 ++ b2) = zipx a1 b1 ++ zipx a2 b2.
Proof.
  revert b1; induction a1 as [|x a1 IH]; intros [|y b1] Hl; cbn in *; try discriminate; [reflexivity|].
  f_equal. apply IH. lia.
Qed.

Lemma zipx_split n a b : zipx (firstn n a) (firstn n b) ++ zipx (skipn n a) (skipn n b) = zipx a b.
Proof.
  revert a b; induction n as [|n IH]; intros a b; [reflexivity|].
  destruct a as [|x a], b as [|y b]; cbn [firstn skipn zipx app]; try reflexivity.
  - now destruct (firstn n a), (skipn n a).
  - now rewrite IH.
Qed.

Lemma clear_model_some C : (nc C = 0 -> nr C = 0) -> clear_model C = Some (mzero (nr C) (nc C)).
Proof.
  intros H. unfold clear_model.
  destruct (Nat.eqb_spec (nc C) 0), (Nat.ltb_spec 0 (nr C)); cbn [andb]; try reflexivity. lia.
Qed.

Lemma acc_madd (clr : bool) C P : wf P -> nr C = nr P -> nc C = nc P ->
  madd (if clr then mzero (nr C) (nc C) else C) P = acc clr C P.
Proof.
  intros HP Hr Hc. destruct clr; cbn [acc]; [|reflexivity]. rewrite Hr, Hc. now apply madd_zero_l.
Qed.

(** _mzd_mul_naive(C, A, BT, clr) with BT the transpose of B *)
Theorem mul_naive_core_spec blk C A B clr :
  wf A -> wf B -> wf C -> nr C = nr A -> nc C = nc B -> 0 < blk ->
  (clr = true -> nc C = 0 -> nr C = 0) ->
  mul_naive_core blk C A (mtrans B) clr = Some (acc clr C (mmul A B)).
Proof.
  intros HA HB HC Hr Hc Hblk Hclr. unfold mul_naive_core.
  set (C0 := if clr then mzero (nr C) (nc C) else C).
  assert (E : (if clr then clear_model C else Some C) = Some C0).
  { subst C0. destruct clr; [|reflexivity]. apply clear_model_some. auto. }
  rewrite E. destruct (Nat.eqb_spec blk 0) as [|_]; [lia|].
  assert (HC0 : wf C0) by (subst C0; destruct clr; [apply wf_mzero|assumption]).
  assert (Hl0 : length (rows C0) = nr C).
  { subst C0. destruct clr; [cbn; apply repeat_length|apply HC]. }
  pose proof (wf_len A HA) as HlA.
  assert (En : blk * (nr C / blk) = nr C - nr C mod blk).
  { rewrite Nat.mod_eq by lia. pose proof (Nat.mul_div_le (nr C) blk ltac:(lia)) as Hle.
    set (X := blk * (nr C / blk)) in *. clearbody X. lia. }
  rewrite En. set (n := nr C - nr C mod blk).
  rewrite Hc.
  destruct (naive_rows_mtrans B HB (firstn n (rows A)) (firstn n (rows C0)) pbuf0) as [L1 V1].
  { apply repeat_length. } { rewrite !firstn_length. lia. }
  destruct (naive_rows_mtrans B HB (skipn n (rows A)) (skipn n (rows C0))
              (snd (naive_rows (mtrans B) (nc B) (firstn n (rows A)) (firstn n (rows C0)) pbuf0))) as [L2 V2].
  { exact L1. } { rewrite !skipn_length. lia. }
  rewrite V1, V2. rewrite <- firstn_map, <- skipn_map. rewrite zipx_split.
  f_equal. rewrite <- (acc_madd clr C (mmul A B)) by (try apply wf_mmul; auto).
  fold C0. unfold madd, mmul. cbn [nr nc rows]. f_equal.
  - subst C0. now destruct clr.
  - subst C0. destruct clr; [cbn [nc mzero]|]; auto.
Qed.

(* ------------------------------------------------------------------------------------------ *)
(** * 3. Assembling a result from its rows *)
Lemma mat_eq_rows M1 M2 : nr M1 = nr M2 -> nc M1 = nc M2 -> length (rows M1) = length (rows M2) ->
  (forall i, i < length (rows M1) -> row M1 i = row M2 i) -> M1 = M2.
Proof.
  destruct M1 as [r1 c1 l1], M2 as [r2 c2 l2]. unfold row. cbn [nr nc rows].
  intros -> -> Hl H. f_equal. now apply (list_ext_nth 0%N).
Qed.

Lemma result_rows R C0 A B :
  nr R = nr C0 -> nc R = nc C0 -> length (rows R) = length (rows C0) ->
  length (rows C0) = length (rows A) ->
  (forall i, i < length (rows A) -> row R i = N.lxor (row C0 i) (mul_row (row A i) (rows B))) ->
  R = madd C0 (mmul A B).
Proof.
  intros Hr Hc Hl HlA H.
  assert (Hlm : length (rows C0) = length (rows (mmul A B))) by (cbn; now rewrite map_length).
  apply mat_eq_rows; try assumption.
  - cbn [madd rows]. rewrite zipx_length. lia.
  - intros i Hi. rewrite row_madd by assumption. rewrite row_mmul. apply H. lia.
Qed.

(* ------------------------------------------------------------------------------------------ *)
(** * 4. _mzd_mul_va *)
Lemma va_row_bits a n B c b :
  N.testbit (va_row a n B c) (N.of_nat b) =
  xorb (N.testbit c (N.of_nat b))
       (xsum n (fun j => N.testbit a (N.of_nat j) && N.testbit (row B j) (N.of_nat b))).
Proof.
  unfold va_row. induction n as [|n IH].
  - cbn. now rewrite xorb_false_r.
  - rewrite seq_S, fold_left_app. cbn [fold_left Nat.add xsum].
    destruct (N.testbit a (N.of_nat n)); cbn [andb].
    + rewrite N.lxor_spec, IH. now rewrite xorb_assoc.
    + rewrite IH. now rewrite xorb_false_r.
Qed.

Lemma va_row_spec a B c : va_row a (length (rows B)) B c = N.lxor c (mul_row a (rows B)).
Proof.
  apply bits_ext_nat. intros b. rewrite va_row_bits, N.lxor_spec, testbit_mul_row. reflexivity.
Qed.

Theorem mul_va_spec C A B clr :
  wf A -> wf B -> wf C -> nc A = nr B -> nr C = nr A -> nc C = nc B ->
  (clr = true -> nc C = 0 -> nr C = 0) ->
  mul_va C A B clr = Some (acc clr C (mmul A B)).
Proof.
  intros HA HB HC Hd Hr Hc Hclr. unfold mul_va.
  set (C0 := if clr then mzero (nr C) (nc C) else C).
  assert (E : (if clr then clear_model C else Some C) = Some C0).
  { subst C0. destruct clr; [|reflexivity]. apply clear_model_some. auto. }
  rewrite E. f_equal.
  assert (Hl0 : length (rows C0) = nr C).
  { subst C0. destruct clr; [cbn; apply repeat_length|apply HC]. }
  assert (Hs : nr C0 = nr C /\ nc C0 = nc C) by (subst C0; now destruct clr).
  pose proof (wf_len A HA) as HlA. pose proof (wf_len B HB) as HlB.
  rewrite <- (acc_madd clr C (mmul A B)) by (try apply wf_mmul; auto). fold C0.
  apply result_rows.
  - reflexivity.
  - reflexivity.
  - apply len_map_rows.
  - lia.
  - intros i Hi. rewrite row_map_rows.
    destruct (Nat.ltb_spec i (length (rows C0))); [|lia].
    destruct (Nat.ltb_spec i (nr A)); [|lia].
    rewrite Hd, <- HlB. apply va_row_spec.
Qed.

(* ------------------------------------------------------------------------------------------ *)
(** * 5. mzd_mul_naive / mzd_addmul_naive *)
Lemma naive_cutoff_val : naive_cutoff = 54. Proof. reflexivity. Qed.

(** the complete behaviour of the part after the dimension checks of the wrappers *)
Theorem naive_route_defined blk C A B clr :
  wf A -> wf B -> wf C -> nc A = nr B -> nr C = nr A -> nc C = nc B -> 0 < blk ->
  naive_route blk C A B clr =
  if naive_defined A B clr then Some (acc clr C (mmul A B)) else None.
Proof.
  intros HA HB HC Hd Hr Hc Hblk. unfold naive_route, naive_defined. rewrite naive_cutoff_val.
  destruct (Nat.eqb_spec (nc A) (nr B)) as [_|]; [cbn [negb]|contradiction].
  destruct (Nat.ltb_spec (nc B) 54) as [Hlt|Hge].
  - destruct (Nat.leb_spec 54 (nc B)) as [|_]; [lia|]. cbn [orb]. unfold transpose_new.
    destruct (Nat.eqb_spec (nr B) 0) as [Hr0|Hr0], (Nat.eqb_spec (nc B) 0) as [Hc0|Hc0]; cbn [orb andb].
    + (* 0 x 0 *)
      destruct (Nat.ltb_spec (nc B) (nr B)); [lia|]. destruct (Nat.ltb_spec (nr B) (nc B)); [lia|].
      cbn [orb].
      destruct (Nat.ltb_spec 0 (nr B)); [lia|]. cbn [andb orb].
      assert (Et : mzero (nc B) (nr B) = mtrans B) by (unfold mzero, mtrans; rewrite Hr0, Hc0; reflexivity).
      rewrite Et.
      destruct clr; cbn [negb orb].
      * destruct (Nat.eqb_spec (nr A) 0) as [Ha0|Ha0].
        -- apply mul_naive_core_spec; auto. intros _ _. lia.
        -- unfold mul_naive_core, clear_model.
           destruct (Nat.eqb_spec (nc C) 0); [|lia]. destruct (Nat.ltb_spec 0 (nr C)); [|lia]. reflexivity.
      * apply mul_naive_core_spec; auto. discriminate.
    + destruct (Nat.ltb_spec (nc B) (nr B)); [lia|]. destruct (Nat.ltb_spec (nr B) (nc B)); [|lia].
      cbn [orb]. destruct (Nat.ltb_spec 0 (nr B)); [lia|]. reflexivity.
    + destruct (Nat.ltb_spec (nc B) (nr B)); [|lia]. cbn [orb].
      destruct (Nat.ltb_spec 0 (nc B)); [lia|]. now rewrite andb_false_r.
    + destruct (Nat.ltb_spec 0 (nr B)); [|lia]. destruct (Nat.ltb_spec 0 (nc B)); [|lia]. cbn [andb orb].
      apply mul_naive_core_spec; auto. intros _ ?. lia.
  - destruct (Nat.leb_spec 54 (nc B)) as [_|]; [|lia]. cbn [orb].
    apply mul_va_spec; auto. intros _ ?. lia.
Qed.

Corollary naive_route_spec blk C A B clr :
  wf A -> wf B -> wf C -> nc A = nr B -> nr C = nr A -> nc C = nc B -> 0 < blk ->
  naive_defined A B clr = true ->
  naive_route blk C A B clr = Some (acc clr C (mmul A B)).
Proof. intros. rewrite naive_route_defined by assumption. now rewrite H6. Qed.

Lemma naive_defined_pos A B clr : 0 < nr B -> 0 < nc B -> naive_defined A B clr = true.
Proof.
  intros H1 H2. unfold naive_defined.
  destruct (Nat.ltb_spec 0 (nr B)); [|lia]. destruct (Nat.ltb_spec 0 (nc B)); [|lia].
  cbn [andb]. now rewrite orb_true_r.
Qed.

Lemma naive_defined_wide A B clr : 54 <= nc B -> naive_defined A B clr = true.
Proof.
  intros H. unfold naive_defined. rewrite naive_cutoff_val.
  destruct (Nat.leb_spec 54 (nc B)); [reflexivity|lia].
Qed.

(** mzd_mul_naive(C, A, B), C supplied *)
Theorem mul_naive_spec blk C A B :
  wf A -> wf B -> wf C -> nc A = nr B -> nr C = nr A -> nc C = nc B -> 0 < blk ->
  naive_defined A B true = true ->
  mul_naive blk (Some C) A B = Some (mmul A B).
Proof.
  intros HA HB HC Hd Hr Hc Hblk Hdef. unfold mul_naive.
  rewrite Hr, Hc, !Nat.eqb_refl. cbn [andb negb].
  now rewrite naive_route_spec.
Qed.

(** mzd_mul_naive(NULL, A, B) *)
Theorem mul_naive_new_spec blk A B :
  wf A -> wf B -> nc A = nr B -> 0 < blk -> naive_defined A B true = true ->
  mul_naive blk None A B = Some (mmul A B).
Proof.
  intros HA HB Hd Hblk Hdef. unfold mul_naive.
  rewrite naive_route_spec; auto. apply wf_mzero.
Qed.

(** mzd_addmul_naive(C, A, B) *)
Theorem addmul_naive_spec blk C A B :
  wf A -> wf B -> wf C -> nc A = nr B -> nr C = nr A -> nc C = nc B -> 0 < blk ->
  naive_defined A B false = true ->
  addmul_naive blk C A B = Some (madd C (mmul A B)).
Proof.
  intros HA HB HC Hd Hr Hc Hblk Hdef. unfold addmul_naive.
  rewrite Hr, Hc, !Nat.eqb_refl. cbn [andb negb].
  now rewrite naive_route_spec.
Qed.

(** m4ri_die on a result matrix of the wrong shape *)
Theorem mul_naive_die blk C A B : nr C <> nr A \/ nc C <> nc B -> mul_naive blk (Some C) A B = None.
Proof.
  intros H. unfold mul_naive.
  destruct (Nat.eqb_spec (nr C) (nr A)), (Nat.eqb_spec (nc C) (nc B)); cbn [andb negb]; try reflexivity. lia.
Qed.
Theorem addmul_naive_die blk C A B : nr C <> nr A \/ nc C <> nc B -> addmul_naive blk C A B = None.
Proof.
  intros H. unfold addmul_naive.
  destruct (Nat.eqb_spec (nr C) (nr A)), (Nat.eqb_spec (nc C) (nc B)); cbn [andb negb]; try reflexivity. lia.
Qed.

(** FINDING (empty operands, confirmed on the C library): the naive routes do not return for an
    empty second factor with fewer than 54 columns unless it is 0 x 0 (abort in mzd_copy called
    from mzd_transpose), and mzd_mul_naive crashes for A: r x 0 (r > 0), B: 0 x 0. *)
Theorem naive_empty_dies blk C A B clr :
  wf A -> wf B -> wf C -> nc A = nr B -> nr C = nr A -> nc C = nc B -> 0 < blk ->
  nc B < 54 -> (nr B = 0 /\ 0 < nc B) \/ (0 < nr B /\ nc B = 0) \/ (nr B = 0 /\ nc B = 0 /\ clr = true /\ 0 < nr A) ->
  naive_route blk C A B clr = None.
Proof.
  intros HA HB HC Hd Hr Hc Hblk Hlt H. rewrite naive_route_defined by assumption.
  unfold naive_defined. rewrite naive_cutoff_val.
  destruct (Nat.leb_spec 54 (nc B)); [lia|]. cbn [orb].
  destruct H as [[H1 H2]|[[H1 H2]|(H1 & H2 & H3 & H4)]].
  - destruct (Nat.ltb_spec 0 (nr B)); [lia|]. destruct (Nat.eqb_spec (nc B) 0); [lia|].
    cbn [andb orb]. now rewrite andb_false_r.
  - destruct (Nat.ltb_spec 0 (nc B)); [lia|]. destruct (Nat.eqb_spec (nr B) 0); [lia|].
    now rewrite andb_false_r.
  - subst clr. destruct (Nat.ltb_spec 0 (nr B)); [lia|]. destruct (Nat.eqb_spec (nr A) 0); [lia|].
    cbn [andb orb negb]. now rewrite andb_false_r.
Qed.

(* ------------------------------------------------------------------------------------------ *)
(** * 6. The splitting lemma: a row times B, column block by column block *)
(** [pref rs a c]   = combination of the rows of [rs] selected by the bits of [a] below column c;
    [part rs a c n] = combination selected by the n bits of [a] from column c on, taken from the
                      n rows c .. c+n-1 (what one Gray-code table of M4RM delivers). *)
Definition pref (rs : list N) (a : N) (c : nat) : N := mul_row (N.land a (N.ones (N.of_nat c))) rs.
Definition part (rs : list N) (a : N) (c n : nat) : N :=
  mul_row (N.land (N.shiftr a (N.of_nat c)) (N.ones (N.of_nat n))) (firstn n (skipn c rs)).

Lemma testbit_pref rs a c b : c <= length rs ->
  N.testbit (pref rs a c) (N.of_nat b) =
  xsum c (fun k => N.testbit a (N.of_nat k) && N.testbit (nth k rs 0%N) (N.of_nat b)).
Proof.
  intros Hc. unfold pref. rewrite testbit_mul_row.
  rewrite (xsum_extend c (length rs)); [|assumption|].
  - apply xsum_ext. intros k Hk. rewrite N.land_spec, testbit_ones_nat.
    destruct (Nat.ltb_spec k c); [|lia]. now rewrite andb_true_r.
  - intros k Hk. rewrite N.land_spec, testbit_ones_nat.
    destruct (Nat.ltb_spec k c); [lia|]. now rewrite andb_false_r.
Qed.

Lemma testbit_part rs a c n b : c + n <= length rs ->
  N.testbit (part rs a c n) (N.of_nat b) =
  xsum n (fun k => N.testbit a (N.of_nat (c + k)) && N.testbit (nth (c + k) rs 0%N) (N.of_nat b)).
Proof.
  intros Hc. unfold part. rewrite testbit_mul_row, firstn_length, skipn_length.
  replace (Nat.min n (length rs - c)) with n by lia.
  apply xsum_ext. intros k Hk.
  rewrite N.land_spec, testbit_ones_nat, testbit_shiftr_nat, nth_firstn_lt, nth_skipn_add by assumption.
  destruct (Nat.ltb_spec k n); [|lia]. rewrite andb_true_r. now rewrite (Nat.add_comm k c).
Qed.

Theorem mul_row_split rs a c n : c + n <= length rs ->
  pref rs a (c + n) = N.lxor (pref rs a c) (part rs a c n).
Proof.
  intros H. apply bits_ext_nat. intros b.
  rewrite N.lxor_spec, !testbit_pref, testbit_part by lia. apply xsum_app.
Qed.

Lemma pref_0 rs a : pref rs a 0 = 0%N.
Proof. unfold pref. change (N.ones (N.of_nat 0)) with 0%N. rewrite N.land_0_r. apply mul_row_0. Qed.

Lemma pref_full rs a c : bounded c a -> pref rs a c = mul_row a rs.
Proof. intros H. unfold pref. now rewrite land_ones_bounded. Qed.

(** m consecutive blocks of k columns: the xor of the per-block combinations telescopes *)
Lemma fold_parts rs a r0 k : forall m acc0, r0 + k * m <= length rs ->
  fold_left (fun acc z => N.lxor acc (part rs a (r0 + k * z) k)) (seq 0 m) acc0 =
  N.lxor acc0 (N.lxor (pref rs a r0) (pref rs a (r0 + k * m))).
Proof.
  induction m as [|m IH]; intros acc0 H.
  - cbn [seq fold_left]. rewrite Nat.mul_0_r, Nat.add_0_r. xor_bits.
  - rewrite seq_S, fold_left_app. cbn [fold_left Nat.add]. rewrite IH by lia.
    replace (r0 + k * S m) with (r0 + k * m + k) by lia.
    rewrite (mul_row_split rs a (r0 + k * m) k) by lia. xor_bits.
Qed.

(** sub-field of a field read by mzd_read_bits *)
Lemma read_sub a c w off k : off + k <= w ->
  N.land (N.shiftr (N.land (N.shiftr a (N.of_nat c)) (N.ones (N.of_nat w))) (N.of_nat off)) (N.ones (N.of_nat k)) =
  N.land (N.shiftr a (N.of_nat (c + off))) (N.ones (N.of_nat k)).
Proof.
  intros H. apply bits_ext_nat. intros j.
  rewrite !N.land_spec, !testbit_shiftr_nat, N.land_spec, testbit_shiftr_nat, !testbit_ones_nat.
  destruct (Nat.ltb_spec j k); [|now rewrite !andb_false_r].
  destruct (Nat.ltb_spec (j + off) w); [|lia]. rewrite !andb_true_r. f_equal. f_equal. lia.
Qed.

(* ------------------------------------------------------------------------------------------ *)
(** * 7. _mzd_mul_m4rm *)
Lemma row_add_rows C lo hi f j :
  row (add_rows C lo hi f) j =
  if (lo <=? j) && (j <? hi) && (j <? length (rows C)) then N.lxor (row C j) (f j) else row C j.
Proof.
  unfold add_rows. rewrite row_map_rows.
  destruct (Nat.ltb_spec j (length (rows C))).
  - rewrite andb_true_r. reflexivity.
  - rewrite andb_false_r. symmetry. now apply row_overflow.
Qed.

Lemma tab_upd0 TL g z : 0 < length g -> tab (upd 0 TL g) z = if z =? 0 then TL else tab g z.
Proof.
  intros Hg. unfold tab. rewrite nth_upd.
  destruct (Nat.eqb_spec 0 z), (Nat.eqb_spec z 0), (Nat.ltb_spec 0 (length g)); try lia; reflexivity.
Qed.

Section M4RM.
  Variables (A B : mat) (k : nat).
  Hypothesis HA : wf A.
  Hypothesis HB : wf B.
  Hypothesis Hdim : nc A = nr B.
  Hypothesis Hk : 0 < k.

  Let rs := rows B.
  Let HlB : length rs = nc A. Proof. unfold rs. rewrite (wf_len B HB). now symmetry. Qed.

  (** ** one table *)
  Lemma table_ok_make TL r n : table_ok k B TL -> n <= k -> r + n <= nr B ->
    table_ok k B (make_table B r 0 n (fst TL) (snd TL)).
  Proof.
    intros (H1 & H2 & H3 & H4) Hn Hr.
    assert (Hp : 2 ^ n <= 2 ^ k) by (apply Nat.pow_le_mono_r; lia).
    destruct (make_table_preserves (build_code n) n B r (fst TL) (snd TL) (radix * mwidth (nc B)))
      as (P1 & P2 & P3 & P4); auto; try lia.
    - apply codebook_ok_all.
    - unfold radix, mwidth. lia.
    - unfold make_table. repeat split; try assumption; lia.
  Qed.

  Lemma tlookup_make TL r n x : table_ok k B TL -> n <= k -> r + n <= nr B -> bounded n x ->
    tlookup (make_table B r 0 n (fst TL) (snd TL)) x = mul_row x (firstn n (skipn r rs)).
  Proof.
    intros (H1 & H2 & H3 & H4) Hn Hr Hx.
    assert (Hp : 2 ^ n <= 2 ^ k) by (apply Nat.pow_le_mono_r; lia).
    rewrite gray_lookup; auto; try lia. now apply bounded_lt.
  Qed.

  Definition shape (C C' : mat) : Prop :=
    nr C' = nr C /\ nc C' = nc C /\ length (rows C') = length (rows C).
  Lemma shape_refl C : shape C C. Proof. now repeat split. Qed.
  Lemma shape_trans C1 C2 C3 : shape C1 C2 -> shape C2 C3 -> shape C1 C3.
  Proof. unfold shape. intuition congruence. Qed.
  Lemma shape_add_rows C lo hi f : shape C (add_rows C lo hi f).
  Proof. unfold shape, add_rows. rewrite len_map_rows. now repeat split. Qed.

  Lemma tables_ok_nonempty g : tables_ok k B g -> 0 < length g.
  Proof.
    intros H. destruct (H 0) as (H1 & _); [unfold ntables; lia|].
    destruct g as [|x g]; [|cbn; lia]. cbn in H1. pose proof (pow2_pos k). lia.
  Qed.

  (** ** a single-table step adds the block [r, r+n) of columns of A to every row *)
  Lemma single_spec C g r n : tables_ok k B g -> n <= k -> r + n <= nc A ->
    length (rows C) = nr A ->
    let st' := m4rm_single A B r n (C, g) in
    tables_ok k B (snd st') /\ shape C (fst st') /\
    forall j, j < nr A -> row (fst st') j = N.lxor (row C j) (part rs (row A j) r n).
  Proof.
    intros Hg Hn Hr Hl. unfold m4rm_single. cbn [fst snd].
    assert (H0 : table_ok k B (tab g 0)) by (apply Hg; unfold ntables; lia).
    split; [|split].
    - intros z Hz. rewrite tab_upd0 by now apply tables_ok_nonempty.
      destruct (Nat.eqb_spec z 0); [|now apply Hg]. apply table_ok_make; auto. lia.
    - apply shape_add_rows.
    - intros j Hj. rewrite row_add_rows.
      destruct (Nat.leb_spec 0 j); [|lia]. destruct (Nat.ltb_spec j (nr A)); [|lia].
      destruct (Nat.ltb_spec j (length (rows C))); [|lia]. cbn [andb]. f_equal.
      rewrite tlookup_make; auto; try lia. apply bounded_read_bits.
  Qed.

  (** ** m single-table steps for the column blocks i0 .. i0+m-1 of width k *)
  Lemma singles_spec C0 : forall m i0 C g, tables_ok k B g -> k * (i0 + m) <= nc A ->
    shape C0 C -> length (rows C0) = nr A ->
    (forall j, j < nr A -> row C j = N.lxor (row C0 j) (pref rs (row A j) (k * i0))) ->
    let st' := fold_left (fun st i => m4rm_single A B (k * i) k st) (seq i0 m) (C, g) in
    tables_ok k B (snd st') /\ shape C0 (fst st') /\
    forall j, j < nr A -> row (fst st') j = N.lxor (row C0 j) (pref rs (row A j) (k * (i0 + m))).
  Proof.
    induction m as [|m IH]; intros i0 C g Hg Hb Hs Hl Hrow.
    - cbn [seq fold_left fst snd]. rewrite Nat.add_0_r. auto.
    - rewrite seq_S, fold_left_app. cbn [fold_left].
      destruct (IH i0 C g Hg ltac:(lia) Hs Hl Hrow) as (G1 & S1 & R1).
      set (st1 := fold_left (fun st i => m4rm_single A B (k * i) k st) (seq i0 m) (C, g)) in *.
      destruct st1 as [C1 g1]. cbn [fst snd] in *.
      destruct (single_spec C1 g1 (k * (i0 + m)) k G1 (le_n k) ltac:(lia)) as (G2 & S2 & R2).
      { destruct S1 as (_ & _ & S1). lia. }
      split; [exact G2|]. split; [eapply shape_trans; eauto|].
      intros j Hj. rewrite R2, R1 by assumption.
      replace (k * (i0 + S m)) with (k * (i0 + m) + k) by lia.
      rewrite (mul_row_split rs (row A j) (k * (i0 + m)) k) by lia. xor_bits.
  Qed.

  (** ** the 8 tables of phase 1 *)
  Let kk := ntables * k.

  Lemma tab_rebuild g r0 z : z < ntables ->
    tab (rebuild B k r0 g) z = make_table B (r0 + k * z) 0 k (fst (tab g z)) (snd (tab g z)).
  Proof.
    intros Hz. unfold tab at 1, rebuild.
    rewrite (nth_map_default _ _ _ 0) by now rewrite seq_length. now rewrite seq_nth.
  Qed.

  Lemma rebuild_ok g r0 : tables_ok k B g -> r0 + kk <= nc A -> tables_ok k B (rebuild B k r0 g).
  Proof.
    intros Hg Hr z Hz. rewrite tab_rebuild by assumption.
    apply table_ok_make; auto. unfold kk, ntables in *. nia.
  Qed.

  Lemma lookup_all_spec g r0 j : tables_ok k B g -> r0 + kk <= nc A ->
    lookup_all (rebuild B k r0 g) k (read_bits A j r0 kk) =
    N.lxor (pref rs (row A j) r0) (pref rs (row A j) (r0 + kk)).
  Proof.
    intros Hg Hr. unfold lookup_all.
    rewrite (fold_left_ext_in _ (fun acc z => N.lxor acc (part rs (row A j) (r0 + k * z) k))).
    - rewrite fold_parts by (unfold kk in Hr; lia). fold kk.
      replace (r0 + k * ntables) with (r0 + kk) by (unfold kk; lia). xor_bits.
    - intros acc0 z Hz. apply in_seq in Hz. f_equal.
      rewrite tab_rebuild by lia. unfold read_bits. rewrite read_sub by (unfold kk, ntables in *; nia).
      rewrite tlookup_make.
      + unfold part. now rewrite (Nat.mul_comm z k).
      + apply Hg. lia.
      + lia.
      + unfold kk, ntables in *. nia.
      + apply bounded_land_r, bounded_ones.
  Qed.

  (** ** phase 1, inner loop: column blocks 0 .. m-1 of width kk for the rows lo <= j < hi *)
  Lemma phase1_inner lo hi Cin : hi <= nr A -> length (rows Cin) = nr A ->
    forall m g, tables_ok k B g -> kk * m <= nc A ->
    let st' := fold_left (fun st i =>
                 let g' := rebuild B k (kk * i) (snd st) in
                 (add_rows (fst st) lo hi (fun j => lookup_all g' k (read_bits A j (kk * i) kk)), g'))
               (seq 0 m) (Cin, g) in
    tables_ok k B (snd st') /\ shape Cin (fst st') /\
    forall j, row (fst st') j =
              if (lo <=? j) && (j <? hi) then N.lxor (row Cin j) (pref rs (row A j) (kk * m)) else row Cin j.
  Proof.
    intros Hhi Hl. induction m as [|m IH]; intros g Hg Hb.
    - cbn [seq fold_left fst snd]. split; [assumption|]. split; [apply shape_refl|].
      intros j. rewrite Nat.mul_0_r, pref_0, N.lxor_0_r. now destruct ((lo <=? j) && (j <? hi)).
    - rewrite seq_S, fold_left_app. cbn [fold_left Nat.add].
      destruct (IH g Hg ltac:(lia)) as (G1 & S1 & R1).
      match goal with |- context [fold_left ?F (seq 0 m) (Cin, g)] =>
        set (st1 := fold_left F (seq 0 m) (Cin, g)) in * end.
      destruct st1 as [C1 g1]. cbn [fst snd] in *.
      assert (Hr : kk * m + kk <= nc A) by lia.
      split; [now apply rebuild_ok|]. split; [eapply shape_trans; [exact S1|apply shape_add_rows]|].
      intros j. rewrite row_add_rows, R1.
      destruct S1 as (_ & _ & S1).
      destruct (Nat.leb_spec lo j), (Nat.ltb_spec j hi); cbn [andb]; try reflexivity.
      destruct (Nat.ltb_spec j (length (rows C1))); [|lia].
      rewrite lookup_all_spec by assumption.
      replace (kk * S m) with (kk * m + kk) by lia. xor_bits.
  Qed.

  (** ** phase 1, outer loop over the row blocks *)
  Lemma phase1_outer blk C0 : 0 < blk -> length (rows C0) = nr A ->
    forall n g, tables_ok k B g ->
    let endb := nc A / kk in
    let st' := fold_left (fun st gs =>
        let lo := gs * blk in
        let hi := Nat.min (lo + blk) (nr A) in
        fold_left (fun st i =>
            let g' := rebuild B k (kk * i) (snd st) in
            (add_rows (fst st) lo hi (fun j => lookup_all g' k (read_bits A j (kk * i) kk)), g'))
          (seq 0 endb) st)
      (seq 0 n) (C0, g) in
    tables_ok k B (snd st') /\ shape C0 (fst st') /\
    forall j, row (fst st') j =
              if (j <? n * blk) && (j <? nr A) then N.lxor (row C0 j) (pref rs (row A j) (kk * endb))
              else row C0 j.
  Proof.
    intros Hblk Hl. induction n as [|n IH]; intros g Hg endb.
    - cbn [seq fold_left fst snd]. split; [assumption|]. split; [apply shape_refl|].
      intros j. destruct (Nat.ltb_spec j (0 * blk)); [lia|]. reflexivity.
    - rewrite seq_S, fold_left_app. cbn [fold_left Nat.add].
      destruct (IH g Hg) as (G1 & S1 & R1). fold endb in G1, S1, R1.
      match goal with |- context [fold_left ?F (seq 0 n) (C0, g)] =>
        set (st1 := fold_left F (seq 0 n) (C0, g)) in * end.
      assert (Hst : st1 = (fst st1, snd st1)) by now destruct st1.
      rewrite Hst.
      assert (Hkk : 0 < kk) by (unfold kk, ntables; lia).
      assert (Hend : kk * endb <= nc A) by (unfold endb; apply Nat.mul_div_le; lia).
      destruct (phase1_inner (n * blk) (Nat.min (n * blk + blk) (nr A)) (fst st1)
                  ltac:(lia) ltac:(destruct S1 as (_ & _ & S1); lia) endb (snd st1) G1 Hend)
        as (G2 & S2 & R2).
      split; [exact G2|]. split; [eapply shape_trans; eauto|].
      intros j. rewrite R2, R1.
      destruct (Nat.leb_spec (n * blk) j), (Nat.ltb_spec j (Nat.min (n * blk + blk) (nr A))),
        (Nat.ltb_spec j (n * blk)), (Nat.ltb_spec j (nr A)), (Nat.ltb_spec j (S n * blk));
        cbn [andb]; try lia; try reflexivity.
  Qed.

  Lemma ngiant_covers blk n : 0 < blk -> n <= ngiant blk n * blk.
  Proof.
    intros Hblk. unfold ngiant.
    pose proof (Nat.div_mod (n + blk - 1) blk ltac:(lia)) as E.
    pose proof (Nat.mod_upper_bound (n + blk - 1) blk ltac:(lia)) as U.
    set (q := (n + blk - 1) / blk) in *. set (r := (n + blk - 1) mod blk) in *.
    clearbody q r. nia.
  Qed.

  Theorem phase1_spec blk C0 g : 0 < blk -> length (rows C0) = nr A -> tables_ok k B g ->
    let st' := m4rm_phase1 blk k A B (C0, g) in
    tables_ok k B (snd st') /\ shape C0 (fst st') /\
    forall j, j < nr A ->
      row (fst st') j = N.lxor (row C0 j) (pref rs (row A j) (kk * (nc A / kk))).
  Proof.
    intros Hblk Hl Hg. unfold m4rm_phase1. fold kk.
    destruct (phase1_outer blk C0 Hblk Hl (ngiant blk (nr A)) g Hg) as (G & S & R).
    split; [exact G|]. split; [exact S|]. intros j Hj. rewrite R.
    pose proof (ngiant_covers blk (nr A) Hblk).
    destruct (Nat.ltb_spec j (ngiant blk (nr A) * blk)); [|lia].
    destruct (Nat.ltb_spec j (nr A)); [|lia]. reflexivity.
  Qed.

  (** ** phases 2 and 3 *)
  Theorem phase2_spec C0 C g : tables_ok k B g -> shape C0 C -> length (rows C0) = nr A ->
    (forall j, j < nr A -> row C j = N.lxor (row C0 j) (pref rs (row A j) (kk * (nc A / kk)))) ->
    let st' := m4rm_phase2 k A B (C, g) in
    shape C0 (fst st') /\
    forall j, j < nr A -> row (fst st') j = N.lxor (row C0 j) (mul_row (row A j) rs).
  Proof.
    intros Hg Hs Hl Hrow. unfold m4rm_phase2. fold kk.
    assert (Hkk : 0 < kk) by (unfold kk, ntables; lia).
    assert (Hfull : forall j c, c = nc A -> pref rs (row A j) c = mul_row (row A j) rs).
    { intros j c ->. apply pref_full. now apply wf_row_bounded. }
    set (endb := nc A / kk) in *.
    destruct (Nat.eqb_spec (nc A mod kk) 0) as [Hz|Hnz].
    - split; [exact Hs|]. intros j Hj. rewrite Hrow by assumption. f_equal. apply Hfull.
      pose proof (Nat.div_mod (nc A) kk ltac:(lia)). fold endb in H. lia.
    - assert (Ei0 : kk / k * endb = ntables * endb).
      { unfold kk. now rewrite Nat.div_mul by lia. }
      rewrite Ei0. set (i0 := ntables * endb).
      assert (Eki0 : k * i0 = kk * endb) by (unfold i0, kk; nia).
      assert (Hend : kk * endb <= nc A) by (unfold endb; apply Nat.mul_div_le; lia).
      assert (Hi0 : i0 <= nc A / k).
      { apply Nat.div_le_lower_bound; lia. }
      assert (Hmk : k * (nc A / k) <= nc A) by (apply Nat.mul_div_le; lia).
      destruct (singles_spec C0 (nc A / k - i0) i0 C g Hg) as (G1 & S1 & R1); auto.
      { replace (i0 + (nc A / k - i0)) with (nc A / k) by lia. exact Hmk. }
      { intros j Hj. rewrite Eki0. now apply Hrow. }
      replace (i0 + (nc A / k - i0)) with (nc A / k) in R1 by lia.
      match goal with |- context [fold_left ?F (seq i0 ?m) (C, g)] =>
        set (st1 := fold_left F (seq i0 m) (C, g)) in * end.
      destruct (Nat.eqb_spec (nc A mod k) 0) as [Hz2|Hnz2].
      + split; [exact S1|]. intros j Hj. rewrite R1 by assumption. f_equal. apply Hfull.
        pose proof (Nat.div_mod (nc A) k ltac:(lia)). lia.
      + assert (Hst : st1 = (fst st1, snd st1)) by now destruct st1.
        rewrite Hst.
        pose proof (Nat.div_mod (nc A) k ltac:(lia)) as Edm.
        pose proof (Nat.mod_upper_bound (nc A) k ltac:(lia)) as Um.
        destruct (single_spec (fst st1) (snd st1) (k * (nc A / k)) (nc A mod k) G1) as (_ & S2 & R2);
          try lia.
        { destruct S1 as (_ & _ & S1). lia. }
        split; [eapply shape_trans; eauto|].
        intros j Hj. rewrite R2, R1 by assumption.
        rewrite <- (Hfull j (k * (nc A / k) + nc A mod k)) by lia.
        rewrite (mul_row_split rs (row A j) (k * (nc A / k)) (nc A mod k)) by lia. xor_bits.
  Qed.
End M4RM.

Lemma choose_k_range kauto k : 2 <= choose_k kauto k <= 8.
Proof.
  unfold choose_k, clip_k. set (x := if (k =? 0)%Z then kauto else k). clearbody x.
  destruct (Z.ltb_spec x 2); [lia|]. destruct (Z.ltb_spec 8 x); lia.
Qed.

(** ** _mzd_mul_m4rm: for every block size, every requested k and every value of the automatic
    choice, every admissible stale state of the 8 tables and index buffers *)
Theorem m4rm_spec blk kauto k g C A B clr :
  wf A -> wf B -> wf C -> nc A = nr B -> nr C = nr A -> nc C = nc B -> 0 < blk ->
  tables_ok (choose_k kauto k) B g ->
  naive_defined A B clr = true ->
  mul_m4rm_core blk kauto k g C A B clr = Some (acc clr C (mmul A B)).
Proof.
  intros HA HB HC Hd Hr Hc Hblk Hg Hdef. unfold mul_m4rm_core. rewrite naive_cutoff_val.
  destruct ((nc B <? 54) || (nr A <? 16)) eqn:Hfb.
  - destruct clr.
    + now apply mul_naive_spec.
    + now apply addmul_naive_spec.
  - apply orb_false_iff in Hfb as [Hf1 Hf2]. apply Nat.ltb_ge in Hf1, Hf2.
    rewrite Hd, Hr, Hc, !Nat.eqb_refl. cbn [andb negb].
    set (C0 := if clr then mzero (nr C) (nc C) else C).
    assert (E : (if clr then clear_model C else Some C) = Some C0).
    { subst C0. destruct clr; [|reflexivity]. apply clear_model_some. lia. }
    rewrite E. destruct (Nat.eqb_spec blk 0) as [|_]; [lia|]. f_equal.
    assert (Hl0 : length (rows C0) = nr A).
    { subst C0. destruct clr; [cbn; rewrite repeat_length; lia|rewrite (wf_len C HC); lia]. }
    pose proof (choose_k_range kauto k) as Hk. set (k' := choose_k kauto k) in *.
    destruct (phase1_spec A B k' HB Hd ltac:(lia) blk C0 g Hblk Hl0 Hg) as (G1 & S1 & R1).
    set (st1 := m4rm_phase1 blk k' A B (C0, g)) in *.
    assert (Hst : st1 = (fst st1, snd st1)) by now destruct st1.
    rewrite Hst.
    destruct (phase2_spec A B k' HA HB Hd ltac:(lia) C0 (fst st1) (snd st1) G1 S1 Hl0 R1) as (S2 & R2).
    destruct S2 as (S2a & S2b & S2c).
    rewrite <- (acc_madd clr C (mmul A B)) by (try apply wf_mmul; auto). fold C0.
    apply result_rows; try assumption.
    + rewrite (wf_len A HA). exact Hl0.
    + intros i Hi. apply R2. rewrite <- (wf_len A HA). exact Hi.
Qed.

(** the complete behaviour of _mzd_mul_m4rm on operands of compatible shape *)
Theorem m4rm_core_complete blk kauto k g C A B clr :
  wf A -> wf B -> wf C -> nc A = nr B -> nr C = nr A -> nc C = nc B -> 0 < blk ->
  tables_ok (choose_k kauto k) B g ->
  mul_m4rm_core blk kauto k g C A B clr =
  if naive_defined A B clr then Some (acc clr C (mmul A B)) else None.
Proof.
  intros HA HB HC Hd Hr Hc Hblk Hg. destruct (naive_defined A B clr) eqn:Hdef.
  - now apply m4rm_spec.
  - assert (Hlt : nc B < 54).
    { destruct (Nat.lt_ge_cases (nc B) 54) as [|Hge]; [assumption|].
      rewrite (naive_defined_wide A B clr Hge) in Hdef. discriminate. }
    unfold mul_m4rm_core. rewrite naive_cutoff_val.
    destruct (Nat.ltb_spec (nc B) 54); [|lia]. cbn [orb].
    destruct clr; unfold mul_naive, addmul_naive; rewrite Hr, Hc, !Nat.eqb_refl; cbn [andb negb];
      rewrite naive_route_defined by assumption; now rewrite Hdef.
Qed.

(* ------------------------------------------------------------------------------------------ *)
(** * 8. The public wrappers mzd_mul_m4rm / mzd_addmul_m4rm *)
Theorem mul_m4rm_spec blk kauto k g C A B :
  wf A -> wf B -> wf C -> nc A = nr B -> nr C = nr A -> nc C = nc B -> 0 < blk ->
  tables_ok (choose_k kauto k) B g -> naive_defined A B true = true ->
  mul_m4rm blk kauto k g (Some C) A B = Some (mmul A B).
Proof.
  intros HA HB HC Hd Hr Hc Hblk Hg Hdef. unfold mul_m4rm.
  rewrite Hd, Hr, Hc, !Nat.eqb_refl. cbn [andb negb].
  now rewrite m4rm_spec.
Qed.

(** mzd_mul_m4rm(NULL, A, B, k) *)
Theorem mul_m4rm_new_spec blk kauto k g A B :
  wf A -> wf B -> nc A = nr B -> 0 < blk ->
  tables_ok (choose_k kauto k) B g -> naive_defined A B true = true ->
  mul_m4rm blk kauto k g None A B = Some (mmul A B).
Proof.
  intros HA HB Hd Hblk Hg Hdef. unfold mul_m4rm.
  rewrite Hd, !Nat.eqb_refl. cbn [negb].
  rewrite m4rm_spec; auto. apply wf_mzero.
Qed.

Lemma madd_empty C P : wf C -> wf P -> nr P = nr C -> nc P = nc C -> nr C = 0 \/ nc C = 0 ->
  madd C P = C.
Proof.
  intros HC HP Hr Hc He. apply mat_ext; auto.
  - apply wf_madd; auto.
  - rewrite nr_madd, nc_madd. intros i j Hi Hj. lia.
Qed.

Theorem addmul_m4rm_spec blk kauto k g C A B :
  wf A -> wf B -> wf C -> nc A = nr B -> nr C = nr A -> nc C = nc B -> 0 < blk ->
  tables_ok (choose_k kauto k) B g -> naive_defined A B false = true ->
  addmul_m4rm blk kauto k g C A B = Some (madd C (mmul A B)).
Proof.
  intros HA HB HC Hd Hr Hc Hblk Hg Hdef. unfold addmul_m4rm.
  destruct ((nc C =? 0) || (nr C =? 0)) eqn:He.
  - f_equal. symmetry. apply madd_empty; auto.
    + now apply wf_mmul.
    + apply orb_true_iff in He as [He|He]; apply Nat.eqb_eq in He; auto.
  - rewrite Hd, Hr, Hc, !Nat.eqb_refl. cbn [andb negb].
    now rewrite m4rm_spec.
Qed.

(** the early return of mzd_addmul_m4rm precedes every check *)
Theorem addmul_m4rm_empty blk kauto k g C A B : nr C = 0 \/ nc C = 0 ->
  addmul_m4rm blk kauto k g C A B = Some C.
Proof.
  intros H. unfold addmul_m4rm.
  destruct (Nat.eqb_spec (nc C) 0), (Nat.eqb_spec (nr C) 0); cbn [orb]; try reflexivity. lia.
Qed.

(** m4ri_die *)
Theorem mul_m4rm_die blk kauto k g C A B :
  nc A <> nr B \/ (exists C', C = Some C' /\ (nr C' <> nr A \/ nc C' <> nc B)) ->
  mul_m4rm blk kauto k g C A B = None.
Proof.
  intros H. unfold mul_m4rm. destruct (Nat.eqb_spec (nc A) (nr B)); cbn [negb]; [|reflexivity].
  destruct H as [H|(C' & -> & H)]; [contradiction|].
  destruct (Nat.eqb_spec (nr C') (nr A)), (Nat.eqb_spec (nc C') (nc B)); cbn [andb negb]; try reflexivity. lia.
Qed.

Theorem addmul_m4rm_die blk kauto k g C A B : 0 < nr C -> 0 < nc C ->
  nc A <> nr B \/ nr C <> nr A \/ nc C <> nc B ->
  addmul_m4rm blk kauto k g C A B = None.
Proof.
  intros H1 H2 H. unfold addmul_m4rm.
  destruct (Nat.eqb_spec (nc C) 0); [lia|]. destruct (Nat.eqb_spec (nr C) 0); [lia|]. cbn [orb].
  destruct (Nat.eqb_spec (nc A) (nr B)); cbn [negb]; [|reflexivity].
  destruct (Nat.eqb_spec (nr C) (nr A)), (Nat.eqb_spec (nc C) (nc B)); cbn [andb negb]; try reflexivity. lia.
Qed.

(** exactly [Some (A x B)] on compatible dimensions (and a second factor on which the naive
    fall-back is defined: always the case for positive dimensions), [None] otherwise *)
Theorem mul_m4rm_complete blk kauto k g C A B :
  wf A -> wf B -> wf C -> 0 < blk -> tables_ok (choose_k kauto k) B g ->
  mul_m4rm blk kauto k g (Some C) A B =
  if (nc A =? nr B) && (nr C =? nr A) && (nc C =? nc B) && naive_defined A B true
  then Some (mmul A B) else None.
Proof.
  intros HA HB HC Hblk Hg. unfold mul_m4rm.
  destruct (Nat.eqb_spec (nc A) (nr B)) as [Hd|]; cbn [negb andb]; [|reflexivity].
  destruct (Nat.eqb_spec (nr C) (nr A)) as [Hr|]; cbn [negb andb]; [|reflexivity].
  destruct (Nat.eqb_spec (nc C) (nc B)) as [Hc|]; cbn [negb andb]; [|reflexivity].
  now rewrite m4rm_core_complete.
Qed.

Theorem addmul_m4rm_complete blk kauto k g C A B :
  wf A -> wf B -> wf C -> 0 < blk -> tables_ok (choose_k kauto k) B g ->
  addmul_m4rm blk kauto k g C A B =
  if (nc C =? 0) || (nr C =? 0) then Some C
  else if (nc A =? nr B) && (nr C =? nr A) && (nc C =? nc B) && naive_defined A B false
  then Some (madd C (mmul A B)) else None.
Proof.
  intros HA HB HC Hblk Hg. unfold addmul_m4rm.
  destruct ((nc C =? 0) || (nr C =? 0)); [reflexivity|].
  destruct (Nat.eqb_spec (nc A) (nr B)) as [Hd|]; cbn [negb andb]; [|reflexivity].
  destruct (Nat.eqb_spec (nr C) (nr A)) as [Hr|]; cbn [negb andb]; [|reflexivity].
  destruct (Nat.eqb_spec (nc C) (nc B)) as [Hc|]; cbn [negb andb]; [|reflexivity].
  now rewrite m4rm_core_complete.
Qed.

(* ------------------------------------------------------------------------------------------ *)
(** * 9. Hypotheses on the table state: decidable form, fresh tables *)
Lemma table_okb_spec k B TL : table_okb k B TL = true -> table_ok k B TL.
Proof.
  unfold table_okb, table_ok. rewrite !andb_true_iff, !Nat.leb_le, N.eqb_eq, forallb_forall.
  intros [[[H1 H2] H3] H4]. repeat split; try assumption.
  apply Forall_forall. intros x Hx. now apply boundedb_spec, H4.
Qed.

Lemma tables_okb_spec k B g : tables_okb k B g = true -> tables_ok k B g.
Proof.
  unfold tables_okb, tables_ok. rewrite forallb_forall. intros H z Hz.
  apply table_okb_spec, H, in_seq. lia.
Qed.

Lemma nth_repeat_lt {T} (x d : T) n i : i < n -> nth i (repeat x n) d = x.
Proof. intros H. rewrite (nth_indep _ d x) by now rewrite repeat_length. apply nth_repeat. Qed.

Lemma tables_init_ok k B : tables_ok k B (tables_init k).
Proof.
  intros z Hz. unfold tab, tables_init. rewrite nth_repeat_lt by assumption.
  unfold table_ok. cbn [fst snd]. rewrite !repeat_length. repeat split; try lia.
  - apply nth_repeat.
  - apply Forall_forall. intros x Hx. apply repeat_spec in Hx. subst x. apply bounded_0.
Qed.

(** the extracted entry points compute the specification *)
Theorem m4rm_run_spec k blk clr C A B : wf A -> wf B -> wf C -> 0 < blk ->
  m4rm_run k blk clr C A B =
  if clr then
    if (nc A =? nr B) && (nr C =? nr A) && (nc C =? nc B) && naive_defined A B true
    then Some (mmul A B) else None
  else
    if (nc C =? 0) || (nr C =? 0) then Some C
    else if (nc A =? nr B) && (nr C =? nr A) && (nc C =? nc B) && naive_defined A B false
    then Some (madd C (mmul A B)) else None.
Proof.
  intros HA HB HC Hblk. unfold m4rm_run. destruct clr.
  - apply mul_m4rm_complete; auto. apply tables_init_ok.
  - apply addmul_m4rm_complete; auto. apply tables_init_ok.
Qed.

Corollary m4rm_run_pos k blk clr C A B : wf A -> wf B -> wf C -> 0 < blk ->
  nc A = nr B -> nr C = nr A -> nc C = nc B -> 0 < nr B -> 0 < nc B ->
  m4rm_run k blk clr C A B = Some (acc clr C (mmul A B)).
Proof.
  intros HA HB HC Hblk Hd Hr Hc H1 H2. rewrite m4rm_run_spec by assumption.
  rewrite Hd, Hr, Hc, !Nat.eqb_refl, !naive_defined_pos by assumption. cbn [andb].
  destruct clr; [reflexivity|]. cbn [acc].
  destruct ((nc B =? 0) || (nr A =? 0)) eqn:He; [|reflexivity].
  f_equal. symmetry. apply madd_empty; auto.
  - now apply wf_mmul.
  - apply orb_true_iff in He as [He|He]; apply Nat.eqb_eq in He; lia.
Qed.

Theorem naive_run_spec blk clr C A B : wf A -> wf B -> wf C -> 0 < blk ->
  naive_run blk clr C A B =
  if (nr C =? nr A) && (nc C =? nc B) then
    if negb (nc A =? nr B) then None      (* not checked by the C code: out-of-bounds reads *)
    else if naive_defined A B clr then Some (acc clr C (mmul A B)) else None
  else None.
Proof.
  intros HA HB HC Hblk. unfold naive_run, mul_naive, addmul_naive.
  destruct (Nat.eqb_spec (nr C) (nr A)) as [Hr|], (Nat.eqb_spec (nc C) (nc B)) as [Hc|];
    cbn [andb negb]; try (now destruct clr).
  destruct (Nat.eqb_spec (nc A) (nr B)) as [Hd|Hd]; cbn [negb].
  - destruct clr; now rewrite naive_route_defined.
  - unfold naive_route. destruct (Nat.eqb_spec (nc A) (nr B)); [contradiction|]. now destruct clr.
Qed.

(* ------------------------------------------------------------------------------------------ *)
(** * 10. Examples: the models evaluated on concrete inputs, satisfiability of the hypotheses *)
Module Examples.
  (** 17 x 21 times 21 x 70 (M4RM route: 17 >= 16 rows, 70 >= 54 columns; 21 columns of A exercise
      all three phases: k = 2 gives one 16-column block, two 2-column blocks and a 1-column tail) *)
  Definition exA : mat :=
    mk 17 21 (map (fun i => let n := N.of_nat i in ((n * n * 7919 + 12345 * n + 1) mod 2 ^ 21)%N) (seq 0 17)).
  Definition exB : mat :=
    mk 21 70 (map (fun i => let n := N.of_nat i in (((n + 3) ^ 11 * 1000003 + 987654321) mod 2 ^ 70)%N) (seq 0 21)).
  Definition exC : mat :=
    mk 17 70 (map (fun i => let n := N.of_nat i in (((n + 5) ^ 13 + 77) mod 2 ^ 70)%N) (seq 0 17)).
  (** stale tables: 256 rows of garbage filling both physical words (128 bits) except row 0, and
      garbage index buffers (entries even beyond the table size) *)
  Definition exg : tables :=
    map (fun z => (0%N :: map (fun i => ((N.of_nat (i + z) * 0x9E3779B97F4A7C15F39CC0605CEDC835) mod 2 ^ 128)%N) (seq 1 255),
                   map (fun i => (i * 37 + 11 * z) mod 300) (seq 0 256)))
        (seq 0 8).
  (** 53-column second factor: the dot-product route of the naive multiplication *)
  Definition exB53 : mat := msub exB 0 0 21 53.
  Definition exC53 : mat := msub exC 0 0 17 53.

  Definition agrees (r : option mat) (M : mat) : bool :=
    match r with Some R => mequal R M | None => false end.

  Example ex_wf : wfb exA && wfb exB && wfb exC && wfb exB53 && wfb exC53 = true.
  Proof. vm_compute. reflexivity. Qed.

  Example ex_garbage_admissible : forallb (fun k => tables_okb k exB exg) [2; 3; 4; 5; 6; 7; 8] = true.
  Proof. vm_compute. reflexivity. Qed.

  Example ex_garbage_is_garbage :
    nth 5 (fst (tab exg 3)) 0%N = 321319080551469131472392529345025819048%N /\ nth 7 (snd (tab exg 2)) 0 = 281.
  Proof. vm_compute. split; reflexivity. Qed.

  (** _mzd_mul_m4rm on garbage tables, for requested k = -3 .. 16 (0 = automatic, here 7), both
      clear flags, block size 5 (4 row blocks) *)
  Example m4rm_example :
    forallb (fun k => forallb (fun clr =>
        agrees (mul_m4rm_core 5 7 k exg exC exA exB clr) (acc clr exC (mmul exA exB))) [true; false])
      [-3; 0; 1; 2; 3; 4; 5; 6; 7; 8; 9; 16]%Z = true.
  Proof. vm_compute. reflexivity. Qed.

  (** the entry points for the driver *)
  Example m4rm_run_example :
    agrees (m4rm_run 3 2048 true exC exA exB) (mmul exA exB) &&
    agrees (m4rm_run 0 7 false exC exA exB) (madd exC (mmul exA exB)) &&
    agrees (m4rm_run 4 7 false exC53 exA exB53) (madd exC53 (mmul exA exB53)) = true.
  Proof. vm_compute. reflexivity. Qed.

  (** naive routes: 53 columns -> transposed dot products (one partial word; with exB a full word
      and a partial one through mul_naive_core directly), 70 columns -> row combination *)
  Example naive_example :
    agrees (naive_run 5 true exC53 exA exB53) (mmul exA exB53) &&
    agrees (naive_run 5 false exC53 exA exB53) (madd exC53 (mmul exA exB53)) &&
    agrees (mul_naive_core 4 exC exA (mtrans exB) false) (madd exC (mmul exA exB)) &&
    agrees (mul_naive_core 17 exC exA (mtrans exB) true) (mmul exA exB) &&
    agrees (naive_run 5 false exC exA exB) (madd exC (mmul exA exB)) &&
    agrees (mul_va exC exA exB true) (mmul exA exB) = true.
  Proof. vm_compute. reflexivity. Qed.

  (** m4ri_die / crashes *)
  Example die_examples :
    mul_m4rm 5 7 3 exg (Some exC) exA exC = None /\               (* 21 columns against 17 rows *)
    mul_m4rm 5 7 3 exg (Some exC53) exA exB = None /\             (* C of the wrong shape *)
    addmul_m4rm 5 7 3 exg exC53 exA exB = None /\
    addmul_m4rm 5 7 3 exg (mzero 0 9) exA exC = Some (mzero 0 9) /\  (* empty C: returned before any check *)
    mul_naive 5 (Some exC53) exA exB = None.
  Proof. vm_compute. repeat split; reflexivity. Qed.

  (** empty operands (FINDINGS, all three reproduced on the C library):
      - a x n times n x 0 (n > 0): abort "mzd_copy: Target matrix is too small." instead of the
        empty product; likewise a x 0 times 0 x c for 0 < c < 54;
      - r x 0 times 0 x 0 with r > 0: mzd_mul_naive writes through a NULL data pointer *)
  Example empty_operand_examples :
    mul_naive 2048 None (mzero 3 4) (mzero 4 0) = None /\
    mul_naive 2048 None (mzero 3 0) (mzero 0 4) = None /\
    mul_naive 2048 None (mzero 3 0) (mzero 0 0) = None /\
    addmul_naive 2048 (mzero 3 0) (mzero 3 0) (mzero 0 0) = Some (mzero 3 0) /\
    mul_naive 2048 None (mzero 0 0) (mzero 0 0) = Some (mzero 0 0) /\
    mul_naive 2048 None (mzero 3 0) (mzero 0 60) = Some (mzero 3 60) /\
    mul_m4rm 2048 0 0 (tables_init 2) None (mzero 20 5) (mzero 5 0) = None /\
    mul_m4rm 2048 0 0 (tables_init 2) None (mzero 20 0) (mzero 0 60) = Some (mzero 20 60).
  Proof. vm_compute. repeat split; reflexivity. Qed.

  (** the hypotheses of [m4rm_spec] are simultaneously satisfiable with non-trivial garbage, and
      the theorem then predicts what evaluation of the model delivers *)
  Example m4rm_spec_hyps :
    wf exA /\ wf exB /\ wf exC /\ nc exA = nr exB /\ nr exC = nr exA /\ nc exC = nc exB /\ 0 < 5 /\
    tables_ok (choose_k 7 0) exB exg /\ naive_defined exA exB false = true.
  Proof.
    split; [apply wfb_spec; vm_compute; reflexivity|].
    split; [apply wfb_spec; vm_compute; reflexivity|].
    split; [apply wfb_spec; vm_compute; reflexivity|].
    split; [reflexivity|]. split; [reflexivity|]. split; [reflexivity|]. split; [lia|].
    split; [apply tables_okb_spec; vm_compute; reflexivity|reflexivity].
  Qed.

  Example m4rm_spec_instance :
    mul_m4rm_core 5 7 0 exg exC exA exB false = Some (madd exC (mmul exA exB)).
  Proof.
    destruct m4rm_spec_hyps as (H1 & H2 & H3 & H4 & H5 & H6 & H7 & H8 & H9).
    exact (m4rm_spec 5 7 0 exg exC exA exB false H1 H2 H3 H4 H5 H6 H7 H8 H9).
  Qed.
End Examples.
