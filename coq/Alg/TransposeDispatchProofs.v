(* Alg/TransposeDispatchProofs.v — the transpose dispatcher of mzd.c (model: Alg/TransposeDispatch.v) computes
   the transpose for ALL shapes >= 1x1, given kernels that transpose their size class:
   every schedule the dispatcher produces consists of kernel calls on rectangles that (1) lie inside the
   matrix, have destination position = mirrored source position and the size class of the kernel called
   ([item_ok]) and (2) together cover every destination entry ([*_cover]); executing such a schedule by
   pasting the kernels' results yields mtrans A ([run_sched_good]).  The recursion of
   _mzd_transpose_notsmall is handled by induction on the (logarithmic) fuel with the invariant
   nrows <= 512 * 2^a, ncols <= 512 * 2^b, a + b < fuel. *)
From Coq Require Import List Arith NArith Bool Lia ZArith ZifyBool ZifyNat.
From M4 Require Import Base.Bits Lin.Mat Lin.Ops Lin.OpsProofs Alg.TransposeDispatch.
Import ListNotations.
Local Open Scope nat_scope.
Ltac Zify.zify_post_hook ::= Z.div_mod_to_equations.

Definition covers (r : rect) (i j : nat) : Prop :=
  da r <= i < da r + rh r /\ db r <= j < db r + rw r.

(** rectangle inside the region of a (sub)call with fwd = (dr, dc), fws = (sr, sc), and destination
    position = mirrored source position relative to those pointers *)
Definition inreg (dr dc sr sc nrows ncols : nat) (r : rect) : Prop :=
  dr <= da r /\ da r + rh r <= dr + ncols /\ dc <= db r /\ db r + rw r <= dc + nrows /\
  sa r + dc = sr + db r /\ sb r + dr = sc + da r.

(** the size class the C code guarantees to the kernel it calls (source block: rw rows x rh columns) *)
Definition kind_ok (k : kind) (r : rect) : Prop :=
  match k with
  | Kd64 => rh r = 64 /\ rw r = 64
  | Kdlt64x64 => rh r = 64 /\ 0 < rw r < 64
  | Kd64xlt64 => 0 < rh r < 64 /\ rw r = 64
  | Kdsmall ms => 0 < rh r < 64 /\ 0 < rw r < 64 /\ ms = Nat.max (rw r) (rh r)
  end.

Definition item_ok (P : rect -> Prop) (it : item) : Prop :=
  match it with
  | Single k r => kind_ok k r /\ P r
  | Pair r1 r2 => (rh r1 = 64 /\ rw r1 = 64 /\ P r1) /\ (rh r2 = 64 /\ rw r2 = 64 /\ P r2)
  end.

Definition covered (s : list item) (i j : nat) : Prop :=
  exists it r, In it s /\ In r (item_rects it) /\ covers r i j.

Lemma item_ok_impl (P Q : rect -> Prop) it : (forall r, P r -> Q r) -> item_ok P it -> item_ok Q it.
Proof. destruct it; cbn; intuition. Qed.

Lemma covered_app_l s1 s2 i j : covered s1 i j -> covered (s1 ++ s2) i j.
Proof. intros (it & r & H1 & H2 & H3). exists it, r. rewrite in_app_iff. auto. Qed.
Lemma covered_app_r s1 s2 i j : covered s2 i j -> covered (s1 ++ s2) i j.
Proof. intros (it & r & H1 & H2 & H3). exists it, r. rewrite in_app_iff. auto. Qed.

(** * Executing a schedule *)
Section Exec.
  Variable K64 : mat -> mat.
  Variable K64_2 : mat -> mat -> mat * mat.
  Variable Klt64x64 K64xlt64 : mat -> mat.
  Variable Ksmall : nat -> mat -> mat.

  (** the specifications of the kernels (proven for the translated C text in Leaf/TransposeSpecs*.v at
      the level of words) *)
  Hypothesis H64 : forall B, wf B -> nr B = 64 -> nc B = 64 -> K64 B = mtrans B.
  Hypothesis H64_2 : forall B1 B2, wf B1 -> nr B1 = 64 -> nc B1 = 64 -> wf B2 -> nr B2 = 64 -> nc B2 = 64 ->
                                   K64_2 B1 B2 = (mtrans B1, mtrans B2).
  Hypothesis Hlt64x64 : forall B, wf B -> 0 < nr B < 64 -> nc B = 64 -> Klt64x64 B = mtrans B.
  Hypothesis H64xlt64 : forall B, wf B -> nr B = 64 -> 0 < nc B < 64 -> K64xlt64 B = mtrans B.
  Hypothesis Hsmall : forall B, wf B -> 0 < nr B < 64 -> 0 < nc B < 64 ->
                                Ksmall (Nat.max (nr B) (nc B)) B = mtrans B.

  Variable A : mat.
  Hypothesis HA : wf A.

  Definition top (r : rect) : Prop := inreg 0 0 0 0 (nr A) (nc A) r.

  Definition dest_ok (D : mat) : Prop := wf D /\ nr D = nc A /\ nc D = nr A.

  Lemma src_block_wf r : top r -> wf (src_block A r) /\ nr (src_block A r) = rw r /\ nc (src_block A r) = rh r.
  Proof.
    intros Hr. unfold top, inreg in Hr. destruct HA as [HlA _]. split; [|split; reflexivity].
    apply wf_msub. lia.
  Qed.

  Lemma put_good D r : dest_ok D -> top r ->
    dest_ok (put D r (mtrans (src_block A r))) /\
    forall i j, get (put D r (mtrans (src_block A r))) i j =
                if (da r <=? i) && (i <? da r + rh r) && (db r <=? j) && (j <? db r + rw r)
                then get A j i else get D i j.
  Proof.
    intros (HD & HrD & HcD) Hr. destruct (src_block_wf r Hr) as (HwB & HnrB & HncB).
    pose proof (wf_mtrans _ HwB) as HwT. pose proof Hr as Hr'. unfold top, inreg in Hr'.
    destruct HD as [HlD HbD]. unfold put. split.
    - split; [|split; [exact HrD|exact HcD]].
      apply wf_mpaste; [split; assumption|assumption|]. rewrite nc_mtrans, HnrB. lia.
    - intros i j. rewrite get_mpaste by (try assumption; rewrite nr_mtrans, HncB; lia).
      rewrite nr_mtrans, nc_mtrans, HncB, HnrB.
      destruct ((da r <=? i) && (i <? da r + rh r) && (db r <=? j) && (j <? db r + rw r)) eqn:E; [|reflexivity].
      rewrite get_mtrans by assumption. unfold src_block. destruct HA as [HlA _].
      rewrite get_msub by lia.
      assert (Hc : (da r <= i /\ i < da r + rh r) /\ (db r <= j /\ j < db r + rw r)) by lia.
      replace (j - db r <? rw r) with true by lia. replace (i - da r <? rh r) with true by lia. cbn [andb].
      f_equal; lia.
  Qed.

  Lemma run_kind_spec k r : top r -> kind_ok k r ->
    run_kind K64 Klt64x64 K64xlt64 Ksmall k (src_block A r) = mtrans (src_block A r).
  Proof.
    intros Hr Hk. destruct (src_block_wf r Hr) as (HwB & HnrB & HncB).
    destruct k; cbn [run_kind kind_ok] in *.
    - apply H64; [assumption|lia|lia].
    - apply Hlt64x64; [assumption|lia|lia].
    - apply H64xlt64; [assumption|lia|lia].
    - destruct Hk as (H1 & H2 & ->). rewrite <- HnrB, <- HncB. apply Hsmall; [assumption|lia|lia].
  Qed.

  Definition exec := run_sched K64 K64_2 Klt64x64 K64xlt64 Ksmall A.

  Lemma covers_dec r i j :
    (da r <=? i) && (i <? da r + rh r) && (db r <=? j) && (j <? db r + rw r) = true <-> covers r i j.
  Proof. unfold covers. lia. Qed.

  Lemma run_sched_good s : forall D (G : nat -> nat -> Prop),
    dest_ok D -> Forall (item_ok top) s ->
    (forall i j, G i j -> get D i j = get A j i) ->
    dest_ok (exec D s) /\ forall i j, G i j \/ covered s i j -> get (exec D s) i j = get A j i.
  Proof.
    induction s as [|it s IH]; intros D G HD Hok HG.
    - split; [exact HD|]. intros i j [H|(it & r & [] & _)]. now apply HG.
    - inversion Hok as [|? ? Hit Hs]; subst. unfold exec, run_sched. cbn [fold_left].
      fold (run_sched K64 K64_2 Klt64x64 K64xlt64 Ksmall A). fold exec.
      set (D1 := apply_item K64 K64_2 Klt64x64 K64xlt64 Ksmall A D it).
      assert (H1 : dest_ok D1 /\ forall i j, G i j \/ (exists r, In r (item_rects it) /\ covers r i j) ->
                                             get D1 i j = get A j i).
      { subst D1. destruct it as [k r|r1 r2]; cbn [apply_item item_rects item_ok] in *.
        - destruct Hit as [Hk Hr]. rewrite (run_kind_spec k r Hr Hk).
          destruct (put_good D r HD Hr) as [HD1 Hget]. split; [exact HD1|].
          intros i j H. rewrite Hget.
          destruct ((da r <=? i) && (i <? da r + rh r) && (db r <=? j) && (j <? db r + rw r)) eqn:E; [reflexivity|].
          destruct H as [H|(r' & [<-|[]] & Hc)]; [now apply HG|].
          apply covers_dec in Hc. congruence.
        - destruct Hit as [(Ha1 & Hb1 & Hr1) (Ha2 & Hb2 & Hr2)].
          destruct (src_block_wf r1 Hr1) as (Hw1 & Hn1 & Hc1). destruct (src_block_wf r2 Hr2) as (Hw2 & Hn2 & Hc2).
          rewrite H64_2 by (try assumption; lia). cbn [fst snd].
          destruct (put_good D r1 HD Hr1) as [HD1 Hget1].
          destruct (put_good _ r2 HD1 Hr2) as [HD2 Hget2]. split; [exact HD2|].
          intros i j H. rewrite Hget2.
          destruct ((da r2 <=? i) && (i <? da r2 + rh r2) && (db r2 <=? j) && (j <? db r2 + rw r2)) eqn:E2; [reflexivity|].
          rewrite Hget1.
          destruct ((da r1 <=? i) && (i <? da r1 + rh r1) && (db r1 <=? j) && (j <? db r1 + rw r1)) eqn:E1; [reflexivity|].
          destruct H as [H|(r' & [<-|[<-|[]]] & Hc)]; [now apply HG| |]; apply covers_dec in Hc; congruence. }
      destruct H1 as [HD1 HG1].
      destruct (IH D1 (fun i j => G i j \/ exists r, In r (item_rects it) /\ covers r i j) HD1 Hs HG1) as [HDf Hf].
      split; [exact HDf|]. intros i j [H|(it' & r & [<-|Hin] & Hr & Hc)]; apply Hf.
      + left; now left.
      + left; right. now exists r.
      + right. now exists it', r.
  Qed.

  (** a schedule of admissible kernel calls that covers the destination yields the transpose *)
  Lemma exec_transpose D s : dest_ok D -> Forall (item_ok top) s ->
    (forall i j, i < nc A -> j < nr A -> covered s i j) -> exec D s = mtrans A.
  Proof.
    intros HD Hok Hcov.
    destruct (run_sched_good s D (fun _ _ => False) HD Hok ltac:(intros ? ? [])) as [(Hw & Hr & Hc) Hget].
    apply mat_ext; [assumption|now apply wf_mtrans|now rewrite nr_mtrans|now rewrite nc_mtrans|].
    intros i j Hi Hj. rewrite get_mtrans by assumption. apply Hget. right. apply Hcov; lia.
  Qed.
End Exec.

(** * The schedules *)
Definition optl {X} (o : option X) : list X := match o with Some x => [x] | None => [] end.

Lemma emit_spec ps : forall del,
  (forall r, In r (optl del ++ ps) ->
     (exists it, In it (fst (emit del ps)) /\ In r (item_rects it)) \/ snd (emit del ps) = Some r) /\
  (forall it, In it (fst (emit del ps)) ->
     exists r1 r2, it = Pair r1 r2 /\ In r1 (optl del ++ ps) /\ In r2 (optl del ++ ps)) /\
  Nat.even (length (optl (snd (emit del ps)))) = Nat.even (length (optl del ++ ps)).
Proof.
  induction ps as [|p ps IH]; intros del.
  - cbn [emit fst snd]. rewrite app_nil_r. repeat split.
    + intros r Hr. right. destruct del; cbn in Hr; [destruct Hr as [<-|[]]; reflexivity|contradiction].
    + intros it [].
  - destruct del as [d|]; cbn [emit optl app].
    + destruct (IH None) as (Ha & Hb & Hc). cbn [fst snd optl app] in *. repeat split.
      * intros r [<-|[<-|Hr]].
        -- left. exists (Pair d p). split; [now left|now left].
        -- left. exists (Pair d p). split; [now left|right; now left].
        -- destruct (Ha r Hr) as [(it & Hin & Hr')|Hs]; [left; exists it; split; [now right|assumption]|now right].
      * intros it [<-|Hin].
        -- exists d, p. repeat split; [now left|right; now left].
        -- destruct (Hb it Hin) as (r1 & r2 & -> & H1 & H2). exists r1, r2. repeat split; right; now right.
      * rewrite Hc. cbn [length]. now rewrite Nat.even_succ_succ.
    + destruct (IH (Some p)) as (Ha & Hb & Hc). cbn [fst snd optl app] in *. repeat split; assumption.
Qed.

Section SchedProofs.
  Variables dr dc sr sc : nat.

  Definition rowpos (I js whole : nat) : list rect := map (blk dr dc sr sc I) (seq js (whole - js)).
  Fixpoint allpos (cnt I js whole : nat) : list rect :=
    match cnt with
    | O => []
    | S c => rowpos I js whole ++ allpos c (S I) 0 whole
    end.

  Definition tail_rect (I whole crem : nat) : rect :=
    {| da := dr + 64 * whole; db := dc + 64 * I; sa := sr + 64 * I; sb := sc + 64 * whole; rh := crem; rw := 64 |}.

  Lemma rowloop_spec whole crem cnt : forall I js del,
    let s := rowloop dr dc sr sc cnt I js whole crem del in
    (Nat.even (length (optl del ++ allpos cnt I js whole)) = true ->
       forall r, In r (optl del ++ allpos cnt I js whole) -> exists it, In it s /\ In r (item_rects it)) /\
    (forall I', I <= I' < I + cnt -> crem <> 0 -> In (Single Kd64xlt64 (tail_rect I' whole crem)) s) /\
    (forall it, In it s ->
       (exists r1 r2, it = Pair r1 r2 /\ In r1 (optl del ++ allpos cnt I js whole) /\
                      In r2 (optl del ++ allpos cnt I js whole)) \/
       (exists I', I <= I' < I + cnt /\ crem <> 0 /\ it = Single Kd64xlt64 (tail_rect I' whole crem))).
  Proof.
    induction cnt as [|c IH]; intros I js del s; subst s.
    - cbn [rowloop allpos]. rewrite app_nil_r. repeat split.
      + intros He r Hr. destruct del; cbn in *; [discriminate|contradiction].
      + intros I' HI. lia.
      + intros it [].
    - cbn [rowloop allpos]. fold (rowpos I js whole). fold (tail_rect I whole crem).
      destruct (emit_spec (rowpos I js whole) del) as (Ea & Eb & Ec).
      set (e := emit del (rowpos I js whole)) in *.
      destruct (IH (S I) 0 (snd e)) as (Ra & Rb & Rc). cbv zeta in Ra, Rb, Rc.
      set (rest := rowloop dr dc sr sc c (S I) 0 whole crem (snd e)) in *.
      repeat split.
      + intros He r Hr.
        assert (He' : Nat.even (length (optl (snd e) ++ allpos c (S I) 0 whole)) = true).
        { rewrite app_length, Nat.even_add, Ec. rewrite app_assoc, app_length, Nat.even_add in He. exact He. }
        rewrite app_assoc in Hr. apply in_app_iff in Hr as [Hr|Hr].
        * destruct (Ea r Hr) as [(it & Hin & Hr')|Hs].
          -- exists it. split; [|assumption]. apply in_app_iff. now left.
          -- destruct (Ra He' r) as (it & Hin & Hr').
             { apply in_app_iff. left. rewrite Hs. now left. }
             exists it. split; [|assumption]. rewrite !in_app_iff. right; now right.
        * destruct (Ra He' r) as (it & Hin & Hr').
          { apply in_app_iff. now right. }
          exists it. split; [|assumption]. rewrite !in_app_iff. right; now right.
      + intros I' HI Hc. rewrite !in_app_iff. destruct (Nat.eq_dec I' I) as [->|Hne].
        * right; left. destruct (Nat.eqb_spec crem 0); [contradiction|now left].
        * right; right. apply Rb; [lia|assumption].
      + intros it Hin. rewrite !in_app_iff in Hin. destruct Hin as [Hin|[Hin|Hin]].
        * left. destruct (Eb it Hin) as (r1 & r2 & -> & H1 & H2). exists r1, r2. split; [reflexivity|].
          rewrite app_assoc. split; apply in_app_iff; now left.
        * right. destruct (Nat.eqb_spec crem 0); [contradiction|]. destruct Hin as [<-|[]].
          exists I. repeat split; try lia; assumption.
        * destruct (Rc it Hin) as [(r1 & r2 & -> & H1 & H2)|(I' & HI & Hc & ->)].
          -- left. exists r1, r2. split; [reflexivity|].
             assert (Hsub : forall r, In r (optl (snd e) ++ allpos c (S I) 0 whole) ->
                                      In r (optl del ++ rowpos I js whole ++ allpos c (S I) 0 whole)).
             { intros r Hr. apply in_app_iff in Hr as [Hr|Hr].
               - rewrite app_assoc. apply in_app_iff. left.
                 destruct (snd e) as [d|] eqn:Hd; cbn in Hr; [|contradiction]. destruct Hr as [<-|[]].
                 destruct (emit_spec (rowpos I js whole) del) as (_ & _ & _).
                 (* the delayed block is one of the inputs *)
                 clear -Hd. subst e. revert del Hd. induction (rowpos I js whole) as [|p ps IHp]; intros del Hd.
                 + cbn in Hd. subst del. rewrite app_nil_r. now left.
                 + destruct del as [d0|]; cbn [emit snd] in Hd.
                   * specialize (IHp None Hd). cbn in IHp |- *. right; now right.
                   * specialize (IHp (Some p) Hd). cbn in IHp |- *. exact IHp.
               - rewrite !in_app_iff. right; now right. }
             split; apply Hsub; assumption.
          -- right. exists I'. repeat split; try lia; assumption.
  Qed.

  Lemma allpos_length cnt : forall I js whole, js <= whole ->
    length (allpos cnt I js whole) = cnt * whole - (if cnt =? 0 then 0 else js).
  Proof.
    induction cnt as [|c IH]; intros I js whole Hjs; [reflexivity|].
    cbn [allpos]. rewrite app_length. unfold rowpos. rewrite map_length, seq_length, IH by lia.
    replace (if c =? 0 then 0 else 0) with 0 by (destruct (c =? 0); reflexivity).
    change (S c =? 0) with false. rewrite Nat.mul_succ_l. lia.
  Qed.

  Lemma allpos_in cnt : forall I js whole I' J',
    (I' = I /\ js <= J' < whole) \/ (I < I' < I + cnt /\ J' < whole) -> 0 < cnt ->
    In (blk dr dc sr sc I' J') (allpos cnt I js whole).
  Proof.
    induction cnt as [|c IH]; intros I js whole I' J' H Hc; [lia|].
    cbn [allpos]. apply in_app_iff. destruct H as [[-> HJ]|[HI HJ]].
    - left. unfold rowpos. apply in_map, in_seq. lia.
    - right. apply IH; [|lia]. destruct (Nat.eq_dec I' (S I)) as [->|]; [left|right]; lia.
  Qed.

  Lemma allpos_blk cnt : forall I js whole r, In r (allpos cnt I js whole) ->
    exists I' J', r = blk dr dc sr sc I' J' /\ I <= I' < I + cnt /\ J' < whole.
  Proof.
    induction cnt as [|c IH]; intros I js whole r H; [contradiction|].
    cbn [allpos] in H. apply in_app_iff in H as [H|H].
    - unfold rowpos in H. apply in_map_iff in H as (J' & <- & HJ). apply in_seq in HJ.
      exists I, J'. repeat split; lia.
    - destruct (IH _ _ _ _ H) as (I' & J' & -> & HI & HJ). exists I', J'. repeat split; lia.
  Qed.

  Lemma testbit6 n : Nat.testbit n 6 = Nat.odd (n / 64).
  Proof. rewrite Nat.testbit_odd, Nat.shiftr_div_pow2. reflexivity. Qed.

  Lemma lor64 a b : Nat.lor a b = 64 -> Nat.testbit a 6 = true -> a = 64.
  Proof.
    intros H Ha. apply Nat.bits_inj. intros n.
    destruct (Nat.eq_dec n 6) as [->|Hne]; [rewrite Ha; reflexivity|].
    assert (Hn : Nat.testbit (Nat.lor a b) n = Nat.testbit 64 n) by now rewrite H.
    rewrite Nat.lor_spec in Hn. change 64 with (2 ^ 6) in *. rewrite Nat.pow2_bits_false in * by congruence.
    now apply orb_false_iff in Hn as [-> _].
  Qed.

  Section Base.
    Variables nrows ncols : nat.
    Hypothesis Hr : 0 < nrows.
    Hypothesis Hc : 0 < ncols.

    Let R := nrows / 64.
    Let whole := ncols / 64.
    Let rrem := nrows mod 64.
    Let crem := ncols mod 64.

    Lemma blk_inreg I J : I < R -> J < whole -> inreg dr dc sr sc nrows ncols (blk dr dc sr sc I J).
    Proof. subst R whole. intros HI HJ. unfold inreg, blk; cbn [da db sa sb rh rw]. lia. Qed.

    Lemma blk_covers I J x y : x / 64 = J -> y / 64 = I ->
      covers (blk dr dc sr sc I J) (dr + x) (dc + y).
    Proof. intros HJ HI. unfold covers, blk; cbn [da db sa sb rh rw]. lia. Qed.

    Lemma base_ok : Forall (item_ok (inreg dr dc sr sc nrows ncols)) (base_sched dr dc sr sc nrows ncols).
    Proof.
      unfold base_sched. fold R whole rrem crem.
      destruct ((64 <=? nrows) && (Nat.testbit ncols 6 && Nat.testbit nrows 6) && (Nat.lor nrows ncols =? 64)) eqn:E.
      { constructor; [|constructor]. cbn [item_ok kind_ok]. split; [split; reflexivity|].
        apply blk_inreg; subst R whole; rewrite !testbit6 in E; destruct (Nat.leb_spec 64 nrows); try discriminate.
        - assert (0 < nrows / 64) by (apply Nat.div_str_pos; lia). lia.
        - destruct (ncols / 64) eqn:Ew; [cbn in E; rewrite ?andb_false_r in E; discriminate|lia]. }
      clear E. rewrite Forall_app. split; [|].
      - destruct (Nat.leb_spec 64 nrows) as [H64|H64]; [|constructor].
        rewrite Forall_app. split.
        + destruct (Nat.testbit ncols 6 && Nat.testbit nrows 6) eqn:Ejs; [|constructor].
          constructor; [|constructor]. cbn [item_ok kind_ok]. split; [split; reflexivity|].
          rewrite !testbit6 in Ejs. apply blk_inreg; subst R whole.
          * assert (0 < nrows / 64) by (apply Nat.div_str_pos; lia). lia.
          * destruct (ncols / 64) eqn:Ew; [cbn in Ejs; discriminate|lia].
        + rewrite Forall_forall. intros it Hin.
          destruct (rowloop_spec whole crem R 0 (if Nat.testbit ncols 6 && Nat.testbit nrows 6 then 1 else 0) None)
            as (_ & _ & Hc3).
          destruct (Hc3 it Hin) as [(r1 & r2 & -> & H1 & H2)|(I' & HI & Hcr & ->)].
          * cbn [optl app] in H1, H2.
            destruct (allpos_blk _ _ _ _ _ H1) as (I1 & J1 & -> & HI1 & HJ1).
            destruct (allpos_blk _ _ _ _ _ H2) as (I2 & J2 & -> & HI2 & HJ2).
            cbn [item_ok]. repeat split; try reflexivity; apply blk_inreg; lia.
          * cbn [item_ok kind_ok]. unfold tail_rect, inreg; cbn [da db sa sb rh rw]. subst R whole crem. lia.
      - destruct (Nat.eqb_spec rrem 0) as [|Hrr]; [constructor|]. rewrite Forall_app. split.
        + rewrite Forall_forall. intros it Hin. apply in_map_iff in Hin as (J & <- & HJ). apply in_seq in HJ.
          cbn [item_ok kind_ok]. unfold inreg; cbn [da db sa sb rh rw]. subst R whole rrem. lia.
        + destruct (Nat.eqb_spec crem 0) as [|Hcr]; [constructor|]. constructor; [|constructor].
          cbn [item_ok kind_ok]. unfold inreg; cbn [da db sa sb rh rw]. subst R whole rrem crem. lia.
    Qed.

    Lemma base_cover x y : x < ncols -> y < nrows -> covered (base_sched dr dc sr sc nrows ncols) (dr + x) (dc + y).
    Proof.
      intros Hx Hy. unfold base_sched. fold R whole rrem crem.
      destruct ((64 <=? nrows) && (Nat.testbit ncols 6 && Nat.testbit nrows 6) && (Nat.lor nrows ncols =? 64)) eqn:E.
      { (* nrows = ncols = 64 *)
        apply andb_prop in E as [E E3]. apply andb_prop in E as [E1 E2]. apply andb_prop in E2 as [E2c E2r].
        apply Nat.eqb_eq in E3. pose proof (lor64 _ _ E3 E2r) as Hn.
        rewrite Nat.lor_comm in E3. pose proof (lor64 _ _ E3 E2c) as Hm.
        exists (Single Kd64 (blk dr dc sr sc 0 0)), (blk dr dc sr sc 0 0). split; [now left|]. split; [now left|].
        apply blk_covers; apply Nat.div_small; lia. }
      set (js := Nat.testbit ncols 6 && Nat.testbit nrows 6) in *.
      assert (Hjs : js = Nat.odd whole && Nat.odd R) by (subst js whole R; now rewrite !testbit6).
      destruct (Nat.lt_ge_cases (y / 64) R) as [HyR|HyR].
      - (* a full row block *)
        assert (H64 : 64 <= nrows) by (subst R; destruct (Nat.le_gt_cases 64 nrows); [assumption|rewrite Nat.div_small in HyR; lia]).
        apply covered_app_l. destruct (Nat.leb_spec 64 nrows); [|lia].
        destruct (Nat.lt_ge_cases (x / 64) whole) as [HxW|HxW].
        + (* a whole 64x64 block *)
          destruct (js && (x / 64 =? 0) && (y / 64 =? 0)) eqn:Efirst.
          * apply covered_app_l. apply andb_prop in Efirst as [Ef Ey]. apply andb_prop in Ef as [Ejs Ex].
            rewrite Ejs. apply Nat.eqb_eq in Ex, Ey.
            exists (Single Kd64 (blk dr dc sr sc 0 0)), (blk dr dc sr sc 0 0). split; [now left|]. split; [now left|].
            now apply blk_covers.
          * apply covered_app_r.
            destruct (rowloop_spec whole crem R 0 (if js then 1 else 0) None) as (Hc1 & _ & _).
            cbn [optl app] in Hc1.
            assert (Hev : Nat.even (length (allpos R 0 (if js then 1 else 0) whole)) = true).
            { rewrite allpos_length.
              2:{ destruct js eqn:Ej; [|lia]. symmetry in Hjs. apply andb_prop in Hjs as [Hw _].
                  destruct whole; [discriminate|lia]. }
              destruct (Nat.eqb_spec R 0); [lia|].
              destruct js eqn:Ej.
              - symmetry in Hjs. apply andb_prop in Hjs as [Hw HR].
                rewrite Nat.even_sub by (destruct R, whole; try discriminate; nia).
                rewrite Nat.even_mul. rewrite <- !Nat.negb_odd, Hw, HR. reflexivity.
              - rewrite Nat.sub_0_r, Nat.even_mul, <- !Nat.negb_odd.
                symmetry in Hjs. apply andb_false_iff in Hjs as [->| ->]; cbn; now rewrite ?orb_true_r. }
            destruct (Hc1 Hev (blk dr dc sr sc (y / 64) (x / 64))) as (it & Hin & Hrect).
            { apply allpos_in; [|lia].
              destruct (Nat.eq_dec (y / 64) 0) as [Hy0|Hy0]; [left|right; lia].
              split; [lia|]. destruct js; [|lia]. rewrite Hy0, Nat.eqb_refl, andb_true_r in Efirst.
              cbn [andb] in Efirst. apply Nat.eqb_neq in Efirst. lia. }
            exists it, (blk dr dc sr sc (y / 64) (x / 64)). split; [assumption|]. split; [assumption|].
            now apply blk_covers.
        + (* the columns beyond the last whole block: _mzd_copy_transpose_64xlt64 *)
          apply covered_app_r.
          destruct (rowloop_spec whole crem R 0 (if js then 1 else 0) None) as (_ & Hc2 & _).
          assert (Hcr : crem <> 0) by (subst crem whole; lia).
          exists (Single Kd64xlt64 (tail_rect (y / 64) whole crem)), (tail_rect (y / 64) whole crem).
          split; [apply Hc2; [lia|assumption]|]. split; [now left|].
          unfold covers, tail_rect; cbn [da db sa sb rh rw]. subst crem whole R. lia.
      - (* the rows beyond the last full row block *)
        apply covered_app_r. assert (Hrr : rrem <> 0) by (subst rrem R; lia).
        destruct (Nat.eqb_spec rrem 0); [contradiction|].
        destruct (Nat.lt_ge_cases (x / 64) whole) as [HxW|HxW].
        + apply covered_app_l.
          exists (Single Kdlt64x64 {| da := dr + 64 * (x / 64); db := dc + 64 * R; sa := sr + 64 * R; sb := sc + 64 * (x / 64);
                                      rh := 64; rw := rrem |}).
          eexists. split; [|split; [now left|]].
          * apply in_map_iff. exists (x / 64). split; [reflexivity|]. apply in_seq. lia.
          * unfold covers; cbn [da db sa sb rh rw]. subst rrem R. lia.
        + apply covered_app_r. assert (Hcr : crem <> 0) by (subst crem whole; lia).
          destruct (Nat.eqb_spec crem 0); [contradiction|].
          eexists. eexists. split; [now left|]. split; [now left|].
          unfold covers; cbn [da db sa sb rh rw]. subst rrem crem R whole. lia.
    Qed.
  End Base.
End SchedProofs.

(** * split_round and the recursion *)
Lemma split_round_props n k p :
  512 < n -> (k = 64 /\ n <= 768) \/ (k = 512 /\ 768 < n) -> 1 <= p -> n <= 1024 * p ->
  let l := split_round n k in
  0 < l /\ l < n /\ 64 * (l / 64) = l /\ l <= 512 * p /\ n - l <= 512 * p.
Proof.
  intros Hn Hk Hp Hnp. unfold split_round. destruct Hk as [[-> Hk]|[-> Hk]]; cbn [Nat.sub]; lia.
Qed.

Lemma inreg_rows_lo dr dc sr sc nrows ncols l r : l <= nrows ->
  inreg dr dc sr sc l ncols r -> inreg dr dc sr sc nrows ncols r.
Proof. unfold inreg. lia. Qed.
Lemma inreg_rows_hi dr dc sr sc nrows ncols l r : l <= nrows ->
  inreg dr (dc + l) (sr + l) sc (nrows - l) ncols r -> inreg dr dc sr sc nrows ncols r.
Proof. unfold inreg. lia. Qed.
Lemma inreg_cols_lo dr dc sr sc nrows ncols l r : l <= ncols ->
  inreg dr dc sr sc nrows l r -> inreg dr dc sr sc nrows ncols r.
Proof. unfold inreg. lia. Qed.
Lemma inreg_cols_hi dr dc sr sc nrows ncols l r : l <= ncols ->
  inreg (dr + l) dc sr (sc + l) nrows (ncols - l) r -> inreg dr dc sr sc nrows ncols r.
Proof. unfold inreg. lia. Qed.

Lemma notsmall_spec fuel : forall dr dc sr sc nrows ncols a b,
  0 < nrows -> 0 < ncols -> nrows <= 512 * 2 ^ a -> ncols <= 512 * 2 ^ b -> a + b < fuel ->
  exists s, notsmall_sched fuel dr dc sr sc nrows ncols (Nat.max nrows ncols) = Some s /\
            Forall (item_ok (inreg dr dc sr sc nrows ncols)) s /\
            forall x y, x < ncols -> y < nrows -> covered s (dr + x) (dc + y).
Proof.
  induction fuel as [|f IH]; intros dr dc sr sc nrows ncols a b Hr Hc Ha Hb Hf; [lia|].
  cbn [notsmall_sched]. destruct (Nat.leb_spec (Nat.max nrows ncols) 512) as [Hm|Hm].
  - eexists. split; [reflexivity|]. split; [now apply base_ok|]. intros x y. now apply base_cover.
  - set (k := if Nat.max nrows ncols <=? 768 then 64 else 512).
    assert (Hk : (k = 64 /\ Nat.max nrows ncols <= 768) \/ (k = 512 /\ 768 < Nat.max nrows ncols)).
    { subst k. destruct (Nat.leb_spec (Nat.max nrows ncols) 768); [left|right]; split; auto. }
    destruct (Nat.leb_spec ncols nrows) as [Hge|Hlt].
    + (* split the source rows *)
      assert (Hmax : Nat.max nrows ncols = nrows) by lia. rewrite Hmax in *.
      destruct a as [|a']; [cbn in Ha; lia|].
      assert (Hp : 1 <= 2 ^ a') by (pose proof (Nat.pow_nonzero 2 a'); lia).
      destruct (split_round_props nrows k (2 ^ a') Hm Hk Hp) as (Hl0 & Hln & Hl64 & Hlp & Hrest).
      { rewrite Nat.pow_succ_r' in Ha. lia. }
      set (l := split_round nrows k) in *. rewrite Hl64.
      destruct (IH dr dc sr sc l ncols a' b Hl0 Hc Hlp Hb ltac:(lia)) as (s1 & E1 & Ok1 & Cv1).
      destruct (IH dr (dc + l) (sr + l) sc (nrows - l) ncols a' b ltac:(lia) Hc Hrest Hb ltac:(lia)) as (s2 & E2 & Ok2 & Cv2).
      rewrite E1, E2. cbn [obind]. eexists. split; [reflexivity|]. split.
      * rewrite Forall_app. split.
        -- eapply Forall_impl; [|exact Ok1]. intros it. apply item_ok_impl. intros r. apply inreg_rows_lo. lia.
        -- eapply Forall_impl; [|exact Ok2]. intros it. apply item_ok_impl. intros r. apply inreg_rows_hi. lia.
      * intros x y Hx Hy. destruct (Nat.lt_ge_cases y l) as [Hyl|Hyl].
        -- apply covered_app_l. now apply Cv1.
        -- apply covered_app_r. replace (dc + y) with (dc + l + (y - l)) by lia. apply Cv2; lia.
    + (* split the source columns *)
      assert (Hmax : Nat.max nrows ncols = ncols) by lia. rewrite Hmax in *.
      destruct b as [|b']; [cbn in Hb; lia|].
      assert (Hp : 1 <= 2 ^ b') by (pose proof (Nat.pow_nonzero 2 b'); lia).
      destruct (split_round_props ncols k (2 ^ b') Hm Hk Hp) as (Hl0 & Hln & Hl64 & Hlp & Hrest).
      { rewrite Nat.pow_succ_r' in Hb. lia. }
      set (l := split_round ncols k) in *. rewrite Hl64.
      destruct (IH dr dc sr sc nrows l a b' Hr Hl0 Ha Hlp ltac:(lia)) as (s1 & E1 & Ok1 & Cv1).
      destruct (IH (dr + l) dc sr (sc + l) nrows (ncols - l) a b' Hr ltac:(lia) Ha Hrest ltac:(lia)) as (s2 & E2 & Ok2 & Cv2).
      rewrite E1, E2. cbn [obind]. eexists. split; [reflexivity|]. split.
      * rewrite Forall_app. split.
        -- eapply Forall_impl; [|exact Ok1]. intros it. apply item_ok_impl. intros r. apply inreg_cols_lo. lia.
        -- eapply Forall_impl; [|exact Ok2]. intros it. apply item_ok_impl. intros r. apply inreg_cols_hi. lia.
      * intros x y Hx Hy. destruct (Nat.lt_ge_cases x l) as [Hxl|Hxl].
        -- apply covered_app_l. now apply Cv1.
        -- apply covered_app_r. replace (dr + x) with (dr + l + (x - l)) by lia. apply Cv2; lia.
Qed.

Lemma le_pow_log2_up n : 0 < n -> n <= 512 * 2 ^ Nat.log2_up n.
Proof.
  intros Hn. destruct (Nat.eq_dec n 1) as [->|]; [cbn; lia|].
  pose proof (Nat.log2_up_spec n ltac:(lia)). lia.
Qed.

Theorem transpose_sched_spec nrows ncols : 0 < nrows -> 0 < ncols ->
  exists s, transpose_sched nrows ncols = Some s /\
            Forall (item_ok (inreg 0 0 0 0 nrows ncols)) s /\
            forall x y, x < ncols -> y < nrows -> covered s x y.
Proof.
  intros Hr Hc. unfold transpose_sched. destruct (Nat.ltb_spec (Nat.max nrows ncols) 64) as [Hs|Hs].
  - eexists. split; [reflexivity|]. split.
    + constructor; [|constructor]. cbn [item_ok kind_ok rh rw]. unfold inreg; cbn [da db sa sb rh rw]. lia.
    + intros x y Hx Hy. eexists. eexists. split; [now left|]. split; [now left|].
      unfold covers; cbn [da db sa sb rh rw]. lia.
  - destruct (notsmall_spec (sched_fuel nrows ncols) 0 0 0 0 nrows ncols (Nat.log2_up nrows) (Nat.log2_up ncols)
                Hr Hc (le_pow_log2_up _ Hr) (le_pow_log2_up _ Hc) ltac:(unfold sched_fuel; lia)) as (s & E & Ok & Cv).
    exists s. split; [exact E|]. split; [exact Ok|]. intros x y Hx Hy. apply (Cv x y Hx Hy).
Qed.

(** * The dispatcher transposes *)
Section Main.
  Variable K64 : mat -> mat.
  Variable K64_2 : mat -> mat -> mat * mat.
  Variable Klt64x64 K64xlt64 : mat -> mat.
  Variable Ksmall : nat -> mat -> mat.
  Hypothesis H64 : forall B, wf B -> nr B = 64 -> nc B = 64 -> K64 B = mtrans B.
  Hypothesis H64_2 : forall B1 B2, wf B1 -> nr B1 = 64 -> nc B1 = 64 -> wf B2 -> nr B2 = 64 -> nc B2 = 64 ->
                                   K64_2 B1 B2 = (mtrans B1, mtrans B2).
  Hypothesis Hlt64x64 : forall B, wf B -> 0 < nr B < 64 -> nc B = 64 -> Klt64x64 B = mtrans B.
  Hypothesis H64xlt64 : forall B, wf B -> nr B = 64 -> 0 < nc B < 64 -> K64xlt64 B = mtrans B.
  Hypothesis Hsmall : forall B, wf B -> 0 < nr B < 64 -> 0 < nc B < 64 ->
                                Ksmall (Nat.max (nr B) (nc B)) B = mtrans B.

  Theorem transpose_into_spec A D :
    wf A -> wf D -> nr D = nc A -> nc D = nr A -> 0 < nr A -> 0 < nc A ->
    transpose_into K64 K64_2 Klt64x64 K64xlt64 Ksmall A D = Some (mtrans A).
  Proof.
    intros HA HD Hr Hc Hnr Hnc. unfold transpose_into.
    destruct (transpose_sched_spec (nr A) (nc A) Hnr Hnc) as (s & E & Ok & Cv). rewrite E. cbn [option_map]. f_equal.
    apply (exec_transpose K64 K64_2 Klt64x64 K64xlt64 Ksmall H64 H64_2 Hlt64x64 H64xlt64 Hsmall A HA D s).
    - split; [assumption|split; assumption].
    - exact Ok.
    - intros i j Hi Hj. now apply Cv.
  Qed.

  (** mzd_transpose for every shape >= 1x1, window or not, destination supplied (of the right dimensions) *)
  Theorem transpose_dispatch_spec dangerA dangerD DST A :
    wf A -> wf DST -> nr DST = nc A -> nc DST = nr A -> 0 < nr A -> 0 < nc A ->
    mzd_transpose_model K64 K64_2 Klt64x64 K64xlt64 Ksmall dangerA dangerD DST A = Some (mtrans A).
  Proof.
    intros HA HD Hr Hc Hnr Hnc. unfold mzd_transpose_model.
    assert (HS : (if dangerA then mcopy A else A) = A) by (destruct dangerA; reflexivity). rewrite HS.
    destruct dangerD.
    - rewrite transpose_into_spec; try assumption; try apply wf_mzero; try (cbn; assumption).
      cbn [option_map]. f_equal. apply mcopy_into_same_dims; [assumption|now apply wf_mtrans| |].
      + now rewrite nr_mtrans.
      + now rewrite nc_mtrans.
    - now apply transpose_into_spec.
  Qed.

  (** ... or allocated by the call *)
  Theorem transpose_dispatch_alloc_spec dangerA A :
    wf A -> 0 < nr A -> 0 < nc A ->
    mzd_transpose_alloc K64 K64_2 Klt64x64 K64xlt64 Ksmall dangerA A = Some (mtrans A).
  Proof.
    intros HA Hnr Hnc. unfold mzd_transpose_alloc. apply transpose_dispatch_spec; try assumption; try reflexivity.
    apply wf_mzero.
  Qed.
End Main.
