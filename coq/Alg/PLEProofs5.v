(* Alg/PLEProofs5.v — C03, part 5: what every output meeting the specification gives its clients
   (echelon form via PLUQ, solving, kernels): the factor E = U Q (the rows of U with the column swaps
   undone, padded with zero rows) is a ROW ECHELON FORM of A with pivot columns Q[0..r), row
   equivalent to A, and P A = L E.

     plu_echelon : wf A -> plu_struct A r A' P Q -> plu_recon A r S P Q ->
                   wf E /\ nr E = nr A /\ nc E = nc A /\ row_equiv A E /\ is_ref E (firstn r Q)
                   (E = plu_Epad A r S Q)

   The echelon shape is not demanded by the specification (which only has "U is upper trapezoidal
   after the column swaps" and "Q[0..r) is the column rank profile"); it follows:  write E = Y R with
   R the reduced echelon form; reading the pivot columns shows Y is unit upper triangular, so row i
   of E is row i of R plus later rows, which all vanish left of q_i. *)
From Coq Require Import List NArith Arith Lia Bool Sorted.
From M4 Require Import Base.Bits Lin.Mat Lin.MatAlg Lin.Ops Lin.Spec Lin.Span Lin.Perm Lin.Echelon Lin.Tri
  Alg.Gauss Alg.GaussProofs Alg.TRSMProofs Alg.PLE Alg.PLELemmas Alg.PLESpec Alg.PLEProofs Alg.PLEProofs2.
Import ListNotations.
Local Open Scope nat_scope.

(** E padded with zero rows to the row count of A *)
Definition plu_Epad (A : mat) (r : nat) (S : mat) (Q : list nat) : mat :=
  mstack (plu_E A r S Q) (mzero (nr A - r) (nc A)).

Section Echelon.
  Variables (A : mat) (r : nat) (A' S : mat) (P Q : list nat).
  Hypothesis HA : wf A.
  Hypothesis Hs : plu_struct A r A' P Q.
  Hypothesis Hrec : plu_recon A r S P Q.
  Let m := nr A.
  Let n := nc A.
  Let q := fun k => nth k Q 0.
  Let U := plu_U A r S.
  Let E0 := plu_E A r S Q.
  Let E := plu_Epad A r S Q.

  Let Hrm : r <= m := plu_r_le_nr _ _ _ _ _ Hs.
  Let Hrn : r <= n := plu_r_le_nc _ _ _ _ _ Hs.
  Let HlQ : length Q = n := plu_len_Q _ _ _ _ _ Hs.
  Let HQ : lapack Q n := plu_lapack_Q _ _ _ _ _ Hs.
  Let HP : lapack P m := plu_lapack_P _ _ _ _ _ Hs.

  Lemma pe_q_range k : k < r -> k <= q k < n.
  Proof. intros Hk. apply HQ. lia. Qed.
  Lemma pe_q_nth k : k < r -> nth k (firstn r Q) 0 = q k.
  Proof. intros Hk. now apply nth_firstn_lt. Qed.
  Lemma pe_len : length (firstn r Q) = r.
  Proof. rewrite firstn_length. lia. Qed.
  Lemma pe_q_inc k k' : k < k' -> k' < r -> q k < q k'.
  Proof.
    intros H1 H2. rewrite <- !pe_q_nth by lia.
    apply sorted_nth_lt; [apply (plu_sorted _ _ _ _ _ Hs)|assumption|now rewrite pe_len].
  Qed.

  Lemma pe_wf_E0 : wf E0 /\ nr E0 = r /\ nc E0 = n.
  Proof.
    unfold E0, plu_E. rewrite apply_right_is_mul by (try apply wf_plu_U; assumption).
    splits.
    - apply wf_mmul; [apply wf_plu_U|apply wf_pmat].
    - reflexivity.
    - rewrite nc_mmul. apply nc_pmat.
  Qed.

  (** U is E0 read through the column swaps *)
  Lemma pe_get_U i j : get U i j = get E0 i (pi q (seq 0 n) j).
  Proof.
    destruct pe_wf_E0 as (Hw & Hr & Hc).
    assert (EU : apply_p_right_trans E0 Q = U).
    { unfold E0, plu_E. apply trans_undoes_right; [apply wf_plu_U|assumption]. }
    rewrite <- EU.
    destruct (get_apply_p_right_trans E0 Q Hw) as (_ & _ & _ & Hg); [now rewrite Hc|now rewrite Hc|].
    rewrite Hg, Hc. reflexivity.
  Qed.

  Lemma pe_pi_piv k : k < r -> pi q (seq 0 n) k = q k.
  Proof.
    intros Hk. replace n with (r + (n - r)) by lia. rewrite seq_app, pi_app. cbn [Nat.add].
    rewrite (pi_fix q (seq r (n - r)) k).
    - apply pi_seq_pivot; [assumption|intros s Hs'; apply pe_q_range; assumption|apply pe_q_inc].
    - intros t Ht. apply in_seq in Ht. pose proof (HQ t ltac:(lia)). fold (q t) in H. lia.
  Qed.

  (** the pivot columns of E0 carry the unit upper triangle *)
  Lemma pe_E0_piv i k : i < r -> k <= i -> get E0 i (q k) = (i =? k).
  Proof.
    intros Hi Hk. rewrite <- pe_pi_piv by lia. rewrite <- pe_get_U. unfold U, plu_U.
    rewrite get_unit_upper_rect. pose proof (pe_q_range k ltac:(lia)).
    destruct (Nat.ltb_spec i r); [|lia]. destruct (Nat.ltb_spec k (nc A)); [|fold n; lia].
    destruct (Nat.eqb_spec i k); [reflexivity|]. destruct (Nat.ltb_spec i k); [lia|reflexivity].
  Qed.

  Lemma pe_wf_E : wf E /\ nr E = m /\ nc E = n.
  Proof.
    destruct pe_wf_E0 as (Hw & Hr & Hc). unfold E, plu_Epad. splits.
    - apply wf_mstack; [assumption|apply wf_mzero|]. fold E0. now rewrite Hc.
    - cbn [nr mstack mzero]. fold E0. rewrite Hr. lia.
    - cbn [nc mstack]. fold E0. exact Hc.
  Qed.

  Lemma pe_get_E i j : get E i j = (i <? r) && get E0 i j.
  Proof.
    destruct pe_wf_E0 as (Hw & Hr & Hc). unfold E, plu_Epad. fold E0.
    rewrite get_mstack by assumption. rewrite Hr.
    destruct (Nat.ltb_spec i r); [reflexivity|apply get_mzero].
  Qed.

  (** P A = Lfull E with Lfull m x m unit lower triangular *)
  Let Lsrc := mk m m (map (fun i => N.land (row S i) (N.ones (N.of_nat r))) (seq 0 m)).

  Lemma pe_get_Lsrc i k : get Lsrc i k = (i <? m) && (get S i k && (k <? r)).
  Proof.
    unfold get at 1, Lsrc. destruct (Nat.ltb_spec i m) as [Hi|Hi]; cbn [andb].
    - rewrite row_mk_map by assumption. apply testbit_land_ones.
    - rewrite row_mk_map_out by assumption. apply N.bits_0.
  Qed.

  Lemma pe_PA : apply_p_left A P = mmul (unit_lower m Lsrc) E.
  Proof.
    destruct (plu_recon_E A r S P Q HA HP HQ Hrec) as [E1 _]. rewrite E1.
    destruct pe_wf_E0 as (Hw0 & Hr0 & Hc0). destruct pe_wf_E as (Hw & Hr & Hc).
    fold E0. apply mat_ext.
    - apply wf_mmul; [apply wf_plu_L|assumption].
    - apply wf_mmul; [apply wf_unit_lower|assumption].
    - reflexivity.
    - rewrite !nc_mmul. congruence.
    - intros i j Hi Hj. rewrite nr_mmul, nr_plu_L in Hi.
      rewrite !get_mmul by assumption. rewrite Hr0, Hr.
      rewrite (xsum_extend r m); [|exact Hrm|].
      2:{ intros k Hk. rewrite pe_get_E. destruct (Nat.ltb_spec k r); [lia|]. cbn [andb]. apply andb_false_r. }
      apply xsum_ext. intros k Hk. rewrite pe_get_E. destruct (Nat.ltb_spec k r); [|lia]. cbn [andb].
      f_equal. unfold plu_L. rewrite get_unit_lower_rect, get_unit_lower, pe_get_Lsrc.
      fold m. destruct (Nat.ltb_spec i m); [|lia]. destruct (Nat.ltb_spec k r); [|lia]. cbn [andb].
      rewrite andb_true_r.
      destruct (Nat.ltb_spec i r); [reflexivity|].
      destruct (Nat.eqb_spec i k); [lia|]. destruct (Nat.ltb_spec k i); [reflexivity|lia].
  Qed.

  Lemma pe_row_equiv : row_equiv A E.
  Proof.
    destruct pe_wf_E as (Hw & Hr & Hc).
    apply (row_equiv_trans A (apply_p_left A P)).
    - rewrite apply_left_is_mul by assumption. apply row_equiv_mmul_inv; [assumption| |apply nc_pmat].
      now apply invertible_pmat.
    - rewrite pe_PA. apply row_equiv_sym. apply row_equiv_mmul_inv; [assumption| |].
      + apply unit_lower_invertible.
      + now rewrite Hr.
  Qed.

  Lemma pe_before i col : i < r -> col < q i -> get E i col = false.
  Proof.
    intros Hi Hcol. destruct pe_wf_E as (Hw & Hr & Hc).
    destruct (rref_spec E Hw) as [piv [Hrk [HwR [HeqR Hrr]]]].
    assert (Ecrp : is_crp E (firstn r Q)).
    { apply (is_crp_row_equiv A E); [assumption|assumption|apply pe_row_equiv|apply (plu_crp _ _ _ _ _ Hs)]. }
    assert (Epiv : piv = firstn r Q).
    { apply (is_crp_unique E); [|assumption]. now apply (crp_of_rref E (rref E)). }
    subst piv. pose proof (rref_ref _ _ Hrr) as Href.
    assert (HlR : r <= length (rows (rref E))).
    { destruct Href as (_ & Hle & _). rewrite pe_len in Hle. rewrite (wf_len _ HwR). exact Hle. }
    destruct (proj1 (row_equiv_in_rowspace E (rref E) (row E i) HeqR) (in_rowspace_row E i)) as [c Hc'].
    assert (G : forall j, get E i j =
                xsum (length (rows (rref E))) (fun k => N.testbit c (N.of_nat k) && get (rref E) k j)).
    { intros j. unfold get at 1. rewrite <- Hc'. apply testbit_vmul. }
    (* the coefficients are read off the pivot columns *)
    assert (Y : forall k, k < r -> N.testbit c (N.of_nat k) = get E i (q k)).
    { intros k Hk. rewrite G. rewrite (xsum_single _ _ k); [| lia |].
      - rewrite <- (pe_q_nth k Hk). rewrite (ref_get_pivot _ _ k Href) by (rewrite pe_len; assumption).
        now rewrite andb_true_r.
      - intros k' _ Hne. rewrite <- (pe_q_nth k Hk).
        rewrite (rref_get_other _ _ k k' Hrr) by (rewrite ?pe_len; auto). apply andb_false_r. }
    rewrite G. apply xsum_zero. intros k Hk.
    destruct (Nat.lt_ge_cases k i) as [Hki|Hki].
    - rewrite Y by lia. rewrite pe_get_E, pe_E0_piv by lia.
      destruct (Nat.ltb_spec i r); [|lia]. destruct (Nat.eqb_spec i k); [lia|reflexivity].
    - destruct (Nat.lt_ge_cases k r) as [Hkr|Hkr].
      + rewrite (ref_get_before _ _ k col Href); [apply andb_false_r|now rewrite pe_len|].
        rewrite pe_q_nth by assumption.
        destruct (Nat.eq_dec k i) as [->|Hne]; [assumption|]. pose proof (pe_q_inc i k ltac:(lia) Hkr). lia.
      + rewrite (ref_get_zero _ _ k col Href) by now rewrite pe_len. apply andb_false_r.
  Qed.

  Theorem plu_echelon_sec : wf E /\ nr E = m /\ nc E = n /\ row_equiv A E /\ is_ref E (firstn r Q).
  Proof.
    destruct pe_wf_E as (Hw & Hr & Hc). splits; auto; [apply pe_row_equiv|].
    unfold is_ref. rewrite pe_len. splits.
    - apply (plu_sorted _ _ _ _ _ Hs).
    - now rewrite Hr.
    - intros i Hi. rewrite pe_q_nth by assumption. apply lead_Some. split.
      + change (get E i (q i) = true). rewrite pe_get_E, pe_E0_piv by lia.
        destruct (Nat.ltb_spec i r); [|lia]. now rewrite Nat.eqb_refl.
      + intros j' Hj'. now apply pe_before.
    - intros i Hi. apply (bounded_ext n).
      + rewrite <- Hc. now apply wf_row_bounded.
      + apply bounded_0.
      + intros j Hj. change (get E i j = N.testbit 0 (N.of_nat j)). rewrite N.bits_0, pe_get_E.
        destruct (Nat.ltb_spec i r); [lia|reflexivity].
  Qed.
End Echelon.

Theorem plu_echelon A r A' S P Q : wf A -> plu_struct A r A' P Q -> plu_recon A r S P Q ->
  let E := plu_Epad A r S Q in
  wf E /\ nr E = nr A /\ nc E = nc A /\ row_equiv A E /\ is_ref E (firstn r Q) /\
  apply_p_left A P = mmul (plu_L A r S) (plu_E A r S Q).
Proof.
  intros HA Hs Hrec. cbv zeta.
  destruct (plu_echelon_sec A r A' S P Q HA Hs Hrec) as (H1 & H2 & H3 & H4 & H5).
  splits; auto.
  apply (plu_recon_E A r S P Q HA (plu_lapack_P _ _ _ _ _ Hs) (plu_lapack_Q _ _ _ _ _ Hs) Hrec).
Qed.

(** instances for the two specifications *)
Corollary pluq_echelon A r A' P Q : wf A -> pluq_spec A ((r, A'), (P, Q)) ->
  let E := plu_Epad A r A' Q in
  wf E /\ nr E = nr A /\ nc E = nc A /\ row_equiv A E /\ is_ref E (firstn r Q) /\
  apply_p_left A P = mmul (plu_L A r A') (plu_E A r A' Q).
Proof. intros HA [Hs Hrec]. now apply (plu_echelon A r A' A' P Q). Qed.

Corollary ple_echelon A r A' P Q : wf A -> ple_spec A ((r, A'), (P, Q)) ->
  let S := apply_p_right_trans_tri A' Q in
  let E := plu_Epad A r S Q in
  wf E /\ nr E = nr A /\ nc E = nc A /\ row_equiv A E /\ is_ref E (firstn r Q) /\
  apply_p_left A P = mmul (plu_L A r S) (plu_E A r S Q).
Proof. intros HA [Hs Hrec]. now apply (plu_echelon A r A' _ P Q). Qed.
