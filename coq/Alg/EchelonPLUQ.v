(* Alg/EchelonPLUQ.v — EXECUTABLE models (definitions only) of the PLUQ-based echelon forms of
   m4ri/echelonform.c and of the density-switching hybrid:

     echelon_pluq  = mzd_echelonize_pluq   (echelonform.c:38-137), both values of [full]
     mzd_echelonize_model = mzd_echelonize (echelonform.c:30) = _mzd_echelonize_m4ri(A, full, 0, 1,
                     crossover density) (brilliantrussian.c:683-709) with PLUQ as window echeloniser

   The factorisations and the triangular solve are PARAMETERS ([pluq] = mzd_pluq(A,P,Q,0),
   [ple] = mzd_ple(A,P,Q,0), [trsm] = mzd_trsm_upper_left(U,B,0)); the proofs
   (Alg/EchelonPLUQProofs.v) only use their specifications (Alg/PLESpec.v [pluq_spec]/[ple_spec],
   Alg/TRSMProofs.v [trsm_upper_left_spec]); the runnable instances at the end plug in the naive
   models of Alg/PLE.v and the substitution model of Alg/TRSM.v. *)
From Coq Require Import List NArith Arith Bool.
From M4 Require Import Base.Bits Lin.Mat Lin.Ops Alg.Gauss Alg.Gray Alg.PLE Alg.TRSM Alg.M4RI.
Import ListNotations.
Local Open Scope nat_scope.

Definition radix : nat := 64.

Section EchelonPLUQ.
  Variables pluq ple : mat -> ple_out.
  Variable trsm : mat -> mat -> mat.

  (** echelonform.c:60-97: U^-1 applied to the columns >= r of the first r rows, with the three
      word-alignment cases of the C code.  [U] is the window (0,0)-(r,r); a window B starting at a
      word boundary is solved in place, a block that starts inside the word holding column r is
      solved on a copy (mzd_submatrix) starting at the word boundary r_radix and copied back — the
      copy includes the columns r_radix..r-1 of U itself, which are overwritten by mzd_set_ui(U,1)
      afterwards.  Order in the middle case as in the C code: B0 (copy) solved, B1 solved in place,
      then B0 copied back. *)
  Definition trsm_part (A' : mat) (r : nat) : mat :=
    let ncols := nc A' in
    let U := msub A' 0 0 r r in
    let r_radix := radix * (r / radix) in
    if (r_radix =? r) && negb (r =? ncols) then
      mpaste A' 0 r (trsm U (msub A' 0 r r (ncols - r)))
    else if negb (r_radix =? r) && negb (r =? ncols) then
      if r_radix + radix <? ncols then
        let B0 := trsm U (msub A' 0 r_radix r radix) in
        let A1 := mpaste A' 0 (r_radix + radix)
                         (trsm U (msub A' 0 (r_radix + radix) r (ncols - (r_radix + radix)))) in
        mpaste A1 0 r_radix B0
      else
        mpaste A' 0 r_radix (trsm U (msub A' 0 r_radix r (ncols - r_radix)))
    else A'.

  (** rows >= r := 0 (mzd_set_ui(R, 0), echelonform.c:120-124) *)
  Definition clear_rows_from (M : mat) (r : nat) : mat :=
    if r =? nr M then M else map_rows (fun i x => if r <=? i then 0%N else x) M.

  Definition echelon_pluq_full (A : mat) : nat * mat :=
    let '((r, A'), (P, Q)) := pluq A in
    let A2 := trsm_part A' r in
    let A3 := mpaste A2 0 0 (mid r) in                              (* mzd_set_ui(U, 1) *)
    let A4 := if 0 <? r                                             (* mzd_apply_p_right(A0, Q) *)
              then mk (nr A3) (nc A3) (rows (apply_p_right (top_rows r A3) Q) ++ skipn r (rows A3))
              else A3 in
    (r, clear_rows_from A4 r).

  (** echelonform.c:108-117: for i < r clear the columns 0..i (the stored L; the C loop clears them
      in chunks of at most 64 bits: mzd_clear_bits(A, i, j, MIN(64, i-j+1)) for j = 0, 64, .. <= i)
      and write the pivot mzd_write_bit(A, i, Q[i], 1) *)
  Definition echelon_pluq_nonfull (A : mat) : nat * mat :=
    let '((r, A'), (P, Q)) := ple A in
    let A2 := map_rows (fun i x => if i <? r
                                   then N.lor (N.ldiff x (N.ones (N.of_nat (S i)))) (2 ^ N.of_nat (nth i Q 0))
                                   else x) A' in
    (r, clear_rows_from A2 r).

  Definition echelon_pluq (full : bool) (A : mat) : nat * mat :=
    if full then echelon_pluq_full A else echelon_pluq_nonfull A.

  (** mzd_echelonize(A, full): the hybrid; [k], [ktop] = the automatically chosen table parameters,
      [oracle] = the density test against __M4RI_ECHELONFORM_CROSSOVER_DENSITY *)
  Definition mzd_echelonize_model (k ktop : nat) (oracle : nat -> bool) (full : bool) (A : mat)
    : option (nat * mat) :=
    m4ri_model echelon_pluq k ktop oracle full A.
End EchelonPLUQ.

(** * runnable instances (correspondence driver) *)
(** P->values / Q->values on entry: mzp_init gives the identity *)
Definition echelon_pluq_run (full : bool) (A : mat) : nat * mat :=
  echelon_pluq (fun A => pluq_naive A (seq 0 (nr A)) (seq 0 (nc A)))
               (fun A => ple_naive A (seq 0 (nr A)) (seq 0 (nc A)))
               trsm_upper_left full A.
Definition hybrid_run (k ktop : nat) (oracle : nat -> bool) (full : bool) (A : mat) : option (nat * mat) :=
  m4ri_model echelon_pluq_run k ktop oracle full A.
