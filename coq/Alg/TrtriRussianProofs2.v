(* Alg/TrtriRussianProofs2.v — C05, mzd_trtri_upper_russian, part 2:

   A. _mzd_trtri_upper_submatrix = the corresponding pivot steps of back substitution.  The loop
      invariant of the whole routine is [st n U r0 m A]: the rows above r0 have received the pivot
      steps up to r0, the rows from r0 on those up to m ([tu_submatrix_st]).
   B. mzd_make_table_trtri, for ARBITRARY stale table contents (row 0 of T zero, at least 2^k rows):
      which rows / index entries / B entries it writes ([make_table_trtri_spec]). *)
From Coq Require Import List NArith PArith Arith Lia Bool FMapPositive Btauto.
From M4 Require Import Base.Bits Lin.Mat Lin.MatAlg Lin.Ops Lin.OpsProofs Lin.Tri
  Alg.Gray Alg.GrayProofs Alg.TRSM Alg.TRSMProofs Alg.TRSMRec Alg.TRSMRecProofs
  Alg.TrtriRussian Alg.TrtriRussianProofs.
Import ListNotations.
Local Open Scope nat_scope.

(** * A. _mzd_trtri_upper_submatrix *)
Lemma colmask_empty c0 c1 : c1 <= c0 -> colmask c0 c1 = 0%N.
Proof.
  intros H. apply bits_ext_nat. intros j. rewrite testbit_colmask, N.bits_0.
  destruct (Nat.leb_spec c0 j), (Nat.ltb_spec j c1); try lia; reflexivity.
Qed.

(** the inner loop over j for the pivot i *)
Definition sub_inner (A : mat) (i lo cnt : nat) : mat :=
  fold_left (fun A j => if get A j i && (S i <? nc A) then row_add_offset A j i (S i) else A) (seq lo cnt) A.

Lemma tu_submatrix_unfold A pr er k :
  tu_submatrix A pr er k = fold_left (fun A i => sub_inner A i er (i - er)) (seq pr k) A.
Proof. reflexivity. Qed.

Lemma sub_inner_spec A i lo : forall cnt, lo + cnt <= i ->
  let F := sub_inner A i lo cnt in
  nr F = nr A /\ nc F = nc A /\ length (rows F) = length (rows A) /\
  forall q, row F q = if (lo <=? q) && (q <? lo + cnt) then step (um (nc A) A) (row A q) i else row A q.
Proof.
  induction cnt as [|cnt IH]; intros Hle F.
  - subst F. unfold sub_inner. cbn [seq fold_left]. repeat split; try reflexivity.
    intros q. destruct (Nat.leb_spec lo q), (Nat.ltb_spec q (lo + 0)); try lia; reflexivity.
  - destruct (IH ltac:(lia)) as (Hr & Hc & Hl & Hrow). clear IH.
    subst F. unfold sub_inner in *. rewrite seq_S, fold_left_app. cbn [fold_left].
    set (F := fold_left _ (seq lo cnt) A) in *. set (j := lo + cnt).
    assert (Hj : row F j = row A j).
    { rewrite Hrow. destruct (Nat.leb_spec lo j), (Nat.ltb_spec j (lo + cnt)); try lia; reflexivity. }
    assert (Hi : row F i = row A i).
    { rewrite Hrow. destruct (Nat.leb_spec lo i), (Nat.ltb_spec i (lo + cnt)); try lia; reflexivity. }
    assert (Hstep : forall q, q <> j ->
              (if (lo <=? q) && (q <? lo + S cnt) then step (um (nc A) A) (row A q) i else row A q) = row F q).
    { intros q Hq. rewrite Hrow. unfold j in Hq.
      destruct (Nat.leb_spec lo q), (Nat.ltb_spec q (lo + S cnt)), (Nat.ltb_spec q (lo + cnt)); try lia; reflexivity. }
    assert (Hjj : (lo <=? j) && (j <? lo + S cnt) = true).
    { unfold j. destruct (Nat.leb_spec lo (lo + cnt)), (Nat.ltb_spec (lo + cnt) (lo + S cnt)); try lia; reflexivity. }
    destruct (get F j i && (S i <? nc F)) eqn:Econd.
    + apply andb_true_iff in Econd as [Eg Ec]. unfold get in Eg. rewrite Hj in Eg.
      assert (Hjl : j < length (rows A)).
      { destruct (Nat.lt_ge_cases j (length (rows A))) as [H|H]; [assumption|].
        rewrite (row_overflow A j H), N.bits_0 in Eg. discriminate. }
      unfold row_add_offset. rewrite nr_set_row, nc_set_row, len_set_row.
      repeat split; try assumption.
      intros q. rewrite row_set_row, Hl. destruct (Nat.eqb_spec q j) as [->|Hq].
      * destruct (Nat.ltb_spec j (length (rows A))); [|lia]. cbn [andb]. rewrite Hjj, Hj, Hi, Hc.
        unfold step. rewrite Eg. reflexivity.
      * cbn [andb]. symmetry. now apply Hstep.
    + repeat split; try assumption.
      intros q. destruct (Nat.eq_dec q j) as [->|Hq]; [|symmetry; now apply Hstep].
      rewrite Hjj, Hj. unfold step. apply andb_false_iff in Econd as [Eg|Ec].
      * unfold get in Eg. rewrite Hj in Eg. now rewrite Eg.
      * apply Nat.ltb_ge in Ec. rewrite Hc in Ec. unfold um. rewrite colmask_empty by assumption.
        rewrite N.land_0_r, N.lxor_0_r. now destruct (N.testbit (row A j) (N.of_nat i)).
Qed.

(** the state of the matrix: rows above r0 with the pivot steps up to r0, rows from r0 on with the
    pivot steps up to m *)
Definition st (n : nat) (U : mat) (r0 m : nat) (A : mat) : Prop :=
  nr A = n /\ nc A = n /\ length (rows A) = n /\
  forall j, j < n -> row A j = pv n U (S j) ((if j <? r0 then r0 else m) - S j) (row U j).

Lemma st_init n U : wf U -> nr U = n -> nc U = n -> st n U 0 0 U.
Proof.
  intros HU Hr Hc. pose proof (wf_len U HU). split; [assumption|]. split; [assumption|]. split; [lia|].
  intros j Hj. destruct (Nat.ltb_spec j 0); [lia|]. reflexivity.
Qed.

Lemma st_wf n U r0 m A : wf U -> nc U = n -> st n U r0 m A -> wf A.
Proof.
  intros HU Hc (Hr & Hc' & Hl & Hrow). split; [lia|]. apply Forall_forall. intros x Hx.
  destruct (In_nth _ _ 0%N Hx) as [j [Hj <-]]. fold (row A j). rewrite Hrow by lia. rewrite Hc'.
  apply bounded_pv. rewrite <- Hc. now apply wf_row_bounded.
Qed.

(** at the end of a block the distinction between the two groups of rows disappears *)
Lemma st_close n U r0 m A : st n U r0 m A -> r0 <= m -> (forall j, j < r0 ->
  row A j = pv n U (S j) (m - S j) (row U j)) -> st n U m m A.
Proof.
  intros (Hr & Hc & Hl & Hrow) Hle Hup. repeat split; try assumption.
  intros j Hj. destruct (Nat.ltb_spec j r0).
  - rewrite Hup by assumption. now destruct (j <? m).
  - rewrite Hrow by assumption. destruct (Nat.ltb_spec j r0); [lia|]. now destruct (j <? m).
Qed.

Lemma sub_step n U r0 m A : st n U r0 m A -> r0 <= m -> m < n ->
  st n U r0 (S m) (sub_inner A m r0 (m - r0)).
Proof.
  intros (Hr & Hc & Hl & Hrow) Hle Hm.
  destruct (sub_inner_spec A m r0 (m - r0) ltac:(lia)) as (Hr' & Hc' & Hl' & Hrow').
  repeat split; try lia.
  intros q Hq. rewrite Hrow'. replace (r0 + (m - r0)) with m by lia.
  assert (Eum : um (nc A) A m = um n U m).
  { unfold um. rewrite Hc, (Hrow m Hm). destruct (Nat.ltb_spec m r0); [lia|].
    replace (m - S m) with 0 by lia. reflexivity. }
  rewrite (Hrow q Hq).
  destruct (Nat.leb_spec r0 q), (Nat.ltb_spec q m), (Nat.ltb_spec q r0); try lia; cbn [andb]; try reflexivity.
  - replace (S m - S q) with (S (m - S q)) by lia. rewrite pv_last.
    replace (S q + (m - S q)) with m by lia. unfold step. now rewrite Eum.
  - replace (S m - S q) with 0 by lia. replace (m - S q) with 0 by lia. reflexivity.
Qed.

Theorem tu_submatrix_st n U r0 : forall k m A, st n U r0 m A -> r0 <= m -> m + k <= n ->
  st n U r0 (m + k) (tu_submatrix A m r0 k).
Proof.
  induction k as [|k IH]; intros m A Hst Hle Hk.
  - rewrite Nat.add_0_r. exact Hst.
  - rewrite tu_submatrix_unfold. cbn [seq fold_left]. rewrite <- tu_submatrix_unfold.
    replace (m + S k) with (S m + k) by lia. apply IH; try lia. apply sub_step; [assumption|lia|lia].
Qed.

(** * B. mzd_make_table_trtri *)

(** ** the index array *)
Lemma ekey_inj a b : ekey a = ekey b -> a = b.
Proof.
  unfold ekey. intros H. apply N.succ_inj. now rewrite <- !N.succ_pos_spec, H.
Qed.

Lemma mtt_index_other s : forall ords i E, ~ In s ords ->
  PositiveMap.find (ekey s) (mtt_index ords i E) = PositiveMap.find (ekey s) E.
Proof.
  induction ords as [|s' ords IH]; intros i E Hn; [reflexivity|]. cbn [mtt_index].
  rewrite IH by (intros H; apply Hn; now right).
  apply PositiveMap.gso. intros H. apply ekey_inj in H. apply Hn. now left.
Qed.

Lemma mtt_index_hit : forall ords i E t, NoDup ords -> t < length ords ->
  PositiveMap.find (ekey (nth t ords 0%N)) (mtt_index ords i E) = Some (i + t).
Proof.
  induction ords as [|s ords IH]; intros i E t Hnd Ht; [cbn in Ht; lia|].
  inversion Hnd as [|? ? Hnin Hnd']; subst. cbn [mtt_index]. destruct t as [|t].
  - cbn [nth]. rewrite mtt_index_other by assumption. rewrite PositiveMap.gss. f_equal. lia.
  - cbn [nth]. rewrite IH by (auto; cbn in Ht; lia). f_equal. lia.
Qed.

(** ** the rows *)
Definition mtt_row (U : mat) (b0 : nat) (region : N) (t prev : N) (d : nat) : N :=
  N.lor (N.ldiff (N.ldiff t (word_cols b0)) region) (N.land (N.lxor (row U d) prev) region).

Lemma mtt_scan_length U b0 region : forall incs old prev, length (mtt_scan U b0 region prev incs old) = length old.
Proof.
  induction incs as [|d incs IH]; intros [|t old] prev; cbn [mtt_scan length]; try reflexivity.
  now rewrite IH.
Qed.

Lemma mtt_scan_nth U b0 region : forall incs old prev j, j < length incs -> j < length old ->
  nth j (mtt_scan U b0 region prev incs old) 0%N =
  mtt_row U b0 region (nth j old 0%N)
          (match j with 0 => prev | S j' => nth j' (mtt_scan U b0 region prev incs old) 0%N end) (nth j incs 0).
Proof.
  induction incs as [|d incs IH]; intros [|t old] prev j Hi Ho; cbn [length] in *; try lia.
  cbn [mtt_scan]. destruct j as [|j]; [reflexivity|]. cbn [nth].
  rewrite IH by lia. destruct j; reflexivity.
Qed.

Lemma mtt_scan_nth_out U b0 region : forall incs old prev j, length incs <= j ->
  nth j (mtt_scan U b0 region prev incs old) 0%N = nth j old 0%N.
Proof.
  induction incs as [|d incs IH]; intros [|t old] prev j Hj; cbn [length mtt_scan] in *; try reflexivity.
  destruct j as [|j]; [lia|]. cbn [nth]. apply IH. lia.
Qed.

Lemma mtt_fix_length c : forall ords ts, length (mtt_fix c ords ts) = length ts.
Proof. induction ords as [|s ords IH]; intros [|t ts]; cbn [mtt_fix length]; try reflexivity. now rewrite IH. Qed.

Lemma mtt_fix_nth c : forall ords ts j, j < length ords ->
  nth j (mtt_fix c ords ts) 0%N =
  if j <? length ts then N.lxor (nth j ts 0%N) (N.shiftl (nth j ords 0%N) (N.of_nat c)) else 0%N.
Proof.
  induction ords as [|s ords IH]; intros [|t ts] j Hj; cbn [length mtt_fix] in *; try lia.
  - now destruct j.
  - destruct j as [|j]; [reflexivity|]. cbn [nth]. rewrite IH by lia.
    destruct (Nat.ltb_spec j (length ts)), (Nat.ltb_spec (S j) (S (length ts))); try lia; reflexivity.
Qed.

Lemma mtt_fix_nth_out c : forall ords ts j, length ords <= j -> nth j (mtt_fix c ords ts) 0%N = nth j ts 0%N.
Proof.
  induction ords as [|s ords IH]; intros [|t ts] j Hj; cbn [length mtt_fix] in *; try reflexivity.
  destruct j as [|j]; [lia|]. cbn [nth]. apply IH. lia.
Qed.

Lemma mtt_bits_length sc tr : forall n ts bs, length (mtt_bits sc tr n ts bs) = length bs.
Proof.
  induction n as [|n IH]; intros [|t ts] [|b bs]; cbn [mtt_bits length]; try reflexivity. now rewrite IH.
Qed.

Lemma mtt_bits_nth sc tr : forall n ts bs j, j < n -> j < length ts -> j < length bs ->
  nth j (mtt_bits sc tr n ts bs) 0%N = N.land (N.shiftr (nth j ts 0%N) (N.of_nat sc)) (N.ones (N.of_nat tr)).
Proof.
  induction n as [|n IH]; intros [|t ts] [|b bs] j Hn Ht Hb; cbn [length] in *; try lia.
  cbn [mtt_bits]. destruct j as [|j]; [reflexivity|]. cbn [nth]. apply IH; lia.
Qed.

(** ** the table after mzd_make_table_trtri *)
Section MakeTable.
  Variables (U : mat) (c k startcol : nat) (tb : ptable).
  Let ord := fst (codebook k).
  Let inc := snd (codebook k).
  Let b0 := startcol / Gray.radix.
  Let region := colmask (Gray.radix * (c / Gray.radix)) (Gray.radix * mwidth (nc U)).
  Let toread := Nat.min Gray.radix (nc U - startcol).
  Hypothesis HT : 2 ^ k <= length (ptT tb).
  Hypothesis HB : 2 ^ k <= length (ptB tb).
  Hypothesis HT0 : nth 0 (ptT tb) 0%N = 0%N.
  Let tb' := make_table_trtri U c k tb startcol.

  Let Hcb : cb_ok k (ord, inc).
  Proof. unfold ord, inc. rewrite <- surjective_pairing. apply codebook_ok. Qed.

  Lemma mtt_lengths : length (ptT tb') = length (ptT tb) /\ length (ptB tb') = length (ptB tb).
  Proof.
    unfold tb', make_table_trtri. rewrite (surjective_pairing (codebook k)). fold ord inc.
    pose proof (pow2_pos k). destruct (ptT tb) as [|t0 rest]; [cbn in HT; lia|].
    destruct (ptB tb) as [|b0' brest]; [cbn in HB; lia|]. cbn [ptT ptB length].
    now rewrite mtt_fix_length, mtt_scan_length, mtt_bits_length.
  Qed.

  Lemma mtt_ord_split : ord = 0%N :: tl ord /\ length (tl ord) = 2 ^ k - 1 /\ NoDup ord.
  Proof.
    destruct Hcb as (Hlo & _ & Hperm & H0 & _). pose proof (pow2_pos k).
    assert (Hnd : NoDup ord).
    { apply (Permutation.Permutation_NoDup (Permutation.Permutation_sym Hperm)).
      apply NoDup_map_inj_in; [|apply seq_NoDup]. intros; lia. }
    destruct ord as [|s o]; [cbn in Hlo; lia|]. cbn [nth] in H0. subst s. cbn [tl length] in *.
    repeat split; [lia|assumption].
  Qed.

  (** L[ord[j]] = j for every j < 2^k *)
  Lemma mtt_E j : j < 2 ^ k -> e_get (ptE tb') (nth j ord 0%N) = j.
  Proof.
    intros Hj. unfold tb', make_table_trtri. rewrite (surjective_pairing (codebook k)). fold ord inc.
    cbn [ptE]. unfold e_get.
    destruct mtt_ord_split as (Eo & Hlen & Hnd). remember (tl ord) as o' eqn:Ho'. clear Ho'.
    rewrite Eo in Hnd. inversion Hnd as [|? ? Hnin Hnd']; subst.
    rewrite Eo. destruct j as [|j]; cbn [nth].
    - rewrite mtt_index_other by assumption. now rewrite PositiveMap.gss.
    - rewrite mtt_index_hit by (auto; lia). reflexivity.
  Qed.

  (** the rows of T after the first loop *)
  Let T1 := match ptT tb with
            | [] => []
            | t0 :: rest => t0 :: mtt_scan U b0 region t0 (firstn (2 ^ k - 1) inc) rest
            end.

  Lemma mtt_T1_0 : nth 0 T1 0%N = 0%N.
  Proof. unfold T1. destruct (ptT tb) as [|t0 rest]; [reflexivity|]. exact HT0. Qed.

  Lemma mtt_T1_step i : S i < 2 ^ k ->
    nth (S i) T1 0%N = mtt_row U b0 region (nth (S i) (ptT tb) 0%N) (nth i T1 0%N) (nth i inc 0).
  Proof.
    intros Hi. unfold T1. destruct Hcb as (_ & Hli & _).
    destruct (ptT tb) as [|t0 rest]; [cbn in HT; lia|]. cbn [length] in HT. cbn [nth].
    rewrite mtt_scan_nth by (rewrite ?firstn_length; lia).
    rewrite nth_firstn_lt by lia. destruct i; reflexivity.
  Qed.

  Lemma mtt_T1_out i : 2 ^ k <= i -> nth i T1 0%N = nth i (ptT tb) 0%N.
  Proof.
    intros Hi. unfold T1. pose proof (pow2_pos k). destruct (ptT tb) as [|t0 rest]; [reflexivity|].
    destruct i as [|i]; [lia|]. cbn [nth]. apply mtt_scan_nth_out. rewrite firstn_length. lia.
  Qed.

  (** on the region every row is the xor of the selected rows of U *)
  Lemma mtt_T1_region i : i < 2 ^ k ->
    N.land (nth i T1 0%N) region = N.land (mul_row (nth i ord 0%N) (rows U)) region.
  Proof.
    induction i as [|i IH]; intros Hi.
    - rewrite mtt_T1_0, (cb_ord_0 k ord inc Hcb), mul_row_0. reflexivity.
    - rewrite mtt_T1_step by assumption. destruct (cb_step k ord inc Hcb i Hi) as [_ Hord].
      rewrite Hord, mul_row_lxor, mul_row_pow2. fold (row U (nth i inc 0)).
      unfold mtt_row. specialize (IH ltac:(lia)).
      apply bits_ext_nat. intros j. apply (f_equal (fun x => N.testbit x (N.of_nat j))) in IH.
      rewrite !N.land_spec in IH.
      rewrite !N.land_spec, N.lor_spec, !N.ldiff_spec, !N.land_spec, !N.lxor_spec.
      destruct (N.testbit region (N.of_nat j)); [|now rewrite !andb_false_r].
      rewrite !andb_true_r in *. rewrite IH. cbn [negb]. rewrite andb_false_r. cbn [orb]. btauto.
  Qed.

  (** ... and outside the region the old row with word b0 cleared *)
  Lemma mtt_T1_outside i : 1 <= i < 2 ^ k ->
    N.ldiff (nth i T1 0%N) region = N.ldiff (N.ldiff (nth i (ptT tb) 0%N) (word_cols b0)) region.
  Proof.
    intros Hi. destruct i as [|i]; [lia|]. rewrite mtt_T1_step by lia. unfold mtt_row.
    apply bits_ext_nat. intros j. rewrite !N.ldiff_spec, N.lor_spec, !N.ldiff_spec, N.land_spec.
    destruct (N.testbit region (N.of_nat j)); cbn [negb]; now rewrite ?andb_false_r, ?andb_true_r, ?orb_false_r.
  Qed.

  Lemma mtt_T i :
    nth i (ptT tb') 0%N =
    if (1 <=? i) && (i <? 2 ^ k) then N.lxor (nth i T1 0%N) (N.shiftl (nth i ord 0%N) (N.of_nat c))
    else nth i (ptT tb) 0%N.
  Proof.
    unfold tb', make_table_trtri. rewrite (surjective_pairing (codebook k)). fold ord inc b0 region.
    cbn [ptT]. fold T1. pose proof (pow2_pos k).
    destruct mtt_ord_split as (Eo & Hlen & _).
    assert (HT1len : length T1 = length (ptT tb)).
    { unfold T1. destruct (ptT tb) as [|t0 rest]; [reflexivity|]. cbn [length]. now rewrite mtt_scan_length. }
    destruct T1 as [|t0 rest1] eqn:ET1; [cbn in HT1len; lia|].
    destruct i as [|i].
    - cbn [nth]. destruct (Nat.leb_spec 1 0); [lia|]. cbn [andb].
      pose proof mtt_T1_0 as Hz. rewrite ET1 in Hz. cbn [nth] in Hz. now rewrite Hz, HT0.
    - cbn [nth]. destruct (Nat.leb_spec 1 (S i)); [|lia]. cbn [andb]. destruct (Nat.ltb_spec (S i) (2 ^ k)).
      + rewrite mtt_fix_nth by lia. cbn [length] in HT1len.
        destruct (Nat.ltb_spec i (length rest1)); [|lia]. rewrite Eo at 2. reflexivity.
      + rewrite mtt_fix_nth_out by lia. change (nth i rest1 0%N) with (nth (S i) (t0 :: rest1) 0%N).
        rewrite <- ET1. apply mtt_T1_out. lia.
  Qed.

  Lemma mtt_T_0 : nth 0 (ptT tb') 0%N = 0%N.
  Proof. rewrite mtt_T. destruct (Nat.leb_spec 1 0); [lia|]. exact HT0. Qed.

  (** B[0] = 0, B[i] = the first [toread] bits of row i from startcol on *)
  Lemma mtt_B i : i < 2 ^ k ->
    nth i (ptB tb') 0%N =
    N.land (N.shiftr (nth i (ptT tb') 0%N) (N.of_nat startcol)) (N.ones (N.of_nat toread)).
  Proof.
    intros Hi. destruct i as [|i].
    - rewrite mtt_T_0, N.shiftr_0_l, N.land_0_l.
      unfold tb', make_table_trtri. rewrite (surjective_pairing (codebook k)). cbn [ptB].
      destruct (ptB tb) as [|b brest]; reflexivity.
    - destruct mtt_lengths as [HlT _].
      revert HlT. unfold tb', make_table_trtri. rewrite (surjective_pairing (codebook k)). fold ord inc b0 region toread.
      cbn [ptT ptB]. fold T1.
      set (T2 := match T1 with [] => [] | t0 :: rest => t0 :: mtt_fix c (tl ord) rest end).
      intros HlT.
      destruct (ptB tb) as [|b brest]; [cbn in HB; lia|]. cbn [length] in HB. cbn [nth].
      destruct T2 as [|t0 rest2]; [cbn in HlT; lia|]. cbn [tl nth]. cbn [length] in HlT.
      apply mtt_bits_nth; lia.
  Qed.

  (** the rows 1 .. 2^k-1 of T: outside the rewritten words the old row with word startcol/64 cleared,
      inside them the xor of the selected rows of U; on top the fix-up ord[i] << c *)
  Lemma mtt_T_value i : 1 <= i < 2 ^ k ->
    nth i (ptT tb') 0%N =
    N.lxor (N.lor (N.ldiff (N.ldiff (nth i (ptT tb) 0%N) (word_cols b0)) region)
                  (N.land (mul_row (nth i ord 0%N) (rows U)) region))
           (N.shiftl (nth i ord 0%N) (N.of_nat c)).
  Proof.
    intros Hi. rewrite mtt_T. destruct (Nat.leb_spec 1 i), (Nat.ltb_spec i (2 ^ k)); try lia. cbn [andb].
    f_equal. rewrite <- mtt_T1_outside, <- mtt_T1_region by lia.
    apply bits_ext_nat. intros j. rewrite N.lor_spec, N.ldiff_spec, N.land_spec.
    destruct (N.testbit (nth i T1 0%N) (N.of_nat j)), (N.testbit region (N.of_nat j)); reflexivity.
  Qed.

  Lemma mtt_T_out i : 2 ^ k <= i -> nth i (ptT tb') 0%N = nth i (ptT tb) 0%N.
  Proof. intros Hi. rewrite mtt_T. destruct (Nat.ltb_spec i (2 ^ k)); [lia|]. now rewrite andb_false_r. Qed.
End MakeTable.
