(* Alg/TrtriRussianProofs3.v — C05, mzd_trtri_upper_russian, part 3:

   C. what a table built by mzd_make_table_trtri from the snapshot _mzd_ple_to_e of a block holds:
      looked up through E for the selection s it is, from word startcol/64 on, the value [tval] of
      part 1 ([make_table_ok]); B holds its first bits from startcol on.
   D. _mzd_process_rows_ple_N with such tables = the pivot steps of all their blocks, the running
      [bits ^= B[x]] tracking the block bits of the row as it is being updated ([prp_lookup_ok],
      [process_rows_ple_row]); mzd_process_rows with one table, including its k == 1 path
      ([process_rows_row]). *)
From Coq Require Import List NArith PArith Arith Lia Bool FMapPositive Btauto ZArith ZifyBool ZifyNat ZifyN.
From M4 Require Import Base.Bits Lin.Mat Lin.MatAlg Lin.Ops Lin.OpsProofs Lin.Tri
  Alg.Gray Alg.GrayProofs Alg.TRSM Alg.TRSMProofs Alg.TRSMRec Alg.TRSMRecProofs
  Alg.TrtriRussian Alg.TrtriRussianProofs Alg.TrtriRussianProofs2.
Import ListNotations.
Local Open Scope nat_scope.
Ltac Zify.zify_post_hook ::= Z.div_mod_to_equations.

(** * C. the content of a table *)
(** a (stale) table usable with parameter k0 *)
Definition tab_wf (k0 : nat) (tb : ptable) : Prop :=
  2 ^ k0 <= length (ptT tb) /\ 2 ^ k0 <= length (ptB tb) /\ nth 0 (ptT tb) 0%N = 0%N.

(** the table of the block [p, p+k) for look-ups from startcol *)
Definition tab_ok (n : nat) (U : mat) (p k startcol : nat) (tb : ptable) : Prop :=
  (forall s, bounded k s ->
     let x := e_get (ptE tb) s in
     N.land (nth x (ptT tb) 0%N) (from_block n startcol) = tval n U p k s /\
     nth x (ptB tb) 0%N = N.land (N.shiftr (nth x (ptT tb) 0%N) (N.of_nat startcol))
                                 (N.ones (N.of_nat (Nat.min Gray.radix (n - startcol))))) /\
  (k = 1 -> e_get (ptE tb) 1%N = 1).

Lemma tab_wf_fresh k : tab_wf k (fresh_table k).
Proof.
  unfold tab_wf, fresh_table. cbn [ptT ptB]. rewrite !repeat_length. split; [lia|]. split; [lia|].
  pose proof (pow2_pos k). destruct (2 ^ k); [lia|reflexivity].
Qed.

Lemma tab_wf_mono k k0 tb : k <= k0 -> tab_wf k0 tb -> tab_wf k tb.
Proof.
  intros Hk (H1 & H2 & H3). pose proof (Nat.pow_le_mono_r 2 k k0 ltac:(lia) Hk).
  split; [lia|]. split; [lia|]. exact H3.
Qed.

Lemma land_mul_row s rs m : N.land (mul_row s rs) m = mul_row s (map (fun r => N.land r m) rs).
Proof.
  apply bits_ext_nat. intros j. rewrite N.land_spec, !testbit_mul_row, map_length, <- xsum_and_r.
  apply xsum_ext. intros i Hi. rewrite (nth_map_default _ _ _ 0%N) by assumption.
  rewrite N.land_spec. symmetry. apply andb_assoc.
Qed.

Lemma tval_0 n U p k : tval n U p k 0 = 0%N.
Proof. unfold tval. now rewrite mul_row_0, N.shiftl_0_l. Qed.

Lemma mwidth_ge n : n <= Gray.radix * mwidth n.
Proof. unfold Gray.radix, mwidth. lia. Qed.

Lemma table_bits (a a1 b w p k q n startcol : nat) (o m ss : bool) :
  a <= startcol -> startcol <= p -> b <= p -> a <= b -> b <= a1 -> n <= w -> p + k <= n ->
  (ss = true -> p <= q < p + k) ->
  xorb (o && negb ((a <=? q) && (q <? a1)) && negb ((b <=? q) && (q <? w)) || m && ((b <=? q) && (q <? w))) ss
  && ((a <=? q) && (q <? w)) = xorb (m && ((b <=? q) && (q <? w))) ss.
Proof.
  intros H1 H2 H3 H4 H5 H6 H7 Hs.
  destruct ss.
  - specialize (Hs eq_refl).
    destruct (Nat.leb_spec a q), (Nat.ltb_spec q w), (Nat.leb_spec b q), (Nat.ltb_spec q a1); try lia;
      destruct o, m; reflexivity.
  - clear Hs.
    destruct (Nat.leb_spec a q), (Nat.ltb_spec q w), (Nat.leb_spec b q), (Nat.ltb_spec q a1); try lia;
      destruct o, m; reflexivity.
Qed.

Section TableOk.
  Variables (n : nat) (U : mat).
  Hypotheses (HU : wf U) (Hc : nc U = n).

  (** the rows of the snapshot, restricted to the words from c/64 on, are the W rows of part 1 *)
  Lemma ple_to_e_rows r0 p k A : st n U r0 (p + k) A -> r0 <= p -> p + k <= n ->
    map (fun x => N.land x (colmask (Gray.radix * (p / Gray.radix)) (Gray.radix * mwidth n)))
        (rows (ple_to_e A p p k)) = wrows n U p k.
  Proof.
    intros (Hr & Hc' & Hl & Hrow) Hle Hpk. unfold ple_to_e, wrows. cbn [rows]. rewrite map_map.
    apply map_ext_in. intros l Hin. apply in_seq in Hin.
    rewrite (Hrow (p + l)) by lia. destruct (Nat.ltb_spec (p + l) r0); [lia|].
    replace (p + k - S (p + l)) with (k - S l) by lia. unfold wrow.
    set (x := pv n U (S (p + l)) (k - S l) (row U (p + l))).
    assert (Hb : bounded n x) by (apply bounded_pv; rewrite <- Hc; now apply wf_row_bounded).
    pose proof (mwidth_ge n) as Hw.
    apply bits_ext_nat. intros q. rewrite !N.land_spec, N.ldiff_spec, !testbit_colmask.
    destruct (Nat.lt_ge_cases q n) as [Hq|Hq]; [|now rewrite (Hb q Hq)].
    assert (Hbp : Gray.radix * (p / Gray.radix) <= p) by (unfold Gray.radix; lia).
    generalize dependent (Gray.radix * (p / Gray.radix)). generalize dependent (Gray.radix * mwidth n).
    intros w Hw b Hbp.
    destruct (N.testbit x (N.of_nat q)); cbn [andb]; [|reflexivity].
    destruct (Nat.leb_spec b q), (Nat.ltb_spec q (p + l)), (Nat.ltb_spec q w),
      (Nat.leb_spec (p + l) q), (Nat.ltb_spec q n); cbn; try reflexivity; try lia.
  Qed.

  Theorem make_table_ok r0 p k k0 startcol A tb :
    st n U r0 (p + k) A -> r0 <= p -> p + k <= n -> 1 <= k <= k0 ->
    startcol <= p -> p / Gray.radix <= startcol / Gray.radix + 1 -> tab_wf k0 tb ->
    let tb' := make_table_trtri (ple_to_e A p p k) p k tb startcol in
    tab_ok n U p k startcol tb' /\ tab_wf k0 tb'.
  Proof.
    intros Hst Hle Hpk Hk Hsc Hblk Hwf tb'.
    destruct (tab_wf_mono k k0 tb ltac:(lia) Hwf) as (HT & HB & HT0).
    destruct Hwf as (HT' & HB' & _).
    set (Um := ple_to_e A p p k) in *.
    assert (Hnc : nc Um = n) by (destruct Hst as (_ & Hc' & _); exact Hc').
    pose proof (codebook_ok k) as Hcb. rewrite (surjective_pairing (codebook k)) in Hcb.
    destruct (mtt_lengths Um p k startcol tb HT HB HT0) as [HlT HlB]. fold tb' in HlT, HlB.
    pose proof (mtt_T_0 Um p k startcol tb HT HB HT0) as HT0'. fold tb' in HT0'.
    split; [|split; [lia|]; split; [lia|]; exact HT0'].
    assert (Hmain : forall j, j < 2 ^ k ->
              N.land (nth j (ptT tb') 0%N) (from_block n startcol) = tval n U p k (nth j (fst (codebook k)) 0%N)).
    { intros j Hj. destruct j as [|j].
      - rewrite HT0', (cb_ord_0 k _ _ Hcb), tval_0. apply N.land_0_l.
      - unfold tb'. rewrite (mtt_T_value Um p k startcol tb HT HB HT0) by lia. rewrite Hnc.
        set (s := nth (S j) (fst (codebook k)) 0%N).
        assert (Hs : bounded k s).
        { apply bounded_lt. pose proof (cb_ord_lt k _ _ Hcb (S j) Hj) as H. fold s in H.
          rewrite <- of_nat_pow2. lia. }
        unfold tval. rewrite <- (ple_to_e_rows r0 p k A Hst Hle Hpk), <- land_mul_row. fold Um.
        set (M := mul_row s (rows Um)). set (old := nth (S j) (ptT tb) 0%N).
        pose proof (mwidth_ge n) as Hw.
        apply bits_ext_nat. intros q.
        rewrite N.land_spec, !N.lxor_spec, N.lor_spec, !N.ldiff_spec, N.land_spec, testbit_shiftl_nat.
        unfold from_block, word_cols. rewrite !testbit_colmask.
        assert (Hf1 : Gray.radix * (startcol / Gray.radix) <= startcol) by (unfold Gray.radix; lia).
        assert (Hf2 : Gray.radix * (p / Gray.radix) <= p) by (unfold Gray.radix; lia).
        assert (Hf3 : Gray.radix * (startcol / Gray.radix) <= Gray.radix * (p / Gray.radix))
          by (unfold Gray.radix in *; lia).
        assert (Hf4 : Gray.radix * (p / Gray.radix) <= Gray.radix * S (startcol / Gray.radix))
          by (unfold Gray.radix in *; lia).
        assert (Hf5 : Gray.radix * (startcol / Gray.radix) <= Gray.radix * S (startcol / Gray.radix))
          by (unfold Gray.radix in *; lia).
        revert Hf1 Hf2 Hf3 Hf4 Hf5 Hw.
        generalize (Gray.radix * S (startcol / Gray.radix)) (Gray.radix * (p / Gray.radix))
                   (Gray.radix * (startcol / Gray.radix)) (Gray.radix * mwidth n).
        intros a1 b a w Hf1 Hf2 Hf3 Hf4 Hf5 Hw.
        assert (Hsq : (p <=? q) && N.testbit s (N.of_nat (q - p)) = true -> p <= q < p + k).
        { intros E. apply andb_true_iff in E as [E1 E2]. apply Nat.leb_le in E1. split; [assumption|].
          destruct (Nat.lt_ge_cases q (p + k)); [assumption|]. rewrite Hs in E2 by lia. discriminate. }
        apply (table_bits a a1 b w p k q n startcol); assumption. }
    split.
    - intros s Hs x.
      assert (Hlt : (s < 2 ^ N.of_nat k)%N) by now apply bounded_lt.
      destruct (cb_ord_surj k _ _ Hcb s Hlt) as [j [Hj Ej]].
      assert (Ex : x = j).
      { unfold x, tb'. rewrite <- Ej. apply (mtt_E Um p k startcol tb HT HB HT0 j Hj). }
      rewrite Ex. split.
      + rewrite <- Ej. now apply Hmain.
      + unfold tb'. rewrite (mtt_B Um p k startcol tb HT HB HT0 j Hj). now rewrite Hnc.
    - intros ->. apply (mtt_E Um p 1 startcol tb HT HB HT0 1). cbn. lia.
  Qed.
End TableOk.

(** * D. processing the rows above the block *)
Lemma testbit_from_block n r q : r <= q -> q < n ->
  N.testbit (from_block n r) (N.of_nat q) = true.
Proof.
  intros H1 H2. unfold from_block. rewrite testbit_colmask. pose proof (mwidth_ge n).
  assert (Gray.radix * (r / Gray.radix) <= r) by (unfold Gray.radix; lia).
  destruct (Nat.leb_spec (Gray.radix * (r / Gray.radix)) q), (Nat.ltb_spec q (Gray.radix * mwidth n)); try lia; reflexivity.
Qed.

Lemma bbits_bounded p k y : bounded k (bbits p k y).
Proof. apply bounded_land_r, bounded_ones. Qed.

Section ProcessRows.
  Variables (n : nat) (U : mat).
  Hypotheses (HU : wf U) (Hc : nc U = n) (Hd : diag_ones n U).
  Variables (k r : nat).     (* r = startcol *)
  Let msk := from_block n r.
  Let dflt := fresh_table 0.

  (** the look-ups of _mzd_process_rows_ple_N for the tables of the blocks at r + sh, r + sh + k, ..:
      [y] = the row as updated so far, [bits] agrees with it on the block columns still to come *)
  Lemma prp_lookup_ok x : forall tabs sh bits acc y,
    (forall t, t < length tabs -> tab_ok n U (r + sh + t * k) k r (nth t tabs dflt)) ->
    r + sh + length tabs * k <= n ->
    sh + length tabs * k <= Gray.radix ->
    y = N.lxor x (N.land acc msk) ->
    (forall q, sh <= q < sh + length tabs * k -> N.testbit bits (N.of_nat q) = N.testbit y (N.of_nat (r + q))) ->
    N.lxor x (N.land (prp_lookup k tabs sh bits acc) msk) = pv n U (r + sh) (length tabs * k) y.
  Proof.
    induction tabs as [|tb rest IH]; intros sh bits acc y Hok Hn H64 Hy Hbits.
    - cbn [prp_lookup length Nat.mul]. rewrite pv_0. now symmetry.
    - cbn [prp_lookup]. cbn [length] in *.
      set (s := N.land (N.shiftr bits (N.of_nat sh)) (N.ones (N.of_nat k))).
      assert (Es : s = bbits (r + sh) k y).
      { apply bits_ext_nat. intros j. unfold s. fold (bbits sh k bits). rewrite !testbit_bbits.
        destruct (Nat.ltb_spec j k); [|now rewrite !andb_false_r]. rewrite !andb_true_r.
        rewrite Hbits by nia. f_equal. f_equal. lia. }
      destruct (Hok 0 ltac:(lia)) as [Hlook _]. cbn [nth] in Hlook. rewrite Nat.mul_0_l, Nat.add_0_r in Hlook.
      destruct (Hlook s (bbits_bounded sh k bits)) as [HTx HBx]. clear Hlook.
      set (xi := e_get (ptE tb) s) in *.
      assert (Hstep : pv n U (r + sh) k y = N.lxor y (N.land (nth xi (ptT tb) 0%N) msk)).
      { rewrite (block_table n U HU Hc Hd) by nia. rewrite <- Es. unfold msk. now rewrite HTx. }
      replace (S (length rest) * k) with (k + length rest * k) by lia. rewrite pv_app.
      replace (r + sh + k) with (r + (sh + k)) by lia.
      apply IH.
      + intros t Ht. specialize (Hok (S t) ltac:(lia)). cbn [nth] in Hok.
        replace (r + (sh + k) + t * k) with (r + sh + S t * k) by lia. exact Hok.
      + lia.
      + lia.
      + rewrite Hstep, Hy, land_lxor_distr_r. xor_solve.
      + intros q Hq. rewrite Hstep, !N.lxor_spec, HBx, Hbits by lia. f_equal.
        rewrite !N.land_spec, testbit_ones_nat, testbit_shiftr_nat.
        replace (q + r) with (r + q) by lia.
        unfold msk. rewrite testbit_from_block by lia.
        destruct (Nat.ltb_spec q (Nat.min Gray.radix (n - r))); [reflexivity|lia].
  Qed.

  (** one row of _mzd_process_rows_ple_N(M, .., startcol = r, k, tabs) *)
  Lemma process_rows_ple_row tabs x :
    (forall t, t < length tabs -> tab_ok n U (r + t * k) k r (nth t tabs dflt)) ->
    r + length tabs * k <= n -> length tabs * k <= Gray.radix ->
    N.lxor x (N.land (prp_lookup k tabs 0
                        (N.land (N.shiftr x (N.of_nat r)) (N.ones (N.of_nat (length tabs * k)))) 0%N) msk)
    = pv n U r (length tabs * k) x.
  Proof.
    intros Hok Hn H64.
    rewrite (prp_lookup_ok x tabs 0 _ 0%N x); rewrite ?Nat.add_0_r; auto.
    - now rewrite N.land_0_l, N.lxor_0_r.
    - intros q Hq. fold (bbits r (length tabs * k) x). rewrite testbit_bbits.
      destruct (Nat.ltb_spec q (length tabs * k)); [|lia]. rewrite andb_true_r. f_equal. f_equal. lia.
  Qed.

  (** one row of mzd_process_rows(M, .., startcol = r, k, T, L) with the table of the block at r;
      [paired] = the row is handled by the two-rows-at-a-time loop *)
  Lemma process_rows_row tb (paired : bool) x : tab_ok n U r k r tb -> r + k <= n ->
    (if (k =? 1) && paired
     then if N.testbit x (N.of_nat r) then N.lxor x (N.land (nth 1 (ptT tb) 0%N) msk) else x
     else N.lxor x (N.land (nth (e_get (ptE tb) (N.land (N.shiftr x (N.of_nat r)) (N.ones (N.of_nat k))))
                                (ptT tb) 0%N) msk))
    = pv n U r k x.
  Proof.
    intros [Hlook H1] Hn. rewrite (block_table n U HU Hc Hd) by assumption.
    fold (bbits r k x).
    destruct (Hlook (bbits r k x) (bbits_bounded r k x)) as [HTx _].
    destruct ((k =? 1) && paired) eqn:Ep.
    - apply andb_true_iff in Ep as [Ek _]. apply Nat.eqb_eq in Ek. subst k.
      assert (Eb : bbits r 1 x = if N.testbit x (N.of_nat r) then 1%N else 0%N).
      { apply bits_ext_nat. intros j. rewrite testbit_bbits. destruct j as [|j].
        - cbn [Nat.add]. destruct (N.testbit x (N.of_nat r)); reflexivity.
        - destruct (Nat.ltb_spec (S j) 1); [lia|]. rewrite andb_false_r.
          destruct (N.testbit x (N.of_nat r)); [|now rewrite N.bits_0].
          change 1%N with (2 ^ N.of_nat 0)%N. now rewrite testbit_pow2_nat. }
      rewrite Eb in *. destruct (N.testbit x (N.of_nat r)).
      + rewrite (H1 eq_refl) in HTx. unfold msk. now rewrite HTx.
      + rewrite tval_0. now rewrite N.lxor_0_r.
    - unfold msk. now rewrite HTx.
  Qed.
End ProcessRows.
