(* Alg/PLEProofs2.v — C03, part 2: the elimination step at entry level and the ABSTRACT loop invariant
   shared by _mzd_ple_naive and _mzd_pluq_naive.

   The invariant lives in the ORIGINAL column coordinates: [g i j] is entry (i, j) of the working
   matrix "with the multipliers stored in place" (for PLUQ: after undoing the column swaps made so
   far), [p k] / [q k] are the recorded row / column of pivot k, [t] pivots have been found and
   [c] is the first column not yet searched.  It says
       (P_t A)[i][j] = sum_{k<t} L(i,k) E(k,j)  +  R(i,j)
   with  L(i,k) = [i = k] or (k < i and g i (q k))      (unit lower, multipliers at the pivot columns)
         E(k,j) = (q k <= j) and g k j                   (row k of the echelon form, pivot at q k)
         R(i,j) = (t <= i) and (c <= j) and g i j        (the part still to be eliminated)
   plus the echelon structure (rows vanish left of their bound except at earlier pivot columns).
   [inv_step] is one iteration, [Final] section: what the invariant gives when no pivot is left:
   the column rank profile, the reconstruction P A Q^T = L U read after the column swaps. *)
From Coq Require Import List NArith Arith Lia Bool Sorted.
From M4 Require Import Base.Bits Lin.Mat Lin.MatAlg Lin.Ops Lin.Spec Lin.Span Lin.Perm Lin.Echelon Lin.Tri
  Alg.Gauss Alg.GaussProofs Alg.TRSMProofs Alg.PLE Alg.PLELemmas Alg.PLESpec Alg.PLEProofs.
Import ListNotations.
Local Open Scope nat_scope.

(** * the elimination below a pivot, at entry level *)
Definition elim_step (p pc c0 : nat) (M : mat) (l : nat) : mat :=
  if get M l pc then row_add_offset M l p c0 else M.

Lemma get_elim_step M p pc c0 l i j : wf M -> l < nr M ->
  get (elim_step p pc c0 M l) i j =
  if (i =? l) && get M l pc && (c0 <=? j) then xorb (get M l j) (get M p j) else get M i j.
Proof.
  intros HM Hl. unfold elim_step. destruct (get M l pc) eqn:E.
  - rewrite get_row_add_offset by assumption. now rewrite andb_true_r.
  - now rewrite andb_false_r.
Qed.

Lemma wf_elim_step M p pc c0 l : wf M -> wf (elim_step p pc c0 M l).
Proof. intros HM. unfold elim_step. destruct (get M l pc); [now apply wf_row_add_offset|assumption]. Qed.
Lemma nr_elim_step M p pc c0 l : nr (elim_step p pc c0 M l) = nr M.
Proof. unfold elim_step. now destruct (get M l pc). Qed.
Lemma nc_elim_step M p pc c0 l : nc (elim_step p pc c0 M l) = nc M.
Proof. unfold elim_step. now destruct (get M l pc). Qed.

Lemma get_elim_fold p pc c0 : forall n s M, wf M -> p < s -> s + n <= nr M ->
  let X := fold_left (elim_step p pc c0) (seq s n) M in
  wf X /\ nr X = nr M /\ nc X = nc M /\
  forall i j, get X i j =
    if (s <=? i) && (i <? s + n) && get M i pc && (c0 <=? j) then xorb (get M i j) (get M p j)
    else get M i j.
Proof.
  induction n as [|n IH]; intros s M HM Hp Hs; cbv zeta.
  - cbn [seq fold_left]. splits; auto. intros i j.
    destruct (Nat.leb_spec s i), (Nat.ltb_spec i (s + 0)); try lia; reflexivity.
  - cbn [seq fold_left].
    destruct (IH (S s) (elim_step p pc c0 M s)) as (Hw & Hr & Hc & Hg).
    + now apply wf_elim_step.
    + lia.
    + rewrite nr_elim_step. lia.
    + rewrite nr_elim_step in Hr. rewrite nc_elim_step in Hc.
      splits; auto. intros i j. rewrite Hg.
      rewrite !(get_elim_step M p pc c0 s) by (assumption || lia).
      destruct (Nat.eqb_spec p s) as [E|_]; [lia|]. cbn [andb].
      destruct (Nat.eqb_spec i s) as [->|Hne]; cbn [andb].
      * destruct (Nat.leb_spec (S s) s); [lia|]. cbn [andb].
        destruct (Nat.leb_spec s s); [|lia]. destruct (Nat.ltb_spec s (s + S n)); [|lia]. reflexivity.
      * destruct (Nat.leb_spec (S s) i), (Nat.leb_spec s i), (Nat.ltb_spec i (S s + n)),
          (Nat.ltb_spec i (s + S n)); try lia; reflexivity.
Qed.

(** the guarded call of the models: [if c0 <? nc M then elim_below M p pc c0 else M] *)
Lemma get_elim_guard M p pc c0 : wf M -> p < nr M ->
  let X := if c0 <? nc M then elim_below M p pc c0 else M in
  wf X /\ nr X = nr M /\ nc X = nc M /\
  forall i j, get X i j = xorb (get M i j) ((p <? i) && get M i pc && (c0 <=? j) && get M p j).
Proof.
  intros HM Hp. cbv zeta. destruct (Nat.ltb_spec c0 (nc M)) as [Hc|Hc].
  - unfold elim_below. change (fun M0 l => if get M0 l pc then row_add_offset M0 l p c0 else M0)
      with (elim_step p pc c0).
    destruct (get_elim_fold p pc c0 (nr M - S p) (S p) M HM) as (Hw & Hr & Hcc & Hg); [lia|lia|].
    splits; auto. intros i j. rewrite Hg.
    destruct (Nat.lt_ge_cases i (nr M)) as [Hi|Hi].
    + destruct (Nat.leb_spec (S p) i), (Nat.ltb_spec p i), (Nat.ltb_spec i (S p + (nr M - S p)));
        try lia; cbn [andb]; [|now rewrite xorb_false_r].
      destruct (get M i pc), (c0 <=? j); cbn [andb]; rewrite ?xorb_false_r; reflexivity.
    + rewrite (get_out_row M i pc) by assumption.
      rewrite !andb_false_r. cbn [andb]. now rewrite xorb_false_r.
  - splits; auto. intros i j.
    destruct (Nat.leb_spec c0 j) as [Hj|Hj].
    + rewrite (get_out_col M p j) by (auto; lia). now rewrite !andb_false_r, xorb_false_r.
    + now rewrite andb_false_r, xorb_false_r.
Qed.

(** * small facts on sorted maps and on [pi] *)
Lemma sorted_map_seq (q : nat -> nat) : forall len s,
  (forall k k', s <= k -> k < k' -> k' < s + len -> q k < q k') ->
  StronglySorted lt (map q (seq s len)).
Proof.
  induction len as [|len IH]; intros s H; cbn [seq map]; constructor.
  - apply IH. intros k k' H1 H2 H3. apply H; lia.
  - apply Forall_forall. intros x Hx. apply in_map_iff in Hx as [k [<- Hk]]. apply in_seq in Hk.
    apply H; lia.
Qed.

Lemma pi_inv_fix q ts j : (forall t, In t ts -> j <> t /\ j <> q t) -> pi_inv q ts j = j.
Proof. intros H. rewrite <- (pi_fix q ts j H) at 1. apply pi_inv_pi. Qed.

Lemma pi_snoc q t j : pi q (seq 0 (S t)) j = pi q (seq 0 t) (swapn t (q t) j).
Proof. rewrite seq_S, pi_app. reflexivity. Qed.
Lemma pi_inv_snoc q t j : pi_inv q (seq 0 (S t)) j = swapn t (q t) (pi_inv q (seq 0 t) j).
Proof. rewrite seq_S, pi_inv_app. reflexivity. Qed.

(** a swap sequence with identity tail *)
Lemma pi_id_tail q r len j : (forall t, r <= t -> t < r + len -> q t = t) ->
  pi q (seq 0 (r + len)) j = pi q (seq 0 r) j.
Proof.
  intros H. rewrite seq_app, pi_app. cbn [Nat.add]. f_equal. apply pi_id.
  intros t Ht. apply in_seq in Ht. apply H; lia.
Qed.

Section Abstract.
  Variable A : mat.
  Hypothesis HA : wf A.
  Let m := nr A.
  Let n := nc A.
  Let a := get A.

  Definition Lg (g : nat -> nat -> bool) (q : nat -> nat) i k := (i =? k) || ((k <? i) && g i (q k)).
  Definition Eg (g : nat -> nat -> bool) (q : nat -> nat) k j := (q k <=? j) && g k j.
  Definition Rg (g : nat -> nat -> bool) t c i j := (t <=? i) && (c <=? j) && g i j.

  Record Inv (g : nat -> nat -> bool) (p q : nat -> nat) (t c : nat) : Prop := {
    inv_t : t <= m;
    inv_c : c <= n;
    inv_p : forall k, k < t -> k <= p k < m;
    inv_q : forall k, k < t -> k <= q k < c;
    inv_qinc : forall k k', k < k' -> k' < t -> q k < q k';
    inv_sup : forall i j, m <= i \/ n <= j -> g i j = false;
    inv_piv : forall k, k < t -> g k (q k) = true;
    inv_zero : forall i j, j < (if i <? t then q i else c) -> (forall k, k < t -> j <> q k) -> g i j = false;
    inv_fact : forall i j, i < m ->
      a (pi p (seq 0 t) i) j = xorb (xsum t (fun k => Lg g q i k && Eg g q k j)) (Rg g t c i j)
  }.

  (** no pivot left: the remaining part vanishes *)
  Definition Fin (g : nat -> nat -> bool) (t c : nat) : Prop :=
    forall i j, t <= i -> c <= j -> g i j = false.

  Lemma inv_init p q : Inv a p q 0 0.
  Proof.
    constructor; try (intros; lia).
    - intros i j [H|H]; [now apply get_out_row|now apply get_out_col].
    - intros i j Hj. destruct (Nat.ltb_spec i 0); lia.
    - intros i j Hi. cbn [seq pi xsum]. unfold Rg. now destruct (a i j).
  Qed.

  Lemma inv_t_le_c g p q t c : Inv g p q t c -> t <= c.
  Proof.
    intros HI. destruct t as [|t]; [lia|]. pose proof (inv_q _ _ _ _ _ HI t ltac:(lia)). lia.
  Qed.

  (** ** one iteration *)
  Lemma inv_step g p q t c i0 j0 g' p' q' :
    Inv g p q t c ->
    t <= i0 < m -> c <= j0 < n -> g i0 j0 = true ->
    (forall i j, t <= i -> c <= j < j0 -> g i j = false) ->
    (forall k, k < t -> p' k = p k) -> p' t = i0 ->
    (forall k, k < t -> q' k = q k) -> q' t = j0 ->
    (forall i j, g' i j =
       xorb (g (swapn t i0 i) j) ((t <? i) && g (swapn t i0 i) j0 && (j0 <? j) && g i0 j)) ->
    Inv g' p' q' (S t) (S j0).
  Proof.
    intros HI Hi0 Hj0 Hpiv Hz Hp' Hp't Hq' Hq't Hg'.
    pose proof (inv_t_le_c _ _ _ _ _ HI) as Htc.
    assert (S1 : forall i, i < t -> swapn t i0 i = i) by (intros i Hi; apply swapn_other; lia).
    assert (S2 : swapn t i0 t = i0) by apply swapn_l.
    assert (S3 : forall i, t <= i -> t <= swapn t i0 i) by (intros i Hi; apply swapn_ge; lia).
    assert (G1 : forall i j, i <= t -> g' i j = g (swapn t i0 i) j).
    { intros i j Hi. rewrite Hg'. destruct (Nat.ltb_spec t i); [lia|]. cbn [andb]. apply xorb_false_r. }
    assert (G2 : forall i j, j <= j0 -> g' i j = g (swapn t i0 i) j).
    { intros i j Hj. rewrite Hg'. destruct (Nat.ltb_spec j0 j); [lia|].
      rewrite andb_false_r. cbn [andb]. apply xorb_false_r. }
    assert (G3 : forall i j, t < i -> j0 < j ->
                 g' i j = xorb (g (swapn t i0 i) j) (g (swapn t i0 i) j0 && g i0 j)).
    { intros i j Hi Hj. rewrite Hg'. destruct (Nat.ltb_spec t i); [|lia]. destruct (Nat.ltb_spec j0 j); [|lia].
      cbn [andb]. now rewrite andb_true_r. }
    assert (Z1 : forall i j, t <= i -> j < j0 -> (forall k, k < t -> j <> q k) -> g i j = false).
    { intros i j Hi Hj Hnp. destruct (Nat.lt_ge_cases j c) as [Hc|Hc].
      - apply (inv_zero _ _ _ _ _ HI); [|assumption]. destruct (Nat.ltb_spec i t); [lia|assumption].
      - apply Hz; lia. }
    constructor.
    - lia.
    - lia.
    - intros k Hk. destruct (Nat.eq_dec k t) as [->|Hne]; [rewrite Hp't; lia|].
      rewrite Hp' by lia. apply (inv_p _ _ _ _ _ HI). lia.
    - intros k Hk. destruct (Nat.eq_dec k t) as [->|Hne]; [rewrite Hq't; lia|].
      rewrite Hq' by lia. pose proof (inv_q _ _ _ _ _ HI k ltac:(lia)). lia.
    - intros k k' Hkk Hk'. destruct (Nat.eq_dec k' t) as [->|Hne].
      + rewrite Hq't, Hq' by lia. pose proof (inv_q _ _ _ _ _ HI k ltac:(lia)). lia.
      + rewrite !Hq' by lia. apply (inv_qinc _ _ _ _ _ HI); lia.
    - (* support *)
      intros i j H. rewrite Hg'.
      assert (E1 : g (swapn t i0 i) j = false).
      { apply (inv_sup _ _ _ _ _ HI). destruct H as [H|H]; [left|now right].
        rewrite swapn_other; lia. }
      rewrite E1. destruct H as [H|H].
      + rewrite (inv_sup _ _ _ _ _ HI (swapn t i0 i) j0) by (left; rewrite swapn_other; lia).
        now rewrite andb_false_r.
      + rewrite (inv_sup _ _ _ _ _ HI i0 j) by now right. now rewrite andb_false_r.
    - (* pivots *)
      intros k Hk. destruct (Nat.eq_dec k t) as [->|Hne].
      + rewrite Hq't, G1, S2 by lia. assumption.
      + rewrite Hq', G1, S1 by lia. apply (inv_piv _ _ _ _ _ HI). lia.
    - (* echelon zeros *)
      intros i j Hj Hnp.
      assert (Hnp' : forall k, k < t -> j <> q k) by (intros k Hk; rewrite <- Hq' by lia; apply Hnp; lia).
      assert (Hnj0 : j <> j0) by (rewrite <- Hq't; apply Hnp; lia).
      destruct (Nat.ltb_spec i (S t)) as [Hi|Hi].
      + destruct (Nat.eq_dec i t) as [->|Hne].
        * rewrite Hq't in Hj. rewrite G1, S2 by lia. apply Z1; auto; lia.
        * rewrite Hq' in Hj by lia. rewrite G1, S1 by lia.
          apply (inv_zero _ _ _ _ _ HI); [|assumption]. destruct (Nat.ltb_spec i t); [assumption|lia].
      + rewrite G2 by lia. apply Z1; auto; [apply S3|]; lia.
    - (* the factorisation *)
      intros i j Hi. rewrite pi_snoc, Hp't.
      rewrite (pi_ext p' p) by (intros k Hk; apply in_seq in Hk; apply Hp'; lia).
      set (si := swapn t i0 i).
      assert (Hsi : si < m) by (apply swapn_lt; lia).
      rewrite (inv_fact _ _ _ _ _ HI si j Hsi). cbn [xsum].
      rewrite (xsum_ext t (fun k => Lg g' q' i k && Eg g' q' k j) (fun k => Lg g q si k && Eg g q k j)).
      2:{ intros k Hk. unfold Lg, Eg. rewrite Hq' by assumption. f_equal.
          - pose proof (inv_q _ _ _ _ _ HI k Hk) as Hqk. rewrite G2 by lia. fold si.
            destruct (Nat.lt_ge_cases i t) as [Hlt|Hge].
            + unfold si. rewrite S1 by assumption. reflexivity.
            + pose proof (S3 i Hge). fold si in H.
              destruct (Nat.eqb_spec i k), (Nat.eqb_spec si k), (Nat.ltb_spec k i), (Nat.ltb_spec k si);
                try lia; reflexivity.
          - rewrite G1, S1 by lia. reflexivity. }
      rewrite xorb_assoc. f_equal.
      unfold Lg, Eg, Rg. rewrite Hq't.
      destruct (lt_eq_lt_dec i t) as [[Hlt| ->]|Hgt].
      + unfold si. rewrite S1 by assumption.
        destruct (Nat.leb_spec t i), (Nat.eqb_spec i t), (Nat.ltb_spec t i), (Nat.leb_spec (S t) i);
          try lia; reflexivity.
      + unfold si. rewrite S2. rewrite (G1 t j) by lia. rewrite S2.
        destruct (Nat.leb_spec t i0); [|lia]. rewrite Nat.eqb_refl.
        destruct (Nat.leb_spec (S t) t); [lia|]. cbn [andb orb]. rewrite xorb_false_r.
        destruct (Nat.leb_spec c j), (Nat.leb_spec j0 j); try lia; cbn [andb]; try reflexivity.
        apply Hz; lia.
      + pose proof (S3 i ltac:(lia)) as Hge. fold si in Hge.
        destruct (Nat.leb_spec t si); [|lia]. destruct (Nat.eqb_spec i t); [lia|].
        destruct (Nat.ltb_spec t i); [|lia]. destruct (Nat.leb_spec (S t) i); [|lia].
        cbn [andb orb]. rewrite (G2 i j0), (G1 t j), S2 by lia. fold si.
        destruct (Nat.leb_spec c j) as [Hcj|Hcj]; cbn [andb].
        * destruct (lt_eq_lt_dec j j0) as [[Hjlt| ->]|Hjgt].
          -- destruct (Nat.leb_spec j0 j); [lia|]. destruct (Nat.leb_spec (S j0) j); [lia|].
             rewrite andb_false_r. cbn [andb xorb]. apply Hz; lia.
          -- destruct (Nat.leb_spec j0 j0); [|lia]. destruct (Nat.leb_spec (S j0) j0); [lia|].
             rewrite Hpiv. cbn [andb]. now rewrite andb_true_r, xorb_false_r.
          -- destruct (Nat.leb_spec j0 j); [|lia]. destruct (Nat.leb_spec (S j0) j); [|lia].
             rewrite G3 by lia. fold si. cbn [andb].
             destruct (g si j), (g si j0), (g i0 j); reflexivity.
        * destruct (Nat.leb_spec j0 j); [lia|]. destruct (Nat.leb_spec (S j0) j); [lia|].
          now rewrite andb_false_r.
  Qed.
End Abstract.

(** * what the invariant gives when no pivot is left *)
Lemma invertible_pmat k P : lapack P k -> invertible (pmat k P).
Proof.
  intros HP. destruct (pmat_orthogonal k P HP) as [H1 H2].
  split; [now rewrite nr_pmat, nc_pmat|]. exists (mtrans (pmat k P)).
  rewrite nr_pmat. splits; auto.
  - apply wf_mtrans, wf_pmat.
  - now rewrite nr_mtrans, nc_pmat.
  - now rewrite nc_mtrans, nr_pmat.
Qed.

Section Final.
  Variable A : mat.
  Hypothesis HA : wf A.
  Let m := nr A.
  Let n := nc A.
  Let a := get A.
  Variables (g : nat -> nat -> bool) (p q : nat -> nat) (r c : nat).
  Hypothesis HI : Inv A g p q r c.
  Hypothesis HF : Fin g r c.

  Let piq := pi q (seq 0 r).
  Let pip := pi p (seq 0 r).

  Lemma fin_r_le_m : r <= m. Proof. apply (inv_t _ _ _ _ _ _ HI). Qed.
  Lemma fin_r_le_n : r <= n.
  Proof. pose proof (inv_t_le_c _ _ _ _ _ _ HI). pose proof (inv_c _ _ _ _ _ _ HI). fold n in H0. lia. Qed.
  Lemma fin_q_lt k : k < r -> k <= q k < n.
  Proof. intros Hk. pose proof (inv_q _ _ _ _ _ _ HI k Hk). pose proof (inv_c _ _ _ _ _ _ HI). fold n in H0. lia. Qed.

  Lemma fin_piq_piv k : k < r -> piq k = q k.
  Proof.
    intros Hk. apply pi_seq_pivot; [assumption| |].
    - intros s Hs. apply (inv_q _ _ _ _ _ _ HI s Hs).
    - intros s s' H1 H2. now apply (inv_qinc _ _ _ _ _ _ HI).
  Qed.
  Lemma fin_piq_inj j j' : piq j = piq j' -> j = j'.
  Proof. apply pi_inj. Qed.
  Lemma fin_piq_lt j : j < n -> piq j < n.
  Proof. apply pi_lt. intros t Ht. apply in_seq in Ht. pose proof (fin_q_lt t ltac:(lia)). lia. Qed.
  Lemma fin_pip_lt i : i < m -> pip i < m.
  Proof.
    apply pi_lt. intros t Ht. apply in_seq in Ht. pose proof (inv_p _ _ _ _ _ _ HI t ltac:(lia)).
    fold m in H. lia.
  Qed.
  Lemma fin_piq_nonpiv j : r <= j -> forall k, k < r -> piq j <> q k.
  Proof. intros Hj k Hk E. rewrite <- fin_piq_piv in E by assumption. apply fin_piq_inj in E. lia. Qed.

  (** zeros: off the pivot columns, the rows >= r vanish and row i < r vanishes left of q i *)
  Lemma fin_zero i j : (forall k, k < r -> j <> q k) -> r <= i \/ (i < r /\ j < q i) -> g i j = false.
  Proof.
    intros Hnp [Hi|[Hi Hj]].
    - destruct (Nat.lt_ge_cases j c) as [Hc|Hc]; [|now apply HF].
      apply (inv_zero _ _ _ _ _ _ HI); [|assumption]. destruct (Nat.ltb_spec i r); [lia|assumption].
    - apply (inv_zero _ _ _ _ _ _ HI); [|assumption]. destruct (Nat.ltb_spec i r); [assumption|lia].
  Qed.

  Lemma fin_fact i j : i < m -> a (pip i) j = xsum r (fun k => Lg g q i k && Eg g q k j).
  Proof.
    intros Hi. unfold pip, a. rewrite (inv_fact _ _ _ _ _ _ HI i j Hi).
    replace (Rg g r c i j) with false; [apply xorb_false_r|].
    unfold Rg. destruct (Nat.leb_spec r i), (Nat.leb_spec c j); cbn [andb]; try reflexivity.
    symmetry. now apply HF.
  Qed.

  (** the storage outside the L and U regions, read through the column permutation *)
  Lemma fin_outside i j : r <= i -> r <= j -> g i (piq j) = false.
  Proof. intros Hi Hj. apply fin_zero; [now apply fin_piq_nonpiv|now left]. Qed.

  (** the reconstruction at entry level, for any stored matrix [s] with s i j = g i (piq j) *)
  Lemma fin_recon (s : nat -> nat -> bool) i j :
    (forall i j, i < m -> j < n -> s i j = g i (piq j)) -> i < m -> j < n ->
    a (pip i) (piq j) =
    xsum r (fun k => ((i <? m) && (if i <? r then (i =? k) || ((k <? i) && s i k) else (k <? r) && s i k)) &&
                     ((k <? r) && ((j <? n) && ((k =? j) || ((k <? j) && s k j))))).
  Proof.
    intros Hs Hi Hj. rewrite fin_fact by assumption. apply xsum_ext. intros k Hk.
    pose proof (fin_q_lt k Hk) as Hqk. pose proof fin_r_le_m as Hrm.
    destruct (Nat.ltb_spec i m); [|lia]. destruct (Nat.ltb_spec k r); [|lia].
    destruct (Nat.ltb_spec j n); [|lia]. cbn [andb].
    rewrite !Hs by lia. rewrite (fin_piq_piv k Hk). f_equal.
    - unfold Lg. destruct (Nat.ltb_spec i r); [reflexivity|].
      destruct (Nat.eqb_spec i k); [lia|]. destruct (Nat.ltb_spec k i); [|lia]. reflexivity.
    - unfold Eg. destruct (lt_eq_lt_dec j k) as [[Hlt| ->]|Hgt].
      + destruct (Nat.eqb_spec k j); [lia|]. destruct (Nat.ltb_spec k j); [lia|]. cbn [orb andb].
        rewrite (fin_piq_piv j) by lia.
        pose proof (inv_qinc _ _ _ _ _ _ HI j k Hlt Hk).
        destruct (Nat.leb_spec (q k) (q j)); [lia|reflexivity].
      + rewrite Nat.eqb_refl, (fin_piq_piv k Hk), (inv_piv _ _ _ _ _ _ HI k Hk), Nat.leb_refl. reflexivity.
      + destruct (Nat.eqb_spec k j); [lia|]. destruct (Nat.ltb_spec k j); [|lia]. cbn [orb andb].
        destruct (Nat.leb_spec (q k) (piq j)) as [Hle|Hlt]; [reflexivity|]. cbn [andb].
        symmetry. apply fin_zero; [|right; split; assumption].
        intros k' Hk' E. rewrite <- (fin_piq_piv k' Hk') in E. apply fin_piq_inj in E. subst k'.
        rewrite (fin_piq_piv j Hk') in Hlt.
        pose proof (inv_qinc _ _ _ _ _ _ HI k j Hgt Hk'). lia.
  Qed.

  (** ** the column rank profile *)
  Let Emat := mk m n (map (fun k => if k <? r then Perm.bits_of n (fun j => Eg g q k j) else 0%N) (seq 0 m)).
  Let Lsrc := mk m m (map (fun i => Perm.bits_of m (fun k => (k <? r) && g i (q k))) (seq 0 m)).
  Let Pl := map p (seq 0 r) ++ seq r (m - r).

  Lemma fin_get_Emat k j : get Emat k j = (k <? r) && ((j <? n) && Eg g q k j).
  Proof.
    pose proof fin_r_le_m as Hrm. unfold get, Emat.
    destruct (Nat.lt_ge_cases k m) as [Hk|Hk].
    - rewrite row_mk_map by assumption. destruct (Nat.ltb_spec k r); cbn [andb].
      + apply testbit_bits_of.
      + apply N.bits_0.
    - rewrite row_mk_map_out by assumption. destruct (Nat.ltb_spec k r); [lia|]. apply N.bits_0.
  Qed.
  Lemma fin_wf_Emat : wf Emat.
  Proof.
    apply wf_mk_map. intros i Hi. destruct (i <? r); [apply bounded_bits_of|apply bounded_0].
  Qed.
  Lemma fin_get_Lsrc i k : get Lsrc i k = (i <? m) && ((k <? m) && ((k <? r) && g i (q k))).
  Proof.
    unfold get, Lsrc. destruct (Nat.ltb_spec i m) as [Hi|Hi]; cbn [andb].
    - rewrite row_mk_map by assumption. apply testbit_bits_of.
    - rewrite row_mk_map_out by assumption. apply N.bits_0.
  Qed.

  Lemma fin_Pl_length : length Pl = m.
  Proof. pose proof fin_r_le_m. unfold Pl. rewrite app_length, map_length, !seq_length. lia. Qed.
  Lemma fin_Pl_nth k : k < m -> nth k Pl 0 = if k <? r then p k else k.
  Proof.
    intros Hk. unfold Pl. destruct (Nat.ltb_spec k r) as [H|H].
    - rewrite app_nth1 by (rewrite map_length, seq_length; lia).
      rewrite (nth_map_default _ _ _ 0) by (rewrite seq_length; lia). now rewrite seq_nth.
    - rewrite app_nth2 by (rewrite map_length, seq_length; lia).
      rewrite map_length, seq_length, seq_nth by lia. lia.
  Qed.
  Lemma fin_Pl_lapack : lapack Pl m.
  Proof.
    intros k Hk. rewrite fin_Pl_length in Hk. rewrite fin_Pl_nth by assumption.
    destruct (Nat.ltb_spec k r); [|lia]. apply (inv_p _ _ _ _ _ _ HI k). assumption.
  Qed.

  Lemma fin_PA : apply_p_left A Pl = mmul (unit_lower m Lsrc) Emat.
  Proof.
    pose proof fin_r_le_m as Hrm.
    destruct (get_apply_p_left A Pl HA fin_Pl_length fin_Pl_lapack) as (Hw & Hr & Hc & Hg).
    apply mat_ext; auto.
    - apply wf_mmul; [apply wf_unit_lower|apply fin_wf_Emat].
    - intros i j Hi Hj. rewrite Hr in Hi. rewrite Hc in Hj. rewrite Hg.
      fold m. replace m with (r + (m - r)) at 1 by lia.
      rewrite pi_id_tail.
      2:{ intros t H1 H2. rewrite fin_Pl_nth by lia. destruct (Nat.ltb_spec t r); [lia|reflexivity]. }
      rewrite (pi_ext _ p).
      2:{ intros t Ht. apply in_seq in Ht. rewrite fin_Pl_nth by lia. destruct (Nat.ltb_spec t r); [reflexivity|lia]. }
      fold pip. fold a. rewrite fin_fact by assumption.
      rewrite get_mmul by apply fin_wf_Emat. cbn [nr Emat].
      rewrite (xsum_extend r m); [|exact Hrm|].
      2:{ intros k Hk. rewrite fin_get_Emat. destruct (Nat.ltb_spec k r); [lia|]. cbn [andb]. apply andb_false_r. }
      apply xsum_ext. intros k Hk. rewrite fin_get_Emat, get_unit_lower, fin_get_Lsrc.
      destruct (Nat.ltb_spec i m); [|lia]. destruct (Nat.ltb_spec k m); [|lia].
      destruct (Nat.ltb_spec k r); [|lia]. destruct (Nat.ltb_spec j n); [|lia]. cbn [andb]. reflexivity.
  Qed.

  Lemma fin_ref : is_ref Emat (map q (seq 0 r)).
  Proof.
    pose proof fin_r_le_m as Hrm. unfold is_ref. rewrite map_length, seq_length. splits.
    - apply sorted_map_seq. intros k k' _ H1 H2. apply (inv_qinc _ _ _ _ _ _ HI); lia.
    - exact Hrm.
    - intros i Hi. rewrite (nth_map_default _ _ _ 0) by (rewrite seq_length; lia).
      rewrite seq_nth by assumption. cbn [Nat.add]. apply lead_Some.
      pose proof (fin_q_lt i Hi) as Hq. split.
      + change (get Emat i (q i) = true). rewrite fin_get_Emat. unfold Eg.
        destruct (Nat.ltb_spec i r); [|lia]. destruct (Nat.ltb_spec (q i) n); [|lia].
        rewrite Nat.leb_refl. cbn [andb]. apply (inv_piv _ _ _ _ _ _ HI i Hi).
      + intros j' Hj'. change (get Emat i j' = false). rewrite fin_get_Emat. unfold Eg.
        destruct (Nat.leb_spec (q i) j'); [lia|]. cbn [andb]. now rewrite !andb_false_r.
    - intros i Hi. unfold Emat. destruct (Nat.lt_ge_cases i m) as [Hlt|Hge].
      + rewrite row_mk_map by assumption. destruct (Nat.ltb_spec i r); [lia|reflexivity].
      + now apply row_mk_map_out.
  Qed.

  Theorem fin_crp : is_crp A (map q (seq 0 r)).
  Proof.
    apply (crp_of_ref A Emat); [assumption|apply fin_wf_Emat|apply fin_ref|].
    apply (row_equiv_trans A (apply_p_left A Pl)).
    - rewrite apply_left_is_mul by assumption. apply row_equiv_mmul_inv; [assumption| |apply nc_pmat].
      apply invertible_pmat, fin_Pl_lapack.
    - rewrite fin_PA. apply row_equiv_sym. apply row_equiv_mmul_inv.
      + apply fin_wf_Emat.
      + apply unit_lower_invertible.
      + reflexivity.
  Qed.
End Final.
