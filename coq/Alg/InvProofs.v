(* Alg/InvProofs.v — C05: triangular inversion (mzd_trtri_upper, triangular.c:518-546) and matrix
   inversion (mzd_inv_m4ri, brilliantrussian.c:971-997; mzd_invert_naive, mzd.c:1438-1456).

   1. block algebra of 2 x 2 upper block triangular matrices
   2. the trtri recursion: for ANY base routine, left and right solver meeting their
      specifications the recursive model returns the matrix specified by [trtri_ok]
      (= [trtri_upper_simple]), and it never fails in a configuration whose recursion threshold
      exceeds 64^2 (128^2 with SSE2) — [trtri_rec_ok], [trtri_rec_some]; instance [trtri_upper_rec]
   3. inversion through the reduced row echelon form of [A | I]: for invertible A the
      model, the faithful padded model (for every k) and the naive routine all return THE inverse.

   Observations on the C code that the models do not share (reported, not modelled):
   - triangular.c:519 computes U->nrows * U->ncols in int: signed overflow (undefined behaviour)
     from 46341 rows on; the models compare in N.
   - brilliantrussian.c:976 asserts [B->ncols == A->ncols && B->nrows && A->ncols] (presumably
     [B->nrows == A->nrows] was meant); with NDEBUG nothing is checked and a wrongly shaped B
     only dies in mzd_copy. *)
From Coq Require Import List NArith Arith Lia Bool Sorted ZArith ZifyBool ZifyNat ZifyN.
From M4 Require Import Base.Bits Lin.Mat Lin.MatAlg Lin.Ops Lin.OpsProofs Lin.Spec Lin.Span
  Lin.Echelon Lin.Observers Lin.Tri Alg.Gauss Alg.GaussProofs Alg.TRSM Alg.TRSMProofs Alg.TRSMRec
  Alg.TRSMRecProofs.
Import ListNotations.
Local Open Scope nat_scope.

(** * 1. Blocks *)
Lemma msub_eq A r0 c0 r c X : wf X -> nr X = r -> nc X = c -> r0 + r <= length (rows A) ->
  (forall i j, i < r -> j < c -> get A (r0 + i) (c0 + j) = get X i j) -> msub A r0 c0 r c = X.
Proof.
  intros HX Hr Hc Hl H. apply mat_ext; auto.
  - now apply wf_msub.
  - intros i j Hi Hj. cbn [nr nc msub] in Hi, Hj. rewrite get_msub by assumption.
    destruct (Nat.ltb_spec i r); [|lia]. destruct (Nat.ltb_spec j c); [|lia]. cbn [andb]. now apply H.
Qed.

Definition blk (A B C D : mat) : mat := mstack (mconcat A B) (mconcat C D).

Section Blk.
  Variables (n1 n2 : nat) (A B C D : mat).
  Hypotheses (WA : wf A) (WB : wf B) (WC : wf C) (WD : wf D).
  Hypotheses (RA : nr A = n1) (CA : nc A = n1) (RB : nr B = n1) (CB : nc B = n2).
  Hypotheses (RC : nr C = n2) (CC : nc C = n1) (RD : nr D = n2) (CD : nc D = n2).

  Lemma wf_blk : wf (blk A B C D).
  Proof.
    unfold blk. apply wf_mstack; [apply wf_mconcat|apply wf_mconcat|]; auto; try congruence.
    cbn [nc mconcat]. congruence.
  Qed.

  Lemma nr_blk : nr (blk A B C D) = n1 + n2.
  Proof. unfold blk. cbn [nr mstack mconcat]. congruence. Qed.
  Lemma nc_blk : nc (blk A B C D) = n1 + n2.
  Proof. unfold blk. cbn [nc mstack mconcat]. congruence. Qed.
  Lemma len_blk : length (rows (blk A B C D)) = n1 + n2.
  Proof. rewrite (wf_len _ wf_blk). apply nr_blk. Qed.

  Lemma get_blk i j :
    get (blk A B C D) i j =
    if i <? n1 then (if j <? n1 then get A i j else get B i (j - n1))
    else (if j <? n1 then get C (i - n1) j else get D (i - n1) (j - n1)).
  Proof.
    unfold blk. rewrite get_mstack by (apply wf_mconcat; auto; congruence).
    cbn [nr mconcat]. rewrite RA.
    destruct (Nat.ltb_spec i n1); rewrite get_mconcat by (auto; congruence); now rewrite ?CA, ?CC.
  Qed.

  Lemma msub_blk_00 : msub (blk A B C D) 0 0 n1 n1 = A.
  Proof.
    apply msub_eq; auto; [rewrite len_blk; lia|]. intros i j Hi Hj. cbn [Nat.add]. rewrite get_blk.
    destruct (Nat.ltb_spec i n1); [|lia]. destruct (Nat.ltb_spec j n1); [reflexivity|lia].
  Qed.

  Lemma msub_blk_01 : msub (blk A B C D) 0 n1 n1 n2 = B.
  Proof.
    apply msub_eq; auto; [rewrite len_blk; lia|]. intros i j Hi Hj. cbn [Nat.add]. rewrite get_blk.
    destruct (Nat.ltb_spec i n1); [|lia]. destruct (Nat.ltb_spec (n1 + j) n1); [lia|].
    now replace (n1 + j - n1) with j by lia.
  Qed.

  Lemma msub_blk_11 : msub (blk A B C D) n1 n1 n2 n2 = D.
  Proof.
    apply msub_eq; auto; [rewrite len_blk; lia|]. intros i j Hi Hj. rewrite get_blk.
    destruct (Nat.ltb_spec (n1 + i) n1); [lia|]. destruct (Nat.ltb_spec (n1 + j) n1); [lia|].
    now replace (n1 + i - n1) with i by lia; replace (n1 + j - n1) with j by lia.
  Qed.

  (** the unit upper triangular matrix read from a block matrix *)
  Lemma unit_upper_blk :
    unit_upper (n1 + n2) (blk A B C D) = blk (unit_upper n1 A) B (mzero n2 n1) (unit_upper n2 D).
  Proof.
    rewrite unit_upper_blocks by (rewrite len_blk; lia).
    now rewrite msub_blk_00, msub_blk_01, msub_blk_11.
  Qed.
End Blk.

Lemma mid_blk n1 n2 : mid (n1 + n2) = blk (mid n1) (mzero n1 n2) (mzero n2 n1) (mid n2).
Proof.
  assert (W : wf (blk (mid n1) (mzero n1 n2) (mzero n2 n1) (mid n2)))
    by (apply (wf_blk n1 n2); auto with wf).
  apply mat_ext; auto with wf.
  intros i j Hi Hj. cbn [nr nc mid] in Hi, Hj.
  { rewrite (get_blk n1 n2) by auto with wf. rewrite !get_mid, !get_mzero.
    destruct (Nat.ltb_spec i n1), (Nat.ltb_spec j n1), (Nat.ltb_spec i (n1 + n2)); try lia;
      cbn [andb]; try (destruct (Nat.eqb_spec i j); [lia|reflexivity]); try reflexivity. }
Qed.

(** product of two upper block triangular matrices whose diagonal blocks are mutually inverse and
    whose off-diagonal blocks cancel *)
Lemma mmul_upper_upper_id n1 n2 T00 T01 T11 P Q S :
  wf T00 -> wf T01 -> wf T11 -> wf P -> wf Q -> wf S ->
  nr T00 = n1 -> nc T00 = n1 -> nr T01 = n1 -> nc T01 = n2 -> nr T11 = n2 -> nc T11 = n2 ->
  nr P = n1 -> nc P = n1 -> nr Q = n1 -> nc Q = n2 -> nr S = n2 -> nc S = n2 ->
  mmul T00 P = mid n1 -> mmul T11 S = mid n2 -> mmul T00 Q = mmul T01 S ->
  mmul (blk T00 T01 (mzero n2 n1) T11) (blk P Q (mzero n2 n1) S) = mid (n1 + n2).
Proof.
  intros W00 W01 W11 WP WQ WS R00 C00 R01 C01 R11 C11 RP CP RQ CQ RS CS E0 E1 E01.
  unfold blk at 1 2.
  assert (WX0 : wf (mconcat P Q)) by (apply wf_mconcat; auto; congruence).
  assert (WX1 : wf (mconcat (mzero n2 n1) S)) by (apply wf_mconcat; auto with wf; cbn [nr mzero]; congruence).
  rewrite (mmul_upper_block n1 n2 T00 T01 T11); auto;
    try (cbn [nr nc mconcat mzero]; congruence).
  rewrite !mmul_mconcat_r; auto with wf; try (cbn [nr mzero]; congruence).
  rewrite E0, E1, <- E01.
  replace (mzero n2 n1) with (mzero (nc T01) n1) by congruence. rewrite mmul_zero_r by assumption.
  replace (mzero (nc T01) n1) with (mzero (nc T11) n1) by congruence. rewrite mmul_zero_r by assumption.
  rewrite madd_mconcat; auto with wf; try (cbn [nr nc mmul mzero mid]; congruence).
  rewrite madd_self by auto with wf. cbn [nr nc mmul]. rewrite R00, CQ, R01, R11.
  replace (mzero n1 n1) with (mzero (nr (mid n1)) (nc (mid n1))) by reflexivity.
  rewrite madd_zero_r by auto with wf. symmetry. apply mid_blk.
Qed.

(** * 2. Triangular inversion *)

(** ** the split point of mzd_trtri_upper (triangular.c:523-530) *)
Lemma trtri_split_nosse c n : sse2 c = false -> trtri_split c n = split n.
Proof. intros H. unfold trtri_split, split. now rewrite H. Qed.

Lemma trtri_split_bounds c n : (if sse2 c then 2 * radix else radix) < n -> 0 < trtri_split c n < n.
Proof.
  destruct (sse2 c) eqn:Hs; intros Hn.
  - unfold trtri_split, radix in *. rewrite Hs. cbn [andb].
    pose proof (Nat.div_mod (n - 1) 64 ltac:(lia)).
    pose proof (Nat.mod_upper_bound (n - 1) 64 ltac:(lia)).
    set (d := (n - 1) / 64) in *.
    pose proof (Nat.div_mod (d + 1) 2 ltac:(lia)).
    pose proof (Nat.mod_upper_bound (d + 1) 2 ltac:(lia)).
    set (q := (d + 1) / 2) in *.
    destruct (Nat.odd q); lia.
  - rewrite trtri_split_nosse by assumption. now apply split_bounds.
Qed.

(** configurations in which the recursion of mzd_trtri_upper is only entered above 64 (SSE2: 128)
    rows; every real build satisfies this by a wide margin (trtri_cut = 2 * L3 cache size in
    bytes).  Below the bound the C code misbehaves, see [trtri_small_cache_fails]. *)
Definition trtri_cfg_ok (c : cfg) : Prop :=
  (if sse2 c then (128 * 128 < trtri_cut c)%N else (64 * 64 < trtri_cut c)%N).

Lemma trtri_cfg_ok_enter c n : trtri_cfg_ok c ->
  (N.of_nat n * N.of_nat n <? trtri_cut c)%N = false -> (if sse2 c then 2 * radix else radix) < n.
Proof.
  unfold trtri_cfg_ok, radix. intros Hc Hn. apply N.ltb_ge in Hn.
  destruct (sse2 c); nia.
Qed.

Section TrtriProofs.
  Variable tbase : mat -> mat.
  Variables (ul ur : mat -> mat -> mat).
  Variable c : cfg.
  Hypothesis tbase_ok : forall U n, wf U -> nr U = n -> nc U = n -> diag_ones n U -> trtri_ok n U (tbase U).
  Hypothesis ul_ok : forall U B, wf B -> nr B <= length (rows U) -> solves_ul U B (ul U B).
  Hypothesis ur_ok : forall U B, wf B -> nc B <= length (rows U) -> diag_ones (nc B) U -> solves_ur U B (ur U B).

  (** one level of the recursion *)
  Lemma trtri_step n2 m U V00 V11 : wf U -> nr U = n2 + m -> nc U = n2 + m -> diag_ones (n2 + m) U ->
    trtri_ok n2 (msub U 0 0 n2 n2) V00 -> trtri_ok m (msub U n2 n2 m m) V11 ->
    trtri_ok (n2 + m) U
      (mstack (mconcat V00 (ur (msub U n2 n2 m m) (ul (msub U 0 0 n2 n2) (msub U 0 n2 n2 m))))
              (mconcat (msub U n2 0 m n2) V11)).
  Proof.
    intros HU Hr Hc Hd (Hw0 & Hr0 & Hc0 & Hl0 & Hu0) (Hw1 & Hr1 & Hc1 & Hl1 & Hu1).
    pose proof (wf_len U HU) as HlU.
    set (U00 := msub U 0 0 n2 n2) in *. set (U01 := msub U 0 n2 n2 m) in *.
    set (U10 := msub U n2 0 m n2) in *. set (U11 := msub U n2 n2 m m) in *.
    assert (W00 : wf U00) by (apply wf_msub; lia). assert (W01 : wf U01) by (apply wf_msub; lia).
    assert (W10 : wf U10) by (apply wf_msub; lia). assert (W11 : wf U11) by (apply wf_msub; lia).
    assert (D11 : diag_ones m U11) by (apply (diag_ones_msub (n2 + m)); auto; lia).
    destruct (ul_ok U00 U01 W01) as (HwX & HrX & HcX & EX).
    { unfold U00, U01. cbn [nr msub]. rewrite len_msub; lia. }
    set (X := ul U00 U01) in *. cbn [nr nc msub U01] in HrX, HcX, EX.
    destruct (ur_ok U11 X HwX) as (HwQ & HrQ & HcQ & EQ).
    { rewrite HcX. unfold U11. rewrite len_msub; lia. }
    { now rewrite HcX. }
    set (Q := ur U11 X) in *. rewrite HcX in EQ. rewrite HrX in HrQ. rewrite HcX in HcQ.
    fold (blk V00 Q U10 V11).
    assert (WV : wf (blk V00 Q U10 V11)) by (apply (wf_blk n2 m); auto).
    refine (conj WV (conj _ (conj _ (conj _ _)))).
    - now apply nr_blk.
    - now apply nc_blk.
    - intros i j Hji. rewrite (get_blk n2 m) by auto.
      destruct (Nat.ltb_spec i n2) as [Hi|Hi].
      + destruct (Nat.ltb_spec j n2); [|lia]. rewrite Hl0 by assumption. unfold U00.
        rewrite get_msub by lia. destruct (Nat.ltb_spec i n2); [|lia]. now destruct (Nat.ltb_spec j n2); [|lia].
      + destruct (Nat.lt_ge_cases i (n2 + m)) as [Him|Him].
        * destruct (Nat.ltb_spec j n2) as [Hj|Hj].
          -- unfold U10. rewrite get_msub by lia.
             destruct (Nat.ltb_spec (i - n2) m); [|lia]. destruct (Nat.ltb_spec j n2); [|lia].
             cbn [andb Nat.add]. now replace (n2 + (i - n2)) with i by lia.
          -- rewrite Hl1 by lia. unfold U11. rewrite get_msub by lia.
             destruct (Nat.ltb_spec (i - n2) m); [|lia]. destruct (Nat.ltb_spec (j - n2) m); [|lia].
             cbn [andb]. now replace (n2 + (i - n2)) with i by lia; replace (n2 + (j - n2)) with j by lia.
        * rewrite (get_out_row U) by (auto; lia).
          destruct (Nat.ltb_spec j n2); apply get_out_row; auto; [unfold U10; cbn [nr msub]; lia|lia].
    - apply upper_inv_unique; auto with wf.
      rewrite (unit_upper_blk n2 m) by auto.
      rewrite (unit_upper_blocks n2 m U) by lia. fold U00 U01 U11. fold (blk (unit_upper n2 U00) U01 (mzero m n2) (unit_upper m U11)).
      destruct (upper_inv_spec n2 U00) as ((HwI0 & HrI0 & HcI0 & _) & E0 & _).
      destruct (upper_inv_spec m U11) as ((HwI1 & HrI1 & HcI1 & _) & E1 & E1').
      apply mmul_upper_upper_id; auto with wf; try (rewrite ?Hu0, ?Hu1; assumption).
      (* U00' * Q = U01 * inv(U11') *)
      rewrite Hu1.
      assert (EQ' : Q = mmul X (upper_inv m U11)).
      { rewrite <- EQ. rewrite mmul_assoc, E1. rewrite <- HcQ. symmetry. now apply mmul_id_r. }
      rewrite EQ', <- mmul_assoc, EX. reflexivity.
  Qed.

  Theorem trtri_rec_ok : forall fuel U n, wf U -> nr U = n -> nc U = n -> diag_ones n U -> n <= fuel ->
    forall V, trtri_rec tbase ul ur c fuel U = Some V -> trtri_ok n U V.
  Proof.
    induction fuel as [|f IH]; intros U n HU Hr Hc Hd Hf V; cbn [trtri_rec].
    - intros [= <-]. destruct n; [|lia].
      refine (conj HU (conj Hr (conj Hc (conj (fun _ _ _ => eq_refl) _)))). reflexivity.
    - destruct (N.of_nat (nr U) * N.of_nat (nc U) <? trtri_cut c)%N.
      + intros [= <-]. now apply tbase_ok.
      + rewrite Hr. set (n2 := trtri_split c n).
        destruct (Nat.eqb_spec n2 0) as [H0|H0]; cbn [orb]; [discriminate|].
        destruct (Nat.leb_spec n n2) as [H1|H1]; [discriminate|].
        pose proof (wf_len U HU) as HlU.
        destruct (trtri_rec tbase ul ur c f (msub U 0 0 n2 n2)) as [V00|] eqn:E00; [|discriminate].
        destruct (trtri_rec tbase ul ur c f (msub U n2 n2 (n - n2) (n - n2))) as [V11|] eqn:E11; [|discriminate].
        intros [= <-]. replace n with (n2 + (n - n2)) at 1 by lia.
        apply trtri_step; auto; try lia.
        * now replace (n2 + (n - n2)) with n by lia.
        * apply (IH (msub U 0 0 n2 n2)); auto; try (cbn [nr nc msub]; lia); [apply wf_msub; lia|].
          apply (diag_ones_msub n); auto; lia.
        * apply (IH (msub U n2 n2 (n - n2) (n - n2))); auto; try (cbn [nr nc msub]; lia); [apply wf_msub; lia|].
          apply (diag_ones_msub n); auto; lia.
  Qed.

  (** the model never reports misbehaviour in a sane configuration *)
  Theorem trtri_rec_some : trtri_cfg_ok c ->
    forall fuel U n, nr U = n -> nc U = n -> n <= fuel -> exists V, trtri_rec tbase ul ur c fuel U = Some V.
  Proof using.
    clear tbase_ok ul_ok ur_ok. intros Hcfg. induction fuel as [|f IH]; intros U n Hr Hc Hf; cbn [trtri_rec]; [eauto|].
    rewrite Hr, Hc. destruct (N.of_nat n * N.of_nat n <? trtri_cut c)%N eqn:Ecut; [eauto|].
    pose proof (trtri_split_bounds c n (trtri_cfg_ok_enter c n Hcfg Ecut)) as Hs.
    set (n2 := trtri_split c n) in *.
    destruct (Nat.eqb_spec n2 0); [lia|]. destruct (Nat.leb_spec n n2); [lia|]. cbn [orb].
    destruct (IH (msub U 0 0 n2 n2) n2) as [V00 ->]; [reflexivity|reflexivity|lia|].
    destruct (IH (msub U n2 n2 (n - n2) (n - n2)) (n - n2)) as [V11 ->]; [reflexivity|reflexivity|lia|].
    eauto.
  Qed.
End TrtriProofs.

(** ** the model run against the library *)
Lemma trtri_upper_rec_unfold c U :
  trtri_upper_rec c U =
  trtri_rec trtri_upper_simple (trsm_upper_left_rec c 0) (trsm_upper_right_rec c 0) c (nr U) U.
Proof. reflexivity. Qed.

Lemma ul_rec_solves_inst c U B : wf B -> nr B <= length (rows U) -> solves_ul U B (trsm_upper_left_rec c 0 U B).
Proof. intros HB HL. rewrite trsm_upper_left_rec_spec by assumption. now apply trsm_upper_left_spec. Qed.

Lemma ur_rec_solves_inst c U B : wf B -> nc B <= length (rows U) -> diag_ones (nc B) U ->
  solves_ur U B (trsm_upper_right_rec c 0 U B).
Proof. intros HB HL HD. rewrite trsm_upper_right_rec_spec by assumption. now apply trsm_upper_right_spec. Qed.

(** the recursive model, whenever it does not flag misbehaviour of the C code, returns what the
    simple model returns — for every configuration *)
Theorem trtri_upper_rec_simple c U V : wf U -> nr U = nc U -> diag_ones (nr U) U ->
  trtri_upper_rec c U = Some V -> V = trtri_upper_simple U.
Proof.
  intros HU Hsq Hd E. rewrite trtri_upper_rec_unfold in E.
  apply (trtri_ok_unique (nr U) U).
  - apply (trtri_rec_ok trtri_upper_simple (trsm_upper_left_rec c 0) (trsm_upper_right_rec c 0) c
             (fun U n HU Hr Hc _ => trtri_upper_simple_ok n U HU Hr Hc)
             (ul_rec_solves_inst c) (ur_rec_solves_inst c) (nr U) U (nr U)); auto.
  - apply trtri_upper_simple_ok; auto.
Qed.

Theorem trtri_upper_rec_total c U : trtri_cfg_ok c -> nr U = nc U -> exists V, trtri_upper_rec c U = Some V.
Proof.
  intros Hc Hsq. rewrite trtri_upper_rec_unfold.
  apply (trtri_rec_some _ _ _ c Hc (nr U) U (nr U)); auto.
Qed.

(** C05, triangular part.  U is a storage matrix with ones on the diagonal and ARBITRARY content
    below it. *)
Theorem trtri_spec c U V : wf U -> nr U = nc U -> diag_ones (nr U) U -> trtri_upper_rec c U = Some V ->
  let n := nr U in
  wf V /\ nr V = n /\ nc V = n /\ (forall i j, j <= i -> get V i j = get U i j) /\
  mmul (unit_upper n U) (unit_upper n V) = mid n /\ mmul (unit_upper n V) (unit_upper n U) = mid n.
Proof.
  intros HU Hsq Hd E n. rewrite (trtri_upper_rec_simple c U V HU Hsq Hd E).
  pose proof (trtri_upper_simple_ok n U HU eq_refl (eq_sym Hsq)) as Hok.
  destruct (trtri_ok_products n U _ Hok) as [H1 H2]. destruct Hok as (Hw & Hr & Hc & Hl & _). auto 10.
Qed.

(** ... and on a genuine unit upper triangular matrix *)
Theorem trtri_spec_unit c n U V : is_unit_upper n U -> trtri_upper_rec c U = Some V ->
  is_unit_upper n V /\ mmul U V = mid n /\ mmul V U = mid n.
Proof.
  intros HU E. pose proof HU as (HwU & HrU & HcU & HdU & _).
  assert (Hd : diag_ones (nr U) U) by (intros i Hi; apply HdU; lia).
  rewrite (trtri_upper_rec_simple c U V HwU ltac:(congruence) Hd E).
  apply trtri_ok_unit; [assumption|]. now apply trtri_upper_simple_ok.
Qed.

(** the same with the faithful sub-routines of Alg/TRSMRec.v (dot-product base case, Four-Russians
    middle regime with any k >= 1) as solvers *)
Theorem trtri_upper_rec_f_simple c kk U V : 1 <= kk -> wf U -> nr U = nc U -> diag_ones (nr U) U ->
  trtri_upper_rec_f c kk U = Some V -> V = trtri_upper_simple U.
Proof.
  intros Hk HU Hsq Hd E. unfold trtri_upper_rec_f in E.
  apply (trtri_ok_unique (nr U) U).
  - apply (trtri_rec_ok trtri_upper_simple (trsm_upper_left_rec_f c kk 0) (trsm_upper_right_rec_f c 0) c
             (fun U n HU Hr Hc _ => trtri_upper_simple_ok n U HU Hr Hc)) with (fuel := nr U); auto.
    + intros U' B HB HL. rewrite trsm_upper_left_rec_f_spec by assumption. now apply trsm_upper_left_spec.
    + intros U' B HB HL HD. rewrite trsm_upper_right_rec_f_spec by assumption. now apply trsm_upper_right_spec.
  - apply trtri_upper_simple_ok; auto.
Qed.

Theorem trtri_upper_rec_f_total c kk U : trtri_cfg_ok c -> nr U = nc U -> exists V, trtri_upper_rec_f c kk U = Some V.
Proof.
  intros Hc Hsq. unfold trtri_upper_rec_f. apply (trtri_rec_some _ _ _ c Hc (nr U) U (nr U)); auto.
Qed.

(** outside [trtri_cfg_ok] the C code does misbehave (split 0: unbounded recursion; here L3 = 8 bytes).
    With SSE2 and L3 <= 8 KiB the same happens for 64 < n <= 128 (split 128 >= n: assertion
    [n2 < n], triangular.c:530, windows of negative extent under NDEBUG). *)
Lemma trtri_small_cache_fails :
  exists c U, is_unit_upper 4 U /\ trtri_upper_rec c U = None.
Proof.
  exists (mkcfg 2048 16 false), (mid 4). split; [apply mid_is_unit_upper|]. vm_compute. reflexivity.
Qed.

(** * 3. Inversion through the reduced row echelon form of [A | I] *)
Ltac Zify.zify_post_hook ::= Z.div_mod_to_equations.

Lemma pad64_ge n : n <= pad64 n.
Proof. unfold pad64. lia. Qed.

Lemma sorted_seq s n : StronglySorted lt (seq s n).
Proof.
  revert s. induction n as [|n IH]; intros s; cbn [seq]; constructor; [apply IH|].
  apply Forall_forall. intros x Hx. apply in_seq in Hx. lia.
Qed.

(** a matrix whose leading n columns hold the n x n identity is in reduced row echelon form *)
Lemma id_left_is_rref M n : wf M -> nr M = n ->
  (forall i j, i < n -> j < n -> get M i j = (i =? j)) -> is_rref M (seq 0 n).
Proof.
  intros HM Hr H. split; [split; [apply sorted_seq|split; [rewrite seq_length; lia|split]]|].
  - intros i Hi. rewrite seq_length in Hi. rewrite seq_nth by assumption. cbn [Nat.add].
    apply lead_Some. split.
    + fold (get M i i). rewrite H by assumption. apply Nat.eqb_refl.
    + intros j' Hj'. fold (get M i j'). rewrite H by lia. destruct (Nat.eqb_spec i j'); [lia|reflexivity].
  - intros i Hi. rewrite seq_length in Hi. unfold row. apply nth_overflow. rewrite (wf_len M HM). lia.
  - intros i i' Hi Hne. rewrite seq_length in Hi. rewrite seq_nth by assumption. cbn [Nat.add].
    destruct (Nat.lt_ge_cases i' n).
    + rewrite H by assumption. destruct (Nat.eqb_spec i' i); [lia|reflexivity].
    + apply get_out_row; [assumption|lia].
Qed.

(** multiplying by an invertible matrix from the left onto such a form determines rref and rank *)
Lemma rref_by_left_inverse A B M n : wf A -> wf B -> wf M ->
  nr A = n -> nc A = n -> nr B = n -> nc B = n -> nr M = n ->
  mmul A B = mid n -> mmul B A = mid n ->
  (forall i j, i < n -> j < n -> get (mmul B M) i j = (i =? j)) ->
  rref M = mmul B M /\ rank M = n.
Proof.
  intros HA HB HM RA CA RB CB RM EAB EBA Hid.
  assert (HinvB : invertible B).
  { split; [congruence|]. exists A. rewrite RB. exact (conj HA (conj RA (conj CA (conj EBA EAB)))). }
  assert (HR : wf (mmul B M)) by auto with wf.
  destruct (rref_canonical M (mmul B M) (seq 0 n)) as [E1 E2]; auto.
  - apply id_left_is_rref; auto.
  - apply row_equiv_mmul_inv; auto. congruence.
  - rewrite seq_length in E2. auto.
Qed.

Section Inverse.
  Variables (A B : mat) (n : nat).
  Hypotheses (HA : wf A) (HB : wf B) (RA : nr A = n) (CA : nc A = n) (RB : nr B = n) (CB : nc B = n).
  Hypotheses (EAB : mmul A B = mid n) (EBA : mmul B A = mid n).

  Lemma inv_aug_product : mmul B (mconcat A (mid n)) = mconcat (mid n) B.
  Proof.
    rewrite mmul_mconcat_r by (auto with wf). rewrite EBA. f_equal.
    rewrite <- CB. now apply mmul_id_r.
  Qed.

  Lemma inv_aug_rref : rref (mconcat A (mid n)) = mconcat (mid n) B /\ rank (mconcat A (mid n)) = n.
  Proof.
    rewrite <- inv_aug_product.
    apply (rref_by_left_inverse A B); auto.
    - apply wf_mconcat; auto with wf.
    - rewrite inv_aug_product. intros i j Hi Hj. rewrite get_mconcat by (auto with wf).
      cbn [nc mid]. destruct (Nat.ltb_spec j n); [|lia]. rewrite get_mid.
      destruct (Nat.ltb_spec i n); [reflexivity|lia].
  Qed.

  Lemma msub_aug_left : msub (mconcat (mid n) B) 0 0 n n = mid n.
  Proof.
    assert (W : wf (mconcat (mid n) B)) by (apply wf_mconcat; auto with wf).
    apply msub_eq; auto with wf.
    - rewrite (wf_len _ W). cbn [nr mconcat mid]. lia.
    - intros i j Hi Hj. cbn [Nat.add]. rewrite get_mconcat by (auto with wf). cbn [nc mid].
      destruct (Nat.ltb_spec j n); [reflexivity|lia].
  Qed.

  Lemma msub_aug_right : msub (mconcat (mid n) B) 0 n n n = B.
  Proof.
    assert (W : wf (mconcat (mid n) B)) by (apply wf_mconcat; auto with wf).
    apply msub_eq; auto with wf.
    - rewrite (wf_len _ W). cbn [nr mconcat mid]. lia.
    - intros i j Hi Hj. cbn [Nat.add]. rewrite get_mconcat by (auto with wf). cbn [nc mid].
      destruct (Nat.ltb_spec (n + j) n); [lia|]. now replace (n + j - n) with j by lia.
  Qed.

  Lemma inv_model_eq : inv_m4ri_model A = Some B.
  Proof.
    unfold inv_m4ri_model. rewrite RA. destruct inv_aug_rref as [-> _].
    rewrite msub_aug_left, mequal_refl. now rewrite msub_aug_right.
  Qed.

  Lemma inv_naive_eq : 0 < n -> invert_naive_model A (mid n) = Some B.
  Proof.
    intros Hn. unfold invert_naive_model. destruct inv_aug_rref as [E1 E2].
    unfold rref, rank in E1, E2. destruct (echelonize true (mconcat A (mid n))) as [x H].
    cbn [fst snd] in E1, E2. subst x H. destruct (Nat.eqb_spec n 0); [lia|].
    rewrite RA, CA. now rewrite msub_aug_right.
  Qed.

  (** the padded layout of mzd_inv_m4ri: A in columns [0,n), I in columns [w, w+n), w = 64*width *)
  Lemma inv_faithful_eq k : inv_m4ri_faithful k A = B.
  Proof.
    unfold inv_m4ri_faithful. rewrite RA, CA. pose proof (pad64_ge n) as Hw. set (w := pad64 n) in *.
    set (Z := mzero n (w - n)).
    set (AW := mconcat A Z). set (IW := mconcat (mid n) Z).
    assert (WZ : wf Z) by apply wf_mzero.
    assert (WAW : wf AW) by (apply wf_mconcat; auto).
    assert (WIW : wf IW) by (apply wf_mconcat; auto with wf).
    assert (WM : wf (mconcat AW IW)) by (apply wf_mconcat; auto; cbn [nr mconcat mid AW IW]; lia).
    assert (EZ : mmul B Z = Z).
    { unfold Z. rewrite <- CB at 1. rewrite mmul_zero_r by assumption. now rewrite RB. }
    assert (EP : mmul B (mconcat AW IW) = mconcat (mconcat (mid n) Z) (mconcat B Z)).
    { rewrite mmul_mconcat_r by (auto; cbn [nr mconcat mid AW IW]; lia).
      unfold AW, IW. rewrite !mmul_mconcat_r by (auto with wf). rewrite EBA, EZ. do 2 f_equal.
      rewrite <- CB. now apply mmul_id_r. }
    assert (WL : wf (mconcat (mid n) Z)) by (apply wf_mconcat; auto with wf).
    assert (WR : wf (mconcat B Z)) by (apply wf_mconcat; auto).
    assert (NL : nc (mconcat (mid n) Z) = w) by (cbn [nc mconcat mid mzero Z]; lia).
    destruct (rref_by_left_inverse A B (mconcat AW IW) n) as [-> _]; auto.
    - rewrite EP. intros i j Hi Hj. rewrite get_mconcat by (auto; cbn [nr mconcat mid]; lia).
      rewrite NL. destruct (Nat.ltb_spec j w); [|lia].
      rewrite get_mconcat by (auto with wf). cbn [nc mid]. destruct (Nat.ltb_spec j n); [|lia].
      rewrite get_mid. destruct (Nat.ltb_spec i n); [reflexivity|lia].
    - rewrite EP.
      assert (W : wf (mconcat (mconcat (mid n) Z) (mconcat B Z)))
        by (apply wf_mconcat; auto; cbn [nr mconcat mid]; lia).
      apply msub_eq; auto.
      + rewrite (wf_len _ W). cbn [nr mconcat mid]. lia.
      + intros i j Hi Hj. cbn [Nat.add]. rewrite get_mconcat by (auto; cbn [nr mconcat mid]; lia).
        rewrite NL. destruct (Nat.ltb_spec (w + j) w); [lia|]. replace (w + j - w) with j by lia.
        rewrite get_mconcat by auto. rewrite CB. destruct (Nat.ltb_spec j n); [reflexivity|lia].
  Qed.
End Inverse.

(** C05: Four-Russians inversion returns THE inverse of every invertible matrix.  (A is an argument
    of a pure function: it is unchanged.) *)
Theorem inv_spec A : wf A -> invertible A ->
  exists B, inv_m4ri_model A = Some B /\ wf B /\ nr B = nr A /\ nc B = nr A /\
            mmul A B = mid (nr A) /\ mmul B A = mid (nr A).
Proof.
  intros HA (Hsq & B & HB & RB & CB & EAB & EBA). exists B.
  split; [|auto]. apply (inv_model_eq A B (nr A)); auto.
Qed.

(** the inverse is unique, so [inv_spec] pins the result down *)
Theorem inverse_unique A B B' : wf A -> wf B -> wf B' -> nr A = nc A ->
  nr B = nr A -> nc B = nr A -> nr B' = nr A -> nc B' = nr A ->
  mmul A B = mid (nr A) -> mmul B A = mid (nr A) -> mmul A B' = mid (nr A) -> B' = B.
Proof.
  intros HA HB HB' Hsq RB CB RB' CB' EAB EBA EAB'.
  apply (invertible_cancel_l A); auto; [|congruence].
  split; [assumption|]. exists B. auto.
Qed.

(** what the C code really does (padding to whole words, k ignored) agrees, for every k *)
Theorem inv_faithful_agrees k A : wf A -> invertible A -> inv_m4ri_model A = Some (inv_m4ri_faithful k A).
Proof.
  intros HA (Hsq & B & HB & RB & CB & EAB & EBA).
  rewrite (inv_faithful_eq A B (nr A)); auto. apply (inv_model_eq A B (nr A)); auto.
Qed.

Corollary inv_faithful_independent_of_k k k' A : inv_m4ri_faithful k A = inv_m4ri_faithful k' A.
Proof. reflexivity. Qed.

(** naive inversion given an identity matrix returns the same matrix (n >= 1; for the 0 x 0 matrix
    mzd_invert_naive returns NULL because the rank of [A | I] is 0) *)
Theorem invert_naive_agrees A : wf A -> invertible A -> 0 < nr A ->
  invert_naive_model A (mid (nr A)) = inv_m4ri_model A.
Proof.
  intros HA (Hsq & B & HB & RB & CB & EAB & EBA) Hn.
  rewrite (inv_naive_eq A B (nr A)); auto. symmetry. apply (inv_model_eq A B (nr A)); auto.
Qed.

(** Behaviour on singular input.  mzd_inv_m4ri performs no test: it returns the right half of the
    echelon form of [A | I] (a transformation matrix T with T*A = rref A), never NULL;
    mzd_invert_naive returns NULL only if [A | I] has rank 0, i.e. never for n >= 1.  The checked
    model [inv_m4ri_model] returns None instead. *)
Lemma inv_singular_example :
  let A := mk 2 2 [1%N; 1%N] in
  inv_m4ri_model A = None /\ inv_m4ri_faithful 0 A = mk 2 2 [2%N; 3%N] /\
  invert_naive_model A (mid 2) = Some (mk 2 2 [2%N; 3%N]).
Proof. vm_compute. auto. Qed.
