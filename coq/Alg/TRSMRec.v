(* Alg/TRSMRec.v — additional executable models (definitions only) for m4ri/triangular.c and
   m4ri/triangular_russian.c, complementing Alg/TRSM.v: the sub-routines that Alg/TRSM.v
   instantiates with the plain substitution models, here as the C code computes them.
   Proofs: Alg/TRSMRecProofs.v (each meets the specification [solves_*] the generic recursion
   theorems ask for, so the [_f] models below equal the substitution models, too).

   1. word base cases of the RIGHT variants (_mzd_trsm_upper_right_base, triangular.c:262-293;
      _mzd_trsm_lower_right_base, :361-390): column by column, the new bit i of every row is the
      parity of (row & ucol), ucol = column i of the triangle (64 dot products at a time through
      _mzd_trsm_pack / m4ri_parity64 / _mzd_trsm_unpack; the grouping of the rows into chunks of
      64 does not show on whole rows).
      The base cases of the LEFT variants (triangular.c:411-425, 471-489) are, row for row, what
      [trsm_lower_left] / [trsm_upper_left] of Alg/TRSM.v do (row i += the finished rows k
      selected by the bits of row i of the triangle), so no further model is needed for them.
   2. Four-Russians middle regime of the LEFT variants (_mzd_trsm_lower_left_russian,
      triangular_russian.c:206-320; _mzd_trsm_upper_left_russian, :50-168): blocks of
      kk = 8k rows (then of k rows): substitution inside the block (_submatrix), Gray-code
      tables of the finished block rows (Alg/Gray.v [make_table]), table look-ups indexed by
      the bits of the triangular operand for all remaining rows.  k is a parameter (the C code
      derives it from the L2 size and the shape by floating point logarithms and clamps it to
      2..8). *)
From Coq Require Import List NArith Arith Bool.
From M4 Require Import Base.Bits Lin.Mat Lin.Ops Alg.Gray Alg.TRSM.
Import ListNotations.
Local Open Scope nat_scope.

(** * 1. right variants, word base case *)

(** m4ri_parity64 on one word: parity of the low 64 bits *)
Definition parity64 (x : N) : bool := xsum 64 (fun k => N.testbit x (N.of_nat k)).

(** one column step: bit i of every row ^= parity (row & ucol) *)
Definition dot_flip (ucol : N) (i : nat) (r : N) : N :=
  if parity64 (N.land r ucol) then N.lxor r (2 ^ N.of_nat i) else r.

(** ucol of upper right, column i: bits k < i with U[k,i] set (triangular.c:268-271) *)
Definition ur_ucol (U : mat) (i : nat) : N := N.land (col (rows U) i) (N.ones (N.of_nat i)).
(** ucol of lower right, column i: bits i < k < nb with L[k,i] set (triangular.c:367-370) *)
Definition lr_ucol (n : nat) (L : mat) (i : nat) : N :=
  N.land (N.ldiff (col (rows L) i) (N.ones (N.of_nat (S i)))) (N.ones (N.of_nat n)).

Definition ur_row_dot (U : mat) (n : nat) (b : N) : N :=
  fold_left (fun x i => dot_flip (ur_ucol U i) i x) (seq 1 (n - 1)) b.     (* i = 1 .. nb-1 *)
Definition lr_row_dot (L : mat) (n : nat) (b : N) : N :=
  fold_left (fun x i => dot_flip (lr_ucol n L i) i x) (rev (seq 0 n)) b.   (* i = nb-1 .. 0 *)

(** the C loops run over the columns outside and the rows inside; rows do not interact, so the
    result is the row-wise fold *)
Definition trsm_upper_right_base (U B : mat) : mat :=
  mk (nr B) (nc B) (map (ur_row_dot U (nc B)) (rows B)).
Definition trsm_lower_right_base (L B : mat) : mat :=
  mk (nr B) (nc B) (map (lr_row_dot L (nc B)) (rows B)).

(** * 2. left variants, Four-Russians middle regime *)

Definition ntables : nat := 8.           (* __M4RI_TRSM_NTABLES *)

(** fresh tables: mzd_init / m4ri_mm_calloc give zeroes.  The C code reuses its eight tables
    between blocks without clearing them; mzd_make_table rewrites every row but row 0, which stays
    zero, so the looked-up values do not depend on the old contents (Alg/GrayProofs.v
    [gray_lookup] holds for arbitrary old contents). *)
Definition fresh_T (k : nat) : list N := repeat 0%N (2 ^ k).
Definition fresh_L (k : nat) : list nat := repeat 0 (2 ^ k).

(** xor of the looked-up rows of [nt] tables built from rows s, s+k, ... of B; the index of table t
    are the k bits of row j of the triangle starting at column s + t*k
    (mzd_read_bits(L, j, i, kk) >> (t*k) & mask  resp.  mzd_read_bits_int(U, j, ..., k)) *)
Definition tables_at (B : mat) (s k nt : nat) : list (list N * list nat) :=
  map (fun t => make_table B (s + t * k) 0 k (fresh_T k) (fresh_L k)) (seq 0 nt).
Definition combine_lookup (T : mat) (j s k : nat) (tabs : list (list N * list nat)) : N :=
  fold_left N.lxor (map (fun tt => tlookup (snd tt) (read_bits T j (s + fst tt * k) k))
                        (combine (seq 0 (length tabs)) tabs)) 0%N.

(** ** lower left *)
(** _mzd_trsm_lower_left_submatrix(L, B, s, k): substitution inside rows [s, s+k) *)
Definition ll_submatrix (L B : mat) (s k : nat) : mat :=
  fold_left (fun B i =>
    fold_left (fun B j => if get L (s + i) (s + j) then row_add B (s + j) (s + i) else B) (seq 0 i) B)
    (seq 0 k) B.

(** one block of nt*k rows at s: submatrix, tables, update of the rows below *)
Definition ll_block (L B : mat) (s k nt : nat) : mat :=
  let B1 := ll_submatrix L B s (nt * k) in
  let tabs := tables_at B1 s k nt in
  map_rows (fun j r => if s + nt * k <=? j then N.lxor r (combine_lookup L j s k tabs) else r) B1.

(** first loop: blocks of kk = 8k rows while i < nrows - kk *)
Fixpoint ll_russian_big (fuel : nat) (L B : mat) (k i : nat) : mat * nat :=
  match fuel with
  | 0 => (B, i)
  | S f => if i + ntables * k <? nr B then ll_russian_big f L (ll_block L B i k ntables) k (i + ntables * k)
           else (B, i)
  end.
(** second loop: blocks of k rows, the last one shortened *)
Fixpoint ll_russian_small (fuel : nat) (L B : mat) (k i : nat) : mat :=
  match fuel with
  | 0 => B
  | S f => if i <? nr B then
             let k' := if nr B <? i + k then nr B - i else k in
             ll_russian_small f L (ll_block L B i k' 1) k' (i + k')
           else B
  end.
Definition trsm_lower_left_russian (k : nat) (L B : mat) : mat :=
  let '(B1, i) := ll_russian_big (nr B) L B k 0 in ll_russian_small (nr B) L B1 k i.

(** ** upper left (bottom up) *)
(** _mzd_trsm_upper_left_submatrix(U, B, s, k): row s+k-i-1 += rows s+k-i+j, j < i *)
Definition ul_submatrix (U B : mat) (s k : nat) : mat :=
  fold_left (fun B i =>
    fold_left (fun B j => if get U (s + (k - i - 1)) (s + (k - i) + j)
                          then row_add B (s + (k - i) + j) (s + (k - i - 1)) else B) (seq 0 i) B)
    (seq 0 k) B.

(** one block of nt*k rows at s (= nrows - i - nt*k): submatrix, tables, update of the rows above *)
Definition ul_block (U B : mat) (s k nt : nat) : mat :=
  let B1 := ul_submatrix U B s (nt * k) in
  let tabs := tables_at B1 s k nt in
  map_rows (fun j r => if j <? s then N.lxor r (combine_lookup U j s k tabs) else r) B1.

Fixpoint ul_russian_big (fuel : nat) (U B : mat) (k i : nat) : mat * nat :=
  match fuel with
  | 0 => (B, i)
  | S f => if i + ntables * k <? nr B
           then ul_russian_big f U (ul_block U B (nr B - i - ntables * k) k ntables) k (i + ntables * k)
           else (B, i)
  end.
Fixpoint ul_russian_small (fuel : nat) (U B : mat) (k i : nat) : mat :=
  match fuel with
  | 0 => B
  | S f => if i <? nr B then
             let k' := if nr B <? i + k then nr B - i else k in
             ul_russian_small f U (ul_block U B (nr B - i - k') k' 1) k' (i + k')
           else B
  end.
Definition trsm_upper_left_russian (k : nat) (U B : mat) : mat :=
  let '(B1, i) := ul_russian_big (nr B) U B k 0 in ul_russian_small (nr B) U B1 k i.

(** * 3. the recursive models with these sub-routines plugged in ([kk] = the k of the Four-Russians
      regime) *)
Definition trsm_lower_left_rec_f (c : cfg) (kk cutoff : nat) (L B : mat) : mat :=
  ll_rec trsm_lower_left (trsm_lower_left_russian kk) addmul_spec (blocksize c) cutoff (nr B) L B.
Definition trsm_upper_left_rec_f (c : cfg) (kk cutoff : nat) (U B : mat) : mat :=
  ul_rec trsm_upper_left (trsm_upper_left_russian kk) addmul_spec (blocksize c) cutoff (nr B) U B.
Definition trsm_upper_right_rec_f (c : cfg) (cutoff : nat) (U B : mat) : mat :=
  ur_rec trsm_upper_right_base ur_middle addmul_spec (blocksize c) cutoff (nc B) U B.
Definition trsm_lower_right_rec_f (c : cfg) (cutoff : nat) (L B : mat) : mat :=
  lr_rec trsm_lower_right_base addmul_spec cutoff (nc B) L B.

(** mzd_trtri_upper over these solvers (cutoff 0, as in triangular.c:536-537); the 4-table
    Four-Russians base routine mzd_trtri_upper_russian stays the substitution model *)
Definition trtri_upper_rec_f (c : cfg) (kk : nat) (U : mat) : option mat :=
  trtri_rec trtri_upper_simple (trsm_upper_left_rec_f c kk 0) (trsm_upper_right_rec_f c 0) c (nr U) U.
