(* Alg/TrtriRussianClosed.v — C05: the recursive triangular inversion mzd_trtri_upper with its REAL base
   routine.  In Alg/TRSM.v / Alg/TRSMRec.v the base routine mzd_trtri_upper_russian is instantiated
   with the substitution model [trtri_upper_simple]; Alg/TrtriRussian.v models the routine itself
   ([trtri_upper_russian kt], four Gray-code tables per block of 4*kt rows) and
   Alg/TrtriRussianProofs4.v proves it equal to [trtri_upper_simple] for 1 <= kt <= 16.  Hence:

     [trtri_rec_base_ext]          trtri_rec only ever calls its base routine on well-formed square blocks
                                   with ones on the stored diagonal: two base routines agreeing there give
                                   the same result (Some or None) of the whole recursion
     [trtri_upper_rec_r_eq]        trtri_upper_rec_r c kt U  = trtri_upper_rec c U
     [trtri_upper_rec_fr_eq]       trtri_upper_rec_fr c kt kk U = trtri_upper_rec_f c kk U
     [trtri_upper_rec_fr_simple]   ... = Some V  ->  V = trtri_upper_simple U
     [trtri_fr_spec]               the specification of C05 for the model without any abstraction left
                                   between mzd_trtri_upper and the row operations
     [trtri_upper_rec_fr_total]    no misbehaviour in a sane configuration

   kt: the C code calls mzd_trtri_upper_russian(U, 0) (triangular.c:520), i.e. the automatic choice
   (m4ri_opt_k, clamped to 7, minus one when the tables would not fit the L3 cache): a value in 1..7.
   The theorems hold for every kt in 1..16 = every kt the routine can work with (4*kt <= m4ri_radix). *)
From Coq Require Import List NArith Arith Lia Bool.
From M4 Require Import Base.Bits Lin.Mat Lin.MatAlg Lin.Ops Lin.OpsProofs Lin.Spec Lin.Tri
  Alg.TRSM Alg.TRSMProofs Alg.TRSMRec Alg.TRSMRecProofs Alg.InvProofs
  Alg.TrtriRussian Alg.TrtriRussianProofs Alg.TrtriRussianProofs4.
Import ListNotations.
Local Open Scope nat_scope.

(** the base routine meets the specification the generic recursion theorem asks for *)
Lemma trtri_russian_base_ok kt : 1 <= kt <= 16 ->
  forall U n, wf U -> nr U = n -> nc U = n -> diag_ones n U -> trtri_ok n U (trtri_upper_russian kt U).
Proof. intros Hk U n HU Hr Hc Hd. now apply C05_trtri_russian_ok. Qed.

(** * the recursion does not distinguish base routines that agree on legal blocks *)
Section BaseExt.
  Variables (tb1 tb2 : mat -> mat) (ul ur : mat -> mat -> mat) (c : cfg).
  Hypothesis Hext : forall U n, wf U -> nr U = n -> nc U = n -> diag_ones n U -> tb1 U = tb2 U.

  Theorem trtri_rec_base_ext : forall fuel U n, wf U -> nr U = n -> nc U = n -> diag_ones n U ->
    trtri_rec tb1 ul ur c fuel U = trtri_rec tb2 ul ur c fuel U.
  Proof.
    induction fuel as [|f IH]; intros U n HU Hr Hc Hd; cbn [trtri_rec]; [reflexivity|].
    destruct (N.of_nat (nr U) * N.of_nat (nc U) <? trtri_cut c)%N.
    - f_equal. now apply (Hext U n).
    - rewrite Hr. set (n2 := trtri_split c n).
      destruct (Nat.eqb_spec n2 0) as [H0|H0]; cbn [orb]; [reflexivity|].
      destruct (Nat.leb_spec n n2) as [H1|H1]; [reflexivity|].
      pose proof (wf_len U HU) as HlU.
      rewrite (IH (msub U 0 0 n2 n2) n2); auto; try (cbn [nr nc msub]; lia).
      + rewrite (IH (msub U n2 n2 (n - n2) (n - n2)) (n - n2)); auto; try (cbn [nr nc msub]; lia).
        * apply wf_msub. lia.
        * apply (diag_ones_msub n); auto; lia.
      + apply wf_msub. lia.
      + apply (diag_ones_msub n); auto; lia.
  Qed.
End BaseExt.

(** * mzd_trtri_upper over the Four-Russians base routine *)
Theorem trtri_upper_rec_r_eq c kt U : 1 <= kt <= 16 -> wf U -> nr U = nc U -> diag_ones (nr U) U ->
  trtri_upper_rec_r c kt U = trtri_upper_rec c U.
Proof.
  intros Hk HU Hsq Hd. unfold trtri_upper_rec_r, trtri_upper_rec.
  apply (trtri_rec_base_ext _ _ _ _ c) with (n := nr U); auto.
  intros U' n HU' Hr Hc Hd'. now apply (C05_trtri_russian_simple kt n).
Qed.

Theorem trtri_upper_rec_fr_eq c kt kk U : 1 <= kt <= 16 -> wf U -> nr U = nc U -> diag_ones (nr U) U ->
  trtri_upper_rec_fr c kt kk U = trtri_upper_rec_f c kk U.
Proof.
  intros Hk HU Hsq Hd. unfold trtri_upper_rec_fr, trtri_upper_rec_f.
  apply (trtri_rec_base_ext _ _ _ _ c) with (n := nr U); auto.
  intros U' n HU' Hr Hc Hd'. now apply (C05_trtri_russian_simple kt n).
Qed.

(** directly from the generic recursion theorem [C05_trtri_generic] = [trtri_rec_ok] *)
Theorem trtri_upper_rec_fr_ok c kt kk U V : 1 <= kt <= 16 -> 1 <= kk ->
  wf U -> nr U = nc U -> diag_ones (nr U) U ->
  trtri_upper_rec_fr c kt kk U = Some V -> trtri_ok (nr U) U V.
Proof.
  intros Hk Hkk HU Hsq Hd E. unfold trtri_upper_rec_fr in E.
  apply (trtri_rec_ok (trtri_upper_russian kt) (trsm_upper_left_rec_f c kk 0) (trsm_upper_right_rec_f c 0) c
           (trtri_russian_base_ok kt Hk)) with (fuel := nr U) (n := nr U) in E; auto.
  - intros U' B HB HL. rewrite trsm_upper_left_rec_f_spec by assumption. now apply trsm_upper_left_spec.
  - intros U' B HB HL HD. rewrite trsm_upper_right_rec_f_spec by assumption. now apply trsm_upper_right_spec.
Qed.

Theorem trtri_upper_rec_fr_simple c kt kk U V : 1 <= kt <= 16 -> 1 <= kk ->
  wf U -> nr U = nc U -> diag_ones (nr U) U ->
  trtri_upper_rec_fr c kt kk U = Some V -> V = trtri_upper_simple U.
Proof.
  intros Hk Hkk HU Hsq Hd E. apply (trtri_ok_unique (nr U) U).
  - now apply (trtri_upper_rec_fr_ok c kt kk).
  - apply trtri_upper_simple_ok; auto.
Qed.

Theorem trtri_upper_rec_r_simple c kt U V : 1 <= kt <= 16 ->
  wf U -> nr U = nc U -> diag_ones (nr U) U ->
  trtri_upper_rec_r c kt U = Some V -> V = trtri_upper_simple U.
Proof.
  intros Hk HU Hsq Hd E. rewrite trtri_upper_rec_r_eq in E by assumption.
  now apply (trtri_upper_rec_simple c).
Qed.

(** C05, triangular part, for the model with the real base routine and the real solvers: U is a
    storage matrix with ones on the diagonal and ARBITRARY content below it *)
Theorem trtri_fr_spec c kt kk U V : 1 <= kt <= 16 -> 1 <= kk ->
  wf U -> nr U = nc U -> diag_ones (nr U) U -> trtri_upper_rec_fr c kt kk U = Some V ->
  let n := nr U in
  wf V /\ nr V = n /\ nc V = n /\ (forall i j, j <= i -> get V i j = get U i j) /\
  mmul (unit_upper n U) (unit_upper n V) = mid n /\ mmul (unit_upper n V) (unit_upper n U) = mid n.
Proof.
  intros Hk Hkk HU Hsq Hd E n.
  pose proof (trtri_upper_rec_fr_ok c kt kk U V Hk Hkk HU Hsq Hd E) as Hok. fold n in Hok.
  destruct (trtri_ok_products n U V Hok) as [H1 H2]. destruct Hok as (Hw & Hr & Hc & Hl & _). auto 10.
Qed.

(** ... and on a genuine unit upper triangular matrix *)
Theorem trtri_fr_spec_unit c kt kk n U V : 1 <= kt <= 16 -> 1 <= kk ->
  is_unit_upper n U -> trtri_upper_rec_fr c kt kk U = Some V ->
  is_unit_upper n V /\ mmul U V = mid n /\ mmul V U = mid n.
Proof.
  intros Hk Hkk HU E. pose proof HU as (HwU & HrU & HcU & HdU & _).
  assert (Hd : diag_ones (nr U) U) by (intros i Hi; apply HdU; lia).
  apply trtri_ok_unit; [assumption|]. rewrite <- HrU.
  apply (trtri_upper_rec_fr_ok c kt kk); auto. congruence.
Qed.

Theorem trtri_upper_rec_fr_total c kt kk U : trtri_cfg_ok c -> nr U = nc U ->
  exists V, trtri_upper_rec_fr c kt kk U = Some V.
Proof.
  intros Hc Hsq. unfold trtri_upper_rec_fr. apply (trtri_rec_some _ _ _ c Hc (nr U) U (nr U)); auto.
Qed.

(** * Non-vacuity: the hypotheses are satisfiable, the models run *)
Definition prand7 (bits : nat) (i : nat) : N :=
  N.land (N.shiftr (((N.of_nat i + 29) * 11400714819323198485) ^ 5) 9) (N.ones (N.of_nat bits)).
(** 150 x 150 storage with unit diagonal and pseudo-random bits everywhere else (garbage below the
    diagonal included) *)
Definition U150 : mat := mk 150 150 (map (fun i => N.lor (prand7 150 i) (2 ^ N.of_nat i)) (seq 0 150)).
(** SSE2 build with 2*L3 = 20000: one level of recursion, split 128, blocks 128 and 22 *)
Definition c_150 : cfg := mkcfg 64 20000 true.

Example trtri_russian_hyps : wf U150 /\ nr U150 = 150 /\ nc U150 = 150 /\ diag_ones 150 U150 /\
  get U150 100 2 = true /\ trtri_cfg_ok c_150.
Proof.
  split; [apply wfb_spec; vm_compute; reflexivity|]. split; [reflexivity|]. split; [reflexivity|].
  split; [|split; [vm_compute; reflexivity|reflexivity]].
  intros i Hi. assert (E : forallb (fun i => get U150 i i) (seq 0 150) = true) by (vm_compute; reflexivity).
  rewrite forallb_forall in E. apply E. apply in_seq. lia.
Qed.

(** the base routine alone: main loop (blocks of 4*kt rows) and tail, several kt *)
Example trtri_russian_run :
  trtri_upper_russian 1 U150 = trtri_upper_simple U150 /\
  trtri_upper_russian 3 U150 = trtri_upper_simple U150 /\
  trtri_upper_russian 8 U150 = trtri_upper_simple U150 /\
  trtri_upper_simple U150 <> U150.
Proof.
  split; [vm_compute; reflexivity|]. split; [vm_compute; reflexivity|]. split; [vm_compute; reflexivity|].
  intros E. apply (f_equal (fun M => get M 0 4)) in E. vm_compute in E. discriminate.
Qed.

(** the recursion over it *)
Example trtri_russian_rec_run :
  trtri_upper_rec_fr c_150 4 3 U150 = Some (trtri_upper_simple U150) /\
  trtri_upper_rec_r c_150 2 U150 = Some (trtri_upper_simple U150).
Proof. split; vm_compute; reflexivity. Qed.
