(* Alg/TRSMRecProofs.v — C04: the recursive / regime-switching models of the four triangular
   solves (Alg/TRSM.v section 2, mirroring m4ri/triangular.c) return the same matrix as the simple
   substitution models, for EVERY configuration (middle-regime threshold), every Strassen cutoff
   and every input; hence (Alg/TRSMProofs.v) they return the unique solution of T X = B resp.
   X T = B, and only the named triangle of T matters.

   Structure.  Section [Generic*]: the recursion itself (triangular.c:61-111, 312-359, 406-451,
   467-516), proven for ARBITRARY base-case and middle-regime routines that meet the
   specification [solves_*] and an arbitrary [addmul] computing C + A*B (property C01).
   Then the instances used by the extracted models.

   What is abstracted: in Alg/TRSM.v the word base case of all four variants and the
   Four-Russians middle regime of the two LEFT variants (triangular_russian.c:50, :206) are
   instantiated with the simple substitution model; the generic theorems below say precisely
   that any routine meeting [solves_ll]/[solves_ul] may be plugged in instead.  The middle regime
   of upper_right (extract_u, trtri, mul; triangular.c:52-59) is modelled and proven ([ur_middle_solves]);
   it is the only place where the stored DIAGONAL of the triangular operand is read. *)
From Coq Require Import List NArith Arith Lia Bool.
From M4 Require Import Base.Bits Lin.Mat Lin.MatAlg Lin.Ops Lin.OpsProofs Lin.Spec Lin.Tri
  Alg.Gray Alg.GrayProofs Alg.Gauss Alg.TRSM Alg.TRSMProofs Alg.TRSMRec.
Import ListNotations.
Local Open Scope nat_scope.

(** the stored diagonal of the leading n x n block holds ones *)
Definition diag_ones (n : nat) (T : mat) : Prop := forall i, i < n -> get T i i = true.

Lemma diag_ones_msub n T r0 k : r0 + k <= length (rows T) -> r0 + k <= n -> diag_ones n T ->
  diag_ones k (msub T r0 r0 k k).
Proof.
  intros Hl Hn Hd i Hi. rewrite get_msub by assumption.
  destruct (Nat.ltb_spec i k); [|lia]. cbn [andb]. apply Hd. lia.
Qed.

(** a matrix without rows solves everything *)
Lemma solves_ll_empty L B : wf B -> nr B = 0 -> solves_ll L B B.
Proof.
  intros HB H0. refine (conj HB (conj eq_refl (conj eq_refl _))).
  rewrite H0. rewrite (mat_nr0 B HB H0). reflexivity.
Qed.

Lemma solves_ul_empty U B : wf B -> nr B = 0 -> solves_ul U B B.
Proof.
  intros HB H0. refine (conj HB (conj eq_refl (conj eq_refl _))).
  rewrite H0. rewrite (mat_nr0 B HB H0). reflexivity.
Qed.

Lemma mmul_nc0 X T : wf X -> nc X = 0 -> nr T = 0 -> nc T = 0 -> wf T -> mmul X T = X.
Proof.
  intros HX H0 Hr Hc HT. apply mat_ext; auto with wf; try (cbn [nr nc mmul]; congruence).
  intros i j _ Hj. cbn [nc mmul] in Hj. lia.
Qed.

Lemma solves_ur_empty U B : wf B -> nc B = 0 -> solves_ur U B B.
Proof.
  intros HB H0. refine (conj HB (conj eq_refl (conj eq_refl _))).
  rewrite H0. apply mmul_nc0; auto with wf.
Qed.

Lemma solves_lr_empty L B : wf B -> nc B = 0 -> solves_lr L B B.
Proof.
  intros HB H0. refine (conj HB (conj eq_refl (conj eq_refl _))).
  rewrite H0. apply mmul_nc0; auto with wf.
Qed.

(** * 1. The recursions, for arbitrary sub-routines meeting the specification *)
Section GenericLL.
  Variables (base middle : mat -> mat -> mat) (addmul : nat -> mat -> mat -> mat -> mat).
  Variables (bsz cutoff : nat).
  Hypothesis addmul_ok : forall C A B, addmul cutoff C A B = madd C (mmul A B).
  Hypothesis base_ok : forall L B, wf B -> nr B <= length (rows L) -> nr B <= radix ->
    solves_ll L B (base L B).
  Hypothesis middle_ok : forall L B, wf B -> nr B <= length (rows L) -> radix < nr B <= bsz ->
    solves_ll L B (middle L B).

  Theorem ll_rec_solves : forall fuel L B, nr B <= fuel -> wf B -> nr B <= length (rows L) ->
    solves_ll L B (ll_rec base middle addmul bsz cutoff fuel L B).
  Proof.
    induction fuel as [|f IH]; intros L B Hf HB HL; cbn [ll_rec].
    - apply solves_ll_empty; [assumption|lia].
    - destruct (Nat.leb_spec (nr B) radix) as [H1|H1]; [now apply base_ok|].
      destruct (Nat.leb_spec (nr B) bsz) as [H2|H2]; [apply middle_ok; auto; lia|].
      pose proof (split_bounds (nr B) H1) as Hs. set (mb1 := split (nr B)) in *.
      pose proof (wf_len B HB) as HlB.
      apply (ll_compose L B mb1 (nr B - mb1)); auto; try lia.
      + apply IH; cbn [nr msub]; [lia|apply wf_msub; lia|rewrite len_msub; lia].
      + rewrite addmul_ok. apply IH; cbn [nr msub madd]; [lia| |rewrite len_msub; lia].
        assert (HX0 : solves_ll (msub L 0 0 mb1 mb1) (msub B 0 0 mb1 (nc B))
                        (ll_rec base middle addmul bsz cutoff f (msub L 0 0 mb1 mb1) (msub B 0 0 mb1 (nc B)))).
        { apply IH; cbn [nr msub]; [lia|apply wf_msub; lia|rewrite len_msub; lia]. }
        destruct HX0 as (Hw0 & Hr0 & Hc0 & _). cbn [nr nc msub] in Hr0, Hc0.
        apply wf_madd; [apply wf_msub; lia|apply wf_mmul; [apply wf_msub; lia|assumption]|reflexivity|].
        cbn [nc msub mmul]. congruence.
  Qed.
End GenericLL.

Section GenericUL.
  Variables (base middle : mat -> mat -> mat) (addmul : nat -> mat -> mat -> mat -> mat).
  Variables (bsz cutoff : nat).
  Hypothesis addmul_ok : forall C A B, addmul cutoff C A B = madd C (mmul A B).
  Hypothesis base_ok : forall U B, wf B -> nr B <= length (rows U) -> nr B <= radix ->
    solves_ul U B (base U B).
  Hypothesis middle_ok : forall U B, wf B -> nr B <= length (rows U) -> radix < nr B <= bsz ->
    solves_ul U B (middle U B).

  Theorem ul_rec_solves : forall fuel U B, nr B <= fuel -> wf B -> nr B <= length (rows U) ->
    solves_ul U B (ul_rec base middle addmul bsz cutoff fuel U B).
  Proof.
    induction fuel as [|f IH]; intros U B Hf HB HL; cbn [ul_rec].
    - apply solves_ul_empty; [assumption|lia].
    - destruct (Nat.leb_spec (nr B) radix) as [H1|H1]; [now apply base_ok|].
      destruct (Nat.leb_spec (nr B) bsz) as [H2|H2]; [apply middle_ok; auto; lia|].
      pose proof (split_bounds (nr B) H1) as Hs. set (mb1 := split (nr B)) in *.
      pose proof (wf_len B HB) as HlB.
      apply (ul_compose U B mb1 (nr B - mb1)); auto; try lia.
      + apply IH; cbn [nr msub]; [lia|apply wf_msub; lia|rewrite len_msub; lia].
      + rewrite addmul_ok. apply IH; cbn [nr msub madd]; [lia| |rewrite len_msub; lia].
        assert (HX1 : solves_ul (msub U mb1 mb1 (nr B - mb1) (nr B - mb1)) (msub B mb1 0 (nr B - mb1) (nc B))
                        (ul_rec base middle addmul bsz cutoff f (msub U mb1 mb1 (nr B - mb1) (nr B - mb1))
                                (msub B mb1 0 (nr B - mb1) (nc B)))).
        { apply IH; cbn [nr msub]; [lia|apply wf_msub; lia|rewrite len_msub; lia]. }
        destruct HX1 as (Hw1 & Hr1 & Hc1 & _). cbn [nr nc msub] in Hr1, Hc1.
        apply wf_madd; [apply wf_msub; lia|apply wf_mmul; [apply wf_msub; lia|assumption]|reflexivity|].
        cbn [nc msub mmul]. congruence.
  Qed.
End GenericUL.

Section GenericUR.
  Variables (base middle : mat -> mat -> mat) (addmul : nat -> mat -> mat -> mat -> mat).
  Variables (bsz cutoff : nat).
  Hypothesis addmul_ok : forall C A B, addmul cutoff C A B = madd C (mmul A B).
  (** the sub-routines may rely on the stored diagonal being one (the trtri middle regime does) *)
  Hypothesis base_ok : forall U B, wf B -> nc B <= length (rows U) -> diag_ones (nc B) U ->
    nc B <= radix -> solves_ur U B (base U B).
  Hypothesis middle_ok : forall U B, wf B -> nc B <= length (rows U) -> diag_ones (nc B) U ->
    radix < nc B <= bsz -> solves_ur U B (middle U B).

  Theorem ur_rec_solves : forall fuel U B, nc B <= fuel -> wf B -> nc B <= length (rows U) ->
    diag_ones (nc B) U -> solves_ur U B (ur_rec base middle addmul bsz cutoff fuel U B).
  Proof.
    induction fuel as [|f IH]; intros U B Hf HB HL HD; cbn [ur_rec].
    - apply solves_ur_empty; [assumption|lia].
    - destruct (Nat.leb_spec (nc B) radix) as [H1|H1]; [now apply base_ok|].
      destruct (Nat.leb_spec (nc B) bsz) as [H2|H2]; [apply middle_ok; auto; lia|].
      pose proof (split_bounds (nc B) H1) as Hs. set (nb1 := split (nc B)) in *.
      pose proof (wf_len B HB) as HlB.
      assert (HX0 : solves_ur (msub U 0 0 nb1 nb1) (msub B 0 0 (nr B) nb1)
                      (ur_rec base middle addmul bsz cutoff f (msub U 0 0 nb1 nb1) (msub B 0 0 (nr B) nb1))).
      { apply IH; cbn [nr nc msub]; [lia|apply wf_msub; lia|rewrite len_msub; lia|].
        apply (diag_ones_msub (nc B)); auto; lia. }
      apply (ur_compose U B nb1 (nc B - nb1)); auto; try lia.
      rewrite addmul_ok. apply IH; cbn [nr nc msub madd]; [lia| |rewrite len_msub; lia|].
      + destruct HX0 as (Hw0 & Hr0 & Hc0 & _). cbn [nr nc msub] in Hr0, Hc0.
        apply wf_madd; [apply wf_msub; lia|apply wf_mmul; [assumption|apply wf_msub; lia]| |reflexivity].
        cbn [nr msub mmul]. congruence.
      + apply (diag_ones_msub (nc B)); auto; lia.
  Qed.
End GenericUR.

Section GenericLR.
  Variables (base : mat -> mat -> mat) (addmul : nat -> mat -> mat -> mat -> mat).
  Variable cutoff : nat.
  Hypothesis addmul_ok : forall C A B, addmul cutoff C A B = madd C (mmul A B).
  Hypothesis base_ok : forall L B, wf B -> nc B <= length (rows L) -> nc B <= radix ->
    solves_lr L B (base L B).

  Theorem lr_rec_solves : forall fuel L B, nc B <= fuel -> wf B -> nc B <= length (rows L) ->
    solves_lr L B (lr_rec base addmul cutoff fuel L B).
  Proof.
    induction fuel as [|f IH]; intros L B Hf HB HL; cbn [lr_rec].
    - apply solves_lr_empty; [assumption|lia].
    - destruct (Nat.leb_spec (nc B) radix) as [H1|H1]; [now apply base_ok|].
      pose proof (split_bounds (nc B) H1) as Hs. set (nb1 := split (nc B)) in *.
      pose proof (wf_len B HB) as HlB.
      assert (HX1 : solves_lr (msub L nb1 nb1 (nc B - nb1) (nc B - nb1)) (msub B 0 nb1 (nr B) (nc B - nb1))
                      (lr_rec base addmul cutoff f (msub L nb1 nb1 (nc B - nb1) (nc B - nb1))
                              (msub B 0 nb1 (nr B) (nc B - nb1)))).
      { apply IH; cbn [nr nc msub]; [lia|apply wf_msub; lia|rewrite len_msub; lia]. }
      apply (lr_compose L B nb1 (nc B - nb1)); auto; try lia.
      rewrite addmul_ok. apply IH; cbn [nr nc msub madd]; [lia| |rewrite len_msub; lia].
      destruct HX1 as (Hw1 & Hr1 & Hc1 & _). cbn [nr nc msub] in Hr1, Hc1.
      apply wf_madd; [apply wf_msub; lia|apply wf_mmul; [assumption|apply wf_msub; lia]| |reflexivity].
      cbn [nr msub mmul]. congruence.
  Qed.
End GenericLR.

(** * 2. Simple triangular inversion ([trtri_upper_simple]) *)
Lemma get_tri_merge_upper U V i j :
  get (tri_merge_upper U V) i j = (i <? nr U) && (if j <=? i then get U i j else get V i j).
Proof.
  unfold get at 1, tri_merge_upper. destruct (Nat.ltb_spec i (nr U)) as [Hi|Hi]; cbn [andb].
  - rewrite row_mk_map by assumption. rewrite N.lor_spec, testbit_land_ones, testbit_ldiff_ones.
    unfold get. destruct (Nat.leb_spec j i), (Nat.ltb_spec j (S i)); try lia; cbn [negb].
    + now rewrite andb_true_r, andb_false_r, orb_false_r.
    + now rewrite andb_true_r, andb_false_r.
  - rewrite row_mk_map_out by assumption. apply N.bits_0.
Qed.

Lemma wf_tri_merge_upper U V : wf U -> wf V -> nc V <= nc U -> wf (tri_merge_upper U V).
Proof.
  intros HU HV Hc. unfold tri_merge_upper. apply wf_mk_map. intros i Hi. apply bounded_lor.
  - apply bounded_land_l. now apply wf_row_bounded.
  - apply bounded_ldiff. apply (bounded_mono (nc V)); [assumption|]. now apply wf_row_bounded.
Qed.

(** the inverse of [unit_upper n U], as computed by back substitution against the identity *)
Definition upper_inv (n : nat) (U : mat) : mat := trsm_upper_left U (mid n).

Lemma upper_inv_spec n U : let W := upper_inv n U in
  is_unit_upper n W /\ mmul (unit_upper n U) W = mid n /\ mmul W (unit_upper n U) = mid n.
Proof.
  intros W. split; [apply trsm_upper_left_id_triangular|].
  destruct (upper_two_sided n U) as (_ & _ & _ & H1 & H2). auto.
Qed.

Lemma upper_inv_unique n U X : wf X -> nr X = n -> mmul (unit_upper n U) X = mid n -> X = upper_inv n U.
Proof.
  intros HX Hr E. unfold upper_inv. apply trsm_upper_left_complete; auto with wf.
Qed.

(** specification of in-place triangular inversion: the stored lower triangle and diagonal are
    untouched, the strict upper triangle becomes that of the inverse of [unit_upper n U] *)
Definition trtri_ok (n : nat) (U V : mat) : Prop :=
  wf V /\ nr V = n /\ nc V = n /\ (forall i j, j <= i -> get V i j = get U i j) /\
  unit_upper n V = upper_inv n U.

Theorem trtri_upper_simple_ok n U : wf U -> nr U = n -> nc U = n -> trtri_ok n U (trtri_upper_simple U).
Proof.
  intros HU Hr Hc. unfold trtri_upper_simple. rewrite Hr. fold (upper_inv n U).
  destruct (upper_inv_spec n U) as ((HwW & HrW & HcW & HdW & HzW) & _). set (W := upper_inv n U) in *.
  assert (HwV : wf (tri_merge_upper U W)) by (apply wf_tri_merge_upper; auto; lia).
  refine (conj HwV (conj Hr (conj Hc (conj _ _)))).
  - intros i j Hji. rewrite get_tri_merge_upper. destruct (Nat.leb_spec j i); [|lia].
    destruct (Nat.ltb_spec i (nr U)); [reflexivity|]. symmetry. apply get_out_row; [assumption|lia].
  - apply mat_ext; auto with wf. intros i j Hi Hj. cbn [nr nc unit_upper] in Hi, Hj.
    rewrite get_unit_upper, get_tri_merge_upper, Hr.
    destruct (Nat.ltb_spec i n); [|lia]. destruct (Nat.ltb_spec j n); [|lia]. cbn [andb].
    destruct (Nat.eqb_spec i j) as [->|Hne]; cbn [orb]; [now rewrite HdW|].
    destruct (Nat.ltb_spec i j); cbn [andb].
    + destruct (Nat.leb_spec j i); [lia|reflexivity].
    + symmetry. apply HzW. lia.
Qed.

(** the specification determines the result *)
Lemma trtri_ok_unique n U V V' : trtri_ok n U V -> trtri_ok n U V' -> V = V'.
Proof.
  intros (Hw & Hr & Hc & Hl & Hu) (Hw' & Hr' & Hc' & Hl' & Hu').
  apply mat_ext; auto; try congruence. intros i j Hi Hj. rewrite Hr in Hi. rewrite Hc in Hj.
  destruct (Nat.le_gt_cases j i) as [Hji|Hij]; [now rewrite Hl, Hl'|].
  assert (E : get (unit_upper n V) i j = get (unit_upper n V') i j) by now rewrite Hu, Hu'.
  rewrite !get_unit_upper in E.
  destruct (Nat.ltb_spec i n); [|lia]. destruct (Nat.ltb_spec j n); [|lia].
  destruct (Nat.eqb_spec i j); [lia|]. destruct (Nat.ltb_spec i j); [|lia]. exact E.
Qed.

Corollary trtri_ok_products n U V : trtri_ok n U V ->
  mmul (unit_upper n U) (unit_upper n V) = mid n /\ mmul (unit_upper n V) (unit_upper n U) = mid n.
Proof.
  intros (_ & _ & _ & _ & E). rewrite E. destruct (upper_inv_spec n U) as (_ & H1 & H2). auto.
Qed.

(** on a genuine unit upper triangular matrix: the result is its inverse, again unit upper triangular *)
Corollary trtri_ok_unit n U V : is_unit_upper n U -> trtri_ok n U V ->
  is_unit_upper n V /\ mmul U V = mid n /\ mmul V U = mid n.
Proof.
  intros HU HV. pose proof HU as (HwU & HrU & HcU & HdU & HzU).
  pose proof HV as (Hw & Hr & Hc & Hl & Hu).
  assert (HVu : is_unit_upper n V).
  { refine (conj Hw (conj Hr (conj Hc (conj _ _)))).
    - intros i Hi. rewrite Hl by lia. now apply HdU.
    - intros i j Hji. rewrite Hl by lia. now apply HzU. }
  split; [assumption|]. destruct (trtri_ok_products n U V HV) as [H1 H2].
  now rewrite (is_unit_upper_fix n U HU), (is_unit_upper_fix n V HVu) in H1, H2.
Qed.

(** * 3. The middle regime of upper_right: extract_u, trtri, multiply (triangular.c:52-59) *)
Lemma extract_u_unit n U : n <= length (rows U) -> diag_ones n U ->
  extract_u (msub U 0 0 n n) = unit_upper n U.
Proof.
  intros Hl Hd. assert (HwS : wf (msub U 0 0 n n)) by (apply wf_msub; lia).
  apply mat_ext; auto with wf.
  - now apply wf_extract_u.
  - unfold extract_u. cbn [nr nc msub map_rows unit_upper]. lia.
  - unfold extract_u. cbn [nr nc msub map_rows unit_upper]. lia.
  - intros i j _ _. rewrite get_extract_u by assumption. cbn [nr nc msub]. rewrite Nat.min_id.
    rewrite get_msub, get_unit_upper by lia. cbn [Nat.add].
    destruct (Nat.ltb_spec i n) as [Hi|Hi]; cbn [andb]; [|reflexivity].
    destruct (Nat.ltb_spec j n) as [Hj|Hj]; cbn [andb].
    + destruct (Nat.eqb_spec i j) as [->|Hne]; cbn [orb].
      * rewrite Nat.leb_refl, Hd by assumption. reflexivity.
      * destruct (Nat.leb_spec i j), (Nat.ltb_spec i j); try lia; reflexivity.
    + destruct (Nat.eqb_spec i j); [lia|]. now rewrite andb_false_r.
Qed.

Theorem ur_middle_solves U B : wf B -> nc B <= length (rows U) -> diag_ones (nc B) U ->
  solves_ur U B (ur_middle U B).
Proof.
  intros HB Hl Hd. unfold ur_middle. set (n := nc B) in *.
  rewrite (extract_u_unit n U Hl Hd).
  pose proof (unit_upper_is n U) as HUU.
  pose proof (trtri_upper_simple_ok n (unit_upper n U) (wf_unit_upper n U) eq_refl eq_refl) as Hok.
  destruct (trtri_ok_unit n _ _ HUU Hok) as ((HwV & HrV & HcV & _) & _ & E).
  set (V := trtri_upper_simple (unit_upper n U)) in *.
  refine (conj _ (conj eq_refl (conj _ _))).
  - auto with wf.
  - cbn [nc mmul]. exact HcV.
  - fold n. rewrite mmul_assoc, E. now apply mmul_id_r.
Qed.

(** * 4. The models run against the C library equal the substitution models *)
Lemma addmul_spec_ok cutoff C A B : addmul_spec cutoff C A B = madd C (mmul A B).
Proof. reflexivity. Qed.

Theorem trsm_lower_left_rec_spec c cutoff L B : wf B -> nr B <= length (rows L) ->
  trsm_lower_left_rec c cutoff L B = trsm_lower_left L B.
Proof.
  intros HB HL. unfold trsm_lower_left_rec.
  destruct (ll_rec_solves trsm_lower_left trsm_lower_left addmul_spec (blocksize c) cutoff
              (addmul_spec_ok cutoff)
              (fun L B HB _ _ => trsm_lower_left_spec L B HB)
              (fun L B HB _ _ => trsm_lower_left_spec L B HB)
              (nr B) L B (le_n _) HB HL) as (Hw & Hr & _ & E).
  now apply trsm_lower_left_complete.
Qed.

Theorem trsm_upper_left_rec_spec c cutoff U B : wf B -> nr B <= length (rows U) ->
  trsm_upper_left_rec c cutoff U B = trsm_upper_left U B.
Proof.
  intros HB HL. unfold trsm_upper_left_rec.
  destruct (ul_rec_solves trsm_upper_left trsm_upper_left addmul_spec (blocksize c) cutoff
              (addmul_spec_ok cutoff)
              (fun U B HB _ _ => trsm_upper_left_spec U B HB)
              (fun U B HB _ _ => trsm_upper_left_spec U B HB)
              (nr B) U B (le_n _) HB HL) as (Hw & Hr & _ & E).
  now apply trsm_upper_left_complete.
Qed.

(** upper right: the middle regime (64 < n <= blocksize) inverts extract_u(U), which contains the
    STORED diagonal: the equation needs ones there ([trsm_upper_right_rec_reads_diagonal] below) *)
Theorem trsm_upper_right_rec_spec c cutoff U B : wf B -> nc B <= length (rows U) ->
  diag_ones (nc B) U -> trsm_upper_right_rec c cutoff U B = trsm_upper_right U B.
Proof.
  intros HB HL HD. unfold trsm_upper_right_rec.
  destruct (ur_rec_solves trsm_upper_right ur_middle addmul_spec (blocksize c) cutoff
              (addmul_spec_ok cutoff)
              (fun U B HB _ _ _ => trsm_upper_right_spec U B HB)
              (fun U B HB HL HD _ => ur_middle_solves U B HB HL HD)
              (nc B) U B (le_n _) HB HL HD) as (Hw & _ & Hc & E).
  now apply trsm_upper_right_complete.
Qed.

(** without the middle regime (n <= 64, or blocksize <= 64) the diagonal is never read *)
Theorem trsm_upper_right_rec_spec_nomiddle c cutoff U B : wf B -> nc B <= length (rows U) ->
  (nc B <= radix \/ blocksize c <= radix) -> trsm_upper_right_rec c cutoff U B = trsm_upper_right U B.
Proof.
  intros HB HL Hn. unfold trsm_upper_right_rec.
  assert (H : forall fuel U B, nc B <= fuel -> wf B -> nc B <= length (rows U) ->
            (nc B <= radix \/ blocksize c <= radix) ->
            solves_ur U B (ur_rec trsm_upper_right ur_middle addmul_spec (blocksize c) cutoff fuel U B)).
  { clear. induction fuel as [|f IH]; intros U B Hf HB HL Hn; cbn [ur_rec].
    - apply solves_ur_empty; [assumption|lia].
    - destruct (Nat.leb_spec (nc B) radix) as [H1|H1]; [now apply trsm_upper_right_spec|].
      destruct (Nat.leb_spec (nc B) (blocksize c)) as [H2|H2]; [lia|].
      pose proof (split_bounds (nc B) H1) as Hs. set (nb1 := split (nc B)) in *.
      pose proof (wf_len B HB) as HlB.
      assert (HX0 : solves_ur (msub U 0 0 nb1 nb1) (msub B 0 0 (nr B) nb1)
                (ur_rec trsm_upper_right ur_middle addmul_spec (blocksize c) cutoff f
                        (msub U 0 0 nb1 nb1) (msub B 0 0 (nr B) nb1))).
      { apply IH; cbn [nr nc msub]; [lia|apply wf_msub; lia|rewrite len_msub; lia|lia]. }
      apply (ur_compose U B nb1 (nc B - nb1)); auto; try lia.
      rewrite addmul_spec_ok. apply IH; cbn [nr nc msub madd]; [lia| |rewrite len_msub; lia|lia].
      destruct HX0 as (Hw0 & Hr0 & Hc0 & _). cbn [nr nc msub] in Hr0, Hc0.
      apply wf_madd; [apply wf_msub; lia|apply wf_mmul; [assumption|apply wf_msub; lia]| |reflexivity].
      cbn [nr msub mmul]. congruence. }
  destruct (H (nc B) U B (le_n _) HB HL Hn) as (Hw & _ & Hc & E).
  now apply trsm_upper_right_complete.
Qed.

Theorem trsm_lower_right_rec_spec c cutoff L B : wf B -> nc B <= length (rows L) ->
  trsm_lower_right_rec c cutoff L B = trsm_lower_right L B.
Proof.
  intros HB HL. unfold trsm_lower_right_rec.
  destruct (lr_rec_solves trsm_lower_right addmul_spec cutoff
              (addmul_spec_ok cutoff)
              (fun L B HB _ _ => trsm_lower_right_spec L B HB)
              (nc B) L B (le_n _) HB HL) as (Hw & _ & Hc & E).
  now apply trsm_lower_right_complete.
Qed.

(** * 5. Consequences: equation, uniqueness, only the named triangle is read *)
Theorem trsm_lower_left_rec_correct c cutoff L B : wf B -> nr B <= length (rows L) ->
  let n := nr B in let X := trsm_lower_left_rec c cutoff L B in
  wf X /\ nr X = nr B /\ nc X = nc B /\ mmul (unit_lower n L) X = B /\
  (forall Y, wf Y -> nr Y = n -> mmul (unit_lower n L) Y = B -> Y = X) /\
  (forall L', nr B <= length (rows L') -> (forall i j, j < i -> i < n -> get L i j = get L' i j) ->
     trsm_lower_left_rec c cutoff L' B = X).
Proof.
  intros HB HL n X. unfold X. rewrite trsm_lower_left_rec_spec by assumption.
  destruct (trsm_lower_left_spec L B HB) as (Hw & Hr & Hc & E).
  refine (conj Hw (conj Hr (conj Hc (conj E (conj _ _))))).
  - intros Y HY HrY EY. now apply trsm_lower_left_complete.
  - intros L' HL' Hext. rewrite trsm_lower_left_rec_spec by assumption. symmetry.
    now apply trsm_lower_left_other_triangle_irrelevant.
Qed.

Theorem trsm_upper_left_rec_correct c cutoff U B : wf B -> nr B <= length (rows U) ->
  let n := nr B in let X := trsm_upper_left_rec c cutoff U B in
  wf X /\ nr X = nr B /\ nc X = nc B /\ mmul (unit_upper n U) X = B /\
  (forall Y, wf Y -> nr Y = n -> mmul (unit_upper n U) Y = B -> Y = X) /\
  (forall U', nr B <= length (rows U') -> (forall i j, i < j -> j < n -> get U i j = get U' i j) ->
     trsm_upper_left_rec c cutoff U' B = X).
Proof.
  intros HB HL n X. unfold X. rewrite trsm_upper_left_rec_spec by assumption.
  destruct (trsm_upper_left_spec U B HB) as (Hw & Hr & Hc & E).
  refine (conj Hw (conj Hr (conj Hc (conj E (conj _ _))))).
  - intros Y HY HrY EY. now apply trsm_upper_left_complete.
  - intros U' HL' Hext. rewrite trsm_upper_left_rec_spec by assumption. symmetry.
    now apply trsm_upper_left_other_triangle_irrelevant.
Qed.

Theorem trsm_upper_right_rec_correct c cutoff U B : wf B -> nc B <= length (rows U) ->
  diag_ones (nc B) U ->
  let n := nc B in let X := trsm_upper_right_rec c cutoff U B in
  wf X /\ nr X = nr B /\ nc X = nc B /\ mmul X (unit_upper n U) = B /\
  (forall Y, wf Y -> nc Y = n -> mmul Y (unit_upper n U) = B -> Y = X) /\
  (forall U', nc B <= length (rows U') -> diag_ones n U' ->
     (forall i j, i < j -> j < n -> get U i j = get U' i j) ->
     trsm_upper_right_rec c cutoff U' B = X).
Proof.
  intros HB HL HD n X. unfold X. rewrite trsm_upper_right_rec_spec by assumption.
  destruct (trsm_upper_right_spec U B HB) as (Hw & Hr & Hc & E).
  refine (conj Hw (conj Hr (conj Hc (conj E (conj _ _))))).
  - intros Y HY HcY EY. now apply trsm_upper_right_complete.
  - intros U' HL' HD' Hext. rewrite trsm_upper_right_rec_spec by assumption. symmetry.
    now apply trsm_upper_right_other_triangle_irrelevant.
Qed.

Theorem trsm_lower_right_rec_correct c cutoff L B : wf B -> nc B <= length (rows L) ->
  let n := nc B in let X := trsm_lower_right_rec c cutoff L B in
  wf X /\ nr X = nr B /\ nc X = nc B /\ mmul X (unit_lower n L) = B /\
  (forall Y, wf Y -> nc Y = n -> mmul Y (unit_lower n L) = B -> Y = X) /\
  (forall L', nc B <= length (rows L') -> (forall i j, j < i -> i < n -> get L i j = get L' i j) ->
     trsm_lower_right_rec c cutoff L' B = X).
Proof.
  intros HB HL n X. unfold X. rewrite trsm_lower_right_rec_spec by assumption.
  destruct (trsm_lower_right_spec L B HB) as (Hw & Hr & Hc & E).
  refine (conj Hw (conj Hr (conj Hc (conj E (conj _ _))))).
  - intros Y HY HcY EY. now apply trsm_lower_right_complete.
  - intros L' HL' Hext. rewrite trsm_lower_right_rec_spec by assumption. symmetry.
    now apply trsm_lower_right_other_triangle_irrelevant.
Qed.

(** The diagonal hypothesis of the upper-right variant cannot be dropped: for 64 < n <= blocksize the
    model (like mzd_trsm_upper_right, checked against the library: n = 65, 100, 200 with a zeroed
    diagonal give a different X than with a unit diagonal, the other three variants do not care)
    multiplies by the inverse of extract_u(U), which contains the stored diagonal. *)
Lemma trsm_upper_right_rec_reads_diagonal :
  exists c U B, wf U /\ wf B /\ nr U = nc U /\ nr U = nc B /\
    trsm_upper_right_rec c 0 U B <> trsm_upper_right U B.
Proof.
  exists (mkcfg 2048 8388608 false), (mzero 65 65), (mk 1 65 [1%N]).
  split; [apply wf_mzero|]. split; [apply wfb_spec; vm_compute; reflexivity|].
  split; [reflexivity|]. split; [reflexivity|].
  intros H. apply (f_equal rows) in H. vm_compute in H. discriminate.
Qed.

(** * 6. The public wrappers (mzd_trsm_*, triangular.c:41-50, 301-310, 396-404, 457-465) die unless
    T is square and its dimension matches B; under these checks the storage condition holds. *)
Lemma wrapper_dims_left T B : wf T -> nr T = nc T -> nc T = nr B -> nr B <= length (rows T).
Proof. intros HT H1 H2. rewrite (wf_len T HT). lia. Qed.

Lemma wrapper_dims_right T B : wf T -> nr T = nc T -> nr T = nc B -> nc B <= length (rows T).
Proof. intros HT H1 H2. rewrite (wf_len T HT). lia. Qed.

Corollary mzd_trsm_lower_left_correct c cutoff L B : wf L -> wf B -> nr L = nc L -> nc L = nr B ->
  let X := trsm_lower_left_rec c cutoff L B in
  wf X /\ nr X = nr B /\ nc X = nc B /\ mmul (unit_lower (nr L) L) X = B /\
  (forall Y, wf Y -> nr Y = nr L -> mmul (unit_lower (nr L) L) Y = B -> Y = X).
Proof.
  intros HL HB H1 H2 X.
  destruct (trsm_lower_left_rec_correct c cutoff L B HB (wrapper_dims_left L B HL H1 H2)) as (a & b & d & e & f & _).
  replace (nr L) with (nr B) by lia. auto.
Qed.

Corollary mzd_trsm_upper_left_correct c cutoff U B : wf U -> wf B -> nr U = nc U -> nc U = nr B ->
  let X := trsm_upper_left_rec c cutoff U B in
  wf X /\ nr X = nr B /\ nc X = nc B /\ mmul (unit_upper (nr U) U) X = B /\
  (forall Y, wf Y -> nr Y = nr U -> mmul (unit_upper (nr U) U) Y = B -> Y = X).
Proof.
  intros HU HB H1 H2 X.
  destruct (trsm_upper_left_rec_correct c cutoff U B HB (wrapper_dims_left U B HU H1 H2)) as (a & b & d & e & f & _).
  replace (nr U) with (nr B) by lia. auto.
Qed.

Corollary mzd_trsm_upper_right_correct c cutoff U B : wf U -> wf B -> nr U = nc U -> nr U = nc B ->
  diag_ones (nr U) U ->
  let X := trsm_upper_right_rec c cutoff U B in
  wf X /\ nr X = nr B /\ nc X = nc B /\ mmul X (unit_upper (nr U) U) = B /\
  (forall Y, wf Y -> nc Y = nr U -> mmul Y (unit_upper (nr U) U) = B -> Y = X).
Proof.
  intros HU HB H1 H2 HD X. pose proof (wrapper_dims_right U B HU H1 H2) as Hl. rewrite H2 in *.
  destruct (trsm_upper_right_rec_correct c cutoff U B HB Hl HD) as (a & b & d & e & f & _). auto.
Qed.

Corollary mzd_trsm_lower_right_correct c cutoff L B : wf L -> wf B -> nr L = nc L -> nr L = nc B ->
  let X := trsm_lower_right_rec c cutoff L B in
  wf X /\ nr X = nr B /\ nc X = nc B /\ mmul X (unit_lower (nr L) L) = B /\
  (forall Y, wf Y -> nc Y = nr L -> mmul Y (unit_lower (nr L) L) = B -> Y = X).
Proof.
  intros HL HB H1 H2 X. pose proof (wrapper_dims_right L B HL H1 H2) as Hl. rewrite H2 in *.
  destruct (trsm_lower_right_rec_correct c cutoff L B HB Hl) as (a & b & d & e & f & _). auto.
Qed.

(** * 7. The word base cases of the right variants as the C code computes them (Alg/TRSMRec.v):
      64 dot products at a time, column by column *)
Lemma parity64_land x c :
  parity64 (N.land x c) = xsum 64 (fun k => N.testbit x (N.of_nat k) && N.testbit c (N.of_nat k)).
Proof. unfold parity64. apply xsum_ext. intros k _. apply N.land_spec. Qed.

Lemma testbit_dot_flip c i x j :
  N.testbit (dot_flip c i x) (N.of_nat j) =
  xorb (N.testbit x (N.of_nat j))
       ((i =? j) && xsum 64 (fun k => N.testbit x (N.of_nat k) && N.testbit c (N.of_nat k))).
Proof.
  unfold dot_flip. rewrite parity64_land.
  destruct (xsum 64 _); [|now rewrite andb_false_r, xorb_false_r].
  now rewrite N.lxor_spec, testbit_pow2_nat, andb_true_r.
Qed.

(** ascending columns, each ucol living strictly below its column *)
Lemma dot_asc (c : nat -> N) : (forall i k, N.testbit (c i) (N.of_nat k) = true -> k < i) ->
  forall len s x0, let x := fold_left (fun x i => dot_flip (c i) i x) (seq s len) x0 in
  forall j, N.testbit x (N.of_nat j) =
    if (s <=? j) && (j <? s + len)
    then xorb (N.testbit x0 (N.of_nat j))
              (xsum 64 (fun k => N.testbit x (N.of_nat k) && N.testbit (c j) (N.of_nat k)))
    else N.testbit x0 (N.of_nat j).
Proof.
  intros Hc. induction len as [|len IH]; intros s x0 x j.
  - unfold x. cbn [seq fold_left]. destruct (Nat.leb_spec s j), (Nat.ltb_spec j (s + 0)); try lia; reflexivity.
  - unfold x. cbn [seq fold_left]. set (y := dot_flip (c s) s x0).
    specialize (IH (S s) y). cbn zeta in IH.
    set (x' := fold_left (fun x i => dot_flip (c i) i x) (seq (S s) len) y) in *.
    assert (Hlow : forall k, k < s -> N.testbit x' (N.of_nat k) = N.testbit x0 (N.of_nat k)).
    { intros k Hk. rewrite IH. destruct (Nat.leb_spec (S s) k); [lia|]. cbn [andb].
      unfold y. rewrite testbit_dot_flip. destruct (Nat.eqb_spec s k); [lia|]. now rewrite xorb_false_r. }
    rewrite IH. unfold y at 1 2. rewrite testbit_dot_flip.
    destruct (Nat.leb_spec (S s) j), (Nat.ltb_spec j (S s + len)), (Nat.leb_spec s j), (Nat.ltb_spec j (s + S len)),
      (Nat.eqb_spec s j); try lia; cbn [andb]; rewrite ?xorb_false_r; try reflexivity.
    subst j. f_equal. apply xsum_ext. intros k _.
    destruct (N.testbit (c s) (N.of_nat k)) eqn:E; [|now rewrite !andb_false_r].
    apply Hc in E. now rewrite Hlow.
Qed.

(** descending columns, each ucol living strictly above its column *)
Lemma dot_desc (c : nat -> N) : (forall i k, N.testbit (c i) (N.of_nat k) = true -> i < k) ->
  forall n x0, let x := fold_left (fun x i => dot_flip (c i) i x) (rev (seq 0 n)) x0 in
  forall j, N.testbit x (N.of_nat j) =
    if j <? n
    then xorb (N.testbit x0 (N.of_nat j))
              (xsum 64 (fun k => N.testbit x (N.of_nat k) && N.testbit (c j) (N.of_nat k)))
    else N.testbit x0 (N.of_nat j).
Proof.
  intros Hc. induction n as [|n IH]; intros x0 x j.
  - reflexivity.
  - unfold x. rewrite seq_S, rev_app_distr. cbn [rev app fold_left Nat.add]. set (y := dot_flip (c n) n x0).
    specialize (IH y). cbn zeta in IH.
    set (x' := fold_left (fun x i => dot_flip (c i) i x) (rev (seq 0 n)) y) in *.
    assert (Hhigh : forall k, n < k -> N.testbit x' (N.of_nat k) = N.testbit x0 (N.of_nat k)).
    { intros k Hk. rewrite IH. destruct (Nat.ltb_spec k n); [lia|].
      unfold y. rewrite testbit_dot_flip. destruct (Nat.eqb_spec n k); [lia|]. now rewrite xorb_false_r. }
    rewrite IH. unfold y at 1 2. rewrite testbit_dot_flip.
    destruct (Nat.ltb_spec j n), (Nat.ltb_spec j (S n)), (Nat.eqb_spec n j); try lia; cbn [andb];
      rewrite ?xorb_false_r; try reflexivity.
    subst j. f_equal. apply xsum_ext. intros k _.
    destruct (N.testbit (c n) (N.of_nat k)) eqn:E; [|now rewrite !andb_false_r].
    apply Hc in E. now rewrite Hhigh.
Qed.

Lemma testbit_ur_ucol U i k : N.testbit (ur_ucol U i) (N.of_nat k) = get U k i && (k <? i).
Proof. unfold ur_ucol. rewrite testbit_land_ones, testbit_col. reflexivity. Qed.

Lemma testbit_lr_ucol n L i k :
  N.testbit (lr_ucol n L i) (N.of_nat k) = get L k i && negb (k <? S i) && (k <? n).
Proof. unfold lr_ucol. rewrite testbit_land_ones, testbit_ldiff_ones, testbit_col. reflexivity. Qed.

Lemma ur_row_dot_solves U n b : n <= radix -> bounded n b ->
  bounded n (ur_row_dot U n b) /\ mul_row (ur_row_dot U n b) (rows (unit_upper n U)) = b.
Proof.
  unfold radix. intros Hn Hb.
  pose proof (dot_asc (ur_ucol U)) as H.
  specialize (H ltac:(intros i k E; rewrite testbit_ur_ucol in E; destruct (Nat.ltb_spec k i); [assumption|rewrite andb_false_r in E; discriminate])).
  specialize (H (n - 1) 1 b). cbn zeta in H. fold (ur_row_dot U n b) in H. set (x := ur_row_dot U n b) in *.
  split.
  - intros j Hj. rewrite H. destruct (Nat.leb_spec 1 j), (Nat.ltb_spec j (1 + (n - 1))); try lia; cbn [andb]; now apply Hb.
  - rewrite unit_upper_masks. cbn [rows]. apply solve_row_mul; [|assumption|].
    + intros k j _ E. rewrite testbit_ur_mask in E.
      destruct (Nat.ltb_spec j (S k)), (Nat.ltb_spec j n); try lia;
        rewrite ?andb_false_r in E; cbn [negb andb] in E; try discriminate; rewrite ?andb_false_r in E; discriminate.
    + intros j Hj. rewrite H. destruct (Nat.leb_spec 1 j) as [H1|H1]; cbn [andb].
      * destruct (Nat.ltb_spec j (1 + (n - 1))); [|lia]. f_equal.
        rewrite (xsum_extend n 64); [|lia|intros k Hk; rewrite testbit_ur_ucol;
          destruct (Nat.ltb_spec k j); [lia|now rewrite !andb_false_r]].
        apply xsum_ext. intros k Hk. rewrite testbit_ur_ucol, testbit_ur_mask. f_equal.
        destruct (Nat.ltb_spec k j), (Nat.ltb_spec j (S k)), (Nat.ltb_spec j n); try lia;
          cbn [negb]; now rewrite ?andb_true_r, ?andb_false_r.
      * assert (j = 0) by lia. subst j. rewrite xsum_zero; [now rewrite xorb_false_r|].
        intros k _. rewrite testbit_ur_mask. destruct (Nat.ltb_spec 0 (S k)); [|lia].
        cbn [negb]. now rewrite andb_false_r, andb_false_r.
Qed.

Lemma lr_row_dot_solves L n b : n <= radix -> bounded n b ->
  bounded n (lr_row_dot L n b) /\ mul_row (lr_row_dot L n b) (rows (unit_lower n L)) = b.
Proof.
  unfold radix. intros Hn Hb.
  pose proof (dot_desc (lr_ucol n L)) as H.
  specialize (H ltac:(intros i k E; rewrite testbit_lr_ucol in E; destruct (Nat.ltb_spec k (S i)); [cbn [negb] in E; rewrite andb_false_r in E; discriminate|lia])).
  specialize (H n b). cbn zeta in H. fold (lr_row_dot L n b) in H. set (x := lr_row_dot L n b) in *.
  split.
  - intros j Hj. rewrite H. destruct (Nat.ltb_spec j n); [lia|]. now apply Hb.
  - rewrite unit_lower_masks. cbn [rows]. apply solve_row_mul; [|assumption|].
    + intros k j Hk E. rewrite testbit_lr_mask in E.
      destruct (Nat.ltb_spec j k); [lia|rewrite andb_false_r in E; discriminate].
    + intros j Hj. rewrite H. destruct (Nat.ltb_spec j n); [|lia]. f_equal.
      rewrite (xsum_extend n 64); [|lia|intros k Hk; rewrite testbit_lr_ucol;
        destruct (Nat.ltb_spec k n); [lia|now rewrite !andb_false_r]].
      apply xsum_ext. intros k Hk. rewrite testbit_lr_ucol, testbit_lr_mask. f_equal.
      destruct (Nat.ltb_spec k (S j)), (Nat.ltb_spec j k), (Nat.ltb_spec k n); try lia;
        cbn [negb]; now rewrite ?andb_true_r, ?andb_false_r.
Qed.

Theorem trsm_upper_right_base_solves U B : wf B -> nc B <= radix -> solves_ur U B (trsm_upper_right_base U B).
Proof.
  intros HB Hn. pose proof HB as [Hl Hbd]. rewrite Forall_forall in Hbd.
  refine (conj _ (conj eq_refl (conj eq_refl _))).
  - split; cbn [rows nr nc trsm_upper_right_base]; [now rewrite map_length|].
    apply Forall_forall. intros x Hx. apply in_map_iff in Hx as (b & <- & Hin).
    apply ur_row_dot_solves; auto.
  - unfold mmul, trsm_upper_right_base. cbn [nr nc rows unit_upper]. rewrite map_map.
    transitivity (mk (nr B) (nc B) (rows B)); [|apply mat_eta]. f_equal.
    transitivity (map (fun b : N => b) (rows B)); [|apply map_id].
    apply map_ext_in. intros b Hb. apply (ur_row_dot_solves U (nc B) b); auto.
Qed.

Theorem trsm_lower_right_base_solves L B : wf B -> nc B <= radix -> solves_lr L B (trsm_lower_right_base L B).
Proof.
  intros HB Hn. pose proof HB as [Hl Hbd]. rewrite Forall_forall in Hbd.
  refine (conj _ (conj eq_refl (conj eq_refl _))).
  - split; cbn [rows nr nc trsm_lower_right_base]; [now rewrite map_length|].
    apply Forall_forall. intros x Hx. apply in_map_iff in Hx as (b & <- & Hin).
    apply lr_row_dot_solves; auto.
  - unfold mmul, trsm_lower_right_base. cbn [nr nc rows unit_lower]. rewrite map_map.
    transitivity (mk (nr B) (nc B) (rows B)); [|apply mat_eta]. f_equal.
    transitivity (map (fun b : N => b) (rows B)); [|apply map_id].
    apply map_ext_in. intros b Hb. apply (lr_row_dot_solves L (nc B) b); auto.
Qed.

(** the recursive models with the dot-product base cases *)
Theorem trsm_upper_right_rec_f_spec c cutoff U B : wf B -> nc B <= length (rows U) ->
  diag_ones (nc B) U -> trsm_upper_right_rec_f c cutoff U B = trsm_upper_right U B.
Proof.
  intros HB HL HD. unfold trsm_upper_right_rec_f.
  destruct (ur_rec_solves trsm_upper_right_base ur_middle addmul_spec (blocksize c) cutoff
              (addmul_spec_ok cutoff)
              (fun U B HB _ _ Hn => trsm_upper_right_base_solves U B HB Hn)
              (fun U B HB HL HD _ => ur_middle_solves U B HB HL HD)
              (nc B) U B (le_n _) HB HL HD) as (Hw & _ & Hc & E).
  now apply trsm_upper_right_complete.
Qed.

Theorem trsm_lower_right_rec_f_spec c cutoff L B : wf B -> nc B <= length (rows L) ->
  trsm_lower_right_rec_f c cutoff L B = trsm_lower_right L B.
Proof.
  intros HB HL. unfold trsm_lower_right_rec_f.
  destruct (lr_rec_solves trsm_lower_right_base addmul_spec cutoff
              (addmul_spec_ok cutoff)
              (fun L B HB _ Hn => trsm_lower_right_base_solves L B HB Hn)
              (nc B) L B (le_n _) HB HL) as (Hw & _ & Hc & E).
  now apply trsm_lower_right_complete.
Qed.

(** * 8. The Four-Russians middle regime of the left variants (Alg/TRSMRec.v section 2) *)

(** ** sums in chunks, xor of a list *)
Lemma xsum_chunks nt k f : xsum (nt * k) f = xsum nt (fun t => xsum k (fun b => f (t * k + b))).
Proof.
  revert f. induction nt as [|nt IH]; intros f; [reflexivity|].
  change (S nt * k) with (k + nt * k). rewrite xsum_app, xsum_shift, IH. f_equal.
  apply xsum_ext. intros t _. apply xsum_ext. intros b _. f_equal. lia.
Qed.

Lemma testbit_fold_lxor l : forall a j,
  N.testbit (fold_left N.lxor l a) (N.of_nat j) =
  xorb (N.testbit a (N.of_nat j)) (xsum (length l) (fun t => N.testbit (nth t l 0%N) (N.of_nat j))).
Proof.
  induction l as [|x l IH]; intros a j; cbn [fold_left length].
  - cbn. now rewrite xorb_false_r.
  - rewrite IH, xsum_shift, N.lxor_spec. cbn [nth]. now rewrite xorb_assoc.
Qed.

Lemma combine_map_seq {A} (g : nat -> A) l : combine l (map g l) = map (fun t => (t, g t)) l.
Proof. induction l as [|x l IH]; cbn; [reflexivity|now rewrite IH]. Qed.

(** ** the table look-ups of one block are a product with the block rows *)
Lemma testbit_combine_lookup T B j s k nt col : wf B -> s + nt * k <= nr B ->
  N.testbit (combine_lookup T j s k (tables_at B s k nt)) (N.of_nat col) =
  xsum (nt * k) (fun c => get T j (s + c) && get B (s + c) col).
Proof.
  intros HB Hs. pose proof (wf_len B HB) as HlB.
  unfold combine_lookup, tables_at. rewrite map_length, seq_length, combine_map_seq, map_map.
  rewrite testbit_fold_lxor, map_length, seq_length. cbn [fst snd]. rewrite N.bits_0, xorb_false_l.
  rewrite xsum_chunks. apply xsum_ext. intros t Ht.
  rewrite (nth_map_default _ _ _ 0) by now rewrite seq_length. rewrite seq_nth by assumption. cbn [Nat.add].
  assert (Hfit : s + t * k + k <= nr B) by nia.
  rewrite gray_lookup; auto.
  - rewrite testbit_mul_row, block_rows_length by lia. apply xsum_ext. intros b Hb.
    rewrite testbit_read_bits, nth_block_rows by assumption.
    destruct (Nat.ltb_spec b k); [|lia]. cbn [andb]. unfold get. now rewrite !Nat.add_assoc.
  - unfold fresh_T. now rewrite repeat_length.
  - unfold fresh_L. now rewrite repeat_length.
  - unfold fresh_T. destruct (2 ^ k); reflexivity.
  - unfold fresh_T. apply Forall_forall. intros x Hx. apply repeat_spec in Hx. subst x. apply bounded_0.
  - apply bounded_lt, bounded_read_bits.
Qed.

Lemma bounded_combine_lookup T B j s k nt : wf B -> s + nt * k <= nr B ->
  bounded (nc B) (combine_lookup T j s k (tables_at B s k nt)).
Proof.
  intros HB Hs col Hcol. rewrite testbit_combine_lookup by assumption. apply xsum_zero.
  intros c _. rewrite (get_out_col B) by assumption. apply andb_false_r.
Qed.

(** ** lower left *)
Section LLRussian.
  Variables (L B0 : mat).
  Hypothesis HB0 : wf B0.
  Let n := nr B0.
  Let X := trsm_lower_left L B0.

  (** state after the first s rows are final: rows < s hold X, the others have had the
      contributions of the columns < s removed *)
  Definition ll_state (s : nat) (B : mat) : Prop :=
    wf B /\ nr B = n /\ nc B = nc B0 /\
    forall r j, r < n -> get B r j =
      if r <? s then get X r j else xorb (get B0 r j) (xsum s (fun c => get L r c && get X c j)).

  Lemma ll_state_init : ll_state 0 B0.
  Proof using HB0.
    refine (conj HB0 (conj eq_refl (conj eq_refl _))). intros r j Hr. cbn. now rewrite xorb_false_r.
  Qed.

  Lemma ll_state_final B : ll_state n B -> B = X.
  Proof using HB0.
    intros (Hw & Hr & Hc & Hg). apply mat_ext; auto.
    - now apply wf_trsm_lower_left.
    - intros r j Hrn _. rewrite Hr in Hrn. rewrite Hg by assumption.
      destruct (Nat.ltb_spec r n); [reflexivity|lia].
  Qed.

  (** inner loop of _submatrix: row d += rows s+jj selected by L[d, s+jj], jj < m *)
  Lemma ll_inner_spec B s d : wf B -> d < nr B -> forall m, s + m <= d ->
    let B' := fold_left (fun B j => if get L d (s + j) then row_add B (s + j) d else B) (seq 0 m) B in
    wf B' /\ nr B' = nr B /\ nc B' = nc B /\
    forall r j, get B' r j = xorb (get B r j) ((r =? d) && xsum m (fun jj => get L d (s + jj) && get B (s + jj) j)).
  Proof.
    intros HB Hd. induction m as [|m IH]; intros Hm B'.
    - unfold B'. cbn. refine (conj HB (conj eq_refl (conj eq_refl _))). intros r j.
      now rewrite andb_false_r, xorb_false_r.
    - unfold B'. rewrite seq_S, fold_left_app. cbn [fold_left Nat.add].
      destruct (IH ltac:(lia)) as (Hw & Hr & Hc & Hg).
      set (B1 := fold_left (fun B j => if get L d (s + j) then row_add B (s + j) d else B) (seq 0 m) B) in *.
      assert (Hsm : forall j, get B1 (s + m) j = get B (s + m) j).
      { intros j. rewrite Hg. destruct (Nat.eqb_spec (s + m) d); [lia|]. now rewrite xorb_false_r. }
      destruct (get L d (s + m)) eqn:E.
      + refine (conj (wf_row_add _ _ _ Hw) (conj Hr (conj Hc _))). intros r j.
        rewrite get_row_add by (auto; lia). rewrite Hg, Hsm. cbn [xsum]. rewrite E. cbn [andb].
        destruct (r =? d); cbn [andb]; now rewrite ?xorb_false_r, ?xorb_assoc.
      + refine (conj Hw (conj Hr (conj Hc _))). intros r j. rewrite Hg. cbn [xsum]. rewrite E.
        cbn [andb]. now rewrite xorb_false_r.
  Qed.

  (** _mzd_trsm_lower_left_submatrix finishes the rows of the block *)
  Lemma ll_submatrix_spec B s k : ll_state s B -> s + k <= n ->
    let B' := ll_submatrix L B s k in
    wf B' /\ nr B' = n /\ nc B' = nc B0 /\
    forall r j, r < n -> get B' r j = if (s <=? r) && (r <? s + k) then get X r j else get B r j.
  Proof using HB0.
    intros (Hw & Hr & Hc & Hg) Hk.
    assert (H : forall m, m <= k ->
      let B' := fold_left (fun B i =>
                  fold_left (fun B j => if get L (s + i) (s + j) then row_add B (s + j) (s + i) else B) (seq 0 i) B)
                  (seq 0 m) B in
      wf B' /\ nr B' = n /\ nc B' = nc B0 /\
      forall r j, r < n -> get B' r j = if (s <=? r) && (r <? s + m) then get X r j else get B r j).
    { induction m as [|m IH]; intros Hm B'.
      - unfold B'. cbn [seq fold_left]. refine (conj Hw (conj Hr (conj Hc _))). intros r j _.
        destruct (Nat.leb_spec s r), (Nat.ltb_spec r (s + 0)); try lia; reflexivity.
      - unfold B'. rewrite seq_S, fold_left_app. cbn [fold_left Nat.add].
        destruct (IH ltac:(lia)) as (Hw1 & Hr1 & Hc1 & Hg1).
        set (B1 := fold_left _ (seq 0 m) B) in *.
        destruct (ll_inner_spec B1 s (s + m) Hw1 ltac:(lia) m (le_n _)) as (Hw2 & Hr2 & Hc2 & Hg2).
        refine (conj Hw2 (conj _ (conj _ _))); [congruence|congruence|]. intros r j Hrn.
        rewrite Hg2, Hg1 by assumption.
        destruct (Nat.eqb_spec r (s + m)) as [->|Hne]; cbn [andb].
        + destruct (Nat.leb_spec s (s + m)), (Nat.ltb_spec (s + m) (s + m)), (Nat.ltb_spec (s + m) (s + S m));
            try lia. cbn [andb].
          rewrite Hg by lia. destruct (Nat.ltb_spec (s + m) s); [lia|].
          symmetry. unfold X at 1. rewrite trsm_lower_left_char by (auto; fold n; lia). fold X.
          rewrite xsum_app, <- xorb_assoc. f_equal.
          apply xsum_ext. intros jj Hjj. rewrite Hg1 by lia.
          destruct (Nat.leb_spec s (s + jj)), (Nat.ltb_spec (s + jj) (s + m)); try lia. reflexivity.
        + rewrite xorb_false_r.
          destruct (Nat.leb_spec s r), (Nat.ltb_spec r (s + m)), (Nat.ltb_spec r (s + S m)); try lia; reflexivity. }
    exact (H k (le_n _)).
  Qed.

  (** one block: the state advances by nt*k rows *)
  Lemma ll_block_state B s k nt : ll_state s B -> s + nt * k <= n -> ll_state (s + nt * k) (ll_block L B s k nt).
  Proof using HB0.
    intros Hst Hk. pose proof Hst as (Hw & Hr & Hc & Hg).
    destruct (ll_submatrix_spec B s (nt * k) Hst Hk) as (Hw1 & Hr1 & Hc1 & Hg1).
    unfold ll_block. set (B1 := ll_submatrix L B s (nt * k)) in *.
    pose proof (wf_len B1 Hw1) as Hl1.
    refine (conj _ (conj Hr1 (conj Hc1 _))).
    - apply wf_map_rows; [assumption|]. intros i r _ Hb.
      destruct (s + nt * k <=? i); [|assumption].
      apply bounded_lxor; [assumption|]. apply bounded_combine_lookup; auto. lia.
    - intros r j Hrn. unfold get at 1. rewrite row_map_rows. destruct (Nat.ltb_spec r (length (rows B1))); [|lia].
      destruct (Nat.leb_spec (s + nt * k) r) as [Hge|Hlt].
      + rewrite N.lxor_spec, testbit_combine_lookup by (auto; lia). fold (get B1 r j).
        rewrite Hg1 by assumption. destruct (Nat.leb_spec s r), (Nat.ltb_spec r (s + nt * k)); try lia. cbn [andb].
        rewrite Hg by assumption. destruct (Nat.ltb_spec r s); [lia|]. destruct (Nat.ltb_spec r (s + nt * k)); [lia|].
        rewrite xsum_app, xorb_assoc. do 2 f_equal. apply xsum_ext. intros c Hc'.
        rewrite Hg1 by lia. destruct (Nat.leb_spec s (s + c)), (Nat.ltb_spec (s + c) (s + nt * k)); try lia. reflexivity.
      + fold (get B1 r j). rewrite Hg1 by assumption. destruct (Nat.ltb_spec r (s + nt * k)); [|lia].
        destruct (Nat.leb_spec s r); cbn [andb]; [reflexivity|].
        rewrite Hg by assumption. destruct (Nat.ltb_spec r s); [reflexivity|lia].
  Qed.

  Lemma ll_big_state k : forall fuel B i, ll_state i B -> i <= n ->
    ll_state (snd (ll_russian_big fuel L B k i)) (fst (ll_russian_big fuel L B k i)) /\
    snd (ll_russian_big fuel L B k i) <= n.
  Proof using HB0.
    induction fuel as [|f IH]; intros B i Hst Hi; cbn [ll_russian_big]; [now split|].
    pose proof Hst as (_ & Hr & _). rewrite Hr.
    destruct (Nat.ltb_spec (i + ntables * k) n); [|now split].
    apply IH; [|lia]. apply ll_block_state; [assumption|lia].
  Qed.

  Lemma ll_small_state : forall fuel B k i, 1 <= k -> ll_state i B -> i <= n -> n - i <= fuel ->
    ll_state n (ll_russian_small fuel L B k i).
  Proof using HB0.
    induction fuel as [|f IH]; intros B k i Hk Hst Hi Hf; cbn [ll_russian_small].
    - now replace n with i by lia.
    - pose proof Hst as (_ & Hr & _). rewrite Hr.
      destruct (Nat.ltb_spec i n) as [Hlt|Hge]; [|now replace n with i by lia].
      set (k' := if n <? i + k then n - i else k).
      assert (Hk' : 1 <= k' /\ i + k' <= n) by (unfold k'; destruct (Nat.ltb_spec n (i + k)); lia).
      apply IH; try lia. replace (i + k') with (i + 1 * k') by lia.
      apply ll_block_state; [assumption|lia].
  Qed.

  Theorem trsm_lower_left_russian_eq k : 1 <= k -> trsm_lower_left_russian k L B0 = X.
  Proof using HB0.
    intros Hk. unfold trsm_lower_left_russian. fold n.
    destruct (ll_big_state k n B0 0 ll_state_init (Nat.le_0_l _)) as [Hst Hi].
    destruct (ll_russian_big n L B0 k 0) as [B1 i]. cbn [fst snd] in Hst, Hi.
    apply ll_state_final. apply ll_small_state; auto. lia.
  Qed.
End LLRussian.

Theorem trsm_lower_left_russian_solves k L B : 1 <= k -> wf B -> solves_ll L B (trsm_lower_left_russian k L B).
Proof. intros Hk HB. rewrite trsm_lower_left_russian_eq by assumption. now apply trsm_lower_left_spec. Qed.

(** ** upper left (bottom up) *)
(** inner loop of a _submatrix routine: row d += rows s+jj selected by T[d, s+jj], jj < m, none of
    them being row d itself *)
Lemma inner_add_spec T B s d : wf B -> d < nr B -> forall m, (s + m <= d \/ d < s) ->
  let B' := fold_left (fun B j => if get T d (s + j) then row_add B (s + j) d else B) (seq 0 m) B in
  wf B' /\ nr B' = nr B /\ nc B' = nc B /\
  forall r j, get B' r j = xorb (get B r j) ((r =? d) && xsum m (fun jj => get T d (s + jj) && get B (s + jj) j)).
Proof.
  intros HB Hd. induction m as [|m IH]; intros Hm B'.
  - unfold B'. cbn. refine (conj HB (conj eq_refl (conj eq_refl _))). intros r j.
    now rewrite andb_false_r, xorb_false_r.
  - unfold B'. rewrite seq_S, fold_left_app. cbn [fold_left Nat.add].
    destruct (IH ltac:(lia)) as (Hw & Hr & Hc & Hg).
    set (B1 := fold_left (fun B j => if get T d (s + j) then row_add B (s + j) d else B) (seq 0 m) B) in *.
    assert (Hsm : forall j, get B1 (s + m) j = get B (s + m) j).
    { intros j. rewrite Hg. destruct (Nat.eqb_spec (s + m) d); [lia|]. now rewrite xorb_false_r. }
    destruct (get T d (s + m)) eqn:E.
    + refine (conj (wf_row_add _ _ _ Hw) (conj Hr (conj Hc _))). intros r j.
      rewrite get_row_add by (auto; lia). rewrite Hg, Hsm. cbn [xsum]. rewrite E. cbn [andb].
      destruct (r =? d); cbn [andb]; now rewrite ?xorb_false_r, ?xorb_assoc.
    + refine (conj Hw (conj Hr (conj Hc _))). intros r j. rewrite Hg. cbn [xsum]. rewrite E.
      cbn [andb]. now rewrite xorb_false_r.
Qed.

Section ULRussian.
  Variables (U B0 : mat).
  Hypothesis HB0 : wf B0.
  Let n := nr B0.
  Let X := trsm_upper_left U B0.

  (** rows >= s hold X, the others have had the contributions of the columns >= s removed *)
  Definition ul_state (s : nat) (B : mat) : Prop :=
    wf B /\ nr B = n /\ nc B = nc B0 /\
    forall r j, r < n -> get B r j =
      if s <=? r then get X r j
      else xorb (get B0 r j) (xsum (n - s) (fun c => get U r (s + c) && get X (s + c) j)).

  Lemma ul_state_init : ul_state n B0.
  Proof using HB0.
    refine (conj HB0 (conj eq_refl (conj eq_refl _))). intros r j Hr.
    destruct (Nat.leb_spec n r); [lia|]. rewrite Nat.sub_diag. cbn. now rewrite xorb_false_r.
  Qed.

  Lemma ul_state_final B : ul_state 0 B -> B = X.
  Proof using HB0.
    intros (Hw & Hr & Hc & Hg). apply mat_ext; auto.
    - now apply wf_trsm_upper_left.
    - intros r j Hrn _. rewrite Hr in Hrn. now rewrite Hg by assumption.
  Qed.

  Lemma ul_submatrix_spec B s k : ul_state s B -> k <= s -> s <= n ->
    let B' := ul_submatrix U B (s - k) k in
    wf B' /\ nr B' = n /\ nc B' = nc B0 /\
    forall r j, r < n -> get B' r j = if (s - k <=? r) && (r <? s) then get X r j else get B r j.
  Proof using HB0.
    intros (Hw & Hr & Hc & Hg) Hk Hs. set (s' := s - k).
    assert (H : forall m, m <= k ->
      let B' := fold_left (fun B i =>
                  fold_left (fun B j => if get U (s' + (k - i - 1)) (s' + (k - i) + j)
                                        then row_add B (s' + (k - i) + j) (s' + (k - i - 1)) else B) (seq 0 i) B)
                  (seq 0 m) B in
      wf B' /\ nr B' = n /\ nc B' = nc B0 /\
      forall r j, r < n -> get B' r j = if (s - m <=? r) && (r <? s) then get X r j else get B r j).
    { induction m as [|m IH]; intros Hm B'.
      - unfold B'. cbn [seq fold_left]. refine (conj Hw (conj Hr (conj Hc _))). intros r j _.
        destruct (Nat.leb_spec (s - 0) r), (Nat.ltb_spec r s); try lia; reflexivity.
      - unfold B'. rewrite seq_S, fold_left_app. cbn [fold_left Nat.add].
        destruct (IH ltac:(lia)) as (Hw1 & Hr1 & Hc1 & Hg1).
        set (B1 := fold_left _ (seq 0 m) B) in *.
        assert (Ed : s' + (k - m - 1) = s - S m) by (unfold s'; lia).
        assert (Es : s' + (k - m) = S (s - S m)) by (unfold s'; lia).
        rewrite Ed, Es. set (d := s - S m) in *.
        destruct (inner_add_spec U B1 (S d) d Hw1 ltac:(lia) m ltac:(lia)) as (Hw2 & Hr2 & Hc2 & Hg2).
        refine (conj Hw2 (conj _ (conj _ _))); [congruence|congruence|]. intros r j Hrn.
        rewrite Hg2, Hg1 by assumption.
        destruct (Nat.eqb_spec r d) as [->|Hne]; cbn [andb].
        + destruct (Nat.leb_spec (s - m) d), (Nat.leb_spec d d), (Nat.ltb_spec d s); try lia. cbn [andb].
          rewrite Hg by lia. destruct (Nat.leb_spec s d); [lia|].
          symmetry. unfold X at 1. rewrite trsm_upper_left_char by (auto; fold n; lia). fold X. fold n.
          replace (n - S d) with (m + (n - s)) by lia.
          rewrite xsum_app, (xorb_comm (xsum m _)), <- xorb_assoc. f_equal.
          * f_equal. apply xsum_ext. intros c _. now replace (S d + (m + c)) with (s + c) by lia.
          * apply xsum_ext. intros jj Hjj. rewrite Hg1 by lia.
            destruct (Nat.leb_spec (s - m) (S d + jj)), (Nat.ltb_spec (S d + jj) s); try lia. reflexivity.
        + rewrite xorb_false_r.
          destruct (Nat.leb_spec (s - m) r), (Nat.leb_spec d r), (Nat.ltb_spec r s); try lia; reflexivity. }
    exact (H k (le_n _)).
  Qed.

  Lemma ul_block_state B s k nt : ul_state s B -> nt * k <= s -> s <= n ->
    ul_state (s - nt * k) (ul_block U B (s - nt * k) k nt).
  Proof using HB0.
    intros Hst Hk Hs. pose proof Hst as (Hw & Hr & Hc & Hg).
    destruct (ul_submatrix_spec B s (nt * k) Hst Hk Hs) as (Hw1 & Hr1 & Hc1 & Hg1).
    unfold ul_block. set (s' := s - nt * k) in *. set (B1 := ul_submatrix U B s' (nt * k)) in *.
    pose proof (wf_len B1 Hw1) as Hl1.
    refine (conj _ (conj Hr1 (conj Hc1 _))).
    - apply wf_map_rows; [assumption|]. intros i r _ Hb.
      destruct (i <? s'); [|assumption].
      apply bounded_lxor; [assumption|]. apply bounded_combine_lookup; auto. unfold s'. lia.
    - intros r j Hrn. unfold get at 1. rewrite row_map_rows. destruct (Nat.ltb_spec r (length (rows B1))); [|lia].
      destruct (Nat.ltb_spec r s') as [Hlt|Hge].
      + rewrite N.lxor_spec, testbit_combine_lookup by (auto; unfold s'; lia). fold (get B1 r j).
        rewrite Hg1 by assumption. destruct (Nat.leb_spec s' r); [lia|]. cbn [andb].
        rewrite Hg by assumption. destruct (Nat.leb_spec s r); [unfold s' in *; lia|].
        replace (n - s') with (nt * k + (n - s)) by (unfold s'; lia).
        rewrite xsum_app, (xorb_comm (xsum (nt * k) _)), <- xorb_assoc. f_equal.
        * f_equal. apply xsum_ext. intros c _. now replace (s' + (nt * k + c)) with (s + c) by (unfold s'; lia).
        * apply xsum_ext. intros c Hc'. rewrite Hg1 by (unfold s'; lia).
          destruct (Nat.leb_spec s' (s' + c)), (Nat.ltb_spec (s' + c) s); try (unfold s' in *; lia). reflexivity.
      + fold (get B1 r j). rewrite Hg1 by assumption. destruct (Nat.leb_spec s' r); [|lia].
        destruct (Nat.ltb_spec r s); cbn [andb]; [reflexivity|].
        rewrite Hg by assumption. destruct (Nat.leb_spec s r); [reflexivity|lia].
  Qed.

  Lemma ul_big_state k : forall fuel B i, ul_state (n - i) B -> i <= n ->
    ul_state (n - snd (ul_russian_big fuel U B k i)) (fst (ul_russian_big fuel U B k i)) /\
    snd (ul_russian_big fuel U B k i) <= n.
  Proof using HB0.
    induction fuel as [|f IH]; intros B i Hst Hi; cbn [ul_russian_big]; [now split|].
    pose proof Hst as (_ & Hr & _). rewrite Hr.
    destruct (Nat.ltb_spec (i + ntables * k) n); [|now split].
    apply IH; [|lia].
    replace (n - i - ntables * k) with (n - i - ntables * k) by reflexivity.
    replace (n - (i + ntables * k)) with (n - i - ntables * k) by lia.
    apply ul_block_state; [assumption|lia|lia].
  Qed.

  Lemma ul_small_state : forall fuel B k i, 1 <= k -> ul_state (n - i) B -> i <= n -> n - i <= fuel ->
    ul_state 0 (ul_russian_small fuel U B k i).
  Proof using HB0.
    induction fuel as [|f IH]; intros B k i Hk Hst Hi Hf; cbn [ul_russian_small].
    - now replace 0 with (n - i) by lia.
    - pose proof Hst as (_ & Hr & _). rewrite Hr.
      destruct (Nat.ltb_spec i n) as [Hlt|Hge]; [|now replace 0 with (n - i) by lia].
      set (k' := if n <? i + k then n - i else k).
      assert (Hk' : 1 <= k' /\ i + k' <= n) by (unfold k'; destruct (Nat.ltb_spec n (i + k)); lia).
      apply IH; try lia.
      replace (n - (i + k')) with (n - i - 1 * k') by lia.
      replace (n - i - k') with (n - i - 1 * k') by lia.
      apply ul_block_state; [assumption|lia|lia].
  Qed.

  Theorem trsm_upper_left_russian_eq k : 1 <= k -> trsm_upper_left_russian k U B0 = X.
  Proof using HB0.
    intros Hk. unfold trsm_upper_left_russian. fold n.
    assert (H0 : ul_state (n - 0) B0) by (rewrite Nat.sub_0_r; apply ul_state_init).
    destruct (ul_big_state k n B0 0 H0 (Nat.le_0_l _)) as [Hst Hi].
    destruct (ul_russian_big n U B0 k 0) as [B1 i]. cbn [fst snd] in Hst, Hi.
    apply ul_state_final. apply ul_small_state; auto. lia.
  Qed.
End ULRussian.

Theorem trsm_upper_left_russian_solves k U B : 1 <= k -> wf B -> solves_ul U B (trsm_upper_left_russian k U B).
Proof. intros Hk HB. rewrite trsm_upper_left_russian_eq by assumption. now apply trsm_upper_left_spec. Qed.

(** ** the recursive models with the Four-Russians middle regime plugged in: for every k >= 1
       (the C code uses 2 <= k <= 8), every configuration and every cutoff *)
Theorem trsm_lower_left_rec_f_spec c kk cutoff L B : 1 <= kk -> wf B -> nr B <= length (rows L) ->
  trsm_lower_left_rec_f c kk cutoff L B = trsm_lower_left L B.
Proof.
  intros Hk HB HL. unfold trsm_lower_left_rec_f.
  destruct (ll_rec_solves trsm_lower_left (trsm_lower_left_russian kk) addmul_spec (blocksize c) cutoff
              (addmul_spec_ok cutoff)
              (fun L B HB _ _ => trsm_lower_left_spec L B HB)
              (fun L B HB _ _ => trsm_lower_left_russian_solves kk L B Hk HB)
              (nr B) L B (le_n _) HB HL) as (Hw & Hr & _ & E).
  now apply trsm_lower_left_complete.
Qed.

Theorem trsm_upper_left_rec_f_spec c kk cutoff U B : 1 <= kk -> wf B -> nr B <= length (rows U) ->
  trsm_upper_left_rec_f c kk cutoff U B = trsm_upper_left U B.
Proof.
  intros Hk HB HL. unfold trsm_upper_left_rec_f.
  destruct (ul_rec_solves trsm_upper_left (trsm_upper_left_russian kk) addmul_spec (blocksize c) cutoff
              (addmul_spec_ok cutoff)
              (fun U B HB _ _ => trsm_upper_left_spec U B HB)
              (fun U B HB _ _ => trsm_upper_left_russian_solves kk U B Hk HB)
              (nr B) U B (le_n _) HB HL) as (Hw & Hr & _ & E).
  now apply trsm_upper_left_complete.
Qed.

(** * 9. [ur_middle] replaces the call mzd_trtri_upper(u) by the substitution model.  That is what
      mzd_trtri_upper does (base routine, no recursion) whenever blocksize^2 < 2*L3 — true in every
      build, where blocksize = min(sqrt(L3), 2048): in the recursive model the call returns the
      base routine's result on the spot. *)
Lemma ur_middle_trtri_exact c U n : n <= blocksize c ->
  (N.of_nat (blocksize c) * N.of_nat (blocksize c) < trtri_cut c)%N ->
  let u := extract_u (msub U 0 0 n n) in trtri_upper_rec c u = Some (trtri_upper_simple u).
Proof.
  intros Hn Hc u. unfold trtri_upper_rec.
  assert (Hr : nr u = n) by (unfold u, extract_u; cbn [nr nc msub map_rows]; apply Nat.min_id).
  assert (Hcn : nc u = n) by (unfold u, extract_u; cbn [nr nc msub map_rows]; apply Nat.min_id).
  rewrite Hr. destruct n as [|n'].
  - reflexivity.
  - cbn [trtri_rec]. rewrite Hr, Hcn.
    destruct (N.ltb_spec (N.of_nat (S n') * N.of_nat (S n')) (trtri_cut c)); [reflexivity|nia].
Qed.
