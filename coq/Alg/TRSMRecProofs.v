(* Alg/TRSMRecProofs.v — C04: the recursive / regime-switching models of the four triangular
   solves (Alg/TRSM.v section 2, mirroring m4ri/triangular.c) return the same matrix as the simple
   substitution models, for EVERY configuration (middle-regime threshold), every Strassen cutoff
   and every input; hence (Alg/TRSMProofs.v) they return the unique solution of T X = B resp.
   X T = B, and only the named triangle of T matters.

   Structure.  Section [Generic*]: the recursion itself (triangular.c:61-111, 312-359, 406-451,
   467-516), proven for ARBITRARY base-case and middle-regime routines that meet the
   specification [solves_*] and an arbitrary [addmul] computing C + A*B (property C01).
   Then the instances used by the extracted models.

   What is abstracted: in Alg/TRSM.v the word base case of all four variants and the
   Four-Russians middle regime of the two LEFT variants (triangular_russian.c:50, :206) are
   instantiated with the simple substitution model; the generic theorems below say precisely
   that any routine meeting [solves_ll]/[solves_ul] may be plugged in instead.  The middle regime
   of upper_right (extract_u, trtri, mul; triangular.c:52-59) is modelled and proven ([ur_middle_solves]);
   it is the only place where the stored DIAGONAL of the triangular operand is read. *)
From Coq Require Import List NArith Arith Lia Bool.
From M4 Require Import Base.Bits Lin.Mat Lin.MatAlg Lin.Ops Lin.OpsProofs Lin.Spec Lin.Tri
  Alg.Gauss Alg.TRSM Alg.TRSMProofs.
Import ListNotations.
Local Open Scope nat_scope.

(** the stored diagonal of the leading n x n block holds ones *)
Definition diag_ones (n : nat) (T : mat) : Prop := forall i, i < n -> get T i i = true.

Lemma diag_ones_msub n T r0 k : r0 + k <= length (rows T) -> r0 + k <= n -> diag_ones n T ->
  diag_ones k (msub T r0 r0 k k).
Proof.
  intros Hl Hn Hd i Hi. rewrite get_msub by assumption.
  destruct (Nat.ltb_spec i k); [|lia]. cbn [andb]. apply Hd. lia.
Qed.

(** a matrix without rows solves everything *)
Lemma solves_ll_empty L B : wf B -> nr B = 0 -> solves_ll L B B.
Proof.
  intros HB H0. refine (conj HB (conj eq_refl (conj eq_refl _))).
  rewrite H0. rewrite (mat_nr0 B HB H0). reflexivity.
Qed.

Lemma solves_ul_empty U B : wf B -> nr B = 0 -> solves_ul U B B.
Proof.
  intros HB H0. refine (conj HB (conj eq_refl (conj eq_refl _))).
  rewrite H0. rewrite (mat_nr0 B HB H0). reflexivity.
Qed.

Lemma mmul_nc0 X T : wf X -> nc X = 0 -> nr T = 0 -> nc T = 0 -> wf T -> mmul X T = X.
Proof.
  intros HX H0 Hr Hc HT. apply mat_ext; auto with wf; try (cbn [nr nc mmul]; congruence).
  intros i j _ Hj. cbn [nc mmul] in Hj. lia.
Qed.

Lemma solves_ur_empty U B : wf B -> nc B = 0 -> solves_ur U B B.
Proof.
  intros HB H0. refine (conj HB (conj eq_refl (conj eq_refl _))).
  rewrite H0. apply mmul_nc0; auto with wf.
Qed.

Lemma solves_lr_empty L B : wf B -> nc B = 0 -> solves_lr L B B.
Proof.
  intros HB H0. refine (conj HB (conj eq_refl (conj eq_refl _))).
  rewrite H0. apply mmul_nc0; auto with wf.
Qed.

(** * 1. The recursions, for arbitrary sub-routines meeting the specification *)
Section GenericLL.
  Variables (base middle : mat -> mat -> mat) (addmul : nat -> mat -> mat -> mat -> mat).
  Variables (bsz cutoff : nat).
  Hypothesis addmul_ok : forall C A B, addmul cutoff C A B = madd C (mmul A B).
  Hypothesis base_ok : forall L B, wf B -> nr B <= length (rows L) -> nr B <= radix ->
    solves_ll L B (base L B).
  Hypothesis middle_ok : forall L B, wf B -> nr B <= length (rows L) -> radix < nr B <= bsz ->
    solves_ll L B (middle L B).

  Theorem ll_rec_solves : forall fuel L B, nr B <= fuel -> wf B -> nr B <= length (rows L) ->
    solves_ll L B (ll_rec base middle addmul bsz cutoff fuel L B).
  Proof.
    induction fuel as [|f IH]; intros L B Hf HB HL; cbn [ll_rec].
    - apply solves_ll_empty; [assumption|lia].
    - destruct (Nat.leb_spec (nr B) radix) as [H1|H1]; [now apply base_ok|].
      destruct (Nat.leb_spec (nr B) bsz) as [H2|H2]; [apply middle_ok; auto; lia|].
      pose proof (split_bounds (nr B) H1) as Hs. set (mb1 := split (nr B)) in *.
      pose proof (wf_len B HB) as HlB.
      apply (ll_compose L B mb1 (nr B - mb1)); auto; try lia.
      + apply IH; cbn [nr msub]; [lia|apply wf_msub; lia|rewrite len_msub; lia].
      + rewrite addmul_ok. apply IH; cbn [nr msub madd]; [lia| |rewrite len_msub; lia].
        assert (HX0 : solves_ll (msub L 0 0 mb1 mb1) (msub B 0 0 mb1 (nc B))
                        (ll_rec base middle addmul bsz cutoff f (msub L 0 0 mb1 mb1) (msub B 0 0 mb1 (nc B)))).
        { apply IH; cbn [nr msub]; [lia|apply wf_msub; lia|rewrite len_msub; lia]. }
        destruct HX0 as (Hw0 & Hr0 & Hc0 & _). cbn [nr nc msub] in Hr0, Hc0.
        apply wf_madd; [apply wf_msub; lia|apply wf_mmul; [apply wf_msub; lia|assumption]|reflexivity|].
        cbn [nc msub mmul]. congruence.
  Qed.
End GenericLL.

Section GenericUL.
  Variables (base middle : mat -> mat -> mat) (addmul : nat -> mat -> mat -> mat -> mat).
  Variables (bsz cutoff : nat).
  Hypothesis addmul_ok : forall C A B, addmul cutoff C A B = madd C (mmul A B).
  Hypothesis base_ok : forall U B, wf B -> nr B <= length (rows U) -> nr B <= radix ->
    solves_ul U B (base U B).
  Hypothesis middle_ok : forall U B, wf B -> nr B <= length (rows U) -> radix < nr B <= bsz ->
    solves_ul U B (middle U B).

  Theorem ul_rec_solves : forall fuel U B, nr B <= fuel -> wf B -> nr B <= length (rows U) ->
    solves_ul U B (ul_rec base middle addmul bsz cutoff fuel U B).
  Proof.
    induction fuel as [|f IH]; intros U B Hf HB HL; cbn [ul_rec].
    - apply solves_ul_empty; [assumption|lia].
    - destruct (Nat.leb_spec (nr B) radix) as [H1|H1]; [now apply base_ok|].
      destruct (Nat.leb_spec (nr B) bsz) as [H2|H2]; [apply middle_ok; auto; lia|].
      pose proof (split_bounds (nr B) H1) as Hs. set (mb1 := split (nr B)) in *.
      pose proof (wf_len B HB) as HlB.
      apply (ul_compose U B mb1 (nr B - mb1)); auto; try lia.
      + apply IH; cbn [nr msub]; [lia|apply wf_msub; lia|rewrite len_msub; lia].
      + rewrite addmul_ok. apply IH; cbn [nr msub madd]; [lia| |rewrite len_msub; lia].
        assert (HX1 : solves_ul (msub U mb1 mb1 (nr B - mb1) (nr B - mb1)) (msub B mb1 0 (nr B - mb1) (nc B))
                        (ul_rec base middle addmul bsz cutoff f (msub U mb1 mb1 (nr B - mb1) (nr B - mb1))
                                (msub B mb1 0 (nr B - mb1) (nc B)))).
        { apply IH; cbn [nr msub]; [lia|apply wf_msub; lia|rewrite len_msub; lia]. }
        destruct HX1 as (Hw1 & Hr1 & Hc1 & _). cbn [nr nc msub] in Hr1, Hc1.
        apply wf_madd; [apply wf_msub; lia|apply wf_mmul; [apply wf_msub; lia|assumption]|reflexivity|].
        cbn [nc msub mmul]. congruence.
  Qed.
End GenericUL.

Section GenericUR.
  Variables (base middle : mat -> mat -> mat) (addmul : nat -> mat -> mat -> mat -> mat).
  Variables (bsz cutoff : nat).
  Hypothesis addmul_ok : forall C A B, addmul cutoff C A B = madd C (mmul A B).
  (** the sub-routines may rely on the stored diagonal being one (the trtri middle regime does) *)
  Hypothesis base_ok : forall U B, wf B -> nc B <= length (rows U) -> diag_ones (nc B) U ->
    nc B <= radix -> solves_ur U B (base U B).
  Hypothesis middle_ok : forall U B, wf B -> nc B <= length (rows U) -> diag_ones (nc B) U ->
    radix < nc B <= bsz -> solves_ur U B (middle U B).

  Theorem ur_rec_solves : forall fuel U B, nc B <= fuel -> wf B -> nc B <= length (rows U) ->
    diag_ones (nc B) U -> solves_ur U B (ur_rec base middle addmul bsz cutoff fuel U B).
  Proof.
    induction fuel as [|f IH]; intros U B Hf HB HL HD; cbn [ur_rec].
    - apply solves_ur_empty; [assumption|lia].
    - destruct (Nat.leb_spec (nc B) radix) as [H1|H1]; [now apply base_ok|].
      destruct (Nat.leb_spec (nc B) bsz) as [H2|H2]; [apply middle_ok; auto; lia|].
      pose proof (split_bounds (nc B) H1) as Hs. set (nb1 := split (nc B)) in *.
      pose proof (wf_len B HB) as HlB.
      assert (HX0 : solves_ur (msub U 0 0 nb1 nb1) (msub B 0 0 (nr B) nb1)
                      (ur_rec base middle addmul bsz cutoff f (msub U 0 0 nb1 nb1) (msub B 0 0 (nr B) nb1))).
      { apply IH; cbn [nr nc msub]; [lia|apply wf_msub; lia|rewrite len_msub; lia|].
        apply (diag_ones_msub (nc B)); auto; lia. }
      apply (ur_compose U B nb1 (nc B - nb1)); auto; try lia.
      rewrite addmul_ok. apply IH; cbn [nr nc msub madd]; [lia| |rewrite len_msub; lia|].
      + destruct HX0 as (Hw0 & Hr0 & Hc0 & _). cbn [nr nc msub] in Hr0, Hc0.
        apply wf_madd; [apply wf_msub; lia|apply wf_mmul; [assumption|apply wf_msub; lia]| |reflexivity].
        cbn [nr msub mmul]. congruence.
      + apply (diag_ones_msub (nc B)); auto; lia.
  Qed.
End GenericUR.

Section GenericLR.
  Variables (base : mat -> mat -> mat) (addmul : nat -> mat -> mat -> mat -> mat).
  Variable cutoff : nat.
  Hypothesis addmul_ok : forall C A B, addmul cutoff C A B = madd C (mmul A B).
  Hypothesis base_ok : forall L B, wf B -> nc B <= length (rows L) -> nc B <= radix ->
    solves_lr L B (base L B).

  Theorem lr_rec_solves : forall fuel L B, nc B <= fuel -> wf B -> nc B <= length (rows L) ->
    solves_lr L B (lr_rec base addmul cutoff fuel L B).
  Proof.
    induction fuel as [|f IH]; intros L B Hf HB HL; cbn [lr_rec].
    - apply solves_lr_empty; [assumption|lia].
    - destruct (Nat.leb_spec (nc B) radix) as [H1|H1]; [now apply base_ok|].
      pose proof (split_bounds (nc B) H1) as Hs. set (nb1 := split (nc B)) in *.
      pose proof (wf_len B HB) as HlB.
      assert (HX1 : solves_lr (msub L nb1 nb1 (nc B - nb1) (nc B - nb1)) (msub B 0 nb1 (nr B) (nc B - nb1))
                      (lr_rec base addmul cutoff f (msub L nb1 nb1 (nc B - nb1) (nc B - nb1))
                              (msub B 0 nb1 (nr B) (nc B - nb1)))).
      { apply IH; cbn [nr nc msub]; [lia|apply wf_msub; lia|rewrite len_msub; lia]. }
      apply (lr_compose L B nb1 (nc B - nb1)); auto; try lia.
      rewrite addmul_ok. apply IH; cbn [nr nc msub madd]; [lia| |rewrite len_msub; lia].
      destruct HX1 as (Hw1 & Hr1 & Hc1 & _). cbn [nr nc msub] in Hr1, Hc1.
      apply wf_madd; [apply wf_msub; lia|apply wf_mmul; [assumption|apply wf_msub; lia]| |reflexivity].
      cbn [nr msub mmul]. congruence.
  Qed.
End GenericLR.

(** * 2. Simple triangular inversion ([trtri_upper_simple]) *)
Lemma get_tri_merge_upper U V i j :
  get (tri_merge_upper U V) i j = (i <? nr U) && (if j <=? i then get U i j else get V i j).
Proof.
  unfold get at 1, tri_merge_upper. destruct (Nat.ltb_spec i (nr U)) as [Hi|Hi]; cbn [andb].
  - rewrite row_mk_map by assumption. rewrite N.lor_spec, testbit_land_ones, testbit_ldiff_ones.
    unfold get. destruct (Nat.leb_spec j i), (Nat.ltb_spec j (S i)); try lia; cbn [negb].
    + now rewrite andb_true_r, andb_false_r, orb_false_r.
    + now rewrite andb_true_r, andb_false_r.
  - rewrite row_mk_map_out by assumption. apply N.bits_0.
Qed.

Lemma wf_tri_merge_upper U V : wf U -> wf V -> nc V <= nc U -> wf (tri_merge_upper U V).
Proof.
  intros HU HV Hc. unfold tri_merge_upper. apply wf_mk_map. intros i Hi. apply bounded_lor.
  - apply bounded_land_l. now apply wf_row_bounded.
  - apply bounded_ldiff. apply (bounded_mono (nc V)); [assumption|]. now apply wf_row_bounded.
Qed.

(** the inverse of [unit_upper n U], as computed by back substitution against the identity *)
Definition upper_inv (n : nat) (U : mat) : mat := trsm_upper_left U (mid n).

Lemma upper_inv_spec n U : let W := upper_inv n U in
  is_unit_upper n W /\ mmul (unit_upper n U) W = mid n /\ mmul W (unit_upper n U) = mid n.
Proof.
  intros W. split; [apply trsm_upper_left_id_triangular|].
  destruct (upper_two_sided n U) as (_ & _ & _ & H1 & H2). auto.
Qed.

Lemma upper_inv_unique n U X : wf X -> nr X = n -> mmul (unit_upper n U) X = mid n -> X = upper_inv n U.
Proof.
  intros HX Hr E. unfold upper_inv. apply trsm_upper_left_complete; auto with wf.
Qed.

(** specification of in-place triangular inversion: the stored lower triangle and diagonal are
    untouched, the strict upper triangle becomes that of the inverse of [unit_upper n U] *)
Definition trtri_ok (n : nat) (U V : mat) : Prop :=
  wf V /\ nr V = n /\ nc V = n /\ (forall i j, j <= i -> get V i j = get U i j) /\
  unit_upper n V = upper_inv n U.

Theorem trtri_upper_simple_ok n U : wf U -> nr U = n -> nc U = n -> trtri_ok n U (trtri_upper_simple U).
Proof.
  intros HU Hr Hc. unfold trtri_upper_simple. rewrite Hr. fold (upper_inv n U).
  destruct (upper_inv_spec n U) as ((HwW & HrW & HcW & HdW & HzW) & _). set (W := upper_inv n U) in *.
  assert (HwV : wf (tri_merge_upper U W)) by (apply wf_tri_merge_upper; auto; lia).
  refine (conj HwV (conj Hr (conj Hc (conj _ _)))).
  - intros i j Hji. rewrite get_tri_merge_upper. destruct (Nat.leb_spec j i); [|lia].
    destruct (Nat.ltb_spec i (nr U)); [reflexivity|]. symmetry. apply get_out_row; [assumption|lia].
  - apply mat_ext; auto with wf. intros i j Hi Hj. cbn [nr nc unit_upper] in Hi, Hj.
    rewrite get_unit_upper, get_tri_merge_upper, Hr.
    destruct (Nat.ltb_spec i n); [|lia]. destruct (Nat.ltb_spec j n); [|lia]. cbn [andb].
    destruct (Nat.eqb_spec i j) as [->|Hne]; cbn [orb]; [now rewrite HdW|].
    destruct (Nat.ltb_spec i j); cbn [andb].
    + destruct (Nat.leb_spec j i); [lia|reflexivity].
    + symmetry. apply HzW. lia.
Qed.

(** the specification determines the result *)
Lemma trtri_ok_unique n U V V' : trtri_ok n U V -> trtri_ok n U V' -> V = V'.
Proof.
  intros (Hw & Hr & Hc & Hl & Hu) (Hw' & Hr' & Hc' & Hl' & Hu').
  apply mat_ext; auto; try congruence. intros i j Hi Hj. rewrite Hr in Hi. rewrite Hc in Hj.
  destruct (Nat.le_gt_cases j i) as [Hji|Hij]; [now rewrite Hl, Hl'|].
  assert (E : get (unit_upper n V) i j = get (unit_upper n V') i j) by now rewrite Hu, Hu'.
  rewrite !get_unit_upper in E.
  destruct (Nat.ltb_spec i n); [|lia]. destruct (Nat.ltb_spec j n); [|lia].
  destruct (Nat.eqb_spec i j); [lia|]. destruct (Nat.ltb_spec i j); [|lia]. exact E.
Qed.

Corollary trtri_ok_products n U V : trtri_ok n U V ->
  mmul (unit_upper n U) (unit_upper n V) = mid n /\ mmul (unit_upper n V) (unit_upper n U) = mid n.
Proof.
  intros (_ & _ & _ & _ & E). rewrite E. destruct (upper_inv_spec n U) as (_ & H1 & H2). auto.
Qed.

(** on a genuine unit upper triangular matrix: the result is its inverse, again unit upper triangular *)
Corollary trtri_ok_unit n U V : is_unit_upper n U -> trtri_ok n U V ->
  is_unit_upper n V /\ mmul U V = mid n /\ mmul V U = mid n.
Proof.
  intros HU HV. pose proof HU as (HwU & HrU & HcU & HdU & HzU).
  pose proof HV as (Hw & Hr & Hc & Hl & Hu).
  assert (HVu : is_unit_upper n V).
  { refine (conj Hw (conj Hr (conj Hc (conj _ _)))).
    - intros i Hi. rewrite Hl by lia. now apply HdU.
    - intros i j Hji. rewrite Hl by lia. now apply HzU. }
  split; [assumption|]. destruct (trtri_ok_products n U V HV) as [H1 H2].
  now rewrite (is_unit_upper_fix n U HU), (is_unit_upper_fix n V HVu) in H1, H2.
Qed.

(** * 3. The middle regime of upper_right: extract_u, trtri, multiply (triangular.c:52-59) *)
Lemma extract_u_unit n U : n <= length (rows U) -> diag_ones n U ->
  extract_u (msub U 0 0 n n) = unit_upper n U.
Proof.
  intros Hl Hd. assert (HwS : wf (msub U 0 0 n n)) by (apply wf_msub; lia).
  apply mat_ext; auto with wf.
  - now apply wf_extract_u.
  - unfold extract_u. cbn [nr nc msub map_rows unit_upper]. lia.
  - unfold extract_u. cbn [nr nc msub map_rows unit_upper]. lia.
  - intros i j _ _. rewrite get_extract_u by assumption. cbn [nr nc msub]. rewrite Nat.min_id.
    rewrite get_msub, get_unit_upper by lia. cbn [Nat.add].
    destruct (Nat.ltb_spec i n) as [Hi|Hi]; cbn [andb]; [|reflexivity].
    destruct (Nat.ltb_spec j n) as [Hj|Hj]; cbn [andb].
    + destruct (Nat.eqb_spec i j) as [->|Hne]; cbn [orb].
      * rewrite Nat.leb_refl, Hd by assumption. reflexivity.
      * destruct (Nat.leb_spec i j), (Nat.ltb_spec i j); try lia; reflexivity.
    + destruct (Nat.eqb_spec i j); [lia|]. now rewrite andb_false_r.
Qed.

Theorem ur_middle_solves U B : wf B -> nc B <= length (rows U) -> diag_ones (nc B) U ->
  solves_ur U B (ur_middle U B).
Proof.
  intros HB Hl Hd. unfold ur_middle. set (n := nc B) in *.
  rewrite (extract_u_unit n U Hl Hd).
  pose proof (unit_upper_is n U) as HUU.
  pose proof (trtri_upper_simple_ok n (unit_upper n U) (wf_unit_upper n U) eq_refl eq_refl) as Hok.
  destruct (trtri_ok_unit n _ _ HUU Hok) as ((HwV & HrV & HcV & _) & _ & E).
  set (V := trtri_upper_simple (unit_upper n U)) in *.
  refine (conj _ (conj eq_refl (conj _ _))).
  - auto with wf.
  - cbn [nc mmul]. exact HcV.
  - fold n. rewrite mmul_assoc, E. now apply mmul_id_r.
Qed.

(** * 4. The models run against the C library equal the substitution models *)
Lemma addmul_spec_ok cutoff C A B : addmul_spec cutoff C A B = madd C (mmul A B).
Proof. reflexivity. Qed.

Theorem trsm_lower_left_rec_spec c cutoff L B : wf B -> nr B <= length (rows L) ->
  trsm_lower_left_rec c cutoff L B = trsm_lower_left L B.
Proof.
  intros HB HL. unfold trsm_lower_left_rec.
  destruct (ll_rec_solves trsm_lower_left trsm_lower_left addmul_spec (blocksize c) cutoff
              (addmul_spec_ok cutoff)
              (fun L B HB _ _ => trsm_lower_left_spec L B HB)
              (fun L B HB _ _ => trsm_lower_left_spec L B HB)
              (nr B) L B (le_n _) HB HL) as (Hw & Hr & _ & E).
  now apply trsm_lower_left_complete.
Qed.

Theorem trsm_upper_left_rec_spec c cutoff U B : wf B -> nr B <= length (rows U) ->
  trsm_upper_left_rec c cutoff U B = trsm_upper_left U B.
Proof.
  intros HB HL. unfold trsm_upper_left_rec.
  destruct (ul_rec_solves trsm_upper_left trsm_upper_left addmul_spec (blocksize c) cutoff
              (addmul_spec_ok cutoff)
              (fun U B HB _ _ => trsm_upper_left_spec U B HB)
              (fun U B HB _ _ => trsm_upper_left_spec U B HB)
              (nr B) U B (le_n _) HB HL) as (Hw & Hr & _ & E).
  now apply trsm_upper_left_complete.
Qed.

(** upper right: the middle regime (64 < n <= blocksize) inverts extract_u(U), which contains the
    STORED diagonal: the equation needs ones there ([trsm_upper_right_rec_reads_diagonal] below) *)
Theorem trsm_upper_right_rec_spec c cutoff U B : wf B -> nc B <= length (rows U) ->
  diag_ones (nc B) U -> trsm_upper_right_rec c cutoff U B = trsm_upper_right U B.
Proof.
  intros HB HL HD. unfold trsm_upper_right_rec.
  destruct (ur_rec_solves trsm_upper_right ur_middle addmul_spec (blocksize c) cutoff
              (addmul_spec_ok cutoff)
              (fun U B HB _ _ _ => trsm_upper_right_spec U B HB)
              (fun U B HB HL HD _ => ur_middle_solves U B HB HL HD)
              (nc B) U B (le_n _) HB HL HD) as (Hw & _ & Hc & E).
  now apply trsm_upper_right_complete.
Qed.

(** without the middle regime (n <= 64, or blocksize <= 64) the diagonal is never read *)
Theorem trsm_upper_right_rec_spec_nomiddle c cutoff U B : wf B -> nc B <= length (rows U) ->
  (nc B <= radix \/ blocksize c <= radix) -> trsm_upper_right_rec c cutoff U B = trsm_upper_right U B.
Proof.
  intros HB HL Hn. unfold trsm_upper_right_rec.
  assert (H : forall fuel U B, nc B <= fuel -> wf B -> nc B <= length (rows U) ->
            (nc B <= radix \/ blocksize c <= radix) ->
            solves_ur U B (ur_rec trsm_upper_right ur_middle addmul_spec (blocksize c) cutoff fuel U B)).
  { clear. induction fuel as [|f IH]; intros U B Hf HB HL Hn; cbn [ur_rec].
    - apply solves_ur_empty; [assumption|lia].
    - destruct (Nat.leb_spec (nc B) radix) as [H1|H1]; [now apply trsm_upper_right_spec|].
      destruct (Nat.leb_spec (nc B) (blocksize c)) as [H2|H2]; [lia|].
      pose proof (split_bounds (nc B) H1) as Hs. set (nb1 := split (nc B)) in *.
      pose proof (wf_len B HB) as HlB.
      assert (HX0 : solves_ur (msub U 0 0 nb1 nb1) (msub B 0 0 (nr B) nb1)
                (ur_rec trsm_upper_right ur_middle addmul_spec (blocksize c) cutoff f
                        (msub U 0 0 nb1 nb1) (msub B 0 0 (nr B) nb1))).
      { apply IH; cbn [nr nc msub]; [lia|apply wf_msub; lia|rewrite len_msub; lia|lia]. }
      apply (ur_compose U B nb1 (nc B - nb1)); auto; try lia.
      rewrite addmul_spec_ok. apply IH; cbn [nr nc msub madd]; [lia| |rewrite len_msub; lia|lia].
      destruct HX0 as (Hw0 & Hr0 & Hc0 & _). cbn [nr nc msub] in Hr0, Hc0.
      apply wf_madd; [apply wf_msub; lia|apply wf_mmul; [assumption|apply wf_msub; lia]| |reflexivity].
      cbn [nr msub mmul]. congruence. }
  destruct (H (nc B) U B (le_n _) HB HL Hn) as (Hw & _ & Hc & E).
  now apply trsm_upper_right_complete.
Qed.

Theorem trsm_lower_right_rec_spec c cutoff L B : wf B -> nc B <= length (rows L) ->
  trsm_lower_right_rec c cutoff L B = trsm_lower_right L B.
Proof.
  intros HB HL. unfold trsm_lower_right_rec.
  destruct (lr_rec_solves trsm_lower_right addmul_spec cutoff
              (addmul_spec_ok cutoff)
              (fun L B HB _ _ => trsm_lower_right_spec L B HB)
              (nc B) L B (le_n _) HB HL) as (Hw & _ & Hc & E).
  now apply trsm_lower_right_complete.
Qed.

(** * 5. Consequences: equation, uniqueness, only the named triangle is read *)
Theorem trsm_lower_left_rec_correct c cutoff L B : wf B -> nr B <= length (rows L) ->
  let n := nr B in let X := trsm_lower_left_rec c cutoff L B in
  wf X /\ nr X = nr B /\ nc X = nc B /\ mmul (unit_lower n L) X = B /\
  (forall Y, wf Y -> nr Y = n -> mmul (unit_lower n L) Y = B -> Y = X) /\
  (forall L', nr B <= length (rows L') -> (forall i j, j < i -> i < n -> get L i j = get L' i j) ->
     trsm_lower_left_rec c cutoff L' B = X).
Proof.
  intros HB HL n X. unfold X. rewrite trsm_lower_left_rec_spec by assumption.
  destruct (trsm_lower_left_spec L B HB) as (Hw & Hr & Hc & E).
  refine (conj Hw (conj Hr (conj Hc (conj E (conj _ _))))).
  - intros Y HY HrY EY. now apply trsm_lower_left_complete.
  - intros L' HL' Hext. rewrite trsm_lower_left_rec_spec by assumption. symmetry.
    now apply trsm_lower_left_other_triangle_irrelevant.
Qed.

Theorem trsm_upper_left_rec_correct c cutoff U B : wf B -> nr B <= length (rows U) ->
  let n := nr B in let X := trsm_upper_left_rec c cutoff U B in
  wf X /\ nr X = nr B /\ nc X = nc B /\ mmul (unit_upper n U) X = B /\
  (forall Y, wf Y -> nr Y = n -> mmul (unit_upper n U) Y = B -> Y = X) /\
  (forall U', nr B <= length (rows U') -> (forall i j, i < j -> j < n -> get U i j = get U' i j) ->
     trsm_upper_left_rec c cutoff U' B = X).
Proof.
  intros HB HL n X. unfold X. rewrite trsm_upper_left_rec_spec by assumption.
  destruct (trsm_upper_left_spec U B HB) as (Hw & Hr & Hc & E).
  refine (conj Hw (conj Hr (conj Hc (conj E (conj _ _))))).
  - intros Y HY HrY EY. now apply trsm_upper_left_complete.
  - intros U' HL' Hext. rewrite trsm_upper_left_rec_spec by assumption. symmetry.
    now apply trsm_upper_left_other_triangle_irrelevant.
Qed.

Theorem trsm_upper_right_rec_correct c cutoff U B : wf B -> nc B <= length (rows U) ->
  diag_ones (nc B) U ->
  let n := nc B in let X := trsm_upper_right_rec c cutoff U B in
  wf X /\ nr X = nr B /\ nc X = nc B /\ mmul X (unit_upper n U) = B /\
  (forall Y, wf Y -> nc Y = n -> mmul Y (unit_upper n U) = B -> Y = X) /\
  (forall U', nc B <= length (rows U') -> diag_ones n U' ->
     (forall i j, i < j -> j < n -> get U i j = get U' i j) ->
     trsm_upper_right_rec c cutoff U' B = X).
Proof.
  intros HB HL HD n X. unfold X. rewrite trsm_upper_right_rec_spec by assumption.
  destruct (trsm_upper_right_spec U B HB) as (Hw & Hr & Hc & E).
  refine (conj Hw (conj Hr (conj Hc (conj E (conj _ _))))).
  - intros Y HY HcY EY. now apply trsm_upper_right_complete.
  - intros U' HL' HD' Hext. rewrite trsm_upper_right_rec_spec by assumption. symmetry.
    now apply trsm_upper_right_other_triangle_irrelevant.
Qed.

Theorem trsm_lower_right_rec_correct c cutoff L B : wf B -> nc B <= length (rows L) ->
  let n := nc B in let X := trsm_lower_right_rec c cutoff L B in
  wf X /\ nr X = nr B /\ nc X = nc B /\ mmul X (unit_lower n L) = B /\
  (forall Y, wf Y -> nc Y = n -> mmul Y (unit_lower n L) = B -> Y = X) /\
  (forall L', nc B <= length (rows L') -> (forall i j, j < i -> i < n -> get L i j = get L' i j) ->
     trsm_lower_right_rec c cutoff L' B = X).
Proof.
  intros HB HL n X. unfold X. rewrite trsm_lower_right_rec_spec by assumption.
  destruct (trsm_lower_right_spec L B HB) as (Hw & Hr & Hc & E).
  refine (conj Hw (conj Hr (conj Hc (conj E (conj _ _))))).
  - intros Y HY HcY EY. now apply trsm_lower_right_complete.
  - intros L' HL' Hext. rewrite trsm_lower_right_rec_spec by assumption. symmetry.
    now apply trsm_lower_right_other_triangle_irrelevant.
Qed.

(** The diagonal hypothesis of the upper-right variant cannot be dropped: for 64 < n <= blocksize the
    model (like mzd_trsm_upper_right, checked against the library: n = 65, 100, 200 with a zeroed
    diagonal give a different X than with a unit diagonal, the other three variants do not care)
    multiplies by the inverse of extract_u(U), which contains the stored diagonal. *)
Lemma trsm_upper_right_rec_reads_diagonal :
  exists c U B, wf U /\ wf B /\ nr U = nc U /\ nr U = nc B /\
    trsm_upper_right_rec c 0 U B <> trsm_upper_right U B.
Proof.
  exists (mkcfg 2048 8388608 false), (mzero 65 65), (mk 1 65 [1%N]).
  split; [apply wf_mzero|]. split; [apply wfb_spec; vm_compute; reflexivity|].
  split; [reflexivity|]. split; [reflexivity|].
  intros H. apply (f_equal rows) in H. vm_compute in H. discriminate.
Qed.

(** * 6. The public wrappers (mzd_trsm_*, triangular.c:41-50, 301-310, 396-404, 457-465) die unless
    T is square and its dimension matches B; under these checks the storage condition holds. *)
Lemma wrapper_dims_left T B : wf T -> nr T = nc T -> nc T = nr B -> nr B <= length (rows T).
Proof. intros HT H1 H2. rewrite (wf_len T HT). lia. Qed.

Lemma wrapper_dims_right T B : wf T -> nr T = nc T -> nr T = nc B -> nc B <= length (rows T).
Proof. intros HT H1 H2. rewrite (wf_len T HT). lia. Qed.

Corollary mzd_trsm_lower_left_correct c cutoff L B : wf L -> wf B -> nr L = nc L -> nc L = nr B ->
  let X := trsm_lower_left_rec c cutoff L B in
  wf X /\ nr X = nr B /\ nc X = nc B /\ mmul (unit_lower (nr L) L) X = B /\
  (forall Y, wf Y -> nr Y = nr L -> mmul (unit_lower (nr L) L) Y = B -> Y = X).
Proof.
  intros HL HB H1 H2 X.
  destruct (trsm_lower_left_rec_correct c cutoff L B HB (wrapper_dims_left L B HL H1 H2)) as (a & b & d & e & f & _).
  replace (nr L) with (nr B) by lia. auto.
Qed.

Corollary mzd_trsm_upper_left_correct c cutoff U B : wf U -> wf B -> nr U = nc U -> nc U = nr B ->
  let X := trsm_upper_left_rec c cutoff U B in
  wf X /\ nr X = nr B /\ nc X = nc B /\ mmul (unit_upper (nr U) U) X = B /\
  (forall Y, wf Y -> nr Y = nr U -> mmul (unit_upper (nr U) U) Y = B -> Y = X).
Proof.
  intros HU HB H1 H2 X.
  destruct (trsm_upper_left_rec_correct c cutoff U B HB (wrapper_dims_left U B HU H1 H2)) as (a & b & d & e & f & _).
  replace (nr U) with (nr B) by lia. auto.
Qed.

Corollary mzd_trsm_upper_right_correct c cutoff U B : wf U -> wf B -> nr U = nc U -> nr U = nc B ->
  diag_ones (nr U) U ->
  let X := trsm_upper_right_rec c cutoff U B in
  wf X /\ nr X = nr B /\ nc X = nc B /\ mmul X (unit_upper (nr U) U) = B /\
  (forall Y, wf Y -> nc Y = nr U -> mmul Y (unit_upper (nr U) U) = B -> Y = X).
Proof.
  intros HU HB H1 H2 HD X. pose proof (wrapper_dims_right U B HU H1 H2) as Hl. rewrite H2 in *.
  destruct (trsm_upper_right_rec_correct c cutoff U B HB Hl HD) as (a & b & d & e & f & _). auto.
Qed.

Corollary mzd_trsm_lower_right_correct c cutoff L B : wf L -> wf B -> nr L = nc L -> nr L = nc B ->
  let X := trsm_lower_right_rec c cutoff L B in
  wf X /\ nr X = nr B /\ nc X = nc B /\ mmul X (unit_lower (nr L) L) = B /\
  (forall Y, wf Y -> nc Y = nr L -> mmul Y (unit_lower (nr L) L) = B -> Y = X).
Proof.
  intros HL HB H1 H2 X. pose proof (wrapper_dims_right L B HL H1 H2) as Hl. rewrite H2 in *.
  destruct (trsm_lower_right_rec_correct c cutoff L B HB Hl) as (a & b & d & e & f & _). auto.
Qed.
