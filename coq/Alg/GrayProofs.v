(* Alg/GrayProofs.v — proofs about Alg/Gray.v:
   - closed forms of m4ri_gray_code / m4ri_build_code, for EVERY length l (no sweep needed);
   - [codebook_ok l] for every l (in particular 1..16 = __M4RI_MAXKAY);
   - [gray_lookup]: after mzd_make_table started from arbitrary stale T0 / uninitialised L0 the
     row found through L for bit pattern x is the xor of exactly the rows selected by x. *)
From Coq Require Import List NArith ZArith Arith Lia Bool Permutation ZifyBool ZifyNat ZifyN.
From M4 Require Import Base.Bits Lin.Mat Lin.Ops Alg.Gray.
Import ListNotations.
Local Open Scope nat_scope.

(** * 1. m4ri_gray_code *)
Lemma testbit_bitmask n i j :
  N.testbit (N.land n (N.shiftl 1 (N.of_nat i))) (N.of_nat j) = N.testbit n (N.of_nat j) && (i =? j).
Proof. rewrite N.land_spec, N.shiftl_1_l, testbit_pow2_nat. reflexivity. Qed.

Lemma testbit_shiftr1_nat a j : N.testbit (N.shiftr a 1) (N.of_nat j) = N.testbit a (N.of_nat (S j)).
Proof. change 1%N with (N.of_nat 1). rewrite testbit_shiftr_nat. f_equal. f_equal. lia. Qed.

Lemma gray_loop_spec n i : forall lb res j,
  (forall j', j' < i -> N.testbit res (N.of_nat j') = false) ->
  (forall j', j' <> i -> N.testbit lb (N.of_nat j') = false) ->
  N.testbit (gray_loop n i lb res) (N.of_nat j) =
    if j <? i then xorb (N.testbit n (N.of_nat j))
                        (if S j <? i then N.testbit n (N.of_nat (S j)) else N.testbit lb (N.of_nat (S j)))
    else N.testbit res (N.of_nat j).
Proof.
  induction i as [|i IH]; intros lb res j Hres Hlb; cbn [gray_loop].
  - destruct (Nat.ltb_spec j 0); [lia|reflexivity].
  - rewrite IH.
    + destruct (Nat.ltb_spec j i) as [Hji|Hji].
      * destruct (Nat.ltb_spec j (S i)); [|lia]. f_equal.
        rewrite testbit_bitmask.
        destruct (Nat.ltb_spec (S j) i), (Nat.ltb_spec (S j) (S i)); try lia; try reflexivity.
      * rewrite N.lor_spec, N.lxor_spec, testbit_shiftr1_nat, testbit_bitmask.
        destruct (Nat.ltb_spec j (S i)) as [Hj|Hj].
        -- assert (j = i) by lia. subst j. rewrite Hres by lia. rewrite Nat.eqb_refl, andb_true_r.
           destruct (Nat.ltb_spec (S i) (S i)); [lia|]. cbn [orb]. apply xorb_comm.
        -- rewrite (Hlb (S j)) by lia. destruct (Nat.eqb_spec i j); [lia|].
           rewrite andb_false_r. cbn [xorb]. apply orb_false_r.
    + intros j' Hj'. rewrite N.lor_spec, N.lxor_spec, testbit_shiftr1_nat, testbit_bitmask.
      rewrite Hres by lia. rewrite (Hlb (S j')) by lia. destruct (Nat.eqb_spec i j'); [lia|].
      now rewrite andb_false_r.
    + intros j' Hj'. rewrite testbit_bitmask. destruct (Nat.eqb_spec i j'); [lia|]. apply andb_false_r.
Qed.

Lemma gray_code_bits n l j :
  N.testbit (gray_code n l) (N.of_nat j) =
  (j <? l) && xorb (N.testbit n (N.of_nat j)) ((S j <? l) && N.testbit n (N.of_nat (S j))).
Proof.
  unfold gray_code. rewrite gray_loop_spec.
  - destruct (j <? l); cbn [andb]; [|apply N.bits_0]. f_equal.
  - intros; apply N.bits_0.
  - intros; apply N.bits_0.
Qed.

Lemma gray_code_bounded n l : bounded l (gray_code n l).
Proof. intros j Hj. rewrite gray_code_bits. destruct (Nat.ltb_spec j l); [lia|reflexivity]. Qed.

(** the closed form: the standard reflected binary Gray code *)
Definition gray (n : N) : N := N.lxor n (N.shiftr n 1).

Lemma gray_code_closed n l : bounded l n -> gray_code n l = gray n.
Proof.
  intros Hn. apply bits_ext_nat. intros j. unfold gray.
  rewrite gray_code_bits, N.lxor_spec, testbit_shiftr1_nat.
  destruct (Nat.ltb_spec j l) as [Hj|Hj]; cbn [andb].
  - destruct (Nat.ltb_spec (S j) l) as [Hj'|Hj']; cbn [andb]; [reflexivity|].
    now rewrite (Hn (S j)) by lia.
  - now rewrite (Hn j), (Hn (S j)) by lia.
Qed.

Lemma shiftr1_fix d : N.shiftr d 1 = d -> d = 0%N.
Proof.
  rewrite N.shiftr_div_pow2. change (2 ^ 1)%N with 2%N. intros H.
  destruct (N.eq_dec d 0) as [|Hd]; [assumption|exfalso].
  assert (d / 2 < d)%N by (apply N.div_lt; lia). lia.
Qed.

Lemma gray_inj a b : gray a = gray b -> a = b.
Proof.
  unfold gray. intros H. apply N.lxor_eq. apply shiftr1_fix.
  apply bits_ext_nat. intros j. rewrite testbit_shiftr1_nat, !N.lxor_spec.
  assert (Hj : N.testbit (N.lxor a (N.shiftr a 1)) (N.of_nat j) =
               N.testbit (N.lxor b (N.shiftr b 1)) (N.of_nat j)) by now rewrite H.
  rewrite !N.lxor_spec, !testbit_shiftr1_nat in Hj.
  destruct (N.testbit a (N.of_nat j)), (N.testbit b (N.of_nat j)),
           (N.testbit a (N.of_nat (S j))), (N.testbit b (N.of_nat (S j))); cbn in *; congruence.
Qed.

(** * 2. trailing zeros and the Gray step *)
Lemma tz_double n : n <> 0%N -> tz (2 * n) = S (tz n).
Proof. destruct n as [|p]; [congruence|reflexivity]. Qed.
Lemma tz_odd n : tz (2 * n + 1) = 0.
Proof. destruct n as [|p]; reflexivity. Qed.

Lemma tz_spec n : n <> 0%N ->
  N.testbit n (N.of_nat (tz n)) = true /\ forall j, j < tz n -> N.testbit n (N.of_nat j) = false.
Proof.
  destruct n as [|p]; [congruence|intros _]. unfold tz.
  induction p as [p IH|p IH|].
  - cbn [ctz_pos]. split; [reflexivity|intros; lia].
  - cbn [ctz_pos]. destruct IH as [IH1 IH2]. split.
    + rewrite Nat2N.inj_succ. change (N.pos p~0) with (2 * N.pos p)%N.
      rewrite N.testbit_even_succ by lia. exact IH1.
    + intros [|j] Hj; [reflexivity|]. rewrite Nat2N.inj_succ. change (N.pos p~0) with (2 * N.pos p)%N.
      rewrite N.testbit_even_succ by lia. apply IH2. lia.
  - cbn [ctz_pos]. split; [reflexivity|intros; lia].
Qed.

(** n xor (n+1) = 2^(tz(n+1)+1) - 1 *)
Lemma lxor_succ_bits n : forall j,
  N.testbit (N.lxor n (n + 1)) (N.of_nat j) = (j <=? tz (n + 1)).
Proof.
  induction n as [|n IH|n IH] using N.binary_ind; intros j.
  - change (N.lxor 0 (0 + 1)) with (2 ^ N.of_nat 0)%N. change (tz (0 + 1)) with 0.
    rewrite testbit_pow2_nat. destruct j; reflexivity.
  - (* n even: double n, n+1 odd *)
    rewrite N.double_spec. rewrite tz_odd, N.lxor_spec.
    destruct j as [|j].
    + change (N.of_nat 0) with 0%N. now rewrite N.testbit_even_0, N.testbit_odd_0.
    + rewrite Nat2N.inj_succ, N.testbit_even_succ, N.testbit_odd_succ by lia.
      rewrite xorb_nilpotent. symmetry. apply Nat.leb_gt. lia.
  - (* n odd: succ_double n, n+1 = 2(n+1) *)
    rewrite N.succ_double_spec. replace (2 * n + 1 + 1)%N with (2 * (n + 1))%N by lia.
    rewrite tz_double by lia. rewrite N.lxor_spec.
    destruct j as [|j].
    + change (N.of_nat 0) with 0%N. now rewrite N.testbit_even_0, N.testbit_odd_0.
    + rewrite Nat2N.inj_succ, N.testbit_even_succ, N.testbit_odd_succ by lia.
      rewrite <- N.lxor_spec, IH. reflexivity.
Qed.

Lemma gray_step n : gray (n + 1) = N.lxor (gray n) (2 ^ N.of_nat (tz (n + 1))).
Proof.
  apply bits_ext_nat. intros j. unfold gray.
  rewrite !N.lxor_spec, !testbit_shiftr1_nat, testbit_pow2_nat.
  pose proof (lxor_succ_bits n j) as H1. pose proof (lxor_succ_bits n (S j)) as H2.
  rewrite N.lxor_spec in H1, H2.
  destruct (N.testbit n (N.of_nat j)), (N.testbit (n + 1) (N.of_nat j)),
           (N.testbit n (N.of_nat (S j))), (N.testbit (n + 1) (N.of_nat (S j)));
  cbn [xorb] in *; destruct (Nat.eqb_spec (tz (n + 1)) j); lia.
Qed.

(** divisibility by 2^d = at least d trailing zeros *)
Lemma mod_pow2_tz n d : n <> 0%N -> ((n mod 2 ^ N.of_nat d = 0)%N <-> d <= tz n).
Proof.
  intros Hn. destruct (tz_spec n Hn) as [H1 H2]. rewrite <- N.land_ones. split.
  - intros H. destruct (Nat.le_gt_cases d (tz n)) as [|Hlt]; [assumption|exfalso].
    assert (Hb : N.testbit (N.land n (N.ones (N.of_nat d))) (N.of_nat (tz n)) = true).
    { rewrite N.land_spec, H1, testbit_ones_nat. destruct (Nat.ltb_spec (tz n) d); [reflexivity|lia]. }
    rewrite H, N.bits_0 in Hb. discriminate.
  - intros Hd. apply bits_ext_nat. intros j. rewrite N.land_spec, testbit_ones_nat, N.bits_0.
    destruct (Nat.ltb_spec j d); [|apply andb_false_r]. rewrite H2 by lia. reflexivity.
Qed.

Lemma nat_mod_pow2_tz p d : (S p) mod 2 ^ d = 0 <-> d <= tz (N.of_nat (S p)).
Proof.
  rewrite <- mod_pow2_tz by lia.
  assert (E : N.of_nat (S p mod 2 ^ d) = (N.of_nat (S p) mod 2 ^ N.of_nat d)%N).
  { rewrite Nat2N.inj_mod. f_equal. rewrite Nat2N.inj_pow. reflexivity. }
  rewrite <- E. lia.
Qed.

(** * 3. list update *)
Lemma upd_length {A} i (x : A) l : length (upd i x l) = length l.
Proof. revert i; induction l as [|h t IH]; intros [|i]; cbn; auto. Qed.

Lemma nth_upd {A} i j (x d : A) l :
  nth j (upd i x l) d = if (i =? j) && (i <? length l) then x else nth j l d.
Proof.
  revert i j; induction l as [|h t IH]; intros i j.
  - cbn [length]. destruct (Nat.ltb_spec i 0); [lia|]. rewrite andb_false_r. now destruct i.
  - destruct i as [|i], j as [|j]; cbn [upd nth length]; try reflexivity.
    rewrite IH. replace (S i =? S j) with (i =? j) by (destruct (Nat.eqb_spec i j), (Nat.eqb_spec (S i) (S j)); lia).
    replace (S i <? S (length t)) with (i <? length t)
      by (destruct (Nat.ltb_spec i (length t)), (Nat.ltb_spec (S i) (S (length t))); lia).
    reflexivity.
Qed.

Lemma nth_upd_same {A} i (x d : A) l : i < length l -> nth i (upd i x l) d = x.
Proof. intros H. rewrite nth_upd, Nat.eqb_refl. destruct (Nat.ltb_spec i (length l)); [reflexivity|lia]. Qed.

Lemma nth_upd_other {A} i j (x d : A) l : i <> j -> nth j (upd i x l) d = nth j l d.
Proof. intros H. rewrite nth_upd. destruct (Nat.eqb_spec i j); [lia|reflexivity]. Qed.

(** * 4. closed form of the [inc] array *)
Lemma inc_inner_length s v m inc : length (inc_inner s v m inc) = length inc.
Proof.
  unfold inc_inner. induction m as [|m IH]; [reflexivity|].
  rewrite seq_S, fold_left_app. cbn [fold_left]. now rewrite upd_length.
Qed.

Lemma inc_inner_nth s v m : 0 < s -> forall inc p, p < length inc ->
  nth p (inc_inner s v m inc) 0 =
  if ((S p) mod s =? 0) && (S p <=? m * s) then v else nth p inc 0.
Proof.
  intros Hs inc p Hp. induction m as [|m IH].
  - cbn [inc_inner seq fold_left Nat.mul]. unfold inc_inner. cbn [seq fold_left].
    destruct (Nat.leb_spec (S p) 0); [lia|]. now rewrite andb_false_r.
  - unfold inc_inner in *. rewrite seq_S, fold_left_app. cbn [fold_left].
    rewrite nth_upd. fold (inc_inner s v m inc). rewrite inc_inner_length. unfold inc_inner. rewrite IH.
    replace (1 + m) with (S m) by lia.
    destruct (Nat.eqb_spec (S m * s - 1) p) as [E|E].
    + destruct (Nat.ltb_spec (S m * s - 1) (length inc)); [|lia]. cbn [andb].
      assert (E' : S p = S m * s) by nia.
      rewrite E'. rewrite Nat.mod_mul by lia. rewrite Nat.eqb_refl.
      destruct (Nat.leb_spec (S m * s) (S m * s)); [reflexivity|lia].
    + cbn [andb].
      destruct (Nat.eqb_spec (S p mod s) 0) as [Hm|Hm]; cbn [andb]; [|reflexivity].
      apply Nat.mod_divides in Hm; [|lia]. destruct Hm as [q Hq].
      assert (q <> S m) by nia.
      destruct (Nat.leb_spec (S p) (m * s)), (Nat.leb_spec (S p) (S m * s)); try reflexivity; nia.
Qed.

Lemma rev_seq_1 l : rev (seq 1 l) = map (fun d => l - d) (seq 0 l).
Proof.
  induction l as [|l IH]; [reflexivity|].
  rewrite seq_S, rev_app_distr. cbn [rev app]. rewrite IH.
  cbn [seq map]. f_equal. rewrite <- seq_shift, map_map. reflexivity.
Qed.

Lemma fold_left_map {A B C} (f : A -> B -> A) (g : C -> B) l a :
  fold_left f (map g l) a = fold_left (fun a x => f a (g x)) l a.
Proof. revert a; induction l as [|x l IH]; intros a; cbn; auto. Qed.

Lemma fold_left_ext_in {A B} (f g : A -> B -> A) l a :
  (forall a x, In x l -> f a x = g a x) -> fold_left f l a = fold_left g l a.
Proof.
  revert a; induction l as [|x l IH]; intros a H; cbn; [reflexivity|].
  rewrite H by now left. apply IH. intros; apply H; now right.
Qed.

(** the outer loop, re-indexed by d = l - i = 0, 1, ..., l-1 *)
Lemma build_inc_from_alt inc0 l :
  build_inc_from inc0 l =
  fold_left (fun inc d => inc_inner (2 ^ d) d (2 ^ (l - d)) inc) (seq 0 l) inc0.
Proof.
  unfold build_inc_from. rewrite rev_seq_1, fold_left_map.
  apply fold_left_ext_in. intros a d Hd. apply in_seq in Hd.
  replace (l - (l - d)) with d by lia. reflexivity.
Qed.

Lemma pow2_pos d : 0 < 2 ^ d.
Proof. induction d; cbn; lia. Qed.

Lemma inc_partial inc0 l t : t <= l ->
  let inc := fold_left (fun inc d => inc_inner (2 ^ d) d (2 ^ (l - d)) inc) (seq 0 t) inc0 in
  length inc = length inc0 /\
  forall p, p < 2 ^ l -> p < length inc0 ->
    nth p inc 0 = if t =? 0 then nth p inc0 0 else Nat.min (tz (N.of_nat (S p))) (t - 1).
Proof.
  induction t as [|t IH]; intros Ht.
  - cbn. split; [reflexivity|]. intros; reflexivity.
  - destruct IH as [IHl IHn]; [lia|].
    rewrite seq_S, fold_left_app. cbn [fold_left Nat.add]. cbv zeta. split.
    + now rewrite inc_inner_length.
    + intros p Hp Hp0. rewrite inc_inner_nth; [|apply pow2_pos|lia].
      rewrite <- Nat.pow_add_r. replace (l - t + t) with l by lia.
      destruct (Nat.leb_spec (S p) (2 ^ l)); [|lia]. rewrite andb_true_r.
      destruct (Nat.eqb_spec (S t) 0); [lia|].
      pose proof (nat_mod_pow2_tz p t) as Htz.
      destruct (Nat.eqb_spec (S p mod 2 ^ t) 0) as [Hm|Hm].
      * lia.
      * rewrite IHn by assumption. destruct (Nat.eqb_spec t 0) as [->|Ht0].
        -- exfalso. apply Hm. cbn. reflexivity.
        -- lia.
Qed.

Lemma build_inc_from_length inc0 l : length (build_inc_from inc0 l) = length inc0.
Proof. rewrite build_inc_from_alt. apply (inc_partial inc0 l l). lia. Qed.

(** every entry is overwritten: the result does not depend on the initial contents *)
Lemma build_inc_from_nth inc0 l p : 1 <= l -> length inc0 = 2 ^ l -> p < 2 ^ l ->
  nth p (build_inc_from inc0 l) 0 = Nat.min (tz (N.of_nat (S p))) (l - 1).
Proof.
  intros Hl Hlen Hp. rewrite build_inc_from_alt.
  destruct (inc_partial inc0 l l (le_n l)) as [_ H]. rewrite H by lia.
  destruct (Nat.eqb_spec l 0); [lia|reflexivity].
Qed.

Lemma build_inc_from_any inc0 inc1 l : 1 <= l -> length inc0 = 2 ^ l -> length inc1 = 2 ^ l ->
  build_inc_from inc0 l = build_inc_from inc1 l.
Proof.
  intros Hl H0 H1. apply (list_ext_nth 0); [now rewrite !build_inc_from_length, H0, H1|].
  intros p Hp. rewrite build_inc_from_length, H0 in Hp. now rewrite !build_inc_from_nth.
Qed.

Lemma of_nat_pow2 l : N.of_nat (2 ^ l) = (2 ^ N.of_nat l)%N.
Proof. now rewrite Nat2N.inj_pow. Qed.

Lemma bounded_of_nat l i : i < 2 ^ l -> bounded l (N.of_nat i).
Proof. intros H. apply bounded_lt. rewrite <- of_nat_pow2. lia. Qed.

Lemma bounded_to_nat l x : bounded l x -> N.to_nat x < 2 ^ l.
Proof. intros H. apply bounded_lt in H. rewrite <- of_nat_pow2 in H. lia. Qed.

Lemma build_ord_nth l i : i < 2 ^ l -> nth i (build_ord l) 0%N = gray (N.of_nat i).
Proof.
  intros Hi. unfold build_ord. rewrite (nth_map_default _ _ _ 0) by now rewrite seq_length.
  rewrite seq_nth by assumption. cbn [Nat.add]. apply gray_code_closed. now apply bounded_of_nat.
Qed.

Lemma build_ord_length l : length (build_ord l) = 2 ^ l.
Proof. unfold build_ord. now rewrite map_length, seq_length. Qed.

Theorem build_code_fast_eq l : build_code l = build_code_fast l.
Proof.
  unfold build_code, build_code_fast. f_equal.
  - apply (list_ext_nth 0%N); [now rewrite build_ord_length, map_length, seq_length|].
    intros i Hi. rewrite build_ord_length in Hi. rewrite build_ord_nth by assumption.
    rewrite (nth_map_default _ _ _ 0) by now rewrite seq_length. now rewrite seq_nth.
  - destruct l as [|l]; [reflexivity|].
    apply (list_ext_nth 0); [now rewrite build_inc_from_length, repeat_length, map_length, seq_length|].
    intros p Hp. rewrite build_inc_from_length, repeat_length in Hp.
    rewrite build_inc_from_nth by (rewrite ?repeat_length; lia).
    rewrite (nth_map_default _ _ _ 0) by now rewrite seq_length. now rewrite seq_nth.
Qed.

(** * 5. the code book is a Gray code, for every length *)
Lemma tz_lt l i : S i < 2 ^ l -> tz (N.of_nat (S i)) < l.
Proof.
  intros Hi. destruct (tz_spec (N.of_nat (S i))) as [H1 _]; [lia|].
  destruct (Nat.lt_ge_cases (tz (N.of_nat (S i))) l) as [|Hge]; [assumption|exfalso].
  rewrite (bounded_of_nat l (S i) Hi) in H1 by assumption. discriminate.
Qed.

Lemma NoDup_map_inj_in {A B} (f : A -> B) l :
  (forall x y, In x l -> In y l -> f x = f y -> x = y) -> NoDup l -> NoDup (map f l).
Proof.
  intros Hinj Hnd. induction Hnd as [|x l Hx Hnd IH]; cbn; constructor.
  - intros Hin. apply in_map_iff in Hin as [y [Hy Hyl]]. apply Hx.
    rewrite (Hinj x y); auto; [now left|now right].
  - apply IH. intros a b Ha Hb. apply Hinj; now right.
Qed.

Theorem codebook_ok_all l : codebook_ok l.
Proof.
  unfold codebook_ok, cb_ok, build_code.
  split; [apply build_ord_length|].
  split; [now rewrite build_inc_from_length, repeat_length|].
  split; [|split].
  - apply NoDup_Permutation_bis.
    + unfold build_ord. apply NoDup_map_inj_in; [|apply seq_NoDup].
      intros x y Hx Hy H. apply in_seq in Hx, Hy.
      rewrite !gray_code_closed in H by (apply bounded_of_nat; lia).
      apply gray_inj in H. lia.
    + now rewrite build_ord_length, map_length, seq_length.
    + intros x Hx. unfold build_ord in Hx. apply in_map_iff in Hx as [i [<- _]].
      apply in_map_iff. exists (N.to_nat (gray_code (N.of_nat i) l)). split; [apply N2Nat.id|].
      apply in_seq. split; [lia|]. cbn [Nat.add]. apply bounded_to_nat, gray_code_bounded.
  - rewrite build_ord_nth by apply pow2_pos. reflexivity.
  - intros i Hi. assert (Hl : 1 <= l) by (destruct l; [cbn in Hi; lia|lia]).
    rewrite build_inc_from_nth by (rewrite ?repeat_length; lia).
    pose proof (tz_lt l i Hi) as Htz. split; [lia|].
    rewrite !build_ord_nth by lia. replace (N.of_nat (S i)) with (N.of_nat i + 1)%N by lia.
    rewrite gray_step. f_equal. f_equal. f_equal. replace (N.of_nat i + 1)%N with (N.of_nat (S i)) by lia. lia.
Qed.

(** the statement of DESIGN.md (C19): all code books the library builds (__M4RI_MAXKAY = 16) *)
Corollary codebook_ok_16 k : 1 <= k <= 16 -> codebook_ok k.
Proof. intros _. apply codebook_ok_all. Qed.

(** * 6. mzd_make_table from arbitrary stale state *)
Lemma testbit_colmask c0 c1 j :
  N.testbit (colmask c0 c1) (N.of_nat j) = (c0 <=? j) && (j <? c1).
Proof.
  unfold colmask. rewrite testbit_shiftl_nat, testbit_ones_nat.
  destruct (Nat.leb_spec c0 j); cbn [andb]; [|reflexivity].
  destruct (Nat.ltb_spec (j - c0) (c1 - c0)), (Nat.ltb_spec j c1); try reflexivity; lia.
Qed.

Lemma mul_row_pow2 b rs : mul_row (2 ^ N.of_nat b) rs = nth b rs 0%N.
Proof.
  apply bits_ext_nat. intros j. rewrite testbit_mul_row.
  destruct (Nat.lt_ge_cases b (length rs)) as [Hb|Hb].
  - rewrite (xsum_single _ _ b Hb).
    + now rewrite testbit_pow2_nat, Nat.eqb_refl.
    + intros k _ Hk. rewrite testbit_pow2_nat. destruct (Nat.eqb_spec b k); [lia|reflexivity].
  - rewrite nth_overflow by assumption. rewrite N.bits_0. apply xsum_zero.
    intros k Hk. rewrite testbit_pow2_nat. destruct (Nat.eqb_spec b k); [lia|reflexivity].
Qed.

Lemma nth_block_rows M r k b : b < k -> nth b (block_rows M r k) 0%N = row M (r + b).
Proof. intros Hb. unfold block_rows, row. rewrite nth_firstn_lt by assumption. apply nth_skipn_add. Qed.

Lemma block_rows_length M r k : r + k <= length (rows M) -> length (block_rows M r k) = k.
Proof. intros H. unfold block_rows. rewrite firstn_length, skipn_length. lia. Qed.

Lemma land_lxor_distr_r a b m : N.land (N.lxor a b) m = N.lxor (N.land a m) (N.land b m).
Proof.
  apply bits_ext_nat. intros j. rewrite N.lxor_spec, !N.land_spec, N.lxor_spec.
  destruct (N.testbit a (N.of_nat j)), (N.testbit b (N.of_nat j)), (N.testbit m (N.of_nat j)); reflexivity.
Qed.

Section CodeBook.
  Variables (k : nat) (ord : list N) (inc : list nat).
  Hypothesis Hcb : cb_ok k (ord, inc).

  Lemma cb_ord_lt i : i < 2 ^ k -> N.to_nat (nth i ord 0%N) < 2 ^ k.
  Proof.
    intros Hi. destruct Hcb as (Hlo & _ & Hperm & _).
    assert (Hin : In (nth i ord 0%N) (map N.of_nat (seq 0 (2 ^ k)))).
    { apply (Permutation_in _ Hperm). apply nth_In. lia. }
    apply in_map_iff in Hin as [j [<- Hj]]. apply in_seq in Hj. lia.
  Qed.

  Lemma cb_ord_inj i j : i < 2 ^ k -> j < 2 ^ k -> nth i ord 0%N = nth j ord 0%N -> i = j.
  Proof.
    intros Hi Hj H. destruct Hcb as (Hlo & _ & Hperm & _).
    assert (Hnd : NoDup ord).
    { apply (Permutation_NoDup (Permutation_sym Hperm)).
      apply NoDup_map_inj_in; [|apply seq_NoDup]. intros; lia. }
    rewrite (NoDup_nth ord 0%N) in Hnd. apply Hnd; lia.
  Qed.

  Lemma cb_ord_surj x : (x < 2 ^ N.of_nat k)%N -> exists i, i < 2 ^ k /\ nth i ord 0%N = x.
  Proof.
    intros Hx. destruct Hcb as (Hlo & _ & Hperm & _).
    assert (Hin : In x ord).
    { apply (Permutation_in _ (Permutation_sym Hperm)). apply in_map_iff.
      exists (N.to_nat x). split; [apply N2Nat.id|]. apply in_seq. rewrite <- of_nat_pow2 in Hx. lia. }
    destruct (In_nth _ _ 0%N Hin) as [i [Hi Hn]]. exists i. split; [lia|assumption].
  Qed.

  Lemma cb_ord_0 : nth 0 ord 0%N = 0%N.
  Proof. now destruct Hcb as (_ & _ & _ & H & _). Qed.

  Lemma cb_step i : S i < 2 ^ k ->
    nth i inc 0 < k /\ nth (S i) ord 0%N = N.lxor (nth i ord 0%N) (2 ^ N.of_nat (nth i inc 0)).
  Proof. destruct Hcb as (_ & _ & _ & _ & H). apply H. Qed.

  Section Table.
    Variables (M : mat) (r : nat) (region msk : N) (T0 : list N) (L0 : list nat).
    Hypothesis Hrows : r + k <= nr M.
    Hypothesis HT0 : 2 ^ k <= length T0.
    Hypothesis HL0 : 2 ^ k <= length L0.
    Hypothesis Hzero : N.land (nth 0 T0 0%N) msk = 0%N.
    Hypothesis Hincl : forall j, N.testbit msk (N.of_nat j) = true -> N.testbit region (N.of_nat j) = true.

    Let block := block_rows M r k.
    Definition mt_target (i : nat) : N :=
      N.lor (N.ldiff (nth i T0 0%N) region) (N.land (mul_row (nth i ord 0%N) block) msk).

    Lemma land_target_msk a y : N.land (N.lor (N.ldiff a region) (N.land y msk)) msk = N.land y msk.
    Proof.
      apply bits_ext_nat. intros j. rewrite !N.land_spec, N.lor_spec, N.ldiff_spec, N.land_spec.
      pose proof (Hincl j). destruct (N.testbit msk (N.of_nat j)), (N.testbit region (N.of_nat j)),
        (N.testbit a (N.of_nat j)), (N.testbit y (N.of_nat j)); cbn in *; try reflexivity;
        try (discriminate (H eq_refl)); auto.
    Qed.

    Definition mt_inv (m : nat) (st : list N * list nat) : Prop :=
      length (fst st) = length T0 /\ length (snd st) = length L0 /\
      (forall j, 1 <= j <= m -> nth j (fst st) 0%N = mt_target j) /\
      (forall j, j = 0 \/ m < j -> nth j (fst st) 0%N = nth j T0 0%N) /\
      (forall j, j <= m -> nth (N.to_nat (nth j ord 0%N)) (snd st) 0 = j).

    Lemma mt_clean m st j : mt_inv m st -> j <= m ->
      N.land (nth j (fst st) 0%N) msk = N.land (mul_row (nth j ord 0%N) block) msk.
    Proof.
      intros (_ & _ & H1 & H2 & _) Hj. destruct j as [|j].
      - rewrite H2 by now left. rewrite Hzero, cb_ord_0, mul_row_0. reflexivity.
      - rewrite H1 by lia. apply land_target_msk.
    Qed.

    Lemma mt_inv_step m st : S m < 2 ^ k -> mt_inv m st ->
      mt_inv (S m) (mt_step (ord, inc) M r region msk st (S m)).
    Proof.
      intros Hm Hinv. pose proof (mt_clean m st m Hinv (le_n m)) as Hclean.
      destruct Hinv as (HlT & HlL & H1 & H2 & H3). destruct st as [T L]. cbn [fst snd] in *.
      destruct (cb_step m Hm) as [Hinc Hord].
      unfold mt_step. replace (S m - 1) with m by lia.
      destruct (Nat.leb_spec (nr M) (r + nth m inc 0)) as [Hskip|_]; [lia|].
      pose proof (cb_ord_lt (S m) Hm) as Hlt.
      unfold mt_inv. cbn [fst snd]. rewrite !upd_length.
      split; [assumption|]. split; [assumption|]. split; [|split].
      - intros j Hj. destruct (Nat.eq_dec j (S m)) as [->|Hne].
        + rewrite nth_upd_same by lia. rewrite (H2 (S m)) by (right; lia).
          unfold mt_target. f_equal.
          rewrite Hord, mul_row_lxor, mul_row_pow2. unfold block at 2. rewrite nth_block_rows by assumption.
          rewrite !land_lxor_distr_r, Hclean. apply N.lxor_comm.
        + rewrite nth_upd_other by lia. apply H1. lia.
      - intros j Hj. rewrite nth_upd_other by lia. apply H2. lia.
      - intros j Hj. destruct (Nat.eq_dec j (S m)) as [->|Hne].
        + apply nth_upd_same. lia.
        + rewrite nth_upd_other; [apply H3; lia|].
          intros E. apply N2Nat.inj in E. apply cb_ord_inj in E; lia.
    Qed.

    Lemma mt_inv_fold m : m < 2 ^ k ->
      mt_inv m (fold_left (mt_step (ord, inc) M r region msk) (seq 1 m) (T0, upd 0 0 L0)).
    Proof.
      induction m as [|m IH]; intros Hm.
      - cbn [seq fold_left]. unfold mt_inv. cbn [fst snd]. rewrite upd_length.
        split; [reflexivity|]. split; [reflexivity|]. split; [intros; lia|]. split; [reflexivity|].
        intros j Hj. replace j with 0 by lia. rewrite cb_ord_0. change (N.to_nat 0) with 0. apply nth_upd_same.
        pose proof (pow2_pos k). lia.
      - rewrite seq_S, fold_left_app. cbn [fold_left]. replace (1 + m) with (S m) by lia.
        apply mt_inv_step; [assumption|]. apply IH. lia.
    Qed.
  End Table.
End CodeBook.

Ltac Zify.zify_post_hook ::= Z.div_mod_to_equations.

Lemma mt_mask_incl M c j :
  N.testbit (mt_mask M c) (N.of_nat j) = true -> N.testbit (mt_region M c) (N.of_nat j) = true.
Proof.
  unfold mt_mask, mt_region, radix, mwidth. rewrite !testbit_colmask. lia.
Qed.

(** ** What mzd_make_table guarantees, for every previous content of T and L.
    Only hypothesis on the stale state: row 0 of T is zero on the columns [c, ncols) (row 0 is
    never written by the C code; the tables come from mzd_init, which zeroes them). *)
Theorem make_table_spec cb k M r c T0 L0 :
  cb_ok k cb -> r + k <= nr M -> 2 ^ k <= length T0 -> 2 ^ k <= length L0 ->
  N.land (nth 0 T0 0%N) (mt_mask M c) = 0%N ->
  let TL := make_table_cb cb M r c k T0 L0 in
  length (fst TL) = length T0 /\ length (snd TL) = length L0 /\
  (forall j, nth j (fst TL) 0%N =
     if (1 <=? j) && (j <? 2 ^ k)
     then N.lor (N.ldiff (nth j T0 0%N) (mt_region M c))
                (N.land (mul_row (nth j (fst cb) 0%N) (block_rows M r k)) (mt_mask M c))
     else nth j T0 0%N) /\
  (forall j, j < 2 ^ k -> nth (N.to_nat (nth j (fst cb) 0%N)) (snd TL) 0 = j).
Proof.
  destruct cb as [ord inc]. intros Hcb Hr HT HL Hz TL. cbn [fst].
  pose proof (pow2_pos k) as Hp.
  pose proof (mt_inv_fold k ord inc Hcb M r (mt_region M c) (mt_mask M c) T0 L0 Hr HT HL Hz
                          (mt_mask_incl M c) (2 ^ k - 1) ltac:(lia)) as Hinv.
  fold (make_table_cb (ord, inc) M r c k T0 L0) in Hinv. fold TL in Hinv.
  destruct Hinv as (H1 & H2 & H3 & H4 & H5).
  split; [assumption|]. split; [assumption|]. split.
  - intros j. destruct (Nat.leb_spec 1 j), (Nat.ltb_spec j (2 ^ k)); cbn [andb].
    + apply H3. lia.
    + apply H4. lia.
    + apply H4. lia.
    + apply H4. lia.
  - intros j Hj. apply H5. lia.
Qed.

(** masked lookup: on the columns [c, ncols) the row found through L for bit pattern x is the
    xor of exactly the rows r+b of M with bit b of x set.  Columns below 64*(c/64) keep their
    stale contents, columns 64*(c/64) .. c-1 and the padding of the last word are zero in every
    written row (see [make_table_spec]). *)
Theorem gray_lookup_masked cb k M r c T0 L0 x :
  cb_ok k cb -> r + k <= nr M -> 2 ^ k <= length T0 -> 2 ^ k <= length L0 ->
  N.land (nth 0 T0 0%N) (mt_mask M c) = 0%N ->
  (x < 2 ^ N.of_nat k)%N ->
  N.land (tlookup (make_table_cb cb M r c k T0 L0) x) (mt_mask M c) =
  N.land (mul_row x (block_rows M r k)) (mt_mask M c).
Proof.
  intros Hcb Hr HT HL Hz Hx.
  destruct (make_table_spec cb k M r c T0 L0 Hcb Hr HT HL Hz) as (_ & _ & H3 & H5).
  destruct cb as [ord inc]. cbn [fst] in *.
  destruct (cb_ord_surj k ord inc Hcb x Hx) as [i [Hi Hix]].
  unfold tlookup. rewrite <- Hix, H5 by assumption. rewrite H3.
  destruct (Nat.leb_spec 1 i), (Nat.ltb_spec i (2 ^ k)); cbn [andb]; try lia.
  - apply land_target_msk. apply mt_mask_incl.
  - assert (i = 0) by lia. subst i. rewrite Hz. rewrite (cb_ord_0 k ord inc Hcb), mul_row_0. reflexivity.
Qed.

Lemma colmask_0 n : colmask 0 n = N.ones (N.of_nat n).
Proof. unfold colmask. rewrite Nat.sub_0_r. apply N.shiftl_0_r. Qed.

Lemma land_ones_bounded n a : bounded n a -> N.land a (N.ones (N.of_nat n)) = a.
Proof.
  intros H. apply bits_ext_nat. intros j. rewrite N.land_spec, testbit_ones_nat.
  destruct (Nat.ltb_spec j n); [apply andb_true_r|]. rewrite H by assumption. reflexivity.
Qed.

Lemma ldiff_ones_bounded n a : bounded n a -> N.ldiff a (N.ones (N.of_nat n)) = 0%N.
Proof.
  intros H. apply bits_ext_nat. intros j. rewrite N.ldiff_spec, testbit_ones_nat, N.bits_0.
  destruct (Nat.ltb_spec j n); [apply andb_false_r|]. rewrite H by assumption. reflexivity.
Qed.

Lemma In_firstn' {A} n (l : list A) x : In x (firstn n l) -> In x l.
Proof. intros H. rewrite <- (firstn_skipn n l). apply in_or_app. now left. Qed.
Lemma In_skipn' {A} n (l : list A) x : In x (skipn n l) -> In x l.
Proof. intros H. rewrite <- (firstn_skipn n l). apply in_or_app. now right. Qed.

Lemma block_rows_bounded M r k : wf M -> Forall (bounded (nc M)) (block_rows M r k).
Proof.
  intros [_ Hb]. unfold block_rows. rewrite Forall_forall in *. intros x Hx.
  apply Hb. eapply In_skipn', In_firstn', Hx.
Qed.

(** ** gray_lookup (the form used by M4RM: c = 0, so whole rows are rebuilt).
    For ALL stale tables T0 and index buffers L0 (of at least 2^k entries; T0's rows as wide as
    M's rows, i.e. no bits beyond the 64*width columns that physically exist; row 0 zero), the
    table row looked up for x is exactly the xor of the rows of the block selected by x. *)
Theorem gray_lookup_cb cb k M r T0 L0 x :
  cb_ok k cb -> wf M -> r + k <= nr M -> 2 ^ k <= length T0 -> 2 ^ k <= length L0 ->
  nth 0 T0 0%N = 0%N -> Forall (bounded (radix * mwidth (nc M))) T0 ->
  (x < 2 ^ N.of_nat k)%N ->
  tlookup (make_table_cb cb M r 0 k T0 L0) x = mul_row x (block_rows M r k).
Proof.
  intros Hcb Hwf Hr HT HL Hz Hb Hx.
  assert (Hz' : N.land (nth 0 T0 0%N) (mt_mask M 0) = 0%N) by (rewrite Hz; reflexivity).
  destruct (make_table_spec cb k M r 0 T0 L0 Hcb Hr HT HL Hz') as (_ & _ & H3 & H5).
  destruct cb as [ord inc]. cbn [fst] in *.
  destruct (cb_ord_surj k ord inc Hcb x Hx) as [i [Hi Hix]].
  unfold tlookup. rewrite <- Hix, H5 by assumption. rewrite H3.
  destruct (Nat.leb_spec 1 i), (Nat.ltb_spec i (2 ^ k)); cbn [andb]; try lia.
  - unfold mt_region, mt_mask. change (0 / radix) with 0. rewrite Nat.mul_0_r, !colmask_0.
    rewrite ldiff_ones_bounded.
    + rewrite N.lor_0_l. apply land_ones_bounded. apply bounded_mul_row. now apply block_rows_bounded.
    + rewrite Forall_forall in Hb. apply Hb, nth_In. lia.
  - assert (i = 0) by lia. subst i. rewrite Hz. rewrite (cb_ord_0 k ord inc Hcb), mul_row_0. reflexivity.
Qed.

(** with the library's own code book: no hypothesis on the code book is left *)
Theorem gray_lookup k M r T0 L0 x :
  wf M -> r + k <= nr M -> 2 ^ k <= length T0 -> 2 ^ k <= length L0 ->
  nth 0 T0 0%N = 0%N -> Forall (bounded (radix * mwidth (nc M))) T0 ->
  (x < 2 ^ N.of_nat k)%N ->
  tlookup (make_table M r 0 k T0 L0) x = mul_row x (block_rows M r k).
Proof. intros. apply gray_lookup_cb; auto. apply codebook_ok_all. Qed.

Theorem gray_lookup_masked_lib k M r c T0 L0 x :
  r + k <= nr M -> 2 ^ k <= length T0 -> 2 ^ k <= length L0 ->
  N.land (nth 0 T0 0%N) (mt_mask M c) = 0%N ->
  (x < 2 ^ N.of_nat k)%N ->
  N.land (tlookup (make_table M r c k T0 L0) x) (mt_mask M c) =
  N.land (mul_row x (block_rows M r k)) (mt_mask M c).
Proof. intros. apply gray_lookup_masked; auto. apply codebook_ok_all. Qed.

(** what the table state looks like afterwards (needed to iterate: tables are reused) *)
Theorem make_table_preserves cb k M r T0 L0 w :
  cb_ok k cb -> wf M -> r + k <= nr M -> 2 ^ k <= length T0 -> 2 ^ k <= length L0 ->
  nth 0 T0 0%N = 0%N -> nc M <= w -> Forall (bounded w) T0 ->
  let TL := make_table_cb cb M r 0 k T0 L0 in
  length (fst TL) = length T0 /\ length (snd TL) = length L0 /\ nth 0 (fst TL) 0%N = 0%N /\ Forall (bounded w) (fst TL).
Proof.
  intros Hcb Hwf Hr HT HL Hz Hw Hb TL.
  assert (Hz' : N.land (nth 0 T0 0%N) (mt_mask M 0) = 0%N) by (rewrite Hz; reflexivity).
  destruct (make_table_spec cb k M r 0 T0 L0 Hcb Hr HT HL Hz') as (H1 & H2 & H3 & _).
  fold TL in H1, H2, H3. split; [assumption|]. split; [assumption|]. split.
  - rewrite H3. destruct (Nat.leb_spec 1 0); [lia|]. exact Hz.
  - apply Forall_forall. intros t Ht. destruct (In_nth _ _ 0%N Ht) as [j [Hj <-]].
    rewrite Forall_forall in Hb. rewrite H3.
    assert (Hbj : bounded w (nth j T0 0%N)) by (apply Hb, nth_In; lia).
    destruct ((1 <=? j) && (j <? 2 ^ k)); [|assumption].
    apply bounded_lor.
    + intros b Hb'. rewrite N.ldiff_spec, Hbj by assumption. reflexivity.
    + apply bounded_land_r. unfold mt_mask. rewrite colmask_0.
      apply (bounded_mono (nc M)); [assumption|apply bounded_ones].
Qed.

(** non-vacuity: garbage tables/index buffers satisfying the hypotheses exist, and the lookup
    can be evaluated *)
Example gray_lookup_example :
  let M := mk 4 70 [0x2000000000000000F1; 0x3; 0x100000000000000005; 0x3F00000000000000AA]%N in
  let T0 := [0; 0x12345; 0xFFFFFFFFFFFFFFFFFFFFFFFFFFFFFFFF; 7; 0x5555; 1; 2; 3]%N in
  let L0 := [5; 5; 9; 100; 0; 3; 3; 3] in
  map (tlookup (make_table M 1 0 3 T0 L0)) [0; 1; 2; 3; 4; 5; 6; 7]%N =
  map (fun x => mul_row x (block_rows M 1 3)) [0; 1; 2; 3; 4; 5; 6; 7]%N.
Proof. vm_compute. reflexivity. Qed.
