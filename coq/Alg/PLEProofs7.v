(* Alg/PLEProofs7.v — C03, part 7: the pieces used by the block recursion, at entry level:
   list surgery on P and Q (lo_ple, paste_list), windows, the forward substitution
   [trsm_lower_left_ref], and _mzd_compress_l (column swaps on the rows r1 .. r1+r2-1, word-wise
   moves and clearing on the rows below). *)
From Coq Require Import List NArith Arith Lia Bool ZArith ZifyBool ZifyNat ZifyN.
From M4 Require Import Base.Bits Lin.Mat Lin.MatAlg Lin.Ops Lin.OpsProofs Lin.Spec Lin.Perm
  Alg.PLE Alg.PLELemmas.
Import ListNotations.
Local Open Scope nat_scope.
Ltac Zify.zify_post_hook ::= Z.div_mod_to_equations.

(** * lists *)
Lemma lo_ple_length {P : list nat} from len : from + len <= length P -> length (lo_ple P from len) = len.
Proof. intros H. unfold lo_ple. rewrite firstn_length, skipn_length. lia. Qed.

Lemma nth_lo_ple (P : list nat) from len i : i < len -> nth i (lo_ple P from len) 0 = nth (from + i) P 0.
Proof. intros H. unfold lo_ple. rewrite nth_firstn_lt by assumption. apply nth_skipn_add. Qed.

Lemma paste_list_length (P : list nat) from l : from + length l <= length P ->
  length (paste_list P from l) = length P.
Proof. intros H. unfold paste_list. rewrite !app_length, firstn_length, skipn_length. lia. Qed.

Lemma nth_paste_list (P : list nat) from l i : from + length l <= length P ->
  nth i (paste_list P from l) 0 =
  if (from <=? i) && (i <? from + length l) then nth (i - from) l 0 else nth i P 0.
Proof.
  intros H. unfold paste_list.
  destruct (Nat.leb_spec from i) as [H1|H1]; cbn [andb].
  - rewrite app_nth2 by (rewrite firstn_length; lia). rewrite firstn_length, Nat.min_l by lia.
    destruct (Nat.ltb_spec i (from + length l)) as [H2|H2].
    + now rewrite app_nth1 by lia.
    + rewrite app_nth2 by lia. rewrite nth_skipn_add. f_equal. lia.
  - rewrite app_nth1 by (rewrite firstn_length; lia). now apply nth_firstn_lt.
Qed.

(** * windows *)
Lemma get_window A lowr lowc highr highc i j : wf A -> lowr <= highr -> highr <= nr A ->
  get (window A lowr lowc highr highc) i j =
  (i <? highr - lowr) && (j <? highc - lowc) && get A (lowr + i) (lowc + j).
Proof.
  intros HA H1 H2. unfold window. rewrite Nat.min_l by lia.
  apply get_msub. rewrite (wf_len A HA). lia.
Qed.

Lemma wf_window A lowr lowc highr highc : wf A -> lowr <= highr -> highr <= nr A ->
  wf (window A lowr lowc highr highc) /\ nr (window A lowr lowc highr highc) = highr - lowr /\
  nc (window A lowr lowc highr highc) = highc - lowc.
Proof.
  intros HA H1 H2. unfold window. rewrite Nat.min_l by lia. split; [|split; reflexivity].
  apply wf_msub. rewrite (wf_len A HA). lia.
Qed.

(** * forward substitution *)
Section Build.
  Variable h : nat -> list N -> N.
  Let F (xs : list N) (i : nat) : list N := xs ++ [h i xs].

  Lemma fold_build : forall k s xs0, length xs0 = s ->
    let xs := fold_left F (seq s k) xs0 in
    length xs = s + k /\ firstn s xs = xs0 /\
    forall i, s <= i -> i < s + k -> nth i xs 0%N = h i (firstn i xs).
  Proof.
    induction k as [|k IH]; intros s xs0 Hl; cbv zeta; cbn [seq fold_left].
    - split; [lia|]. split; [rewrite <- Hl; apply firstn_all|]. intros; lia.
    - destruct (IH (S s) (F xs0 s)) as (H1 & H2 & H3).
      { unfold F. rewrite app_length. cbn [length]. lia. }
      set (xs := fold_left F (seq (S s) k) (F xs0 s)) in *.
      assert (E : firstn s xs = xs0).
      { replace (firstn s xs) with (firstn s (firstn (S s) xs)) by (rewrite firstn_firstn; f_equal; lia).
        rewrite H2. unfold F. rewrite firstn_app, Hl, Nat.sub_diag. cbn [firstn].
        rewrite app_nil_r. rewrite <- Hl. apply firstn_all. }
      split; [lia|]. split; [exact E|].
      intros i Hi1 Hi2. destruct (Nat.eq_dec i s) as [->|Hne].
      + rewrite E. rewrite <- (nth_firstn_lt xs (S s) s 0%N) by lia. rewrite H2. unfold F.
        rewrite app_nth2 by lia. now rewrite Hl, Nat.sub_diag.
      + apply H3; lia.
  Qed.
End Build.

Lemma get_trsm_ref L B : wf B ->
  let X := trsm_lower_left_ref L B in
  wf X /\ nr X = nr B /\ nc X = nc B /\
  forall i j, i < nr B -> get X i j = xorb (get B i j) (xsum i (fun k => get L i k && get X k j)).
Proof.
  intros HB. cbv zeta. unfold trsm_lower_left_ref.
  set (h := fun i xs => N.lxor (row B i) (mul_row (N.land (row L i) (N.ones (N.of_nat i))) xs)).
  destruct (fold_build h (nr B) 0 [] eq_refl) as (H1 & _ & H3). cbn [Nat.add] in H1, H3.
  set (xs := fold_left (fun xs i => xs ++ [h i xs]) (seq 0 (nr B)) []) in *.
  change (fold_left _ (seq 0 (nr B)) []) with xs.
  assert (Hb : forall i, i < nr B -> bounded (nc B) (nth i xs 0%N)).
  { intros i. induction i as [i IHi] using lt_wf_ind. intros Hi.
    rewrite H3 by lia. unfold h. apply bounded_lxor; [now apply wf_row_bounded|].
    apply bounded_mul_row. apply Forall_forall. intros x Hx.
    destruct (In_nth _ _ 0%N Hx) as [k [Hk <-]]. rewrite firstn_length in Hk.
    rewrite nth_firstn_lt by lia. apply IHi; lia. }
  splits; auto.
  - apply wf_mk; assumption.
  - intros i j Hi. unfold get at 1, row. cbn [rows]. rewrite H3 by lia. unfold h.
    rewrite N.lxor_spec. f_equal. rewrite testbit_mul_row, firstn_length, Nat.min_l by lia.
    apply xsum_ext. intros k Hk. rewrite N.land_spec, testbit_ones_nat.
    destruct (Nat.ltb_spec k i); [|lia]. rewrite andb_true_r.
    unfold get, row. cbn [rows]. now rewrite nth_firstn_lt by assumption.
Qed.

(** * _mzd_compress_l *)
(** ** bit-level helpers *)
Lemma testbit_bits_of_row x y n k :
  N.testbit (PLE.bits_of x y n) (N.of_nat k) = (k <? n) && N.testbit x (N.of_nat (y + k)).
Proof.
  unfold PLE.bits_of. rewrite N.land_spec, testbit_ones_nat, testbit_shiftr_nat.
  rewrite (Nat.add_comm k y). apply andb_comm.
Qed.

Lemma testbit_clear_bits_row x y n j :
  N.testbit (clear_bits_row x y n) (N.of_nat j) = N.testbit x (N.of_nat j) && negb ((y <=? j) && (j <? y + n)).
Proof. unfold clear_bits_row. now rewrite N.ldiff_spec, testbit_colmask. Qed.

Lemma testbit_xor_bits_row x y n v j :
  N.testbit (xor_bits_row x y n v) (N.of_nat j) =
  xorb (N.testbit x (N.of_nat j)) ((y <=? j) && ((j - y <? n) && N.testbit v (N.of_nat (j - y)))).
Proof.
  unfold xor_bits_row. rewrite N.lxor_spec, testbit_shiftl_nat, N.land_spec, testbit_ones_nat.
  f_equal. f_equal. apply andb_comm.
Qed.

Lemma testbit_write_word x w v j :
  N.testbit (write_word x w v) (N.of_nat j) =
  if (radix * w <=? j) && (j <? radix * w + radix) then N.testbit v (N.of_nat (j - radix * w))
  else N.testbit x (N.of_nat j).
Proof.
  unfold write_word. rewrite N.lor_spec, N.ldiff_spec, testbit_colmask, testbit_shiftl_nat,
    N.land_spec, testbit_ones_nat.
  destruct (Nat.leb_spec (radix * w) j) as [H1|H1]; cbn [andb].
  - destruct (Nat.ltb_spec j (radix * w + radix)) as [H2|H2]; cbn [negb].
    + rewrite andb_false_r. cbn [orb]. destruct (Nat.ltb_spec (j - radix * w) radix); [|lia].
      now rewrite andb_true_r.
    + destruct (Nat.ltb_spec (j - radix * w) radix); [lia|]. now rewrite !andb_false_r, andb_true_r, orb_false_r.
  - now rewrite andb_true_r, orb_false_r.
Qed.


(** ** word arithmetic *)
Lemma rest_facts r : 0 < radix - r mod radix <= radix /\
  radix * ((r + (radix - r mod radix)) / radix) = r + (radix - r mod radix).
Proof. unfold radix. lia. Qed.

Lemma cnt_facts a b :
  let cnt := if a <=? b then (b - a) / radix else 0 in
  (a <= b -> a + radix * cnt <= b < a + radix * cnt + radix) /\ (b < a -> cnt = 0).
Proof. cbv zeta. unfold radix. destruct (Nat.leb_spec a b); lia. Qed.

Lemma cz_facts a j4 : a <= j4 + radix * ((a + radix - 1 - j4) / radix).
Proof. unfold radix. lia. Qed.

Lemma zero_words_fold wz : forall cz y p,
  N.testbit (fold_left (fun x0 t => write_word x0 (wz + t) 0%N) (seq 0 cz) y) (N.of_nat p) =
  if (radix * wz <=? p) && (p <? radix * wz + radix * cz) then false else N.testbit y (N.of_nat p).
Proof.
  induction cz as [|cz IH]; intros y p.
  - cbn [seq fold_left]. rewrite Nat.mul_0_r, Nat.add_0_r.
    destruct (Nat.leb_spec (radix * wz) p), (Nat.ltb_spec p (radix * wz)); try lia; reflexivity.
  - rewrite seq_S, fold_left_app. cbn [fold_left Nat.add]. rewrite testbit_write_word, IH.
    replace (radix * (wz + cz)) with (radix * wz + radix * cz) by lia.
    destruct (Nat.leb_spec (radix * wz + radix * cz) p), (Nat.ltb_spec p (radix * wz + radix * cz + radix)),
      (Nat.leb_spec (radix * wz) p), (Nat.ltb_spec p (radix * wz + radix * cz)),
      (Nat.ltb_spec p (radix * wz + radix * S cz)); cbn [andb]; try lia; try reflexivity;
      try apply N.bits_0.
Qed.

(** ** one row below the pivots: bits [n1, n1+r2) move down to [r1, r1+r2), everything from r1+r2 on
    is cleared (given that the row vanishes from n1+r2 on) *)
Section CompressRow.
  Variables (r1 n1 r2 : nat) (x : N).
  Hypothesis Hrn : r1 < n1.
  Hypothesis Hx : forall j, n1 + r2 <= j -> N.testbit x (N.of_nat j) = false.

  Definition tsrc (j : nat) : bool :=
    if j <? r1 then N.testbit x (N.of_nat j) else N.testbit x (N.of_nat (n1 + j - r1)).
  Definition stage (y : N) (J : nat) : Prop :=
    forall j, N.testbit y (N.of_nat j) = if j <? J then tsrc j else N.testbit x (N.of_nat j).

  Lemma tsrc_hi j : r1 + r2 <= j -> tsrc j = false.
  Proof. intros Hj. unfold tsrc. destruct (Nat.ltb_spec j r1); [lia|]. apply Hx. lia. Qed.

  Lemma stage_write y J w len : stage y J -> r1 <= J -> radix * w = J -> len <= radix ->
    (forall p, J + len <= p -> p < J + radix -> tsrc p = false) ->
    stage (write_word y w (PLE.bits_of y (n1 + J - r1) len)) (J + radix).
  Proof.
    intros Hs HJ Hw Hlen Hz j. rewrite testbit_write_word, Hw.
    destruct (Nat.leb_spec J j) as [H1|H1]; cbn [andb].
    - destruct (Nat.ltb_spec j (J + radix)) as [H2|H2].
      + rewrite testbit_bits_of_row. destruct (Nat.ltb_spec (j - J) len) as [H3|H3]; cbn [andb].
        * rewrite Hs. destruct (Nat.ltb_spec (n1 + J - r1 + (j - J)) J); [lia|].
          unfold tsrc. destruct (Nat.ltb_spec j r1); [lia|]. do 2 f_equal. lia.
        * symmetry. apply Hz; lia.
      + rewrite Hs. destruct (Nat.ltb_spec j J); [lia|reflexivity].
    - destruct (Nat.ltb_spec j (J + radix)); [|lia]. rewrite Hs. destruct (Nat.ltb_spec j J); [reflexivity|lia].
  Qed.

  Lemma stage_moves w0 : forall cnt y, stage y (radix * w0) -> r1 <= radix * w0 ->
    stage (fold_left (fun x0 t => let j := radix * w0 + radix * t in
                                  write_word x0 (j / radix) (PLE.bits_of x0 (n1 + j - r1) radix))
                     (seq 0 cnt) y) (radix * w0 + radix * cnt).
  Proof.
    induction cnt as [|cnt IH]; intros y Hs HJ.
    - cbn [seq fold_left]. now rewrite Nat.mul_0_r, Nat.add_0_r.
    - rewrite seq_S, fold_left_app. cbn [fold_left Nat.add]. cbv zeta.
      specialize (IH y Hs HJ).
      replace (radix * w0 + radix * S cnt) with ((radix * w0 + radix * cnt) + radix) by lia.
      apply stage_write; auto.
      + lia.
      + unfold radix. lia.
      + intros p H1 H2. lia.
  Qed.

  Lemma testbit_compress_l_row ncols j : r1 + r2 <= ncols ->
    N.testbit (compress_l_row ncols r1 n1 r2 x) (N.of_nat j) = (j <? r1 + r2) && tsrc j.
  Proof.
    intros Hnc. unfold compress_l_row.
    destruct (rest_facts r1) as (Hrest & Hw1).
    set (rest := radix - r1 mod radix) in *.
    set (w1 := (r1 + rest) / radix) in *. clearbody w1. clearbody rest.
    (* first partial word *)
    set (x2 := xor_bits_row (clear_bits_row x r1 rest) r1 rest (PLE.bits_of x n1 rest)).
    assert (S2 : stage x2 (r1 + rest)).
    { intros p. unfold x2. rewrite testbit_xor_bits_row, testbit_clear_bits_row, testbit_bits_of_row.
      destruct (Nat.leb_spec r1 p) as [H1|H1]; cbn [andb].
      - destruct (Nat.ltb_spec p (r1 + rest)) as [H2|H2]; cbn [negb].
        + destruct (Nat.ltb_spec (p - r1) rest); [|lia]. rewrite andb_false_r. cbn [xorb andb].
          unfold tsrc. destruct (Nat.ltb_spec p r1); [lia|].
          replace (n1 + p - r1) with (n1 + (p - r1)) by lia.
          now destruct (N.testbit x (N.of_nat (n1 + (p - r1)))).
        + destruct (Nat.ltb_spec (p - r1) rest); [lia|]. cbn [andb]. now rewrite andb_true_r, xorb_false_r.
      - destruct (Nat.ltb_spec p (r1 + rest)); [|lia]. rewrite andb_true_r, xorb_false_r.
        unfold tsrc. destruct (Nat.ltb_spec p r1); [reflexivity|lia]. }
    fold x2. clearbody x2.
    (* whole words *)
    pose proof (cnt_facts (r1 + rest) (r1 + r2)) as Hcnt.
    set (cnt := if r1 + rest <=? r1 + r2 then (r1 + r2 - (r1 + rest)) / radix else 0) in *.
    clearbody cnt.
    set (x3 := fold_left _ (seq 0 cnt) x2).
    assert (S3 : stage x3 (r1 + rest + radix * cnt)).
    { rewrite <- Hw1. unfold x3. rewrite <- Hw1.
      apply (stage_moves w1 cnt x2); [now rewrite Hw1|lia]. }
    clearbody x3.
    set (j2 := r1 + rest + radix * cnt) in *.
    assert (Hj2 : radix * (j2 / radix) = j2).
    { unfold j2. rewrite <- Hw1. clear. unfold radix. lia. }
    assert (Hj2' : r1 <= j2 /\ (j2 < r1 + r2 -> r1 + r2 - j2 <= radix /\ r1 + r2 <= j2 + radix) /\
                   (r1 + r2 <= j2 \/ j2 < r1 + r2)) by (cbv zeta in Hcnt; unfold j2; unfold radix in *; lia).
    clearbody j2. clear Hcnt Hw1.
    (* last partial word *)
    set (x4 := if j2 <? r1 + r2 then _ else x3).
    assert (S4 : exists J4, stage x4 J4 /\ r1 + r2 <= J4).
    { unfold x4. destruct (Nat.ltb_spec j2 (r1 + r2)) as [H|H].
      - exists (j2 + radix). split; [|lia].
        apply stage_write; auto; try lia.
        intros p H1 H2. apply tsrc_hi. lia.
      - exists j2. split; assumption. }
    clearbody x4. destruct S4 as (J4 & S4 & HJ4). clear S3 S2 Hj2 Hj2' x2 x3.
    (* clearing *)
    destruct (rest_facts (r1 + r2)) as (Hrz & Hwz).
    set (rz := radix - (r1 + r2) mod radix) in *.
    set (wz := (r1 + r2 + rz) / radix) in *. clearbody wz. clearbody rz.
    pose proof (cz_facts (n1 + r2) (r1 + r2 + rz)) as Hcz.
    set (cz := (n1 + r2 + radix - 1 - (r1 + r2 + rz)) / radix) in *. clearbody cz.
    rewrite N.land_spec, testbit_ones_nat, zero_words_fold, testbit_clear_bits_row, S4, Hwz.
    destruct (Nat.ltb_spec j (r1 + r2)) as [H1|H1]; cbn [andb].
    - destruct (Nat.leb_spec (r1 + r2 + rz) j); [lia|]. cbn [andb].
      destruct (Nat.leb_spec (r1 + r2) j); [lia|]. cbn [andb negb].
      destruct (Nat.ltb_spec j J4); [|lia]. destruct (Nat.ltb_spec j ncols); [|lia]. now rewrite !andb_true_r.
    - destruct (Nat.leb_spec (r1 + r2 + rz) j) as [H2|H2]; cbn [andb].
      + destruct (Nat.ltb_spec j (r1 + r2 + rz + radix * cz)); [reflexivity|].
        destruct (Nat.leb_spec (r1 + r2) j); [|lia]. destruct (Nat.ltb_spec j (r1 + r2 + rz)); [lia|].
        cbn [andb negb]. rewrite andb_true_r.
        destruct (Nat.ltb_spec j J4); [rewrite tsrc_hi by lia|rewrite Hx by lia]; reflexivity.
      + destruct (Nat.leb_spec (r1 + r2) j); [|lia]. destruct (Nat.ltb_spec j (r1 + r2 + rz)); [|lia].
        cbn [andb negb]. now rewrite andb_false_r.
  Qed.
End CompressRow.

(** ** the column swaps on the rows r1 .. r1+r2-1 *)
Definition cq (r1 n1 : nat) : nat -> nat := fun s => n1 + (s - r1).

Lemma get_compress_swaps A r1 n1 r2 : wf A -> r1 <= n1 -> n1 + r2 <= nc A ->
  forall c, c <= r2 ->
  let X := fold_left (fun M t => col_swap_in_rows M (r1 + t) (n1 + t) (r1 + t) (r1 + r2)) (seq 0 c) A in
  wf X /\ nr X = nr A /\ nc X = nc A /\
  forall i j, get X i j =
    get A i (pi (cq r1 n1) (seq r1 (if (r1 <=? i) && (i <? r1 + r2) then Nat.min (S (i - r1)) c else 0)) j).
Proof.
  intros HA Hrn Hnc. induction c as [|c IH]; intros Hc; cbv zeta.
  - cbn [seq fold_left]. splits; auto. intros i j.
    destruct ((r1 <=? i) && (i <? r1 + r2)); [rewrite Nat.min_0_r|]; reflexivity.
  - rewrite seq_S, fold_left_app. cbn [fold_left Nat.add].
    destruct (IH ltac:(lia)) as (Hw & Hr & Hcc & Hg).
    splits.
    + apply wf_col_swap_in_rows; [assumption|lia|lia].
    + now rewrite nr_col_swap_in_rows.
    + now rewrite nc_col_swap_in_rows.
    + intros i j. rewrite get_col_swap_in_rows, !Hg.
      destruct (Nat.leb_spec (r1 + c) i) as [H1|H1]; cbn [andb].
      * destruct (Nat.ltb_spec i (r1 + r2)) as [H2|H2].
        -- destruct (Nat.leb_spec r1 i); [|lia]. cbn [andb].
           replace (Nat.min (S (i - r1)) (S c)) with (S c) by lia.
           replace (Nat.min (S (i - r1)) c) with c by lia.
           rewrite seq_S, pi_app. cbn [pi]. unfold cq. now replace (r1 + c - r1) with c by lia.
        -- destruct (Nat.leb_spec r1 i); reflexivity.
      * destruct (Nat.leb_spec r1 i), (Nat.ltb_spec i (r1 + r2)); cbn [andb]; try reflexivity.
        now replace (Nat.min (S (i - r1)) (S c)) with (Nat.min (S (i - r1)) c) by lia.
Qed.

Lemma get_compress_l A r1 n1 r2 : wf A -> r1 < n1 -> n1 + r2 <= nc A ->
  (forall i j, r1 + r2 <= i -> n1 + r2 <= j -> get A i j = false) ->
  let X := compress_l A r1 n1 r2 in
  wf X /\ nr X = nr A /\ nc X = nc A /\
  forall i j, get X i j =
    if i <? r1 + r2
    then get A i (pi (cq r1 n1) (seq r1 (if r1 <=? i then S (i - r1) else 0)) j)
    else if j <? r1 then get A i j else if j <? r1 + r2 then get A i (n1 + j - r1) else false.
Proof.
  intros HA Hrn Hnc Hz. cbv zeta. unfold compress_l.
  destruct (Nat.eqb_spec r1 n1); [lia|].
  destruct (get_compress_swaps A r1 n1 r2 HA ltac:(lia) Hnc r2 (le_n _)) as (Hw & Hr & Hc & Hg).
  set (A1 := fold_left _ (seq 0 r2) A) in *.
  splits.
  - apply wf_map_rows; [assumption|]. intros i x Hb.
    destruct (r1 + r2 <=? i); [|assumption]. unfold compress_l_row. apply bounded_land_r, bounded_ones.
  - now rewrite nr_map_rows.
  - now rewrite nc_map_rows.
  - intros i j. unfold get at 1. rewrite row_map_rows, (wf_len A1 Hw), Hr.
    destruct (Nat.ltb_spec i (nr A)) as [Hi|Hi].
    + destruct (Nat.leb_spec (r1 + r2) i) as [H1|H1].
      * destruct (Nat.ltb_spec i (r1 + r2)); [lia|].
        assert (Erow : forall j', N.testbit (row A1 i) (N.of_nat j') = get A i j').
        { intros j'. change (get A1 i j' = get A i j'). rewrite Hg.
          destruct (Nat.leb_spec r1 i), (Nat.ltb_spec i (r1 + r2)); cbn [andb]; try lia; reflexivity. }
        rewrite testbit_compress_l_row; [|assumption| |lia].
        2:{ intros j' Hj'. rewrite Erow. now apply Hz. }
        unfold tsrc. rewrite !Erow.
        destruct (Nat.ltb_spec j (r1 + r2)), (Nat.ltb_spec j r1); cbn [andb]; try lia; reflexivity.
      * destruct (Nat.ltb_spec i (r1 + r2)); [|lia]. change (get A1 i j = get A i (pi (cq r1 n1) (seq r1 (if r1 <=? i then S (i - r1) else 0)) j)).
        rewrite Hg. destruct (Nat.leb_spec r1 i); cbn [andb]; [|reflexivity].
        destruct (Nat.ltb_spec i (r1 + r2)); [|lia]. now replace (Nat.min (S (i - r1)) r2) with (S (i - r1)) by lia.
    + rewrite N.bits_0. rewrite !(get_out_row A i) by assumption.
      destruct (i <? r1 + r2), (j <? r1), (j <? r1 + r2); reflexivity.
Qed.
