(* Alg/PLEProofs9.v — C03, part 9: the block recursion, concrete part: the matrices and permutations
   that _mzd_ple (model [ple_rec_aux]) builds, at entry level, and the theorem

     ple_rec_spec : base_ok base -> wf A -> length P0 = nr A -> length Q0 = nc A ->
                    ple_spec A (ple_rec base cutoff A P0 Q0)                     (all cutoffs). *)
From Coq Require Import List NArith Arith Lia Bool Sorted.
From M4 Require Import Base.Bits Lin.Mat Lin.MatAlg Lin.Ops Lin.OpsProofs Lin.Spec Lin.Perm Lin.Observers Lin.Tri
  Alg.PLE Alg.PLELemmas Alg.PLESpec Alg.PLEProofs Alg.PLEProofs2 Alg.PLEProofs3 Alg.PLEProofs4
  Alg.PLEProofs6 Alg.PLEProofs7 Alg.PLEProofs8.
Import ListNotations.
Local Open Scope nat_scope.

(** * the Schur complement block of _mzd_ple (ple.c:118-123) *)
Definition schur_step (A : mat) (nrows ncols n1 r1 : nat) (P1 : list nat) : mat :=
  if r1 =? 0 then A else
  let A1 := apply_p_left (window A 0 n1 nrows ncols) P1 in
  let A := mpaste A 0 n1 A1 in
  let A00 := window A 0 0 r1 r1 in
  let A01 := trsm_lower_left_ref A00 (window A 0 n1 r1 ncols) in
  let A := mpaste A 0 n1 A01 in
  let A10 := window A r1 0 nrows r1 in
  let A11 := madd (window A r1 n1 nrows ncols) (mmul A10 A01) in
  mpaste A r1 n1 A11.

Lemma nr_mpaste A r0 c0 B : nr (mpaste A r0 c0 B) = nr A. Proof. reflexivity. Qed.
Lemma nc_mpaste A r0 c0 B : nc (mpaste A r0 c0 B) = nc A. Proof. reflexivity. Qed.

Ltac bcase :=
  repeat (match goal with
  | |- context [Nat.ltb ?a ?b] => destruct (Nat.ltb_spec a b)
  | |- context [Nat.leb ?a ?b] => destruct (Nat.leb_spec a b)
  | |- context [Nat.eqb ?a ?b] => destruct (Nat.eqb_spec a b)
  end; try (exfalso; lia); cbn [andb orb negb]); try reflexivity.

Section Schur.
  Variables (A T0 : mat) (m0 n1 r1 : nat) (P1 : list nat).
  Let m := nr A.
  Let n := nc A.
  Hypothesis HA : wf A.
  Hypothesis HT0 : wf T0.
  Hypothesis HT0r : nr T0 = m0.
  Hypothesis HT0c : nc T0 = n1.
  Hypothesis Hm0 : m0 <= m.
  Hypothesis Hn1 : n1 <= n.
  Hypothesis Hr1 : r1 <= m0.
  Hypothesis Hr1n : r1 <= n1.
  Hypothesis HlP1 : length P1 = m0.
  Hypothesis LP1 : lapack P1 m0.

  Hypothesis P1_id : forall i, r1 <= i -> i < m0 -> nth i P1 0 = i.

  Let Aa := mpaste A 0 0 T0.
  Let As := schur_step Aa m0 n n1 r1 P1.
  Let ph1 := pi (nthf P1) (seq 0 r1).

  Lemma sc_Aa : wf Aa /\ nr Aa = m /\ nc Aa = n /\
    forall i j, get Aa i j = if (i <? m0) && (j <? n1) then get T0 i j else get A i j.
  Proof.
    unfold Aa. splits; auto.
    - apply wf_mpaste; auto. rewrite HT0c. fold n. lia.
    - intros i j. rewrite get_mpaste by (auto; rewrite (wf_len A HA), HT0r; fold m; lia).
      rewrite HT0r, HT0c, !Nat.sub_0_r. cbn [Nat.add]. bcase.
  Qed.

  Lemma sc_ph1_lt i : i < m0 -> ph1 i < m0.
  Proof. apply pi_lt. intros t Ht. apply in_seq in Ht. pose proof (LP1 t ltac:(lia)). unfold nthf. lia. Qed.

  Lemma sc_ph_full i : pi (fun t => nth t P1 0) (seq 0 m0) i = ph1 i.
  Proof.
    change (fun t => nth t P1 0) with (nthf P1). replace m0 with (r1 + (m0 - r1)) by lia.
    apply pi_id_tail. intros t H1 H2. apply P1_id; lia.
  Qed.

  (** the entries of the result, the block X = A01 and the relation
      (P1 A1)[i][j] = sum_k L(i,k) X[k][j] + [i >= r1] A11[i-r1][j], L read from T0 *)
  Lemma sc_schur : exists Xf : nat -> nat -> bool,
    wf As /\ nr As = m /\ nc As = n /\
    (forall i j, r1 <= i \/ n - n1 <= j -> Xf i j = false) /\
    (forall i j, i < m0 -> j < n1 -> get As i j = get T0 i j) /\
    (forall i j, i < r1 -> n1 <= j -> get As i j = Xf i (j - n1)) /\
    (forall i j, m0 <= i \/ n <= j -> get As i j = get A i j) /\
    (forall i j, i < m0 -> j < n - n1 ->
       get A (ph1 i) (n1 + j) =
       xorb (xsum r1 (fun k => ((i =? k) || ((k <? i) && get T0 i k)) && Xf k j))
            ((r1 <=? i) && get As i (n1 + j))).
  Proof.
    destruct sc_Aa as (HwAa & HrAa & HcAa & HgAa).
    unfold As, schur_step. destruct (Nat.eqb_spec r1 0) as [E0|E0].
    - (* r1 = 0: nothing happens; P1 is the identity *)
      exists (fun _ _ => false). splits; auto.
      + intros i j Hi Hj. rewrite HgAa. bcase.
      + intros i j Hi. lia.
      + intros i j H. rewrite HgAa. bcase.
      + intros i j Hi Hj. unfold ph1. rewrite E0. cbn [seq pi xsum].
        destruct (Nat.leb_spec 0 i); [|lia]. cbn [andb xorb].
        rewrite HgAa. destruct (Nat.ltb_spec (n1 + j) n1); [lia|]. rewrite andb_false_r.
        now destruct (get A i (n1 + j)).
    - (* the general case *)
      assert (Hlen : length (rows Aa) = m) by now rewrite (wf_len Aa HwAa).
      (* A1 = P1 * (right block) *)
      destruct (wf_window Aa 0 n1 m0 n HwAa ltac:(lia) ltac:(lia)) as (HwW1 & HrW1 & HcW1).
      rewrite Nat.sub_0_r in HrW1.
      set (W1 := window Aa 0 n1 m0 n) in *.
      assert (HgW1 : forall i j, get W1 i j = (i <? m0) && (j <? n - n1) && get A i (n1 + j)).
      { intros i j. unfold W1. rewrite get_window by (auto; lia). rewrite Nat.sub_0_r. cbn [Nat.add].
        rewrite HgAa. destruct (Nat.ltb_spec (n1 + j) n1); [lia|]. now rewrite andb_false_r. }
      destruct (get_apply_p_left W1 P1 HwW1) as (HwA1 & HrA1 & HcA1 & HgA1); [lia|now rewrite HrW1|].
      rewrite HrW1 in *. set (A1 := apply_p_left W1 P1) in *.
      assert (HB : forall i j, i < m0 -> j < n - n1 -> get A1 i j = get A (ph1 i) (n1 + j)).
      { intros i j Hi Hj. rewrite HgA1, sc_ph_full, HgW1. pose proof (sc_ph1_lt i Hi).
        destruct (Nat.ltb_spec (ph1 i) m0); [|lia]. destruct (Nat.ltb_spec j (n - n1)); [|lia]. reflexivity. }
      (* paste it back *)
      set (Ab := mpaste Aa 0 n1 A1).
      assert (HwAb : wf Ab) by (apply wf_mpaste; auto; rewrite HcA1, HcW1, HcAa; lia).
      assert (HgAb : forall i j, get Ab i j =
                if (i <? m0) && (n1 <=? j) && (j <? n) then get A1 i (j - n1) else get Aa i j).
      { intros i j. unfold Ab. rewrite get_mpaste by (auto; rewrite Hlen, HrA1; lia).
        rewrite HrA1, HcA1, HcW1, Nat.sub_0_r. cbn [Nat.add]. bcase. }
      assert (HlAb : length (rows Ab) = m) by (rewrite (wf_len Ab HwAb); exact HrAa).
      (* the triangular solve *)
      destruct (wf_window Ab 0 0 r1 r1 HwAb ltac:(lia) ltac:(change (nr Ab) with (nr Aa); lia)) as (HwA00 & HrA00 & HcA00).
      set (A00 := window Ab 0 0 r1 r1) in *.
      assert (HgA00 : forall i k, i < r1 -> k < r1 -> get A00 i k = get T0 i k).
      { intros i k Hi Hk. unfold A00. rewrite get_window by (auto; change (nr Ab) with (nr Aa); lia).
        rewrite !Nat.sub_0_r. cbn [Nat.add]. rewrite HgAb, HgAa. bcase. }
      destruct (wf_window Ab 0 n1 r1 n HwAb ltac:(lia) ltac:(change (nr Ab) with (nr Aa); lia)) as (HwW2 & HrW2 & HcW2).
      rewrite Nat.sub_0_r in HrW2.
      set (W2 := window Ab 0 n1 r1 n) in *.
      assert (HgW2 : forall i j, i < r1 -> j < n - n1 -> get W2 i j = get A1 i j).
      { intros i j Hi Hj. unfold W2. rewrite get_window by (auto; change (nr Ab) with (nr Aa); lia).
        rewrite Nat.sub_0_r. cbn [Nat.add]. rewrite HgAb.
        replace (n1 + j - n1) with j by lia. bcase. }
      destruct (get_trsm_ref A00 W2 HwW2) as (HwX & HrX & HcX & HgX).
      rewrite HrW2 in HrX, HgX. rewrite HcW2 in HcX.
      set (Xm := trsm_lower_left_ref A00 W2) in *.
      set (Ac := mpaste Ab 0 n1 Xm).
      assert (HwAc : wf Ac) by (apply wf_mpaste; auto; rewrite HcX; change (nc Ab) with (nc Aa); lia).
      assert (HgAc : forall i j, get Ac i j =
                if (i <? r1) && (n1 <=? j) && (j <? n) then get Xm i (j - n1) else get Ab i j).
      { intros i j. unfold Ac. rewrite get_mpaste by (auto; rewrite HlAb, HrX; lia).
        rewrite HrX, HcX, Nat.sub_0_r. cbn [Nat.add]. bcase. }
      assert (HlAc : length (rows Ac) = m) by (rewrite (wf_len Ac HwAc); exact HrAa).
      (* the Schur complement *)
      destruct (wf_window Ac r1 0 m0 r1 HwAc Hr1 ltac:(change (nr Ac) with (nr Aa); lia)) as (HwA10 & HrA10 & HcA10).
      rewrite Nat.sub_0_r in HcA10.
      set (A10 := window Ac r1 0 m0 r1) in *.
      assert (HgA10 : forall i k, i < m0 - r1 -> k < r1 -> get A10 i k = get T0 (r1 + i) k).
      { intros i k Hi Hk. unfold A10. rewrite get_window by (auto; change (nr Ac) with (nr Aa); lia).
        rewrite Nat.sub_0_r. cbn [Nat.add]. rewrite HgAc, HgAb, HgAa. bcase. }
      destruct (wf_window Ac r1 n1 m0 n HwAc Hr1 ltac:(change (nr Ac) with (nr Aa); lia)) as (HwW3 & HrW3 & HcW3).
      set (W3 := window Ac r1 n1 m0 n) in *.
      assert (HgW3 : forall i j, i < m0 - r1 -> j < n - n1 -> get W3 i j = get A1 (r1 + i) j).
      { intros i j Hi Hj. unfold W3. rewrite get_window by (auto; change (nr Ac) with (nr Aa); lia).
        rewrite HgAc, HgAb. replace (n1 + j - n1) with j by lia. bcase. }
      set (Cm := madd W3 (mmul A10 Xm)).
      assert (HwCm : wf Cm).
      { apply wf_madd; [assumption|apply wf_mmul; assumption|rewrite nr_mmul; congruence|rewrite nc_mmul; congruence]. }
      assert (HgCm : forall i j, i < m0 - r1 -> j < n - n1 ->
                get Cm i j = xorb (get A1 (r1 + i) j) (xsum r1 (fun k => get T0 (r1 + i) k && get Xm k j))).
      { intros i j Hi Hj. unfold Cm. rewrite get_madd.
        2:{ rewrite (wf_len W3 HwW3). cbn [mmul rows]. rewrite map_length, (wf_len A10 HwA10). congruence. }
        rewrite HgW3 by assumption. f_equal. rewrite get_mmul by assumption. rewrite HrX.
        apply xsum_ext. intros k Hk. now rewrite HgA10. }
      set (As' := mpaste Ac r1 n1 Cm).
      assert (HwAs : wf As').
      { apply wf_mpaste; auto. cbn [nc Cm madd]. rewrite HcW3. change (nc Ac) with (nc Aa). lia. }
      assert (HgAs : forall i j, get As' i j =
                if (r1 <=? i) && (i <? m0) && (n1 <=? j) && (j <? n) then get Cm (i - r1) (j - n1) else get Ac i j).
      { intros i j. unfold As'. rewrite get_mpaste.
        2:{ assumption. }
        2:{ rewrite HlAc. cbn [nr Cm madd]. rewrite HrW3. lia. }
        cbn [nr nc Cm madd]. rewrite HrW3, HcW3. bcase. }
      exists (get Xm). splits.
      + exact HwAs.
      + exact HrAa.
      + exact HcAa.
      + intros i j [H|H]; [apply get_out_row; auto; lia|apply get_out_col; auto; lia].
      + intros i j Hi Hj. rewrite HgAs, HgAc, HgAb, HgAa. bcase.
      + intros i j Hi Hj. rewrite HgAs, HgAc.
        destruct (Nat.ltb_spec j n) as [Hjn|Hjn].
        * bcase.
        * rewrite HgAb, HgAa. rewrite (get_out_col A) by (auto; fold n; lia).
          rewrite (get_out_col Xm) by (auto; lia). bcase.
      + intros i j H. rewrite HgAs, HgAc, HgAb, HgAa. destruct H.
        * bcase.
        * rewrite (get_out_col A i j) by (auto; fold n; lia). bcase.
      + intros i j Hi Hj. rewrite <- HB by assumption.
        destruct (Nat.leb_spec r1 i) as [Hri|Hri]; cbn [andb].
        * (* a row of the Schur complement *)
          rewrite HgAs. destruct (Nat.leb_spec r1 i); [|lia]. destruct (Nat.ltb_spec i m0); [|lia].
          destruct (Nat.leb_spec n1 (n1 + j)); [|lia]. destruct (Nat.ltb_spec (n1 + j) n); [|lia]. cbn [andb].
          replace (n1 + j - n1) with j by lia. rewrite HgCm by lia. replace (r1 + (i - r1)) with i by lia.
          rewrite (xsum_ext r1 _ (fun k => get T0 i k && get Xm k j)).
          2:{ intros k Hk. destruct (Nat.eqb_spec i k); [lia|]. destruct (Nat.ltb_spec k i); [|lia]. reflexivity. }
          destruct (get A1 i j), (xsum r1 (fun k => get T0 i k && get Xm k j)); reflexivity.
        * (* a row of the triangular solve *)
          rewrite xorb_false_r. rewrite (xsum_split3 r1 i) by assumption.
          rewrite (xsum_zero (r1 - S i)).
          2:{ intros k Hk. destruct (Nat.eqb_spec i (S i + k)); [lia|]. destruct (Nat.ltb_spec (S i + k) i); [lia|]. reflexivity. }
          rewrite Nat.eqb_refl. cbn [orb andb]. rewrite xorb_false_r.
          rewrite (HgX i j Hri), HgW2 by assumption.
          rewrite (xsum_ext i _ (fun k => get A00 i k && get Xm k j)).
          2:{ intros k Hk. destruct (Nat.eqb_spec i k); [lia|]. destruct (Nat.ltb_spec k i); [|lia].
              cbn [orb andb]. now rewrite HgA00 by lia. }
          destruct (get A1 i j), (xsum i (fun k => get A00 i k && get Xm k j)); reflexivity.
  Qed.
End Schur.

