(* Alg/PLE.v — EXECUTABLE models (definitions only, no proofs) of the PLE / PLUQ routines of
   m4ri/ple.c on abstract matrices (Lin/Mat.v: a row is an N, column j = bit j).

     ple_naive   = _mzd_ple_naive   (ple.c:223)
     pluq_naive  = _mzd_pluq_naive  (ple.c:180)
     pluq_of_ple = the post-processing of _mzd_pluq (ple.c:50): mzd_apply_p_right_trans_tri on the
                   window of the first r rows (or on all of A when r = 0 or r = nrows)
     compress_l  = _mzd_compress_l  (mzp.c:294), literal (word granularity 64 included)
     ple_rec     = _mzd_ple         (ple.c:62), block recursive, parametrised by the base case

   Every function returns ((r, A'), (P, Q)): rank, overwritten matrix, the two LAPACK-style
   permutations.  P0/Q0 are the (arbitrary) contents of P->values / Q->values on entry.
   These definitions are extracted and compared bit for bit with the C library; the proofs are in
   Alg/PLEProofs.v, the specification in Alg/PLESpec.v. *)
From Coq Require Import List NArith Arith Bool.
From M4 Require Import Base.Bits Lin.Mat Lin.Ops.
Import ListNotations.
Local Open Scope nat_scope.

Definition ple_out : Type := (nat * mat) * (list nat * list nat).

(** [P->values[i] = i] for all i >= from *)
Definition fill_id (from : nat) (l : list nat) : list nat :=
  mapi_from (fun i x => if from <=? i then i else x) 0 l.

(** the elimination below a pivot sitting in (prow, pcol): every row l > prow with a one in column
    pcol gets row prow added on the columns >= c0 (mzd_row_add_offset(A, l, prow, c0)) *)
Definition elim_below (M : mat) (prow pcol c0 : nat) : mat :=
  fold_left (fun M l => if get M l pcol then row_add_offset M l prow c0 else M)
            (seq (S prow) (nr M - S prow)) M.

(** * _mzd_ple_naive *)
(** [n] = number of iterations the while loop can still make = nrows - row_pos (exact, not fuel:
    the loop condition [row_pos < nrows] is [n <> 0]). *)
Fixpoint ple_naive_loop (n : nat) (M : mat) (P Q : list nat) (row_pos col_pos : nat)
  : mat * (list nat * list nat) * nat :=
  match n with
  | 0 => (M, (P, Q), row_pos)
  | S n' =>
    if col_pos <? nc M then
      match find_pivot M row_pos col_pos with
      | Some (i, j) =>
        let P := upd row_pos i P in
        let Q := upd row_pos j Q in
        let M := row_swap M row_pos i in
        let M := if S j <? nc M then elim_below M row_pos j (S j) else M in
        ple_naive_loop n' M P Q (S row_pos) (S j)
      | None => (M, (P, Q), row_pos)
      end
    else (M, (P, Q), row_pos)
  end.

(** "Now compressing L": for j < r, if Q[j] > j swap columns Q[j] and j in the rows j .. nrows-1 *)
Definition ple_compress (M : mat) (Q : list nat) (r : nat) : mat :=
  fold_left (fun M j => if j <? nth j Q 0 then col_swap_in_rows M (nth j Q 0) j j (nr M) else M)
            (seq 0 r) M.

Definition ple_naive (A : mat) (P0 Q0 : list nat) : ple_out :=
  let '(M, (P, Q), r) := ple_naive_loop (nr A) A P0 Q0 0 0 in
  let P := fill_id r P in
  let Q := fill_id r Q in
  ((r, ple_compress M Q r), (P, Q)).

(** * _mzd_pluq_naive *)
(** [n] = ncols - curr_pos = number of iterations the for loop can still make *)
Fixpoint pluq_naive_loop (n : nat) (M : mat) (P Q : list nat) (pos : nat)
  : mat * (list nat * list nat) * nat :=
  match n with
  | 0 => (M, (P, Q), pos)
  | S n' =>
    match find_pivot M pos pos with
    | Some (i, j) =>
      let P := upd pos i P in
      let Q := upd pos j Q in
      let M := row_swap M pos i in
      let M := col_swap M pos j in
      let M := if S pos <? nc M then elim_below M pos pos (S pos) else M in
      pluq_naive_loop n' M P Q (S pos)
    | None => (M, (P, Q), pos)
    end
  end.

Definition pluq_naive (A : mat) (P0 Q0 : list nat) : ple_out :=
  let '(M, (P, Q), r) := pluq_naive_loop (nc A) A P0 Q0 0 in
  ((r, M), (fill_id r P, fill_id r Q)).

(** * _mzd_pluq: PLE, then the triangular column swaps on the first r rows *)
Definition top_rows (r : nat) (A : mat) : mat := mk r (nc A) (firstn r (rows A)).

Definition pluq_of_ple (out : ple_out) : ple_out :=
  let '((r, A), (P, Q)) := out in
  if negb (r =? 0) && (r <? nr A) then
    let A0 := apply_p_right_trans_tri (top_rows r A) Q in
    ((r, mk (nr A) (nc A) (rows A0 ++ skipn r (rows A))), (P, Q))
  else ((r, apply_p_right_trans_tri A Q), (P, Q)).

(** * _mzd_compress_l (mzp.c), literally, with word size [radix] = 64 *)
Definition radix : nat := 64.

(** row[w] = v : overwrite the whole word w of a row (bits [64w, 64w+64)) *)
Definition write_word (x : N) (w : nat) (v : N) : N :=
  N.lor (N.ldiff x (colmask (radix * w) (radix * w + radix)))
        (N.shiftl (N.land v (N.ones (N.of_nat radix))) (N.of_nat (radix * w))).
(** bits [y, y+n) of a row value *)
Definition bits_of (x : N) (y n : nat) : N := N.land (N.shiftr x (N.of_nat y)) (N.ones (N.of_nat n)).
Definition clear_bits_row (x : N) (y n : nat) : N := N.ldiff x (colmask y (y + n)).
Definition xor_bits_row (x : N) (y n : nat) (v : N) : N :=
  N.lxor x (N.shiftl (N.land v (N.ones (N.of_nat n))) (N.of_nat y)).

(** the per-row part of _mzd_compress_l for a row i >= r1 + r2 *)
Definition compress_l_row (ncols r1 n1 r2 : nat) (x : N) : N :=
  let j := r1 in
  let rest := radix - j mod radix in
  let tmp := bits_of x n1 rest in
  let x := clear_bits_row x j rest in
  let x := xor_bits_row x j rest tmp in
  let j := j + rest in
  (* whole-word moves: while j + 64 <= r1 + r2 : row[j/64] = bits [n1 + j - r1, +64) *)
  let nwords := (r1 + r2 - j) / radix in
  let x := fold_left (fun x t => let j := j + radix * t in
                                 write_word x (j / radix) (bits_of x (n1 + j - r1) radix))
                     (seq 0 (if j <=? r1 + r2 then nwords else 0)) x in
  let j := j + radix * (if j <=? r1 + r2 then nwords else 0) in
  let x := if j <? r1 + r2
           then write_word x (j / radix) (bits_of x (n1 + j - r1) (r1 + r2 - j)) else x in
  (* now clear the rest of L2 *)
  let j := r1 + r2 in
  let x := clear_bits_row x j (radix - j mod radix) in
  let j := j + (radix - j mod radix) in
  let x := fold_left (fun x t => write_word x (j / radix + t) 0%N)
                     (seq 0 ((n1 + r2 + radix - 1 - j) / radix)) x in
  N.land x (N.ones (N.of_nat ncols)).

Definition compress_l (A : mat) (r1 n1 r2 : nat) : mat :=
  if r1 =? n1 then A else
  let A := fold_left (fun M t => col_swap_in_rows M (r1 + t) (n1 + t) (r1 + t) (r1 + r2)) (seq 0 r2) A in
  map_rows (fun i x => if r1 + r2 <=? i then compress_l_row (nc A) r1 n1 r2 x else x) A.

(** * the pieces used by the block recursion *)
(** mzd_init_window(A, lowr, lowc, highr, highc) as a value, and its write-back *)
Definition window (A : mat) (lowr lowc highr highc : nat) : mat :=
  msub A lowr lowc (Nat.min (highr - lowr) (nr A - lowr)) (highc - lowc).

(** X with (unit lower triangular part of L) * X = B, by forward substitution
    (what _mzd_trsm_lower_left computes; L is r x r, B is r x c) *)
Definition trsm_lower_left_ref (L B : mat) : mat :=
  mk (nr B) (nc B)
     (fold_left (fun xs i =>
                   xs ++ [N.lxor (row B i) (mul_row (N.land (row L i) (N.ones (N.of_nat i))) xs)])
                (seq 0 (nr B)) []).

Definition lo_ple (P : list nat) (from len : nat) : list nat := firstn len (skipn from P).
(** write [l] into P at offset [from] *)
Definition paste_list (P : list nat) (from : nat) (l : list nat) : list nat :=
  firstn from P ++ l ++ skipn (from + length l) P.

Section Rec.
  (** the base case (in the library: _mzd_ple_russian on a copy), any routine with the interface of
      ple_naive; [cutoff] = __M4RI_PLE_CUTOFF in words *)
  Variable base : mat -> list nat -> list nat -> ple_out.
  Variable cutoff : nat.

  (** [fuel] bounds the recursion depth; the column count at least halves (in words) per level, so
      [S (nc A)] is never exhausted; running out yields the invalid output ((0, A), ([], [])). *)
  Fixpoint ple_rec_aux (fuel : nat) (A : mat) (P0 Q0 : list nat) : ple_out :=
    match fuel with
    | 0 => ((0, A), ([], []))
    | S fuel' =>
      let ncols := nc A in
      let nrows := first_zero_row A in
      let P := fill_id nrows P0 in
      let Q := fill_id 0 Q0 in
      if nrows =? 0 then ((0, A), (P, Q)) else
      if (ncols <=? radix) || (((ncols + radix - 1) / radix) * nr A <=? cutoff) then base A P Q
      else
        let n1 := ((((ncols - 1) / radix + 1) / 2) * radix) in
        (* first recursive call on A0 = A[0..nrows, 0..n1) *)
        let A0 := window A 0 0 nrows n1 in
        let '((r1, A0'), (P1, Q1)) := ple_rec_aux fuel' A0 (lo_ple P 0 nrows) (lo_ple Q 0 n1) in
        let A := mpaste A 0 0 A0' in
        let P := paste_list P 0 P1 in
        let Q := paste_list Q 0 Q1 in
        (* Schur complement *)
        let A :=
          if r1 =? 0 then A else
          let A1 := apply_p_left (window A 0 n1 nrows ncols) P1 in
          let A := mpaste A 0 n1 A1 in
          let A00 := window A 0 0 r1 r1 in
          let A01 := trsm_lower_left_ref A00 (window A 0 n1 r1 ncols) in
          let A := mpaste A 0 n1 A01 in
          let A10 := window A r1 0 nrows r1 in
          let A11 := madd (window A r1 n1 nrows ncols) (mmul A10 A01) in
          mpaste A r1 n1 A11 in
        (* second recursive call on A11 *)
        let A11 := window A r1 n1 nrows ncols in
        let '((r2, A11'), (P2, Q2)) :=
            ple_rec_aux fuel' A11 (lo_ple P r1 (nrows - r1)) (lo_ple Q n1 (ncols - n1)) in
        let A := mpaste A r1 n1 A11' in
        (* update A10 *)
        let A := mpaste A r1 0 (apply_p_left (window A r1 0 nrows r1) P2) in
        (* update P and Q *)
        let P := paste_list P r1 (map (fun x => x + r1) P2) in
        let Q := paste_list Q n1 (map (fun x => x + n1) Q2) in
        let Q := paste_list Q r1 (lo_ple Q n1 r2) in
        ((r1 + r2, compress_l A r1 n1 r2), (P, Q))
    end.

  Definition ple_rec (A : mat) (P0 Q0 : list nat) : ple_out := ple_rec_aux (S (nc A)) A P0 Q0.
  (** _mzd_pluq / mzd_pluq *)
  Definition pluq_rec (A : mat) (P0 Q0 : list nat) : ple_out := pluq_of_ple (ple_rec A P0 Q0).
End Rec.
