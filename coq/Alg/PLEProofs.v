(* Alg/PLEProofs.v — C03, part 1: the boolean checkers of Alg/PLESpec.v reflect the specification
   ([pluq_ok_spec], [ple_ok_spec]); [pluq_of_ple_spec]; [profile_unique].
   The correctness of the naive models is in PLEProofs2.v. *)
From Coq Require Import List NArith Arith Lia Bool Sorted.
From M4 Require Import Base.Bits Lin.Mat Lin.MatAlg Lin.Ops Lin.Spec Lin.Perm Lin.Echelon
  Alg.Gauss Alg.GaussProofs Alg.PLE Alg.PLELemmas Alg.PLESpec.
Import ListNotations.
Local Open Scope nat_scope.

(** * the unit upper trapezoidal factor at entry level *)
Lemma get_unit_upper_rect r n U t j :
  get (unit_upper_rect r n U) t j = (t <? r) && ((j <? n) && ((t =? j) || ((t <? j) && get U t j))).
Proof.
  unfold get at 1, row, unit_upper_rect. cbn [rows].
  destruct (Nat.ltb_spec t r) as [Ht|Ht]; cbn [andb].
  - rewrite (nth_map_default _ _ _ 0) by now rewrite seq_length. rewrite seq_nth by assumption. cbn [Nat.add].
    rewrite N.land_spec, N.lor_spec, N.ldiff_spec, testbit_pow2_nat, !testbit_ones_nat. unfold get.
    destruct (N.testbit (row U t) (N.of_nat j)); bsolve.
  - rewrite nth_overflow; [apply N.bits_0|]. now rewrite map_length, seq_length.
Qed.

Lemma wf_unit_upper_rect r n U : wf (unit_upper_rect r n U).
Proof.
  apply wf_mk; [now rewrite map_length, seq_length|]. intros i Hi.
  rewrite (nth_map_default _ _ _ 0) by now rewrite seq_length. cbn [nc].
  apply bounded_land_r, bounded_ones.
Qed.

Lemma nr_plu_L A r S : nr (plu_L A r S) = nr A. Proof. reflexivity. Qed.
Lemma nc_plu_L A r S : nc (plu_L A r S) = r. Proof. reflexivity. Qed.
Lemma nr_plu_U A r S : nr (plu_U A r S) = r. Proof. reflexivity. Qed.
Lemma nc_plu_U A r S : nc (plu_U A r S) = nc A. Proof. reflexivity. Qed.
Lemma wf_plu_L A r S : wf (plu_L A r S). Proof. apply wf_unit_lower_rect. Qed.
Lemma wf_plu_U A r S : wf (plu_U A r S). Proof. apply wf_unit_upper_rect. Qed.

(** entry (i, j) of the product L U read from a stored matrix S: the usual LU sum *)
Lemma get_plu_LU A r S i j :
  get (mmul (plu_L A r S) (plu_U A r S)) i j =
  xsum r (fun t => get (plu_L A r S) i t && get (plu_U A r S) t j).
Proof. rewrite get_mmul by apply wf_plu_U. reflexivity. Qed.

(** if the diagonal is stored as 1 (true of every output of the library) the factor U is
    [upper_rect] of Lin/Spec.v *)
Lemma unit_upper_rect_stored r n U : r <= n -> (forall i, i < r -> get U i i = true) ->
  unit_upper_rect r n U = upper_rect r n U.
Proof.
  intros Hr Hd. apply mat_ext; [apply wf_unit_upper_rect|apply wf_upper_rect|reflexivity|reflexivity|].
  intros i j Hi Hj. cbn [nr nc unit_upper_rect] in Hi, Hj.
  rewrite get_unit_upper_rect, get_upper_rect.
  destruct (Nat.eqb_spec i j) as [->|Hne].
  - rewrite Hd by assumption. bsolve.
  - bsolve.
Qed.

(** * reflection of the structural clauses *)
Lemma forallb_seq (f : nat -> bool) s n :
  forallb f (seq s n) = true <-> (forall i, s <= i -> i < s + n -> f i = true).
Proof.
  rewrite forallb_forall. split.
  - intros H i H1 H2. apply H, in_seq. lia.
  - intros H i Hi. apply in_seq in Hi. apply H; lia.
Qed.

(** [crp_of] computes the column rank profile *)
Theorem crp_of_spec A : wf A -> is_crp A (crp_of A).
Proof.
  intros HA. destruct (rref_is_rref A HA) as [piv [Hrr [Hl Hc]]].
  replace (crp_of A) with piv; [assumption|].
  unfold crp_of. apply (list_ext_nth 0).
  - now rewrite map_length, seq_length.
  - intros i Hi. rewrite (nth_map_default _ _ _ 0) by (rewrite seq_length; lia).
    rewrite seq_nth by lia. cbn [Nat.add].
    pose proof (ref_lead _ _ i (rref_ref _ _ Hrr) Hi) as Hlead. unfold lead in Hlead.
    now rewrite Hlead.
Qed.

Corollary crp_of_iff A l : wf A -> (is_crp A l <-> l = crp_of A).
Proof.
  intros HA. split.
  - intros H. apply (is_crp_unique A); [assumption|now apply crp_of_spec].
  - intros ->. now apply crp_of_spec.
Qed.

Corollary crp_of_length A : wf A -> length (crp_of A) = rank A.
Proof. intros _. unfold crp_of. now rewrite map_length, seq_length. Qed.

Lemma zero_clause_ok A' r m : wf A' -> nr A' = m ->
  ((forall i, r <= i -> i < r + (m - r) -> N.eqb (N.shiftr (row A' i) (N.of_nat r)) 0 = true) <->
   (forall i j, r <= i -> r <= j -> get A' i j = false)).
Proof.
  intros HA' Hm. split.
  - intros H i j Hi Hj. destruct (Nat.lt_ge_cases i m) as [Hlt|Hge].
    + specialize (H i Hi ltac:(lia)). apply N.eqb_eq in H.
      unfold get. replace j with (j - r + r) by lia. rewrite <- testbit_shiftr_nat, H. apply N.bits_0.
    + apply get_out_row; [assumption|lia].
  - intros H i Hi _. apply N.eqb_eq. apply bits_ext_nat. intros j.
    rewrite testbit_shiftr_nat, N.bits_0. apply (H i (j + r)); lia.
Qed.

Theorem plu_struct_ok_spec A r A' P Q : wf A ->
  (plu_struct_ok A r A' P Q = true <-> plu_struct A r A' P Q).
Proof.
  intros HA. unfold plu_struct_ok, plu_struct.
  rewrite !andb_true_iff, wfb_spec, !Nat.eqb_eq, !Nat.leb_le, !lapackb_spec, !forallb_seq,
    nat_list_eqb_spec, <- (crp_of_iff A _ HA).
  split.
  - intros (((((((((((H1 & H2) & H3) & H4) & H5) & H6) & H7) & H8) & H9) & H10) & H12) & H13).
    repeat (split; [assumption|]).
    split; [intros i Hi Hlt; apply Nat.eqb_eq, H10; lia|].
    split; [apply H12|]. split; [assumption|].
    now apply (zero_clause_ok A' r (nr A) H1 H2).
  - intros (H1 & H2 & H3 & H4 & H5 & H6 & H7 & H8 & H9 & H10 & H12 & H13 & H14).
    splits; try assumption.
    + intros i Hi Hlt. apply Nat.eqb_eq, H10; lia.
    + now apply (zero_clause_ok A' r (nr A) H1 H2).
Qed.

Lemma plu_Q_tail_idb_spec r Q n : plu_Q_tail_idb r Q n = true <-> plu_Q_tail_id r Q n.
Proof.
  unfold plu_Q_tail_idb, plu_Q_tail_id. rewrite forallb_seq. split.
  - intros H j H1 H2. apply Nat.eqb_eq, H; lia.
  - intros H j H1 H2. apply Nat.eqb_eq, H; lia.
Qed.

Lemma plu_recon_ok_spec A r S P Q : plu_recon_ok A r S P Q = true <-> plu_recon A r S P Q.
Proof. unfold plu_recon_ok, plu_recon. apply mequal_spec. Qed.

(** * C03_check: the checkers decide the specification *)
Theorem pluq_ok_spec A out : wf A -> (pluq_ok A out = true <-> pluq_spec A out).
Proof.
  intros HA. destruct out as [[r A'] [P Q]]. unfold pluq_ok, pluq_spec.
  now rewrite andb_true_iff, (plu_struct_ok_spec A r A' P Q HA), plu_recon_ok_spec.
Qed.

Theorem ple_ok_spec A out : wf A -> (ple_ok A out = true <-> ple_spec A out).
Proof.
  intros HA. destruct out as [[r A'] [P Q]]. unfold ple_ok, ple_spec.
  now rewrite andb_true_iff, (plu_struct_ok_spec A r A' P Q HA), plu_recon_ok_spec.
Qed.

(** * any two outputs meeting the specification reveal the same rank and the same profile *)
Theorem profile_unique_struct A r1 A1 P1 Q1 r2 A2 P2 Q2 :
  plu_struct A r1 A1 P1 Q1 -> plu_struct A r2 A2 P2 Q2 -> r1 = r2 /\ firstn r1 Q1 = firstn r2 Q2.
Proof.
  intros H1 H2.
  assert (E : firstn r1 Q1 = firstn r2 Q2)
    by (apply (is_crp_unique A); [apply (plu_crp _ _ _ _ _ H1)|apply (plu_crp _ _ _ _ _ H2)]).
  split; [|assumption].
  apply (f_equal (@length nat)) in E. rewrite !firstn_length in E.
  rewrite (plu_len_Q _ _ _ _ _ H1), (plu_len_Q _ _ _ _ _ H2) in E.
  pose proof (plu_r_le_nc _ _ _ _ _ H1). pose proof (plu_r_le_nc _ _ _ _ _ H2). lia.
Qed.

Definition out_r (o : ple_out) : nat := fst (fst o).
Definition out_Q (o : ple_out) : list nat := snd (snd o).
Definition any_spec (A : mat) (o : ple_out) : Prop := ple_spec A o \/ pluq_spec A o.

Theorem profile_unique A o1 o2 : any_spec A o1 -> any_spec A o2 ->
  out_r o1 = out_r o2 /\ firstn (out_r o1) (out_Q o1) = firstn (out_r o2) (out_Q o2).
Proof.
  destruct o1 as [[r1 A1] [P1 Q1]], o2 as [[r2 A2] [P2 Q2]]. unfold out_r, out_Q. cbn [fst snd].
  intros H1 H2. apply (profile_unique_struct A r1 A1 P1 Q1 r2 A2 P2 Q2).
  - destruct H1 as [H|H]; apply H.
  - destruct H2 as [H|H]; apply H.
Qed.

(** ... and that rank is the one [Alg/Gauss.v] computes *)
Theorem spec_rank A o : wf A -> any_spec A o -> out_r o = rank A /\ firstn (out_r o) (out_Q o) = crp_of A.
Proof.
  intros HA H. destruct o as [[r A'] [P Q]]. unfold out_r, out_Q. cbn [fst snd].
  assert (Hs : plu_struct A r A' P Q) by (destruct H as [H|H]; apply H).
  assert (E : firstn r Q = crp_of A) by (apply crp_of_iff; [assumption|apply (plu_crp _ _ _ _ _ Hs)]).
  split; [|assumption].
  apply (f_equal (@length nat)) in E. rewrite firstn_length, crp_of_length in E by assumption.
  rewrite (plu_len_Q _ _ _ _ _ Hs) in E. pose proof (plu_r_le_nc _ _ _ _ _ Hs). lia.
Qed.

(** * _mzd_pluq: PLE followed by the triangular column swaps gives PLUQ *)
(** on a matrix whose rows >= r vanish beyond column r, the triangular application touches only the
    first r rows (row i receives the swaps t > i, which exchange two zero columns) *)
Lemma tri_rows_below A' Q r i : wf A' -> lapack Q (nc A') ->
  (forall j, r <= j -> get A' i j = false) -> r <= i -> i < nr A' ->
  row (apply_p_right_trans_tri A' Q) i = row A' i.
Proof.
  intros HA' HQ Hz Hr Hi. rewrite tri_spec_row by assumption.
  assert (G : forall l x, (forall t, In t l -> N.testbit x (N.of_nat t) = false /\
                                               N.testbit x (N.of_nat (pval Q t)) = false) ->
              fold_left (fun r0 t => bit_swap r0 t (pval Q t)) l x = x).
  { induction l as [|t l IH]; intros x Hl; cbn [fold_left]; [reflexivity|].
    replace (bit_swap x t (pval Q t)) with x; [apply IH; intros; apply Hl; now right|].
    unfold bit_swap. destruct (Hl t ltac:(now left)) as [E1 E2]. now rewrite E1, E2. }
  apply G. intros t Ht. apply in_seq in Ht.
  pose proof (lapack_pval Q (nc A') t HQ ltac:(lia)) as Hp.
  split; [apply (Hz t); lia|apply (Hz (pval Q t)); lia].
Qed.

Lemma tri_top_rows A' Q r i : r <= nr A' -> i < r ->
  row (apply_p_right_trans_tri (top_rows r A') Q) i = row (apply_p_right_trans_tri A' Q) i.
Proof.
  intros Hr Hi. rewrite !tri_spec_row by (cbn [nr top_rows]; lia).
  cbn [nc top_rows]. f_equal. unfold row, top_rows. cbn [rows]. now apply nth_firstn_lt.
Qed.

Lemma pluq_of_ple_matrix A r A' P Q : plu_struct A r A' P Q ->
  pluq_of_ple ((r, A'), (P, Q)) = ((r, apply_p_right_trans_tri A' Q), (P, Q)).
Proof.
  intros Hs. pose proof (plu_wf _ _ _ _ _ Hs) as HA'. pose proof (plu_nr _ _ _ _ _ Hs) as Hnr.
  pose proof (plu_nc _ _ _ _ _ Hs) as Hnc. pose proof (plu_len_Q _ _ _ _ _ Hs) as HQ.
  pose proof (plu_lapack_Q _ _ _ _ _ Hs) as HlQ. pose proof (plu_r_le_nr _ _ _ _ _ Hs) as Hr.
  unfold pluq_of_ple.
  destruct (negb (r =? 0) && (r <? nr A')) eqn:E; [|reflexivity].
  apply andb_true_iff in E as [_ E]. apply Nat.ltb_lt in E.
  f_equal. f_equal.
  assert (HT : wf (apply_p_right_trans_tri A' Q)) by (apply wf_tri; [assumption|now rewrite Hnc]).
  pose proof (wf_len _ HT) as HlT. rewrite nr_tri in HlT. pose proof (wf_len _ HA') as HlA.
  assert (HT0 : length (rows (apply_p_right_trans_tri (top_rows r A') Q)) = r).
  { assert (W : wf (apply_p_right_trans_tri (top_rows r A') Q)).
    { apply wf_tri; [|cbn [nc top_rows]; now rewrite Hnc].
      unfold top_rows. apply wf_mk; [rewrite firstn_length; lia|].
      intros k Hk. rewrite nth_firstn_lt by assumption. now apply (wf_row_bounded A' k). }
    rewrite (wf_len _ W), nr_tri. reflexivity. }
  destruct (apply_p_right_trans_tri A' Q) as [m n rs] eqn:ET.
  assert (Em : m = nr A') by (rewrite <- (nr_tri A' Q), ET; reflexivity).
  assert (En : n = nc A') by (rewrite <- (nc_tri A' Q), ET; reflexivity).
  subst m n. f_equal. cbn [rows] in HlT.
  apply (list_ext_nth 0%N).
  - rewrite app_length, skipn_length, HT0. lia.
  - intros i Hi. rewrite app_length, skipn_length, HT0 in Hi.
    change (nth i rs 0%N) with (row (mk (nr A') (nc A') rs) i). rewrite <- ET.
    destruct (Nat.lt_ge_cases i r) as [Hlt|Hge].
    + rewrite app_nth1 by lia.
      change (nth i (rows ?M) 0%N) with (row M i). apply tri_top_rows; lia.
    + rewrite app_nth2 by lia. rewrite HT0, nth_skipn_add.
      replace (r + (i - r)) with i by lia.
      change (nth i (rows A') 0%N) with (row A' i). symmetry.
      apply (tri_rows_below A' Q r i); try assumption; try lia; [now rewrite Hnc|].
      intros j Hj. apply (plu_zero _ _ _ _ _ Hs); lia.
Qed.

Theorem pluq_of_ple_spec A out : ple_spec A out -> pluq_spec A (pluq_of_ple out).
Proof.
  destruct out as [[r A'] [P Q]]. intros [Hs Hrec].
  rewrite (pluq_of_ple_matrix A r A' P Q Hs). split; [|exact Hrec].
  pose proof (plu_wf _ _ _ _ _ Hs) as HA'. pose proof (plu_nr _ _ _ _ _ Hs) as Hnr.
  pose proof (plu_nc _ _ _ _ _ Hs) as Hnc.
  destruct Hs as (H1 & H2 & H3 & H4 & H5 & H6 & H7 & H8 & H9 & H10 & H12 & H13 & H14).
  unfold plu_struct. rewrite nr_tri, nc_tri.
  repeat (split; [first [assumption | apply wf_tri; [assumption|now rewrite Hnc]]|]).
  intros i j Hi Hj. destruct (Nat.lt_ge_cases i (nr A')) as [Hlt|Hge].
  - unfold get. rewrite (tri_rows_below A' Q r i HA'); [now apply H14|now rewrite Hnc| |assumption|assumption].
    intros j' Hj'. now apply H14.
  - apply get_out_row; [apply wf_tri; [assumption|now rewrite Hnc]|]. now rewrite nr_tri.
Qed.

(** * the echelon factor: P A = L E with E = U Q (the columns of U un-permuted), and A = P^T L E *)
Definition plu_E (A : mat) (r : nat) (S : mat) (Q : list nat) : mat := apply_p_right (plu_U A r S) Q.

Theorem plu_recon_E A r S P Q : wf A -> lapack P (nr A) -> lapack Q (nc A) ->
  plu_recon A r S P Q ->
  apply_p_left A P = mmul (plu_L A r S) (plu_E A r S Q) /\
  apply_p_left_trans (mmul (plu_L A r S) (plu_E A r S Q)) P = A.
Proof.
  intros HA HP HQ E. unfold plu_recon in E.
  assert (HA1 : wf (apply_p_left A P)) by now apply wf_apply_p_left.
  assert (Hc : nc (apply_p_left A P) = nc A) by apply nc_rswaps.
  assert (E1 : apply_p_left A P = mmul (plu_L A r S) (plu_E A r S Q)).
  { rewrite <- (right_undoes_trans (apply_p_left A P) Q) by (rewrite ?Hc; assumption).
    rewrite E. unfold plu_E.
    rewrite apply_right_is_mul; [|apply wf_mmul; [apply wf_plu_L|apply wf_plu_U]|assumption].
    rewrite (apply_right_is_mul (plu_U A r S)); [|apply wf_plu_U|assumption].
    rewrite nc_mmul. apply mmul_assoc. }
  split; [exact E1|]. rewrite <- E1. now apply trans_undoes_left.
Qed.
