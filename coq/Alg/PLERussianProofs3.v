(* Alg/PLERussianProofs3.v — C03, Four-Russians base case, part 3: _mzd_ple_submatrix (lazy elimination
   with pivots[] / done[]) SIMULATES the naive algorithm on the window.

   Invariant [SI]: with rank = length pivots pivots found, N = nsteps M r0 pv the state of the naive
   algorithm after the same rank iterations (on the FULL matrix M), w = width of the window,
     - the rows above r0 + rank of the window matrix W are the low parts (columns < w) of N's rows,
     - every other row i of W, AFTER the pending additions (those pivots l with done[l] < i) have
       been applied in the order l = 0, 1, .. (catch_up), is the low part of row i of N,
     - rows beyond every done[l] are still the input rows,
     - the columns between the naive cursor and c0 + cp vanish in N below the pivot rows,
     - the naive loop run from the block start equals the naive loop continued from N.
   [scan_spec] (one column), [cols_spec] (all kk columns), [finish_rows] ("finish submatrix"). *)
From Coq Require Import List NArith Arith Lia Bool Sorted.
From M4 Require Import Base.Bits Lin.Mat Lin.MatAlg Lin.Ops Lin.Spec Lin.Perm Lin.Observers
  Alg.PLE Alg.PLELemmas Alg.PLESpec Alg.PLEProofs Alg.PLEProofs2 Alg.PLEProofs3 Alg.PLEProofs4
  Alg.PLERussian Alg.PLERussianProofs Alg.PLERussianProofs2.
Import ListNotations.
Local Open Scope nat_scope.

Definition dmax (i : nat) (done : list nat) : list nat := map (fun d => if d <? i then i else d) done.

Lemma nth_dmax i done t : t < length done -> nth t (dmax i done) 0 = Nat.max i (nth t done 0).
Proof.
  intros Ht. unfold dmax. rewrite (nth_map_default _ _ _ 0) by assumption.
  destruct (Nat.ltb_spec (nth t done 0) i); lia.
Qed.
Lemma dmax_length i done : length (dmax i done) = length done.
Proof. apply map_length. Qed.

Section Sub.
  Variables (M : mat) (P0 Q0 : list nat) (r0 c0 kk w c' : nat).
  Hypothesis HM : wf M.
  Hypothesis Hr0 : r0 < nr M.
  Hypothesis Hck : c0 + kk <= w.
  Hypothesis Hw : w <= nc M.
  Hypothesis HP0 : length P0 = nr M.
  Hypothesis HQ0 : length Q0 = nc M.
  Hypothesis Hc' : c' <= c0.
  Hypothesis Hgap : gap_zero M r0 c' c0.

  Let N (pv : list (nat * nat)) : mat := nsteps M r0 pv.

  Record SI (W : mat) (P Q pivots done : list nat) (pv : list (nat * nat)) (cp cur : nat) : Prop := {
    si_wfW : wf W;
    si_nrW : nr W = nr M;
    si_ncW : nc W = w;
    si_len_d : length done = length pivots;
    si_len_pv : length pv = length pivots;
    si_rank : r0 + length pivots <= nr M;
    si_sorted : StronglySorted lt pivots;
    si_lt : forall p, In p pivots -> p < cp;
    si_pvj : forall l, l < length pivots -> snd (nth l pv (0, 0)) = c0 + nth l pivots 0;
    si_pvi : forall l, l < length pivots -> r0 + l <= fst (nth l pv (0, 0)) <= nth l done 0;
    si_done : forall l, l < length pivots -> r0 + length pivots - 1 <= nth l done 0 < nr M;
    si_P : forall l, l < length pivots -> nth (r0 + l) P 0 = fst (nth l pv (0, 0));
    si_top : forall l, l < r0 + length pivots -> row W l = lo w (row (N pv) l);
    si_virt : forall i, r0 + length pivots <= i ->
              catch_up W c0 i r0 pivots done (row W i) = lo w (row (N pv) i);
    si_untouched : forall i, r0 + length pivots <= i ->
              (forall l, l < length pivots -> nth l done 0 < i) -> row W i = lo w (row M i);
    si_cur : cur <= c0 + cp;
    si_gap : gap_zero (N pv) (r0 + length pivots) cur (c0 + cp);
    si_wfN : wf (N pv) /\ nr (N pv) = nr M /\ nc (N pv) = nc M;
    si_lenPQ : length P = nr M /\ length Q = nc M;
    si_eqn : forall n, ple_naive_loop (length pivots + n) M P0 Q0 r0 c' =
                       ple_naive_loop n (N pv) P Q (r0 + length pivots) cur
  }.

  Lemma si_init W0 : wf W0 -> nr W0 = nr M -> nc W0 = w ->
    (forall i, row W0 i = lo w (row M i)) -> SI W0 P0 Q0 [] [] [] 0 c'.
  Proof.
    intros H1 H2 H3 H4. constructor; cbn [length]; try (intros; lia); auto.
    - constructor.
    - intros p [].
    - intros i _. cbn [catch_up]. apply H4.
    - now rewrite !Nat.add_0_r.
  Qed.

  (** the pivot rows of N *)
  Lemma si_pv_ok W P Q pivots done pv cp cur : SI W P Q pivots done pv cp cur ->
    forall l, l < length pv -> r0 + l <= fst (nth l pv (0, 0)) < nr M.
  Proof.
    intros H l Hl. rewrite (si_len_pv _ _ _ _ _ _ _ _ H) in Hl.
    pose proof (si_pvi _ _ _ _ _ _ _ _ H l Hl). pose proof (si_done _ _ _ _ _ _ _ _ H l Hl). lia.
  Qed.

  (** ** the visit of row i: the pending additions are made *)
  Lemma si_visit W P Q pivots done pv cp cur i : SI W P Q pivots done pv cp cur ->
    r0 + length pivots <= i -> i < nr M ->
    (forall i', r0 + length pivots <= i' -> i' < i ->
       (forall l, l < length pivots -> i' <= nth l done 0) \/
       (forall p, In p pivots -> N.testbit (row W i') (N.of_nat (c0 + p)) = false)) ->
    let x := catch_up W c0 i r0 pivots done (row W i) in
    SI (set_row W i x) P Q pivots (dmax i done) pv cp cur /\ x = lo w (row (N pv) i).
  Proof.
    intros H Hi Hin S2. cbv zeta.
    pose proof (si_virt _ _ _ _ _ _ _ _ H i Hi) as Ex.
    set (x := catch_up W c0 i r0 pivots done (row W i)) in *.
    split; [|exact Ex].
    pose proof (si_wfW _ _ _ _ _ _ _ _ H) as HW. pose proof (si_nrW _ _ _ _ _ _ _ _ H) as HnW.
    pose proof (si_ncW _ _ _ _ _ _ _ _ H) as HcW. pose proof (si_len_d _ _ _ _ _ _ _ _ H) as Hld.
    pose proof (wf_len W HW) as HlW.
    assert (Erow : forall l, row (set_row W i x) l = if l =? i then x else row W l).
    { intros l. rewrite row_set_row. destruct (Nat.eqb_spec l i); [|reflexivity].
      destruct (Nat.ltb_spec i (length (rows W))); [reflexivity|lia]. }
    constructor; try (apply H).
    - apply wf_set_row; [assumption|]. rewrite Ex, HcW. apply bounded_lo.
    - now rewrite dmax_length.
    - intros l Hl. rewrite nth_dmax by lia. pose proof (si_pvi _ _ _ _ _ _ _ _ H l Hl). lia.
    - intros l Hl. rewrite nth_dmax by lia. pose proof (si_done _ _ _ _ _ _ _ _ H l Hl). lia.
    - intros l Hl. rewrite Erow. destruct (Nat.eqb_spec l i); [lia|]. now apply (si_top _ _ _ _ _ _ _ _ H).
    - (* the rows after their pending additions *)
      intros i2 Hi2. rewrite Erow.
      assert (Eext : forall y, catch_up (set_row W i x) c0 i2 r0 pivots (dmax i done) y =
                               catch_up W c0 i2 r0 pivots (dmax i done) y).
      { intros y. apply catch_up_ext; [reflexivity|]. intros t H1 H2. rewrite Erow.
        destruct (Nat.eqb_spec t i); [lia|reflexivity]. }
      rewrite Eext.
      destruct (Nat.eqb_spec i2 i) as [->|Hne].
      + rewrite catch_up_done; [exact Ex|]. intros t Ht. rewrite dmax_length in Ht.
        rewrite nth_dmax by assumption. lia.
      + rewrite <- (si_virt _ _ _ _ _ _ _ _ H i2 Hi2).
        destruct (Nat.lt_ge_cases i i2) as [C|C].
        * apply catch_up_done_ext; [apply dmax_length|]. intros t Ht. rewrite dmax_length in Ht.
          rewrite nth_dmax by assumption.
          destruct (Nat.ltb_spec (Nat.max i (nth t done 0)) i2), (Nat.ltb_spec (nth t done 0) i2); lia || reflexivity.
        * destruct (S2 i2 Hi2 ltac:(lia)) as [S|S].
          -- apply catch_up_done_ext; [apply dmax_length|]. intros t Ht. rewrite dmax_length in Ht.
             rewrite nth_dmax by assumption. specialize (S t ltac:(lia)).
             destruct (Nat.ltb_spec (Nat.max i (nth t done 0)) i2), (Nat.ltb_spec (nth t done 0) i2); lia || reflexivity.
          -- now rewrite !catch_up_noop.
    - (* untouched rows *)
      intros i2 Hi2 Hd. rewrite Erow. destruct (Nat.eqb_spec i2 i) as [->|Hne].
      + destruct pivots as [|p ps].
        * destruct done; [|discriminate]. unfold x. cbn [catch_up].
          apply (si_untouched _ _ _ _ _ _ _ _ H); [assumption|]. cbn [length]. intros; lia.
        * specialize (Hd 0 ltac:(cbn [length]; lia)). rewrite nth_dmax in Hd by (cbn [length] in *; lia). lia.
      + apply (si_untouched _ _ _ _ _ _ _ _ H); [assumption|]. intros l Hl.
        specialize (Hd l Hl). rewrite nth_dmax in Hd by lia. lia.
  Qed.

  (** ** the next column *)
  Lemma si_next_col W P Q pivots done pv cp cur : SI W P Q pivots done pv cp cur ->
    (forall i', r0 + length pivots <= i' -> i' < nr M ->
       N.testbit (row (N pv) i') (N.of_nat (c0 + cp)) = false) ->
    SI W P Q pivots done pv (S cp) cur.
  Proof.
    intros H S1. constructor; try (apply H).
    - intros p Hp. pose proof (si_lt _ _ _ _ _ _ _ _ H p Hp). lia.
    - pose proof (si_cur _ _ _ _ _ _ _ _ H). lia.
    - intros i j Hi Hj1 Hj2. destruct (Nat.eq_dec j (c0 + cp)) as [->|Hne].
      + destruct (Nat.lt_ge_cases i (nr M)) as [C|C]; [now apply S1|].
        destruct (si_wfN _ _ _ _ _ _ _ _ H) as (Hw1 & Hr1 & _). apply get_out_row; [assumption|lia].
      + apply (si_gap _ _ _ _ _ _ _ _ H); lia.
  Qed.

  (** ** a pivot is found in row i (already caught up) *)
  Lemma si_found W P Q pivots done pv cp cur i : SI W P Q pivots done pv cp cur ->
    r0 + length pivots <= i -> i < nr M -> cp < kk ->
    (forall l, l < length pivots -> i <= nth l done 0) ->
    N.testbit (row W i) (N.of_nat (c0 + cp)) = true ->
    (forall i', r0 + length pivots <= i' -> i' < i ->
       N.testbit (row (N pv) i') (N.of_nat (c0 + cp)) = false) ->
    SI (row_swap W (r0 + length pivots) i) (upd (r0 + length pivots) i P) (upd (r0 + length pivots) (c0 + cp) Q)
       (pivots ++ [cp]) (done ++ [i]) (pv ++ [(i, c0 + cp)]) (S cp) (S (c0 + cp)).
  Proof.
    intros H Hi Hin Hcp Hd Hbit S1.
    pose proof (si_wfW _ _ _ _ _ _ _ _ H) as HW. pose proof (si_nrW _ _ _ _ _ _ _ _ H) as HnW.
    pose proof (si_ncW _ _ _ _ _ _ _ _ H) as HcW. pose proof (si_len_d _ _ _ _ _ _ _ _ H) as Hld.
    pose proof (si_len_pv _ _ _ _ _ _ _ _ H) as Hlpv.
    pose proof (wf_len W HW) as HlW.
    destruct (si_wfN _ _ _ _ _ _ _ _ H) as (HwN & HrN & HcN).
    destruct (si_lenPQ _ _ _ _ _ _ _ _ H) as (HlP & HlQ).
    set (rk := length pivots) in *.
    (* rows rk .. i of W are caught up *)
    assert (Eup : forall i2, r0 + rk <= i2 -> i2 <= i -> row W i2 = lo w (row (N pv) i2)).
    { intros i2 H1 H2. rewrite <- (si_virt _ _ _ _ _ _ _ _ H i2 H1). symmetry. apply catch_up_done.
      intros t Ht. specialize (Hd t ltac:(lia)). lia. }
    assert (HbitN : get (N pv) i (c0 + cp) = true).
    { rewrite (Eup i ltac:(lia) ltac:(lia)), testbit_lo in Hbit. now apply andb_true_iff in Hbit as [Hb _]. }
    assert (Efp : find_pivot (N pv) (r0 + rk) cur = Some (i, c0 + cp)).
    { apply find_pivot_unique; [exact HwN|exact HbitN|lia|apply (si_cur _ _ _ _ _ _ _ _ H)| |].
      - intros i2 j2 H1 H2 H3. apply (si_gap _ _ _ _ _ _ _ _ H); assumption.
      - intros i2 H1 H2. now apply S1. }
    destruct (nstep_facts (N pv) (r0 + rk) i (c0 + cp) HwN ltac:(lia)) as (Hw1 & Hr1 & Hc1 & Hrow).
    assert (EN : N (pv ++ [(i, c0 + cp)]) = nstep (N pv) (r0 + rk) i (c0 + cp)).
    { unfold N. rewrite nsteps_snoc. now rewrite Hlpv. }
    assert (Erow : forall l, row (row_swap W (r0 + rk) i) l = row W (swapn (r0 + rk) i l))
      by (intros l; apply row_row_swap; lia).
    assert (Hnth : forall l, l < rk -> nth l (pv ++ [(i, c0 + cp)]) (0, 0) = nth l pv (0, 0))
      by (intros; apply app_nth1; lia).
    assert (Hlast : nth rk (pv ++ [(i, c0 + cp)]) (0, 0) = (i, c0 + cp))
      by (rewrite app_nth2, Hlpv, Nat.sub_diag by lia; reflexivity).
    assert (Hnthp : forall l, l < rk -> nth l (pivots ++ [cp]) 0 = nth l pivots 0)
      by (intros; apply app_nth1; assumption).
    assert (Hlastp : nth rk (pivots ++ [cp]) 0 = cp)
      by (unfold rk; rewrite app_nth2, Nat.sub_diag by lia; reflexivity).
    assert (Hnthd : forall l, l < rk -> nth l (done ++ [i]) 0 = nth l done 0)
      by (intros; apply app_nth1; lia).
    assert (Hlastd : nth rk (done ++ [i]) 0 = i)
      by (rewrite app_nth2, Hld, Nat.sub_diag by lia; reflexivity).
    constructor; rewrite ?app_length; cbn [length]; fold rk; rewrite ?EN.
    - now apply wf_row_swap.
    - exact HnW.
    - exact HcW.
    - lia.
    - lia.
    - lia.
    - (* sorted *)
      pose proof (si_sorted _ _ _ _ _ _ _ _ H) as Hs. pose proof (si_lt _ _ _ _ _ _ _ _ H) as Hlt.
      clear - Hs Hlt. induction pivots as [|p ps IH]; cbn [app].
      + repeat constructor.
      + inversion Hs as [|? ? Hs1 Hs2]; subst. constructor.
        * apply IH; [assumption|]. intros q Hq. apply Hlt. now right.
        * rewrite Forall_app. split; [assumption|]. constructor; [|constructor]. apply Hlt. now left.
    - intros p Hp. apply in_app_or in Hp as [Hp|[<-|[]]]; [|lia].
      pose proof (si_lt _ _ _ _ _ _ _ _ H p Hp). lia.
    - intros l Hl. destruct (Nat.eq_dec l rk) as [->|Hne].
      + now rewrite Hlast, Hlastp.
      + rewrite Hnth, Hnthp by lia. apply (si_pvj _ _ _ _ _ _ _ _ H). lia.
    - intros l Hl. destruct (Nat.eq_dec l rk) as [->|Hne].
      + rewrite Hlast, Hlastd. cbn [fst]. lia.
      + rewrite Hnth, Hnthd by lia. apply (si_pvi _ _ _ _ _ _ _ _ H). lia.
    - intros l Hl. destruct (Nat.eq_dec l rk) as [->|Hne].
      + rewrite Hlastd. lia.
      + rewrite Hnthd by lia. specialize (Hd l ltac:(lia)).
        pose proof (si_done _ _ _ _ _ _ _ _ H l ltac:(lia)). lia.
    - intros l Hl. destruct (Nat.eq_dec l rk) as [->|Hne].
      + rewrite Hlast. cbn [fst]. apply nth_upd_same. lia.
      + rewrite Hnth by lia. rewrite nth_upd_other by lia. apply (si_P _ _ _ _ _ _ _ _ H). lia.
    - (* rows above the new cursor *)
      intros l Hl. rewrite Erow, Hrow. destruct (Nat.ltb_spec (r0 + rk) l); [lia|].
      destruct (Nat.eq_dec l (r0 + rk)) as [->|Hne].
      + rewrite swapn_l. apply Eup; lia.
      + rewrite swapn_other by lia. apply (si_top _ _ _ _ _ _ _ _ H). lia.
    - (* the rows after their pending additions *)
      intros i2 Hi2. rewrite catch_up_snoc by (rewrite Hld; reflexivity). cbv zeta.
      change (nc (row_swap W (r0 + rk) i)) with (nc W). rewrite HcW.
      fold rk. rewrite (Erow (r0 + rk)), swapn_l.
      assert (Ein : catch_up (row_swap W (r0 + rk) i) c0 i2 r0 pivots done (row (row_swap W (r0 + rk) i) i2)
                    = lo w (row (N pv) (swapn (r0 + rk) i i2))).
      { rewrite (catch_up_ext _ W) with (l := r0); [|reflexivity|].
        2:{ intros t H1 H2. rewrite Erow. fold rk in H2. now rewrite swapn_other by lia. }
        rewrite Erow. destruct (Nat.eq_dec i2 i) as [->|Hne].
        - rewrite swapn_r. rewrite catch_up_done by (intros t Ht; specialize (Hd t ltac:(lia)); lia).
          apply Eup; lia.
        - rewrite swapn_other by lia. apply (si_virt _ _ _ _ _ _ _ _ H). lia. }
      rewrite Ein. rewrite Hrow. destruct (Nat.ltb_spec (r0 + rk) i2); [|lia].
      rewrite (Eup i ltac:(lia) ltac:(lia)).
      rewrite lo_red1 by lia.
      destruct (Nat.ltb_spec i i2) as [C|C]; [reflexivity|].
      (* rows between the cursor and the pivot row have a zero in the pivot column *)
      rewrite red1_off; [reflexivity|]. rewrite testbit_lo.
      assert (Hs : r0 + rk <= swapn (r0 + rk) i i2 < i).
      { unfold swapn. destruct (Nat.eqb_spec i2 (r0 + rk)); [lia|]. destruct (Nat.eqb_spec i2 i); lia. }
      rewrite S1 by lia. reflexivity.
    - (* untouched *)
      intros i2 Hi2 Hd2. specialize (Hd2 rk ltac:(lia)) as Hd3. rewrite Hlastd in Hd3.
      rewrite Erow, swapn_other by lia. apply (si_untouched _ _ _ _ _ _ _ _ H); [lia|].
      intros l Hl. specialize (Hd2 l ltac:(lia)). now rewrite Hnthd in Hd2 by assumption.
    - lia.
    - intros i2 j2 H1 H2 H3. lia.
    - splits; auto; congruence.
    - rewrite !upd_length. auto.
    - (* the naive loop makes this very step *)
      intros n. replace (rk + 1 + n) with (rk + S n) by lia.
      pose proof (si_eqn _ _ _ _ _ _ _ _ H (S n)) as En. fold rk in En. rewrite En. cbn [ple_naive_loop].
      pose proof (si_cur _ _ _ _ _ _ _ _ H) as Hcur.
      destruct (Nat.ltb_spec cur (nc (N pv))) as [C|C]; [|lia].
      rewrite Efp. unfold nstep. change (nc (row_swap (N pv) (r0 + rk) i)) with (nc (N pv)).
      replace (r0 + (rk + 1)) with (S (r0 + rk)) by lia. reflexivity.
  Qed.

  (** ** the scan of one column *)
  Lemma scan_spec P Q pivots pv cp cur : cp < kk -> forall n W done i,
    SI W P Q pivots done pv cp cur -> i + n = nr M -> r0 + length pivots <= i ->
    (forall i', r0 + length pivots <= i' -> i' < i ->
       N.testbit (row (N pv) i') (N.of_nat (c0 + cp)) = false) ->
    (forall i', r0 + length pivots <= i' -> i' < i ->
       (forall l, l < length pivots -> i' <= nth l done 0) \/
       (forall p, In p pivots -> N.testbit (row W i') (N.of_nat (c0 + p)) = false)) ->
    match sub_scan n W r0 c0 cp pivots done i with
    | (W1, done1, Some i1) =>
      SI (row_swap W1 (r0 + length pivots) i1) (upd (r0 + length pivots) i1 P)
         (upd (r0 + length pivots) (c0 + cp) Q)
         (pivots ++ [cp]) (done1 ++ [i1]) (pv ++ [(i1, c0 + cp)]) (S cp) (S (c0 + cp))
    | (W1, done1, None) => SI W1 P Q pivots done1 pv (S cp) cur
    end.
  Proof.
    intros Hcp. induction n as [|n IH]; intros W done i H Hn Hi S1 S2; cbn [sub_scan].
    - apply si_next_col; [assumption|]. intros i' H1 H2. apply S1; lia.
    - pose proof (si_len_d _ _ _ _ _ _ _ _ H) as Hld.
      destruct (N.eqb_spec (read_bits W i c0 (S cp)) 0) as [Ez|Ez].
      + (* skipped *)
        pose proof (proj1 (read_bits_zero_iff W i c0 (S cp)) Ez) as Hz.
        assert (Hzp : forall p, In p pivots -> N.testbit (row W i) (N.of_nat (c0 + p)) = false).
        { intros p Hp. apply Hz. pose proof (si_lt _ _ _ _ _ _ _ _ H p Hp). lia. }
        apply IH; auto; try lia.
        * intros i' H1 H2. destruct (Nat.eq_dec i' i) as [->|Hne]; [|apply S1; lia].
          pose proof (si_virt _ _ _ _ _ _ _ _ H i Hi) as Ev. rewrite catch_up_noop in Ev by assumption.
          pose proof (Hz cp ltac:(lia)) as Hb. rewrite Ev, testbit_lo in Hb.
          destruct (Nat.ltb_spec (c0 + cp) w); [|lia]. now rewrite andb_true_r in Hb.
        * intros i' H1 H2. destruct (Nat.eq_dec i' i) as [->|Hne]; [now right|apply S2; lia].
      + destruct (si_visit W P Q pivots done pv cp cur i H Hi ltac:(lia) S2) as [H1 Ex].
        set (x := catch_up W c0 i r0 pivots done (row W i)) in *.
        assert (Erow : row (set_row W i x) i = x).
        { rewrite row_set_row, Nat.eqb_refl. pose proof (wf_len W (si_wfW _ _ _ _ _ _ _ _ H)).
          pose proof (si_nrW _ _ _ _ _ _ _ _ H).
          destruct (Nat.ltb_spec i (length (rows W))); [reflexivity|lia]. }
        assert (Hdm : forall l, l < length pivots -> i <= nth l (dmax i done) 0).
        { intros l Hl. rewrite nth_dmax by lia. lia. }
        destruct (N.testbit x (N.of_nat (c0 + cp))) eqn:Eb.
        * apply si_found with (cur := cur); auto; try lia. now rewrite Erow.
        * apply IH; auto; try lia.
          -- intros i' H2 H3. destruct (Nat.eq_dec i' i) as [->|Hne]; [|apply S1; lia].
             rewrite Ex, testbit_lo in Eb. destruct (Nat.ltb_spec (c0 + cp) w); [|lia].
             now rewrite andb_true_r in Eb.
          -- intros i' H2 H3. destruct (Nat.eq_dec i' i) as [->|Hne]; [now left|].
             destruct (S2 i' H2 ltac:(lia)) as [S|S]; [left|right].
             ++ intros l Hl. fold (dmax i done). rewrite nth_dmax by lia. specialize (S l Hl). lia.
             ++ intros p Hp. rewrite row_set_row. destruct (Nat.eqb_spec i' i); [lia|]. cbn [andb]. now apply S.
  Qed.

  (** ** all columns of the block *)
  Lemma cols_spec : forall n W P Q pivots done pv cp cur, cp + n = kk ->
    SI W P Q pivots done pv cp cur ->
    let '(W1, (P1, Q1), (pivots1, done1)) := sub_cols n W P Q pivots done r0 c0 cp in
    exists pv1 cur1, SI W1 P1 Q1 pivots1 done1 pv1 kk cur1.
  Proof.
    induction n as [|n IH]; intros W P Q pivots done pv cp cur Hn H; cbn [sub_cols].
    - exists pv, cur. now replace kk with cp by lia.
    - pose proof (scan_spec P Q pivots pv cp cur ltac:(lia) (nr W - (r0 + length pivots)) W done
                    (r0 + length pivots) H) as HS.
      rewrite (si_nrW _ _ _ _ _ _ _ _ H) in HS. pose proof (si_rank _ _ _ _ _ _ _ _ H) as Hrk.
      specialize (HS ltac:(lia) ltac:(lia) ltac:(intros; lia) ltac:(intros; lia)).
      rewrite (si_nrW _ _ _ _ _ _ _ _ H).
      destruct (sub_scan (nr M - (r0 + length pivots)) W r0 c0 cp pivots done (r0 + length pivots))
        as [[W1 done1] [i1|]].
      + eapply IH; [|exact HS]; lia.
      + eapply IH; [|exact HS]; lia.
  Qed.
End Sub.
