(* Alg/Gray.v — executable models (definitions only) of m4ri/graycode.c and of mzd_make_table
   (m4ri/brilliantrussian.c).  Proofs: Alg/GrayProofs.v.

   graycode.c:
     int m4ri_gray_code(int number, int length) {
       int lastbit = 0, res = 0;
       for (int i = length - 1; i >= 0; --i) {
         int bit = number & (1 << i);
         res |= (lastbit >> 1) ^ bit;
         lastbit = bit;
       }
       return res; }
     void m4ri_build_code(int *ord, int *inc, int l) {
       for (int i = 0; i < TWOPOW(l); ++i) ord[i] = m4ri_gray_code(i, l);
       for (int i = l; i > 0; --i)
         for (int j = 1; j < TWOPOW(i) + 1; ++j)
           inc[j * TWOPOW(l - i) - 1] = l - i; }

   NOTE (documentation discrepancy): the table in graycode.h documents ord = 0,4,6,2,3,7,5,1 for
   l = 3 (bit-reversed Gray code); the code produces the standard reflected code 0,1,3,2,6,7,5,4.
   The [inc] column of the documentation (0,1,0,2,0,1,0,2) agrees with the code. *)
From Coq Require Import List NArith Arith Bool Permutation.
From M4 Require Import Base.Bits Lin.Mat Lin.Ops.
Import ListNotations.
Local Open Scope nat_scope.

(** * m4ri_gray_code *)
(** [gray_loop number i lastbit res] runs the loop iterations i-1, i-2, ..., 0. *)
Fixpoint gray_loop (number : N) (i : nat) (lastbit res : N) : N :=
  match i with
  | 0 => res
  | S i' =>
    let bit := N.land number (N.shiftl 1 (N.of_nat i')) in
    gray_loop number i' bit (N.lor res (N.lxor (N.shiftr lastbit 1) bit))
  end.
Definition gray_code (number : N) (length : nat) : N := gray_loop number length 0 0.

(** * m4ri_build_code *)
Definition build_ord (l : nat) : list N :=
  map (fun i => gray_code (N.of_nat i) l) (seq 0 (2 ^ l)).

(** the inner loop: for j = 1 .. m : inc[j * s - 1] = v *)
Definition inc_inner (s v m : nat) (inc : list nat) : list nat :=
  fold_left (fun inc j => upd (j * s - 1) v inc) (seq 1 m) inc.
(** the outer loop: i = l, l-1, ..., 1 (scatter writes in program order; later writes win) *)
Definition build_inc_from (inc0 : list nat) (l : nat) : list nat :=
  fold_left (fun inc i => inc_inner (2 ^ (l - i)) (l - i) (2 ^ i) inc) (rev (seq 1 l)) inc0.

(** m4ri_build_all_codes allocates both arrays with calloc, hence the zero start (every entry
    is overwritten anyway: see [build_inc_from_any] in GrayProofs.v). *)
Definition build_code (l : nat) : list N * list nat :=
  (build_ord l, build_inc_from (repeat 0 (2 ^ l)) l).

(** closed form, proved equal to [build_code] for every l (GrayProofs.build_code_fast_eq);
    use it where 2^l is large. *)
Definition tz (n : N) : nat := match n with N0 => 0 | Npos p => ctz_pos p end.
Definition build_code_fast (l : nat) : list N * list nat :=
  (map (fun i => let n := N.of_nat i in N.lxor n (N.shiftr n 1)) (seq 0 (2 ^ l)),
   map (fun p => Nat.min (tz (N.of_nat (S p))) (l - 1)) (seq 0 (2 ^ l))).

(** * What the table construction needs from a code book *)
(** [ord] enumerates [0,2^l) without repetition starting at 0, and consecutive entries differ
    exactly in bit [inc[i]]:  ord[i+1] = ord[i] xor 2^inc[i].  This is the sense in which
    mzd_make_table consumes it: T[i] = T[i-1] + M[r + inc[i-1]], L[ord[i]] = i, and the lookup
    index x read by mzd_read_bits has bit b = column (c + b), so bit b of ord[i] stands for row
    r + b of M. *)
Definition cb_ok (l : nat) (cb : list N * list nat) : Prop :=
  let (ord, inc) := cb in
  length ord = 2 ^ l /\ length inc = 2 ^ l /\
  Permutation ord (map N.of_nat (seq 0 (2 ^ l))) /\
  nth 0 ord 0%N = 0%N /\
  forall i, S i < 2 ^ l ->
    nth i inc 0 < l /\
    nth (S i) ord 0%N = N.lxor (nth i ord 0%N) (2 ^ N.of_nat (nth i inc 0)).
Definition codebook_ok (l : nat) : Prop := cb_ok l (build_code l).

(** * mzd_make_table(M, r, c, k, T, L)
    T, L come in with ARBITRARY previous contents (T0, L0): the tables are reused from block to
    block and the index buffer is malloc'ed.  A table row is an N like a matrix row (column j =
    bit j).  Per the C code:
      - L[0] = 0; row 0 of T is never written;
      - for i = 1 .. 2^k-1:  L[ord[i]] = i;  if r + inc[i-1] >= M->nrows the row is SKIPPED
        (continue), otherwise words homeblock .. M->width-1 of T[i] are overwritten with
        (M[r+inc[i-1]] ^ T[i-1]), the first of them masked to columns >= c and the last to
        columns < M->ncols;  words below homeblock = c/64 keep their old contents. *)
Definition radix : nat := 64.
Definition mwidth (ncols : nat) : nat := (ncols + 63) / 64.

(** one iteration i of the loop; [region] = the columns of the words that are rewritten,
    [msk] = the columns [c, ncols) that survive mask_begin / mask_end *)
Definition mt_step (cb : list N * list nat) (M : mat) (r : nat) (region msk : N)
           (st : list N * list nat) (i : nat) : list N * list nat :=
  let (ord, inc) := cb in
  let (T, L) := st in
  let rowneeded := r + nth (i - 1) inc 0 in
  let L' := upd (N.to_nat (nth i ord 0%N)) i L in
  if nr M <=? rowneeded then (T, L')
  else
    let t := N.lor (N.ldiff (nth i T 0%N) region)
                   (N.land (N.lxor (row M rowneeded) (nth (i - 1) T 0%N)) msk) in
    (upd i t T, L').

Definition mt_region (M : mat) (c : nat) : N :=
  colmask (radix * (c / radix)) (radix * mwidth (nc M)).
Definition mt_mask (M : mat) (c : nat) : N := colmask c (nc M).

Definition make_table_cb (cb : list N * list nat) (M : mat) (r c k : nat)
           (T0 : list N) (L0 : list nat) : list N * list nat :=
  fold_left (mt_step cb M r (mt_region M c) (mt_mask M c)) (seq 1 (2 ^ k - 1)) (T0, upd 0 0 L0).

Definition make_table (M : mat) (r c k : nat) (T0 : list N) (L0 : list nat) : list N * list nat :=
  make_table_cb (build_code k) M r c k T0 L0.

(** the k-row block a table is built from, and table lookup through L *)
Definition block_rows (M : mat) (r k : nat) : list N := firstn k (skipn r (rows M)).
Definition tlookup (TL : list N * list nat) (x : N) : N :=
  nth (nth (N.to_nat x) (snd TL) 0) (fst TL) 0%N.
