(* Alg/SolveProofs.v — C06: the models of m4ri/solve.c (Alg/Solve.v) decide solvability of
   A X = B (A padded with zero rows up to the number of rows of B) and return a solution.

   Part 1: block lemmas (windows of a stack, write-back into a stack, row permutations of a stack).
   Part 2: the factors L = [L1; H], U = [U1 | U2] read from the windows of the stored matrix.
   Part 3: the algebraic core (soundness, completeness).
   Part 4: the chunked loops and the step-by-step evaluation of [pluq_solve_core]
           ([eval_check], [eval_nocheck]).
   The theorems [pluq_solve_verdict], [pluq_solve_nocheck], [solve_verdict], [solve_nocheck] are in
   Alg/SolveProofs2.v, the kernel (C07) in Alg/SolveProofs3.v. *)
From Coq Require Import List NArith ZArith Arith Lia Bool Sorted ZifyBool ZifyNat ZifyN.
From M4 Require Import Base.Bits Lin.Mat Lin.MatAlg Lin.Ops Alg.Gauss Alg.PLE Alg.PLELemmas Alg.PLESpec
  Alg.PLEProofs Lin.Spec Lin.Perm Lin.Tri Lin.Observers Alg.TRSM Alg.TRSMProofs Lin.OpsProofs Alg.Solve.
Import ListNotations.
Local Open Scope nat_scope.

(** * 1. blocks *)
Lemma win_eq M lowr lowc highr highc : win M lowr lowc highr highc = msub M lowr lowc (highr - lowr) (highc - lowc).
Proof. reflexivity. Qed.

Lemma msub_mstack_top X Y r0 c0 k c : wf X -> r0 + k <= nr X ->
  msub (mstack X Y) r0 c0 k c = msub X r0 c0 k c.
Proof.
  intros [Hl _] Hk. unfold msub, mstack. cbn [rows]. f_equal. f_equal.
  rewrite skipn_app, firstn_app, skipn_length.
  replace (k - (length (rows X) - r0)) with 0 by lia. cbn [firstn]. now rewrite app_nil_r.
Qed.

Lemma msub_mstack_bot X Y r0 c0 k c : wf X -> nr X <= r0 ->
  msub (mstack X Y) r0 c0 k c = msub Y (r0 - nr X) c0 k c.
Proof.
  intros [Hl _] Hk. unfold msub, mstack. cbn [rows]. f_equal. f_equal.
  rewrite skipn_app, Hl. rewrite (skipn_all2 (rows X)) by lia. reflexivity.
Qed.

Lemma app_inv_len {T} (a a' b b' : list T) : length a = length a' -> a ++ b = a' ++ b' -> a = a' /\ b = b'.
Proof.
  revert a'. induction a as [|x a IH]; intros [|x' a'] Hl E; cbn in *; try discriminate; [now split|].
  injection E as -> E. destruct (IH a' ltac:(lia) E) as [-> ->]. now split.
Qed.

Lemma mstack_inj X Y X' Y' : wf X -> wf X' -> nr X = nr X' -> mstack X Y = mstack X' Y' ->
  rows X = rows X' /\ rows Y = rows Y'.
Proof.
  intros [Hl _] [Hl' _] Hr E. unfold mstack in E. injection E as _ _ E.
  apply app_inv_len in E; [assumption|congruence].
Qed.

Lemma mat_of_rows X X' : nr X = nr X' -> nc X = nc X' -> rows X = rows X' -> X = X'.
Proof. destruct X, X'; cbn; intros; subst; reflexivity. Qed.

Lemma mpaste_all X Z : wf X -> wf Z -> nr Z = nr X -> nc Z = nc X -> mpaste X 0 0 Z = Z.
Proof.
  intros HX HZ Hr Hc. pose proof (wf_len X HX) as Hl.
  apply mat_ext; auto; [apply wf_mpaste; auto; lia|]. intros i j Hi Hj.
  cbn [nr nc mpaste map_rows] in Hi, Hj.
  rewrite get_mpaste by (auto; lia). rewrite !Nat.sub_0_r. bsolve.
Qed.

Lemma mpaste_mstack_top X Y r0 Z : wf X -> wf Y -> wf Z -> nc X = nc Y -> nc Z <= nc X ->
  r0 + nr Z <= nr X -> mpaste (mstack X Y) r0 0 Z = mstack (mpaste X r0 0 Z) Y.
Proof.
  intros HX HY HZ Hc HcZ Hr. pose proof (wf_len X HX) as Hl. pose proof (wf_len Y HY) as HlY.
  assert (HXY : wf (mstack X Y)) by auto with wf.
  assert (HP : wf (mpaste X r0 0 Z)) by (apply wf_mpaste; auto).
  apply mat_ext.
  - apply wf_mpaste; auto.
  - apply wf_mstack; auto.
  - reflexivity.
  - reflexivity.
  - intros i j _ _. rewrite get_mpaste by (auto; cbn [rows mstack]; rewrite app_length; lia).
    rewrite !get_mstack by assumption. cbn [nr mpaste map_rows].
    rewrite get_mpaste by (auto; lia). bsolve.
Qed.

Lemma mpaste_mstack_bot X Y r0 Z : wf X -> wf Y -> wf Z -> nc X = nc Y -> nc Z <= nc X ->
  nr X <= r0 -> r0 + nr Z <= nr X + nr Y ->
  mpaste (mstack X Y) r0 0 Z = mstack X (mpaste Y (r0 - nr X) 0 Z).
Proof.
  intros HX HY HZ Hc HcZ Hr0 Hr. pose proof (wf_len X HX) as Hl. pose proof (wf_len Y HY) as HlY.
  assert (HXY : wf (mstack X Y)) by auto with wf.
  assert (HP : wf (mpaste Y (r0 - nr X) 0 Z)) by (apply wf_mpaste; auto; lia).
  apply mat_ext.
  - apply wf_mpaste; auto.
  - apply wf_mstack; auto.
  - reflexivity.
  - reflexivity.
  - intros i j _ _. rewrite get_mpaste by (auto; cbn [rows mstack]; rewrite app_length; lia).
    rewrite !get_mstack by assumption.
    rewrite get_mpaste by (auto; lia).
    destruct (Nat.ltb_spec i (nr X)).
    + bsolve.
    + replace (i - nr X - (r0 - nr X)) with (i - r0) by lia. bsolve.
Qed.

(** a matrix is the stack of its top and bottom parts *)
Lemma mstack_split_at B k : wf B -> k <= nr B ->
  B = mstack (msub B 0 0 k (nc B)) (msub B k 0 (nr B - k) (nc B)).
Proof.
  intros HB Hk. pose proof (mstack_msub B 0 0 k (nr B - k) (nc B)) as E. cbn [Nat.add] in E.
  rewrite E by (auto; lia). replace (k + (nr B - k)) with (nr B) by lia. symmetry. now apply msub_full.
Qed.

(** row swaps addressing only the top part of a stack *)
Lemma row_swap_mstack X Y a b : wf X -> wf Y -> nc X = nc Y -> a < nr X -> b < nr X ->
  row_swap (mstack X Y) a b = mstack (row_swap X a b) Y.
Proof.
  intros HX HY Hc Ha Hb. assert (HXY : wf (mstack X Y)) by auto with wf.
  assert (HS : wf (row_swap X a b)) by now apply wf_row_swap.
  apply mat_ext.
  - now apply wf_row_swap.
  - apply wf_mstack; auto.
  - reflexivity.
  - reflexivity.
  - intros i j _ _. rewrite get_row_swap by (auto; cbn [nr mstack]; lia).
    rewrite !get_mstack by assumption. rewrite nr_row_swap.
    rewrite get_row_swap by auto. unfold transp. bsolve.
Qed.

Lemma rswaps_mstack P l X Y : wf X -> wf Y -> nc X = nc Y -> inrange P (nr X) l ->
  rswaps P l (mstack X Y) = mstack (rswaps P l X) Y.
Proof.
  unfold rswaps. revert X. induction l as [|i l IH]; intros X HX HY Hc Hl; cbn [fold_left]; [reflexivity|].
  destruct (Hl i (or_introl eq_refl)) as [Hi Hp].
  rewrite row_swap_mstack by assumption.
  apply IH; auto.
  - now apply wf_row_swap.
  - intros k Hk. rewrite nr_row_swap. apply Hl. now right.
Qed.

Lemma apply_p_left_mstack X Y P : wf X -> wf Y -> nc X = nc Y -> lapack P (nr X) ->
  apply_p_left (mstack X Y) P = mstack (apply_p_left X P) Y.
Proof.
  intros HX HY Hc HP. pose proof (lapack_length P _ HP) as Hl.
  unfold apply_p_left. cbn [nr mstack].
  replace (Nat.min (length P) (nr X + nr Y)) with (Nat.min (length P) (nr X)) by lia.
  apply (rswaps_mstack P _ X Y HX HY Hc). now apply lapack_inrange.
Qed.

Lemma apply_p_left_trans_mstack X Y P : wf X -> wf Y -> nc X = nc Y -> lapack P (nr X) ->
  apply_p_left_trans (mstack X Y) P = mstack (apply_p_left_trans X P) Y.
Proof.
  intros HX HY Hc HP. pose proof (lapack_length P _ HP) as Hl.
  unfold apply_p_left_trans. cbn [nr mstack].
  replace (Nat.min (length P) (nr X + nr Y)) with (Nat.min (length P) (nr X)) by lia.
  apply (rswaps_mstack P _ X Y HX HY Hc). apply inrange_rev. now apply lapack_inrange.
Qed.

(** swaps of zero rows do nothing *)
Lemma row_swap_zero_rows X a b : wf X -> a < nr X -> b < nr X -> row X a = 0%N -> row X b = 0%N ->
  row_swap X a b = X.
Proof.
  intros HX Ha Hb Ea Eb. apply mat_ext; auto; [now apply wf_row_swap|]. intros i j _ _.
  rewrite get_row_swap by assumption. unfold transp, get.
  destruct (Nat.eqb_spec i a) as [->|]; [now rewrite Ea, Eb|].
  destruct (Nat.eqb_spec i b) as [->|]; [now rewrite Ea, Eb|reflexivity].
Qed.

Lemma mstack_assoc X Y Z : mstack (mstack X Y) Z = mstack X (mstack Y Z).
Proof. unfold mstack. cbn [nr nc rows]. f_equal; [lia|apply app_assoc_reverse]. Qed.

Lemma mstack_mzero a b c : mstack (mzero a c) (mzero b c) = mzero (a + b) c.
Proof. unfold mstack, mzero. cbn [nr nc rows]. f_equal. symmetry. apply repeat_app. Qed.

Definition top (k : nat) (M : mat) : mat := msub M 0 0 k (nc M).
(** A padded with zero rows up to N rows *)
Definition padto (N : nat) (A : mat) : mat := mstack A (mzero (N - nr A) (nc A)).
Definition pad (A : mat) : mat := padto (Nat.max (nr A) (nc A)) A.

Lemma top_mstack X Y : wf X -> top (nr X) (mstack X Y) = X.
Proof.
  intros HX. unfold top. rewrite msub_mstack_top by (auto; lia). cbn [nc mstack]. now apply msub_full.
Qed.

Lemma wf_top k M : wf M -> k <= nr M -> wf (top k M).
Proof. intros HM Hk. apply wf_msub. rewrite wf_len; auto. Qed.

(** * 2. the factors read from the windows of the stored matrix *)
Section Factors.
  Variables (A : mat) (r : nat) (S : mat).
  Hypotheses (HS : wf S) (Hnr : nr S = nr A) (Hnc : nc S = nc A) (Hrm : r <= nr A) (Hrn : r <= nc A).

  Lemma wf_LU : wf (win S 0 0 r r).
  Proof. apply wf_msub. rewrite wf_len by assumption. lia. Qed.
  Lemma wf_H : wf (win S r 0 (nr A) r).
  Proof. apply wf_msub. rewrite wf_len by assumption. lia. Qed.
  Lemma wf_U2 : wf (win S 0 r r (nc A)).
  Proof. apply wf_msub. rewrite wf_len by assumption. lia. Qed.

  Lemma plu_L_blocks : plu_L A r S = mstack (unit_lower r (win S 0 0 r r)) (win S r 0 (nr A) r).
  Proof.
    pose proof (wf_len S HS) as Hl.
    apply mat_ext.
    - apply wf_plu_L.
    - apply wf_mstack; [apply wf_unit_lower|apply wf_H|]. cbn. lia.
    - cbn. lia.
    - reflexivity.
    - intros i j Hi Hj. cbn [nr nc plu_L unit_lower_rect] in Hi, Hj.
      unfold plu_L. rewrite get_unit_lower_rect, get_mstack by apply wf_unit_lower.
      rewrite get_unit_lower. unfold win. rewrite !get_msub by lia. cbn [nr unit_lower Nat.add].
      destruct (Nat.ltb_spec i r).
      + bsolve.
      + replace (r + (i - r)) with i by lia. bsolve.
  Qed.

  Lemma plu_U_blocks : plu_U A r S = mconcat (unit_upper r (win S 0 0 r r)) (win S 0 r r (nc A)).
  Proof.
    pose proof (wf_len S HS) as Hl.
    apply mat_ext.
    - apply wf_plu_U.
    - apply wf_mconcat; [apply wf_unit_upper|apply wf_U2|]. cbn. lia.
    - reflexivity.
    - cbn. lia.
    - intros i j Hi Hj. cbn [nr nc plu_U unit_upper_rect] in Hi, Hj.
      unfold plu_U. rewrite get_unit_upper_rect, get_mconcat by (try apply wf_unit_upper; try apply wf_U2; cbn; lia).
      rewrite get_unit_upper. unfold win. rewrite !get_msub by lia. cbn [nc unit_upper Nat.add].
      destruct (Nat.ltb_spec j r).
      + bsolve.
      + replace (r + (j - r)) with j by lia. bsolve.
  Qed.
End Factors.

(** * 3. the algebraic core *)
Section Core.
  Variables (A : mat) (r : nat) (S : mat) (P Q : list nat).
  Hypothesis HA : wf A.
  Hypothesis HSt : plu_struct A r S P Q.
  Hypothesis HRe : plu_recon A r S P Q.

  Let Pm := pmat (nr A) P.
  Let Qm := pmat (nc A) Q.
  Let L := plu_L A r S.
  Let U := plu_U A r S.
  Let LU := win S 0 0 r r.
  Let H := win S r 0 (nr A) r.
  Let U2 := win S 0 r r (nc A).

  Let HlP : lapack P (nr A) := plu_lapack_P _ _ _ _ _ HSt.
  Let HlQ : lapack Q (nc A) := plu_lapack_Q _ _ _ _ _ HSt.
  Let HwS : wf S := plu_wf _ _ _ _ _ HSt.
  Let HnrS : nr S = nr A := plu_nr _ _ _ _ _ HSt.
  Let HncS : nc S = nc A := plu_nc _ _ _ _ _ HSt.
  Let Hrm : r <= nr A := plu_r_le_nr _ _ _ _ _ HSt.
  Let Hrn : r <= nc A := plu_r_le_nc _ _ _ _ _ HSt.

  Lemma L_blocks : L = mstack (unit_lower r LU) H.
  Proof. now apply plu_L_blocks. Qed.
  Lemma U_blocks : U = mconcat (unit_upper r LU) U2.
  Proof. now apply plu_U_blocks. Qed.

  Lemma wf_LUprod : wf (mmul L U).
  Proof. apply wf_mmul; [apply wf_plu_L|apply wf_plu_U]. Qed.

  (** A = P^T (L U) Q *)
  Lemma recon_A : A = mmul (mtrans Pm) (mmul (mmul L U) Qm).
  Proof.
    pose proof (plu_recon_inv A r S P Q HA HlP HlQ HRe) as E. fold L U in E.
    rewrite apply_right_is_mul in E by (try apply wf_LUprod; exact HlQ).
    rewrite apply_left_trans_is_mul in E.
    - symmetry. exact E.
    - apply wf_mmul; [apply wf_LUprod|apply wf_pmat].
    - exact HlP.
  Qed.

  (** P A = (L U) Q *)
  Lemma recon_PA : mmul Pm A = mmul (mmul L U) Qm.
  Proof.
    transitivity (mmul Pm (mmul (mtrans Pm) (mmul (mmul L U) Qm))); [f_equal; exact recon_A|].
    rewrite <- mmul_assoc.
    pose proof (proj2 (pmat_orthogonal (nr A) P HlP)) as Eo. fold Pm in Eo. rewrite Eo.
    apply (mmul_id_l (mmul (mmul L U) Qm)). apply wf_mmul; [apply wf_LUprod|apply wf_pmat].
  Qed.

  Lemma recon_mul Y : mmul A Y = mmul (mtrans Pm) (mmul L (mmul U (mmul Qm Y))).
  Proof.
    pose proof recon_A as E. apply (f_equal (fun M => mmul M Y)) in E. rewrite E. now rewrite !mmul_assoc.
  Qed.

  Section Sound.
    Variables (c : nat) (C1 C2 W V : mat).
    Hypotheses (HW : wf W) (HrW : nr W = r) (HcW : nc W = c).
    Hypotheses (HV : wf V) (HrV : nr V = r) (HcV : nc V = c).
    Hypothesis E1 : mmul (unit_lower r LU) W = C1.
    Hypothesis E2 : mmul H W = C2.
    Hypothesis E3 : mmul (unit_upper r LU) V = W.

    Lemma core_sound :
      mmul A (mmul (mtrans Qm) (mstack V (mzero (nc A - r) c))) = mmul (mtrans Pm) (mstack C1 C2).
    Proof.
      set (Z := mstack V (mzero (nc A - r) c)).
      assert (HZ : wf Z) by (apply wf_mstack; auto with wf).
      assert (HrZ : nr Z = nc A) by (cbn; lia).
      rewrite recon_mul. f_equal.
      rewrite <- (mmul_assoc Qm).
      pose proof (proj2 (pmat_orthogonal (nc A) Q HlQ)) as Eo. fold Qm in Eo. rewrite Eo.
      rewrite <- HrZ at 1. rewrite mmul_id_l by assumption.
      assert (EU : mmul U Z = W).
      { rewrite U_blocks. unfold Z. rewrite mmul_concat_stack.
        - rewrite E3. replace (nc A - r) with (nc U2) by (cbn; lia).
          rewrite mmul_zero_r by (apply wf_U2; auto).
          replace (nr U2) with (nr W) by (cbn; lia). rewrite <- HcW. now apply madd_zero_r.
        - apply wf_unit_upper.
        - apply wf_U2; auto.
        - assumption.
        - apply wf_mzero.
        - cbn. lia.
        - cbn. lia.
        - cbn. lia. }
      rewrite EU, L_blocks, mmul_mstack_l, E1, E2. reflexivity.
    Qed.
  End Sound.

  Section Complete.
    Variables (C1 C2 W X : mat).
    Hypotheses (HC1 : wf C1) (HrC1 : nr C1 = r) (HcC2 : nc C2 = nc C1).
    Hypotheses (HW : wf W) (HrW : nr W = r).
    Hypotheses (HX : wf X) (HrX : nr X = nc A) (HcX : nc X = nc C1).
    Hypothesis E1 : mmul (unit_lower r LU) W = C1.
    Hypothesis EX : mmul Pm (mmul A X) = mstack C1 C2.

    Lemma core_complete : mmul H W = C2.
    Proof.
      rewrite <- mmul_assoc, recon_PA, !mmul_assoc in EX.
      set (W' := mmul U (mmul Qm X)) in EX.
      assert (HW' : wf W') by (apply wf_mmul; [apply wf_plu_U|apply wf_mmul; [apply wf_pmat|assumption]]).
      rewrite L_blocks, mmul_mstack_l in EX.
      pose proof (f_equal nr EX) as En. pose proof (f_equal nc EX) as Ec. cbn [nr nc mstack mmul] in En, Ec.
      destruct (mstack_inj _ _ _ _ (wf_mmul _ _ (wf_unit_lower r LU) HW') HC1 ltac:(cbn; lia) EX) as [R1 R2].
      assert (EW : W' = W).
      { apply (trsm_unique_lower_left r LU); auto.
        rewrite E1. apply mat_of_rows; auto; cbn in *; lia. }
      rewrite <- EW. apply mat_of_rows; auto; cbn in *; lia.
    Qed.
  End Complete.
End Core.

(** * 4a. the chunked loops (solve.c:109-113, :175-180, :184) *)
Ltac Zify.zify_post_hook ::= Z.div_mod_to_equations.

Ltac split4 := split; [|split; [|split]].

Definition chunks_upto (k : nat) : list nat := map (fun t => PLE.radix * t) (seq 0 k).

Lemma chunks_upto_S k : chunks_upto (S k) = chunks_upto k ++ [PLE.radix * k].
Proof. unfold chunks_upto. now rewrite seq_S, map_app. Qed.

Lemma chunks_cover ncols j : j < ncols -> j < PLE.radix * ((ncols + PLE.radix - 1) / PLE.radix).
Proof. unfold PLE.radix. intros H. lia. Qed.

(** clearing one row chunk by chunk *)
Definition clear_row_chunks (B : mat) (i : nat) (l : list nat) : mat :=
  fold_left (fun B j => clear_bits B i j (Nat.min PLE.radix (nc B - j))) l B.

Lemma clear_row_chunks_spec B i k :
  let B' := clear_row_chunks B i (chunks_upto k) in
  nr B' = nr B /\ nc B' = nc B /\ (wf B -> wf B') /\
  forall i' j', get B' i' j' =
    get B i' j' && negb ((i' =? i) && (j' <? PLE.radix * k) && (j' <? nc B)).
Proof.
  induction k as [|k IH]; cbn zeta.
  - change (clear_row_chunks B i (chunks_upto 0)) with B. split4; auto.
    intros i' j'. rewrite Nat.mul_0_r. bsolve; now rewrite andb_true_r.
  - unfold clear_row_chunks in *. rewrite chunks_upto_S, fold_left_app. cbn [fold_left].
    cbn zeta in IH. set (Bk := fold_left _ (chunks_upto k) B) in *.
    destruct IH as (Hr & Hc & Hw & Hg).
    split4; auto.
    + intros HB. apply wf_clear_bits. auto.
    + intros i' j'. rewrite get_clear_bits, Hg, Hc. unfold PLE.radix.
      destruct (get B i' j'); cbn [andb]; [|reflexivity]. bsolve.
Qed.

Lemma clear_row_all B i : wf B ->
  let B' := clear_row_chunks B i (chunks (nc B)) in
  nr B' = nr B /\ nc B' = nc B /\ wf B' /\ forall i' j', get B' i' j' = get B i' j' && negb (i' =? i).
Proof.
  intros HB. destruct (clear_row_chunks_spec B i ((nc B + PLE.radix - 1) / PLE.radix)) as (Hr & Hc & Hw & Hg).
  cbn zeta. fold (chunks (nc B)) in *. split4; auto. intros i' j'. rewrite Hg.
  destruct (Nat.ltb_spec j' (nc B)) as [Hj|Hj].
  - pose proof (chunks_cover _ _ Hj). bsolve.
  - rewrite (get_out_col B) by assumption. reflexivity.
Qed.

Lemma clear_rows_from_spec B from : wf B ->
  let B' := clear_rows_from B from in
  nr B' = nr B /\ nc B' = nc B /\ wf B' /\ forall i j, get B' i j = get B i j && (i <? from).
Proof.
  intros HB. unfold clear_rows_from.
  assert (G : forall l B0, wf B0 ->
     let B' := fold_left (fun B i => clear_row_chunks B i (chunks (nc B))) l B0 in
     nr B' = nr B0 /\ nc B' = nc B0 /\ wf B' /\
     forall i j, get B' i j = get B0 i j && negb (existsb (Nat.eqb i) l)).
  { induction l as [|a l IH]; intros B0 HB0; cbn [fold_left existsb].
    - split4; auto. intros. now rewrite andb_true_r.
    - destruct (clear_row_all B0 a HB0) as (Hr & Hc & Hw & Hg). cbn zeta in *.
      destruct (IH _ Hw) as (Hr' & Hc' & Hw' & Hg').
      split4; try congruence. intros i j. rewrite Hg', Hg.
      destruct (get B0 i j), (i =? a); reflexivity. }
  destruct (G (seq from (nr B - from)) B HB) as (Hr & Hc & Hw & Hg).
  cbn zeta. unfold clear_row_chunks in *. split4; auto. intros i j. rewrite Hg.
  destruct (Nat.ltb_spec i from) as [Hi|Hi].
  - replace (existsb (Nat.eqb i) (seq from (nr B - from))) with false; [reflexivity|].
    symmetry. apply not_true_is_false. intros E. apply existsb_exists in E as (x & Hx & Ex).
    apply in_seq in Hx. apply Nat.eqb_eq in Ex. lia.
  - destruct (Nat.lt_ge_cases i (nr B)) as [Hi'|Hi'].
    + replace (existsb (Nat.eqb i) (seq from (nr B - from))) with true; [cbn [negb]; now rewrite !andb_false_r|].
      symmetry. apply existsb_exists. exists i. split; [apply in_seq; lia|apply Nat.eqb_refl].
    + rewrite (get_out_row B) by assumption. reflexivity.
Qed.

Lemma clear_rows_from_mstack V W : wf V -> wf W -> nc V = nc W ->
  clear_rows_from (mstack V W) (nr V) = mstack V (mzero (nr W) (nc V)).
Proof.
  intros HV HW Hc. assert (HVW : wf (mstack V W)) by auto with wf.
  destruct (clear_rows_from_spec (mstack V W) (nr V) HVW) as (Hr & Hc' & Hw & Hg). cbn zeta in *.
  apply mat_ext; auto.
  - apply wf_mstack; auto with wf.
  - intros i j _ _. rewrite Hg, !get_mstack by assumption. rewrite get_mzero. bsolve. now rewrite andb_true_r.
Qed.

(** * 4b. step-by-step evaluation of _mzd_pluq_solve_left *)
Lemma msub_eq_full X a k c' : wf X -> a = 0 -> k = nr X -> c' = nc X -> msub X a 0 k c' = X.
Proof. intros HX -> -> ->. now apply msub_full. Qed.

Lemma wf_nr0 X : wf X -> nr X = 0 -> X = mzero 0 (nc X).
Proof.
  intros [Hl _] H0. destruct X as [a b l]. cbn in *. subst a. destruct l; [reflexivity|discriminate].
Qed.

Section Eval.
  Variables (trsm_ll trsm_ul : mat -> mat -> mat).
  Hypothesis Hll : forall L B, wf L -> wf B -> nr L = nr B -> nc L = nr B ->
    let X := trsm_ll L B in wf X /\ nr X = nr B /\ nc X = nc B /\ mmul (unit_lower (nr B) L) X = B.
  Hypothesis Hul : forall U B, wf U -> wf B -> nr U = nr B -> nc U = nr B ->
    let X := trsm_ul U B in wf X /\ nr X = nr B /\ nc X = nc B /\ mmul (unit_upper (nr B) U) X = B.
  Variable cutoff : nat.
  Variables (m : nat) (r : nat) (S : mat) (Q : list nat).
  Hypotheses (HwS : wf S) (HnrS : nr S = m) (Hrm : r <= m).

  Let LU := win S 0 0 r r.
  Let H := win S r 0 m r.

  Variables (C1 C2 C3 : mat) (c N : nat).
  Hypotheses (HC1 : wf C1) (HC2 : wf C2) (HC3 : wf C3).
  Hypotheses (HrC1 : nr C1 = r) (HcC1 : nc C1 = c) (HrC2 : nr C2 = m - r) (HcC2 : nc C2 = c)
             (HrC3 : nr C3 = N - m) (HcC3 : nc C3 = c) (HmN : m <= N).

  Let W := trsm_ll LU C1.
  Let V := trsm_ul LU W.
  Let Y2 := madd C2 (mmul H W).

  Lemma eval_wfLU : wf LU /\ nr LU = r /\ nc LU = r.
  Proof.
    split; [apply wf_msub; rewrite wf_len by assumption; lia|]. cbn. lia.
  Qed.
  Lemma eval_wfH : wf H /\ nr H = m - r /\ nc H = r.
  Proof.
    split; [apply wf_msub; rewrite wf_len by assumption; lia|]. cbn. lia.
  Qed.
  Lemma eval_W : wf W /\ nr W = r /\ nc W = c /\ mmul (unit_lower r LU) W = C1.
  Proof.
    destruct eval_wfLU as (h1 & h2 & h3).
    destruct (Hll LU C1 h1 HC1 ltac:(lia) ltac:(lia)) as (a & b & d & e). fold W in a, b, d, e.
    rewrite HrC1 in *. rewrite HcC1 in *. auto.
  Qed.
  Lemma eval_V : wf V /\ nr V = r /\ nc V = c /\ mmul (unit_upper r LU) V = W.
  Proof.
    destruct eval_wfLU as (h1 & h2 & h3). destruct eval_W as (w1 & w2 & w3 & _).
    destruct (Hul LU W h1 w1 ltac:(lia) ltac:(lia)) as (a & b & d & e). fold V in a, b, d, e.
    rewrite w2 in *. rewrite w3 in *. auto.
  Qed.
  Lemma eval_Y2 : wf Y2 /\ nr Y2 = m - r /\ nc Y2 = c.
  Proof.
    destruct eval_wfH as (h1 & h2 & h3). destruct eval_W as (w1 & w2 & w3 & _).
    split; [|cbn; lia]. apply wf_madd; auto with wf; cbn; lia.
  Qed.

  Lemma eval_check B0 P0 : apply_p_left B0 P0 = mstack (mstack C1 C2) C3 ->
    pluq_solve_core trsm_ll trsm_ul false cutoff S r P0 Q B0 true =
    ((if is_zero Y2 then (if is_zero C3 then 0 else -1) else -1)%Z,
     apply_p_left_trans (mstack (mstack V Y2) (mzero (N - m) c)) Q).
  Proof.
    intros EB1. unfold pluq_solve_core. cbv zeta. rewrite EB1.
    destruct eval_wfLU as (l1 & l2 & l3). destruct eval_wfH as (h1 & h2 & h3).
    destruct eval_W as (w1 & w2 & w3 & _). destruct eval_V as (v1 & v2 & v3 & _).
    destruct eval_Y2 as (y1 & y2 & y3).
    change (nc (mstack (mstack C1 C2) C3)) with (nc C1). rewrite HcC1, HnrS.
    assert (HC12 : wf (mstack C1 C2)) by (apply wf_mstack; auto; lia).
    assert (HWC : wf (mstack W C2)) by (apply wf_mstack; auto; lia).
    assert (HWY : wf (mstack W Y2)) by (apply wf_mstack; auto; lia).
    assert (HVY : wf (mstack V Y2)) by (apply wf_mstack; auto; lia).
    pose proof (wf_mzero (N - m) c) as HZ3.
    assert (E1 : win (mstack (mstack C1 C2) C3) 0 0 r c = C1).
    { unfold win. rewrite !msub_mstack_top by (auto; cbn; lia).
      apply msub_eq_full; auto; lia. }
    rewrite E1. change (trsm_ll (win S 0 0 r r) C1) with W.
    assert (E2 : mpaste (mstack (mstack C1 C2) C3) 0 0 W = mstack (mstack W C2) C3).
    { rewrite !mpaste_mstack_top by (auto; cbn; lia). now rewrite mpaste_all by (auto; lia). }
    rewrite E2.
    change (nc (mstack (mstack W C2) C3)) with (nc W). rewrite w3.
    change (nr (mstack (mstack W C2) C3)) with (nr W + nr C2 + nr C3).
    match goal with |- context [if m <? ?x then ?a else ?b] =>
      assert (E3 : (if m <? x then a else b) =
                   ((if is_zero C3 then 0 else -1)%Z, mstack (mstack W C2) (mzero (N - m) c))) end.
    { destruct (Nat.ltb_spec m (nr W + nr C2 + nr C3)) as [Hlt|Hge].
      - assert (E : win (mstack (mstack W C2) C3) m 0 (nr W + nr C2 + nr C3) c = C3).
        { unfold win. rewrite msub_mstack_bot by (auto; cbn; lia).
          apply msub_eq_full; auto; cbn; lia. }
        rewrite E. rewrite set_ui_even by reflexivity. f_equal.
        rewrite mpaste_mstack_bot by (auto with wf; cbn; lia).
        f_equal. rewrite HrC3, HcC3. replace (m - nr (mstack W C2)) with 0 by (cbn; lia).
        apply mpaste_all; auto with wf.
      - assert (E0 : nr C3 = 0) by lia. pose proof (wf_nr0 C3 HC3 E0) as E.
        rewrite HcC3 in E. replace (N - m) with 0 by lia. rewrite E. reflexivity. }
    rewrite E3. cbv beta iota.
    change (nc (mstack (mstack W C2) (mzero (N - m) c))) with (nc W). rewrite w3.
    assert (E4 : win (mstack (mstack W C2) (mzero (N - m) c)) r 0 m c = C2).
    { unfold win. rewrite msub_mstack_top by (auto; cbn; lia).
      rewrite msub_mstack_bot by (auto; lia). apply msub_eq_full; auto; lia. }
    rewrite E4. unfold addmul_spec. change (win S r 0 m r) with H. change (madd C2 (mmul H W)) with Y2.
    assert (E5 : mpaste (mstack (mstack W C2) (mzero (N - m) c)) r 0 Y2 = mstack (mstack W Y2) (mzero (N - m) c)).
    { rewrite mpaste_mstack_top by (auto; cbn; lia).
      f_equal. rewrite mpaste_mstack_bot by (auto; lia). f_equal.
      rewrite w2, Nat.sub_diag. apply mpaste_all; auto; lia. }
    rewrite E5. change (trsm_ul (win S 0 0 r r) W) with V.
    assert (E6 : mpaste (mstack (mstack W Y2) (mzero (N - m) c)) 0 0 V = mstack (mstack V Y2) (mzero (N - m) c)).
    { rewrite !mpaste_mstack_top by (auto; cbn; lia).
      now rewrite mpaste_all by (auto; lia). }
    rewrite E6. reflexivity.
  Qed.

  Lemma eval_nocheck B0 P0 : apply_p_left B0 P0 = mstack (mstack C1 C2) C3 ->
    pluq_solve_core trsm_ll trsm_ul false cutoff S r P0 Q B0 false =
    (0%Z, apply_p_left_trans (mstack V (mzero (N - r) c)) Q).
  Proof.
    intros EB1. unfold pluq_solve_core. cbv zeta. rewrite EB1.
    destruct eval_wfLU as (l1 & l2 & l3).
    destruct eval_W as (w1 & w2 & w3 & _). destruct eval_V as (v1 & v2 & v3 & _).
    change (nc (mstack (mstack C1 C2) C3)) with (nc C1). rewrite HcC1.
    assert (HC12 : wf (mstack C1 C2)) by (apply wf_mstack; auto; lia).
    assert (HWC : wf (mstack W C2)) by (apply wf_mstack; auto; lia).
    assert (HC23 : wf (mstack C2 C3)) by (apply wf_mstack; auto; lia).
    assert (E1 : win (mstack (mstack C1 C2) C3) 0 0 r c = C1).
    { unfold win. rewrite !msub_mstack_top by (auto; cbn; lia).
      apply msub_eq_full; auto; lia. }
    rewrite E1. change (trsm_ll (win S 0 0 r r) C1) with W.
    assert (E2 : mpaste (mstack (mstack C1 C2) C3) 0 0 W = mstack (mstack W C2) C3).
    { rewrite !mpaste_mstack_top by (auto; cbn; lia). now rewrite mpaste_all by (auto; lia). }
    rewrite E2. change (trsm_ul (win S 0 0 r r) W) with V.
    assert (E6 : mpaste (mstack (mstack W C2) C3) 0 0 V = mstack (mstack V C2) C3).
    { rewrite !mpaste_mstack_top by (auto; cbn; lia). now rewrite mpaste_all by (auto; lia). }
    rewrite E6. rewrite mstack_assoc. rewrite <- v2 at 1.
    rewrite clear_rows_from_mstack by (auto; cbn; lia). rewrite v3.
    replace (nr (mstack C2 C3)) with (N - r) by (cbn; lia). reflexivity.
  Qed.
End Eval.
