(* Alg/PLERussianProofs5.v — C03, Four-Russians base case, part 5: one pass of the while loop.

   [sub_spec] (part 4) is transported through mzd_init_window / write-back ([window], [mpaste]) and
   combined with the statement [update_ok] about the table-driven updates (steps 2, 4-6:
   _mzd_ple_a10, tables, _mzd_ple_a11, _mzd_process_rows_ple): given what _mzd_ple_submatrix has
   established on the window, they produce, row by row, the state of the naive algorithm.

     block_ok_of_update : update_ok k -> block_ok k
     update_ok_narrow_partial : the updates are correct when the window is the whole matrix and the
                                block is not of full rank (no table is consulted)                 *)
From Coq Require Import List NArith Arith Lia Bool Sorted ZArith ZifyBool ZifyNat ZifyN.
From M4 Require Import Base.Bits Lin.Mat Lin.MatAlg Lin.Ops Lin.OpsProofs Lin.Spec Lin.Perm Lin.Observers
  Alg.PLE Alg.PLELemmas Alg.PLESpec Alg.PLEProofs Alg.PLEProofs2 Alg.PLEProofs3 Alg.PLEProofs4
  Alg.PLERussian Alg.PLERussianProofs Alg.PLERussianProofs2 Alg.PLERussianProofs3 Alg.PLERussianProofs4.
Import ListNotations.
Local Open Scope nat_scope.

(** * the window *)
Lemma win_cols_bounds n c kk : c + kk <= n -> c + kk <= win_cols n c kk <= n.
Proof.
  intros H. unfold win_cols. change Alg.PLE.radix with 64.
  set (width := (n + 64 - 1) / 64).
  set (sb := Nat.min (Nat.max ((c + kk) / 64 + 1) (c / 64 + 8)) width).
  destruct (Nat.ltb_spec sb width) as [C|C]; [|lia].
  assert (H1 : 64 * width <= n + 63).
  { unfold width. pose proof (Nat.div_mod (n + 64 - 1) 64 ltac:(lia)). lia. }
  assert (H2 : (c + kk) / 64 + 1 <= sb) by (unfold sb; lia).
  pose proof (Nat.div_mod (c + kk) 64 ltac:(lia)) as H3.
  pose proof (Nat.mod_upper_bound (c + kk) 64 ltac:(lia)) as H4.
  nia.
Qed.

Lemma window_facts M w : wf M ->
  let W := window M 0 0 (nr M) w in
  wf W /\ nr W = nr M /\ nc W = w /\ forall i, row W i = lo w (row M i).
Proof.
  intros HM. pose proof (wf_len M HM) as Hl. cbv zeta. unfold window.
  rewrite !Nat.sub_0_r, Nat.min_id.
  splits.
  - apply wf_msub. lia.
  - reflexivity.
  - reflexivity.
  - intros i. unfold msub, row. cbn [rows skipn]. rewrite <- Hl, firstn_all.
    set (f := fun x => N.land (N.shiftr x (N.of_nat 0)) (N.ones (N.of_nat w))).
    change 0%N with (f 0%N) at 1. rewrite map_nth. unfold f, lo. now rewrite N.shiftr_0_r.
Qed.

Lemma mpaste0_rows M B : wf M -> wf B -> nr B = nr M -> nc B <= nc M ->
  let X := mpaste M 0 0 B in
  wf X /\ nr X = nr M /\ nc X = nc M /\
  forall i, lo (nc B) (row X i) = row B i /\ hi (nc B) (row X i) = hi (nc B) (row M i).
Proof.
  intros HM HB Hr Hc. pose proof (wf_len M HM) as Hl. cbv zeta. splits.
  - apply wf_mpaste; auto.
  - reflexivity.
  - reflexivity.
  - intros i. unfold mpaste. rewrite row_map_rows.
    destruct (Nat.ltb_spec i (length (rows M))) as [C|C].
    + destruct (Nat.leb_spec 0 i); [|lia]. destruct (Nat.ltb_spec i (0 + nr B)); [|lia]. cbn [andb].
      rewrite Nat.sub_0_r, N.shiftl_0_r, Nat.add_0_l.
      pose proof (wf_row_bounded B i HB) as Hb.
      split; apply bits_ext_nat; intros j.
      * rewrite testbit_lo, N.lor_spec, N.ldiff_spec, testbit_colmask.
        destruct (Nat.ltb_spec j (nc B)) as [D|D]; cbn [Nat.leb andb negb];
          rewrite ?andb_false_r, ?andb_true_r; cbn [orb]; [reflexivity|].
        now rewrite (Hb j D).
      * rewrite !testbit_hi, N.lor_spec, N.ldiff_spec, testbit_colmask.
        destruct (Nat.ltb_spec j (nc B)) as [D|D]; cbn [Nat.leb andb negb];
          rewrite ?andb_false_r, ?andb_true_r; [reflexivity|].
        rewrite (Hb j D). now rewrite orb_false_r.
    + rewrite (row_overflow M i C).
      rewrite (row_overflow B) by (rewrite (wf_len B HB); lia). split; reflexivity.
Qed.

(** * the statement about the table-driven updates *)
Definition update_ok (k : nat) : Prop :=
  forall M P0 Q0 r c kk c' W1 done_row P1 Q1 pivots pv cur,
  wf M -> r < nr M -> 1 <= kk -> c + kk <= nc M ->
  let w := win_cols (nc M) c kk in
  SubPost M P0 Q0 r c kk w c' W1 done_row P1 Q1 pivots pv cur -> 0 < length pivots ->
  let M2 := ple_a10 (mpaste M 0 0 W1) P1 r c w pivots in
  let Mf := russian_update k M2 r c kk w done_row pivots in
  nr Mf = nr M /\ nc Mf = nc M /\ length (rows Mf) = nr M /\
  forall i, i < nr M -> row Mf i = row (nsteps M r pv) i.

(** a block without pivot: steps 1-3 leave the matrix as it is *)
Lemma no_pivot_rows M P0 Q0 r c kk c' W1 done_row P1 Q1 pivots pv cur :
  wf M -> r < nr M -> 1 <= kk -> c + kk <= nc M ->
  let w := win_cols (nc M) c kk in
  SubPost M P0 Q0 r c kk w c' W1 done_row P1 Q1 pivots pv cur -> length pivots = 0 ->
  let Mf := ple_a10 (mpaste M 0 0 W1) P1 r c w pivots in
  nr Mf = nr M /\ nc Mf = nc M /\ length (rows Mf) = nr M /\
  forall i, i < nr M -> row Mf i = row (nsteps M r pv) i.
Proof.
  intros HM Hr Hkk Hck w HS E0. cbv zeta.
  pose proof (win_cols_bounds (nc M) c kk Hck) as [Hw1 Hw2]. fold w in Hw1, Hw2.
  pose proof (sp_wfW _ _ _ _ _ _ _ _ _ _ _ _ _ _ _ HS) as HW1.
  pose proof (sp_nrW _ _ _ _ _ _ _ _ _ _ _ _ _ _ _ HS) as HrW1.
  pose proof (sp_ncW _ _ _ _ _ _ _ _ _ _ _ _ _ _ _ HS) as HcW1.
  pose proof (sp_len_pv _ _ _ _ _ _ _ _ _ _ _ _ _ _ _ HS) as Hlpv.
  pose proof (sp_dr_full _ _ _ _ _ _ _ _ _ _ _ _ _ _ _ HS ltac:(lia)) as Hdr.
  destruct pivots; [|discriminate]. destruct pv; [|cbn [length] in Hlpv; lia].
  destruct (mpaste0_rows M W1 HM HW1 HrW1 ltac:(lia)) as (HwX & HrX & HcX & HrowX).
  set (M1 := mpaste M 0 0 W1) in *.
  assert (E2 : ple_a10 M1 P1 r c w [] = M1).
  { unfold ple_a10. cbn [length seq fold_left Nat.sub]. destruct (w =? nc M1); reflexivity. }
  rewrite E2. splits; auto.
  - rewrite (wf_len M1 HwX). exact HrX.
  - intros i Hi. cbn [nsteps]. destruct (HrowX i) as [H1 H2]. rewrite HcW1 in H1, H2.
    apply (lo_hi_ext w); [|exact H2].
    rewrite H1. now rewrite (sp_rows _ _ _ _ _ _ _ _ _ _ _ _ _ _ _ HS i ltac:(lia)).
Qed.

Lemma mat_eq_rows A B : nr A = nr B -> nc A = nc B -> length (rows A) = length (rows B) ->
  (forall i, i < length (rows A) -> row A i = row B i) -> A = B.
Proof.
  destruct A as [ra ca la], B as [rb cb lb]. cbn [nr nc rows]. intros -> -> Hl H. f_equal.
  apply (list_ext_nth 0%N); [assumption|]. exact H.
Qed.

Theorem block_ok_of_update k : update_ok k -> block_ok k.
Proof.
  intros HU M P Q r c kk c' HM Hr Hc Hkk Hck HP HQ Hc' Hg.
  unfold russian_sub.
  pose proof (win_cols_bounds (nc M) c kk Hck) as [Hw1 Hw2].
  set (w := win_cols (nc M) c kk) in *.
  destruct (window_facts M w HM) as (HW0 & HrW0 & HcW0 & HrowW0).
  pose proof (sub_spec M P Q r c kk w c' HM Hr Hw1 Hkk Hw2 HP HQ Hc' Hg _ HW0 HrW0 HcW0 HrowW0) as HS.
  destruct (ple_sub (window M 0 0 (nr M) w) r c kk P Q) as [[[W1 done_row] [P1 Q1]] pivots].
  destruct HS as (pv & cur & HS).
  cbv zeta.
  set (M2 := ple_a10 (mpaste M 0 0 W1) P1 r c w pivots) in *.
  set (Mf := if length pivots =? 0 then M2 else russian_update k M2 r c kk w done_row pivots) in *.
  assert (HUp : nr Mf = nr M /\ nc Mf = nc M /\ length (rows Mf) = nr M /\
                forall i, i < nr M -> row Mf i = row (nsteps M r pv) i).
  { unfold Mf. destruct (Nat.eqb_spec (length pivots) 0) as [E0|E0].
    - apply (no_pivot_rows M P Q r c kk c' W1 done_row P1 Q1 pivots pv cur HM Hr Hkk Hck HS E0).
    - apply (HU M P Q r c kk c' W1 done_row P1 Q1 pivots pv cur HM Hr Hkk Hck HS). lia. }
  destruct HUp as (Hnr & Hnc & Hlen & Hrows).
  destruct (sp_wfN _ _ _ _ _ _ _ _ _ _ _ _ _ _ _ HS) as (HwN & HrN & HcN).
  assert (E : Mf = nsteps M r pv).
  { apply mat_eq_rows; try congruence.
    - rewrite Hlen. symmetry. rewrite <- HrN. now apply wf_len.
    - intros i Hi. apply Hrows. lia. }
  rewrite E. splits; auto.
  - apply (sp_lenPQ _ _ _ _ _ _ _ _ _ _ _ _ _ _ _ HS).
  - apply (sp_lenPQ _ _ _ _ _ _ _ _ _ _ _ _ _ _ _ HS).
  - apply (sp_rank _ _ _ _ _ _ _ _ _ _ _ _ _ _ _ HS).
  - exists cur. splits.
    + apply (sp_cur _ _ _ _ _ _ _ _ _ _ _ _ _ _ _ HS).
    + apply (sp_gap _ _ _ _ _ _ _ _ _ _ _ _ _ _ _ HS).
    + apply (sp_eqn _ _ _ _ _ _ _ _ _ _ _ _ _ _ _ HS).
Qed.

(** * the updates when no table is consulted: window = whole matrix, block not of full rank *)
Theorem update_ok_narrow_partial k :
  forall M P0 Q0 r c kk c' W1 done_row P1 Q1 pivots pv cur,
  wf M -> r < nr M -> 1 <= kk -> c + kk <= nc M ->
  let w := win_cols (nc M) c kk in
  w = nc M -> length pivots < kk ->
  SubPost M P0 Q0 r c kk w c' W1 done_row P1 Q1 pivots pv cur ->
  let M2 := ple_a10 (mpaste M 0 0 W1) P1 r c w pivots in
  let Mf := russian_update k M2 r c kk w done_row pivots in
  nr Mf = nr M /\ nc Mf = nc M /\ length (rows Mf) = nr M /\
  forall i, i < nr M -> row Mf i = row (nsteps M r pv) i.
Proof.
  intros M P0 Q0 r c kk c' W1 done_row P1 Q1 pivots pv cur HM Hr Hkk Hck w Ew Hnf HS. cbv zeta.
  pose proof (sp_wfW _ _ _ _ _ _ _ _ _ _ _ _ _ _ _ HS) as HW1.
  pose proof (sp_nrW _ _ _ _ _ _ _ _ _ _ _ _ _ _ _ HS) as HrW1.
  pose proof (sp_ncW _ _ _ _ _ _ _ _ _ _ _ _ _ _ _ HS) as HcW1.
  destruct (sp_wfN _ _ _ _ _ _ _ _ _ _ _ _ _ _ _ HS) as (HwN & HrN & HcN).
  pose proof (sp_dr_full _ _ _ _ _ _ _ _ _ _ _ _ _ _ _ HS Hnf) as Hdr.
  destruct (mpaste0_rows M W1 HM HW1 HrW1 ltac:(lia)) as (HwX & HrX & HcX & HrowX).
  set (M1 := mpaste M 0 0 W1) in *.
  assert (E2 : ple_a10 M1 P1 r c w pivots = M1).
  { unfold ple_a10. change (nc M1) with (nc M). now rewrite Ew, Nat.eqb_refl. }
  rewrite E2.
  assert (Erow : forall i, i < nr M -> row M1 i = row (nsteps M r pv) i).
  { intros i Hi. destruct (HrowX i) as [H1 H2]. rewrite HcW1 in H1, H2.
    apply (lo_hi_ext w).
    - rewrite H1. now rewrite (sp_rows _ _ _ _ _ _ _ _ _ _ _ _ _ _ _ HS i ltac:(lia)).
    - rewrite H2. rewrite !hi_bounded; [reflexivity| |].
      + rewrite Ew, <- HcN. now apply wf_row_bounded.
      + rewrite Ew. now apply wf_row_bounded. }
  assert (Hlen1 : length (rows M1) = nr M) by (rewrite (wf_len M1 HwX); exact HrX).
  unfold russian_update, ple_a11.
  { change (nc M1) with (nc M). rewrite Ew, Nat.eqb_refl.
    change (nr M1) with (nr M). destruct (Nat.ltb_spec done_row (nr M)) as [C|C]; [|splits; auto].
    unfold ple_process_rows. splits.
    + reflexivity.
    + reflexivity.
    + now rewrite len_map_rows.
    + intros i Hi. rewrite row_map_rows, Hlen1. destruct (Nat.ltb_spec i (nr M)); [|lia].
      destruct (Nat.leb_spec (S done_row) i); [lia|]. cbn [andb]. now apply Erow. }
Qed.
