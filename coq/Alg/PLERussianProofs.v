(* Alg/PLERussianProofs.v — C03, Four-Russians base case, part 1: from ONE BLOCK to the whole routine.

   The statement about one pass of the while loop of _mzd_ple_russian is [block_ok]: started in a
   state (M, P, Q, r, c) of the naive algorithm whose column cursor c' may lag behind c over
   columns that are zero below row r, the pass (steps 1-6: _mzd_ple_submatrix on the window,
   _mzd_ple_a10, tables, _mzd_ple_a11, _mzd_process_rows_ple) reaches exactly the state the naive
   algorithm _mzd_ple_naive reaches after [knar] of its iterations (same matrix bit for bit, same
   P and Q), again with a lagging cursor.  This file proves

     russian_loop_naive        block_ok k -> the while loop returns what the naive loop returns
     russian_compress_naive    the two-phase compression of L = the compression of the naive routine
     ple_russian_naive_of_block, ple_russian_spec_of_block
                               block_ok k -> ple_russian k A P0 Q0 = ple_naive A id id  and  ple_spec.

   [block_ok] itself is proven in PLERussianProofs2.v ff. *)
From Coq Require Import List NArith Arith Lia Bool Sorted.
From M4 Require Import Base.Bits Lin.Mat Lin.MatAlg Lin.Ops Lin.Spec Lin.Perm Lin.Observers
  Alg.PLE Alg.PLELemmas Alg.PLESpec Alg.PLEProofs Alg.PLEProofs2 Alg.PLEProofs3 Alg.PLEProofs4
  Alg.PLERussian.
Import ListNotations.
Local Open Scope nat_scope.

(** columns [c', c) vanish in the rows >= r *)
Definition gap_zero (M : mat) (r c' c : nat) : Prop :=
  forall i j, r <= i -> c' <= j -> j < c -> get M i j = false.

(** * the statement about one pass of the while loop *)
Definition block_ok (k : nat) : Prop := forall M P Q r c kk c',
  wf M -> r < nr M -> c < nc M -> 1 <= kk -> c + kk <= nc M ->
  length P = nr M -> length Q = nc M -> c' <= c -> gap_zero M r c' c ->
  let '((M2, done_row), (P1, Q1), pivots, ncw) := russian_sub M P Q r c kk in
  let Mf := if length pivots =? 0 then M2 else russian_update k M2 r c kk ncw done_row pivots in
  wf Mf /\ nr Mf = nr M /\ nc Mf = nc M /\ length P1 = nr M /\ length Q1 = nc M /\
  r + length pivots <= nr M /\
  exists c'', c'' <= c + kk /\ gap_zero Mf (r + length pivots) c'' (c + kk) /\
    forall n, ple_naive_loop (length pivots + n) M P Q r c' =
              ple_naive_loop n Mf P1 Q1 (r + length pivots) c''.

(** * pivot search over a zero gap *)
Lemma find_pivot_gap M r c' c : wf M -> c' <= c -> gap_zero M r c' c ->
  find_pivot M r c' = find_pivot M r c.
Proof.
  intros HM Hc Hg. destruct (find_pivot_spec M r c HM) as [HN HS].
  destruct (find_pivot M r c) as [[i j]|] eqn:E.
  - destruct (HS i j eq_refl) as (G1 & G2 & G3 & G4 & G5).
    apply find_pivot_unique; auto; try lia.
    intros i2 j2 H1 H2 H3. destruct (Nat.lt_ge_cases j2 c); [now apply Hg|now apply G4].
  - apply (find_pivot_spec M r c' HM). intros i j Hi Hj.
    destruct (Nat.lt_ge_cases j c); [now apply Hg|]. now apply (proj1 HN eq_refl).
Qed.

Lemma naive_stop n M P Q r c' : wf M -> gap_zero M r c' (nc M) ->
  ple_naive_loop n M P Q r c' = (M, (P, Q), r).
Proof.
  intros HM Hg. destruct n; cbn [ple_naive_loop]; [reflexivity|].
  destruct (c' <? nc M); [|reflexivity].
  replace (find_pivot M r c') with (@None (nat * nat)); [reflexivity|].
  symmetry. apply (find_pivot_spec M r c' HM). intros i j Hi Hj.
  destruct (Nat.lt_ge_cases j (nc M)); [now apply Hg|now apply get_out_col].
Qed.

(** * the while loop *)
Lemma russian_loop_naive k : block_ok k -> forall fuel M P Q r c kk c',
  wf M -> r <= nr M -> c <= nc M -> 1 <= kk -> length P = nr M -> length Q = nc M ->
  c' <= c -> gap_zero M r c' c -> nc M - c <= fuel ->
  russian_loop fuel k M P Q r c kk = Some (ple_naive_loop (nr M - r) M P Q r c').
Proof.
  intros Hb. induction fuel as [|fuel IH]; intros M P Q r c kk c' HM Hr Hc Hkk HP HQ Hc' Hg Hf.
  - cbn [russian_loop]. destruct (Nat.ltb_spec c (nc M)) as [H1|H1]; [lia|]. cbn [andb].
    replace c with (nc M) in Hg by lia. now rewrite naive_stop.
  - cbn [russian_loop].
    destruct (Nat.ltb_spec c (nc M)) as [H1|H1]; cbn [andb].
    2:{ replace c with (nc M) in Hg by lia. now rewrite naive_stop. }
    destruct (Nat.ltb_spec r (nr M)) as [H2|H2].
    2:{ replace (nr M - r) with 0 by lia. reflexivity. }
    set (kk1 := if nc M <? c + kk then nc M - c else kk).
    assert (Hk1 : 1 <= kk1 /\ c + kk1 <= nc M).
    { unfold kk1. destruct (Nat.ltb_spec (nc M) (c + kk)); lia. }
    destruct Hk1 as [Hk1 Hk2].
    pose proof (Hb M P Q r c kk1 c' HM H2 H1 Hk1 Hk2 HP HQ Hc' Hg) as HB.
    destruct (russian_sub M P Q r c kk1) as [[[[M2 done_row] [P1 Q1]] pivots] ncw].
    cbv zeta in HB.
    destruct (Nat.eqb_spec (length pivots) 0) as [E0|E0].
    + (* no pivot in the block *)
      rewrite E0 in HB. cbn [Nat.add] in HB. rewrite Nat.add_0_r in HB.
      destruct HB as (HM2 & Hnr & Hnc & HP1 & HQ1 & _ & c2 & Hc2 & Hg2 & Hn).
      rewrite Hn. clear Hn.
      destruct (nr M - r) as [|n'] eqn:En; [lia|].
      cbn [ple_naive_loop].
      rewrite (find_pivot_gap M2 r c2 (c + kk1) HM2 Hc2 Hg2).
      destruct (find_pivot_spec M2 r (c + kk1) HM2) as [HN HS].
      destruct (find_pivot M2 r (c + kk1)) as [[i j]|] eqn:Ef.
      * destruct (HS i j eq_refl) as (G1 & G2 & G3 & G4 & G5).
        destruct (Nat.ltb_spec c2 (nc M2)) as [H3|H3]; [|lia].
        change (nc (row_swap M2 r i)) with (nc M2). rewrite Hnc.
        set (M3 := row_swap M2 r i).
        assert (HM3 : wf M3) by now apply wf_row_swap.
        destruct (get_elim_guard M3 r j (S j) HM3) as (Hw & Hr4 & Hc4 & _);
          [change (nr M3) with (nr M2); lia|].
        change (nc M3) with (nc M2) in Hw, Hr4, Hc4. change (nr M3) with (nr M2) in Hr4.
        rewrite Hnc in Hw, Hr4, Hc4.
        set (M4 := if S j <? nc M then elim_below M3 r j (S j) else M3) in *.
        rewrite (IH M4 (upd r i P1) (upd r j Q1) (S r) (S j) kk1 (S j)); try assumption; try lia.
        -- do 2 f_equal. lia.
        -- now rewrite upd_length, Hr4, Hnr.
        -- now rewrite upd_length, Hc4.
        -- intros i2 j2 _ H4 H5. lia.
      * destruct (c2 <? nc M2); reflexivity.
    + (* knar > 0 *)
      destruct HB as (HMf & Hnr & Hnc & HP1 & HQ1 & Hkn & c2 & Hc2 & Hg2 & Hn).
      replace (nr M - r) with (length pivots + (nr M - (r + length pivots))) by lia.
      rewrite Hn.
      set (Mf := russian_update k M2 r c kk1 ncw done_row pivots) in *.
      rewrite (IH Mf P1 Q1 (r + length pivots) (c + kk1) kk1 c2); try assumption; try lia.
      now rewrite Hnr.
Qed.

(** * the naive loop leaves the entries of P and Q at and beyond the final rank alone *)
Lemma naive_loop_tail : forall n M P Q r c,
  let '(M', (P', Q'), r') := ple_naive_loop n M P Q r c in
  r <= r' /\ forall i, r' <= i -> nth i P' 0 = nth i P 0 /\ nth i Q' 0 = nth i Q 0.
Proof.
  induction n as [|n IH]; intros M P Q r c; cbn [ple_naive_loop].
  - split; [lia|]. intros; split; reflexivity.
  - destruct (c <? nc M); [|split; [lia|intros; split; reflexivity]].
    destruct (find_pivot M r c) as [[i j]|]; [|split; [lia|intros; split; reflexivity]].
    match goal with |- context [ple_naive_loop n ?M1 ?P1 ?Q1 ?r1 ?c1] =>
      specialize (IH M1 P1 Q1 r1 c1); destruct (ple_naive_loop n M1 P1 Q1 r1 c1) as [[M' [P' Q']] r'] end.
    destruct IH as [H1 H2]. split; [lia|]. intros i0 Hi0.
    destruct (H2 i0 Hi0) as [H3 H4]. rewrite H3, H4.
    split; apply nth_upd_other; lia.
Qed.

(** * "Now compressing L": rows j..r-1 triangular, rows >= r all swaps = the naive compression *)
Lemma get_compress_tri M Q r : wf M -> r <= nr M ->
  (forall k, k < r -> k <= nth k Q 0 < nc M) -> forall t, t <= r ->
  let X := fold_left (fun M j => if j <? nth j Q 0 then col_swap_in_rows M (nth j Q 0) j j r else M)
                     (seq 0 t) M in
  wf X /\ nr X = nr M /\ nc X = nc M /\
  forall i j, get X i j = if i <? r then get M i (pi (nthf Q) (seq 0 (Nat.min (S i) t)) j) else get M i j.
Proof.
  intros HM Hr HQ. induction t as [|t IH]; intros Ht; cbv zeta.
  - cbn [seq fold_left]. splits; auto. intros i j. destruct (i <? r); reflexivity.
  - rewrite seq_S, fold_left_app. cbn [fold_left Nat.add].
    destruct IH as (Hw & Hnr & Hnc & Hg); [lia|].
    set (X := fold_left _ (seq 0 t) M) in *.
    pose proof (HQ t ltac:(lia)) as Hqt.
    destruct (Nat.ltb_spec t (nth t Q 0)) as [Hlt|Hge].
    + splits.
      * apply wf_col_swap_in_rows; [assumption|rewrite Hnc; lia..].
      * now rewrite nr_col_swap_in_rows.
      * now rewrite nc_col_swap_in_rows.
      * intros i j. rewrite get_col_swap_in_rows, !Hg.
        destruct (Nat.ltb_spec i r) as [Hi|Hi].
        -- destruct (Nat.leb_spec t i) as [Hti|Hti]; cbn [andb].
           ++ replace (Nat.min (S i) (S t)) with (S t) by lia.
              replace (Nat.min (S i) t) with t by lia. rewrite pi_snoc. unfold nthf.
              now rewrite swapn_comm.
           ++ now replace (Nat.min (S i) (S t)) with (Nat.min (S i) t) by lia.
        -- destruct (Nat.leb_spec t i); cbn [andb]; reflexivity.
    + splits; auto. intros i j. rewrite Hg. destruct (Nat.ltb_spec i r) as [Hi|Hi]; [|reflexivity].
      destruct (Nat.leb_spec t i) as [Hti|Hti].
      * replace (Nat.min (S i) (S t)) with (S t) by lia. replace (Nat.min (S i) t) with t by lia.
        rewrite pi_snoc. unfold nthf. replace (nth t Q 0) with t by lia. now rewrite swapn_same.
      * now replace (Nat.min (S i) (S t)) with (Nat.min (S i) t) by lia.
Qed.

Lemma get_compress_low M Q r : wf M ->
  (forall k, k < r -> k <= nth k Q 0 < nc M) -> forall t, t <= r ->
  let X := fold_left (fun M j => col_swap_in_rows M j (nth j Q 0) r (nr M)) (seq 0 t) M in
  wf X /\ nr X = nr M /\ nc X = nc M /\
  forall i j, get X i j = if (r <=? i) && (i <? nr M) then get M i (pi (nthf Q) (seq 0 t) j) else get M i j.
Proof.
  intros HM HQ. induction t as [|t IH]; intros Ht; cbv zeta.
  - cbn [seq fold_left]. splits; auto. intros i j. destruct (_ && _); reflexivity.
  - rewrite seq_S, fold_left_app. cbn [fold_left Nat.add].
    destruct IH as (Hw & Hnr & Hnc & Hg); [lia|].
    set (X := fold_left _ (seq 0 t) M) in *.
    pose proof (HQ t ltac:(lia)) as Hqt.
    splits.
    + apply wf_col_swap_in_rows; [assumption|rewrite Hnc; lia..].
    + now rewrite nr_col_swap_in_rows.
    + now rewrite nc_col_swap_in_rows.
    + intros i j. rewrite get_col_swap_in_rows, !Hg, Hnr.
      destruct ((r <=? i) && (i <? nr M)); [|reflexivity].
      rewrite pi_app. reflexivity.
Qed.

Lemma russian_compress_naive M Q r : wf M -> r <= nr M -> r <= nc M ->
  (forall k, k < r -> k <= nth k Q 0 < nc M) ->
  russian_compress M Q r = ple_compress M Q r.
Proof.
  intros HM Hr Hc HQ.
  destruct (get_ple_compress M Q HM r HQ) as (Hw & Hnr & Hnc & Hg).
  destruct (get_compress_tri M Q r HM Hr HQ r (le_n r)) as (Hw1 & Hnr1 & Hnc1 & Hg1).
  unfold russian_compress. set (X := fold_left _ (seq 0 r) M) in *.
  replace (Nat.min r (nc X)) with r by lia.
  destruct (get_compress_low X Q r Hw1) with (t := r) as (Hw2 & Hnr2 & Hnc2 & Hg2);
    [intros k Hk; rewrite Hnc1; now apply HQ|lia|].
  apply mat_ext; auto; try congruence.
  intros i j Hi Hj. rewrite Hg2, Hnr1, !Hg1, Hg by congruence.
  rewrite Hnr2, Hnr1 in Hi.
  destruct (Nat.ltb_spec i r) as [H1|H1].
  - destruct (Nat.leb_spec r i); [lia|]. cbn [andb]. reflexivity.
  - destruct (Nat.leb_spec r i); [|lia]. destruct (Nat.ltb_spec i (nr M)); [|lia]. cbn [andb].
    destruct (Nat.ltb_spec i r); [lia|]. now replace (Nat.min (S i) r) with r by lia.
Qed.

(** * the whole routine, given the block statement *)
Theorem ple_russian_naive_of_block k A P0 Q0 : 1 <= k -> block_ok k ->
  wf A -> length P0 = nr A -> length Q0 = nc A ->
  ple_russian k A P0 Q0 = ple_naive A (fill_id 0 P0) (fill_id 0 Q0).
Proof.
  intros Hk Hb HA HP HQ. unfold ple_russian, ple_naive.
  rewrite (russian_loop_naive k Hb (nc A) A (fill_id 0 P0) (fill_id 0 Q0) 0 0 (7 * k) 0);
    try assumption; try lia; try (now rewrite fill_id_length).
  2:{ intros i j _ H1 H2. lia. }
  rewrite Nat.sub_0_r.
  pose proof (ple_loop_inv A HA (nr A) A (fill_id 0 P0) (fill_id 0 Q0) 0 0 ltac:(lia) HA eq_refl eq_refl
                ltac:(now rewrite fill_id_length) ltac:(now rewrite fill_id_length)
                (inv_init A HA (nthf (fill_id 0 P0)) (nthf (fill_id 0 Q0)))) as H.
  pose proof (naive_loop_tail (nr A) A (fill_id 0 P0) (fill_id 0 Q0) 0 0) as HT.
  destruct (ple_naive_loop (nr A) A (fill_id 0 P0) (fill_id 0 Q0) 0 0) as [[M [P Q]] r].
  destruct H as (HM & Hnr & Hnc & HP' & HQ' & c & HI & HF). destruct HT as [_ HT].
  pose proof (fin_r_le_n A _ _ _ r c HI) as Hrn. pose proof (fin_r_le_m A _ _ _ r c HI) as Hrm.
  assert (EP : fill_id r P = P).
  { apply (list_ext_nth 0); [apply fill_id_length|]. intros i Hi. rewrite fill_id_length in Hi.
    rewrite nth_fill_id by assumption. destruct (Nat.leb_spec r i) as [H1|H1]; [|reflexivity].
    rewrite (proj1 (HT i H1)). rewrite nth_fill_id by (rewrite HP; lia). reflexivity. }
  assert (EQ : fill_id r Q = Q).
  { apply (list_ext_nth 0); [apply fill_id_length|]. intros i Hi. rewrite fill_id_length in Hi.
    rewrite nth_fill_id by assumption. destruct (Nat.leb_spec r i) as [H1|H1]; [|reflexivity].
    rewrite (proj2 (HT i H1)). rewrite nth_fill_id by (rewrite HQ; lia). reflexivity. }
  rewrite EP, EQ. do 2 f_equal.
  apply russian_compress_naive; auto; try lia.
  intros t Ht. rewrite Hnc. apply (fin_q_lt A _ _ _ r c HI t Ht).
Qed.

Theorem ple_russian_spec_of_block k A P0 Q0 : 1 <= k -> block_ok k ->
  wf A -> length P0 = nr A -> length Q0 = nc A -> ple_spec A (ple_russian k A P0 Q0).
Proof.
  intros Hk Hb HA HP HQ. rewrite ple_russian_naive_of_block by assumption.
  apply ple_naive_spec; [assumption|now rewrite fill_id_length..].
Qed.
