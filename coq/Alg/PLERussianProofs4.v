(* Alg/PLERussianProofs4.v — C03, Four-Russians base case, part 4: "finish submatrix" and the
   specification of _mzd_ple_submatrix as a whole ([sub_spec]): on return the rows up to done_row of
   the window are the low parts of the rows of the naive algorithm's state after the same knar
   iterations; the rows beyond done_row (only when all kk columns are pivot columns) are untouched. *)
From Coq Require Import List NArith Arith Lia Bool Sorted.
From M4 Require Import Base.Bits Lin.Mat Lin.MatAlg Lin.Ops Lin.Spec Lin.Perm Lin.Observers
  Alg.PLE Alg.PLELemmas Alg.PLESpec Alg.PLEProofs Alg.PLEProofs2 Alg.PLEProofs3 Alg.PLEProofs4
  Alg.PLERussian Alg.PLERussianProofs Alg.PLERussianProofs2 Alg.PLERussianProofs3.
Import ListNotations.
Local Open Scope nat_scope.

(** * rows lo..hi receive the pivot row *)
Lemma elim_rows_facts W prow pc lo hi : wf W -> prow < lo -> lo <= nr W -> hi < nr W ->
  let X := elim_rows W prow pc lo hi in
  wf X /\ nr X = nr W /\ nc X = nc W /\
  forall i, row X i = if (lo <=? i) && (i <=? hi) then red1 (nc W) (row W prow) pc (row W i) else row W i.
Proof.
  intros HW Hp Hlo Hhi. cbv zeta. unfold elim_rows.
  change (fun W0 r2 => if get W0 r2 pc then row_add_offset W0 r2 prow (S pc) else W0)
    with (elim_step prow pc (S pc)).
  destruct (get_elim_fold prow pc (S pc) (S hi - lo) lo W HW Hp ltac:(lia)) as (Hw & Hr & Hc & Hg).
  splits; auto. intros i. apply bits_ext_nat. intros j.
  change (N.testbit (row ?A i) (N.of_nat j)) with (get A i j). rewrite Hg.
  destruct (Nat.leb_spec lo i) as [H1|H1]; cbn [andb].
  - destruct (Nat.ltb_spec i (lo + (S hi - lo))) as [H2|H2], (Nat.leb_spec i hi) as [H3|H3]; try lia; cbn [andb].
    + unfold get. rewrite testbit_red1.
      destruct (N.testbit (row W i) (N.of_nat pc)); cbn [andb]; [|now rewrite xorb_false_r].
      destruct (Nat.leb_spec (S pc) j); cbn [andb]; [|now rewrite xorb_false_r].
      destruct (Nat.ltb_spec j (nc W)); cbn [andb]; [reflexivity|].
      change (N.testbit (row W prow) (N.of_nat j)) with (get W prow j). now rewrite (get_out_col W prow j HW).
    + reflexivity.
  - reflexivity.
Qed.

(** * "finish submatrix" = the pending additions of the rows up to done_row *)
Lemma finish_rows c0 done_row : forall pivots done W l, wf W ->
  length done = length pivots -> done_row < nr W ->
  (forall t, t < length pivots -> l + length pivots <= S (nth t done 0) /\ nth t done 0 < nr W) ->
  StronglySorted lt pivots ->
  let X := sub_finish W c0 done_row l pivots done in
  wf X /\ nr X = nr W /\ nc X = nc W /\
  forall i, row X i = if (l + length pivots <=? i) && (i <=? done_row)
                      then catch_up W c0 i l pivots done (row W i) else row W i.
Proof.
  induction pivots as [|p ps IH]; intros [|d ds] W l HW Hl Hdr Hd Hs; cbn [length] in Hl; try discriminate;
    cbv zeta; cbn [sub_finish].
  - splits; auto. intros i. cbn [catch_up]. destruct (_ && _); reflexivity.
  - pose proof (Hd 0 ltac:(cbn [length]; lia)) as Hd0. cbn [nth length] in Hd0.
    inversion Hs as [|? ? Hs1 Hs2]; subst.
    destruct (Nat.ltb_spec (c0 + p) (nc W - 1)) as [C|C].
    + destruct (elim_rows_facts W l (c0 + p) (S d) done_row HW ltac:(lia) ltac:(lia) Hdr) as (Hw2 & Hr2 & Hc2 & Hrow2).
      set (W2 := elim_rows W l (c0 + p) (S d) done_row) in *.
      destruct (IH ds W2 (S l) Hw2 ltac:(lia) ltac:(lia)) as (Hw & Hr & Hc & Hrow); [|assumption|].
      { intros t Ht. specialize (Hd (S t) ltac:(cbn [length]; lia)). cbn [nth length] in Hd. rewrite Hr2. lia. }
      cbv zeta in Hrow. splits; auto; try congruence.
      intros i. rewrite Hrow. cbn [length catch_up].
      replace (S l + length ps) with (l + S (length ps)) by lia.
      destruct ((l + S (length ps) <=? i) && (i <=? done_row)) eqn:E.
      * apply andb_true_iff in E as [E1 E2]. apply Nat.leb_le in E1, E2.
        rewrite (catch_up_ext W2 W c0 i Hc2).
        2:{ intros t H1 H2. rewrite Hrow2. destruct (Nat.leb_spec (S d) t); [lia|reflexivity]. }
        f_equal. rewrite Hrow2.
        destruct (Nat.leb_spec (S d) i), (Nat.ltb_spec d i), (Nat.leb_spec i done_row); try lia; reflexivity.
      * rewrite Hrow2. destruct (Nat.leb_spec (S d) i) as [H1|H1]; [|reflexivity].
        destruct (Nat.leb_spec i done_row) as [H2|H2]; [|reflexivity].
        destruct (Nat.leb_spec (l + S (length ps)) i); [discriminate|lia].
    + splits; auto. intros i. destruct (_ && _); [|reflexivity].
      symmetry. apply catch_up_edge. intros q [<-|Hq]; [lia|].
      rewrite Forall_forall in Hs2. specialize (Hs2 q Hq). lia.
Qed.

Lemma fold_max_ge l : forall a, a <= fold_left Nat.max l a.
Proof.
  induction l as [|x l IH]; intros a; cbn [fold_left]; [lia|]. specialize (IH (Nat.max a x)). lia.
Qed.
Lemma max_value_ge l : forall a t, t < length l -> nth t l 0 <= fold_left Nat.max l a.
Proof.
  induction l as [|x l IH]; intros a t Ht; cbn [length] in Ht; [lia|]. cbn [fold_left].
  destruct t as [|t]; cbn [nth].
  - pose proof (fold_max_ge l (Nat.max a x)). lia.
  - apply IH. lia.
Qed.
Lemma max_value_lt l n : forall a, a < n -> (forall t, t < length l -> nth t l 0 < n) -> fold_left Nat.max l a < n.
Proof.
  induction l as [|x l IH]; intros a Ha H; cbn [fold_left]; [assumption|]. apply IH.
  - specialize (H 0 ltac:(cbn [length]; lia)). cbn [nth] in H. lia.
  - intros t Ht. apply (H (S t)). cbn [length]. lia.
Qed.

Lemma sorted_length_le : forall l a b, StronglySorted lt l -> (forall p, In p l -> a <= p < b) ->
  length l <= b - a.
Proof.
  induction l as [|x l IH]; intros a b Hs H; cbn [length]; [lia|].
  inversion Hs as [|? ? Hs1 Hs2]; subst.
  pose proof (H x ltac:(now left)) as Hx.
  specialize (IH (S x) b Hs1). rewrite Forall_forall in Hs2.
  assert (length l <= b - S x); [|lia]. apply IH. intros p Hp.
  specialize (Hs2 p Hp). specialize (H p ltac:(now right)). lia.
Qed.

(** * _mzd_ple_submatrix as a whole *)
Section SubSpec.
  Variables (M : mat) (P0 Q0 : list nat) (r0 c0 kk w c' : nat).
  Hypothesis HM : wf M.
  Hypothesis Hr0 : r0 < nr M.
  Hypothesis Hck : c0 + kk <= w.
  Hypothesis Hkk1 : 1 <= kk.
  Hypothesis Hw : w <= nc M.
  Hypothesis HP0 : length P0 = nr M.
  Hypothesis HQ0 : length Q0 = nc M.
  Hypothesis Hc' : c' <= c0.
  Hypothesis Hgap : gap_zero M r0 c' c0.

  Record SubPost (W : mat) (done_row : nat) (P Q pivots : list nat) (pv : list (nat * nat)) (cur : nat) : Prop := {
    sp_wfW : wf W;
    sp_nrW : nr W = nr M;
    sp_ncW : nc W = w;
    sp_len_pv : length pv = length pivots;
    sp_rank : r0 + length pivots <= nr M;
    sp_kk : length pivots <= kk;
    sp_sorted : StronglySorted lt pivots;
    sp_lt : forall p, In p pivots -> p < kk;
    sp_pvj : forall l, l < length pivots -> snd (nth l pv (0, 0)) = c0 + nth l pivots 0;
    sp_pvi : forall l, l < length pivots -> r0 + l <= fst (nth l pv (0, 0)) < nr M;
    sp_P : forall l, l < length pivots -> nth (r0 + l) P 0 = fst (nth l pv (0, 0));
    sp_dr : done_row < nr M;
    sp_dr_full : length pivots < kk -> done_row = nr M - 1;
    sp_rows : forall i, i <= done_row -> row W i = lo w (row (nsteps M r0 pv) i);
    sp_untouched : forall i, done_row < i -> i < nr M ->
                   row W i = lo w (row M i) /\ r0 + length pivots <= i /\
                   forall l, l < length pivots -> fst (nth l pv (0, 0)) < i;
    sp_cur : cur <= c0 + kk;
    sp_gap : gap_zero (nsteps M r0 pv) (r0 + length pivots) cur (c0 + kk);
    sp_wfN : wf (nsteps M r0 pv) /\ nr (nsteps M r0 pv) = nr M /\ nc (nsteps M r0 pv) = nc M;
    sp_lenPQ : length P = nr M /\ length Q = nc M;
    sp_eqn : forall n, ple_naive_loop (length pivots + n) M P0 Q0 r0 c' =
                       ple_naive_loop n (nsteps M r0 pv) P Q (r0 + length pivots) cur
  }.

  Theorem sub_spec W0 : wf W0 -> nr W0 = nr M -> nc W0 = w ->
    (forall i, row W0 i = lo w (row M i)) ->
    let '((W1, done_row), (P1, Q1), pivots) := ple_sub W0 r0 c0 kk P0 Q0 in
    exists pv cur, SubPost W1 done_row P1 Q1 pivots pv cur.
  Proof.
    intros H1 H2 H3 H4. unfold ple_sub.
    pose proof (cols_spec M P0 Q0 r0 c0 kk w c' Hr0 Hck Hw HP0 HQ0 Hc' kk W0 P0 Q0 [] [] [] 0 c' ltac:(lia)
                  (si_init M P0 Q0 r0 c0 kk w c' HM Hr0 Hck Hw HP0 HQ0 Hc' Hgap W0 H1 H2 H3 H4)) as HC.
    destruct (sub_cols kk W0 P0 Q0 [] [] r0 c0 0) as [[W1 [P1 Q1]] [pivots done]].
    destruct HC as (pv & cur & HS). exists pv, cur.
    pose proof (si_wfW _ _ _ _ _ _ _ _ _ _ _ _ _ _ _ HS) as HW1.
    pose proof (si_nrW _ _ _ _ _ _ _ _ _ _ _ _ _ _ _ HS) as HnW1.
    pose proof (si_ncW _ _ _ _ _ _ _ _ _ _ _ _ _ _ _ HS) as HcW1.
    pose proof (si_len_d _ _ _ _ _ _ _ _ _ _ _ _ _ _ _ HS) as Hld.
    pose proof (si_rank _ _ _ _ _ _ _ _ _ _ _ _ _ _ _ HS) as Hrk.
    pose proof (si_done _ _ _ _ _ _ _ _ _ _ _ _ _ _ _ HS) as Hdone.
    pose proof (si_sorted _ _ _ _ _ _ _ _ _ _ _ _ _ _ _ HS) as Hsort.
    pose proof (si_lt _ _ _ _ _ _ _ _ _ _ _ _ _ _ _ HS) as Hlt.
    set (done_row := if length pivots <? kk then nr W0 - 1 else max_value done).
    assert (Hdr : done_row < nr M).
    { unfold done_row. destruct (length pivots <? kk); [lia|]. unfold max_value.
      apply max_value_lt; [lia|]. intros t Ht. apply Hdone. lia. }
    assert (Hkk : length pivots <= kk).
    { replace kk with (kk - 0) by lia. apply sorted_length_le; [assumption|].
      intros p Hp. specialize (Hlt p Hp). lia. }
    destruct (finish_rows c0 done_row pivots done W1 r0 HW1 Hld ltac:(lia)) as (Hw2 & Hr2 & Hc2 & Hrow); [|assumption|].
    { intros t Ht. specialize (Hdone t Ht). lia. }
    cbv zeta in Hrow. set (W2 := sub_finish W1 c0 done_row r0 pivots done) in *.
    constructor; try (solve [apply HS]); try congruence; auto.
    - intros l Hl. pose proof (si_pvi _ _ _ _ _ _ _ _ _ _ _ _ _ _ _ HS l Hl). specialize (Hdone l Hl). lia.
    - intros Hlt2. unfold done_row. destruct (Nat.ltb_spec (length pivots) kk); lia.
    - intros i Hi. rewrite Hrow. destruct (Nat.leb_spec (r0 + length pivots) i) as [C|C]; cbn [andb].
      + destruct (Nat.leb_spec i done_row); [|lia]. apply (si_virt _ _ _ _ _ _ _ _ _ _ _ _ _ _ _ HS). assumption.
      + apply (si_top _ _ _ _ _ _ _ _ _ _ _ _ _ _ _ HS). lia.
    - intros i Hi Hin.
      assert (Hfull : ~ length pivots < kk).
      { intros C. unfold done_row in Hi. destruct (Nat.ltb_spec (length pivots) kk); lia. }
      assert (Hmx : forall l, l < length pivots -> nth l done 0 < i).
      { intros l Hl. unfold done_row in Hi. destruct (Nat.ltb_spec (length pivots) kk); [lia|].
        pose proof (max_value_ge done 0 l ltac:(lia)). unfold max_value in Hi. lia. }
      assert (Hri : r0 + length pivots <= i).
      { destruct (length pivots) as [|n] eqn:E; [lia|]. specialize (Hmx 0 ltac:(lia)).
        specialize (Hdone 0 ltac:(lia)). lia. }
      splits; auto.
      + rewrite Hrow. destruct (Nat.leb_spec i done_row); [lia|]. rewrite andb_false_r.
        now apply (si_untouched _ _ _ _ _ _ _ _ _ _ _ _ _ _ _ HS).
      + intros l Hl. pose proof (si_pvi _ _ _ _ _ _ _ _ _ _ _ _ _ _ _ HS l Hl). specialize (Hmx l Hl). lia.
  Qed.
End SubSpec.
