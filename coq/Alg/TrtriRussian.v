(* Alg/TrtriRussian.v — EXECUTABLE model (definitions only, no proofs) of the Four-Russians base routine
   of triangular inversion, mzd_trtri_upper_russian(A, k)  (m4ri/triangular_russian.c:392-470), on
   abstract matrices (Lin/Mat.v: a row is an N, column j = bit j).  Proofs: Alg/TrtriRussianProofs*.v,
   Alg/TrtriRussianClosed.v.

     tu_submatrix          = _mzd_trtri_upper_submatrix            (triangular_russian.c:386-390)
     ple_to_e              = _mzd_ple_to_e with offsets = identity (ple_russian.c:364-377)
     make_table_trtri      = mzd_make_table_trtri                  (triangular_russian.c:322-382)
     process_rows_ple      = _mzd_process_rows_ple_N               (ple_russian_template.h:3-105), used with N = 4
     process_rows          = mzd_process_rows                      (brilliantrussian.c:214-348)
     tr_block4 / tr_main   = the while loop over blocks of 4k rows (triangular_russian.c:411-447)
     tr_tail               = "deal with the rest"                  (:450-462)
     trtri_upper_russian_from / trtri_upper_russian = mzd_trtri_upper_russian for k >= 1

   TABLES.  A ple_table_t is modelled by its three arrays as the C code fills them:
     ptT : the 2^k rows of T->T, each a row value (N).  The four tables are allocated once and REUSED for
           every block without being cleared, so the model threads them through the loops with their stale
           contents: mzd_make_table_trtri never writes row 0 (zero from mzd_init), zeroes word
           startcol/64 of every other row, overwrites the words from c/64 on (Gray-code order,
           T[i] = T[i-1] ^ U[inc[i-1]], NO masks — unlike mzd_make_table) and leaves lower words stale.
     ptE : the index array E (selection pattern -> table row), a finite map: an entry that was never
           written is absent (the C array is malloc'ed, i.e. indeterminate there); [e_get] reads 0 then.
           mzd_make_table_trtri writes L[0] = 0 and L[ord[i]] = i — the index is the SELECTION as in
           mzd_make_table, not the pattern of the table row as in mzd_make_table_ple; this is why
           [e_lookup]/[pr_value] of Alg/PLERussian.v (which search for the row with a given pattern) do
           not apply here.  A finite map instead of a list only for speed (2^16 scattered writes).
     ptB : B[i] = mzd_read_bits(T, i, startcol, MIN(64, ncols - startcol)) of the FIXED row i
           (mzd_xor_bits(T, i, c, k, ord[i])), B[0] = 0; the entries from 2^k on keep their old contents.
   The code book (ord, inc) of m4ri_codebook[k] is [codebook k], the closed form [build_code_fast k] of
   Alg/Gray.v computed over a list of N instead of nat (linear instead of quadratic in 2^k); it is equal
   to the model [build_code k] of m4ri_build_code for every k (GrayProofs.build_code_fast_eq,
   TrtriRussianProofs.codebook_eq).
   U[i] (k x ncols, from mzd_init) is rewritten completely by mzd_submatrix on its first k rows; in the
   tail loop, where k may shrink, the rows from the new k on are stale but rowneeded < k never reaches them:
   the model builds U afresh with k rows.

   PARAMETERS.  k >= 1: the automatic choice for k = 0 (:395-399, m4ri_opt_k and a floating point
   comparison with the L3 size; values 1..7) stays outside.  The C code needs 4k <= 64: mzd_read_bits
   reads at most 64 bits (a larger count is a shift by a negative amount: undefined behaviour), and B
   holds at most 64 bits of a table row; the model truncates B in the same way, so the theorems are
   stated for 1 <= k <= 16 (= 4k <= m4ri_radix) — or nrows < 4k, where the main loop never runs.
   Fuel = number of rows (r grows by at least one per pass); with k >= 1 it never runs out; out of fuel
   the loops stop where they are (as Alg/TRSMRec.v does). *)
From Coq Require Import List NArith PArith Arith Bool FMapPositive.
From M4 Require Import Base.Bits Lin.Mat Lin.Ops Alg.Gray.
Import ListNotations.
Local Open Scope nat_scope.

(** * _mzd_trtri_upper_submatrix(A, pivot_r, elim_r, k)   (triangular_russian.c:386-390)
    for i = pivot_r .. pivot_r+k-1, j = elim_r .. i-1:
      if (mzd_read_bit(A, j, i) && (i + 1) < A->ncols) mzd_row_add_offset(A, j, i, i + 1) *)
Definition tu_submatrix (A : mat) (pivot_r elim_r k : nat) : mat :=
  fold_left (fun A i =>
    fold_left (fun A j => if get A j i && (S i <? nc A) then row_add_offset A j i (S i) else A)
              (seq elim_r (i - elim_r)) A)
    (seq pivot_r k) A.

(** * _mzd_ple_to_e(E, A, r, c, k, id)   (ple_russian.c:364-377)
    E = rows r .. r+k-1 of A (all columns), row i with the bits [64*(c/64), c + i) cleared
    (mzd_clear_bits in chunks of at most 64 bits) *)
Definition ple_to_e (A : mat) (r c k : nat) : mat :=
  mk k (nc A) (map (fun i => N.ldiff (row A (r + i)) (colmask (radix * (c / radix)) (c + i))) (seq 0 k)).

(** * ple_table_t *)
Record ptable := mkpt { ptT : list N; ptE : PositiveMap.t nat; ptB : list N }.

Definition ekey (s : N) : positive := N.succ_pos s.
Definition e_get (E : PositiveMap.t nat) (s : N) : nat :=
  match PositiveMap.find (ekey s) E with Some i => i | None => 0 end.

(** ple_table_init (ple_russian.c:39-46): T from mzd_init (zero), E and B from malloc *)
Definition fresh_table (k : nat) : ptable :=
  mkpt (repeat 0%N (2 ^ k)) (PositiveMap.empty nat) (repeat 0%N (2 ^ k)).

(** m4ri_codebook[k] (graycode.c), see the header *)
Fixpoint nseq (n : nat) (a : N) : list N :=
  match n with 0 => [] | S n' => a :: nseq n' (N.succ a) end.
Definition codebook (k : nat) : list N * list nat :=
  let ns := nseq (2 ^ k) 0%N in
  (map (fun n => N.lxor n (N.shiftr n 1)) ns, map (fun n => Nat.min (tz (N.succ n)) (k - 1)) ns).

(** the columns of word b *)
Definition word_cols (b : nat) : N := colmask (radix * b) (radix * S b).

(** * mzd_make_table_trtri(M = U, r = 0, c, k, Tb, startcol)   (triangular_russian.c:322-382) *)
(** first loop, the rows (:346-368): [prev] = the new row i-1, [incs] = inc[i-1], inc[i], ..,
    [old] = the old rows i, i+1, ..;  region = the words from blockoffset = c/64 on *)
Fixpoint mtt_scan (U : mat) (b0 : nat) (region prev : N) (incs : list nat) (old : list N) : list N :=
  match incs, old with
  | d :: incs', t :: old' =>
    let t0 := N.ldiff t (word_cols b0) in                                 (* mzd_row(T, i)[blockoffset0] = 0 *)
    let t' := N.lor (N.ldiff t0 region) (N.land (N.lxor (row U d) prev) region) in   (* *ti++ = *m++ ^ *ti1++ *)
    t' :: mtt_scan U b0 region t' incs' old'
  | _, _ => old
  end.
(** first loop, the index: L[ord[i]] = i for i, i+1, .. (:367) *)
Fixpoint mtt_index (ords : list N) (i : nat) (E : PositiveMap.t nat) : PositiveMap.t nat :=
  match ords with
  | [] => E
  | s :: ords' => mtt_index ords' (S i) (PositiveMap.add (ekey s) i E)
  end.
(** second loop (:371-376): mzd_xor_bits(T, i, c, k, ord[i]) — ord[i] < 2^k, the call does not mask *)
Fixpoint mtt_fix (c : nat) (ords : list N) (ts : list N) : list N :=
  match ords, ts with
  | s :: ords', t :: ts' => N.lxor t (N.shiftl s (N.of_nat c)) :: mtt_fix c ords' ts'
  | _, _ => ts
  end.
(** ... Tb->B[i] = mzd_read_bits(T, i, startcol, toread) for the first [n] of the rows [ts] *)
Fixpoint mtt_bits (startcol toread n : nat) (ts bs : list N) : list N :=
  match n, ts, bs with
  | S n', t :: ts', _ :: bs' =>
    N.land (N.shiftr t (N.of_nat startcol)) (N.ones (N.of_nat toread)) :: mtt_bits startcol toread n' ts' bs'
  | _, _, _ => bs
  end.

Definition make_table_trtri (U : mat) (c k : nat) (tb : ptable) (startcol : nat) : ptable :=
  let '(ord, inc) := codebook k in
  let region := colmask (radix * (c / radix)) (radix * mwidth (nc U)) in
  let T1 := match ptT tb with
            | [] => []
            | t0 :: rest => t0 :: mtt_scan U (startcol / radix) region t0 (firstn (2 ^ k - 1) inc) rest
            end in
  let E1 := mtt_index (tl ord) 1 (PositiveMap.add (ekey 0) 0 (ptE tb)) in          (* L[0] = 0 *)
  let toread := Nat.min radix (nc U - startcol) in
  let T2 := match T1 with [] => [] | t0 :: rest => t0 :: mtt_fix c (tl ord) rest end in
  let B2 := match ptB tb with
            | [] => []
            | _ :: brest => 0%N :: mtt_bits startcol toread (2 ^ k - 1) (tl T2) brest   (* Tb->B[0] = 0 *)
            end in
  mkpt T2 E1 B2.

(** * _mzd_process_rows_ple_N(M, startrow, stoprow, startcol, k_, T)   (ple_russian_template.h:3-105)
    with all k_[i] = k.  The words from startcol/64 on of the looked-up rows are added (_mzd_combine_N). *)
Definition from_block (ncols startcol : nat) : N :=
  colmask (radix * (startcol / radix)) (radix * mwidth ncols).

(** x[t] = E[t][(bits >> sh[t]) & bm[t]]; bits ^= B[t][x[t]]; t[t] = row x[t] of T[t] *)
Fixpoint prp_lookup (k : nat) (tabs : list ptable) (sh : nat) (bits acc : N) : N :=
  match tabs with
  | [] => acc
  | tb :: rest =>
    let x := e_get (ptE tb) (N.land (N.shiftr bits (N.of_nat sh)) (N.ones (N.of_nat k))) in
    prp_lookup k rest (sh + k) (N.lxor bits (nth x (ptB tb) 0%N)) (N.lxor acc (nth x (ptT tb) 0%N))
  end.

Definition process_rows_ple (M : mat) (startrow stoprow startcol k : nat) (tabs : list ptable) : mat :=
  let msk := from_block (nc M) startcol in
  map_rows (fun i x =>
    if (startrow <=? i) && (i <? stoprow) then
      (* bits = mzd_read_bits(M, r, startcol, sh[N-1] + k[N-1]) *)
      let bits := N.land (N.shiftr x (N.of_nat startcol)) (N.ones (N.of_nat (length tabs * k))) in
      N.lxor x (N.land (prp_lookup k tabs 0 bits 0%N) msk)
    else x) M.

(** * mzd_process_rows(M, startrow, stoprow, startcol, k, T, L)   (brilliantrussian.c:214-348)
    k == 1 (:221-297): rows are taken in pairs, each row with bit startcol set gets row 1 of T (not
    looked up through L); the single last row goes through L.  L[1] = 1 there, and row 0 is T[L[0]] =
    T[0]; the model keeps the distinction.  k > 1: T[L[bits]] for every row (two rows at a time). *)
Definition process_rows (M : mat) (startrow stoprow startcol k : nat) (tb : ptable) : mat :=
  let msk := from_block (nc M) startcol in
  map_rows (fun i x =>
    if (startrow <=? i) && (i <? stoprow) then
      let paired := i <? startrow + 2 * ((stoprow - startrow) / 2) in
      if (k =? 1) && paired then
        if N.testbit x (N.of_nat startcol) then N.lxor x (N.land (nth 1 (ptT tb) 0%N) msk) else x
      else
        let x0 := e_get (ptE tb) (N.land (N.shiftr x (N.of_nat startcol)) (N.ones (N.of_nat k))) in
        N.lxor x (N.land (nth x0 (ptT tb) 0%N) msk)
    else x) M.

(** * the main loop (triangular_russian.c:411-447) *)
Definition ntables : nat := 4.          (* __M4RI_TRTRI_NTABLES *)

(** one pass: for i = 0..3 { _mzd_trtri_upper_submatrix(A, r + i*k, r, k); _mzd_ple_to_e(U[i], A, r + i*k,
    r + i*k, k, id); mzd_make_table_trtri(U[i], 0, r + i*k, k, T[i], r) } (the C code is unrolled),
    then _mzd_process_rows_ple_4(A, 0, r, r, k_, T) *)
Definition tr_block4 (k : nat) (A : mat) (tabs : list ptable) (r : nat) : mat * list ptable :=
  let '(A1, tabs1) :=
    fold_left (fun '(A, tabs) i =>
                 let A' := tu_submatrix A (r + i * k) r k in
                 let U := ple_to_e A' (r + i * k) (r + i * k) k in
                 (A', upd i (make_table_trtri U (r + i * k) k (nth i tabs (fresh_table 0)) r) tabs))
              (seq 0 ntables) (A, tabs) in
  (process_rows_ple A1 0 r r k tabs1, tabs1).

(** while (r + kk <= A->nrows) *)
Fixpoint tr_main (fuel k : nat) (A : mat) (tabs : list ptable) (r : nat) : mat * list ptable * nat :=
  match fuel with
  | 0 => (A, tabs, r)
  | S f => if r + ntables * k <=? nr A
           then let '(A', tabs') := tr_block4 k A tabs r in tr_main f k A' tabs' (r + ntables * k)
           else (A, tabs, r)
  end.

(** * the tail (:450-462): blocks of k rows, k shrinks to what is left; the two loops over i, j
    are those of _mzd_trtri_upper_submatrix(A, r, r, k) written out *)
Fixpoint tr_tail (fuel k : nat) (A : mat) (tabs : list ptable) (r : nat) : mat :=
  match fuel with
  | 0 => A
  | S f =>
    if r <? nr A then
      let k' := if nr A - r <? k then nr A - r else k in
      let A1 := tu_submatrix A r r k' in
      let U := ple_to_e A1 r r k' in
      let t0 := make_table_trtri U r k' (nth 0 tabs (fresh_table 0)) r in
      tr_tail f k' (process_rows A1 0 r r k' t0) (upd 0 t0 tabs) (r + k')
    else A
  end.

(** * mzd_trtri_upper_russian(A, k), k >= 1; [tabs0] = the four tables as allocated *)
Definition trtri_upper_russian_from (tabs0 : list ptable) (k : nat) (A : mat) : mat :=
  let '(A1, tabs1, r) := tr_main (nr A) k A tabs0 0 in
  tr_tail (nr A) k A1 tabs1 r.

Definition trtri_upper_russian (k : nat) (A : mat) : mat :=
  trtri_upper_russian_from (repeat (fresh_table k) ntables) k A.

(** * mzd_trtri_upper (triangular.c:518-546, model [trtri_rec] of Alg/TRSM.v) over this base routine:
    [trtri_upper_rec_r] with the substitution solvers of Alg/TRSM.v (as [trtri_upper_rec]),
    [trtri_upper_rec_fr] with the faithful solvers of Alg/TRSMRec.v (as [trtri_upper_rec_f]: dot-product
    base case, Four-Russians middle regime with parameter kk); kt = the k handed to
    mzd_trtri_upper_russian (the C code passes 0 = automatic choice, a value in 1..7) *)
From M4 Require Alg.TRSM Alg.TRSMRec.

Definition trtri_upper_rec_r (c : TRSM.cfg) (kt : nat) (U : mat) : option mat :=
  TRSM.trtri_rec (trtri_upper_russian kt) (TRSM.trsm_upper_left_rec c 0) (TRSM.trsm_upper_right_rec c 0) c (nr U) U.

Definition trtri_upper_rec_fr (c : TRSM.cfg) (kt kk : nat) (U : mat) : option mat :=
  TRSM.trtri_rec (trtri_upper_russian kt) (TRSMRec.trsm_upper_left_rec_f c kk 0)
                 (TRSMRec.trsm_upper_right_rec_f c 0) c (nr U) U.
