(* Alg/PLERussianProofs10.v — C03, Four-Russians base case, part 10: the tables (ple_russian.c:494-524,
   _kk_setup :62-117) and the index array M of _mzd_ple_a11_N (ple_russian_template.h:107-206).

   The kk block columns are split over 1..7 tables with the sizes of _kk_setup ([split_sizes], summing
   up to kk: [split_sizes_sum7]); table j gets the rows of U whose pivot lies in its column range.
     a11_value_eq   whatever the split: looking up, in every table, the row M[bits of the table's
                    columns] (= gather of the pivot positions, [m_index]) and adding these rows up yields
                    the sum of the rows of U whose pivot column is set in the processed row;
     full_tables_ok for a block of full rank the tables satisfy [tbls_ok] (part 7): consecutive, each made
                    of k_j rows with unit pivots in the table's own columns;
     seq_elim_full  and the sequential elimination by the tables is the elimination by all rows of U. *)
From Coq Require Import List NArith Arith Lia Bool Sorted ZArith ZifyBool ZifyNat ZifyN.
From M4 Require Import Base.Bits Lin.Mat Lin.MatAlg Lin.Ops Lin.OpsProofs Lin.Spec Lin.Perm Lin.Observers Lin.Echelon
  Alg.PLE Alg.PLELemmas Alg.M4RI Alg.PLERussian Alg.PLERussianProofs Alg.PLERussianProofs2
  Alg.PLERussianProofs7 Alg.PLERussianProofs9.
Import ListNotations.
Local Open Scope nat_scope.

(** * the sizes of _kk_setup add up to kk, for 1..7 tables *)
Lemma ple_ntables_range k kk : 1 <= ple_ntables k kk <= 7.
Proof. unfold ple_ntables. repeat match goal with |- context [if ?b then _ else _] => destruct b end; lia. Qed.

Section Div.
Ltac Zify.zify_post_hook ::= Z.div_mod_to_equations.
Lemma split_sizes_sum7 n kbar : 1 <= n <= 7 -> list_sum (split_sizes n kbar) = kbar.
Proof.
  intros Hn. unfold split_sizes.
  assert (n = 1 \/ n = 2 \/ n = 3 \/ n = 4 \/ n = 5 \/ n = 6 \/ n = 7) as [->|[->|[->|[->|[->|[->| ->]]]]]] by lia;
    cbn [seq map list_sum Nat.sub Nat.add];
    repeat match goal with
    | |- context [Nat.ltb ?a ?b] => destruct (Nat.ltb_spec a b); try lia
    | |- context [Nat.leb ?a ?b] => destruct (Nat.leb_spec a b); try lia
    end; cbn [andb list_sum fold_right]; lia.
Qed.
End Div.

(** * nsum *)
Lemma nsum_shift n f : nsum (S n) f = N.lxor (f 0) (nsum n (fun k => f (S k))).
Proof.
  induction n as [|n IH]; [cbn [nsum]; now rewrite N.lxor_0_l, N.lxor_0_r|].
  change (nsum (S (S n)) f) with (N.lxor (nsum (S n) f) (f (S n))). rewrite IH. cbn [nsum].
  now rewrite N.lxor_assoc.
Qed.

Lemma nsum_zero n f : (forall k, k < n -> f k = 0%N) -> nsum n f = 0%N.
Proof.
  induction n as [|n IH]; intros H; cbn [nsum]; [reflexivity|].
  rewrite IH by (intros; apply H; lia). rewrite H by lia. reflexivity.
Qed.

Lemma bounded_nsum m n f : (forall k, k < n -> bounded m (f k)) -> bounded m (nsum n f).
Proof.
  induction n as [|n IH]; intros H; cbn [nsum]; [apply bounded_0|].
  apply bounded_lxor; [apply IH; intros; apply H; lia|apply H; lia].
Qed.

(** * the rows of U selected by the bits of the processed row *)
Fixpoint lsel (bits : N) (U : list (nat * N)) : N :=
  match U with
  | [] => 0%N
  | (p, u) :: t => N.lxor (if N.testbit bits (N.of_nat p) then u else 0%N) (lsel bits t)
  end.

Lemma lsel_nsum bits U :
  lsel bits U = nsum (length U) (fun l => if N.testbit bits (N.of_nat (fst (nth l U (0, 0%N))))
                                           then snd (nth l U (0, 0%N)) else 0%N).
Proof.
  induction U as [|[p u] t IH]; [reflexivity|]. cbn [length lsel]. rewrite nsum_shift. cbn [nth fst snd].
  now rewrite IH.
Qed.

(** ** the index array M: gather of the pivot positions *)
Lemma odd_b2n_2 b g : N.odd (N.b2n b + 2 * g) = b.
Proof. rewrite N.odd_add_mul_2. now destruct b. Qed.
Lemma div2_b2n_2 b g : N.div2 (N.b2n b + 2 * g) = g.
Proof. rewrite N.div2_div, N.add_comm, N.mul_comm, N.div_add_l by lia. destruct b; cbn; lia. Qed.

Definition inr (lb kj : nat) : nat * N -> bool := fun '(p, _) => (lb <=? p) && (p <? lb + kj).

Lemma mul_row_m_index lb kj bits prs : (forall q, In q prs -> lb <= fst q < lb + kj) ->
  mul_row (m_index lb (map fst prs) (N.land (N.shiftr bits (N.of_nat lb)) (N.ones (N.of_nat kj)))) (map snd prs)
  = lsel bits prs.
Proof.
  unfold m_index. set (bj := N.land _ _).
  induction prs as [|[p u] t IH]; intros H; cbn [map gather mul_row lsel fst snd]; [reflexivity|].
  rewrite odd_b2n_2, div2_b2n_2, IH by (intros q Hq; apply H; now right). f_equal.
  pose proof (H (p, u) ltac:(now left)) as Hp. cbn [fst] in Hp.
  unfold bj. rewrite N.land_spec, testbit_shiftr_nat, testbit_ones_nat.
  destruct (Nat.ltb_spec (p - lb) kj); [|lia]. rewrite andb_true_r.
  now replace (p - lb + lb) with p by lia.
Qed.

Lemma filter_inr_cons a k p u t :
  filter (inr a k) ((p, u) :: t) =
  if (a <=? p) && (p <? a + k) then (p, u) :: filter (inr a k) t else filter (inr a k) t.
Proof. reflexivity. Qed.

Lemma lsel_filter_split bits U a k1 k2 :
  lsel bits (filter (inr a (k1 + k2)) U) =
  N.lxor (lsel bits (filter (inr a k1) U)) (lsel bits (filter (inr (a + k1) k2) U)).
Proof.
  induction U as [|[p u] t IH]; [reflexivity|]. rewrite !filter_inr_cons.
  set (x := if N.testbit bits (N.of_nat p) then u else 0%N).
  destruct (Nat.leb_spec a p), (Nat.ltb_spec p (a + (k1 + k2))), (Nat.ltb_spec p (a + k1)),
    (Nat.leb_spec (a + k1) p), (Nat.ltb_spec p (a + k1 + k2)); try lia; cbn [andb lsel]; fold x; rewrite IH;
    try reflexivity.
  - now rewrite N.lxor_assoc.
  - rewrite <- !N.lxor_assoc. f_equal. apply N.lxor_comm.
Qed.

Lemma filter_none {A} (f : A -> bool) l : (forall x, In x l -> f x = false) -> filter f l = [].
Proof.
  induction l as [|x l IH]; intros H; cbn [filter]; [reflexivity|].
  rewrite (H x) by now left. apply IH. intros; apply H; now right.
Qed.
Lemma filter_all {A} (f : A -> bool) l : (forall x, In x l -> f x = true) -> filter f l = l.
Proof.
  induction l as [|x l IH]; intros H; cbn [filter]; [reflexivity|].
  rewrite (H x) by now left. f_equal. apply IH. intros; apply H; now right.
Qed.

Lemma ple_tables_eq k kk U :
  ple_tables k kk U = map (fun '(lb, kj) => (lb, kj, filter (inr lb kj) U))
                          (tbl_bounds 0 (split_sizes (ple_ntables k kk) kk)).
Proof. reflexivity. Qed.

Lemma a11_fold bits U : forall bounds acc,
  fold_left (fun acc '(lb, kj, prs) =>
               let bj := N.land (N.shiftr bits (N.of_nat lb)) (N.ones (N.of_nat kj)) in
               N.lxor acc (mul_row (m_index lb (map fst prs) bj) (map snd prs)))
            (map (fun '(lb, kj) => (lb, kj, filter (inr lb kj) U)) bounds) acc =
  fold_left (fun acc '(lb, kj) => N.lxor acc (lsel bits (filter (inr lb kj) U))) bounds acc.
Proof.
  induction bounds as [|[lb kj] t IH]; intros acc; cbn [map fold_left]; [reflexivity|].
  rewrite IH. f_equal. f_equal. apply mul_row_m_index.
  intros [p u] Hq. apply filter_In in Hq as [_ Hq]. unfold inr in Hq. cbn [fst]. lia.
Qed.

Lemma lsel_tables bits U : forall sizes lb acc,
  fold_left (fun acc '(lb, kj) => N.lxor acc (lsel bits (filter (inr lb kj) U))) (tbl_bounds lb sizes) acc =
  N.lxor acc (lsel bits (filter (inr lb (list_sum sizes)) U)).
Proof.
  induction sizes as [|k t IH]; intros lb acc; cbn [tbl_bounds fold_left].
  - rewrite filter_none; [cbn [lsel]; now rewrite N.lxor_0_r|].
    intros [p u] _. unfold inr. cbn [list_sum fold_right]. lia.
  - rewrite IH. change (list_sum (k :: t)) with (k + list_sum t). rewrite lsel_filter_split.
    now rewrite N.lxor_assoc.
Qed.

(** the value looked up by _mzd_ple_a11_N, for any k *)
Theorem a11_value_eq c0 k kk U bits : (forall q, In q U -> fst q < kk) ->
  a11_value c0 (ple_tables k kk U) bits = lsel bits U.
Proof.
  intros H. unfold a11_value. rewrite ple_tables_eq, a11_fold, lsel_tables.
  rewrite split_sizes_sum7 by apply ple_ntables_range. rewrite N.lxor_0_l.
  rewrite filter_all; [reflexivity|]. intros [p u] Hq. specialize (H _ Hq). cbn [fst] in H. unfold inr. lia.
Qed.

(** * U *)
Lemma u_pairs_length M r c pivots : length (u_pairs M r c pivots) = length pivots.
Proof. unfold u_pairs. now rewrite map_length, combine_length, seq_length, Nat.min_id. Qed.

Lemma nth_u_pairs M r c pivots l : l < length pivots ->
  nth l (u_pairs M r c pivots) (0, 0%N) =
  (nth l pivots 0, N.land (row M (r + l)) (colmask (c + nth l pivots 0) (nc M))).
Proof.
  intros Hl. unfold u_pairs.
  rewrite (nth_map_default _ _ _ (0, 0)) by (rewrite combine_length, seq_length; lia).
  rewrite combine_nth by apply seq_length. rewrite seq_nth by assumption. reflexivity.
Qed.

Lemma u_pairs_fst M r c pivots q : In q (u_pairs M r c pivots) -> In (fst q) pivots.
Proof.
  intros Hq. destruct (In_nth _ _ (0, 0%N) Hq) as (l & Hl & <-). rewrite u_pairs_length in Hl.
  rewrite nth_u_pairs by assumption. cbn [fst]. now apply nth_In.
Qed.

(** the sum looked up by _mzd_ple_a11_N in the tables made from [M] *)
Theorem a11_value_u c0 k kk M r c pivots bits : (forall p, In p pivots -> p < kk) ->
  a11_value c0 (ple_tables k kk (u_pairs M r c pivots)) bits =
  nsum (length pivots) (fun l => if N.testbit bits (N.of_nat (nth l pivots 0))
                                 then N.land (row M (r + l)) (colmask (c + nth l pivots 0) (nc M)) else 0%N).
Proof.
  intros H. rewrite a11_value_eq by (intros q Hq; apply H; now apply u_pairs_fst in Hq).
  rewrite lsel_nsum, u_pairs_length. apply nsum_ext. intros l Hl. now rewrite nth_u_pairs.
Qed.

(** * blocks of full rank *)
Lemma sorted_full l : StronglySorted lt l -> (forall p, In p l -> p < length l) -> l = seq 0 (length l).
Proof.
  intros Hs Hb.
  assert (Hlo : forall i, i < length l -> i <= nth i l 0).
  { induction i as [|i IH]; intros Hi; [lia|].
    pose proof (sorted_nth_lt l i (S i) Hs ltac:(lia) Hi). specialize (IH ltac:(lia)). lia. }
  assert (Hhi : forall d i, i + d = length l - 1 -> i < length l -> nth i l 0 <= i).
  { induction d as [|d IH]; intros i Hd Hi.
    - pose proof (Hb (nth i l 0) (nth_In _ _ Hi)). lia.
    - pose proof (sorted_nth_lt l i (S i) Hs ltac:(lia) ltac:(lia)). specialize (IH (S i) ltac:(lia) ltac:(lia)). lia. }
  apply (list_ext_nth 0); [now rewrite seq_length|].
  intros i Hi. rewrite seq_nth by assumption. cbn [Nat.add].
  specialize (Hlo i Hi). specialize (Hhi (length l - 1 - i) i ltac:(lia) Hi). lia.
Qed.

Definition ufun (M : mat) (r c l : nat) : N := N.land (row M (r + l)) (colmask (c + l) (nc M)).

Lemma combine_seq n : forall a, combine (seq a n) (seq a n) = map (fun l => (l, l)) (seq a n).
Proof. induction n as [|n IH]; intros a; cbn [seq combine map]; [reflexivity|]. now rewrite IH. Qed.

Lemma u_pairs_full M r c kk : u_pairs M r c (seq 0 kk) = map (fun l => (l, ufun M r c l)) (seq 0 kk).
Proof. unfold u_pairs. rewrite seq_length, combine_seq, map_map. reflexivity. Qed.

Lemma filter_range_seq lo hi : forall n a,
  filter (fun p => (lo <=? p) && (p <? hi)) (seq a n) = seq (Nat.max lo a) (Nat.min hi (a + n) - Nat.max lo a).
Proof.
  induction n as [|n IH]; intros a.
  - cbn [seq filter]. replace (Nat.min hi (a + 0) - Nat.max lo a) with 0 by lia. reflexivity.
  - cbn [seq filter]. rewrite IH.
    destruct (Nat.leb_spec lo a) as [C1|C1], (Nat.ltb_spec a hi) as [C2|C2]; cbn [andb].
    + replace (Nat.max lo a) with a by lia.
      replace (Nat.min hi (a + S n) - a) with (S (Nat.min hi (S a + n) - S a)) by lia.
      cbn [seq]. f_equal. f_equal; lia.
    + replace (Nat.min hi (S a + n) - Nat.max lo (S a)) with 0 by lia.
      replace (Nat.min hi (a + S n) - Nat.max lo a) with 0 by lia. reflexivity.
    + f_equal; lia.
    + replace (Nat.min hi (S a + n) - Nat.max lo (S a)) with 0 by lia.
      replace (Nat.min hi (a + S n) - Nat.max lo a) with 0 by lia. reflexivity.
Qed.

Lemma seq_add_map lb k : seq lb k = map (fun b => lb + b) (seq 0 k).
Proof.
  induction k as [|k IH]; [reflexivity|]. rewrite !seq_S, map_app, <- IH. reflexivity.
Qed.

Lemma fold_seq_shift {X} (F : X -> nat -> X) lb k y :
  fold_left F (seq lb k) y = fold_left (fun x b => F x (lb + b)) (seq 0 k) y.
Proof. rewrite (seq_add_map lb k), fold_left_map'. reflexivity. Qed.

Lemma filter_map_comm {A B} (f : B -> bool) (g : A -> B) l : filter f (map g l) = map g (filter (fun x => f (g x)) l).
Proof.
  induction l as [|x l IH]; cbn [map filter]; [reflexivity|]. rewrite IH. now destruct (f (g x)).
Qed.

Section Full.
  Variables (n c0 kk : nat) (u : nat -> N).
  Hypothesis Hn : c0 + kk <= n.
  (** the rows of U of a full-rank block: unit pivot in column c0 + l, nothing left of it *)
  Hypothesis Hb : forall l, l < kk -> bounded n (u l).
  Hypothesis H1 : forall l, l < kk -> N.testbit (u l) (N.of_nat (c0 + l)) = true.
  Hypothesis H0 : forall l j, l < kk -> j < c0 + l -> N.testbit (u l) (N.of_nat j) = false.

  Let g (l : nat) : nat * N := (l, u l).
  Let U := map g (seq 0 kk).

  Lemma full_slice lb kj : lb + kj <= kk -> filter (inr lb kj) U = map g (seq lb kj).
  Proof.
    intros H. unfold U. rewrite filter_map_comm. unfold g, inr.
    rewrite (filter_range_seq lb (lb + kj) kk 0). f_equal. f_equal; lia.
  Qed.

  Lemma nth_slice lb kj b : b < kj -> nth b (map snd (map g (seq lb kj))) 0%N = u (lb + b).
  Proof.
    intros Hb'. rewrite map_map. rewrite (nth_map_default _ _ _ 0) by now rewrite seq_length.
    rewrite seq_nth by assumption. reflexivity.
  Qed.

  Lemma full_tables_aux : forall sizes lb, lb + list_sum sizes <= kk ->
    let tbls := map (fun '(lb, kj) => (lb, kj, filter (inr lb kj) U)) (tbl_bounds lb sizes) in
    tbls_ok n c0 kk lb tbls /\
    forall y, seq_elim n c0 tbls y = fold_left (fun x l => red1 n (u l) (c0 + l) x) (seq lb (list_sum sizes)) y.
  Proof.
    induction sizes as [|k t IH]; intros lb Hs; cbv zeta; cbn [tbl_bounds map tbls_ok seq_elim].
    - split; [exact I|]. intros y. reflexivity.
    - change (list_sum (k :: t)) with (k + list_sum t) in *.
      rewrite full_slice by lia.
      destruct (IH (lb + k) ltac:(lia)) as [IH1 IH2]. cbv zeta in IH1, IH2.
      assert (Hl : length (map g (seq lb k)) = k) by now rewrite map_length, seq_length.
      split.
      + splits; auto; try lia.
        intros b Hb'. rewrite map_length, Hl in Hb'. rewrite nth_slice by assumption.
        splits.
        * apply Hb. lia.
        * replace (c0 + lb + b) with (c0 + (lb + b)) by lia. apply H1. lia.
        * intros j Hj. apply H0; lia.
      + intros y. rewrite IH2, Hl, seq_app, fold_left_app. f_equal.
        rewrite (fold_seq_shift _ lb k). apply Lin.Perm.fold_left_ext_in.
        intros x b Hin. apply in_seq in Hin. rewrite nth_slice by lia. f_equal. lia.
  Qed.
End Full.
