(* Alg/SolveProofs2.v — C06: the theorems about mzd_pluq_solve_left / mzd_solve_left (models: Alg/Solve.v).

     pluq_solve_verdict : given a factorisation of A meeting [pluq_spec], with the consistency check
                          the routine returns 0 iff (A padded with zero rows) X = B is solvable, and
                          then the first [nc A] rows of the overwritten B solve A X = top (nr A) B.
     pluq_solve_nocheck : without the check: if A X = top (nr A) B is solvable, the result solves it.
     solve_verdict / solve_nocheck : the same for mzd_solve_left (which factors A itself).
     *_closed           : instances with _mzd_pluq_naive and the simple TRSM models (no hypotheses left).
     solve_verdict_pinned_refuted : the pinned (pre-fix) code answers 0 on an unsolvable system. *)
From Coq Require Import List NArith ZArith Arith Lia Bool Sorted.
From M4 Require Import Base.Bits Lin.Mat Lin.MatAlg Lin.Ops Alg.Gauss Alg.PLE Alg.PLELemmas Alg.PLESpec
  Alg.PLEProofs Lin.Spec Lin.Perm Lin.Tri Lin.Observers Alg.TRSM Alg.TRSMProofs Lin.OpsProofs Alg.Solve
  Alg.SolveProofs Alg.PLEProofs3.
Import ListNotations.
Local Open Scope nat_scope.

(** the system (A padded with zero rows up to the row count of B) X = B has a solution *)
Definition solvable (A B : mat) : Prop :=
  exists X, wf X /\ nr X = nc A /\ nc X = nc B /\ mmul (padto (nr B) A) X = B.

Lemma madd_eq_zero X Y : wf X -> wf Y -> nr X = nr Y -> nc X = nc Y ->
  (madd X Y = mzero (nr X) (nc X) <-> X = Y).
Proof.
  intros HX HY Hr Hc. split.
  - intros E. rewrite <- (madd_cancel X Y) by assumption. rewrite E, Hr, Hc. now apply madd_zero_l.
  - intros <-. now apply madd_self.
Qed.

Lemma nr_aplt A P : nr (apply_p_left_trans A P) = nr A. Proof. apply nr_rswaps. Qed.
Lemma nc_aplt A P : nc (apply_p_left_trans A P) = nc A. Proof. apply nc_rswaps. Qed.

Lemma solvable_iff A B : wf A -> wf B -> nr A <= nr B ->
  solvable A B <->
  (exists X, wf X /\ nr X = nc A /\ mmul A X = top (nr A) B) /\
  msub B (nr A) 0 (nr B - nr A) (nc B) = mzero (nr B - nr A) (nc B).
Proof.
  intros HA HB Hm.
  set (Bt := top (nr A) B). set (Bb := msub B (nr A) 0 (nr B - nr A) (nc B)).
  assert (b1 : wf Bt) by (apply wf_top; auto).
  assert (d1 : wf Bb) by (apply wf_msub; rewrite wf_len by assumption; lia).
  assert (EB : B = mstack Bt Bb) by (apply mstack_split_at; assumption).
  assert (G : forall X, wf X -> nr X = nc A ->
            mmul (padto (nr B) A) X = mstack (mmul A X) (mzero (nr B - nr A) (nc X))).
  { intros X HX HrX. unfold padto. rewrite mmul_mstack_l. f_equal.
    rewrite <- HrX. now apply mmul_zero_l. }
  split.
  - intros (X & HX & HrX & HcX & E). rewrite G in E by assumption.
    assert (E' : mstack (mmul A X) (mzero (nr B - nr A) (nc X)) = mstack Bt Bb) by (rewrite <- EB; exact E).
    assert (HAX : wf (mmul A X)) by auto with wf.
    destruct (mstack_inj _ _ _ _ HAX b1 ltac:(reflexivity) E') as [R1 R2]. split.
    + exists X. split; [assumption|]. split; [assumption|]. apply mat_of_rows; auto; cbn; lia.
    + symmetry. apply mat_of_rows; [reflexivity|reflexivity|exact R2].
  - intros [(X & HX & HrX & E) Eb]. exists X.
    assert (HcX : nc X = nc B) by (apply (f_equal nc) in E; exact E).
    split; [assumption|]. split; [assumption|]. split; [assumption|].
    rewrite G by assumption. rewrite E, HcX, <- Eb. symmetry. exact EB.
Qed.

Section Main.
  Variables (trsm_ll trsm_ul : mat -> mat -> mat).
  Hypothesis Hll : forall L B, wf L -> wf B -> nr L = nr B -> nc L = nr B ->
    let X := trsm_ll L B in wf X /\ nr X = nr B /\ nc X = nc B /\ mmul (unit_lower (nr B) L) X = B.
  Hypothesis Hul : forall U B, wf U -> wf B -> nr U = nr B -> nc U = nr B ->
    let X := trsm_ul U B in wf X /\ nr X = nr B /\ nc X = nc B /\ mmul (unit_upper (nr B) U) X = B.
  Variable cutoff : nat.

  Variables (A : mat) (r : nat) (S : mat) (P Q : list nat).
  Hypothesis HA : wf A.
  Hypothesis HSt : plu_struct A r S P Q.
  Hypothesis HRe : plu_recon A r S P Q.
  Variable B : mat.
  Hypotheses (HB : wf B) (Hm : nr A <= nr B) (Hn : nc A <= nr B).

  Let m := nr A.
  Let n := nc A.
  Let N := nr B.
  Let c := nc B.
  Let Pm := pmat m P.
  Let Qm := pmat n Q.
  Let LU := win S 0 0 r r.
  Let H := win S r 0 m r.
  Let Bt := top m B.
  Let Bb := msub B m 0 (N - m) c.
  Let C := apply_p_left Bt P.
  Let C1 := msub C 0 0 r c.
  Let C2 := msub C r 0 (m - r) c.
  Let W := trsm_ll LU C1.
  Let V := trsm_ul LU W.
  Let Y2 := madd C2 (mmul H W).

  Let HlP : lapack P m := plu_lapack_P _ _ _ _ _ HSt.
  Let HlQ : lapack Q n := plu_lapack_Q _ _ _ _ _ HSt.
  Let HwS : wf S := plu_wf _ _ _ _ _ HSt.
  Let HnrS : nr S = m := plu_nr _ _ _ _ _ HSt.
  Let HncS : nc S = n := plu_nc _ _ _ _ _ HSt.
  Let Hrm : r <= m := plu_r_le_nr _ _ _ _ _ HSt.
  Let Hrn : r <= n := plu_r_le_nc _ _ _ _ _ HSt.

  Lemma main_Bt : wf Bt /\ nr Bt = m /\ nc Bt = c.
  Proof. split; [apply wf_top; auto|]. split; reflexivity. Qed.
  Lemma main_Bb : wf Bb /\ nr Bb = N - m /\ nc Bb = c.
  Proof. split; [apply wf_msub; rewrite wf_len by assumption; unfold N, m; lia|]. split; reflexivity. Qed.
  Lemma main_B : B = mstack Bt Bb.
  Proof. apply mstack_split_at; assumption. Qed.
  Lemma main_C : wf C /\ nr C = m /\ nc C = c /\ C = mmul Pm Bt.
  Proof.
    destruct main_Bt as (b1 & b2 & b3). unfold C.
    split; [now apply wf_apply_p_left|]. split; [apply nr_rswaps|]. split; [apply nc_rswaps|].
    rewrite apply_left_is_mul by assumption. reflexivity.
  Qed.
  Lemma main_C12 : wf C1 /\ nr C1 = r /\ nc C1 = c /\ wf C2 /\ nr C2 = m - r /\ nc C2 = c /\ C = mstack C1 C2.
  Proof.
    destruct main_C as (c1 & c2 & c3 & _).
    split; [apply wf_msub; rewrite wf_len by assumption; lia|]. split; [reflexivity|]. split; [reflexivity|].
    split; [apply wf_msub; rewrite wf_len by assumption; lia|]. split; [reflexivity|]. split; [reflexivity|].
    unfold C1, C2. rewrite <- c3, <- c2. apply mstack_split_at; auto. lia.
  Qed.
  Lemma main_perm : apply_p_left B P = mstack (mstack C1 C2) Bb.
  Proof.
    destruct main_Bt as (b1 & b2 & b3). destruct main_Bb as (d1 & d2 & d3).
    destruct main_C12 as (_ & _ & _ & _ & _ & _ & <-).
    rewrite main_B at 1. apply apply_p_left_mstack; auto.
  Qed.

  Lemma main_LU : wf LU /\ nr LU = r /\ nc LU = r.
  Proof. split; [apply wf_msub; rewrite wf_len by assumption; lia|]. cbn. lia. Qed.
  Lemma main_H : wf H /\ nr H = m - r /\ nc H = r.
  Proof. split; [apply wf_msub; rewrite wf_len by assumption; lia|]. cbn. lia. Qed.
  Lemma EW : wf W /\ nr W = r /\ nc W = c /\ mmul (unit_lower r LU) W = C1.
  Proof.
    destruct main_LU as (h1 & h2 & h3). destruct main_C12 as (k1 & k2 & k3 & _).
    destruct (Hll LU C1 h1 k1 ltac:(lia) ltac:(lia)) as (a & b & d & e). fold W in a, b, d, e.
    rewrite k2 in b, e. rewrite k3 in d. auto.
  Qed.
  Lemma EV : wf V /\ nr V = r /\ nc V = c /\ mmul (unit_upper r LU) V = W.
  Proof.
    destruct main_LU as (h1 & h2 & h3). destruct EW as (w1 & w2 & w3 & _).
    destruct (Hul LU W h1 w1 ltac:(lia) ltac:(lia)) as (a & b & d & e). fold V in a, b, d, e.
    rewrite w2 in b, e. rewrite w3 in d. auto.
  Qed.

  (** P^T (P Bt) = Bt *)
  Lemma main_unperm : mmul (mtrans Pm) (mstack C1 C2) = Bt.
  Proof.
    destruct main_Bt as (b1 & b2 & b3). destruct main_C as (_ & _ & _ & E).
    destruct main_C12 as (_ & _ & _ & _ & _ & _ & <-). rewrite E, <- mmul_assoc.
    pose proof (proj1 (pmat_orthogonal m P HlP)) as Eo. fold Pm in Eo. rewrite Eo, <- b2.
    now apply mmul_id_l.
  Qed.

  (** the first [n] rows of the un-permuted result *)
  Lemma main_top_final Y : wf Y -> nr Y = r -> nc Y = c ->
    let B' := apply_p_left_trans (mstack Y (mzero (N - r) c)) Q in
    wf B' /\ nr B' = N /\ nc B' = c /\
    top n B' = mmul (mtrans Qm) (mstack Y (mzero (n - r) c)).
  Proof.
    intros HY HrY HcY. cbn zeta.
    set (Z := mstack Y (mzero (n - r) c)).
    assert (HZ : wf Z) by (apply wf_mstack; auto with wf).
    assert (HrZ : nr Z = n) by (cbn; lia).
    assert (E : mstack Y (mzero (N - r) c) = mstack Z (mzero (N - n) c)).
    { unfold Z. rewrite mstack_assoc, <- HcY, mstack_mzero. do 2 f_equal. unfold N, n in *. lia. }
    rewrite E. rewrite apply_p_left_trans_mstack by (auto with wf; rewrite HrZ; auto).
    assert (HT : wf (apply_p_left_trans Z Q)) by now apply wf_apply_p_left_trans.
    assert (HrT : nr (apply_p_left_trans Z Q) = n) by (rewrite <- HrZ; apply nr_aplt).
    split; [apply wf_mstack; auto with wf; rewrite nc_aplt; cbn; lia|].
    split; [cbn [nr mstack mzero]; rewrite HrT; unfold N, n in *; lia|].
    split; [cbn [nc mstack]; rewrite nc_aplt; cbn; lia|].
    rewrite <- HrT at 1. rewrite top_mstack by assumption.
    rewrite apply_left_trans_is_mul by (auto; rewrite HrZ; auto). now rewrite HrZ.
  Qed.

  (** soundness of the candidate X = Q^T [V; 0] *)
  Lemma main_sound : mmul H W = C2 ->
    mmul A (mmul (mtrans Qm) (mstack V (mzero (n - r) c))) = Bt.
  Proof.
    intros E2. destruct EW as (w1 & w2 & w3 & w4). destruct EV as (v1 & v2 & v3 & v4).
    rewrite <- main_unperm.
    apply (core_sound A r S P Q HA HSt HRe c C1 C2 W V); auto.
  Qed.

  (** completeness: a solution forces the consistency test to pass *)
  Lemma main_complete X : wf X -> nr X = n -> mmul A X = Bt -> mmul H W = C2.
  Proof.
    intros HX HrX EX. destruct EW as (w1 & w2 & w3 & w4).
    destruct main_C12 as (k1 & k2 & k3 & k4 & k5 & k6 & k7). destruct main_C as (_ & _ & _ & E).
    apply (core_complete A r S P Q HA HSt HRe C1 C2 W X); auto; try congruence.
    - rewrite k3. apply (f_equal nc) in EX. exact EX.
    - rewrite EX, <- k7. symmetry. exact E.
  Qed.

  (** * mzd_pluq_solve_left with the consistency check *)
  Theorem pluq_solve_verdict :
    match pluq_solve_left trsm_ll trsm_ul false cutoff S r P Q B true with
    | Some (ret, B') =>
        (ret = 0%Z \/ ret = (-1)%Z) /\
        (ret = 0%Z <-> solvable A B) /\
        (ret = 0%Z -> wf B' /\ nr B' = nr B /\ nc B' = nc B /\ mmul A (top (nc A) B') = top (nr A) B)
    | None => False
    end.
  Proof.
    destruct main_Bt as (b1 & b2 & b3). destruct main_Bb as (d1 & d2 & d3).
    destruct main_C12 as (k1 & k2 & k3 & k4 & k5 & k6 & k7).
    destruct EW as (w1 & w2 & w3 & w4). destruct EV as (v1 & v2 & v3 & v4).
    destruct main_H as (h1 & h2 & h3).
    assert (y1 : wf Y2) by (apply wf_madd; auto with wf; cbn; lia).
    unfold pluq_solve_left.
    rewrite HncS, HnrS, (plu_len_P _ _ _ _ _ HSt), (plu_len_Q _ _ _ _ _ HSt).
    fold m n. rewrite !Nat.eqb_refl. cbn [negb].
    destruct (Nat.ltb_spec (nr B) n) as [Hlt|_]; [unfold n in Hlt; lia|].
    rewrite (eval_check trsm_ll trsm_ul Hll Hul cutoff m r S Q HwS HnrS Hrm C1 C2 Bb c N) by
      (auto using main_perm).
    fold LU H W V Y2.
    assert (HY2 : is_zero Y2 = true <-> mmul H W = C2).
    { assert (HHW : wf (mmul H W)) by auto with wf.
      pose proof (madd_eq_zero C2 (mmul H W) k4 HHW ltac:(cbn; lia) ltac:(cbn; lia)) as G.
      rewrite is_zero_mzero by assumption. split; intros E.
      - symmetry. apply G. exact E.
      - apply (proj2 G). now symmetry. }
    assert (HBb : is_zero Bb = true <-> Bb = mzero (N - m) c).
    { rewrite is_zero_mzero by assumption. now rewrite d2, d3. }
    split; [destruct (is_zero Y2), (is_zero Bb); auto|].
    assert (Hret : (if is_zero Y2 then if is_zero Bb then 0%Z else (-1)%Z else (-1)%Z) = 0%Z <->
                   mmul H W = C2 /\ Bb = mzero (N - m) c).
    { rewrite <- HY2, <- HBb. destruct (is_zero Y2), (is_zero Bb); split; try discriminate; auto;
        intros [? ?]; discriminate. }
    split.
    - rewrite Hret, (solvable_iff A B HA HB Hm). fold m n N c Bt Bb. split.
      + intros [E2 Eb]. split; [|assumption].
        exists (mmul (mtrans Qm) (mstack V (mzero (n - r) c))).
        split; [apply wf_mmul; [apply wf_mtrans, wf_pmat|apply wf_mstack; auto with wf]|].
        split; [cbn; apply nc_pmat|]. now apply main_sound.
      + intros [(X & HX & HrX & EX) Eb]. split; [|assumption]. now apply (main_complete X).
    - rewrite Hret. intros [E2 Eb].
      assert (E : mstack (mstack V Y2) (mzero (N - m) c) = mstack V (mzero (N - r) c)).
      { apply HY2 in E2. apply is_zero_mzero in E2; [|assumption]. rewrite E2.
        rewrite mstack_assoc. replace (nc Y2) with c by (cbn; lia). rewrite mstack_mzero.
        do 2 f_equal. cbn. unfold N, m in *. lia. }
      rewrite E. destruct (main_top_final V v1 v2 v3) as (t1 & t2 & t3 & t4).
      split; [assumption|]. split; [assumption|]. split; [assumption|].
      fold n m Bt. rewrite t4. now apply main_sound.
  Qed.

  (** * mzd_pluq_solve_left without the check *)
  Theorem pluq_solve_nocheck :
    match pluq_solve_left trsm_ll trsm_ul false cutoff S r P Q B false with
    | Some (ret, B') =>
        ret = 0%Z /\ wf B' /\ nr B' = nr B /\ nc B' = nc B /\
        ((exists X, wf X /\ nr X = nc A /\ mmul A X = top (nr A) B) ->
         mmul A (top (nc A) B') = top (nr A) B)
    | None => False
    end.
  Proof.
    destruct main_Bt as (b1 & b2 & b3). destruct main_Bb as (d1 & d2 & d3).
    destruct main_C12 as (k1 & k2 & k3 & k4 & k5 & k6 & k7).
    destruct EW as (w1 & w2 & w3 & w4). destruct EV as (v1 & v2 & v3 & v4).
    unfold pluq_solve_left.
    rewrite HncS, HnrS, (plu_len_P _ _ _ _ _ HSt), (plu_len_Q _ _ _ _ _ HSt).
    fold m n. rewrite !Nat.eqb_refl. cbn [negb].
    destruct (Nat.ltb_spec (nr B) n) as [Hlt|_]; [unfold n in Hlt; lia|].
    rewrite (eval_nocheck trsm_ll trsm_ul Hll Hul cutoff m r S Q HwS HnrS Hrm C1 C2 Bb c N) by
      (auto using main_perm).
    fold LU W V.
    destruct (main_top_final V v1 v2 v3) as (t1 & t2 & t3 & t4).
    split; [reflexivity|]. split; [assumption|]. split; [assumption|]. split; [assumption|].
    intros (X & HX & HrX & EX). fold n m Bt. rewrite t4. apply main_sound. now apply (main_complete X).
  Qed.
End Main.

(** * mzd_solve_left *)
Section SolveLeft.
  Variable pluq : mat -> ple_out.
  Hypothesis Hpluq : forall A, wf A -> pluq_spec A (pluq A).
  Variables (trsm_ll trsm_ul : mat -> mat -> mat).
  Hypothesis Hll : forall L B, wf L -> wf B -> nr L = nr B -> nc L = nr B ->
    let X := trsm_ll L B in wf X /\ nr X = nr B /\ nc X = nc B /\ mmul (unit_lower (nr B) L) X = B.
  Hypothesis Hul : forall U B, wf U -> wf B -> nr U = nr B -> nc U = nr B ->
    let X := trsm_ul U B in wf X /\ nr X = nr B /\ nc X = nc B /\ mmul (unit_upper (nr B) U) X = B.
  Variable cutoff : nat.

  Theorem solve_verdict A B : wf A -> wf B -> nr B = Nat.max (nr A) (nc A) ->
    match solve_left pluq trsm_ll trsm_ul false cutoff A B true with
    | Some (ret, B') =>
        (ret = 0%Z \/ ret = (-1)%Z) /\
        (ret = 0%Z <-> solvable A B) /\
        (ret = 0%Z -> wf B' /\ nr B' = nr B /\ nc B' = nc B /\ mmul A (top (nc A) B') = top (nr A) B)
    | None => False
    end.
  Proof.
    intros HA HB HN. assert (Hm : nr A <= nr B) by lia. assert (Hn : nc A <= nr B) by lia.
    unfold solve_left.
    destruct (Nat.ltb_spec (nr B) (nc A)) as [Hlt|_]; [lia|].
    rewrite (Nat.max_comm (nc A)), <- HN, Nat.eqb_refl. cbn [negb].
    unfold solve_left_core. cbn [andb].
    rewrite Nat.add_0_r. unfold win. rewrite Nat.sub_0_r.
    destruct (Nat.ltb_spec (nr A) (nr B)) as [Hlt|Hge]; cbn [andb].
    - destruct (is_zero (msub B (nr A) 0 (nr B - nr A) (nc B))) eqn:Ez; cbn [negb].
      + specialize (Hpluq A HA). destruct (pluq A) as [[r S] [P Q]]. destruct Hpluq as [HSt HRe].
        exact (pluq_solve_verdict trsm_ll trsm_ul Hll Hul cutoff A r S P Q HA HSt HRe B HB Hm Hn).
      + split; [now right|]. split; [|discriminate]. split; [discriminate|].
        intros Hs. apply (solvable_iff A B HA HB Hm) in Hs as [_ Eb].
        rewrite Eb in Ez. assert (Ht : is_zero (mzero (nr B - nr A) (nc B)) = true).
        { apply is_zero_spec. intros. apply get_mzero. }
        congruence.
    - specialize (Hpluq A HA). destruct (pluq A) as [[r S] [P Q]]. destruct Hpluq as [HSt HRe].
      exact (pluq_solve_verdict trsm_ll trsm_ul Hll Hul cutoff A r S P Q HA HSt HRe B HB Hm Hn).
  Qed.

  Theorem solve_nocheck A B : wf A -> wf B -> nr B = Nat.max (nr A) (nc A) ->
    match solve_left pluq trsm_ll trsm_ul false cutoff A B false with
    | Some (ret, B') =>
        ret = 0%Z /\ wf B' /\ nr B' = nr B /\ nc B' = nc B /\
        ((exists X, wf X /\ nr X = nc A /\ mmul A X = top (nr A) B) ->
         mmul A (top (nc A) B') = top (nr A) B)
    | None => False
    end.
  Proof.
    intros HA HB HN. assert (Hm : nr A <= nr B) by lia. assert (Hn : nc A <= nr B) by lia.
    unfold solve_left.
    destruct (Nat.ltb_spec (nr B) (nc A)) as [Hlt|_]; [lia|].
    rewrite (Nat.max_comm (nc A)), <- HN, Nat.eqb_refl. cbn [negb].
    unfold solve_left_core. cbn [andb].
    specialize (Hpluq A HA). destruct (pluq A) as [[r S] [P Q]]. destruct Hpluq as [HSt HRe].
    exact (pluq_solve_nocheck trsm_ll trsm_ul Hll Hul cutoff A r S P Q HA HSt HRe B HB Hm Hn).
  Qed.
End SolveLeft.

(** * closed instances: _mzd_pluq_naive on identity permutations, simple TRSM models *)
Lemma trsm_ll_ok : forall L B, wf L -> wf B -> nr L = nr B -> nc L = nr B ->
  let X := trsm_lower_left L B in wf X /\ nr X = nr B /\ nc X = nc B /\ mmul (unit_lower (nr B) L) X = B.
Proof. intros L B _ HB _ _. exact (trsm_lower_left_spec L B HB). Qed.
Lemma trsm_ul_ok : forall U B, wf U -> wf B -> nr U = nr B -> nc U = nr B ->
  let X := trsm_upper_left U B in wf X /\ nr X = nr B /\ nc X = nc B /\ mmul (unit_upper (nr B) U) X = B.
Proof. intros U B _ HB _ _. exact (trsm_upper_left_spec U B HB). Qed.

Lemma pluq_naive_id_spec A : wf A -> pluq_spec A (pluq_naive_id A).
Proof. intros HA. apply pluq_naive_spec; [assumption|apply seq_length|apply seq_length]. Qed.

Theorem solve_verdict_closed cutoff A B : wf A -> wf B -> nr B = Nat.max (nr A) (nc A) ->
  match solve_left_model cutoff true A B with
  | Some (ret, B') =>
      (ret = 0%Z \/ ret = (-1)%Z) /\
      (ret = 0%Z <-> exists X, wf X /\ nr X = nc A /\ nc X = nc B /\ mmul (pad A) X = B) /\
      (ret = 0%Z -> wf B' /\ nr B' = nr B /\ nc B' = nc B /\ mmul A (top (nc A) B') = top (nr A) B)
  | None => False
  end.
Proof.
  intros HA HB HN. unfold pad. rewrite <- HN.
  exact (solve_verdict pluq_naive_id pluq_naive_id_spec trsm_lower_left trsm_upper_left trsm_ll_ok trsm_ul_ok
           cutoff A B HA HB HN).
Qed.

Theorem solve_nocheck_closed cutoff A B : wf A -> wf B -> nr B = Nat.max (nr A) (nc A) ->
  match solve_left_model cutoff false A B with
  | Some (ret, B') =>
      ret = 0%Z /\ wf B' /\ nr B' = nr B /\ nc B' = nc B /\
      ((exists X, wf X /\ nr X = nc A /\ mmul A X = top (nr A) B) ->
       mmul A (top (nc A) B') = top (nr A) B)
  | None => False
  end.
Proof.
  intros HA HB HN.
  exact (solve_nocheck pluq_naive_id pluq_naive_id_spec trsm_lower_left trsm_upper_left trsm_ll_ok trsm_ul_ok
           cutoff A B HA HB HN).
Qed.

(** the PLUQ entry point, handed any factorisation meeting the specification (in particular the one
    computed by any PLUQ routine of the library); B may have more rows than max(m, n): the wrapper
    mzd_pluq_solve_left does not check that, and the padding window then covers all rows >= m *)
Theorem pluq_solve_verdict_closed cutoff A r S P Q B :
  wf A -> pluq_spec A ((r, S), (P, Q)) -> wf B -> nr A <= nr B -> nc A <= nr B ->
  match pluq_solve_left_model cutoff true S r P Q B with
  | Some (ret, B') =>
      (ret = 0%Z \/ ret = (-1)%Z) /\
      (ret = 0%Z <-> exists X, wf X /\ nr X = nc A /\ nc X = nc B /\ mmul (padto (nr B) A) X = B) /\
      (ret = 0%Z -> wf B' /\ nr B' = nr B /\ nc B' = nc B /\ mmul A (top (nc A) B') = top (nr A) B)
  | None => False
  end.
Proof.
  intros HA [HSt HRe] HB Hm Hn.
  exact (pluq_solve_verdict trsm_lower_left trsm_upper_left trsm_ll_ok trsm_ul_ok cutoff A r S P Q HA HSt HRe
           B HB Hm Hn).
Qed.

Theorem pluq_solve_nocheck_closed cutoff A r S P Q B :
  wf A -> pluq_spec A ((r, S), (P, Q)) -> wf B -> nr A <= nr B -> nc A <= nr B ->
  match pluq_solve_left_model cutoff false S r P Q B with
  | Some (ret, B') =>
      ret = 0%Z /\ wf B' /\ nr B' = nr B /\ nc B' = nc B /\
      ((exists X, wf X /\ nr X = nc A /\ mmul A X = top (nr A) B) ->
       mmul A (top (nc A) B') = top (nr A) B)
  | None => False
  end.
Proof.
  intros HA [HSt HRe] HB Hm Hn.
  exact (pluq_solve_nocheck trsm_lower_left trsm_upper_left trsm_ll_ok trsm_ul_ok cutoff A r S P Q HA HSt HRe
           B HB Hm Hn).
Qed.

(** the die conditions of the wrappers (solve.c:31-37, :44-50) *)
Theorem solve_left_dies pluq tl tu pin cutoff A B check :
  nr B <> Nat.max (nr A) (nc A) -> solve_left pluq tl tu pin cutoff A B check = None.
Proof.
  intros Hne. unfold solve_left.
  destruct (Nat.ltb_spec (nr B) (nc A)) as [Hlt|Hge]; [reflexivity|].
  destruct (Nat.eqb_spec (nr B) (Nat.max (nc A) (nr A))) as [He|_]; [lia|reflexivity].
Qed.

Theorem pluq_solve_left_dies tl tu pin cutoff A r P Q B check :
  pluq_solve_left tl tu pin cutoff A r P Q B check = None <->
  nr B < nc A \/ length P <> nr A \/ length Q <> nc A.
Proof.
  unfold pluq_solve_left.
  destruct (Nat.ltb_spec (nr B) (nc A)), (Nat.eqb_spec (length P) (nr A)),
    (Nat.eqb_spec (length Q) (nc A)); cbn [negb]; split; try reflexivity; try discriminate; auto;
    intros [D|[D|D]]; lia.
Qed.

(** * the pinned (pre-fix) code is refuted: A = 2 x 4 with ones at (0,0), (1,1); B = 4 x 1 with a
    single one in the padding row 2 = A->nrows.  The system [A; 0; 0] X = B is unsolvable (row 2 reads
    0 = 1), the pinned code returns 0: its pre-check looks at rows >= A->nrows + 1 only and
    _mzd_pluq_solve_left cleared the padding rows unseen.  The current code returns -1. *)
Definition pin_A : mat := mk 2 4 [1%N; 2%N].
Definition pin_B : mat := mk 4 1 [0%N; 0%N; 1%N; 0%N].

Theorem solve_verdict_pinned_refuted :
  exists A B, wf A /\ wf B /\ nr B = Nat.max (nr A) (nc A) /\
    ~ (exists X, wf X /\ nr X = nc A /\ nc X = nc B /\ mmul (pad A) X = B) /\
    (exists B', solve_left_pinned 0 true A B = Some (0%Z, B')) /\
    (exists B', pluq_solve_left_pinned 0 true (snd (fst (pluq_naive_id A))) (fst (fst (pluq_naive_id A)))
                  (fst (snd (pluq_naive_id A))) (snd (snd (pluq_naive_id A))) B = Some (0%Z, B')) /\
    (exists B', solve_left_model 0 true A B = Some ((-1)%Z, B')).
Proof.
  exists pin_A, pin_B.
  split; [apply wfb_spec; vm_compute; reflexivity|].
  split; [apply wfb_spec; vm_compute; reflexivity|].
  split; [reflexivity|].
  split.
  - intros (X & HX & HrX & HcX & E).
    assert (G : get (mmul (pad pin_A) X) 2 0 = get pin_B 2 0) by now rewrite E.
    rewrite get_mmul in G by assumption.
    rewrite xsum_zero in G; [vm_compute in G; discriminate|].
    intros k _. replace (get (pad pin_A) 2 k) with false; [reflexivity|].
    unfold get. change (row (pad pin_A) 2) with 0%N. now rewrite N.bits_0.
  - split; [eexists; vm_compute; reflexivity|].
    split; [eexists; vm_compute; reflexivity|].
    eexists; vm_compute; reflexivity.
Qed.

(** the library route (_mzd_pluq = block recursion + column swaps): C06 holds for every PLE cutoff for
    which the recursive PLUQ model meets its specification (C03: proven for the non-recursive regime
    in PLEProofs3.v, exercised by correspondence otherwise).  Full statement = the same without the
    first hypothesis. *)
Theorem solve_verdict_cfg_partial ple_cutoff cutoff A B :
  (forall A, wf A -> pluq_spec A (pluq_rec_id ple_cutoff A)) ->
  wf A -> wf B -> nr B = Nat.max (nr A) (nc A) ->
  match solve_left_cfg ple_cutoff cutoff true A B with
  | Some (ret, B') =>
      (ret = 0%Z \/ ret = (-1)%Z) /\
      (ret = 0%Z <-> exists X, wf X /\ nr X = nc A /\ nc X = nc B /\ mmul (pad A) X = B) /\
      (ret = 0%Z -> wf B' /\ nr B' = nr B /\ nc B' = nc B /\ mmul A (top (nc A) B') = top (nr A) B)
  | None => False
  end.
Proof.
  intros Hp HA HB HN. unfold pad. rewrite <- HN.
  exact (solve_verdict (pluq_rec_id ple_cutoff) Hp trsm_lower_left trsm_upper_left trsm_ll_ok trsm_ul_ok
           cutoff A B HA HB HN).
Qed.

(** the same closed theorem with the faithful recursive TRSM models of m4ri/triangular.c (every build
    configuration [c]): they return the unique solution too (TRSMRecProofs.v) *)
From M4 Require Import Alg.TRSMRecProofs.

Lemma trsm_ll_rec_ok c cutoff : forall L B, wf L -> wf B -> nr L = nr B -> nc L = nr B ->
  let X := trsm_lower_left_rec c cutoff L B in
  wf X /\ nr X = nr B /\ nc X = nc B /\ mmul (unit_lower (nr B) L) X = B.
Proof.
  intros L B HL HB Hr Hc. cbn zeta.
  rewrite trsm_lower_left_rec_spec by (auto; rewrite wf_len by assumption; lia).
  exact (trsm_lower_left_spec L B HB).
Qed.
Lemma trsm_ul_rec_ok c cutoff : forall U B, wf U -> wf B -> nr U = nr B -> nc U = nr B ->
  let X := trsm_upper_left_rec c cutoff U B in
  wf X /\ nr X = nr B /\ nc X = nc B /\ mmul (unit_upper (nr B) U) X = B.
Proof.
  intros U B HU HB Hr Hc. cbn zeta.
  rewrite trsm_upper_left_rec_spec by (auto; rewrite wf_len by assumption; lia).
  exact (trsm_upper_left_spec U B HB).
Qed.

Theorem solve_verdict_rec_trsm (c : cfg) cutoff A B : wf A -> wf B -> nr B = Nat.max (nr A) (nc A) ->
  match solve_left pluq_naive_id (trsm_lower_left_rec c cutoff) (trsm_upper_left_rec c cutoff) false cutoff A B true with
  | Some (ret, B') =>
      (ret = 0%Z \/ ret = (-1)%Z) /\
      (ret = 0%Z <-> exists X, wf X /\ nr X = nc A /\ nc X = nc B /\ mmul (pad A) X = B) /\
      (ret = 0%Z -> wf B' /\ nr B' = nr B /\ nc B' = nc B /\ mmul A (top (nc A) B') = top (nr A) B)
  | None => False
  end.
Proof.
  intros HA HB HN. unfold pad. rewrite <- HN.
  exact (solve_verdict pluq_naive_id pluq_naive_id_spec _ _ (trsm_ll_rec_ok c cutoff) (trsm_ul_rec_ok c cutoff)
           cutoff A B HA HB HN).
Qed.
