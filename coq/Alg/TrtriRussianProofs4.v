(* Alg/TrtriRussianProofs4.v — C05, mzd_trtri_upper_russian, part 4: one pass of the main loop
   ([tr_block4_st]), the main loop ([tr_main_st]), the tail loop ([tr_tail_st]) and the result:

     [trtri_russian_from_seq]     for all stale tables:  trtri_upper_russian_from tabs0 k U = trtri_seq U
     [C05_trtri_russian_simple]   trtri_upper_russian k U = trtri_upper_simple U   (bit-identical)
     [.._gen]                     the same for every k >= 1 with k <= 16 or n < 4k
     [C05_trtri_russian_ok]       trtri_ok n U (trtri_upper_russian k U)

   for every 1 <= k <= 16 (4k <= m4ri_radix, see Alg/TrtriRussian.v), every n and every wf U with
   nr U = nc U = n and ones on the stored diagonal; the content below the diagonal is arbitrary. *)
From Coq Require Import List NArith PArith Arith Lia Bool FMapPositive ZArith ZifyBool ZifyNat ZifyN.
From M4 Require Import Base.Bits Lin.Mat Lin.MatAlg Lin.Ops Lin.OpsProofs Lin.Tri
  Alg.Gray Alg.GrayProofs Alg.TRSM Alg.TRSMProofs Alg.TRSMRec Alg.TRSMRecProofs
  Alg.TrtriRussian Alg.TrtriRussianProofs Alg.TrtriRussianProofs2 Alg.TrtriRussianProofs3.
Import ListNotations.
Local Open Scope nat_scope.
Ltac Zify.zify_post_hook ::= Z.div_mod_to_equations.

(** the four tables, usable with parameter k0 whatever they hold *)
Definition tabs_wf (k0 : nat) (tabs : list ptable) : Prop :=
  length tabs = TrtriRussian.ntables /\
  forall t, t < TrtriRussian.ntables -> tab_wf k0 (nth t tabs (fresh_table 0)).

Lemma tabs_wf_fresh k : tabs_wf k (repeat (fresh_table k) TrtriRussian.ntables).
Proof.
  split; [apply repeat_length|]. intros t Ht. unfold TrtriRussian.ntables in *.
  destruct t as [|[|[|[|t]]]]; try lia; cbn [repeat nth]; apply tab_wf_fresh.
Qed.

Lemma tabs_wf_upd k0 tabs i tb : tabs_wf k0 tabs -> tab_wf k0 tb -> tabs_wf k0 (upd i tb tabs).
Proof.
  intros [Hl Hw] Htb. split; [now rewrite upd_length|]. intros t Ht. rewrite OpsProofs.nth_upd.
  destruct ((t =? i) && (i <? length tabs)); [assumption|now apply Hw].
Qed.

(** the body of the (unrolled) loop over the four tables *)
Definition blk_step (k r : nat) : mat * list ptable -> nat -> mat * list ptable :=
  fun '(A, tabs) i =>
    let A' := tu_submatrix A (r + i * k) r k in
    let U := ple_to_e A' (r + i * k) (r + i * k) k in
    (A', upd i (make_table_trtri U (r + i * k) k (nth i tabs (fresh_table 0)) r) tabs).

Lemma tr_block4_unfold k A tabs r :
  tr_block4 k A tabs r =
  let '(A1, tabs1) := fold_left (blk_step k r) (seq 0 TrtriRussian.ntables) (A, tabs) in
  (process_rows_ple A1 0 r r k tabs1, tabs1).
Proof. reflexivity. Qed.

Section Loops.
  Variables (n : nat) (U : mat).
  Hypotheses (HU : wf U) (Hc : nc U = n) (Hd : diag_ones n U).

  Lemma blk_fold k k0 r : 1 <= k <= k0 -> TrtriRussian.ntables * k <= Gray.radix ->
    r + TrtriRussian.ntables * k <= n ->
    forall m, m <= TrtriRussian.ntables -> forall A tabs, st n U r r A -> tabs_wf k0 tabs ->
    let '(A', tabs') := fold_left (blk_step k r) (seq 0 m) (A, tabs) in
    st n U r (r + m * k) A' /\ tabs_wf k0 tabs' /\
    forall t, t < m -> tab_ok n U (r + t * k) k r (nth t tabs' (fresh_table 0)).
  Proof.
    intros Hk H64 Hn. unfold TrtriRussian.ntables in *.
    induction m as [|m IH]; intros Hm A tabs Hst Hwf.
    - cbn [seq fold_left]. rewrite Nat.mul_0_l, Nat.add_0_r. split; [exact Hst|]. split; [exact Hwf|].
      intros t Ht. lia.
    - rewrite seq_S, fold_left_app. cbn [Nat.add fold_left].
      specialize (IH ltac:(lia) A tabs Hst Hwf).
      destruct (fold_left (blk_step k r) (seq 0 m) (A, tabs)) as [A1 tabs1].
      destruct IH as (Hst1 & Hwf1 & Hok1). cbn [blk_step].
      set (p := r + m * k).
      assert (Hst2 : st n U r (p + k) (tu_submatrix A1 p r k)).
      { apply tu_submatrix_st; [assumption|unfold p; lia|unfold p; nia]. }
      destruct (make_table_ok n U HU Hc r p k k0 r (tu_submatrix A1 p r k) (nth m tabs1 (fresh_table 0)))
        as [Hok2 Hwf2]; try assumption; try (unfold p; nia);
        try (unfold p, Gray.radix in *; assert (m * k < 64) by nia; lia).
      { apply Hwf1. unfold TrtriRussian.ntables. lia. }
      split; [|split].
      + replace (r + S m * k) with (p + k) by (unfold p; lia). exact Hst2.
      + now apply tabs_wf_upd.
      + intros t Ht. rewrite OpsProofs.nth_upd. destruct Hwf1 as [Hl1 _]. rewrite Hl1. unfold TrtriRussian.ntables.
        destruct (Nat.eqb_spec t m) as [->|Hne].
        * destruct (Nat.ltb_spec m 4); [|lia]. cbn [andb]. exact Hok2.
        * cbn [andb]. apply Hok1. lia.
  Qed.

  (** one pass of the main loop *)
  Lemma tr_block4_st k k0 r A tabs : 1 <= k <= k0 -> TrtriRussian.ntables * k <= Gray.radix ->
    r + TrtriRussian.ntables * k <= n -> st n U r r A -> tabs_wf k0 tabs ->
    let '(A', tabs') := tr_block4 k A tabs r in
    st n U (r + TrtriRussian.ntables * k) (r + TrtriRussian.ntables * k) A' /\ tabs_wf k0 tabs'.
  Proof.
    intros Hk H64 Hn Hst Hwf. rewrite tr_block4_unfold.
    pose proof (blk_fold k k0 r Hk H64 Hn TrtriRussian.ntables (le_n _) A tabs Hst Hwf) as H.
    destruct (fold_left (blk_step k r) (seq 0 TrtriRussian.ntables) (A, tabs)) as [A1 tabs1].
    destruct H as (Hst1 & Hwf1 & Hok1). split; [|assumption].
    destruct Hst1 as (Hr1 & Hc1 & Hl1 & Hrow1). destruct Hwf1 as [Hlt _].
    unfold TrtriRussian.ntables in *. set (kk := 4 * k) in *.
    unfold process_rows_ple. rewrite Hc1, Hlt. fold kk.
    split; [now rewrite nr_map_rows|]. split; [now rewrite nc_map_rows|]. split; [now rewrite len_map_rows|].
    intros j Hj. rewrite row_map_rows, Hl1. destruct (Nat.ltb_spec j n); [|lia].
    destruct (Nat.ltb_spec j (r + kk)).
    2:{ destruct (Nat.ltb_spec j r); [lia|]. rewrite andb_false_r. rewrite Hrow1 by assumption.
        destruct (Nat.ltb_spec j r); [lia|]. reflexivity. }
    destruct (Nat.leb_spec 0 j); [|lia]. cbn [andb]. destruct (Nat.ltb_spec j r).
    - pose proof (process_rows_ple_row n U HU Hc Hd k r tabs1 (row A1 j)) as Hrow.
      rewrite Hlt in Hrow. fold kk in Hrow. rewrite Hrow by assumption.
      rewrite Hrow1 by assumption. destruct (Nat.ltb_spec j r); [|lia].
      replace (r + kk - S j) with ((r - S j) + kk) by lia. rewrite pv_app.
      replace (S j + (r - S j)) with r by lia. reflexivity.
    - rewrite Hrow1 by assumption. destruct (Nat.ltb_spec j r); [lia|]. reflexivity.
  Qed.

  (** the main loop *)
  Lemma tr_main_st k k0 : 1 <= k <= k0 ->
    TrtriRussian.ntables * k <= Gray.radix \/ n < TrtriRussian.ntables * k ->
    forall fuel A tabs r, st n U r r A -> tabs_wf k0 tabs -> r <= n ->
    let '(A', tabs', r') := tr_main fuel k A tabs r in
    st n U r' r' A' /\ tabs_wf k0 tabs' /\ r' <= n.
  Proof.
    intros Hk H64. induction fuel as [|f IH]; intros A tabs r Hst Hwf Hr; cbn [tr_main].
    - auto.
    - pose proof Hst as (HrA & _). rewrite HrA.
      destruct (Nat.leb_spec (r + TrtriRussian.ntables * k) n) as [Hle|Hgt]; [|auto].
      assert (H64' : TrtriRussian.ntables * k <= Gray.radix) by (destruct H64; lia).
      pose proof (tr_block4_st k k0 r A tabs Hk H64' Hle Hst Hwf) as H.
      destruct (tr_block4 k A tabs r) as [A' tabs']. destruct H as [Hst' Hwf'].
      apply IH; assumption.
  Qed.

  (** the tail loop *)
  Lemma tr_tail_st k0 : forall fuel k A tabs r, 1 <= k <= k0 -> st n U r r A -> tabs_wf k0 tabs ->
    r <= n -> n - r <= fuel -> st n U n n (tr_tail fuel k A tabs r).
  Proof.
    induction fuel as [|f IH]; intros k A tabs r Hk Hst Hwf Hr Hf; cbn [tr_tail].
    - assert (E : r = n) by lia. subst r. exact Hst.
    - pose proof Hst as (HrA & _). rewrite HrA.
      destruct (Nat.ltb_spec r n) as [Hlt|Hge]; [|assert (E : r = n) by lia; subst r; exact Hst].
      set (k' := if n - r <? k then n - r else k).
      assert (Hk' : 1 <= k' <= k /\ r + k' <= n) by (unfold k'; destruct (Nat.ltb_spec (n - r) k); lia).
      assert (Hst1 : st n U r (r + k') (tu_submatrix A r r k')) by (apply tu_submatrix_st; [assumption|lia|lia]).
      set (A1 := tu_submatrix A r r k') in *.
      destruct (make_table_ok n U HU Hc r r k' k0 r A1 (nth 0 tabs (fresh_table 0)))
        as [Hok Hwft]; try assumption; try lia.
      { apply Hwf. unfold TrtriRussian.ntables. lia. }
      set (t0 := make_table_trtri (ple_to_e A1 r r k') r k' (nth 0 tabs (fresh_table 0)) r) in *.
      apply IH; try lia.
      + destruct Hst1 as (Hr1 & Hc1 & Hl1 & Hrow1).
        unfold process_rows. rewrite Hc1.
        split; [now rewrite nr_map_rows|]. split; [now rewrite nc_map_rows|]. split; [now rewrite len_map_rows|].
        intros j Hj. rewrite row_map_rows, Hl1. destruct (Nat.ltb_spec j n); [|lia].
        destruct (Nat.ltb_spec j (r + k')).
        2:{ destruct (Nat.ltb_spec j r); [lia|]. rewrite andb_false_r. rewrite Hrow1 by assumption.
            destruct (Nat.ltb_spec j r); [lia|]. reflexivity. }
        destruct (Nat.leb_spec 0 j); [|lia]. cbn [andb]. destruct (Nat.ltb_spec j r).
        * rewrite (process_rows_row n U HU Hc Hd k' r t0 _ (row A1 j) Hok) by lia.
          rewrite Hrow1 by assumption. destruct (Nat.ltb_spec j r); [|lia].
          replace (r + k' - S j) with ((r - S j) + k') by lia. rewrite pv_app.
          replace (S j + (r - S j)) with r by lia. reflexivity.
        * rewrite Hrow1 by assumption. destruct (Nat.ltb_spec j r); [lia|]. reflexivity.
      + now apply tabs_wf_upd.
  Qed.

  (** the routine, from arbitrary (stale) tables *)
  Theorem trtri_russian_from_seq k tabs0 : 1 <= k ->
    TrtriRussian.ntables * k <= Gray.radix \/ n < TrtriRussian.ntables * k -> nr U = n ->
    tabs_wf k tabs0 -> trtri_upper_russian_from tabs0 k U = trtri_seq U.
  Proof.
    intros Hk H64 Hr Hwf. unfold trtri_upper_russian_from.
    pose proof (tr_main_st k k ltac:(lia) H64 (nr U) U tabs0 0 (st_init n U HU Hr Hc) Hwf ltac:(lia)) as H.
    destruct (tr_main (nr U) k U tabs0 0) as [[A1 tabs1] r1]. destruct H as (Hst1 & Hwf1 & Hr1).
    pose proof (tr_tail_st k (nr U) k A1 tabs1 r1 ltac:(lia) Hst1 Hwf1 Hr1 ltac:(lia)) as (HrA & HcA & HlA & Hrow).
    set (A2 := tr_tail (nr U) k A1 tabs1 r1) in *.
    destruct A2 as [ra ca la]. cbn [nr nc rows] in *. unfold trtri_seq. cbn zeta. rewrite Hr, Hc, HrA, HcA.
    f_equal. apply (list_ext_nth 0%N); [now rewrite map_length, seq_length|].
    intros j Hj. rewrite HlA in Hj. specialize (Hrow j Hj). unfold row in Hrow at 1. cbn [rows] in Hrow.
    rewrite Hrow. rewrite (nth_map_default _ _ _ 0) by now rewrite seq_length.
    rewrite seq_nth by assumption. cbn [Nat.add]. now destruct (j <? n).
  Qed.
End Loops.

(** * the result *)
(** the domain of k: 4k <= m4ri_radix, or the matrix has fewer than 4k rows (the main loop with its
    four-table look-ups never runs; mzd_process_rows of the tail has no limit on k).  The bound cannot be
    dropped for the model as it stands (B truncated to 64 bits like the C array): for k = 17 and a dense
    140 x 140 matrix [trtri_upper_russian 17 U] differs from [trtri_upper_simple U] (evaluated with
    vm_compute outside the build: 2^17-row tables, 7 GB); the C code itself is undefined there
    (mzd_read_bits of 68 bits). *)
Theorem C05_trtri_russian_from_simple_gen k n U tabs0 : 1 <= k -> k <= 16 \/ n < 4 * k ->
  wf U -> nr U = n -> nc U = n -> diag_ones n U -> tabs_wf k tabs0 ->
  trtri_upper_russian_from tabs0 k U = trtri_upper_simple U.
Proof.
  intros Hk Hdom HU Hr Hc Hd Hwf.
  rewrite (trtri_russian_from_seq n U HU Hc Hd k tabs0); auto.
  - now apply (trtri_seq_simple n).
  - unfold TrtriRussian.ntables, Gray.radix. lia.
Qed.

Theorem C05_trtri_russian_from_simple k n U tabs0 : 1 <= k <= 16 ->
  wf U -> nr U = n -> nc U = n -> diag_ones n U -> tabs_wf k tabs0 ->
  trtri_upper_russian_from tabs0 k U = trtri_upper_simple U.
Proof. intros Hk. apply C05_trtri_russian_from_simple_gen; lia. Qed.

Theorem C05_trtri_russian_simple_gen k n U : 1 <= k -> k <= 16 \/ n < 4 * k ->
  wf U -> nr U = n -> nc U = n -> diag_ones n U ->
  trtri_upper_russian k U = trtri_upper_simple U.
Proof.
  intros Hk Hdom HU Hr Hc Hd. unfold trtri_upper_russian.
  apply (C05_trtri_russian_from_simple_gen k n); auto. apply tabs_wf_fresh.
Qed.

Theorem C05_trtri_russian_simple k n U : 1 <= k <= 16 ->
  wf U -> nr U = n -> nc U = n -> diag_ones n U ->
  trtri_upper_russian k U = trtri_upper_simple U.
Proof. intros Hk. apply C05_trtri_russian_simple_gen; lia. Qed.

Theorem C05_trtri_russian_ok k n U : 1 <= k <= 16 ->
  wf U -> nr U = n -> nc U = n -> diag_ones n U -> trtri_ok n U (trtri_upper_russian k U).
Proof.
  intros Hk HU Hr Hc Hd. rewrite (C05_trtri_russian_simple k n) by assumption.
  now apply trtri_upper_simple_ok.
Qed.

(** non-vacuity: a 9 x 9 storage matrix with garbage below the diagonal; k = 1: two passes of the main
    loop and one of the tail; k = 2: one pass of the main loop; k = 3: the tail only (9 < 12) *)
Definition U9 : mat := mk 9 9 [0x1b5; 0x0a7; 0x1cd; 0x15a; 0x0b6; 0x1e5; 0x14f; 0x0b3; 0x1aa]%N.

Example C05_trtri_russian_hyps :
  wf U9 /\ nr U9 = 9 /\ nc U9 = 9 /\ diag_ones 9 U9 /\ get U9 8 1 = true /\
  tabs_wf 2 (repeat (fresh_table 2) TrtriRussian.ntables) /\
  trtri_upper_russian 1 U9 = trtri_upper_simple U9 /\
  trtri_upper_russian 2 U9 = trtri_upper_simple U9 /\
  trtri_upper_russian 3 U9 = trtri_upper_simple U9 /\
  get (trtri_upper_simple U9) 0 3 <> get U9 0 3.
Proof.
  split; [apply wfb_spec; vm_compute; reflexivity|]. split; [reflexivity|]. split; [reflexivity|].
  split.
  { intros i Hi. assert (E : forallb (fun i => get U9 i i) (seq 0 9) = true) by (vm_compute; reflexivity).
    rewrite forallb_forall in E. apply E. apply in_seq. lia. }
  split; [vm_compute; reflexivity|]. split; [apply tabs_wf_fresh|].
  split; [vm_compute; reflexivity|]. split; [vm_compute; reflexivity|]. split; [vm_compute; reflexivity|].
  vm_compute. discriminate.
Qed.
