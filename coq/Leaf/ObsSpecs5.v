(* Leaf/ObsSpecs5.v — the observers mzd_is_zero, mzd_first_zero_row, mzd_equal, mzd_cmp of m4ri/mzd.c, TRANSLATED
   from the C text (Leaf/Gen_observers.v) and run by the CMini interpreter, against the MATRIX model of Lin/Ops.v:

       C text (CMini)  =  word-level model Word/WOps.v, WOps2.v    (Leaf/ObsSpecs.v .. ObsSpecs4.v)
       word-level model = Lin/Ops.v on [abs h mem]                 (Word/WRefine7.v, WRefine8.v, WRefine14.v)

   [h : hdr] are the members of mzd_t ([h_off] = offset of M->data in the word array: any window), [mem] is the
   whole word array, [abs h mem : mat] the matrix it represents.  The right-hand sides depend on [abs h mem] only:
   the bits of the parent beyond ncols in the last word of a row, the words between the rows and everything
   outside a window do NOT influence the result; and the array is unchanged ([words mem] again).
   Domain: [valid] (header consistent, rows inside the array, words < 2^64), [c_dom] (members fit their C types,
   array shorter than 2^48 words), at least one column (for ncols = 0 the C code reads row[-1]). *)
From Coq Require Import ZArith NArith List String Bool Lia ZifyBool ZifyNat ZifyN.
From M4 Require Import Base.Bits Lin.Mat Lin.Ops Lin.Observers Word.WMat Word.WMatLemmas Word.WOps Word.WOps2
  Word.WRefine7 Word.WRefine8 Word.WRefine14
  Leaf.CMini Leaf.CMiniAcc Leaf.CMiniObs Leaf.AccessSpecs Leaf.Gen_observers
  Leaf.ObsSpecs Leaf.ObsSpecs2 Leaf.ObsSpecs3 Leaf.ObsSpecs4.
Import ListNotations.
Local Open Scope Z_scope.

Theorem mzd_is_zero_spec h fl mem :
  valid h mem -> c_dom h fl mem -> (0 < h_ncols h)%nat ->
  run_obs "mzd_is_zero" (hbundle h fl []) (words mem) = Ok (Some (Z.b2z (is_zero (abs h mem))), words mem).
Proof.
  intros Hv Hd Hc. apply obs_is_zero_w; try assumption.
  - apply width_pos_of_ncols; [now apply (valid_hdr_ok h mem)|assumption].
  - now apply w_is_zero_ok.
Qed.

Theorem mzd_first_zero_row_spec h fl mem :
  valid h mem -> c_dom h fl mem -> (0 < h_ncols h)%nat ->
  run_obs "mzd_first_zero_row" (hbundle h fl []) (words mem) =
  Ok (Some (Z.of_nat (first_zero_row (abs h mem))), words mem).
Proof.
  intros Hv Hd Hc. apply obs_first_zero_row_w; try assumption.
  - apply width_pos_of_ncols; [now apply (valid_hdr_ok h mem)|assumption].
  - now apply w2_first_zero_row_ok.
Qed.

(** mzd_equal: [same] is the truth value of the C test `A == B` (are A and B the same mzd_t object?); identical
    objects have identical members, nothing else is assumed about it *)
Theorem mzd_equal_spec hA flA hB flB mem (same : bool) :
  valid hA mem -> valid hB mem -> c_dom hA flA mem -> c_dom hB flB mem -> (0 < h_ncols hA)%nat ->
  (same = true -> hA = hB) ->
  run_obs "mzd_equal" (hbundle hA flA (hbundle hB flB [Vint (Z.b2z same)])) (words mem) =
  Ok (Some (Z.b2z (mequal (abs hA mem) (abs hB mem))), words mem).
Proof.
  intros HvA HvB HdA HdB Hc Hsame.
  assert (Hw : (0 < h_width hA)%nat) by (apply width_pos_of_ncols; [now apply (valid_hdr_ok hA mem)|assumption]).
  destruct (Nat.eq_dec (h_nrows hA) (h_nrows hB)) as [En|Nn].
  2: { rewrite obs_equal_early by (left; exact Nn). unfold mequal. rewrite !nr_abs.
       destruct (Nat.eqb_spec (h_nrows hA) (h_nrows hB)); [contradiction|reflexivity]. }
  destruct (Nat.eq_dec (h_ncols hA) (h_ncols hB)) as [Ec|Nc].
  2: { rewrite obs_equal_early by (right; left; exact Nc). unfold mequal. rewrite !nr_abs, !nc_abs.
       destruct (Nat.eqb_spec (h_ncols hA) (h_ncols hB)); [contradiction|]. now rewrite andb_false_r. }
  destruct same.
  { rewrite obs_equal_early by (right; right; discriminate). rewrite En, Ec, !Nat.eqb_refl. cbn [andb].
    rewrite (Hsame eq_refl). replace (mequal (abs hB mem) (abs hB mem)) with true; [reflexivity|].
    symmetry. now apply mequal_eq. }
  cbn [Z.b2z]. destruct (hdr_eqb hA hB) eqn:Eh.
  - apply hdr_eqb_eq in Eh. subst hB.
    rewrite (obs_equal_scan_w hA flA hA flB mem None) by (auto using w_equal_scan_refl).
    cbn [opt_default]. replace (mequal (abs hA mem) (abs hA mem)) with true; [reflexivity|].
    symmetry. now apply mequal_eq.
  - pose proof (w_equal_ok hA hB mem HvA HvB Hc) as Hok. rewrite w_equal_unfold in Hok by assumption.
    destruct (bind_inv _ _ _ Hok) as (r & Hscan & Hr). injection Hr as Hr.
    rewrite (obs_equal_scan_w hA flA hB flB mem r) by assumption. now rewrite Hr.
Qed.

(** mzd_cmp: -1 / 0 / 1 for Lt / Eq / Gt of the matrix-level comparison *)
Theorem mzd_cmp_spec hA flA hB flB mem :
  valid hA mem -> valid hB mem -> c_dom hA flA mem -> c_dom hB flB mem -> (0 < h_ncols hA)%nat ->
  run_obs "mzd_cmp" (hbundle hA flA (hbundle hB flB [])) (words mem) =
  Ok (Some (cz (mcmp (abs hA mem) (abs hB mem))), words mem).
Proof.
  intros HvA HvB HdA HdB Hc. apply obs_cmp_w; try assumption.
  - apply width_pos_of_ncols; [now apply (valid_hdr_ok hA mem)|assumption].
  - now apply w_cmp_ok.
Qed.

(** the hypotheses are satisfiable: two 3 x 70 windows (rows 1..3 and 0..2, columns 64..133) of a 6 x 200 matrix *)
Example obs_dom_example :
  let hA := window_hdr (init_hdr 6 200) 1 64 4 134 in
  let hB := window_hdr (init_hdr 6 200) 0 64 3 134 in
  let mem := repeat 0%N 30 in
  valid hA mem /\ valid hB mem /\ c_dom hA 4 mem /\ c_dom hB 4 mem /\ (0 < h_ncols hA)%nat /\
  h_off hA = 5%nat /\ h_off hB = 1%nat /\ (false = true -> hA = hB).
Proof.
  cbv zeta. split; [apply validb_spec; reflexivity|]. split; [apply validb_spec; reflexivity|].
  split; [unfold c_dom; cbn; lia|]. split; [unfold c_dom; cbn; lia|]. split; [cbn; lia|].
  split; [reflexivity|]. split; [reflexivity|]. discriminate.
Qed.
