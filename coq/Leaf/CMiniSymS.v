(* Leaf/CMiniSymS.v — a second symbolic instance of the CMini interpreter with SPARSE affine forms.

   Same design as Leaf/CMiniSym.v (a symbolic value is a concrete integer [SC z] or a list of bit-level
   affine forms over the input bits [SS l]), but the set of input bits of a form is a list of variable
   indices (N) instead of one big N used as a bit set.  The transpose kernels of mzd.c move single bits
   around (every intermediate form has at most three variables) over up to 4096 + 64*|dst| input bits:
   with dense bit sets one 64x64 run costs seconds, with sparse forms milliseconds, which makes the sweep
   over all 63 x 63 size classes of the small kernels affordable.

   [fxor] is a merge of sorted lists that cancels equal heads; soundness ([evalf_fxor]) does not need
   sortedness.  [fis0]/[fis1] are syntactic (empty variable list), hence sound but only complete on
   canonical (sorted, duplicate-free) forms — all forms built from [fvar] by [fxor] are canonical.

   [sym_sound]: if the symbolic run succeeds, then for EVERY assignment rho of the input bits the
   concrete C semantics on the denoted values succeeds with the denoted result. *)
From Coq Require Import ZArith NArith List String Bool Lia.
From M4 Require Import Leaf.CMini Leaf.CMiniSim.
Import ListNotations.
Local Open Scope Z_scope.

Record form := F { fc : bool; fv : list N }.
Definition fzero := F false [].
Definition fone := F true [].
Definition fvar (k : N) := F false [k].

(** symmetric difference of (sorted) lists: equal heads cancel *)
Fixpoint lxor (a : list N) : list N -> list N :=
  fix aux (b : list N) : list N :=
    match a, b with
    | [], _ => b
    | _, [] => a
    | x :: a', y :: b' =>
        match N.compare x y with
        | Eq => lxor a' b'
        | Lt => x :: lxor a' b
        | Gt => y :: aux b'
        end
    end.

Definition fxor (a b : form) := F (xorb (fc a) (fc b)) (lxor (fv a) (fv b)).
Definition fis0 (a : form) := negb (fc a) && match fv a with [] => true | _ => false end.
Definition fis1 (a : form) := fc a && match fv a with [] => true | _ => false end.
Definition fand (a b : form) : option form :=
  if fis0 a || fis0 b then Some fzero
  else if fis1 a then Some b else if fis1 b then Some a else None.
Definition for_ (a b : form) : option form :=
  if fis0 a then Some b else if fis0 b then Some a
  else if fis1 a || fis1 b then Some fone else None.
Definition fxor' (a b : form) : option form := Some (fxor a b).

Inductive sval := SC (z : Z) | SS (l : list form).

Definition bitf (v : sval) (i : nat) : form :=
  match v with
  | SC z => F (Z.testbit z (Z.of_nat i)) []
  | SS l => nth i l fzero
  end.

Fixpoint sequence {A} (l : list (option A)) : option (list A) :=
  match l with
  | [] => Some []
  | None :: _ => None
  | Some a :: r => match sequence r with Some r' => Some (a :: r') | None => None end
  end.

Definition wnat (t : ity) : nat := Z.to_nat (wbits (wd t)).

Definition s_bitwise (g : form -> form -> option form) (t : ity) (a b : sval) : res sval :=
  if signed t then UB "symbolic: bitwise operation on data at a signed type"
  else match sequence (map (fun i => g (bitf a i) (bitf b i)) (seq 0 (wnat t))) with
       | Some l => Ok (SS l)
       | None => UB "symbolic: result bit is not an affine form of the input bits"
       end.

Definition s_binop (op : binop) (t : ity) (a b : sval) : res sval :=
  match a, b with
  | SC x, SC y => do r <- c_binop op t x y; Ok (SC r)
  | _, _ =>
      match op with
      | Oand => s_bitwise fand t a b
      | Oor => s_bitwise for_ t a b
      | Oxor => s_bitwise fxor' t a b
      | _ => UB "symbolic: arithmetic on data"
      end
  end.

Definition s_unop (op : unop) (t : ity) (a : sval) : res sval :=
  match a with
  | SC x => do r <- c_unop op t x; Ok (SC r)
  | SS _ => UB "symbolic: unary operator on data"
  end.

Definition s_shift (op : shop) (t : ity) (a : sval) (n : Z) : res sval :=
  match a with
  | SC x => do r <- c_shift op t x n; Ok (SC r)
  | SS l =>
      if signed t || (n <? 0) then UB "symbolic: shift of data at a signed type"
      else match op with
           | Oshl => Ok (SS (map (fun i => if (Z.of_nat i <? n) then fzero
                                           else nth (i - Z.to_nat n) l fzero) (seq 0 (wnat t))))
           | Oshr => Ok (SS (skipn (Z.to_nat n) l))
           end
  end.

Definition s_cast (t : ity) (a : sval) : res sval :=
  match a with
  | SC x => Ok (SC (convert t x))
  | SS l => if signed t then UB "symbolic: conversion of data to a signed type"
            else Ok (SS (map (fun i => nth i l fzero) (seq 0 (wnat t))))
  end.

Definition s_ctl (a : sval) : res Z :=
  match a with
  | SC z => Ok z
  | SS _ => UB "symbolic: control depends on data"
  end.

Definition sops0 : vops sval := {|
  v_const := SC;
  v_ctl := s_ctl;
  v_unop := s_unop;
  v_binop := s_binop;
  v_shift := s_shift;
  v_cast := s_cast |}.

(** * Linear-time versions of the word operations (the definitions above index every bit with [nth],
    which is quadratic in the width); [sops] uses these, the soundness proofs go through the
    equalities [q_*_eq]. *)
Fixpoint take (w : nat) (l : list form) : list form :=
  match w with
  | O => []
  | S w' => match l with
            | [] => fzero :: take w' []
            | x :: r => x :: take w' r
            end
  end.

Fixpoint zbits (z : Z) (w : nat) : list form :=
  match w with
  | O => []
  | S w' => F (Z.odd z) [] :: zbits (Z.div2 z) w'
  end.

Definition bl (v : sval) (w : nat) : list form :=
  match v with
  | SC z => zbits z w
  | SS l => take w l
  end.

Fixpoint map2 {A B C} (g : A -> B -> C) (a : list A) (b : list B) : list C :=
  match a, b with
  | x :: a', y :: b' => g x y :: map2 g a' b'
  | _, _ => []
  end.

Lemma take_eq w l : take w l = map (fun i => nth i l fzero) (seq 0 w).
Proof.
  revert l; induction w as [|w IH]; intros l; [reflexivity|].
  cbn [take seq map]. rewrite <- seq_shift, map_map. destruct l as [|x r].
  - f_equal. rewrite IH. apply map_ext. intros i. now destruct i.
  - f_equal. apply IH.
Qed.

Lemma zbits_eq z w : zbits z w = map (fun i => F (Z.testbit z (Z.of_nat i)) []) (seq 0 w).
Proof.
  revert z; induction w as [|w IH]; intros z; [reflexivity|].
  cbn [zbits seq map]. rewrite <- seq_shift, map_map. f_equal.
  rewrite IH. apply map_ext. intros i. f_equal.
  rewrite Z.div2_spec, Z.shiftr_spec by lia. f_equal. lia.
Qed.

Lemma bl_eq v w : bl v w = map (fun i => bitf v i) (seq 0 w).
Proof. destruct v; [apply zbits_eq|apply take_eq]. Qed.

Lemma map2_map {A B C D} (g : A -> B -> C) (f : D -> A) (f' : D -> B) l :
  map2 g (map f l) (map f' l) = map (fun i => g (f i) (f' i)) l.
Proof. induction l; cbn; congruence. Qed.

Definition q_bitwise (g : form -> form -> option form) (t : ity) (a b : sval) : res sval :=
  if signed t then UB "symbolic: bitwise operation on data at a signed type"
  else match sequence (map2 g (bl a (wnat t)) (bl b (wnat t))) with
       | Some l => Ok (SS l)
       | None => UB "symbolic: result bit is not an affine form of the input bits"
       end.

Lemma q_bitwise_eq g t a b : q_bitwise g t a b = s_bitwise g t a b.
Proof. unfold q_bitwise, s_bitwise. now rewrite !bl_eq, map2_map. Qed.

Definition q_binop (op : binop) (t : ity) (a b : sval) : res sval :=
  match a, b with
  | SC x, SC y => do r <- c_binop op t x y; Ok (SC r)
  | _, _ =>
      match op with
      | Oand => q_bitwise fand t a b
      | Oor => q_bitwise for_ t a b
      | Oxor => q_bitwise fxor' t a b
      | _ => UB "symbolic: arithmetic on data"
      end
  end.

Lemma q_binop_eq op t a b : q_binop op t a b = s_binop op t a b.
Proof. unfold q_binop, s_binop. destruct a, b, op; try reflexivity; apply q_bitwise_eq. Qed.

Definition q_shift (op : shop) (t : ity) (a : sval) (n : Z) : res sval :=
  match a with
  | SC x => do r <- c_shift op t x n; Ok (SC r)
  | SS l =>
      if signed t || (n <? 0) then UB "symbolic: shift of data at a signed type"
      else match op with
           | Oshl => Ok (SS (take (wnat t) (repeat fzero (Z.to_nat n) ++ l)))
           | Oshr => Ok (SS (skipn (Z.to_nat n) l))
           end
  end.

Lemma q_shift_eq op t a n : q_shift op t a n = s_shift op t a n.
Proof.
  unfold q_shift, s_shift. destruct a as [x|l]; [reflexivity|].
  destruct (signed t); [reflexivity|]. cbn [orb]. destruct (Z.ltb_spec n 0) as [Hn|Hn]; [reflexivity|].
  destruct op; [|reflexivity]. do 2 f_equal. rewrite take_eq. apply map_ext. intros i.
  destruct (Z.ltb_spec (Z.of_nat i) n) as [Hlt|Hge].
  - rewrite app_nth1 by (rewrite repeat_length; lia).
    apply nth_repeat.
  - rewrite app_nth2 by (rewrite repeat_length; lia). now rewrite repeat_length.
Qed.

Definition q_cast (t : ity) (a : sval) : res sval :=
  match a with
  | SC x => Ok (SC (convert t x))
  | SS l => if signed t then UB "symbolic: conversion of data to a signed type"
            else Ok (SS (take (wnat t) l))
  end.

Lemma q_cast_eq t a : q_cast t a = s_cast t a.
Proof. unfold q_cast, s_cast. destruct a; [reflexivity|]. now rewrite take_eq. Qed.

Definition sops : vops sval := {|
  v_const := SC;
  v_ctl := s_ctl;
  v_unop := s_unop;
  v_binop := q_binop;
  v_shift := q_shift;
  v_cast := q_cast |}.


(** * Denotation under an assignment of the input bits *)
Fixpoint bitsZ (bs : list bool) : Z :=
  match bs with
  | [] => 0
  | b :: r => Z.b2z b + 2 * bitsZ r
  end.

Lemma bitsZ_nonneg bs : 0 <= bitsZ bs.
Proof. induction bs as [|[] r IH]; cbn [bitsZ Z.b2z]; lia. Qed.

Lemma bitsZ_testbit bs i : 0 <= i -> Z.testbit (bitsZ bs) i = nth (Z.to_nat i) bs false.
Proof.
  revert i; induction bs as [|b r IH]; intros i Hi; cbn [bitsZ].
  - rewrite Z.testbit_0_l. now destruct (Z.to_nat i).
  - rewrite Z.add_comm. destruct (Z.eq_dec i 0) as [->|Hne].
    + now rewrite Z.testbit_0_r.
    + replace i with (Z.succ (i - 1)) by lia. rewrite Z.testbit_succ_r by lia.
      rewrite IH by lia. replace (Z.to_nat (Z.succ (i - 1))) with (S (Z.to_nat (i - 1))) by lia.
      reflexivity.
Qed.

Lemma bits_eq_mod (w : nat) x bs :
  List.length bs = w ->
  (forall i, (i < w)%nat -> Z.testbit x (Z.of_nat i) = nth i bs false) ->
  bitsZ bs = x mod 2 ^ Z.of_nat w.
Proof.
  intros Hl H. apply Z.bits_inj'. intros n Hn. rewrite bitsZ_testbit by assumption.
  destruct (Z.lt_ge_cases n (Z.of_nat w)) as [Hlt|Hge].
  - rewrite Z.mod_pow2_bits_low by lia. rewrite <- H by lia. f_equal. lia.
  - rewrite Z.mod_pow2_bits_high by lia. apply nth_overflow. lia.
Qed.

Lemma bits_eq (x : Z) bs :
  0 <= x ->
  (forall i, Z.testbit x (Z.of_nat i) = nth i bs false) ->
  bitsZ bs = x.
Proof.
  intros Hx H. apply Z.bits_inj'. intros n Hn. rewrite bitsZ_testbit by assumption.
  rewrite <- H. f_equal. lia.
Qed.

Lemma sequence_some {A} (l : list (option A)) l' d :
  sequence l = Some l' ->
  List.length l' = List.length l /\ forall i, (i < List.length l)%nat -> nth i l None = Some (nth i l' d).
Proof.
  revert l'; induction l as [|[a|] r IH]; intros l' H; cbn [sequence] in H; try discriminate.
  - inversion H; subst. split; [reflexivity|]. cbn. intros; lia.
  - destruct (sequence r) as [r'|]; [|discriminate]. inversion H; subst.
    destruct (IH _ eq_refl) as [Hl Hn]. split; [cbn; now rewrite Hl|].
    intros [|i] Hi; cbn; [reflexivity|]. apply Hn. cbn in Hi. lia.
Qed.

Section Den.
  Variable rho : N -> bool.

  Fixpoint xs (l : list N) : bool :=
    match l with
    | [] => false
    | k :: r => xorb (rho k) (xs r)
    end.

  Definition evalf (f : form) : bool := xorb (fc f) (xs (fv f)).

  Definition den (v : sval) : Z :=
    match v with
    | SC z => z
    | SS l => bitsZ (map evalf l)
    end.

  Lemma evalf_const b : evalf (F b []) = b.
  Proof. unfold evalf; cbn. now destruct b. Qed.

  Lemma evalf_fzero : evalf fzero = false.
  Proof. apply evalf_const. Qed.

  Lemma lxor_nil_l b : lxor [] b = b.
  Proof. destruct b; reflexivity. Qed.
  Lemma lxor_nil_r a : lxor a [] = a.
  Proof. destruct a; reflexivity. Qed.
  Lemma lxor_cons x a y b :
    lxor (x :: a) (y :: b) =
    match N.compare x y with
    | Eq => lxor a b
    | Lt => x :: lxor a (y :: b)
    | Gt => y :: lxor (x :: a) b
    end.
  Proof. reflexivity. Qed.

  Lemma xs_lxor a b : xs (lxor a b) = xorb (xs a) (xs b).
  Proof.
    revert b; induction a as [|x a IH]; intros b.
    - rewrite lxor_nil_l. cbn [xs]. now rewrite xorb_false_l.
    - induction b as [|y b IHb].
      + rewrite lxor_nil_r. cbn [xs]. now rewrite xorb_false_r.
      + rewrite lxor_cons. destruct (N.compare_spec x y) as [->|H|H].
        * rewrite IH. cbn [xs]. destruct (rho y), (xs a), (xs b); reflexivity.
        * cbn [xs]. rewrite IH. cbn [xs]. destruct (rho x), (rho y), (xs a), (xs b); reflexivity.
        * cbn [xs]. rewrite IHb. cbn [xs]. destruct (rho x), (rho y), (xs a), (xs b); reflexivity.
  Qed.

  Lemma evalf_fxor a b : evalf (fxor a b) = xorb (evalf a) (evalf b).
  Proof.
    unfold evalf, fxor; cbn [fc fv]. rewrite xs_lxor.
    destruct (fc a), (fc b), (xs (fv a)), (xs (fv b)); reflexivity.
  Qed.

  Lemma fis0_sound a : fis0 a = true -> evalf a = false.
  Proof.
    unfold fis0. destruct a as [c [|k s]]; cbn [fc fv]; intros H; apply andb_prop in H as [Hc Hs]; [|discriminate].
    destruct c; [discriminate|]. apply evalf_const.
  Qed.

  Lemma fis1_sound a : fis1 a = true -> evalf a = true.
  Proof.
    unfold fis1. destruct a as [c [|k s]]; cbn [fc fv]; intros H; apply andb_prop in H as [Hc Hs]; [|discriminate].
    subst. apply evalf_const.
  Qed.

  Lemma fand_sound a b c : fand a b = Some c -> evalf c = evalf a && evalf b.
  Proof.
    unfold fand. destruct (fis0 a) eqn:Ha0; cbn [orb].
    { intros H; inversion H. rewrite (fis0_sound _ Ha0). apply evalf_fzero. }
    destruct (fis0 b) eqn:Hb0.
    { intros H; inversion H. rewrite (fis0_sound _ Hb0), andb_false_r. apply evalf_fzero. }
    destruct (fis1 a) eqn:Ha1.
    { intros H; inversion H; subst. now rewrite (fis1_sound _ Ha1). }
    destruct (fis1 b) eqn:Hb1; [|discriminate].
    intros H; inversion H; subst. now rewrite (fis1_sound _ Hb1), andb_true_r.
  Qed.

  Lemma for_sound a b c : for_ a b = Some c -> evalf c = evalf a || evalf b.
  Proof.
    unfold for_. destruct (fis0 a) eqn:Ha0.
    { intros H; inversion H; subst. now rewrite (fis0_sound _ Ha0). }
    destruct (fis0 b) eqn:Hb0.
    { intros H; inversion H; subst. now rewrite (fis0_sound _ Hb0), orb_false_r. }
    destruct (fis1 a) eqn:Ha1; cbn [orb].
    { intros H; inversion H; subst. rewrite (fis1_sound _ Ha1). apply evalf_const. }
    destruct (fis1 b) eqn:Hb1; [|discriminate].
    intros H; inversion H; subst. rewrite (fis1_sound _ Hb1), orb_true_r. apply evalf_const.
  Qed.

  Lemma fxor'_sound a b c : fxor' a b = Some c -> evalf c = xorb (evalf a) (evalf b).
  Proof. unfold fxor'. intros H; inversion H. apply evalf_fxor. Qed.

  Lemma nth_map_evalf l i : nth i (map evalf l) false = evalf (nth i l fzero).
  Proof. rewrite <- evalf_fzero. apply map_nth. Qed.

  Lemma testbit_den v i : Z.testbit (den v) (Z.of_nat i) = evalf (bitf v i).
  Proof.
    destruct v as [z|l]; cbn [den bitf].
    - now rewrite evalf_const.
    - rewrite bitsZ_testbit by lia. rewrite Nat2Z.id. apply nth_map_evalf.
  Qed.

  Lemma wnat_bits t : Z.of_nat (wnat t) = wbits (wd t).
  Proof. unfold wnat. destruct (wd t); reflexivity. Qed.

  Lemma bitwise_sound g gb zop t a b r :
    (forall x y c, g x y = Some c -> evalf c = gb (evalf x) (evalf y)) ->
    (forall x y n, Z.testbit (zop x y) n = gb (Z.testbit x n) (Z.testbit y n)) ->
    s_bitwise g t a b = Ok r ->
    arith t (zop (den a) (den b)) = Ok (den r).
  Proof.
    intros Hg Hz. unfold s_bitwise, arith. destruct (signed t); [discriminate|].
    destruct (sequence _) as [l|] eqn:E; [|discriminate]. intros H; inversion H; subst; clear H.
    apply (sequence_some _ _ fzero) in E. destruct E as [Hl Hn].
    rewrite map_length, seq_length in Hl, Hn. f_equal. cbn [den]. rewrite wmod_eq, <- wnat_bits.
    symmetry. apply bits_eq_mod; [now rewrite map_length|].
    intros i Hi. rewrite nth_map_evalf. specialize (Hn i Hi).
    rewrite (nth_indep _ None (g (bitf a 0) (bitf b 0))) in Hn by now rewrite map_length, seq_length.
    rewrite (map_nth (fun i => g (bitf a i) (bitf b i))) in Hn. rewrite seq_nth in Hn by assumption.
    cbn [Nat.add] in Hn. rewrite (Hg _ _ _ Hn), Hz, !testbit_den. reflexivity.
  Qed.

  Lemma den_const z : den (v_const sops0 z) = v_const zops z.
  Proof. reflexivity. Qed.

  Lemma den_ctl a z : v_ctl sops0 a = Ok z -> v_ctl zops (den a) = Ok z.
  Proof. destruct a; cbn; [auto|discriminate]. Qed.

  Lemma den_unop op t a r : v_unop sops0 op t a = Ok r -> v_unop zops op t (den a) = Ok (den r).
  Proof.
    destruct a as [x|l]; cbn [v_unop sops0 zops s_unop den]; [|discriminate].
    intros H. inv_binds. inversion H; subst. exact E.
  Qed.

  Lemma den_binop op t a b r :
    v_binop sops0 op t a b = Ok r -> v_binop zops op t (den a) (den b) = Ok (den r).
  Proof.
    cbn [v_binop sops0 zops]. unfold s_binop.
    assert (Hgen : match op with
                   | Oand => s_bitwise fand t a b
                   | Oor => s_bitwise for_ t a b
                   | Oxor => s_bitwise fxor' t a b
                   | _ => UB "symbolic: arithmetic on data"
                   end = Ok r -> c_binop op t (den a) (den b) = Ok (den r)).
    { destruct op; try discriminate; cbn [c_binop].
      - apply bitwise_sound with (gb := andb); [apply fand_sound|apply Z.land_spec].
      - apply bitwise_sound with (gb := orb); [apply for_sound|apply Z.lor_spec].
      - apply bitwise_sound with (gb := xorb); [apply fxor'_sound|apply Z.lxor_spec]. }
    destruct a as [x|la], b as [y|lb]; try exact Hgen.
    intros H. inv_binds. inversion H; subst. exact E.
  Qed.

  Lemma den_shift op t a n r :
    v_shift sops0 op t a n = Ok r -> v_shift zops op t (den a) n = Ok (den r).
  Proof.
    cbn [v_shift sops0 zops]. destruct a as [x|l]; cbn [s_shift den].
    { intros H. inv_binds. inversion H; subst. exact E. }
    destruct (signed t) eqn:Hs; cbn [orb]; [discriminate|].
    destruct (Z.ltb_spec n 0) as [Hn|Hn]; [discriminate|].
    destruct op; intros H; inversion H; subst; clear H; cbn [c_shift den].
    - rewrite Hs. cbn [andb]. unfold arith. rewrite Hs. f_equal.
      rewrite wmod_eq, <- wnat_bits. symmetry. apply bits_eq_mod.
      + now rewrite !map_length, seq_length.
      + intros i Hi. rewrite nth_map_evalf.
        rewrite (nth_indep _ fzero ((fun i => if Z.of_nat i <? n then fzero
                                              else nth (i - Z.to_nat n) l fzero) 0%nat))
          by now rewrite map_length, seq_length.
        rewrite (map_nth (fun i => if Z.of_nat i <? n then fzero else nth (i - Z.to_nat n) l fzero)).
        rewrite seq_nth by assumption. cbn [Nat.add].
        rewrite Z.shiftl_spec by lia.
        destruct (Z.ltb_spec (Z.of_nat i) n) as [Hlt|Hge].
        * rewrite Z.testbit_neg_r by lia. now rewrite evalf_fzero.
        * rewrite bitsZ_testbit by lia. rewrite nth_map_evalf. do 2 f_equal. lia.
    - f_equal. symmetry. apply bits_eq; [apply Z.shiftr_nonneg, bitsZ_nonneg|].
      intros i. rewrite Z.shiftr_spec by lia. rewrite bitsZ_testbit by lia.
      rewrite !nth_map_evalf. f_equal.
      rewrite <- (firstn_skipn (Z.to_nat n) l) at 1.
      destruct (Nat.le_gt_cases (Z.to_nat n) (List.length l)) as [Hle|Hgt].
      + rewrite app_nth2; rewrite firstn_length_le by assumption; [|lia]. f_equal. lia.
      + rewrite skipn_all2 by lia. rewrite app_nil_r.
        rewrite firstn_all2 by lia. rewrite nth_overflow by lia. now destruct i.
  Qed.

  Lemma den_cast t a r : v_cast sops0 t a = Ok r -> v_cast zops t (den a) = Ok (den r).
  Proof.
    cbn [v_cast sops0 zops]. destruct a as [x|l]; cbn [s_cast den].
    { intros H; inversion H; reflexivity. }
    destruct (signed t) eqn:Hs; [discriminate|]. intros H; inversion H; subst; clear H.
    f_equal. unfold convert. rewrite Hs. cbn [den]. rewrite wmod_eq, <- wnat_bits.
    symmetry. apply bits_eq_mod.
    - now rewrite !map_length, seq_length.
    - intros i Hi. rewrite nth_map_evalf.
      rewrite (nth_indep _ fzero ((fun i => nth i l fzero) 0%nat)) by now rewrite map_length, seq_length.
      rewrite (map_nth (fun i => nth i l fzero)). rewrite seq_nth by assumption. cbn [Nat.add].
      rewrite bitsZ_testbit by lia. rewrite Nat2Z.id. apply nth_map_evalf.
  Qed.

  (** One symbolic run speaks about every concrete input. *)
  Theorem sym_sound p lfuel depth f vs m r :
    run sops p lfuel depth f vs m = Ok r ->
    run zops p lfuel depth f (map (hval den) vs) (hmem den m) = Ok (hres den r).
  Proof.
    apply run_sim.
    - apply den_const.
    - apply den_ctl.
    - apply den_unop.
    - intros op t a b r0 H. cbn [v_binop sops] in H. rewrite q_binop_eq in H. exact (den_binop _ _ _ _ _ H).
    - intros op t a n r0 H. cbn [v_shift sops] in H. rewrite q_shift_eq in H. exact (den_shift _ _ _ _ _ H).
    - intros t a r0 H. cbn [v_cast sops] in H. rewrite q_cast_eq in H. exact (den_cast _ _ _ H).
  Qed.

  Lemma evalf_fvar k : evalf (fvar k) = rho k.
  Proof. unfold evalf, fvar; cbn. now destruct (rho k). Qed.
End Den.

(** the symbolic word whose bit j is input bit [base + j] *)
Definition symword (base : N) (w : nat) : sval :=
  SS (map (fun j => fvar (base + N.of_nat j)) (seq 0 w)).

Lemma den_symword rho base w x :
  0 <= x < 2 ^ Z.of_nat w ->
  (forall j, (j < w)%nat -> rho (base + N.of_nat j)%N = Z.testbit x (Z.of_nat j)) ->
  den rho (symword base w) = x.
Proof.
  intros Hx Hr. unfold symword; cbn [den].
  rewrite <- (Z.mod_small x (2 ^ Z.of_nat w)) by assumption.
  apply bits_eq_mod; [now rewrite !map_length, seq_length|].
  intros i Hi. rewrite nth_map_evalf.
  rewrite (nth_indep _ fzero ((fun j => fvar (base + N.of_nat j)) 0%nat)) by now rewrite map_length, seq_length.
  rewrite (map_nth (fun j => fvar (base + N.of_nat j))). rewrite seq_nth by assumption. cbn [Nat.add].
  rewrite evalf_fvar. symmetry. now apply Hr.
Qed.

(** memory plumbing commutes with the denotation *)
Lemma tmap_data_of_list {A B} (h : A -> B) l i t :
  tmap h (data_of_list l i t) = data_of_list (map h l) i (tmap h t).
Proof.
  revert i t; induction l as [|v l IH]; intros i t; cbn [data_of_list map]; [reflexivity|].
  now rewrite IH, tmap_tset.
Qed.

Lemma hmem_alloc_list {A B} (h : A -> B) m l :
  hmem h (fst (alloc_list m l)) = fst (alloc_list (hmem h m) (map h l)) /\
  snd (alloc_list m l) = snd (alloc_list (hmem h m) (map h l)).
Proof.
  unfold alloc_list, alloc, hmem; cbn [fst snd m_next m_blocks]. rewrite tmap_tset, map_length.
  unfold hblock at 1; cbn [b_ext b_data]. rewrite tmap_data_of_list. split; reflexivity.
Qed.
