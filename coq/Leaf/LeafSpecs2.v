(* Leaf/LeafSpecs2.v — the code book built by the TRANSLATED m4ri_build_code (graycode.c:42, which
   calls the translated m4ri_gray_code, graycode.c:31) for every table size k = 1..16: the CMini
   interpreter is run on two uninitialised arrays of 2^k ints (so every entry that is read back
   was written), and all 2 * (2^17 - 2) = 262140 entries are compared with the hand model
   Alg/Gray.build_code (through its proven closed form).  One vm_compute sweep. *)
From Coq Require Import ZArith NArith List String Bool Lia ZifyBool ZifyNat ZifyN.
From M4 Require Import Base.Bits Lin.Ops Leaf.CMini Leaf.Gen_leaf Alg.Gray Alg.GrayProofs.
Import ListNotations.
Local Open Scope Z_scope.

(** ord and inc are 2^k uninitialised ints each *)
Definition run_build_code (k : nat) : res (option (@val Z) * @mem Z) * positive * positive :=
  let n := 2 ^ Z.of_nat k in
  let m1 := alloc_uninit (@empty_mem Z) n in
  let m2 := alloc_uninit (fst m1) n in
  (interp leaf_prog "m4ri_build_code" [Vptr (snd m1) 0; Vptr (snd m2) 0; Vint (Z.of_nat k)] (fst m2),
   snd m1, snd m2).

(** [all_pow n f s]: f holds on s, s+1, ..., s + 2^n - 1 *)
Fixpoint all_pow (n : nat) (f : Z -> bool) (start : Z) : bool :=
  match n with
  | O => f start
  | S n' => all_pow n' f start && all_pow n' f (start + 2 ^ Z.of_nat n')
  end.

Lemma all_pow_spec n f : forall s, all_pow n f s = true -> forall z, s <= z < s + 2 ^ Z.of_nat n -> f z = true.
Proof.
  induction n as [|n IH]; intros s H z Hz; cbn [all_pow] in H.
  - change (2 ^ Z.of_nat 0) with 1 in Hz. replace z with s by lia. exact H.
  - apply andb_prop in H as [H1 H2]. rewrite Nat2Z.inj_succ, Z.pow_succ_r in Hz by lia.
    destruct (Z.lt_ge_cases z (s + 2 ^ Z.of_nat n)).
    + apply (IH _ H1). lia.
    + apply (IH _ H2). lia.
Qed.

Definition tzZ (z : Z) : Z := match z with Zpos p => Z.of_nat (ctz_pos p) | _ => 0 end.
Definition optz_eqb (a : option Z) (y : Z) : bool := match a with Some x => x =? y | None => false end.
Lemma optz_eqb_eq a y : optz_eqb a y = true -> a = Some y.
Proof. destruct a; cbn; [|discriminate]. intros H. apply Z.eqb_eq in H. now subst. Qed.

(** entry i of the two tables against the closed form of the model *)
Definition entry_ok (k : nat) (m : @mem Z) (bo bi : positive) (i : Z) : bool :=
  optz_eqb (read_elem m bo i) (Z.lxor i (Z.shiftr i 1)) &&
  optz_eqb (read_elem m bi i) (Z.min (tzZ (i + 1)) (Z.of_nat k - 1)).

Definition check_rb (k : nat) (rb : res (option (@val Z) * @mem Z) * positive * positive) : bool :=
  match rb with
  | (Ok (None, m), bo, bi) => all_pow k (entry_ok k m bo bi) 0
  | _ => false
  end.
Definition check_codebook (k : nat) : bool := check_rb k (run_build_code k).
(* NOTE: never let the tactic unifier or the kernel convert through [run_build_code k] for a variable k
   (it exposes a pair and then symbolically evaluates the interpreter): the lemmas below only ever
   use it syntactically, and it is made opaque for the unifier. *)

(* [vm_cast_no_check]: the computation runs once, when Qed type-checks the cast in the kernel *)
Lemma codebook_sweep_1_15 : forallb (fun k => check_rb k (run_build_code k)) (seq 1 15) = true.
Proof. vm_cast_no_check (eq_refl true). Qed.

Lemma codebook_sweep_16 : check_rb 16 (run_build_code 16) = true.
Proof. vm_cast_no_check (eq_refl true). Qed.

(** N <-> Z bit operations (not in the 8.16 standard library) *)
Lemma of_N_lxor a b : Z.of_N (N.lxor a b) = Z.lxor (Z.of_N a) (Z.of_N b).
Proof. destruct a, b; reflexivity. Qed.
Lemma of_N_land a b : Z.of_N (N.land a b) = Z.land (Z.of_N a) (Z.of_N b).
Proof. destruct a, b; reflexivity. Qed.
Lemma of_N_lor a b : Z.of_N (N.lor a b) = Z.lor (Z.of_N a) (Z.of_N b).
Proof. destruct a, b; reflexivity. Qed.
Lemma of_N_shiftr a n : Z.of_N (N.shiftr a n) = Z.shiftr (Z.of_N a) (Z.of_N n).
Proof.
  apply Z.bits_inj'. intros k Hk. rewrite Z.shiftr_spec, !Z.testbit_of_N' by lia.
  rewrite N.shiftr_spec by lia. f_equal. lia.
Qed.
Lemma of_N_shiftl a n : Z.of_N (N.shiftl a n) = Z.shiftl (Z.of_N a) (Z.of_N n).
Proof.
  apply Z.bits_inj'. intros k Hk. rewrite Z.shiftl_spec, Z.testbit_of_N' by lia.
  destruct (Z.lt_ge_cases k (Z.of_N n)).
  - rewrite N.shiftl_spec_low by lia. symmetry. apply Z.testbit_neg_r. lia.
  - rewrite N.shiftl_spec_high by lia. rewrite Z.testbit_of_N' by lia. f_equal. lia.
Qed.

(** the tables in memory are exactly the model's code book *)
Definition tables_are (k : nat) (m : @mem Z) (bo bi : positive) (cb : list N * list nat) : Prop :=
  forall i, (i < 2 ^ k)%nat ->
    read_elem m bo (Z.of_nat i) = Some (Z.of_N (nth i (fst cb) 0%N)) /\
    read_elem m bi (Z.of_nat i) = Some (Z.of_nat (nth i (snd cb) 0%nat)).

Lemma tz_tzZ i : Z.of_nat (tz (N.of_nat (S i))) = tzZ (Z.of_nat i + 1).
Proof.
  replace (Z.of_nat i + 1) with (Z.of_N (N.of_nat (S i))) by lia.
  destruct (N.of_nat (S i)) as [|p]; reflexivity.
Qed.

(* stated for an arbitrary outcome [rb] so that Qed never has to look inside the interpreter *)
Lemma check_sound_gen k (rb : res (option (@val Z) * @mem Z) * positive * positive) : (1 <= k)%nat ->
  check_rb k rb = true ->
  exists m, fst (fst rb) = Ok (None, m) /\ tables_are k m (snd (fst rb)) (snd rb) (build_code k).
Proof.
  intros Hk H. unfold check_rb in H. destruct rb as [[r bo] bi]. cbn [fst snd].
  destruct r as [[[v|] m]| | | |]; try discriminate.
  exists m. split; [reflexivity|]. intros i Hi.
  assert (Hz : 0 <= Z.of_nat i < 0 + 2 ^ Z.of_nat k).
  { split; [lia|]. rewrite Z.add_0_l. change 2 with (Z.of_nat 2). rewrite <- Nat2Z.inj_pow. lia. }
  pose proof (all_pow_spec _ _ _ H _ Hz) as He. unfold entry_ok in He.
  apply andb_prop in He as [Ho Hinc]. apply optz_eqb_eq in Ho, Hinc.
  rewrite Ho, Hinc. split; f_equal.
  - unfold build_code; cbn [fst]. rewrite build_ord_nth by assumption. unfold gray.
    rewrite of_N_lxor, of_N_shiftr. now rewrite nat_N_Z.
  - rewrite build_code_fast_eq. unfold build_code_fast; cbn [snd].
    rewrite (nth_indep _ 0%nat ((fun p => Nat.min (tz (N.of_nat (S p))) (k - 1)) 0%nat))
      by (rewrite map_length, seq_length; assumption).
    rewrite (map_nth (fun p => Nat.min (tz (N.of_nat (S p))) (k - 1))). rewrite seq_nth by assumption.
    cbn [Nat.add]. rewrite Nat2Z.inj_min, tz_tzZ. f_equal. lia.
Qed.

Global Opaque run_build_code.

(** C19, code book part: for every k = 1..16 the model's code book is a Gray code book in the
    sense consumed by mzd_make_table, and the translated C code writes exactly that code book. *)
Theorem C19_codebook k : (1 <= k <= 16)%nat ->
  codebook_ok k /\
  exists m, fst (fst (run_build_code k)) = Ok (None, m) /\
            tables_are k m (snd (fst (run_build_code k))) (snd (run_build_code k)) (build_code k).
Proof.
  intros Hk. split; [apply codebook_ok_all|].
  apply check_sound_gen; [lia|].
  destruct (Nat.eq_dec k 16) as [->|Hne]; [exact codebook_sweep_16|].
  pose proof codebook_sweep_1_15 as H. rewrite forallb_forall in H.
  apply (H k). apply in_seq. lia.
Qed.

(** consequence for the translated m4ri_gray_code alone (it is called for every i < 2^k by the
    first loop of m4ri_build_code; the general statement for all lengths is LeafSpecs3.gen_gray_code_eq) *)
