(* Leaf/ObsSpecs11.v — mzd_find_pivot (m4ri/mzd.c:1686) as translated into Leaf/Gen_observers.v, part 4:
   the branch `A->ncols - start_col >= m4ri_radix` (mzd.c:1713), first word.
   The loops of the function are addressed as members of [fp_loops] (pre-order list of the `Sloop` nodes of the
   generated body), the environments as [over K t] with K one of the explicit tries [fp_env], [Kw], [Kl];
   every lemma is about `exec` of ONE loop, so that each proof runs one loop body.
   This file: the definitions, the tactic for the three word scans, the scan of the first word under mask_begin
   with its `break` (mzd.c:1719-1727) and the bit search of the first word (mzd.c:1732-1737). *)
From Coq Require Import ZArith NArith List String Bool Lia ZifyBool ZifyNat ZifyN.
From M4 Require Import Base.Bits Lin.Mat Lin.Ops Word.WMat Word.WMatLemmas Word.WOps
  Leaf.CMini Leaf.CMiniAcc Leaf.CMiniAcc2 Leaf.CMiniObs Leaf.AccessSpecs Leaf.Gen_observers Leaf.ObsSpecs
  Leaf.ObsSpecs6 Leaf.ObsSpecs7.
Import ListNotations.
Local Open Scope Z_scope.
Ltac Zify.zify_post_hook ::= Z.div_mod_to_equations.

(** * The loops of the generated function, in pre-order *)
Fixpoint loops (s : stmt) : list stmt :=
  match s with
  | Sseq a b => loops a ++ loops b
  | Sif _ a b => loops a ++ loops b
  | Sloop _ b st => s :: loops b ++ loops st
  | _ => []
  end.
Definition fp_loops : list stmt := Eval cbv [loops app fn_body f_mzd_find_pivot] in loops (fn_body f_mzd_find_pivot).
Lemma fp_loops_count : List.length fp_loops = 10%nat. Proof. reflexivity. Qed.
(* 0: j   1: rows (read_bits)   2: bits   3: rows (first word)   4: bits   5: wi   6: rows (complete word)   7: bits
   8: rows (last word)   9: bits *)
Definition L_scan1 : stmt := Eval cbv [nth fp_loops] in nth 3 fp_loops Sskip.
Definition L_bits1 : stmt := Eval cbv [nth fp_loops] in nth 4 fp_loops Sskip.
Definition L_wi : stmt := Eval cbv [nth fp_loops] in nth 5 fp_loops Sskip.
Definition L_scan2 : stmt := Eval cbv [nth fp_loops] in nth 6 fp_loops Sskip.
Definition L_bits2 : stmt := Eval cbv [nth fp_loops] in nth 7 fp_loops Sskip.
Definition L_scan3 : stmt := Eval cbv [nth fp_loops] in nth 8 fp_loops Sskip.
Definition L_bits3 : stmt := Eval cbv [nth fp_loops] in nth 9 fp_loops Sskip.

(** the callees as seen from the body of mzd_find_pivot *)
Notation CALL := (run zops obs_prog LFUEL 11).

(** * The known parts of the environment *)
(** parameters and the locals nrows, ncols, data (17), row_candidate (18) *)
Definition fp_env (h : hdr) (fl : Z) (r0 c0 : nat) (d : N) (c : nat) : @env Z :=
  (tset 18%positive (Vint (Z.of_nat c))
  (tset 17%positive (Vint (Z.of_N d))
  (tset 16%positive (Vint (Z.of_nat (h_ncols h)))
  (tset 15%positive (Vint (Z.of_nat (h_nrows h)))
  (tset 14%positive (Vint 1)
  (tset 13%positive (Vptr 2%positive 0)
  (tset 12%positive (Vint 0)
  (tset 11%positive (Vptr 2%positive 0)
  (tset 10%positive (Vint (Z.of_nat c0))
  (tset 9%positive (Vint (Z.of_nat r0))
  (tset 8%positive (Vint (Z.of_nat (h_off h)))
  (tset 7%positive (Vptr 1%positive 0)
  (tset 6%positive (Vint (Z.of_N (h_hmask h)))
  (tset 5%positive (Vint fl)
  (tset 4%positive (Vint (Z.of_nat (h_rowstride h)))
  (tset 3%positive (Vint (Z.of_nat (h_width h)))
  (tset 2%positive (Vint (Z.of_nat (h_ncols h)))
  (tset 1%positive (Vint (Z.of_nat (h_nrows h)))
  TLeaf)))))))))))))))))).

(** plus bit_offset (25), word_offset (26), mask_begin (27) *)
Definition Kw (h : hdr) (fl : Z) (r0 c0 : nat) (d : N) (c : nat) : @env Z :=
  tset 27%positive (Vint (Z.of_N (right_bitmask (64 - c0 mod 64)))) (tset 26%positive (Vint (Z.of_nat (c0 / 64)))
  (tset 25%positive (Vint (Z.of_nat (c0 mod 64))) (fp_env h fl r0 c0 d c))).

(** plus end_offset (39), mask_end (40), wi (41) *)
Definition end_off (h : hdr) : nat := if negb (h_ncols h mod 64 =? 0)%nat then (h_ncols h mod 64)%nat else 64%nat.
Definition Kl (h : hdr) (fl : Z) (r0 c0 : nat) (d : N) (c : nat) : @env Z :=
  tset 41%positive (Vint (Z.of_nat (h_width h - 1))) (tset 40%positive (Vint (Z.of_N (left_bitmask (end_off h mod 64))))
  (tset 39%positive (Vint (Z.of_nat (end_off h))) (Kw h fl r0 c0 d c))).

Ltac k_unfold := unfold Kl, Kw, fp_env.

(** * Pure facts about a scan *)
Lemma scan_facts load brk r0 n (P : N -> Prop) c00 d c :
  pivot_scan load brk (seq r0 n) (0%N, c00) = WMat.Ok (d, c) ->
  (forall i w, load i = WMat.Ok w -> P w /\ (w < 2 ^ 64)%N) -> P 0%N ->
  P d /\ (d < 2 ^ 64)%N /\ (d = 0%N -> c = c00).
Proof.
  intros Hs Hl H0. destruct (pivot_scan_iterG _ _ _ _ _ _ Hs) as (xs & Hxs & Hus).
  pose proof (scanG_inv _ brk r0 P c00 Hl _ _ _ _ Hxs) as HQ. rewrite Hus in HQ.
  apply HQ. split; [exact H0|]. split; [reflexivity|]. intros _. reflexivity.
Qed.

(** * The tactic for a scan over the rows of one word
    vi: the row variable; ld: the model's load; wf i: the word it yields for row i; brk: the break bit;
    kidx: the word index; c00: the candidate at the start; Kin / Kout: known parts before / after.
    Goal: exists t', exec CALL LFUEL L (over (tset vi r0 (Kin 0 c00)) t) M0 = Ok (ONormal (over (Kout data cand) t') M0) *)
Ltac word_scan vi h fl mem r0 ld wf brk kidx c00 data cand Hv Hd Hm Hkidx Hld Hscan :=
  let xs := fresh "xs" in let Hxs := fresh "Hxs" in let Hus := fresh "Hus" in
  let Ks := fresh "Ks" in let Es := fresh "Es" in let ts := fresh "ts" in let Hloops := fresh "Hloops" in
  destruct (pivot_scan_iterG _ _ _ _ _ _ Hscan) as (xs & Hxs & Hus);
  ex_late; k_unfold; cbn [tset];
  match goal with |- context [exec zops ?cl LFUEL (Sloop ?cd ?bd ?st) (over ?A0 ?T0) ?M0] =>
    pose (Ks := fun (s : N * nat) => tdel vi (tset 18%positive (Vint (Z.of_nat (snd s)))
                 (tset 17%positive (Vint (Z.of_N (fst s))) A0)));
    pose (Es := fun (k : nat) (s : N * nat) (t : @env Z) =>
      @pair (@env Z) (@CMini.mem Z)
        (over (tset vi (Vint (Z.of_nat (r0 + k))) (tset 18%positive (Vint (Z.of_nat (snd s)))
                 (tset 17%positive (Vint (Z.of_N (fst s))) A0))) t) M0);
    replace (exec zops cl LFUEL (Sloop cd bd st) (over A0 T0) M0)
      with (exec zops cl LFUEL (Sloop cd bd st) (fst (Es 0%nat (0%N, c00) (over A0 T0))) (snd (Es 0%nat (0%N, c00) (over A0 T0))))
      by (unfold Es; cbn [fst snd]; f_equal; symmetry; apply over_sub_eq; sub_solve);
    destruct (loop_gen2 cl cd bd st (N * nat)%type (@env Z) (N * nat)%type Es (h_nrows h - r0)%nat
                (scanG ld brk r0)
                (fun s t => ONormal (over (Ks s) t) M0)
                (fun s t => ONormal (over (Ks s) t) M0)
                (fun _ s => (fst s < 2 ^ 64)%N))
      with (s0 := (0%N, c00)) (t0 := over A0 T0) (x := xs)
      as (ts & Hloops & _);
    [ let k := fresh "k" in let d := fresh "d" in let c := fresh "c" in let ti := fresh "ti" in
      let y := fresh "y" in let Hki := fresh "Hki" in let HI := fresh "HI" in let HG := fresh "HG" in
      let EL := fresh "EL" in let ET := fresh "ET" in let Hcl := fresh "Hcl" in
      intros k [d c] ti y Hki HI HG; cbn [fst snd] in HI;
      destruct (dom_facts h fl mem (r0 + k) kidx Hv Hd ltac:(lia) Hkidx) as (?Hp & ?Hri & ?Hra & ?Hbig & ?Hii);
      unfold scanG in HG; cbn [fst] in HG; rewrite (Hld (r0 + k)%nat) in HG by lia; cbn [WMat.bind] in HG;
      let w := eval cbv beta in (wf (r0 + k)%nat) in
      let tb := eval cbv beta iota in (match brk with Some b => N.testbit w (N.of_nat b) | None => false end) in
      (assert (Hcl : (w < 2 ^ 64)%N) by (nlt_solve2);
      destruct (lesser_LSB w d) eqn:EL;
        [destruct tb eqn:ET|];
        apply wok_inj in HG; subst y; [|split; [exact Hcl|]|split; [exact HI|]];
      (ex_late; loop_unfold Es; cm_run2; rewrite run_mzd_row_const_o by lia; cm_run2;
       match goal with |- context [run zops obs_prog LFUEL _ "m4ri_lesser_LSB" [Vint ?a; Vint ?b] _] =>
         replace a with (Z.of_N w) by (symmetry; n2z; wnorm; weq) end;
       rewrite run_lesser_LSB_o by assumption; rewrite EL; cbn [Z.b2z]; cm_run2;
       try (rewrite get_bit_tb by lia; rewrite ?Z_to_N_of_nat; change (Z.to_N 0) with (N.of_nat 0);
            rewrite ET; cbn [Z.b2z]; cm_run2);
       unfold Ks; cbn [fst snd]; ex_close))
    | let d := fresh "d" in let c := fresh "c" in let ti := fresh "ti" in let HI := fresh "HI" in
      intros [d c] ti HI; ex_late; loop_unfold Es; cm_run2; unfold Ks; cbn [fst snd]; ex_close
    | reflexivity
    | exact Hxs
    | lia
    | ];
    rewrite Hloops; clear Hloops;
    assert (Hx' : forall (f : N * nat -> @outcome Z), match xs with inl s' => f s' | inr r' => f r' end = f (data, cand))
      by (intros f; destruct xs; cbn [unsum] in Hus; subst; reflexivity);
    rewrite (Hx' (fun s => ONormal (over (Ks s) ts) M0)); clear Hx';
    unfold Ks; cbn [fst snd]; ex_close
  end.

Lemma first_set_bit_lt d : forall len s l, first_set_bit d s len = Some l -> (s <= l < s + len)%nat.
Proof.
  induction len as [|len IH]; intros s l H; cbn [first_set_bit] in H; [discriminate|].
  destruct (N.testbit d (N.of_nat s)).
  - injection H as <-. lia.
  - apply IH in H. lia.
Qed.

Ltac ex_close2 :=
  unfold ex_res; eexists;
  repeat match goal with
         | |- Ok _ = Ok _ => f_equal
         | |- LCont _ = LCont _ => f_equal
         | |- LStop _ = LStop _ => f_equal
         | |- ONormal _ _ = ONormal _ _ => f_equal
         | |- (_, _) = (_, _) => f_equal
         end; try reflexivity; first [ apply over_sub_eq; sub_solve | repeat f_equal; lia ].

(** * The tactic for a bit search
    vl: the bit variable; len: the number of bits searched; dsh: the word searched; cval b: the column stored for bit b.
    Goal: exists e', exec CALL LFUEL L (over (tset vl 0 K) t) (mem2 ws 2 (tset (key 0) cand TLeaf)) =
                     Ok (ONormal e' (mem2 ws 2 (pivot_cells (Some (cand, cval l))))) *)
Ltac bit_search vl mem len dsh cval cand l Hfs :=
  let Hfsb := fresh "Hfsb" in let Eb := fresh "Eb" in let Kb := fresh "Kb" in let tb := fresh "tb" in
  let Hloopb := fresh "Hloopb" in
  pose proof (fsb_iterG dsh len 0) as Hfsb; rewrite Hfs in Hfsb;
  ex_late; k_unfold; cbn [tset];
  match goal with |- context [exec zops ?cl LFUEL (Sloop ?cd ?bd ?st) (over ?A0 ?T0) ?M0] =>
    pose (Eb := fun (k : nat) (_ : unit) (t : @env Z) =>
      @pair (@env Z) (@CMini.mem Z) (over (tset vl (Vint (Z.of_nat k)) A0) t) M0);
    pose (Kb := tdel vl A0);
    replace (exec zops cl LFUEL (Sloop cd bd st) (over A0 T0) M0)
      with (exec zops cl LFUEL (Sloop cd bd st) (fst (Eb 0%nat tt (over A0 T0))) (snd (Eb 0%nat tt (over A0 T0))))
      by (unfold Eb; cbn [fst snd]; f_equal; symmetry; apply over_sub_eq; sub_solve);
    destruct (loop_gen2 cl cd bd st unit (@env Z) nat Eb len (fsbG dsh)
                (fun b t => ONormal (over Kb t)
                   (mem2 (words mem) 2 (tset (key 1) (Z.of_nat (cval b)) (tset (key 0) (Z.of_nat cand) TLeaf))))
                (fun _ t => ONormal (over Kb t) M0)
                (fun _ _ => True))
      with (s0 := tt) (t0 := over A0 T0) (x := @inr unit nat l)
      as (tb & Hloopb & _);
    [ let k := fresh "k" in let ti := fresh "ti" in let y := fresh "y" in let Hkb := fresh "Hkb" in
      let HG := fresh "HG" in let ET := fresh "ET" in
      intros k [] ti y Hkb _ HG; unfold fsbG in HG; apply wok_inj in HG; subst y;
      destruct (N.testbit dsh (N.of_nat k)) eqn:ET; [|split; [exact I|]];
      (ex_late; loop_unfold Eb; cm_run2; rewrite get_bit_tb by lia; rewrite Z_to_N_of_nat, ET; cbn [Z.b2z]; cm_run2;
       unfold Kb; cbv beta; ex_close2)
    | let ti := fresh "ti" in intros [] ti _; ex_late; loop_unfold Eb; cm_run2; unfold Kb; ex_close2
    | exact I
    | exact Hfsb
    | lia
    | ];
    rewrite Hloopb; unfold ex_res, pivot_cells; eexists; reflexivity
  end.

(** * The first word (mzd.c:1719-1727) *)
Section FirstWord.
  Variables (h : hdr) (fl : Z) (mem : list N) (r0 c0 : nat).
  Hypothesis Hv : valid h mem.
  Hypothesis Hd : c_dom h fl mem.
  Hypothesis Hr0 : (r0 <= h_nrows h)%nat.
  Hypothesis Hc0 : (c0 < h_ncols h)%nat.
  Let bo := (c0 mod 64)%nat.
  Let wo := (c0 / 64)%nat.
  Let M0 := mem2 (words mem) 2 TLeaf.

  Definition ld1 (i : nat) : WMat.res N :=
    WMat.bind (rd mem (row_addr h i + c0 / 64)) (fun w => WMat.Ok (N.land w (right_bitmask (64 - c0 mod 64)))).

  Lemma wide_scan1 data cand t :
    pivot_scan ld1 (Some bo) (seq r0 (h_nrows h - r0)) (0%N, 0%nat) = WMat.Ok (data, cand) ->
    exists t', exec zops CALL LFUEL L_scan1 (over (tset 28%positive (Vint (Z.of_nat r0)) (Kw h fl r0 c0 0 0)) t) M0 =
               Ok (ONormal (over (Kw h fl r0 c0 data cand) t') M0).
  Proof.
    intros Hscan. pose proof (valid_hdr_ok _ _ Hv) as Hok. pose proof (valid_mem_ok _ _ Hv) as Hm.
    pose proof Hd as (D1 & D2 & D3 & D4 & D5 & D6). pose proof Hok as (HW & _).
    assert (HwoW : (wo < h_width h)%nat) by (subst wo; rewrite HW; lia).
    assert (Hld : forall i, (i < h_nrows h)%nat ->
              ld1 i = WMat.Ok (N.land (word_at mem (row_addr h i + wo)) (right_bitmask (64 - bo)))).
    { intros i Hi. unfold ld1. rewrite rd_ok by (apply valid_word; assumption). reflexivity. }
    unfold L_scan1, M0. subst bo wo.
    word_scan 28%positive h fl mem r0 ld1 (fun i : nat => N.land (word_at mem (row_addr h i + c0 / 64)) (right_bitmask (64 - c0 mod 64))) (Some (c0 mod 64)%nat) (c0 / 64)%nat 0%nat data cand Hv Hd Hm HwoW Hld Hscan.
  Qed.

  (** the bit search of the first word (mzd.c:1732-1737), on data >> bit_offset *)
  Lemma wide_bits1 dsh cand l t :
    first_set_bit dsh 0 (64 - bo) = Some l ->
    exists e', exec zops CALL LFUEL L_bits1 (over (tset 32%positive (Vint 0) (Kw h fl r0 c0 dsh cand)) t)
                 (mem2 (words mem) 2 (tset (key 0) (Z.of_nat cand) TLeaf)) =
               Ok (ONormal e' (mem2 (words mem) 2 (pivot_cells (Some (cand, (c0 + l)%nat))))).
  Proof.
    intros Hfs. pose proof Hd as (D1 & D2 & D3 & D4 & D5 & D6).
    pose proof (first_set_bit_lt _ _ _ _ Hfs) as Hl.
    unfold L_bits1. subst bo wo.
    bit_search 32%positive mem (64 - c0 mod 64)%nat dsh (fun b : nat => (c0 + b)%nat) cand l Hfs.
  Qed.
End FirstWord.

(** re-indexing of [iterG] *)
Lemma iterG_shift {St R} (G : nat -> St -> WMat.res (St + R)) a : forall d j s,
  iterG (fun k => G (a + k)%nat) j d s = iterG G (a + j) d s.
Proof.
  induction d as [|d IH]; intros j s; cbn [iterG]; [reflexivity|].
  destruct (G (a + j)%nat s) as [[s'|r]|e]; cbn [WMat.bind]; try reflexivity.
  rewrite IH. now replace (a + S j)%nat with (S (a + j)) by lia.
Qed.
