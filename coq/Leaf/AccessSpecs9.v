(* Leaf/AccessSpecs9.v — mzd_col_swap_in_rows (mzd.h:325), part 3: the trivial cases (cola == colb, no rows), the
   three parts put together, and the composition with Word/WRefine11.v: the T1-translated C text computes
   Ops.col_swap_in_rows on [abs h mem] and leaves everything outside the view unchanged. *)
From Coq Require Import ZArith NArith List String Bool Lia ZifyBool ZifyNat ZifyN.
From M4 Require Import Base.Bits Lin.Mat Lin.Ops Word.WMat Word.WMatLemmas Word.WOps Word.WRefine Word.WRefine11
  Leaf.CMini Leaf.CMiniAcc Leaf.CMiniAcc2 Leaf.Gen_access Leaf.AccessSpecs Leaf.AccessSpecs3 Leaf.AccessSpecs4
  Leaf.AccessSpecs7 Leaf.AccessSpecs8.
Import ListNotations.
Local Open Scope Z_scope.
Ltac Zify.zify_post_hook ::= Z.div_mod_to_equations.

Lemma run_col_swap_trivial d h fl mem cola colb r0 r1 :
  valid h mem -> c_dom h fl mem -> (cola < h_ncols h)%nat -> (colb < h_ncols h)%nat -> (r0 <= r1)%nat -> (r1 <= h_nrows h)%nat ->
  cola = colb \/ r0 = r1 ->
  run zops access_prog LFUEL (S (S d)) "mzd_col_swap_in_rows"
      (hbundle h fl [Vint (Z.of_nat cola); Vint (Z.of_nat colb); Vint (Z.of_nat r0); Vint (Z.of_nat r1)]) (mem_of (words mem)) =
  Ok (None, mem_of (words mem)).
Proof.
  intros Hv Hd Ha Hb Hr01 Hr1 Htriv. pose proof (valid_hdr_ok _ _ Hv) as Hok.
  pose proof Hd as (D1 & D2 & D3 & D4 & D5 & D6). unfold hbundle.
  destruct (Nat.eq_dec cola colb) as [Eab|Nab].
  { cm_enter "mzd_col_swap_in_rows"%string f_mzd_col_swap_in_rows. cm_run. reflexivity. }
  assert (Er : r0 = r1) by (destruct Htriv; [contradiction|assumption]).
  assert (Hwpos : (0 < h_width h)%nat) by (pose proof (width_pos h cola Hok Ha); lia).
  assert (Hrr : 0 <= Z.of_nat (h_rowstride h) * Z.of_nat r0 <= Z.of_nat (List.length mem) + Z.of_nat (h_rowstride h)).
  { destruct (Nat.eq_dec (h_nrows h) 0) as [E0|N0]; [replace r0 with 0%nat by lia; lia|].
    destruct (dom_facts h fl mem (h_nrows h - 1) 0 Hv Hd ltac:(lia) Hwpos) as (_ & Hx & _).
    apply (mul_bound _ _ (Z.of_nat (h_nrows h))); try lia.
    replace (Z.of_nat (h_nrows h) - 1) with (Z.of_nat (h_nrows h - 1)) by lia. lia. }
  cm_enter "mzd_col_swap_in_rows"%string f_mzd_col_swap_in_rows. cm_run.
  rewrite run_mzd_row by lia. cm_run. rewrite if_max. cm_run. reflexivity.
Qed.

Lemma run_acc_intro2 f args ws (r : option Z) ws' mfin :
  List.length ws' = List.length ws ->
  run zops access_prog LFUEL DEPTH f args (mem_of ws) = Ok (option_map (@Vint Z) r, mfin) ->
  read_back mfin (List.length ws') = Some ws' ->
  run_acc f args ws = Ok (r, ws').
Proof.
  intros Hl Hr Hb. unfold run_acc. rewrite Hr. cbn [bind snd fst]. rewrite <- Hl, Hb.
  destruct r; reflexivity.
Qed.

Lemma w_col_swap_in_rows_length h mem cola colb r0 r1 m' :
  valid h mem -> (cola < h_ncols h)%nat -> (colb < h_ncols h)%nat -> (r0 <= r1)%nat -> (r1 <= h_nrows h)%nat ->
  w_col_swap_in_rows h cola colb r0 r1 mem = WMat.Ok m' -> List.length m' = List.length mem.
Proof.
  intros Hv Ha Hb Hr01 Hr1 Hw.
  destruct (w_col_swap_in_rows_ok h mem cola colb r0 r1 Hv Ha Hb Hr01 Hr1) as (m2 & E2 & L2 & _).
  rewrite Hw in E2. apply wok_inj in E2. now subst.
Qed.

(** all cases: the final memory holds the model's words in block 1 (and possibly the local array in block 2) *)
Lemma run_col_swap_in_rows d h fl mem cola colb r0 r1 m' :
  valid h mem -> c_dom h fl mem -> (cola < h_ncols h)%nat -> (colb < h_ncols h)%nat -> (r0 <= r1)%nat -> (r1 <= h_nrows h)%nat ->
  w_col_swap_in_rows h cola colb r0 r1 mem = WMat.Ok m' ->
  exists mfin,
    run zops access_prog LFUEL (S (S d)) "mzd_col_swap_in_rows"
        (hbundle h fl [Vint (Z.of_nat cola); Vint (Z.of_nat colb); Vint (Z.of_nat r0); Vint (Z.of_nat r1)]) (mem_of (words mem)) =
    Ok (None, mfin) /\ read_back mfin (List.length (words m')) = Some (words m').
Proof.
  intros Hv Hd Ha Hb Hr01 Hr1 Hw.
  destruct (Nat.eq_dec cola colb) as [Eab|Nab].
  { assert (m' = mem).
    { unfold w_col_swap_in_rows in Hw. destruct (Nat.eqb_spec cola colb); [|contradiction]. now apply wok_inj in Hw. }
    subst m'. exists (mem_of (words mem)). split; [|apply read_back_mem_of]. apply run_col_swap_trivial; auto. }
  destruct (Nat.eq_dec r0 r1) as [Er|Nr].
  { assert (m' = mem).
    { unfold w_col_swap_in_rows in Hw. destruct (Nat.eqb_spec cola colb); [contradiction|]. cbv zeta in Hw.
      destruct (Nat.eqb_spec (r1 - r0) 0); [|lia]. now apply wok_inj in Hw. }
    subst m'. exists (mem_of (words mem)). split; [|apply read_back_mem_of]. apply run_col_swap_trivial; auto. }
  destruct (Nat.eq_dec (cola / 64) (colb / 64)) as [Ew|Nw].
  - destruct (run_col_swap_same d h fl mem cola colb r0 r1 m' Hv Hd Ha Hb Hr01 Hr1 Ew Nab ltac:(lia) Hw) as (dfin & Hrun).
    exists (mem2 (words m') 4 dfin). split; [exact Hrun|apply read_back_mem2].
  - exists (mem_of (words m')). split; [now apply run_col_swap_diff|apply read_back_mem_of].
Qed.

Theorem acc_col_swap_in_rows_w h fl mem cola colb r0 r1 m' :
  valid h mem -> c_dom h fl mem -> (cola < h_ncols h)%nat -> (colb < h_ncols h)%nat -> (r0 <= r1)%nat -> (r1 <= h_nrows h)%nat ->
  w_col_swap_in_rows h cola colb r0 r1 mem = WMat.Ok m' ->
  run_acc "mzd_col_swap_in_rows" (hbundle h fl [zi cola; zi colb; zi r0; zi r1]) (words mem) = Ok (None, words m').
Proof.
  intros Hv Hd Ha Hb Hr01 Hr1 Hw. unfold zi.
  destruct (run_col_swap_in_rows 10 h fl mem cola colb r0 r1 m' Hv Hd Ha Hb Hr01 Hr1 Hw) as (mfin & Hrun & Hback).
  apply (run_acc_intro2 _ _ (words mem) None (words m') mfin).
  - rewrite !words_length. exact (w_col_swap_in_rows_length h mem cola colb r0 r1 m' Hv Ha Hb Hr01 Hr1 Hw).
  - exact Hrun.
  - exact Hback.
Qed.

(** mzd_col_swap (mzd.h:424) = mzd_col_swap_in_rows(M, cola, colb, 0, M->nrows) *)
Theorem acc_col_swap_w h fl mem cola colb m' :
  valid h mem -> c_dom h fl mem -> (cola < h_ncols h)%nat -> (colb < h_ncols h)%nat ->
  w_col_swap_in_rows h cola colb 0 (h_nrows h) mem = WMat.Ok m' ->
  run_acc "mzd_col_swap" (hbundle h fl [zi cola; zi colb]) (words mem) = Ok (None, words m').
Proof.
  intros Hv Hd Ha Hb Hw. unfold zi.
  destruct (run_col_swap_in_rows 9 h fl mem cola colb 0 (h_nrows h) m' Hv Hd Ha Hb ltac:(lia) ltac:(lia) Hw) as (mfin & Hrun & Hback).
  apply (run_acc_intro2 _ _ (words mem) None (words m') mfin).
  - rewrite !words_length.
    exact (w_col_swap_in_rows_length h mem cola colb 0 (h_nrows h) m' Hv Ha Hb ltac:(lia) ltac:(lia) Hw).
  - change DEPTH with (S (S (S 9))). unfold hbundle in *.
    cm_enter "mzd_col_swap"%string f_mzd_col_swap. cm_run.
    cbn [Z.of_nat] in Hrun. rewrite Hrun. cm_run. reflexivity.
  - exact Hback.
Qed.

(** against the matrix model, with the frame *)
Theorem mzd_col_swap_in_rows_spec h fl mem cola colb r0 r1 :
  valid h mem -> c_dom h fl mem -> (cola < h_ncols h)%nat -> (colb < h_ncols h)%nat -> (r0 <= r1)%nat -> (r1 <= h_nrows h)%nat ->
  exists m', run_acc "mzd_col_swap_in_rows" (hbundle h fl [zi cola; zi colb; zi r0; zi r1]) (words mem) = Ok (None, words m') /\
    List.length m' = List.length mem /\ mem_ok m' /\
    abs h m' = col_swap_in_rows (abs h mem) cola colb r0 r1 /\ outside h mem m'.
Proof.
  intros Hv Hd Ha Hb Hr01 Hr1.
  destruct (w_col_swap_in_rows_ok h mem cola colb r0 r1 Hv Ha Hb Hr01 Hr1) as (m' & E & R).
  exists m'. split; [|exact R]. now apply acc_col_swap_in_rows_w.
Qed.

Theorem mzd_col_swap_spec h fl mem cola colb :
  valid h mem -> c_dom h fl mem -> (cola < h_ncols h)%nat -> (colb < h_ncols h)%nat ->
  exists m', run_acc "mzd_col_swap" (hbundle h fl [zi cola; zi colb]) (words mem) = Ok (None, words m') /\
    List.length m' = List.length mem /\ mem_ok m' /\
    abs h m' = col_swap (abs h mem) cola colb /\ outside h mem m'.
Proof.
  intros Hv Hd Ha Hb.
  destruct (w_col_swap_in_rows_ok h mem cola colb 0 (h_nrows h) Hv Ha Hb ltac:(lia) ltac:(lia)) as (m' & E & R).
  exists m'. split; [now apply acc_col_swap_w|]. unfold col_swap. now rewrite nr_abs.
Qed.
