(* Leaf/AccessSpecs5.v — the T1-translated mzd_row_add_offset (mzd.h:537), SCALAR branch (translated from a unit
   with __M4RI_HAVE_SSE2 0; the SSE2 branch of this function is outside the translation), computes the word-level
   model Word/WOps2.w2_row_add_offset (src_last read before the update, so dstrow == srcrow is allowed), for all
   arguments of the documented domain (conventions: Leaf/AccessSpecs.v).  The proof names the CMini variables of
   the loop counter `i` and of the loop-condition temporary by their numbers in Leaf/Gen_access.v (21 and 22). *)
From Coq Require Import ZArith NArith List String Bool Lia ZifyBool ZifyNat ZifyN.
From M4 Require Import Base.Bits Lin.Mat Lin.Ops Word.WMat Word.WMatLemmas Word.WOps Word.WOps2 Word.WRefine14
  Leaf.CMini Leaf.CMiniAcc Leaf.Gen_access Leaf.AccessSpecs Leaf.AccessSpecs4.
Import ListNotations.
Local Open Scope Z_scope.
Ltac Zify.zify_post_hook ::= Z.div_mod_to_equations.

(** * mzd_row_add_offset (mzd.h:537) *)
Lemma run_mzd_row_add_offset d h fl mem dst src co m' :
  valid h mem -> c_dom h fl mem -> (dst < h_nrows h)%nat -> (src < h_nrows h)%nat -> (co < h_ncols h)%nat ->
  w2_row_add_offset h dst src co mem = WMat.Ok m' ->
  run zops access_prog LFUEL (S (S d)) "mzd_row_add_offset"
      (hbundle h fl [Vint (Z.of_nat dst); Vint (Z.of_nat src); Vint (Z.of_nat co)]) (mem_of (words mem)) =
  Ok (None, mem_of (words m')).
Proof.
  intros Hv Hd Hdst Hsrc Hco Hw. pose proof (valid_hdr_ok _ _ Hv) as Hok. pose proof (valid_mem_ok _ _ Hv) as Hm.
  pose proof Hd as (D1 & D2 & D3 & D4 & D5 & D6). pose proof Hok as (Hwd & _ & Hrs).
  pose proof (hmask_lt h Hok) as Hhm.
  assert (Hsbw : (co / 64 < h_width h)%nat) by now apply width_pos.
  assert (Hk : (h_width h - 1 < h_width h)%nat) by lia.
  destruct (dom_facts h fl mem dst (h_width h - 1) Hv Hd Hdst Hk) as (Hpd & Hrid & Hrad & Hbigd & Hiid).
  destruct (dom_facts h fl mem src (h_width h - 1) Hv Hd Hsrc Hk) as (Hps & Hris & Hras & Hbigs & Hiis).
  unfold w2_row_add_offset in Hw. destruct (Nat.leb_spec (h_ncols h) co); [lia|]. cbv zeta in Hw.
  set (sb := (co / 64)%nat) in *. set (n := (h_width h - sb - 1)%nat).
  set (sa := (row_addr h src + sb)%nat) in *. set (da := (row_addr h dst + sb)%nat) in *.
  replace (h_width h - sb - 1)%nat with n in Hw by reflexivity.
  assert (Hwide : (h_width h - sb = n + 1)%nat) by (unfold n; lia). rewrite Hwide in Hw.
  assert (HsW : (sa + n < List.length mem)%nat) by (unfold sa, n; lia).
  assert (HdW : (da + n < List.length mem)%nat) by (unfold da, n; lia).
  rewrite !rd_ok in Hw by lia. cbn [WMat.bind] in Hw. rewrite wr_ok in Hw by lia. cbn [WMat.bind] in Hw.
  destruct (bind_inv _ _ _ Hw) as (m1 & Hfor & Hw1). clear Hw.
  unfold hbundle.
  cm_enter "mzd_row_add_offset"%string f_mzd_row_add_offset. cm_run.
  rewrite run_mzd_row by lia. cm_run. rewrite run_mzd_row by lia. cm_run.
  assert (Hzs : Z.of_nat (h_off h) + Z.of_nat (h_rowstride h) * Z.of_nat src + Z.of_nat co / 64 = Z.of_nat sa) by (unfold sa, sb; lia).
  assert (Hzd : Z.of_nat (h_off h) + Z.of_nat (h_rowstride h) * Z.of_nat dst + Z.of_nat co / 64 = Z.of_nat da) by (unfold da, sb; lia).
  assert (Hzn : Z.of_nat (h_width h) - Z.of_nat co / 64 - 1 = Z.of_nat n) by (unfold n, sb; lia).
  rewrite Hzs, Hzd, Hzn.
  match type of Hfor with forM _ _ ?m0 = _ => set (M0 := m0) in * end.
  match goal with |- context [mem_of (upd ?p ?v (words mem))] =>
    assert (HM0 : upd p v (words mem) = words M0) by (unfold M0, right_bitmask; wfin);
    rewrite HM0; clear HM0
  end.
  assert (HlM0 : List.length M0 = List.length mem) by (unfold M0; apply upd_length).
  assert (HokM0 : mem_ok M0) by (unfold M0; now apply mem_ok_upd).
  clearbody M0.
  cm_release.
  match goal with |- context [exec zops ?cl LFUEL (Sloop ?cd ?bd ?st) ?E0 ?MM] =>
    pose (E := fun (k : nat) (tv : @val Z) => tset 21%positive (Vint (Z.of_nat k - 1)) (tset 22%positive tv E0));
    change E0 with (E 0%nat Vundef);
    destruct (for_loop_mem cl cd bd st E (fun _ => tset 21%positive (Vint (Z.of_nat n)) (tset 22%positive (Vint 0) E0)) n
                (fun i m => s <- rd m (sa + 1 + i) ;; d <- rd m (da + 1 + i) ;; wr m (da + 1 + i) (N.lxor d s))%nat
                (List.length mem)) with (mem := M0) (m1 := m1) (tv0 := @Vundef Z) as (Hl1 & Hok1 & tv & Hloop)
  end.
  { (* one iteration *)
    intros k tv mk mk' Hkk Hl Hmk HF.
    rewrite rd_ok in HF by lia. cbn [WMat.bind] in HF. rewrite rd_ok in HF by lia. cbn [WMat.bind] in HF.
    rewrite wr_ok in HF by lia. apply wok_inj in HF. subst mk'.
    split; [now rewrite !upd_length|]. split; [now repeat apply mem_ok_upd|].
    eexists. rewrite loop_step_None. unfold E. cm_run.
    replace (Z.of_nat k - 1 + 1) with (Z.of_nat (S k) - 1) by lia.
    do 3 f_equal. wfin. }
  { (* exit *)
    intros tv mk Hl Hmk. rewrite loop_step_None. unfold E. cm_run.
    replace (Z.of_nat n - 1 + 1) with (Z.of_nat n) by lia. reflexivity. }
  { unfold n. lia. }
  { assumption. }
  { assumption. }
  { exact Hfor. }
  rewrite Hloop. cm_run.
  rewrite rd_ok in Hw1 by lia. cbn [WMat.bind] in Hw1. rewrite wr_ok in Hw1 by lia.
  apply wok_inj in Hw1. subst m'. wfin.
Qed.


Theorem acc_row_add_offset_w h fl mem dst src co m' :
  valid h mem -> c_dom h fl mem -> (dst < h_nrows h)%nat -> (src < h_nrows h)%nat -> (co < h_ncols h)%nat ->
  w2_row_add_offset h dst src co mem = WMat.Ok m' ->
  run_acc "mzd_row_add_offset" (hbundle h fl [Vint (Z.of_nat dst); Vint (Z.of_nat src); Vint (Z.of_nat co)]) (words mem) =
  Ok (None, words m').
Proof.
  intros Hv Hd Hdst Hsrc Hco Hw. apply run_acc_intro.
  - rewrite !words_length.
    destruct (w2_row_add_offset_refines h mem dst src co Hv Hdst Hsrc Hco) as (m2 & E2 & L2 & _).
    rewrite Hw in E2. apply wok_inj in E2. now subst.
  - change DEPTH with (S (S 10)). now apply run_mzd_row_add_offset.
Qed.
