(* Leaf/CMiniObs.v — continuation of Leaf/CMiniAcc.v for the observers of m4ri/mzd.c (Leaf/ObsSpecs*.v):
   ONE loop rule for CMini loops that may leave early (`return` / `break` inside the body), stated against a
   small-step functional description [iterG] of the loop, and the bridges from the loop combinators of the
   word-level models (Word/WMat.forM, Word/WOps.firstM, ascending and descending) to [iterG].
   Nothing here depends on a generated file. *)
From Coq Require Import ZArith NArith List String Bool Lia ZifyBool ZifyNat ZifyN.
From M4 Require Import Base.Bits Lin.Ops Word.WMat Word.WOps Leaf.CMini Leaf.CMiniAcc.
Import ListNotations.
Local Open Scope Z_scope.

(** [iterG G k d s]: run iterations k, k+1, .., k+d-1 from state s; an iteration either continues with a new
    state ([inl]) or leaves the loop with a result ([inr]) *)
Fixpoint iterG {St R : Type} (G : nat -> St -> WMat.res (St + R)) (k d : nat) (s : St) : WMat.res (St + R) :=
  match d with
  | O => WMat.Ok (inl s)
  | S d' => WMat.bind (G k s) (fun x => match x with
                                        | inl s' => iterG G (S k) d' s'
                                        | inr r => WMat.Ok (inr r)
                                        end)
  end.

Section LoopGen.
  Variable call : string -> list (@val Z) -> @mem Z -> res (option (@val Z) * @mem Z).
  Variables (c : option expr) (body step : stmt).
  Variables (St T R : Type).
  Variable E : nat -> St -> T -> @env Z * @mem Z.      (* state before iteration k; T: values nobody reads again *)
  Variable n : nat.
  Variable G : nat -> St -> WMat.res (St + R).
  Variable out : R -> @outcome Z.                      (* how the loop is left early *)
  Variable fin : St -> T -> @outcome Z.                (* how it is left when the condition fails *)
  Variable Inv : nat -> St -> Prop.
  Let f := loop_step zops c (exec zops call LFUEL body) (exec zops call LFUEL step).

  Hypothesis Hcont : forall k s t s', (k < n)%nat -> Inv k s -> G k s = WMat.Ok (inl s') ->
    Inv (S k) s' /\ exists t', f (E k s t) = Ok (LCont (E (S k) s' t')).
  Hypothesis Hexit : forall k s t r, (k < n)%nat -> Inv k s -> G k s = WMat.Ok (inr r) ->
    f (E k s t) = Ok (LStop (out r)).
  Hypothesis Hstop : forall s t, Inv n s -> f (E n s t) = Ok (LStop (fin s t)).

  Lemma loop_gen_reach : forall d k s t x, (k + d = n)%nat -> Inv k s -> iterG G k d s = WMat.Ok x ->
    exists j t', (j <= d)%nat /\
      reach f j (E k s t) (match x with inl s' => fin s' t' | inr r => out r end) /\
      match x with inl s' => Inv n s' | inr _ => True end.
  Proof.
    induction d as [|d IH]; intros k s t x Hk HI Hx; cbn [iterG] in Hx.
    - injection Hx as <-. exists 0%nat, t. split; [lia|]. replace k with n in * by lia.
      split; [|assumption]. constructor. now apply Hstop.
    - destruct (bind_inv _ _ _ Hx) as (y & Hy & Hx'). destruct y as [s'|r].
      + destruct (Hcont k s t s' ltac:(lia) HI Hy) as (HI' & t' & Hf).
        destruct (IH (S k) s' t' x ltac:(lia) HI' Hx') as (j & t'' & Hj & Hr & HIn).
        exists (S j), t''. split; [lia|]. split; [|exact HIn]. econstructor; [exact Hf|exact Hr].
      + injection Hx' as <-. exists 0%nat, t. split; [lia|]. split; [|exact I]. constructor.
        apply (Hexit k s t r); [lia|assumption..].
  Qed.

  Lemma loop_gen s0 t0 x : Inv 0%nat s0 -> iterG G 0 n s0 = WMat.Ok x -> Z.of_nat n < 2 ^ 48 ->
    exists t, exec zops call LFUEL (Sloop c body step) (fst (E 0%nat s0 t0)) (snd (E 0%nat s0 t0)) =
              Ok (match x with inl s' => fin s' t | inr r => out r end) /\
              match x with inl s' => Inv n s' | inr _ => True end.
  Proof.
    intros HI Hx Hn. destruct (loop_gen_reach n 0%nat s0 t0 x ltac:(lia) HI Hx) as (j & t & Hj & Hr & HIn).
    exists t. split; [|exact HIn]. apply (exec_Sloop_reach call LFUEL c body step _ _ j).
    - rewrite <- surjective_pairing. exact Hr.
    - apply lfuel_enough. lia.
  Qed.

End LoopGen.

(** the same rule with ONE hypothesis per iteration (the body is run once in the proof) *)
Lemma loop_gen' call c body step (St T R : Type) (E : nat -> St -> T -> @env Z * @mem Z) (n : nat)
  (G : nat -> St -> WMat.res (St + R)) (out : R -> @outcome Z) (fin : St -> T -> @outcome Z)
  (Inv : nat -> St -> Prop) :
  let f := loop_step zops c (exec zops call LFUEL body) (exec zops call LFUEL step) in
  (forall k s t y, (k < n)%nat -> Inv k s -> G k s = WMat.Ok y ->
     match y with
     | inl s' => Inv (S k) s' /\ exists t', f (E k s t) = Ok (LCont (E (S k) s' t'))
     | inr r => f (E k s t) = Ok (LStop (out r))
     end) ->
  (forall s t, Inv n s -> f (E n s t) = Ok (LStop (fin s t))) ->
  forall s0 t0 x, Inv 0%nat s0 -> iterG G 0 n s0 = WMat.Ok x -> Z.of_nat n < 2 ^ 48 ->
  exists t, exec zops call LFUEL (Sloop c body step) (fst (E 0%nat s0 t0)) (snd (E 0%nat s0 t0)) =
            Ok (match x with inl s' => fin s' t | inr r => out r end) /\
            match x with inl s' => Inv n s' | inr _ => True end.
Proof.
  intros f Hiter Hstop s0 t0 x. apply (loop_gen call c body step St T R E n G out fin Inv).
  - intros k s t s' Hk HI HG. exact (Hiter k s t (inl s') Hk HI HG).
  - intros k s t r Hk HI HG. exact (Hiter k s t (inr r) Hk HI HG).
  - exact Hstop.
Qed.

(** * Bridges from the loop combinators of the word-level models *)
Lemma iterG_forM {St R} (F : nat -> St -> WMat.res St) d : forall k s s1,
  forM (seq k d) F s = WMat.Ok s1 ->
  iterG (R:=R) (fun k s => WMat.bind (F k s) (fun s' => WMat.Ok (inl s'))) k d s = WMat.Ok (inl s1).
Proof.
  induction d as [|d IH]; intros k s s1 H; cbn [seq forM iterG] in *.
  - now injection H as <-.
  - destruct (bind_inv _ _ _ H) as (s' & HF & H'). rewrite HF. cbn [WMat.bind]. now apply IH.
Qed.

Definition opt_sum {R} (x : option R) : unit + R := match x with Some v => inr v | None => inl tt end.

Lemma iterG_firstM {R} (g : nat -> WMat.res (option R)) d : forall k r,
  firstM (seq k d) g = WMat.Ok r ->
  iterG (fun k (_ : unit) => WMat.bind (g k) (fun x => WMat.Ok (opt_sum x))) k d tt = WMat.Ok (opt_sum r).
Proof.
  induction d as [|d IH]; intros k r H; cbn [seq firstM iterG] in *.
  - now injection H as <-.
  - destruct (bind_inv _ _ _ H) as (y & Hg & H'). rewrite Hg. cbn [WMat.bind]. destruct y as [v|]; cbn [opt_sum].
    + now injection H' as <-.
    + now apply IH.
Qed.

(** descending loops: for (i = n - 1; i >= 0; --i) *)
Lemma firstM_map {R} (h : nat -> nat) (g : nat -> WMat.res (option R)) l :
  firstM (map h l) g = firstM l (fun k => g (h k)).
Proof. induction l as [|x l IH]; cbn [map firstM]; [reflexivity|]. now rewrite IH. Qed.

Lemma rev_seq_map n : rev (seq 0 n) = map (fun k => (n - 1 - k)%nat) (seq 0 n).
Proof.
  induction n as [|n IH]; [reflexivity|].
  rewrite seq_S at 1. rewrite rev_app_distr. cbn [rev app Nat.add]. rewrite IH.
  change (seq 0 (S n)) with (0%nat :: seq 1 n). cbn [map].
  replace (S n - 1 - 0)%nat with n by lia. f_equal.
  rewrite <- seq_shift, map_map. apply map_ext_in. intros k Hk. apply in_seq in Hk. lia.
Qed.

Lemma firstM_rev_seq {R} (g : nat -> WMat.res (option R)) n :
  firstM (rev (seq 0 n)) g = firstM (seq 0 n) (fun k => g (n - 1 - k)%nat).
Proof. now rewrite rev_seq_map, firstM_map. Qed.
