(* Leaf/ObsSpecs8.v — mzd_find_pivot (m4ri/mzd.c:1686) as translated into Leaf/Gen_observers.v, part 3:
   composition with the refinement theorem of Word/WRefine12.v, satisfiability of the hypotheses, one concrete run
   on a windowed matrix with foreign bits in the padding, and the overflow of `j += m4ri_radix`.
   PARTIAL: only the path for fewer than 64 remaining columns is proven (Leaf/ObsSpecs7.v). *)
From Coq Require Import ZArith NArith List String Bool Lia ZifyBool ZifyNat ZifyN.
From M4 Require Import Base.Bits Lin.Mat Lin.Ops Word.WMat Word.WMatLemmas Word.WOps Word.WRefine12
  Leaf.CMini Leaf.CMiniAcc Leaf.CMiniAcc2 Leaf.CMiniObs Leaf.AccessSpecs Leaf.Gen_observers Leaf.ObsSpecs
  Leaf.ObsSpecs6 Leaf.ObsSpecs7.
Import ListNotations.
Local Open Scope Z_scope.
Ltac Zify.zify_post_hook ::= Z.div_mod_to_equations.

(** [obs_find_pivot_w_partial] = Leaf/ObsSpecs7.v [obs_find_pivot_w_narrow] under the name announced for the
    restricted statement.

    FULL STATEMENTS (not proven here; the missing part is the branch `A->ncols - start_col >= m4ri_radix`,
    mzd.c:1713-1790: first word under mask_begin, complete words, last word under mask_end):
      Theorem obs_find_pivot_w h fl mem r0 c0 res :
        valid h mem -> c_dom h fl mem -> (r0 <= h_nrows h)%nat -> (c0 < h_ncols h)%nat ->
        ((h_ncols h - c0 < 64)%nat -> Z.of_nat c0 + 64 <= 2147483647) ->
        w_find_pivot h r0 c0 mem = WMat.Ok res ->
        run zops obs_prog LFUEL DEPTH "mzd_find_pivot" (pivot_args h fl r0 c0) (mem2 (words mem) 2 TLeaf) =
        Ok (Some (Vint (match res with Some _ => 1 | None => 0 end)), mem2 (words mem) 2 (pivot_cells res)).
      Theorem mzd_find_pivot_spec : the same with res := find_pivot (abs h mem) r0 c0 and without the w_find_pivot
        hypothesis.
    The partial theorems below are these statements with the additional hypothesis (h_ncols h - c0 < 64)%nat.
    [find_pivot_run_example] evaluates the translated function through the missing branch on one windowed matrix.
    The tools for the missing branch are in Leaf/ObsSpecs6.v ([scanG] with a break bit, [scanG_inv], [fsb_iterG],
    [first_set_bit_some], [get_bit_tb], [loop_gen2], [over]); the proof of the narrow path in Leaf/ObsSpecs7.v is
    the pattern (row scan, test of `data`, store of *r, bit search with the store of *c in the exit). *)
Theorem obs_find_pivot_w_partial h fl mem r0 c0 res :
  valid h mem -> c_dom h fl mem -> (r0 <= h_nrows h)%nat -> (c0 < h_ncols h)%nat ->
  (h_ncols h - c0 < 64)%nat -> Z.of_nat c0 + 64 <= 2147483647 ->
  w_find_pivot h r0 c0 mem = WMat.Ok res ->
  run zops obs_prog LFUEL DEPTH "mzd_find_pivot" (pivot_args h fl r0 c0) (mem2 (words mem) 2 TLeaf) =
  Ok (Some (Vint (match res with Some _ => 1 | None => 0 end)), mem2 (words mem) 2 (pivot_cells res)).
Proof. exact (obs_find_pivot_w_narrow h fl mem r0 c0 res). Qed.

(** composed with Word/WRefine12.v: the translated C function returns what Lin/Ops.v [find_pivot] returns on the
    viewed matrix [abs h mem] (bits of the parent beyond ncols and the words between the rows do not matter), writes
    exactly the cells *r, *c when it returns 1 and nothing when it returns 0, and leaves the word array unchanged *)
Theorem mzd_find_pivot_spec_partial h fl mem r0 c0 :
  valid h mem -> c_dom h fl mem -> (r0 <= h_nrows h)%nat -> (c0 < h_ncols h)%nat ->
  (h_ncols h - c0 < 64)%nat -> Z.of_nat c0 + 64 <= 2147483647 ->
  run zops obs_prog LFUEL DEPTH "mzd_find_pivot" (pivot_args h fl r0 c0) (mem2 (words mem) 2 TLeaf) =
  Ok (Some (Vint (match find_pivot (abs h mem) r0 c0 with Some _ => 1 | None => 0 end)),
      mem2 (words mem) 2 (pivot_cells (find_pivot (abs h mem) r0 c0))).
Proof.
  intros Hv Hd Hr0 Hc0 Hn Hov. apply obs_find_pivot_w_narrow; try assumption. now apply w_find_pivot_ok.
Qed.

(** the hypotheses are satisfiable: a 3 x 70 window at offset 5 of a larger array; columns 40..69 remain *)
Example find_pivot_dom_example :
  let h := window_hdr (init_hdr 6 200) 1 64 4 134 in
  let mem := repeat 0%N 30 in
  valid h mem /\ c_dom h 4 mem /\ (1 <= h_nrows h)%nat /\ (40 < h_ncols h)%nat /\ (h_ncols h - 40 < 64)%nat /\
  Z.of_nat 40 + 64 <= 2147483647 /\ h_off h = 5%nat.
Proof.
  cbv zeta. split; [apply validb_spec; reflexivity|]. split; [|cbn; lia].
  unfold c_dom. cbn. lia.
Qed.

(** one concrete run: the 3 x 70 window at offset 5 (row i = words 5+4i, 6+4i; columns 64..69 = bits 0..5 of the
    second word, the bits above belong to the parent).  Row 0 is full of ones (excluded by start_row = 1), row 1 has
    column 67 and foreign bits, row 2 has column 50 and foreign bits: the pivot of rows >= 1, columns >= 40 is (2, 50). *)
Definition ex_mem : list N :=
  [0;0;0;0;0; 18446744073709551615;63;7;7; 0;1048584;7;7; 1125899906842624;9223372036854775808;7;7;
   0;0;0;0;0;0;0;0;0;0;0;0;0]%N.

Example find_pivot_run_example :
  let h := window_hdr (init_hdr 6 200) 1 64 4 134 in
  valid h ex_mem /\ find_pivot (abs h ex_mem) 1 40 = Some (2, 50)%nat /\
  run zops obs_prog LFUEL DEPTH "mzd_find_pivot" (pivot_args h 4 1 40) (mem2 (words ex_mem) 2 TLeaf) =
  Ok (Some (Vint 1), mem2 (words ex_mem) 2 (pivot_cells (Some (2, 50)%nat))) /\
  (* the same pivot through the multi-word paths (start_col = 3), by evaluation *)
  run zops obs_prog LFUEL DEPTH "mzd_find_pivot" (pivot_args h 4 1 3) (mem2 (words ex_mem) 2 TLeaf) =
  Ok (Some (Vint 1), mem2 (words ex_mem) 2 (pivot_cells (Some (2, 50)%nat))).
Proof.
  cbv zeta. split; [apply validb_spec; reflexivity|]. split; [vm_compute; reflexivity|].
  split; vm_compute; reflexivity.
Qed.

(** FINDING (undefined behaviour at the edge of the index type): `j += m4ri_radix` (mzd.c:1692) overflows `int` after an
    unsuccessful scan when start_col > INT_MAX - 64.  Concrete input: a 0 x 2147483647 matrix (no word is read),
    start_row = 0, start_col = 2147483600. *)
Example find_pivot_overflow :
  run zops obs_prog LFUEL DEPTH "mzd_find_pivot"
    (bundle 0 2147483647 33554432 33554432 0 9223372036854775807 0
       [Vint 0; Vint 2147483600; Vptr 2%positive 0; Vint 0; Vptr 2%positive 0; Vint 1]) (mem2 [] 2 TLeaf) =
  UB "signed overflow".
Proof. vm_compute. reflexivity. Qed.

(** * Towards the branch for at least 64 remaining columns (NOT finished)
    [mask_begin_Z]: the value of `__M4RI_RIGHT_BITMASK(m4ri_radix - bit_offset)` as the C text computes it. *)
Lemma mask_begin_Z bo : (bo < 64)%nat ->
  Z.shiftl ((-1) mod M64) (64 - (64 - Z.of_nat bo)) mod M64 = Z.of_N (right_bitmask (64 - bo)).
Proof.
  intros H. unfold right_bitmask. rewrite of_N_shl. change (Z.of_N ffff) with ((-1) mod M64). do 2 f_equal. lia.
Qed.


(* PROOF SCRIPT IN PROGRESS for the missing branch (checked up to the marked point with the files of this directory:
   entry, bit_offset / word_offset / mask_begin, the row scan of the first word with its `break`, the test of `data`
   and the store of *r all go through, 66 s).  What remains follows the same pattern: the bit search of the first
   word, the loop over the complete words (outer [loop_gen2] over wi with St = unit and G from
   [CMiniObs.iterG_firstM]; inside, [scanG (fun i => rd mem (row_addr h i + wi)) (Some 0) r0] from state (0, cand) -
   [scanG_inv] gives "data = 0 -> candidate unchanged", which re-establishes the outer loop state - and the bit
   search over 64 bits), and the last word under mask_end ([first_set_bit_some] needs the bits >= end_offset of the
   masked word to be zero: [testbit_left_bitmask]).

Theorem obs_find_pivot_w_wide h fl mem r0 c0 res :
  valid h mem -> c_dom h fl mem -> (r0 <= h_nrows h)%nat -> (c0 < h_ncols h)%nat ->
  (64 <= h_ncols h - c0)%nat ->
  w_find_pivot h r0 c0 mem = WMat.Ok res ->
  run zops obs_prog LFUEL DEPTH "mzd_find_pivot" (pivot_args h fl r0 c0) (mem2 (words mem) 2 TLeaf) =
  Ok (Some (Vint (match res with Some _ => 1 | None => 0 end)), mem2 (words mem) 2 (pivot_cells res)).
Proof.
  intros Hv Hd Hr0 Hc0 Hwide Hw.
  pose proof (valid_hdr_ok _ _ Hv) as Hok. pose proof (valid_mem_ok _ _ Hv) as Hm.
  pose proof Hd as (D1 & D2 & D3 & D4 & D5 & D6). pose proof Hok as (HW & _).
  unfold w_find_pivot in Hw. cbv zeta in Hw.
  destruct (Nat.ltb_spec (h_ncols h - c0) 64) as [?|_]; [lia|].
  set (bo := (c0 mod 64)%nat) in *. set (wo := (c0 / 64)%nat) in *.
  assert (HwoW : (wo < h_width h)%nat) by (subst wo; rewrite HW; lia).
  assert (Hbo : (bo < 64)%nat) by (subst bo; lia).
  destruct (bind_inv _ _ _ Hw) as ([data cand] & Hscan & Hres). clear Hw.
  unfold pivot_args, hbundle. change DEPTH with (S (S (S (S 8)))).
  co_enter "mzd_find_pivot"%string f_mzd_find_pivot.
  match goal with |- context [exec zops ?cl ?lf ?s ?E0 ?M0] => rewrite <- (over_leaf E0) end.
  cm_run2. cm_release. cm_clear.
  replace (Z.of_nat c0 mod 64) with (Z.of_nat bo) by (subst bo; lia).
  replace (Z.of_nat c0 / 64) with (Z.of_nat wo) by (subst wo; lia).
  rewrite mask_begin_Z by assumption.
  set (rows := seq r0 (h_nrows h - r0)) in *.
  destruct (pivot_scan_iterG _ _ _ _ _ _ Hscan) as (xs & Hxs & Hus).
  set (ld1 := fun i : nat => WMat.bind (rd mem (row_addr h i + wo)) (fun w => WMat.Ok (N.land w (right_bitmask (64 - bo))))) in *.
  assert (Hload : forall i w, ld1 i = WMat.Ok w ->
            (forall j, (j < bo)%nat -> N.testbit w (N.of_nat j) = false) /\ (w < 2 ^ 64)%N).
  { intros i w Hi. unfold ld1 in Hi. destruct (bind_inv _ _ _ Hi) as (w0 & H0 & H1). apply rd_inv in H0. subst w0.
    apply wok_inj in H1. subst w. split; [|apply land_lt_l; now apply mem_ok_word].
    intros j Hj. rewrite N.land_spec, testbit_right_bitmask.
    destruct (Nat.leb_spec (64 - (64 - bo)) j); [lia|]. cbn [andb]. apply andb_false_r. }
  pose proof (scanG_inv _ (Some bo) r0 _ 0%nat Hload _ _ _ _ Hxs) as HQ. rewrite Hus in HQ.
  destruct HQ as (Qlo & Qlt & Qc); [repeat split; try reflexivity; intros; apply N.bits_0|]. cbn [fst snd] in Qlo, Qlt, Qc.
  match goal with |- context [exec zops ?cl LFUEL (Sloop ?cd ?bd ?st) (over ?A0 ?T0) ?M0] =>
    pose (Ks := fun (s : N * nat) => tdel 28%positive (tset 18%positive (Vint (Z.of_nat (snd s)))
                 (tset 17%positive (Vint (Z.of_N (fst s))) A0)));
    pose (Es := fun (k : nat) (s : N * nat) (t : @env Z) =>
      @pair (@env Z) (@CMini.mem Z)
        (over (tset 28%positive (Vint (Z.of_nat (r0 + k))) (tset 18%positive (Vint (Z.of_nat (snd s)))
                 (tset 17%positive (Vint (Z.of_N (fst s))) A0))) t) M0);
    replace (exec zops cl LFUEL (Sloop cd bd st) (over A0 T0) M0)
      with (exec zops cl LFUEL (Sloop cd bd st) (fst (Es 0%nat (0%N, 0%nat) (over A0 T0))) (snd (Es 0%nat (0%N, 0%nat) (over A0 T0))))
      by (unfold Es; cbn [fst snd]; f_equal; symmetry; apply over_sub_eq; sub_solve);
    destruct (loop_gen2 cl cd bd st (N * nat)%type (@env Z) (N * nat)%type Es (h_nrows h - r0)%nat
                (scanG ld1 (Some bo) r0)
                (fun s t => ONormal (over (Ks s) t) M0)
                (fun s t => ONormal (over (Ks s) t) M0)
                (fun _ s => (fst s < 2 ^ 64)%N))
      with (s0 := (0%N, 0%nat)) (t0 := over A0 T0) (x := xs)
      as (ts & Hloops & _)
  end.
  { intros k [d c] ti y Hki HI HG. cbn [fst snd] in HI.
    destruct (dom_facts h fl mem (r0 + k) wo Hv Hd ltac:(lia) HwoW) as (Hp & Hri & Hra & Hbig & Hii).
    unfold scanG in HG. cbn [fst] in HG. unfold ld1 in HG. rewrite rd_ok in HG by lia. cbn [WMat.bind] in HG.
    set (curr := N.land (word_at mem (row_addr h (r0 + k) + wo)) (right_bitmask (64 - bo))) in *.
    assert (Hcl : (curr < 2 ^ 64)%N) by (apply land_lt_l; now apply mem_ok_word).
    destruct (lesser_LSB curr d) eqn:EL; [destruct (N.testbit curr (N.of_nat bo)) eqn:ET|]; apply wok_inj in HG; subst y;
      [|split; [exact Hcl|]|split; [exact HI|]].
    all: ex_late; loop_unfold Es; cm_run2; rewrite run_mzd_row_const_o by lia; cm_run2.
    all: match goal with |- context [run zops obs_prog LFUEL _ "m4ri_lesser_LSB" [Vint ?a; Vint ?b] _] =>
           replace a with (Z.of_N curr) by (symmetry; unfold curr; n2z; wnorm; weq) end.
    all: rewrite run_lesser_LSB_o by assumption; rewrite EL; cbn [Z.b2z]; cm_run2.
    1,2: rewrite get_bit_tb by lia; rewrite Z_to_N_of_nat, ET; cbn [Z.b2z]; cm_run2.
    all: unfold Ks; cbn [fst snd]; ex_close. }
  { intros [d c] ti HI. ex_late. loop_unfold Es. cm_run2. unfold Ks. cbn [fst snd]. ex_close. }
  { reflexivity. }
  { exact Hxs. }
  { lia. }
  rewrite Hloops. clear Hloops.
  assert (Hx' : forall (f : N * nat -> @outcome Z), match xs with inl s' => f s' | inr r' => f r' end = f (data, cand))
    by (intros f; destruct xs; cbn [unsum] in Hus; subst; reflexivity).
  rewrite (Hx' (fun s => ONormal (over (Ks s) ts) (mem2 (words mem) 2 TLeaf))). clear Hx'.
  unfold Ks; cbn [fst snd]. clear Hxs Hus xs Es Ks.
  cm_run2. rewrite of_N_eqb0. destruct (N.eqb_spec data 0) as [->|Hnz]; cbn [negb] in *.
  2:{ (* pivot in the first word *)
      cm_run2.
      (* here: the bit search `for (l = 0; l < 64 - bit_offset; ++l)` on data >> bit_offset, as in ObsSpecs7 *)
*)

Print Assumptions mzd_find_pivot_spec_partial.
