(* Leaf/ObsSpecs8.v — mzd_find_pivot (m4ri/mzd.c:1686) as translated into Leaf/Gen_observers.v, part 3:
   composition with the refinement theorem of Word/WRefine12.v, satisfiability of the hypotheses, one concrete run
   on a windowed matrix with foreign bits in the padding, and the overflow of `j += m4ri_radix`.
   The theorems of this file are the ones for fewer than 64 remaining columns (Leaf/ObsSpecs7.v), kept under their
   `_partial` names; the FULL theorems [obs_find_pivot_w], [mzd_find_pivot_spec] are in Leaf/ObsSpecs13.v
   (other branch: Leaf/ObsSpecs11.v, ObsSpecs12.v, ObsSpecs13.v). *)
From Coq Require Import ZArith NArith List String Bool Lia ZifyBool ZifyNat ZifyN.
From M4 Require Import Base.Bits Lin.Mat Lin.Ops Word.WMat Word.WMatLemmas Word.WOps Word.WRefine12
  Leaf.CMini Leaf.CMiniAcc Leaf.CMiniAcc2 Leaf.CMiniObs Leaf.AccessSpecs Leaf.Gen_observers Leaf.ObsSpecs
  Leaf.ObsSpecs6 Leaf.ObsSpecs7.
Import ListNotations.
Local Open Scope Z_scope.
Ltac Zify.zify_post_hook ::= Z.div_mod_to_equations.

(** [obs_find_pivot_w_partial] = Leaf/ObsSpecs7.v [obs_find_pivot_w_narrow] under the name announced for the
    restricted statement.

    The full statements (without the hypothesis (h_ncols h - c0 < 64)%nat; the bound on start_col + 64 only under
    that condition) are [obs_find_pivot_w] and [mzd_find_pivot_spec] in Leaf/ObsSpecs13.v. *)
Theorem obs_find_pivot_w_partial h fl mem r0 c0 res :
  valid h mem -> c_dom h fl mem -> (r0 <= h_nrows h)%nat -> (c0 < h_ncols h)%nat ->
  (h_ncols h - c0 < 64)%nat -> Z.of_nat c0 + 64 <= 2147483647 ->
  w_find_pivot h r0 c0 mem = WMat.Ok res ->
  run zops obs_prog LFUEL DEPTH "mzd_find_pivot" (pivot_args h fl r0 c0) (mem2 (words mem) 2 TLeaf) =
  Ok (Some (Vint (match res with Some _ => 1 | None => 0 end)), mem2 (words mem) 2 (pivot_cells res)).
Proof. exact (obs_find_pivot_w_narrow h fl mem r0 c0 res). Qed.

(** composed with Word/WRefine12.v: the translated C function returns what Lin/Ops.v [find_pivot] returns on the
    viewed matrix [abs h mem] (bits of the parent beyond ncols and the words between the rows do not matter), writes
    exactly the cells *r, *c when it returns 1 and nothing when it returns 0, and leaves the word array unchanged *)
Theorem mzd_find_pivot_spec_partial h fl mem r0 c0 :
  valid h mem -> c_dom h fl mem -> (r0 <= h_nrows h)%nat -> (c0 < h_ncols h)%nat ->
  (h_ncols h - c0 < 64)%nat -> Z.of_nat c0 + 64 <= 2147483647 ->
  run zops obs_prog LFUEL DEPTH "mzd_find_pivot" (pivot_args h fl r0 c0) (mem2 (words mem) 2 TLeaf) =
  Ok (Some (Vint (match find_pivot (abs h mem) r0 c0 with Some _ => 1 | None => 0 end)),
      mem2 (words mem) 2 (pivot_cells (find_pivot (abs h mem) r0 c0))).
Proof.
  intros Hv Hd Hr0 Hc0 Hn Hov. apply obs_find_pivot_w_narrow; try assumption. now apply w_find_pivot_ok.
Qed.

(** the hypotheses are satisfiable: a 3 x 70 window at offset 5 of a larger array; columns 40..69 remain *)
Example find_pivot_dom_example :
  let h := window_hdr (init_hdr 6 200) 1 64 4 134 in
  let mem := repeat 0%N 30 in
  valid h mem /\ c_dom h 4 mem /\ (1 <= h_nrows h)%nat /\ (40 < h_ncols h)%nat /\ (h_ncols h - 40 < 64)%nat /\
  Z.of_nat 40 + 64 <= 2147483647 /\ h_off h = 5%nat.
Proof.
  cbv zeta. split; [apply validb_spec; reflexivity|]. split; [|cbn; lia].
  unfold c_dom. cbn. lia.
Qed.

(** one concrete run: the 3 x 70 window at offset 5 (row i = words 5+4i, 6+4i; columns 64..69 = bits 0..5 of the
    second word, the bits above belong to the parent).  Row 0 is full of ones (excluded by start_row = 1), row 1 has
    column 67 and foreign bits, row 2 has column 50 and foreign bits: the pivot of rows >= 1, columns >= 40 is (2, 50). *)
Definition ex_mem : list N :=
  [0;0;0;0;0; 18446744073709551615;63;7;7; 0;1048584;7;7; 1125899906842624;9223372036854775808;7;7;
   0;0;0;0;0;0;0;0;0;0;0;0;0]%N.

Example find_pivot_run_example :
  let h := window_hdr (init_hdr 6 200) 1 64 4 134 in
  valid h ex_mem /\ find_pivot (abs h ex_mem) 1 40 = Some (2, 50)%nat /\
  run zops obs_prog LFUEL DEPTH "mzd_find_pivot" (pivot_args h 4 1 40) (mem2 (words ex_mem) 2 TLeaf) =
  Ok (Some (Vint 1), mem2 (words ex_mem) 2 (pivot_cells (Some (2, 50)%nat))) /\
  (* the same pivot through the multi-word paths (start_col = 3), by evaluation *)
  run zops obs_prog LFUEL DEPTH "mzd_find_pivot" (pivot_args h 4 1 3) (mem2 (words ex_mem) 2 TLeaf) =
  Ok (Some (Vint 1), mem2 (words ex_mem) 2 (pivot_cells (Some (2, 50)%nat))).
Proof.
  cbv zeta. split; [apply validb_spec; reflexivity|]. split; [vm_compute; reflexivity|].
  split; vm_compute; reflexivity.
Qed.

(** FINDING (undefined behaviour at the edge of the index type): `j += m4ri_radix` (mzd.c:1692) overflows `int` after an
    unsuccessful scan when start_col > INT_MAX - 64.  Concrete input: a 0 x 2147483647 matrix (no word is read),
    start_row = 0, start_col = 2147483600. *)
Example find_pivot_overflow :
  run zops obs_prog LFUEL DEPTH "mzd_find_pivot"
    (bundle 0 2147483647 33554432 33554432 0 9223372036854775807 0
       [Vint 0; Vint 2147483600; Vptr 2%positive 0; Vint 0; Vptr 2%positive 0; Vint 1]) (mem2 [] 2 TLeaf) =
  UB "signed overflow".
Proof. vm_compute. reflexivity. Qed.

(** * For the branch for at least 64 remaining columns (Leaf/ObsSpecs13.v)
    [mask_begin_Z]: the value of `__M4RI_RIGHT_BITMASK(m4ri_radix - bit_offset)` as the C text computes it. *)
Lemma mask_begin_Z bo : (bo < 64)%nat ->
  Z.shiftl ((-1) mod M64) (64 - (64 - Z.of_nat bo)) mod M64 = Z.of_N (right_bitmask (64 - bo)).
Proof.
  intros H. unfold right_bitmask. rewrite of_N_shl. change (Z.of_N ffff) with ((-1) mod M64). do 2 f_equal. lia.
Qed.


Print Assumptions mzd_find_pivot_spec_partial.
