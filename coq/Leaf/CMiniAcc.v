(* Leaf/CMiniAcc.v — plumbing for theorems about CMini functions run on ONE word array with SYMBOLIC
   integer arguments (Leaf/AccessSpecs*.v: the accessor family of m4ri/mzd.h, Leaf/Gen_access.v).
   Nothing here depends on a generated file.

   * [mem_of ws]: the memory whose block 1 holds the words [ws]; loads and stores on it are list
     operations ([load_mem_of], [store_mem_of]: equalities between memories, so that a run can be
     followed by rewriting); [read_back] reads block 1 back.
   * ranges: [in_range]/[convert]/[arith] on the LP64 types from interval hypotheses.
   * loops: [reach] (k iterations continue, the next evaluation of the loop step stops) and
     [exec_Sloop_reach] (logarithmic fuel is enough) — restated from Leaf/LeafSpecs3.v so that this
     file does not depend on Gen_leaf.v.
   * tactics: [cm_eval] unfolds the interpreter by [cbn] with a whitelist that leaves all integer
     arithmetic folded; [cm_if tac] resolves the first stuck test; [cm_run tac] iterates both. *)
From Coq Require Import ZArith NArith List String Bool Lia ZifyBool ZifyNat ZifyN.
From M4 Require Import Lin.Ops Leaf.CMini.
Import ListNotations.
Local Open Scope Z_scope.
Ltac Zify.zify_post_hook ::= Z.div_mod_to_equations.

(** * Tries *)
Lemma tset_tset_same {A} p (v w : A) t : tset p v (tset p w t) = tset p v t.
Proof. revert t; induction p as [q IH|q IH|]; intros [|l o r]; cbn; try reflexivity; now rewrite IH. Qed.

Lemma tset_comm {A} p q (v w : A) t : p <> q -> tset p v (tset q w t) = tset q w (tset p v t).
Proof.
  revert q t; induction p as [p IH|p IH|]; intros [q|q|] [|l o r] Hne; cbn; try reflexivity; try congruence;
    try (rewrite IH by congruence; reflexivity).
Qed.

(** * One word array *)
Lemma key_inj i j : 0 <= i -> 0 <= j -> key i = key j -> i = j.
Proof. unfold key. intros Hi Hj H. apply Z2Pos.inj in H; lia. Qed.

Lemma data_of_list_tset_out (l : list Z) : forall i t p v,
  (forall j, i <= j < i + Z.of_nat (List.length l) -> p <> key j) ->
  tset p v (data_of_list l i t) = data_of_list l i (tset p v t).
Proof.
  induction l as [|x l IH]; intros i t p v Hp; cbn [data_of_list]; [reflexivity|].
  cbn [List.length] in Hp. rewrite IH by (intros j Hj; apply Hp; lia).
  rewrite tset_comm; [reflexivity|]. apply Hp. lia.
Qed.

Lemma data_of_list_upd (l : list Z) : forall i t k v, 0 <= i -> (k < List.length l)%nat ->
  tset (key (i + Z.of_nat k)) v (data_of_list l i t) = data_of_list (upd k v l) i t.
Proof.
  induction l as [|x l IH]; intros i t k v Hi Hk; cbn [List.length] in Hk; [lia|].
  destruct k as [|k]; cbn [upd data_of_list].
  - rewrite Z.add_0_r. rewrite data_of_list_tset_out.
    + now rewrite tset_tset_same.
    + intros j Hj E. apply key_inj in E; lia.
  - replace (i + Z.of_nat (S k)) with (i + 1 + Z.of_nat k) by lia. apply IH; lia.
Qed.

Lemma tget_data_of_list (l : list Z) : forall i t j, 0 <= i -> 0 <= j ->
  tget (key j) (data_of_list l i t) =
  if (i <=? j) && (j <? i + Z.of_nat (List.length l)) then Some (nth (Z.to_nat (j - i)) l 0)
  else tget (key j) t.
Proof.
  induction l as [|v l IH]; intros i t j Hi Hj; cbn [data_of_list List.length].
  - destruct (Z.leb_spec i j), (Z.ltb_spec j (i + Z.of_nat 0)); cbn [andb]; try reflexivity. lia.
  - rewrite IH by lia. rewrite Nat2Z.inj_succ.
    destruct (Z.leb_spec (i + 1) j), (Z.ltb_spec j (i + 1 + Z.of_nat (List.length l))); cbn [andb].
    + destruct (Z.leb_spec i j), (Z.ltb_spec j (i + Z.succ (Z.of_nat (List.length l)))); cbn [andb]; try lia.
      replace (Z.to_nat (j - i)) with (S (Z.to_nat (j - (i + 1)))) by lia. reflexivity.
    + destruct (Z.leb_spec i j), (Z.ltb_spec j (i + Z.succ (Z.of_nat (List.length l)))); cbn [andb]; try lia.
      all: rewrite tget_tset_other; [reflexivity|intros E; apply key_inj in E; lia].
    + destruct (Z.leb_spec i j), (Z.ltb_spec j (i + Z.succ (Z.of_nat (List.length l)))); cbn [andb]; try lia.
      * replace j with i by lia. rewrite tget_tset_same. replace (i - i) with 0 by lia. reflexivity.
      * rewrite tget_tset_other; [reflexivity|intros E; apply key_inj in E; lia].
    + destruct (Z.leb_spec i j), (Z.ltb_spec j (i + Z.succ (Z.of_nat (List.length l)))); cbn [andb]; try lia.
      all: rewrite tget_tset_other; [reflexivity|intros E; apply key_inj in E; lia].
Qed.

Lemma upd_length_Z {A} k (v : A) l : List.length (upd k v l) = List.length l.
Proof. revert k; induction l as [|x l IH]; intros [|k]; cbn; auto. Qed.

(** the memory in which block 1 holds the words [ws] (what [alloc_list empty_mem ws] builds) *)
Definition mem_of (ws : list Z) : @mem Z := fst (alloc_list (@empty_mem Z) ws).

Lemma mem_of_eq ws : mem_of ws =
  {| m_next := 2%positive;
     m_blocks := TNode TLeaf (Some {| b_ext := Z.of_nat (List.length ws); b_data := data_of_list ws 0 TLeaf |}) TLeaf |}.
Proof. reflexivity. Qed.

Lemma load_mem_of ws i : 0 <= i < Z.of_nat (List.length ws) ->
  load (mem_of ws) 1%positive i = Ok (Vint (nth (Z.to_nat i) ws 0)).
Proof.
  intros Hi. rewrite mem_of_eq. unfold load. cbn [tget m_blocks]. unfold in_ext. cbn [b_ext b_data].
  destruct (Z.leb_spec 0 i); [|lia]. destruct (Z.ltb_spec i (Z.of_nat (List.length ws))); [|lia]. cbn [andb].
  rewrite tget_data_of_list by lia.
  destruct (Z.leb_spec 0 i); [|lia]. destruct (Z.ltb_spec i (0 + Z.of_nat (List.length ws))); [|lia]. cbn [andb].
  now rewrite Z.sub_0_r.
Qed.

Lemma store_mem_of ws i v : 0 <= i < Z.of_nat (List.length ws) ->
  store (mem_of ws) 1%positive i (Vint v) = Ok (mem_of (upd (Z.to_nat i) v ws)).
Proof.
  intros Hi. rewrite !mem_of_eq. unfold store. cbn [tget m_blocks]. unfold in_ext. cbn [b_ext b_data m_next].
  destruct (Z.leb_spec 0 i); [|lia]. destruct (Z.ltb_spec i (Z.of_nat (List.length ws))); [|lia]. cbn [andb tset].
  rewrite upd_length_Z. do 5 f_equal.
  replace i with (0 + Z.of_nat (Z.to_nat i)) at 1 by lia. apply data_of_list_upd; lia.
Qed.

Lemma load_mem_of_oob ws i : ~ (0 <= i < Z.of_nat (List.length ws)) -> load (mem_of ws) 1%positive i = OOB.
Proof.
  intros Hi. rewrite mem_of_eq. unfold load. cbn [tget m_blocks]. unfold in_ext. cbn [b_ext].
  destruct (Z.leb_spec 0 i), (Z.ltb_spec i (Z.of_nat (List.length ws))); cbn [andb]; try reflexivity. lia.
Qed.

(** reading block 1 back *)
Fixpoint all_some {A} (l : list (option A)) : option (list A) :=
  match l with
  | [] => Some []
  | None :: _ => None
  | Some a :: r => match all_some r with Some r' => Some (a :: r') | None => None end
  end.

Definition read_back (m : @mem Z) (n : nat) : option (list Z) :=
  all_some (map (fun i => read_elem m 1%positive (Z.of_nat i)) (seq 0 n)).

Lemma all_some_map_Some {A B} (f : A -> B) l : all_some (map (fun x => Some (f x)) l) = Some (map f l).
Proof. induction l as [|x l IH]; cbn; [reflexivity|]. now rewrite IH. Qed.

Lemma read_back_mem_of ws : read_back (mem_of ws) (List.length ws) = Some ws.
Proof.
  unfold read_back.
  rewrite (map_ext_in _ (fun i => Some (nth i ws 0))).
  - rewrite all_some_map_Some. f_equal. apply (nth_ext _ _ 0 0).
    + now rewrite map_length, seq_length.
    + intros i Hi. rewrite map_length, seq_length in Hi.
      rewrite (nth_indep _ 0 ((fun i => nth i ws 0) 0%nat)) by now rewrite map_length, seq_length.
      rewrite (map_nth (fun i => nth i ws 0)). now rewrite seq_nth by assumption.
  - intros i Hi. apply in_seq in Hi. unfold read_elem. rewrite mem_of_eq. cbn [tget m_blocks b_data].
    rewrite tget_data_of_list by lia.
    destruct (Z.leb_spec 0 (Z.of_nat i)); [|lia].
    destruct (Z.ltb_spec (Z.of_nat i) (0 + Z.of_nat (List.length ws))); [|lia]. cbn [andb].
    now rewrite Z.sub_0_r, Nat2Z.id.
Qed.

(** * Ranges of the LP64 types *)
Lemma in_range_tint z : -2147483648 <= z <= 2147483647 -> in_range tint z = true.
Proof. unfold in_range, tmin, tmax; cbn. lia. Qed.
Lemma in_range_tlong z : -9223372036854775808 <= z <= 9223372036854775807 -> in_range tlong z = true.
Proof. unfold in_range, tmin, tmax; cbn. lia. Qed.

Lemma arith_tint z : -2147483648 <= z <= 2147483647 -> arith tint z = Ok z.
Proof. intros H. unfold arith. cbn [signed tint]. now rewrite in_range_tint. Qed.
Lemma arith_tlong z : -9223372036854775808 <= z <= 9223372036854775807 -> arith tlong z = Ok z.
Proof. intros H. unfold arith. cbn [signed tlong]. now rewrite in_range_tlong. Qed.

Definition M64 : Z := 18446744073709551616.
Lemma arith_tulong z : arith tulong z = Ok (z mod M64).
Proof. reflexivity. Qed.

Lemma convert_tlong z : -9223372036854775808 <= z <= 9223372036854775807 -> convert tlong z = z.
Proof. intros H. unfold convert. cbn [signed tlong wd whalf wmod]. lia. Qed.
Lemma convert_tint z : -2147483648 <= z <= 2147483647 -> convert tint z = z.
Proof. intros H. unfold convert. cbn [signed tint wd whalf wmod]. lia. Qed.
Lemma convert_tulong z : convert tulong z = z mod M64.
Proof. reflexivity. Qed.
Lemma convert_tulong_id z : 0 <= z < M64 -> convert tulong z = z.
Proof. intros H. rewrite convert_tulong. apply Z.mod_small. exact H. Qed.

(** C division and remainder of non-negative operands *)
Lemma quot_nonneg a b : 0 <= a -> 0 < b -> Z.quot a b = a / b.
Proof. intros. apply Z.quot_div_nonneg; lia. Qed.
Lemma rem_nonneg a b : 0 <= a -> 0 < b -> Z.rem a b = a mod b.
Proof. intros. apply Z.rem_mod_nonneg; lia. Qed.

(** * Loops with logarithmic fuel *)
Section IterLog.
  Context {S R : Type} (f : S -> res (lstep S R)).

  (** [reach k s r]: k iterations continue, the (k+1)-st evaluation of [f] stops with [r] *)
  Inductive reach : nat -> S -> R -> Prop :=
  | reach0 s r : f s = Ok (LStop r) -> reach 0 s r
  | reachS k s s' r : f s = Ok (LCont s') -> reach k s' r -> reach (Datatypes.S k) s r.

  Lemma iter_log_cont n : forall k s r, reach k s r -> (2 ^ n <= k)%nat ->
    exists s', iter_log n f s = Ok (LCont s') /\ reach (k - 2 ^ n) s' r.
  Proof.
    induction n as [|n IH]; intros k s r Hr Hk; cbn [iter_log].
    - cbn in Hk. inversion Hr; subst; [lia|]. exists s'. split; [assumption|].
      replace (Datatypes.S k0 - 2 ^ 0)%nat with k0 by (cbn; lia). assumption.
    - cbn [Nat.pow] in Hk. destruct (IH k s r Hr ltac:(lia)) as (s1 & E1 & R1). rewrite E1.
      destruct (IH _ s1 r R1 ltac:(lia)) as (s2 & E2 & R2). exists s2. split; [assumption|].
      replace (k - 2 ^ Datatypes.S n)%nat with (k - 2 ^ n - 2 ^ n)%nat by (cbn [Nat.pow]; lia). assumption.
  Qed.

  Lemma iter_log_reach n : forall k s r, reach k s r -> (k < 2 ^ n)%nat -> iter_log n f s = Ok (LStop r).
  Proof.
    induction n as [|n IH]; intros k s r Hr Hk; cbn [iter_log].
    - cbn in Hk. inversion Hr; subst; [assumption|lia].
    - destruct (Nat.lt_ge_cases k (2 ^ n)) as [Hlt|Hge].
      + now rewrite (IH k s r Hr Hlt).
      + destruct (iter_log_cont n k s r Hr Hge) as (s1 & E1 & R1). rewrite E1.
        apply (IH _ s1 r R1). cbn [Nat.pow] in Hk. lia.
  Qed.
End IterLog.

(** counted loops: an invariant [P k] that every continuing iteration k < n re-establishes as [P (k+1)] *)
Lemma reach_for {S R} (f : S -> res (lstep S R)) (P : nat -> S -> Prop) (n : nat) :
  (forall k s, (k < n)%nat -> P k s -> exists s', f s = Ok (LCont s') /\ P (Datatypes.S k) s') ->
  forall d k s, (k + d = n)%nat -> P k s ->
  exists sN, P n sN /\ forall r, f sN = Ok (LStop r) -> reach f d s r.
Proof.
  intros Hstep. induction d as [|d IH]; intros k s Hk HP.
  - replace k with n in HP by lia. exists s. split; [assumption|]. intros r Hr. now constructor.
  - destruct (Hstep k s ltac:(lia) HP) as (s' & Hf & HP').
    destruct (IH (Datatypes.S k) s' ltac:(lia) HP') as (sN & HN & Hr).
    exists sN. split; [assumption|]. intros r Hs. econstructor; [exact Hf|]. now apply Hr.
Qed.

Lemma exec_Sloop_reach call lf c body step e m k o :
  reach (loop_step zops c (exec zops call lf body) (exec zops call lf step)) k (e, m) o ->
  (k < 2 ^ lf)%nat ->
  exec zops call lf (Sloop c body step) e m = Ok o.
Proof. intros Hr Hk. cbn [exec]. now rewrite (iter_log_reach _ lf k (e, m) o Hr). Qed.

(** 2^LFUEL iterations are never reached by a loop over the words of an array shorter than 2^48 *)
Lemma lfuel_enough k : (Z.of_nat k < 2 ^ 48)%Z -> (k < 2 ^ LFUEL)%nat.
Proof.
  intros H. unfold LFUEL. apply Nat2Z.inj_lt. rewrite Nat2Z.inj_pow. exact H.
Qed.

(** * Unfolding equations *)
Lemma run_S p lf d f args (m : @mem Z) :
  run zops p lf (S d) f args m =
  match find_func p f with
  | None => UB "call of an unknown function"
  | Some fn =>
      do e <- bind_params (fn_params fn) args TLeaf;
      do o <- exec zops (run zops p lf d) lf (fn_body fn) e m;
      match o with
      | OReturn v m' => Ok (v, m')
      | ONormal _ m' => Ok (None, m')
      | _ => UB "break or continue outside of a loop"
      end
  end.
Proof. reflexivity. Qed.

Lemma exec_Sseq {V} (ops : vops V) call lf s1 s2 e m :
  exec ops call lf (Sseq s1 s2) e m =
  (do o <- exec ops call lf s1 e m;
   match o with ONormal e' m' => exec ops call lf s2 e' m' | _ => Ok o end).
Proof. reflexivity. Qed.

Lemma exec_Sloop {V} (ops : vops V) call lf c body step e m :
  exec ops call lf (Sloop c body step) e m =
  (do r <- iter_log lf (loop_step ops c (exec ops call lf body) (exec ops call lf step)) (e, m);
   match r with LStop o => Ok o | LCont _ => OutOfFuel end).
Proof. reflexivity. Qed.

Lemma loop_step_Some {V} (ops : vops V) c xb xs e m :
  loop_step ops (Some c) xb xs (e, m) =
  (do go <- (do v <- eval ops e m c; do z <- ctl ops v; Ok (negb (z =? 0)));
   if go then
     do o <- xb e m;
     match o with
     | ONormal e2 m2 | OContinue e2 m2 =>
         do o2 <- xs e2 m2;
         match o2 with
         | ONormal e3 m3 => Ok (LCont (e3, m3))
         | _ => UB "control transfer out of a for-step"
         end
     | OBreak e2 m2 => Ok (LStop (ONormal e2 m2))
     | OReturn v m2 => Ok (LStop (OReturn v m2))
     end
   else Ok (LStop (ONormal e m))).
Proof. reflexivity. Qed.

Lemma loop_step_None {V} (ops : vops V) xb xs e m :
  loop_step ops None xb xs (e, m) =
  (do o <- xb e m;
   match o with
   | ONormal e2 m2 | OContinue e2 m2 =>
       do o2 <- xs e2 m2;
       match o2 with
       | ONormal e3 m3 => Ok (LCont (e3, m3))
       | _ => UB "control transfer out of a for-step"
       end
   | OBreak e2 m2 => Ok (LStop (ONormal e2 m2))
   | OReturn v m2 => Ok (LStop (OReturn v m2))
   end).
Proof. reflexivity. Qed.

Lemma exec_Sif {V} (ops : vops V) call lf c s1 s2 e m :
  exec ops call lf (Sif c s1 s2) e m =
  (do b <- (do v <- eval ops e m c; do z <- ctl ops v; Ok (negb (z =? 0)));
   if b then exec ops call lf s1 e m else exec ops call lf s2 e m).
Proof. reflexivity. Qed.

(** * Tactics *)
(** unfold the interpreter; integer arithmetic, [in_range], [convert], [load], [store] and calls stay folded *)
Ltac cm_eval :=
  cbn [exec eval eval_list bind assign truth ctl as_int of_bool ptr_add
       v_const v_ctl v_unop v_binop v_shift v_cast zops c_binop c_unop c_shift arith cmpz
       signed wd tint tuint tlong tulong tschar tuchar tshort tushort
       tget tset fst snd negb andb orb bind_params fn_params fn_body fn_ret
       loop_step end_switch].

(** resolve the first stuck test [if c then _ else _] whose condition [tac] proves true or false *)
Ltac cm_if tac :=
  match goal with
  | |- context [if ?c then _ else _] =>
      first [ let H := fresh "Hc" in assert (H : c = true) by tac; rewrite H; clear H
            | let H := fresh "Hc" in assert (H : c = false) by tac; rewrite H; clear H ]
  end.

(** Statement-wise evaluation.  [cm_split] exposes the first statement of a sequence (or the test of an [if])
    and hides the rest behind an opaque variable, so that every [cbn] works on a small term;
    [cm_release] brings the continuation back once it is applied to the state reached. *)
Ltac cm_split :=
  match goal with
  | |- context [exec zops ?c ?lf (Sseq ?s1 ?s2) ?e ?m] =>
      rewrite (exec_Sseq zops c lf s1 s2 e m);
      let K := fresh "K" in let HK := fresh "HK" in remember (exec zops c lf s2) as K eqn:HK
  | |- context [exec zops ?c ?lf (Sif ?b ?s1 ?s2) ?e ?m] =>
      rewrite (exec_Sif zops c lf b s1 s2 e m);
      let K1 := fresh "K" in let HK1 := fresh "HK" in remember (exec zops c lf s1) as K1 eqn:HK1;
      let K2 := fresh "K" in let HK2 := fresh "HK" in remember (exec zops c lf s2) as K2 eqn:HK2
  end.
Ltac cm_release :=
  repeat match goal with
         | HK : ?K = exec _ _ _ _ |- context [?K ?e ?m] => subst K
         end.
