(* Leaf/ObsSpecs3.v — mzd_equal (mzd.c:1333), T1-translated (Leaf/Gen_observers.v), against the word-level model
   Word/WOps.w_equal (conventions: Leaf/ObsSpecs.v).  Both matrices live in the ONE word array (two headers hA, hB:
   windows into the same parent, or two disjoint blocks of it).
   The C test `A == B` (identity of the two mzd_t objects) is the extra parameter A__is__B of the translated
   function (tools/translate_obs.py); the theorems hold for BOTH of its values, under the hypothesis that identical
   objects have identical members.  Word/WOps.w_equal models the test by equality of the headers; for two distinct
   objects with equal headers the C code runs the scan, which is [w_equal_scan] below.
   CMini variables: 1-8 = A, 9-16 = B, 17 = A__is__B, 18 = Awidth, 19 = mask_end, 20 = i, 21 = rowa, 22 = rowb, 23 = j. *)
From Coq Require Import ZArith NArith List String Bool Lia ZifyBool ZifyNat ZifyN.
From M4 Require Import Base.Bits Lin.Mat Lin.Ops Word.WMat Word.WMatLemmas Word.WOps
  Leaf.CMini Leaf.CMiniAcc Leaf.CMiniObs Leaf.AccessSpecs Leaf.Gen_observers Leaf.ObsSpecs.
Import ListNotations.
Local Open Scope Z_scope.
Ltac Zify.zify_post_hook ::= Z.div_mod_to_equations.

(** the scan of mzd_equal (the part of [w_equal] behind the three early returns) *)
Definition w_equal_scan (hA hB : hdr) (mem : list N) : WMat.res (option bool) :=
  let Awidth := (h_width hA - 1)%nat in
  let mask_end := h_hmask hA in
  firstM (seq 0 (h_nrows hA)) (fun i =>
         let rowa := row_addr hA i in
         let rowb := row_addr hB i in
         r <- firstM (seq 0 Awidth) (fun j =>
                x <- rd mem (rowa + j) ;; y <- rd mem (rowb + j) ;;
                WMat.Ok (if negb (x =? y)%N then Some false else None)) ;;
         match r with
         | Some v => WMat.Ok (Some v)
         | None => x <- rd mem (rowa + Awidth) ;; y <- rd mem (rowb + Awidth) ;;
                   WMat.Ok (if negb (N.land (N.lxor x y) mask_end =? 0)%N then Some false else None)
         end)%nat.

Lemma w_equal_unfold hA hB mem : h_nrows hA = h_nrows hB -> h_ncols hA = h_ncols hB -> hdr_eqb hA hB = false ->
  (0 < h_width hA)%nat ->
  w_equal hA hB mem = (r <- w_equal_scan hA hB mem ;; WMat.Ok (opt_default true r)).
Proof.
  intros E1 E2 E3 Hw. unfold w_equal, w_equal_scan. rewrite E1, E2, E3, !Nat.eqb_refl. cbn [negb].
  destruct (Nat.eqb_spec (h_width hA) 0); [lia|]. reflexivity.
Qed.

Theorem obs_equal_scan_w hA flA hB flB mem r :
  valid hA mem -> valid hB mem -> c_dom hA flA mem -> c_dom hB flB mem -> (0 < h_width hA)%nat ->
  h_nrows hA = h_nrows hB -> h_ncols hA = h_ncols hB ->
  w_equal_scan hA hB mem = WMat.Ok r ->
  run_obs "mzd_equal" (hbundle hA flA (hbundle hB flB [Vint 0])) (words mem) =
  Ok (Some (Z.b2z (opt_default true r)), words mem).
Proof.
  intros HvA HvB HdA HdB Hw0 En Ec Hfirst.
  pose proof (valid_hdr_ok _ _ HvA) as HokA. pose proof (valid_hdr_ok _ _ HvB) as HokB.
  pose proof (valid_mem_ok _ _ HvA) as Hm.
  pose proof HdA as (A1 & A2 & A3 & A4 & A5 & A6). pose proof HdB as (B1 & B2 & B3 & B4 & B5 & B6).
  pose proof HokA as (HwdA & _ & HrsA). pose proof HokB as (HwdB & _ & HrsB).
  assert (Eww : h_width hB = h_width hA) by (rewrite HwdA, HwdB, Ec; reflexivity).
  pose proof (hmask_lt hA HokA) as Hhm.
  unfold w_equal_scan in Hfirst. cbv zeta in Hfirst. apply iterG_firstM in Hfirst.
  apply run_obs_intro; [reflexivity|]. unfold hbundle. change DEPTH with (S (S (S 9))).
  co_enter "mzd_equal"%string f_mzd_equal. cm_run. cm_release.
  match goal with |- context [exec zops ?cl LFUEL (Sloop ?cd ?bd ?st) ?E0 ?M0] =>
    pose (E := fun (k : nat) (_ : unit) (t : option (@val Z * @val Z * @val Z)) =>
      @pair (@env Z) (@CMini.mem Z) (match t with
       | None => tset 20%positive (Vint (Z.of_nat k)) E0
       | Some (a, b, c) => tset 23%positive c (tset 22%positive b (tset 21%positive a
                             (tset 20%positive (Vint (Z.of_nat k)) E0)))
       end) M0);
    change (exec zops cl LFUEL (Sloop cd bd st) E0 M0)
      with (exec zops cl LFUEL (Sloop cd bd st) (fst (E 0%nat tt None)) (snd (E 0%nat tt None)));
    match type of Hfirst with iterG ?G _ _ _ = _ =>
      destruct (loop_gen' cl cd bd st unit (option (@val Z * @val Z * @val Z)) bool E (h_nrows hA) G
                  (fun v => OReturn (Some (Vint (Z.b2z v))) M0)
                  (fun _ t => ONormal (fst (E (h_nrows hA) tt t)) M0)
                  (fun _ _ => True)) with (s0 := tt) (t0 := @None (@val Z * @val Z * @val Z)) (x := opt_sum r) as (t & Hloop & _)
    end
  end.
  { intros k [] t y Hk _ HG.
    assert (HkB : (k < h_nrows hB)%nat) by lia.
    assert (Hkw : (h_width hA - 1 < h_width hA)%nat) by lia.
    assert (HkwB : (h_width hA - 1 < h_width hB)%nat) by lia.
    destruct (dom_facts hA flA mem k (h_width hA - 1) HvA HdA Hk Hkw) as (HpA & HriA & HraA & HbigA & HiiA).
    destruct (dom_facts hB flB mem k (h_width hA - 1) HvB HdB HkB HkwB) as (HpB & HriB & HraB & HbigB & HiiB).
    destruct (bind_inv _ _ _ HG) as (x & Hg & Hy). apply wok_inj in Hy. subst y.
    destruct (bind_inv _ _ _ Hg) as (rin & Hin & Hg2). clear Hg HG.
    match goal with |- context [loop_step ?o ?cc ?xb ?xs (E k tt t)] =>
      assert (Hrun : exists t', loop_step o cc xb xs (E k tt t) =
                Ok (match x with
                    | Some v => LStop (OReturn (Some (Vint (Z.b2z v))) (mem_of (words mem)))
                    | None => LCont (E (S k) tt t')
                    end))
    end.
    { exists (Some (@Vint Z (Z.of_nat (h_off hA) + Z.of_nat (h_rowstride hA) * Z.of_nat k),
                    @Vint Z (Z.of_nat (h_off hB) + Z.of_nat (h_rowstride hB) * Z.of_nat k),
                    @Vint Z (Z.of_nat (h_width hA - 1)))).
      destruct t as [[[ta tb] tc]|]; unfold E; cbn [fst snd]; unfold loop_step, truth; cbn [fst snd].
      all: cm_run; rewrite run_mzd_row_const_o by lia; cm_run; rewrite run_mzd_row_const_o by lia; cm_run; cm_release.
      all: apply iterG_firstM in Hin.
      all: match goal with |- context [exec zops ?cl LFUEL (Sloop ?cd ?bd ?st) ?E0 ?M0] =>
        pose (Ei := fun (j : nat) (_ : unit) (_ : unit) =>
          @pair (@env Z) (@CMini.mem Z) (tset 23%positive (Vint (Z.of_nat j)) E0) M0);
        change (exec zops cl LFUEL (Sloop cd bd st) E0 M0)
          with (exec zops cl LFUEL (Sloop cd bd st) (fst (Ei 0%nat tt tt)) (snd (Ei 0%nat tt tt)));
        match type of Hin with iterG ?G _ _ _ = _ =>
          destruct (loop_gen' cl cd bd st unit unit bool Ei (h_width hA - 1) G
                      (fun v => OReturn (Some (Vint (Z.b2z v))) M0)
                      (fun _ _ => ONormal (fst (Ei (h_width hA - 1)%nat tt tt)) M0)
                      (fun _ _ => True)) with (s0 := tt) (t0 := tt) (x := opt_sum rin) as (ti & Hloopi & _);
          [ intros j [] [] y Hj _ HG;
            pose proof (valid_word hA mem k j HvA Hk ltac:(lia)) as HpjA;
            pose proof (valid_word hB mem k j HvB HkB ltac:(lia)) as HpjB;
            rewrite !rd_ok in HG by lia; cbn [WMat.bind] in HG; apply wok_inj in HG; subst y;
            loop_unfold Ei; cm_run;
            rewrite (nth_words_Z mem _ (row_addr hA k + j)) by lia;
            rewrite (nth_words_Z mem _ (row_addr hB k + j)) by lia;
            rewrite of_N_eqb;
            destruct (N.eqb_spec (word_at mem (row_addr hA k + j)) (word_at mem (row_addr hB k + j)));
            cbn [negb opt_sum]; cm_run;
            [ split; [exact I|]; exists tt; env_eq; lia | reflexivity ]
          | intros [] [] _; loop_unfold Ei; cm_run; reflexivity
          | exact I
          | exact Hin
          | lia
          | ]
        end
      end.
      all: rewrite Hloopi; destruct rin as [v|]; cbn [opt_sum] in *.
      1,3: apply wok_inj in Hg2; subst x; cm_run; reflexivity.
      all: rewrite !rd_ok in Hg2 by lia; cbn [WMat.bind] in Hg2; apply wok_inj in Hg2.
      all: unfold Ei; cbn [fst snd]; cm_run.
      all: rewrite (nth_words_Z mem _ (row_addr hA k + (h_width hA - 1))) by lia;
           rewrite (nth_words_Z mem _ (row_addr hB k + (h_width hA - 1))) by lia.
      all: set (xa := word_at mem (row_addr hA k + (h_width hA - 1))) in *;
           set (xb := word_at mem (row_addr hB k + (h_width hA - 1))) in *.
      all: assert (Hxa : (xa < 2 ^ 64)%N) by (apply mem_ok_word; assumption);
           assert (Hxb : (xb < 2 ^ 64)%N) by (apply mem_ok_word; assumption).
      all: replace (Z.land (Z.lxor (Z.of_N xa) (Z.of_N xb) mod M64) (Z.of_N (h_hmask hA)) mod M64)
             with (Z.of_N (N.land (N.lxor xa xb) (h_hmask hA)))
             by (rewrite of_N_land, of_N_lxor; wnorm; reflexivity).
      all: rewrite of_N_eqb0; subst x; destruct (N.eqb_spec (N.land (N.lxor xa xb) (h_hmask hA)) 0); cbn [negb]; cm_run.
      all: env_eq; try reflexivity; lia. }
    destruct Hrun as (t' & Hrun). destruct x as [v|]; cbn [opt_sum].
    - exact Hrun.
    - split; [exact I|]. exists t'. exact Hrun. }
  { intros [] t _. destruct t as [[[ta tb] tc]|]; loop_unfold E; cm_run; reflexivity. }
  { exact I. }
  { exact Hfirst. }
  { lia. }
  rewrite Hloop. destruct r as [v|]; cbn [opt_sum opt_default].
  - cm_run. cm_release. reflexivity.
  - destruct t as [[[ta tb] tc]|]; unfold E; cbn [fst snd]; cm_run; cm_release; cm_run; reflexivity.
Qed.

(** the three early returns *)
Lemma obs_equal_early hA flA hB flB mem same :
  (h_nrows hA <> h_nrows hB \/ h_ncols hA <> h_ncols hB \/ same <> 0) ->
  run_obs "mzd_equal" (hbundle hA flA (hbundle hB flB [Vint same])) (words mem) =
  Ok (Some (if (h_nrows hA =? h_nrows hB)%nat && (h_ncols hA =? h_ncols hB)%nat then 1 else 0), words mem).
Proof.
  intros H. apply run_obs_intro; [reflexivity|]. unfold hbundle. change DEPTH with (S (S (S 9))).
  co_enter "mzd_equal"%string f_mzd_equal.
  destruct (Nat.eqb_spec (h_nrows hA) (h_nrows hB)) as [En|Nn]; cbn [andb].
  2: { cm_run. reflexivity. }
  destruct (Nat.eqb_spec (h_ncols hA) (h_ncols hB)) as [Ec|Nc].
  2: { cm_run. reflexivity. }
  assert (same <> 0) by (destruct H as [?|[?|?]]; [lia|lia|assumption]).
  cm_run. reflexivity.
Qed.

(** a matrix scanned against itself *)
Lemma w_equal_scan_refl h mem : valid h mem -> (0 < h_width h)%nat -> w_equal_scan h h mem = WMat.Ok None.
Proof.
  intros Hv Hw. unfold w_equal_scan. cbv zeta. apply firstM_none. intros i Hi. apply in_seq in Hi.
  rewrite firstM_none.
  - cbn [WMat.bind]. pose proof (valid_word h mem i (h_width h - 1) Hv ltac:(lia) ltac:(lia)).
    rewrite !rd_ok by lia. cbn [WMat.bind]. rewrite N.lxor_nilpotent, N.land_0_l. reflexivity.
  - intros j Hj. apply in_seq in Hj. pose proof (valid_word h mem i j Hv ltac:(lia) ltac:(lia)).
    rewrite !rd_ok by lia. cbn [WMat.bind]. now rewrite N.eqb_refl.
Qed.
